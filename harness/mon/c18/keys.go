package c18

import (
	"fmt"
	"math"
	"sort"

	"github.com/tuneinsight/lattigo/v6/circuits/ckks/bootstrapping"
	"github.com/tuneinsight/lattigo/v6/core/rlwe"
	"github.com/tuneinsight/lattigo/v6/ring"
	"github.com/tuneinsight/lattigo/v6/ring/ringqp"

	"verif/harness/eng"
	"verif/harness/obs"
	"verif/harness/ref"
)

// smallCoeffs returns the centred coefficients of a small-norm secret given in NTT + Montgomery
// form (row 0 of its Q part), read in the ring r (level 0 is enough: |s|_inf << q0).
func smallCoeffs(r *ring.Ring, sk *rlwe.SecretKey) []int64 {
	r0 := r.AtLevel(0)
	p := r0.NewPoly()
	copy(p.Coeffs[0], sk.Value.Q.Coeffs[0])
	r0.INTT(p, p)
	r0.IMForm(p, p)
	q := r0.SubRings[0].Modulus
	out := make([]int64, r.N())
	for j, x := range p.Coeffs[0] {
		if x > q/2 {
			out[j] = -int64(q - x)
		} else {
			out[j] = int64(x)
		}
	}
	return out
}

func infNorm(s []int64) (m int64, weight int) {
	for _, x := range s {
		if x != 0 {
			weight++
		}
		if x < 0 {
			x = -x
		}
		if x > m {
			m = x
		}
	}
	return
}

// embedY maps s(Y) of degree n to s(X^{N/n}) of degree N.
func embedY(s []int64, N int) []int64 {
	gap := N / len(s)
	out := make([]int64, N)
	for j, x := range s {
		out[j*gap] = x
	}
	return out
}

// unfoldCI maps the coefficient vector a of an element of Z[X+X^-1]/(X^2n+1) (n coefficients) to the
// standard ring of degree 2n: a_0 + sum_j a_j (X^j - X^{2n-j}).
func unfoldCI(a []int64) []int64 {
	n := len(a)
	out := make([]int64, 2*n)
	out[0] = a[0]
	for j := 1; j < n; j++ {
		out[j] = a[j]
		out[2*n-j] = -a[j]
	}
	return out
}

// autInt applies X -> X^g to the integer coefficient vector s in Z[X]/(X^N+1).
func autInt(s []int64, g uint64) []int64 {
	N := uint64(len(s))
	out := make([]int64, N)
	for j := uint64(0); j < N; j++ {
		e := (j * g) % (2 * N)
		if e >= N {
			out[e-N] = -s[j]
		} else {
			out[e] = s[j]
		}
	}
	return out
}

// toNTTMont returns the polynomial with the given integer coefficients in r (all rows), NTT + Montgomery.
func toNTTMont(r *ring.Ring, s []int64) ring.Poly {
	p := r.NewPoly()
	for i, sr := range r.SubRings[:r.Level()+1] {
		q := sr.Modulus
		for j, x := range s {
			if x >= 0 {
				p.Coeffs[i][j] = uint64(x) % q
			} else {
				p.Coeffs[i][j] = q - (uint64(-x) % q)
				if p.Coeffs[i][j] == q {
					p.Coeffs[i][j] = 0
				}
			}
		}
	}
	r.NTT(p, p)
	r.MForm(p, p)
	return p
}

// phaseRow returns (c0 + c1*s) of one gadget row restricted to the ring r (Q or P part selected by
// pick), as plain coefficient-domain residues.
func phaseRow(r *ring.Ring, c0, c1, sMont ring.Poly) ring.Poly {
	out := r.NewPoly()
	r.MulCoeffsMontgomery(c1, sMont, out)
	r.Add(out, c0, out)
	r.INTT(out, out)
	r.IMForm(out, out)
	return out
}

func centredAbs(x, q uint64) uint64 {
	if x > q/2 {
		return q - x
	}
	return x
}

type keyStat struct {
	maxAbs uint64  // largest centred residue over all rows / P primes
	sum2   float64 // sum of squares (for the std) -- only meaningful when maxAbs is small
	n      int
}

// residuesUnder measures c0 + c1*s of every gadget row of evk on every P prime of the key, where the
// gadget payload vanishes. sP must live in ringP at the key's LevelP.
func residuesUnder(ringP *ring.Ring, evk *rlwe.EvaluationKey, sP ring.Poly) keyStat {
	var st keyStat
	lp := evk.LevelP()
	rp := ringP.AtLevel(lp)
	for i := range evk.Value {
		for j := range evk.Value[i] {
			el := evk.Value[i][j]
			ph := phaseRow(rp, el[0].P, el[1].P, sP)
			for k := 0; k <= lp; k++ {
				p := rp.SubRings[k].Modulus
				for _, x := range ph.Coeffs[k] {
					a := centredAbs(x, p)
					if a > st.maxAbs {
						st.maxAbs = a
					}
					if a < 1<<20 {
						st.sum2 += float64(a) * float64(a)
					}
					st.n++
				}
			}
		}
	}
	return st
}

type namedKey struct {
	name string
	evk  *rlwe.EvaluationKey
	gal  uint64 // != 0 for Galois keys
	role string // documented output secret: "skN2", "skN1", "galois", "ephemeral"
}

// checkKeys judges the bundle returned by GenEvaluationKeys from the outputs alone (plus the dense
// secrets the caller legitimately holds).
func checkKeys(c *eng.Ctx, cf cfg, btp bootstrapping.Parameters, skN1, skN2 *rlwe.SecretKey, evk *bootstrapping.EvaluationKeys) {
	paramsN1 := btp.ResidualParameters
	paramsN2 := btp.BootstrappingParameters
	N2 := paramsN2.N()
	ringQ := paramsN2.RingQ()
	ringP := paramsN2.RingP()
	B, sigma := obs.ErrBound(paramsN2.Parameters)
	bound := uint64(B)
	differentRings := paramsN1.N() != N2
	ci := paramsN1.RingType() == ring.ConjugateInvariant

	// ---- presence of the documented members
	has := func(k *rlwe.EvaluationKey) bool { return k != nil }
	c.Check(has(evk.EvkN1ToN2) == (differentRings && !ci) && has(evk.EvkN2ToN1) == (differentRings && !ci), "C18|Parameters.GenEvaluationKeys|ring-degree-switching-keys-presence", func() string {
		return fmt.Sprintf("N1=%d N2=%d ci=%v EvkN1ToN2=%v EvkN2ToN1=%v", paramsN1.N(), N2, ci, has(evk.EvkN1ToN2), has(evk.EvkN2ToN1))
	})
	c.Check(has(evk.EvkRealToCmplx) == ci && has(evk.EvkCmplxToReal) == ci, "C18|Parameters.GenEvaluationKeys|ring-type-switching-keys-presence", func() string {
		return fmt.Sprintf("ci=%v EvkRealToCmplx=%v EvkCmplxToReal=%v", ci, has(evk.EvkRealToCmplx), has(evk.EvkCmplxToReal))
	})
	c.Check(has(evk.EvkDenseToSparse) == (btp.EphemeralSecretWeight != 0) && has(evk.EvkSparseToDense) == (btp.EphemeralSecretWeight != 0), "C18|Parameters.GenEvaluationKeys|encapsulation-keys-presence", func() string {
		return fmt.Sprintf("EphemeralSecretWeight=%d EvkDenseToSparse=%v EvkSparseToDense=%v", btp.EphemeralSecretWeight, has(evk.EvkDenseToSparse), has(evk.EvkSparseToDense))
	})
	if evk.MemEvaluationKeySet == nil {
		c.Violate("C18|Parameters.GenEvaluationKeys|no-key-set", "MemEvaluationKeySet is nil", cf)
		return
	}

	// ---- Galois key list == Parameters.GaloisElements ∪ {conjugation}
	want := map[uint64]bool{paramsN2.GaloisElementForComplexConjugation(): true}
	for _, g := range btp.GaloisElements(paramsN2) {
		want[g] = true
	}
	got := map[uint64]bool{}
	for _, g := range evk.GetGaloisKeysList() {
		got[g] = true
	}
	var missing, extra []uint64
	for g := range want {
		if !got[g] {
			missing = append(missing, g)
		}
	}
	for g := range got {
		if !want[g] {
			extra = append(extra, g)
		}
	}
	sort.Slice(missing, func(i, j int) bool { return missing[i] < missing[j] })
	sort.Slice(extra, func(i, j int) bool { return extra[i] < extra[j] })
	c.Check(len(missing) == 0, "C18|Parameters.GenEvaluationKeys|galois-key-missing", func() string { return fmt.Sprintf("missing Galois elements %v", missing) })
	c.Check(len(extra) == 0, "C18|Parameters.GenEvaluationKeys|galois-key-beyond-advertised-list", func() string { return fmt.Sprintf("extra Galois elements %v", extra) })
	c.Count("galois_keys_seen", int64(len(got)))

	// ---- dense candidate secrets, as integer coefficient vectors of the ring of degree N2
	s2 := smallCoeffs(ringQ, skN2)
	s1 := smallCoeffs(paramsN1.RingQ(), skN1)
	var s1emb []int64
	if ci {
		s1emb = unfoldCI(s1)
	} else {
		s1emb = embedY(s1, N2)
	}
	if m, _ := infNorm(s2); m > 1 {
		c.Violate("C18|Parameters.GenEvaluationKeys|returned-secret-not-ternary", fmt.Sprintf("|skN2|inf=%d", m), cf)
		return
	}
	if !differentRings {
		same := true
		for j := range s2 {
			if s2[j] != s1emb[j] {
				same = false
			}
		}
		c.Check(same, "C18|Parameters.GenEvaluationKeys|returned-secret-differs-from-input-secret", nil)
	}
	type cand struct {
		name string
		p    ring.Poly
	}
	cands := []cand{{"skN2", toNTTMont(ringP, s2)}}
	if differentRings {
		cands = append(cands, cand{"skN1", toNTTMont(ringP, s1emb)})
	}

	var keys []namedKey
	rlk, err := evk.GetRelinearizationKey()
	if err != nil || rlk == nil {
		c.Violate("C18|Parameters.GenEvaluationKeys|relinearization-key-missing", fmt.Sprint(err), cf)
	} else {
		keys = append(keys, namedKey{"rlk", &rlk.EvaluationKey, 0, "skN2"})
	}
	gl := evk.GetGaloisKeysList()
	sort.Slice(gl, func(i, j int) bool { return gl[i] < gl[j] })
	for _, g := range gl {
		gk, err := evk.GetGaloisKey(g)
		if err != nil {
			continue
		}
		c.Check(gk.GaloisElement == g && gk.NthRoot == ringQ.NthRoot(), "C18|Parameters.GenEvaluationKeys|galois-key-metadata", func() string {
			return fmt.Sprintf("map key %d holds GaloisElement=%d NthRoot=%d", g, gk.GaloisElement, gk.NthRoot)
		})
		keys = append(keys, namedKey{fmt.Sprintf("gk(%d)", g), &gk.EvaluationKey, g, "galois"})
	}
	for _, k := range []namedKey{
		{"EvkN1ToN2", evk.EvkN1ToN2, 0, "skN2"}, {"EvkN2ToN1", evk.EvkN2ToN1, 0, "skN1"},
		{"EvkRealToCmplx", evk.EvkRealToCmplx, 0, "skN2"}, {"EvkCmplxToReal", evk.EvkCmplxToReal, 0, "skN1"},
		{"EvkSparseToDense", evk.EvkSparseToDense, 0, "skN2"}, {"EvkDenseToSparse", evk.EvkDenseToSparse, 0, "ephemeral"},
	} {
		if k.evk != nil {
			keys = append(keys, k)
		}
	}

	minWrong := math.Inf(1)
	for _, k := range keys {
		kname := k.name
		if k.gal != 0 {
			kname = "gk"
		}
		lq, lp := k.evk.LevelQ(), k.evk.LevelP()
		if lp < 0 {
			// no auxiliary modulus: the payload does not vanish anywhere convenient; not produced by this helper
			c.Violate("C18|Parameters.GenEvaluationKeys|"+kname+"|key-without-auxiliary-modulus", fmt.Sprintf("%s LevelQ=%d LevelP=%d", k.name, lq, lp), cf)
			continue
		}
		cs := cands
		if k.gal != 0 {
			ginv := ring.ModExp(k.gal, ringQ.NthRoot()-1, ringQ.NthRoot()) // g^-1 mod 2N (g odd: g^(phi-1); 2N power of two => exponent 2N-1 works since g^(N) = 1)
			// exact inverse by search-free identity: g * ginv = 1 mod 2N is verified, else fall back to the library helper
			if (k.gal*ginv)%ringQ.NthRoot() != 1 {
				ginv = paramsN2.ModInvGaloisElement(k.gal)
			}
			cs = append([]cand{{"aut(skN2)", toNTTMont(ringP, autInt(s2, ginv))}}, cands...)
		}
		decBy := ""
		var dst keyStat
		for _, cd := range cs {
			st := residuesUnder(ringP, k.evk, cd.p)
			if st.maxAbs <= bound {
				if decBy == "" {
					decBy, dst = cd.name, st
				}
			} else if l := math.Log2(float64(st.maxAbs)); l < minWrong {
				minWrong = l
			}
		}
		c.Eval(1)
		c.Count("keys_classified", 1)
		c.Distinct(fmt.Sprintf("key/%s/%s/lq%d/lp%d/%s", cf.Name, kname, lq, lp, decBy), true)
		if decBy == "" {
			// protected by no dense secret the harness knows: by construction an ephemeral-secret key
			c.Count("keys_under_unknown_secret", 1)
			c.Check(lq == 0 && lp == 0, "C18|Parameters.GenEvaluationKeys|"+kname+"|sparse-secret-key-above-smallest-modulus", func() string {
				return fmt.Sprintf("%s is decryptable by none of the dense secrets (so it is protected only by the ephemeral weight-%d secret) but is generated at LevelQ=%d LevelP=%d (modulus of %d Q and %d P primes); it must be at level (0,0) = q0*p0 [advisory 04.2025]", k.name, btp.EphemeralSecretWeight, lq, lp, lq+1, lp+1)
			})
			c.Check(k.role == "ephemeral", "C18|Parameters.GenEvaluationKeys|"+kname+"|not-under-documented-output-secret", func() string {
				return fmt.Sprintf("%s should be an encryption under %s but no dense candidate decrypts its rows (P residues uniform)", k.name, k.role)
			})
			continue
		}
		c.Count("keys_under_dense_secret", 1)
		// role: documented output secret
		wantBy := map[string]string{"skN2": "skN2", "skN1": "skN1", "galois": "aut(skN2)", "ephemeral": ""}[k.role]
		if !differentRings && wantBy == "skN1" {
			wantBy = "skN2"
		}
		if k.gal != 0 && decBy == "skN2" {
			// pi_{g^-1}(s) == s is impossible for a random ternary secret unless g = 1
			wantBy = "aut(skN2)"
		}
		c.Check(decBy == wantBy, "C18|Parameters.GenEvaluationKeys|"+kname+"|not-under-documented-output-secret", func() string {
			return fmt.Sprintf("%s decrypts under %s, documented output secret is %q", k.name, decBy, wantBy)
		})
		// non-degenerate noise (C03's lower bound): std within [sigma/2, 2 sigma], not identically zero
		std := math.Sqrt(dst.sum2 / float64(dst.n))
		c.Max("max_dense_key_noise", int64(dst.maxAbs))
		c.Check(std >= sigma/2 && std <= 2*sigma, "C18|Parameters.GenEvaluationKeys|"+kname+"|degenerate-key-noise", func() string {
			return fmt.Sprintf("%s: noise std %.3f over %d residues, nominal %.2f", k.name, std, dst.n, sigma)
		})
	}
	if !math.IsInf(minWrong, 1) {
		// evidence of the separation: smallest log2(max residue) seen under a wrong secret
		c.Max("max_64_minus_log2_of_smallest_residue_under_a_wrong_secret", int64(64-minWrong))
	}

	// ---- the ephemeral secret is recoverable from EvkSparseToDense by whoever holds skN2 (it is the
	// payload); use it to check its weight and that EvkDenseToSparse really is skN2 -> ephemeral at q0*p0
	if evk.EvkSparseToDense != nil && evk.EvkDenseToSparse != nil {
		checkEncapsulation(c, cf, btp, s2, evk)
	}
}

func prodMod(ps []uint64, q uint64) uint64 {
	r := uint64(1)
	for _, p := range ps {
		r = ref.MulMod(r, p%q, q)
	}
	return r
}

// recoverPayload reads the ternary payload s_in of the first gadget row of evk (an encryption under
// sOut) from its q0 residue: c0 + c1*sOut = e + P * s_in mod q0.
func recoverPayload(ringQ, ringP *ring.Ring, evk *rlwe.EvaluationKey, sOut []int64, bound uint64) (s []int64, ok bool) {
	r0 := ringQ.AtLevel(0)
	q0 := r0.SubRings[0].Modulus
	el := evk.Value[0][0]
	c0 := ring.Poly{Coeffs: el[0].Q.Coeffs[:1]}
	c1 := ring.Poly{Coeffs: el[1].Q.Coeffs[:1]}
	ph := phaseRow(r0, c0, c1, toNTTMont(r0, sOut))
	P := prodMod(ringP.ModuliChain()[:evk.LevelP()+1], q0)
	s = make([]int64, r0.N())
	for j, x := range ph.Coeffs[0] {
		fits := 0
		for _, t := range []int64{0, 1, -1} {
			var y uint64
			switch t {
			case 0:
				y = x
			case 1:
				y = ref.SubMod(x, P, q0)
			case -1:
				y = ref.AddMod(x, P, q0)
			}
			if centredAbs(y, q0) <= bound {
				s[j] = t
				fits++
			}
		}
		if fits != 1 {
			return nil, false
		}
	}
	return s, true
}

func checkEncapsulation(c *eng.Ctx, cf cfg, btp bootstrapping.Parameters, s2 []int64, evk *bootstrapping.EvaluationKeys) {
	paramsN2 := btp.BootstrappingParameters
	ringQ, ringP := paramsN2.RingQ(), paramsN2.RingP()
	B, _ := obs.ErrBound(paramsN2.Parameters)
	bound := uint64(B)
	sSparse, ok := recoverPayload(ringQ, ringP, evk.EvkSparseToDense, s2, bound)
	c.Eval(1)
	if !ok {
		c.Violate("C18|Parameters.GenEvaluationKeys|EvkSparseToDense|payload-not-a-ternary-secret", "row 0 of EvkSparseToDense under skN2 is not e + P*s with s ternary, |e| <= floor(B+1/2)", cf)
		return
	}
	_, w := infNorm(sSparse)
	c.Count("ephemeral_secrets_recovered", 1)
	c.Check(w == btp.EphemeralSecretWeight, "C18|Parameters.GenEvaluationKeys|ephemeral-secret-weight", func() string {
		return fmt.Sprintf("ephemeral secret recovered from EvkSparseToDense has Hamming weight %d, announced EphemeralSecretWeight=%d", w, btp.EphemeralSecretWeight)
	})
	d2s := evk.EvkDenseToSparse
	if d2s.LevelQ() != 0 || d2s.LevelP() != 0 {
		return // reported by the confinement clause
	}
	// EvkDenseToSparse under the recovered secret: noise on p0, payload skN2 on q0
	rp0 := ringP.AtLevel(0)
	st := residuesUnder(ringP, d2s, toNTTMont(rp0, sSparse))
	c.Check(st.maxAbs <= bound, "C18|Parameters.GenEvaluationKeys|EvkDenseToSparse|not-under-the-ephemeral-secret-of-EvkSparseToDense", func() string {
		return fmt.Sprintf("max |c0+c1*s_eph mod p0| = %d > %d", st.maxAbs, bound)
	})
	if st.maxAbs <= bound {
		pay, ok := recoverPayload(ringQ, ringP, d2s, sSparse, bound)
		same := ok
		if ok {
			for j := range pay {
				if pay[j] != s2[j] {
					same = false
				}
			}
		}
		c.Check(same, "C18|Parameters.GenEvaluationKeys|EvkDenseToSparse|payload-is-not-skN2", nil)
	}
	// a key switched through the pair: number of rows of the small key is 1 (single digit at q0*p0)
	c.Check(len(d2s.Value) == 1 && len(d2s.Value[0]) == 1, "C18|Parameters.GenEvaluationKeys|EvkDenseToSparse|gadget-dimensions", func() string {
		return fmt.Sprintf("rows=%d", len(d2s.Value))
	})
	_ = ringqp.Poly{}
	_ = eng.Pick[int]
}
