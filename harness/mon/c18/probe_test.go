package c18

import (
	"fmt"
	"math"
	"testing"

	"github.com/tuneinsight/lattigo/v6/circuits/ckks/mod1"
	"github.com/tuneinsight/lattigo/v6/schemes/ckks"
	"github.com/tuneinsight/lattigo/v6/utils/bignum"
	"math/big"
)

// plaintext-side evaluation of the mod1 polynomial: where is it accurate?
func TestProbeMod1Poly(t *testing.T) {
	params, _ := ckks.NewParametersFromLiteral(ckks.ParametersLiteral{LogN: 6, LogQ: []int{60, 60}, LogP: []int{61}, LogDefaultScale: 45})
	for _, m := range []mod1Cfg{
		{"a", 8, 0, 16, 30, 3, 0, 13, 60},
		{"b", 8, 0, 16, 30, 3, 0, 8, 60},
		{"c", 8, 0, 12, 30, 3, 0, 8, 60},
		{"d", 8, 0, 8, 47, 1, 0, 12, 60},
		{"e", 8, 0, 8, 47, 1, 0, 8, 60},
	} {
		mp, err := mod1.NewParametersFromLiteral(params, m.lit(1))
		if err != nil {
			t.Fatal(err)
		}
		poly := mp.Mod1Poly
		A, _ := poly.A.Float64()
		B, _ := poly.B.Float64()
		fmt.Printf("%+v basis=%v A=%v B=%v deg=%d\n", m, poly.Basis, A, B, poly.Degree())
		r := math.Exp2(float64(mp.DoubleAngle))
		for k := 0; k <= m.K; k++ {
			worst := 0.0
			for _, f := range []float64{-1, -0.5, 0, 0.5, 1} {
				x := float64(k) + f/mp.MessageRatio()
				// circuit: y = poly((x - 0.25)/r) ; double angle r times ; result ~ sin(2 pi x)/(2 pi)
				arg := (x - 0.25) / r
				y := poly.Evaluate(bignum.NewFloat(arg, 128))
				yf, _ := y[0].Float64()
				s2 := mp.Sqrt2Pi
				for i := 0; i < mp.DoubleAngle; i++ {
					s2 *= s2
					yf = 2*yf*yf - s2
				}
				want := math.Sin(2*math.Pi*x) / (2 * math.Pi) * mp.QDiff
				worst = math.Max(worst, math.Abs(yf-want)*mp.MessageRatio())
			}
			fmt.Printf("  k=%2d err(in message units)=2^%.1f\n", k, math.Log2(worst+1e-300))
		}
	}
	_ = big.NewFloat
}
