package c18

import (
	"fmt"
	"math"
	"math/big"
	"strings"

	"github.com/tuneinsight/lattigo/v6/circuits/ckks/dft"
	"github.com/tuneinsight/lattigo/v6/core/rlwe"
	"github.com/tuneinsight/lattigo/v6/ring"
	"github.com/tuneinsight/lattigo/v6/schemes/ckks"
	"github.com/tuneinsight/lattigo/v6/utils"

	"verif/harness/eng"
)

type dftCfg struct {
	LogN     int     `json:"logN"`
	LogSlots int     `json:"logSlots"`
	Enc      []int   `json:"encLevels"`
	Dec      []int   `json:"decLevels"`
	Format   int     `json:"format"`
	BitRev   bool    `json:"bitReversed"`
	LogBSGS  int     `json:"logBSGSRatio"`
	NP       int     `json:"nP"`
	Scaling  float64 `json:"scaling,omitempty"`
}

func shared(l []int) bool {
	for _, x := range l {
		if x > 1 {
			return true
		}
	}
	return false
}

func splitDepth(r *eng.Rand, total int, allowShared bool) []int {
	var l []int
	for total > 0 {
		g := 1
		if allowShared && total >= 2 && r.N(3) == 0 {
			g = 2
		}
		l = append(l, g)
		total -= g
	}
	return l
}

func dftCases(tier string, r *eng.Rand) []eng.Case {
	n := 40
	if tier == "thorough" {
		n = 400
	}
	var out []eng.Case
	for i := 0; i < n; i++ {
		d := dftCfg{LogN: eng.Pick(r, 5, 6, 7, 8, 9)}
		if tier != "thorough" && d.LogN == 9 {
			d.LogN = 7
		}
		d.LogSlots = 1 + r.N(d.LogN-1)
		if r.N(3) == 0 {
			d.LogSlots = d.LogN - 1
		}
		allowShared := i%5 == 4
		d.Enc = splitDepth(r, 1+r.N(min(4, d.LogSlots)), allowShared)
		d.Dec = splitDepth(r, 1+r.N(min(4, d.LogSlots)), allowShared)
		d.Format = eng.Pick(r, int(dft.RepackImagAsReal), int(dft.RepackImagAsReal), int(dft.SplitRealAndImag), int(dft.Standard))
		d.BitRev = r.N(4) == 0
		d.LogBSGS = r.N(3)
		d.NP = 1 + r.N(2)
		if r.N(3) == 0 {
			d.Scaling = eng.Pick(r, 0.5, 2.0, 0.125)
		}
		dd := d
		out = append(out, eng.Case{ID: fmt.Sprintf("dft/%d/n%d-s%d-e%v-d%v-f%d-br%v", i, d.LogN, d.LogSlots, d.Enc, d.Dec, d.Format, d.BitRev), Sig: "C18|dft", Desc: dd,
			Run: func(c *eng.Ctx) { runDFT(c, dd) }})
	}
	return out
}

func bitrev(i, bits int) int {
	o := 0
	for b := 0; b < bits; b++ {
		o = o<<1 | (i>>b)&1
	}
	return o
}

func runDFT(c *eng.Ctx, d dftCfg) {
	depth := len(d.Enc) + len(d.Dec)
	logQ := []int{55}
	for i := 0; i < depth; i++ {
		logQ = append(logQ, 45)
	}
	logP := make([]int, d.NP)
	for i := range logP {
		logP[i] = 60
	}
	params, err := ckks.NewParametersFromLiteral(ckks.ParametersLiteral{LogN: d.LogN, LogQ: logQ, LogP: logP, LogDefaultScale: 45, Xs: ring.Ternary{H: min(64, 1<<(d.LogN-1))}})
	if err != nil {
		c.Violate("C18|dft|ckks.NewParametersFromLiteral|error", err.Error(), d)
		return
	}
	c.Sample(map[string]any{"kind": "dft", "config": d})
	preds := ""
	if shared(d.Enc) || shared(d.Dec) {
		preds = "|shared-prime"
	}
	var scaling *big.Float
	if d.Scaling != 0 {
		scaling = new(big.Float).SetFloat64(d.Scaling)
	}
	encLit := dft.MatrixLiteral{Type: dft.HomomorphicEncode, LogSlots: d.LogSlots, LevelQ: params.MaxLevel(), LevelP: params.MaxLevelP(), Levels: d.Enc,
		Format: dft.Format(d.Format), BitReversed: d.BitRev, LogBSGSRatio: d.LogBSGS, Scaling: scaling}
	decLit := dft.MatrixLiteral{Type: dft.HomomorphicDecode, LogSlots: d.LogSlots, LevelQ: params.MaxLevel() - len(d.Enc), LevelP: params.MaxLevelP(), Levels: d.Dec,
		Format: dft.Format(d.Format), BitReversed: d.BitRev, LogBSGSRatio: d.LogBSGS}
	if scaling != nil {
		decLit.Scaling = new(big.Float).Quo(big.NewFloat(1), scaling)
	}
	ecd := ckks.NewEncoder(params)
	var encM, decM dft.Matrix
	if !c.Try("C18|dft.NewMatrixFromLiteral", func() {
		if encM, err = dft.NewMatrixFromLiteral(params, encLit, ecd); err == nil {
			decM, err = dft.NewMatrixFromLiteral(params, decLit, ecd)
		}
	}) {
		return
	}
	if err != nil {
		c.Violate("C18|dft.NewMatrixFromLiteral|error-on-admissible", err.Error(), d)
		return
	}
	kgen := rlwe.NewKeyGenerator(params)
	sk := kgen.GenSecretKeyNew()
	// exactly the advertised Galois elements + conjugation: the transforms must not ask for more
	gal := map[uint64]bool{params.GaloisElementOrderTwoOrthogonalSubgroup(): true}
	for _, g := range encLit.GaloisElements(params) {
		gal[g] = true
	}
	for _, g := range decLit.GaloisElements(params) {
		gal[g] = true
	}
	evk := rlwe.NewMemEvaluationKeySet(nil, kgen.GenGaloisKeysNew(utils.GetKeys(gal), sk)...)
	eval := dft.NewEvaluator(params, ckks.NewEvaluator(params, evk))
	enc := rlwe.NewEncryptor(params, sk)
	dec := rlwe.NewDecryptor(params, sk)

	n := 1 << d.LogSlots
	sparse := d.LogSlots < params.LogMaxSlots()
	r := c.Rand()
	z := make([]complex128, n)
	for i := range z {
		z[i] = complex(2*r.F64()-1, 2*r.F64()-1)
	}
	// coefficient vector whose homomorphic encoding is z: c_i = Re z_rev(i), c_{n+i} = Im z_rev(i)
	cf := make([]float64, 2*n)
	for i := 0; i < n; i++ {
		u := z[bitrev(i, d.LogSlots)]
		cf[i], cf[n+i] = real(u), imag(u)
	}
	emb := newEmbedding(d.LogSlots)
	in := emb.slots(cf)
	pt := ckks.NewPlaintext(params, params.MaxLevel())
	pt.LogDimensions = ring.Dimensions{Rows: 0, Cols: d.LogSlots}
	if err = ecd.Encode(in, pt); err != nil {
		panic(err)
	}
	ct, err := enc.EncryptNew(pt)
	if err != nil {
		panic(err)
	}
	decode := func(x *rlwe.Ciphertext, logSlots int) []complex128 {
		y := x.CopyNew()
		y.LogDimensions = ring.Dimensions{Rows: 0, Cols: logSlots}
		o := make([]complex128, 1<<logSlots)
		if err := ecd.Decode(dec.DecryptNew(y), o); err != nil {
			panic(err)
		}
		return o
	}
	s := 1.0
	if d.Scaling != 0 {
		s = d.Scaling
	}
	tol := math.Exp2(dftTolLog2(d.LogN))
	if preds != "" {
		// matrices that share a prime carry half its bits as scale (2^22.5): measured 2^-19..2^-9 on a repaired copy
		tol = math.Exp2(-6)
	}
	key := fmt.Sprintf("dft/n%d/s%d/e%v/d%v/f%d/%v/b%d/p%d/%g", d.LogN, d.LogSlots, d.Enc, d.Dec, d.Format, d.BitRev, d.LogBSGS, d.NP, d.Scaling)
	c.Distinct(key, true)

	var ctReal, ctImag *rlwe.Ciphertext
	if !c.Try("C18|dft.Evaluator.CoeffsToSlots", func() { ctReal, ctImag, err = eval.CoeffsToSlotsNew(ct, encM) }) {
		return
	}
	if err != nil {
		c.Violate("C18|dft.Evaluator.CoeffsToSlots|error-on-admissible"+preds, err.Error(), d)
		return
	}
	c.Count("dft_transforms", 1)
	wantL := params.MaxLevel() - len(d.Enc)
	std := dft.Format(d.Format) == dft.Standard
	if std {
		ctImag = nil // the regular DFT has a single (complex) output; CoeffsToSlotsNew leaves the second ciphertext untouched
	}
	okL := c.Check(ctReal.Level() == wantL && (ctImag == nil || ctImag.Level() == wantL), "C18|dft.Evaluator.CoeffsToSlots|levels-consumed-differ-from-Depth"+preds, func() string {
		return fmt.Sprintf("Levels=%v: Depth(true)=%d but output at level %d from %d", d.Enc, len(d.Enc), ctReal.Level(), params.MaxLevel())
	})
	c.Check(std || (ctImag != nil) == !sparse, "C18|dft.Evaluator.CoeffsToSlotsNew|imaginary-ciphertext-presence", nil)
	// --- plaintext model of the encoding (natural order only)
	if !d.BitRev && okL {
		var have, want []complex128
		switch {
		case dft.Format(d.Format) == dft.Standard:
			have = decode(ctReal, d.LogSlots)
			want = z
		case sparse && dft.Format(d.Format) == dft.RepackImagAsReal:
			have = decode(ctReal, d.LogSlots+1)
			want = make([]complex128, 2*n)
			for i := range z {
				want[i], want[n+i] = complex(real(z[i]), 0), complex(imag(z[i]), 0)
			}
		case sparse:
			have = decode(ctReal, d.LogSlots)
			want = make([]complex128, n)
			for i := range z {
				want[i] = complex(real(z[i]), 0)
			}
		default:
			have = append(decode(ctReal, d.LogSlots), decode(ctImag, d.LogSlots)...)
			want = make([]complex128, 2*n)
			for i := range z {
				want[i], want[n+i] = complex(real(z[i]), 0), complex(imag(z[i]), 0)
			}
		}
		for i := range want {
			want[i] *= complex(s, 0)
		}
		e := maxAbsDiff(have, want)
		c.Max("max_dft_err_over_tolerance_x1e6"+strings.ReplaceAll(preds, "|", "_"), int64(1e6*e/tol))
		c.Check(e <= tol*math.Max(1, s), "C18|dft.Evaluator.CoeffsToSlots|differs-from-coefficient-model"+preds, func() string {
			return fmt.Sprintf("max error 2^%.1f > 2^%.1f (%+v)", math.Log2(e), math.Log2(tol), d)
		})
	}
	// --- composition: decoding the encoding gives the input back
	if !okL || (sparse && dft.Format(d.Format) == dft.SplitRealAndImag) {
		return
	}
	var back *rlwe.Ciphertext
	if !c.Try("C18|dft.Evaluator.SlotsToCoeffs", func() { back, err = eval.SlotsToCoeffsNew(ctReal, ctImag, decM) }) {
		return
	}
	if err != nil {
		c.Violate("C18|dft.Evaluator.SlotsToCoeffs|error-on-admissible"+preds, err.Error(), d)
		return
	}
	c.Count("dft_transforms", 1)
	if !c.Check(back.Level() == wantL-len(d.Dec), "C18|dft.Evaluator.SlotsToCoeffs|levels-consumed-differ-from-Depth"+preds, func() string {
		return fmt.Sprintf("Levels=%v: Depth(true)=%d but output at level %d from %d", d.Dec, len(d.Dec), back.Level(), wantL)
	}) {
		return
	}
	have := decode(back, d.LogSlots)
	e := maxAbsDiff(have, in)
	c.Max("max_dft_roundtrip_err_over_tolerance_x1e6"+strings.ReplaceAll(preds, "|", "_"), int64(1e6*e/tol))
	c.Check(e <= tol*math.Max(1, maxAbs(in)), "C18|dft.Evaluator.SlotsToCoeffs-after-CoeffsToSlots|not-identity"+preds, func() string {
		return fmt.Sprintf("max error 2^%.1f > 2^%.1f (%+v)", math.Log2(e), math.Log2(tol), d)
	})
}

// dftTolLog2: tolerance of the DFT checks (scale 2^45, <= 8 matrices, unit inputs): far above the
// measured 2^-33..2^-28 and far below the O(1) error of a wrong transform.
func dftTolLog2(logN int) float64 { return -20 }
