// Package c18: bootstrapping restores levels, preserves the message, confines sparse keys.
//
// Oracles
//   - Bootstrap / BootstrapMany / Evaluate: the harness holds the secret; the output is decrypted and
//     compared with a plaintext-side model of the documented circuit (coefficient-wise
//     q0/2pi * sin(2pi m/q0), optional arcsine series) computed with the harness' own canonical
//     embedding; the residual must stay below the frozen error floor of the parameter set + 6 bits.
//     Level and scale are compared exactly.
//   - GenEvaluationKeys: every key of the bundle is classified from its P-prime residues under the
//     dense secrets the harness legitimately holds; a key that no dense secret decrypts is protected
//     only by the ephemeral low-weight secret and must be at level (0,0). The ephemeral secret is
//     re-derived from EvkSparseToDense to check its weight and EvkDenseToSparse.
//   - dft: CoeffsToSlots / SlotsToCoeffs against the coefficient <-> slot model, and their composition.
//   - mod1: EvaluateNew against x mod 1 on the stated interval.
package c18

import (
	"fmt"
	"os"
	"strings"

	"github.com/tuneinsight/lattigo/v6/schemes/ckks"

	"verif/harness/eng"
)

var calibPath = os.Getenv("C18_CALIB")

func init() {
	eng.Register(&eng.Monitor{
		ID: "C18", Level: "exploration",
		Rule:  "cases = (kind, parameter set, input draw). kind btp: one of the named reduced-size bootstrapping parameter sets (the 8 exported defaults at log N = 10 + sets switching one circuit option: ring degree 8..11, sparse slots, N1<N2, conjugate-invariant residual ring, dense/sparse secret x ephemeral weight 0/8/32, Mod1Type, double angle 0..3, arcsine degree, DFT depth splits, EvalMod scale, auxiliary primes, circuit order, iterations with/without reserved prime, 2^80 scale); keys are generated and classified, then several calls are drawn (API, input level min..max, ciphertext slots 1..max, batch 1..4, message class up to the announced ratio, level-0 scale, ShallowCopy). kind keys: randomly drawn literals (log N 9..12), key generation + classification only. kind dft / mod1: transforms against their plaintext model. kind struct: the full-size exported defaults, parameters only. audit extension: every btp session adds a call with an exact power-of-two non-default scale at level >= 1 or a chain Bootstrap(DropLevel(Bootstrap(ct))), offers NewEvaluator a bundle lacking one non-Galois member, round-trips the parameters object and (conjugate-invariant sets) ComplexToRealNew(RealToComplexNew(ct)); kind steps: ScaleDown, ModUp, CoeffsToSlots, EvalMod / EvalModAndScale(s), SlotsToCoeffs called one by one (levels after every step, bit-identical to Evaluate on a ShallowCopy, s*message on an evaluator built from transported parameters and keys); kind pack: PackAndSwitchN1ToN2 / UnpackAndSwitchN2ToN1 called directly (identity, shapes, bit-identical to BootstrapMany; original, copy, copy of a copy); kind dftx: CoeffsToSlots after SlotsToCoeffs, caller-provided dirty receivers used twice vs the allocating variants, input one level above MatrixLiteral.LevelQ (log N 4..8); kind mod1x: EvaluateAndScaleNew with real / negative / complex factors, ParametersLiteral.Scaling, input above LevelQ. distinct key = (kind, set, API, level, slots, batch, message class, scale class, copy) resp. (set, key name, levels, classification) resp. (transform, shape) resp. (steps|pack|dftx|mod1x, set, variant, level, slots, batch, factor); non-trivial = anything but the stock test shape (level 0, full slots, single ciphertext, unit message, default scale, original evaluator, N1 = N2), every key classification, every transform shape.",
		Cases: cases,
		Assumptions: []string{
			"precision floors are measured on the unchanged tree (max over calibration runs) and frozen; verdict threshold = floor + 6 bits + 25% of the documented sin distortion of the message",
			"K-1 >= 8.5 standard deviations of the integer part for every set, so the (announced, negligible) failure probability of the modular reduction is ignored",
			"key classification uses lattigo's NTT/Montgomery kernels (judged by C01) on P-prime residues; worst-case error bound floor(6 sigma + 1/2)",
			"full-size defaults (log N 15/16) are checked structurally only: their keys need tens of GB",
			"homomorphic evaluation is deterministic: two evaluators holding the same keys return bit-identical ciphertexts for the same input (used as differential oracle for the step-by-step circuit, packing and caller-provided receivers)",
			"EvalModAndScale / EvaluateAndScaleNew / ParametersLiteral.Scaling by a factor s: threshold of the set times max(1,|s|)",
		},
	})
}

func cases(tier string, seed int64) []eng.Case {
	r := eng.NewRand("c18-cases", seed)
	var out []eng.Case
	thorough := tier == "thorough"

	// ---- bootstrapping runs
	nPer, nIn := 1, 4
	if thorough {
		nPer, nIn = 5, 6
	}
	if calibPath != "" {
		nPer, nIn = 6, 6
	}
	for _, cf := range namedConfigs() {
		for i := 0; i < nPer; i++ {
			cf, i := cf, i
			out = append(out, eng.Case{ID: fmt.Sprintf("btp/%s/%d", cf.Name, i), Sig: "C18|bootstrap", Desc: cf,
				Run: func(c *eng.Ctx) { runBtp(c, cf, i, nIn) }})
		}
	}
	// ---- key generation only, random literals
	nKeys := 24
	if thorough {
		nKeys = 160
	}
	for i := 0; i < nKeys; i++ {
		cf := randomKeyCfg(r, i)
		out = append(out, eng.Case{ID: fmt.Sprintf("keys/%d/%s", i, cf.Name), Sig: "C18|keys", Desc: cf,
			Run: func(c *eng.Ctx) { runKeys(c, cf) }})
	}
	out = append(out, helperCases()...)
	out = append(out, dftCases(tier, r)...)
	out = append(out, mod1Cases(tier, r)...)
	out = append(out, structCases()...)
	if calibPath == "" {
		// coverage-audit extension families (own random stream: the draws above are unchanged)
		xr := eng.NewRand("c18-cases-audit", seed)
		out = append(out, stepsCases(tier)...)
		out = append(out, dftExtCases(tier, xr)...)
		out = append(out, mod1ExtCases(tier)...)
	}
	if only := os.Getenv("C18_ONLY"); only != "" && calibPath != "" {
		// calibration aid: restrict to one kind
		var f []eng.Case
		for _, cs := range out {
			if strings.HasPrefix(cs.ID, only) {
				f = append(f, cs)
			}
		}
		out = f
	}
	if only := os.Getenv("C18_CASES"); only != "" {
		// debugging / mutation-check aid: comma-separated case-id prefixes (unset in normal runs)
		var f []eng.Case
		for _, cs := range out {
			for _, p := range strings.Split(only, ",") {
				if strings.HasPrefix(cs.ID, p) {
					f = append(f, cs)
					break
				}
			}
		}
		out = f
	}
	// spread kinds over the shards
	p := r.Perm(len(out))
	sh := make([]eng.Case, len(out))
	for i, j := range p {
		sh[i] = out[j]
	}
	return sh
}

// runBtp: one session on a named set + nIn calls.
func runBtp(c *eng.Ctx, cf cfg, idx, nIn int) {
	if !cf.intervalOK() {
		c.Inconclusive(fmt.Sprintf("configuration %s keeps only %.1f sigma", cf.Name, cf.kSigmas()))
		return
	}
	s := newSession(c, cf)
	if s == nil {
		return
	}
	r := c.Rand()
	ins := s.drawInputs(r, idx, nIn)
	c.Sample(map[string]any{"kind": "btp", "config": cf, "inputs": ins, "galois_keys": len(s.evk.GetGaloisKeysList()),
		"Q_primes": s.btp.BootstrappingParameters.QCount(), "P_primes": s.btp.BootstrappingParameters.PCount()})
	for _, in := range ins {
		s.run(in)
	}
	if calibPath != "" {
		f, err := os.OpenFile(calibPath, os.O_CREATE|os.O_WRONLY|os.O_APPEND, 0o644)
		if err == nil {
			for _, m := range s.meas {
				fmt.Fprintf(f, "%s\t%.2f\t%.2f\t%.2f\t%v\t%+v\n", cf.Name, m.ErrLog2, m.DLog2, m.RawLog2, m.Failed, m.In)
			}
			f.Close()
		}
	}
	// a bundle with one Galois key removed must be refused with an error by NewEvaluator (not a panic)
	if idx == 0 {
		s.checkMissingKeyReported()
	}
	// ---- coverage-audit extension (after everything else: the original draws are unchanged)
	xr := c.Rand().Sub("audit-ext", idx)
	for _, in := range s.drawExtInputs(xr, c.Tier == "thorough") {
		if in.Chain {
			s.runChain(in)
		} else {
			s.run(in)
		}
	}
	if idx == 0 {
		s.checkMissingMemberReported(xr, c.Tier == "thorough")
	}
	if s.ci {
		s.checkRingSwapRoundTrip(xr)
	}
}

func (s *session) drawInputs(r *eng.Rand, idx, n int) []input {
	var ins []input
	maxLS := s.maxCtLogSlots()
	minL, maxL := s.minLevel(), s.res.MaxLevel()
	evalOK := !s.ci && s.res.N() == s.btp.BootstrappingParameters.N()
	iter := s.cf.Iter != nil
	for i := 0; i < n; i++ {
		in := input{Batch: 1, Mag: "unit", Scale: "default", LogSlots: maxLS, Level: minL}
		if idx == 0 && i == 0 {
			// the stock shape
			in.API = "Bootstrap"
			ins = append(ins, in)
			continue
		}
		in.Batch = 1 + r.N(4)
		if !s.ci {
			switch r.N(4) {
			case 0:
				in.LogSlots = maxLS
			case 1:
				in.LogSlots = r.N(min(maxLS, 3) + 1)
			default:
				in.LogSlots = r.N(maxLS + 1)
			}
		}
		in.Level = minL + r.N(maxL-minL+1)
		if r.N(3) == 0 {
			in.Level = eng.Pick(r, minL, maxL)
		}
		// ciphertexts that get packed together: mostly at the lowest level (packing above level 0 is a
		// known finding that would otherwise hide everything behind it), sometimes above
		if in.Batch > 1 && in.LogSlots < s.btp.LogMaxSlots() && !s.ci && r.N(4) != 0 {
			in.Level = minL
			if minL > 0 {
				in.LogSlots = maxLS
			}
		}
		in.Mag = eng.Pick(r, "unit", "unit", "mid", "max", "max", "const", "onehot")
		if in.Level == 0 {
			if iter {
				in.Scale = eng.Pick(r, "default", "default", "default", "pow2max")
			} else {
				in.Scale = eng.Pick(r, "default", "pow2low", "pow2max")
			}
		}
		if in.Level > 0 && !iter && s.res.PrecisionMode() == ckks.PREC64 && r.N(6) == 0 {
			in.Scale = "non-pow2"
		}
		in.Copy = r.Bool()
		switch {
		case s.ci && in.Batch <= 2 && r.N(3) == 0:
			in.API = "EvaluateConjugateInvariant"
		case in.Batch > 1:
			in.API = "BootstrapMany"
		case evalOK && in.LogSlots == s.btp.LogMaxSlots() && r.Bool():
			in.API = "Evaluate"
		default:
			in.API = eng.Pick(r, "Bootstrap", "BootstrapMany")
		}
		ins = append(ins, in)
	}
	return ins
}
