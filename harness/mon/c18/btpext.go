package c18

// Coverage-audit extension of the btp family (extra calls appended after the original ones of a session,
// drawn from an independent random stream so that the original draws are unchanged):
//
//   - scale classes pow2lvl-{top,up,low,2primes}: an exact power-of-two scale other than the default one on an
//     input at level >= 1 (2primes: above Q0*Q1/MessageRatio at level >= 2, so that the scale matching of
//     ScaleDown spans two primes) (the original draw only leaves the default scale at level >= 1, apart from the
//     triaged non-power-of-two class);
//   - chain: the output of Bootstrap, dropped back to the input level, is bootstrapped again (history:
//     the output of the circuit, with the metadata the circuit gave it, is an admissible input).
//   - NewEvaluator must refuse, with an error, a bundle lacking any *non-Galois* member the parameters
//     call for (relinearization key, encapsulation pair, ring-degree / ring-type switching pair).

import (
	"fmt"
	"math"

	"github.com/tuneinsight/lattigo/v6/circuits/ckks/bootstrapping"
	"github.com/tuneinsight/lattigo/v6/core/rlwe"
	"github.com/tuneinsight/lattigo/v6/schemes/ckks"

	"verif/harness/eng"
)

func (s *session) drawExtInputs(r *eng.Rand, thorough bool) []input {
	maxLS := s.maxCtLogSlots()
	minL, maxL := s.minLevel(), s.res.MaxLevel()
	iter := s.cf.Iter != nil || s.res.PrecisionMode() == ckks.PREC128
	evalOK := !s.ci && s.res.N() == s.btp.BootstrappingParameters.N()
	var ins []input
	pow2 := func() {
		in := input{Batch: 1, LogSlots: maxLS, Copy: r.Bool()}
		in.Level = max(1, minL) + r.N(maxL-max(1, minL)+1)
		in.Scale = eng.Pick(r, "pow2lvl-top", "pow2lvl-up", "pow2lvl-low")
		if maxL >= 2 && r.N(3) == 0 {
			in.Scale = "pow2lvl-2primes"
			in.Level = 2 + r.N(maxL-1)
			s.c.Count("inputs_needing_two_primes_of_scale_matching", 1)
		}
		in.Mag = eng.Pick(r, "unit", "mid", "max", "const")
		if !s.ci && r.Bool() {
			in.LogSlots = r.N(maxLS + 1)
		}
		switch {
		case s.ci:
			in.Batch = 1 + r.N(2)
			in.API = eng.Pick(r, "EvaluateConjugateInvariant", "BootstrapMany")
		case evalOK && in.LogSlots == s.btp.LogMaxSlots() && r.Bool():
			in.API = "Evaluate"
		default:
			in.API = eng.Pick(r, "Bootstrap", "BootstrapMany")
		}
		ins = append(ins, in)
	}
	chain := func() {
		in := input{API: "Bootstrap", Batch: 1, LogSlots: maxLS, Scale: "default", Chain: true, Copy: r.Bool()}
		in.Level = minL + r.N(maxL-minL+1)
		in.Mag = eng.Pick(r, "unit", "mid")
		if r.Bool() {
			in.LogSlots = r.N(maxLS + 1)
		}
		ins = append(ins, in)
	}
	pow2OK := !iter && maxL >= 1
	chainOK := !s.ci
	switch {
	case thorough:
		if pow2OK {
			pow2()
		}
		if chainOK {
			chain()
		}
	case pow2OK && (!chainOK || r.Bool()):
		pow2()
	case chainOK:
		chain()
	}
	return ins
}

// checkOut: level, scale and metadata of one output, with the signatures of the btp family.
func (s *session) checkOut(sig, preds string, ev *bootstrapping.Evaluator, o *rlwe.Ciphertext, inMeta rlwe.MetaData, in input) bool {
	c := s.c
	wantLevel, wantScale := s.res.MaxLevel(), s.res.DefaultScale()
	c.Check(o.Level() == wantLevel && o.Level() == ev.OutputLevel(), sig+"|output-level"+preds, func() string {
		return fmt.Sprintf("output at level %d, OutputLevel()=%d residual max level=%d (config %s, input %+v)", o.Level(), ev.OutputLevel(), wantLevel, s.cf.Name, in)
	})
	c.Check(o.Scale.Cmp(wantScale) == 0, sig+"|output-scale"+preds, func() string {
		return fmt.Sprintf("output scale 2^%.6f, residual default scale 2^%.6f (config %s, input %+v)", o.Scale.Log2(), wantScale.Log2(), s.cf.Name, in)
	})
	c.Check(o.Degree() == 1 && o.Value[0].N() == s.res.N() && o.IsNTT == inMeta.IsNTT && o.IsBatched == inMeta.IsBatched && o.LogDimensions == inMeta.LogDimensions, sig+"|output-metadata", func() string {
		return fmt.Sprintf("output: degree %d N %d meta %+v, input meta %+v", o.Degree(), o.Value[0].N(), *o.MetaData, inMeta)
	})
	c.Check(o.IsMontgomery == inMeta.IsMontgomery, sig+"|output-metadata|IsMontgomery", nil)
	return o.Level() == wantLevel && o.Value[0].N() == s.res.N() && o.Degree() == 1 && o.Scale.Cmp(wantScale) == 0
}

// runChain: Bootstrap(DropLevel(Bootstrap(ct))).
func (s *session) runChain(in input) {
	c := s.c
	r := c.Rand()
	sig := sigAPI("Bootstrap")
	preds := s.predicates(in)
	ev := s.eval
	if in.Copy {
		if ev = s.copyEval(); ev == nil {
			return
		}
	}
	logSlots := in.LogSlots
	emb := newEmbedding(logSlots)
	v := s.genValues(r, emb, in.Mag, false)
	ct := s.encryptVals(v, in.Level, s.res.DefaultScale(), logSlots)
	inMeta := *ct.MetaData
	callPreds := preds
	if in.Level > 0 {
		callPreds += "|level>0"
	}
	if in.Copy {
		callPreds += "|on-shallow-copy"
	}
	c.Distinct(fmt.Sprintf("btp/%s/chain/l%d/s%d/%s/%v", s.cf.Name, in.Level, logSlots, in.Mag, in.Copy), true)
	cur := ct
	for stage := 0; stage < 2; stage++ {
		ref := s.decodeCt(cur, logSlots)
		var o *rlwe.Ciphertext
		var err error
		if !s.tryCall(sig, callPreds, func() { o, err = ev.Bootstrap(cur) }) {
			return
		}
		c.Count("bootstrap_calls", 1)
		c.Count("ciphertexts_bootstrapped", 1)
		if err != nil {
			c.Violate(sig+"|error-on-admissible"+preds, fmt.Sprintf("%v (config %s, input %+v, stage %d of a chain)", err, s.cf.Name, in, stage), s.witness(in))
			return
		}
		c.Eval(1)
		if !s.checkOut(sig, preds, ev, o, inMeta, in) {
			return
		}
		if s.hasFlr {
			model, thr, _ := s.modelAndThr(emb, ref)
			e := maxAbsDiff(s.decodeCt(o, logSlots), model)
			c.Count("precision_checks", 1)
			mp := preds
			if stage == 1 {
				mp += "|input-is-a-bootstrapped-ciphertext"
				c.Count("chained_bootstraps", 1)
				c.Max("max_chained_err_over_threshold_x1000", int64(1000*e/thr))
			}
			c.Check(e <= thr, sig+"|message-error-above-announced-precision"+mp, func() string {
				return fmt.Sprintf("stage %d of a chain: max |out - model| = 2^%.2f > 2^%.2f (config %s, input %+v)", stage, math.Log2(e), math.Log2(thr), s.cf.Name, in)
			})
			if e > thr {
				return
			}
		}
		// the output, brought back to the input level, is the next input
		cur = o.CopyNew()
		cur.Resize(cur.Degree(), in.Level)
	}
}

// checkMissingMemberReported: a bundle lacking one non-Galois member that the parameters call for must be
// refused by NewEvaluator with an error (otherwise Evaluate would silently skip the encapsulation, or
// dereference a nil key later).
func (s *session) checkMissingMemberReported(r *eng.Rand, all bool) {
	c := s.c
	type variant struct {
		name string
		mut  func(b *bootstrapping.EvaluationKeys)
	}
	var vs []variant
	vs = append(vs, variant{"relinearization-key", func(b *bootstrapping.EvaluationKeys) {
		var gks []*rlwe.GaloisKey
		for _, g := range s.evk.GetGaloisKeysList() {
			gk, _ := s.evk.GetGaloisKey(g)
			gks = append(gks, gk)
		}
		b.MemEvaluationKeySet = rlwe.NewMemEvaluationKeySet(nil, gks...)
	}})
	if s.btp.EphemeralSecretWeight != 0 {
		vs = append(vs, variant{"EvkDenseToSparse", func(b *bootstrapping.EvaluationKeys) { b.EvkDenseToSparse = nil }},
			variant{"EvkSparseToDense", func(b *bootstrapping.EvaluationKeys) { b.EvkSparseToDense = nil }})
	}
	if s.ci {
		vs = append(vs, variant{"EvkCmplxToReal", func(b *bootstrapping.EvaluationKeys) { b.EvkCmplxToReal = nil }},
			variant{"EvkRealToCmplx", func(b *bootstrapping.EvaluationKeys) { b.EvkRealToCmplx = nil }})
	} else if s.res.N() != s.btp.BootstrappingParameters.N() {
		vs = append(vs, variant{"EvkN1ToN2", func(b *bootstrapping.EvaluationKeys) { b.EvkN1ToN2 = nil }},
			variant{"EvkN2ToN1", func(b *bootstrapping.EvaluationKeys) { b.EvkN2ToN1 = nil }})
	}
	if !all {
		vs = []variant{vs[r.N(len(vs))]}
	}
	for _, v := range vs {
		cp := *s.evk
		v.mut(&cp)
		var err error
		var ev *bootstrapping.Evaluator
		if c.Try("C18|NewEvaluator|bundle-without-"+v.name, func() { ev, err = bootstrapping.NewEvaluator(s.btp, &cp) }) {
			c.Count("incomplete_bundles_offered", 1)
			c.Check(err != nil, "C18|NewEvaluator|missing-"+v.name+"-not-reported", func() string {
				return fmt.Sprintf("NewEvaluator accepted a bundle without %s (config %s, evaluator %v)", v.name, s.cf.Name, ev != nil)
			})
		}
	}
}

// checkRingSwapRoundTrip (conjugate-invariant residual ring): ComplexToRealNew(RealToComplexNew(ct)) carries
// the same real message, in the residual ring, at twice the scale ("the scale of the output ciphertext is
// twice the scale of the input one"), and the intermediate ciphertext lives in the bootstrapping ring.
func (s *session) checkRingSwapRoundTrip(r *eng.Rand) {
	c := s.c
	logSlots := s.res.LogMaxSlots()
	level := s.minLevel() + r.N(s.res.MaxLevel()-s.minLevel()+1)
	v := make([]complex128, 1<<logSlots)
	for i := range v {
		v[i] = complex(2*r.F64()-1, 0)
	}
	ct := s.encryptVals(v, level, s.res.DefaultScale(), logSlots)
	ref := s.decodeCt(ct, logSlots)
	ev := s.eval
	if r.Bool() {
		if ev = s.copyEval(); ev == nil {
			return
		}
	}
	var up, down *rlwe.Ciphertext
	if !c.Try("C18|Evaluator.RealToComplexNew", func() { up = ev.RealToComplexNew(ct) }) {
		return
	}
	if !c.Check(up.Value[0].N() == s.btp.BootstrappingParameters.N() && up.Level() == level, "C18|Evaluator.RealToComplexNew|output-shape", func() string {
		return fmt.Sprintf("N=%d level %d (input level %d)", up.Value[0].N(), up.Level(), level)
	}) {
		return
	}
	if !c.Try("C18|Evaluator.ComplexToRealNew", func() { down = ev.ComplexToRealNew(up) }) {
		return
	}
	c.Count("ring_swap_round_trips", 1)
	two := ct.Scale.Mul(rlwe.NewScale(2))
	if !c.Check(down.Value[0].N() == s.res.N() && down.Level() == level && down.Scale.Cmp(two) == 0, "C18|Evaluator.ComplexToRealNew|output-shape-or-scale", func() string {
		return fmt.Sprintf("N=%d level %d scale 2^%.4f (input level %d scale 2^%.4f)", down.Value[0].N(), down.Level(), down.Scale.Log2(), level, ct.Scale.Log2())
	}) {
		return
	}
	e := maxAbsDiff(s.decodeCt(down, logSlots), ref)
	c.Check(e <= math.Exp2(-15), "C18|Evaluator.ComplexToRealNew|not-inverse-of-RealToComplexNew", func() string {
		return fmt.Sprintf("max |x' - x| = 2^%.1f (config %s, level %d)", math.Log2(e), s.cf.Name, level)
	})
}
