package c18

import (
	"fmt"
	ckksPkg "github.com/tuneinsight/lattigo/v6/schemes/ckks"

	"github.com/tuneinsight/lattigo/v6/circuits/ckks/bootstrapping"
	"github.com/tuneinsight/lattigo/v6/core/rlwe"

	"verif/harness/eng"
)

// randomKeyCfg draws a bootstrapping literal for the key-generation-only cases: ring degrees up to
// 2^12, every ring relation, ephemeral weights, slot counts, DFT depths, auxiliary prime counts.
func randomKeyCfg(r *eng.Rand, i int) cfg {
	logN := eng.Pick(r, 9, 9, 10, 10, 11)
	if i%16 == 7 {
		logN = 12
	}
	c := cfg{BtpLogN: logN, ResLogN: logN, ResLogScale: 40, LogRatio: 8, DblAngle: -1}
	nres := 2 + r.N(3)
	c.ResLogQ = []int{60}
	for j := 1; j < nres; j++ {
		c.ResLogQ = append(c.ResLogQ, 40)
	}
	c.ResLogP = []int{61}
	mode := eng.Pick(r, "same", "same", "n1lt", "ci")
	switch mode {
	case "n1lt":
		c.ResLogN = logN - 1 - r.N(3)
	case "ci":
		c.CI = true
		c.ResLogN = logN - 1
	}
	half := func(l int) int { return 1 << (l - 1) }
	c.ResH = eng.Pick(r, min(32, half(c.ResLogN)), min(192, half(c.ResLogN)), half(c.ResLogN))
	c.BtpH = eng.Pick(r, min(32, half(logN)), min(192, half(logN)), half(logN))
	c.Eph = eng.Pick(r, 0, 8, 16, 32, 32, 64)
	if r.N(3) != 0 {
		c.LogSlots = 1 + r.N(logN-1)
	}
	ls := c.btpLogSlots()
	c.C2S = rep(eng.Pick(r, 50, 56, 58), 1+r.N(min(4, ls)))
	c.S2C = rep(eng.Pick(r, 39, 42), 1+r.N(min(3, ls)))
	if r.N(2) == 0 {
		np := 1 + r.N(5)
		for j := 0; j < np; j++ {
			c.BtpLogP = append(c.BtpLogP, eng.Pick(r, 55, 61))
		}
	}
	if r.N(4) == 0 {
		c.Iter, c.Reserved = []float64{20}, 25
	}
	c.Name = fmt.Sprintf("rnd-n%d-%s%d-eph%d-ls%d-c%d-s%d-p%d", logN, mode, c.ResLogN, c.Eph, ls, len(c.C2S), len(c.S2C), len(c.BtpLogP))
	return c
}

// runKeys: parameters + key bundle + classification (no bootstrapping).
func runKeys(c *eng.Ctx, cf cfg) {
	var res, btp = cfgBuild(c, cf)
	if res == nil {
		return
	}
	checkParamsStructure(c, cf, *res, *btp)
	skN1 := rlwe.NewKeyGenerator(*res).GenSecretKeyNew()
	var evk *bootstrapping.EvaluationKeys
	var skN2 *rlwe.SecretKey
	var err error
	if !c.Try("C18|Parameters.GenEvaluationKeys", func() { evk, skN2, err = btp.GenEvaluationKeys(skN1) }) {
		return
	}
	if err != nil || evk == nil || skN2 == nil {
		c.Violate("C18|Parameters.GenEvaluationKeys|error-on-admissible", fmt.Sprint(err), cf)
		return
	}
	c.Sample(map[string]any{"kind": "keys", "config": cf, "galois_keys": len(evk.GetGaloisKeysList()),
		"Q_primes": btp.BootstrappingParameters.QCount(), "P_primes": btp.BootstrappingParameters.PCount()})
	c.Try("C18|Parameters.GenEvaluationKeys|classification", func() { checkKeys(c, cf, *btp, skN1, skN2, evk) })
	if cf.BtpLogN <= 10 {
		// the evaluator accepts the helper's bundle
		var nerr error
		if c.Try("C18|NewEvaluator", func() { _, nerr = bootstrapping.NewEvaluator(*btp, evk) }) {
			c.Check(nerr == nil, "C18|NewEvaluator|reports-missing-key-or-error-on-helper-bundle", func() string { return nerr.Error() })
		}
	}
}

func cfgBuild(c *eng.Ctx, cf cfg) (*ckksParams, *bootstrapping.Parameters) {
	var err error
	var r ckksParams
	var b bootstrapping.Parameters
	if !c.Try("C18|NewParametersFromLiteral", func() { r, b, err = cf.build() }) {
		return nil, nil
	}
	if err != nil {
		c.Violate("C18|NewParametersFromLiteral|error-on-admissible", err.Error(), cf)
		return nil, nil
	}
	return &r, &b
}

// checkMissingKeyReported: a bundle lacking one advertised Galois key is refused by NewEvaluator with
// an error (consistency of Parameters.GaloisElements with the evaluator's own key check).
func (s *session) checkMissingKeyReported() {
	c := s.c
	gl := s.evk.GetGaloisKeysList()
	if len(gl) == 0 {
		return
	}
	drop := gl[c.Rand().N(len(gl))]
	if drop == s.btp.BootstrappingParameters.GaloisElementForComplexConjugation() && len(gl) > 1 {
		for _, g := range gl {
			if g != drop {
				drop = g
				break
			}
		}
	}
	rlk, _ := s.evk.GetRelinearizationKey()
	var gks []*rlwe.GaloisKey
	for _, g := range gl {
		if g != drop {
			gk, _ := s.evk.GetGaloisKey(g)
			gks = append(gks, gk)
		}
	}
	cp := *s.evk
	cp.MemEvaluationKeySet = rlwe.NewMemEvaluationKeySet(rlk, gks...)
	var err error
	if c.Try("C18|NewEvaluator|bundle-without-one-galois-key", func() { _, err = bootstrapping.NewEvaluator(s.btp, &cp) }) {
		c.Check(err != nil, "C18|NewEvaluator|missing-galois-key-not-reported", func() string { return fmt.Sprintf("galois element %d removed", drop) })
	}
}

type ckksParams = ckksPkg.Parameters
