package c18

// Coverage-audit extension of the mod1 family (same parameter sets, same frozen floors):
//
//	arg     EvaluateAndScaleNew(ct, s) for real, negative and complex s: the result is s * (x mod 1) ("scales
//	        the output values by scaling (without consuming additional depth)")
//	lit     ParametersLiteral.Scaling != 0 ("value by which the output is scaled by")
//	above   the input sits one or two levels above Parameters.LevelQ (the evaluator drops the difference)
//
// The verdict threshold is the frozen floor of the set + 6 bits, times max(1, |s|).

import (
	"fmt"
	"math"
	"math/cmplx"
	"strings"

	"github.com/tuneinsight/lattigo/v6/circuits/ckks/mod1"
	"github.com/tuneinsight/lattigo/v6/circuits/ckks/polynomial"
	"github.com/tuneinsight/lattigo/v6/core/rlwe"
	"github.com/tuneinsight/lattigo/v6/ring"
	"github.com/tuneinsight/lattigo/v6/schemes/ckks"

	"verif/harness/eng"
)

type mod1Opt struct {
	Variant string     `json:"variant"`
	Arg     complex128 `json:"-"`
	ArgStr  string     `json:"arg,omitempty"`
	Lit     float64    `json:"literalScaling,omitempty"`
	Above   int        `json:"above,omitempty"`
}

func mod1ExtCases(tier string) []eng.Case {
	args := []complex128{complex(2, 0), complex(-1, 0), complex(0.5, 0), complex(0, 1), complex(0.6, -0.8)}
	lits := []float64{2, 0.5, 0.25}
	quick := map[string]bool{"cosdisc-k12-d30-r3": true, "cosdisc-k12-d30-r3-asin7": true, "sin-k14-d127": true, "sin-k14-d127-asin7": true, "coscont-k16-d63-r3": true, "cosdisc-k8-d30-r2": true, "cosdisc-k5-d63-r0": true, "coscont-k16-d127-r1": true}
	var out []eng.Case
	k := 0
	for _, m := range mod1Configs() {
		if tier != "thorough" && !quick[m.Name] {
			continue
		}
		var opts []mod1Opt
		a, l := args[k%len(args)], lits[k%len(lits)]
		if tier == "thorough" {
			for _, a := range args {
				opts = append(opts, mod1Opt{Variant: "arg", Arg: a})
			}
			for _, l := range lits {
				opts = append(opts, mod1Opt{Variant: "lit", Lit: l})
			}
			opts = append(opts, mod1Opt{Variant: "above", Above: 1}, mod1Opt{Variant: "above", Above: 2}, mod1Opt{Variant: "arg+above", Arg: a, Above: 1})
		} else {
			// quick: one variant per set, rotating
			switch k % 3 {
			case 0:
				opts = append(opts, mod1Opt{Variant: "arg", Arg: a})
			case 1:
				opts = append(opts, mod1Opt{Variant: "lit", Lit: l}, mod1Opt{Variant: "arg", Arg: args[(k+2)%len(args)]})
			case 2:
				opts = append(opts, mod1Opt{Variant: "above", Above: 1 + k%2})
			}
		}
		k++
		for _, o := range opts {
			m, o := m, o
			if o.Arg != 0 {
				o.ArgStr = strings.Trim(fmt.Sprint(o.Arg), "()")
			}
			out = append(out, eng.Case{ID: fmt.Sprintf("mod1x/%s/%s-%s-%g-%d", m.Name, o.Variant, o.ArgStr, o.Lit, o.Above), Sig: "C18|mod1", Desc: map[string]any{"config": m, "variant": o},
				Run: func(c *eng.Ctx) { runMod1Ext(c, m, o) }})
		}
	}
	return out
}

func runMod1Ext(c *eng.Ctx, m mod1Cfg, o mod1Opt) {
	depth := m.lit(0).Depth()
	levelQ := depth + 1
	logQ := []int{60}
	for i := 0; i < levelQ+o.Above; i++ {
		logQ = append(logQ, m.LogScale)
	}
	logQ = append(logQ, 53)
	params, err := ckks.NewParametersFromLiteral(ckks.ParametersLiteral{LogN: m.LogN, LogQ: logQ, LogP: []int{61, 61, 61}, LogDefaultScale: 45, Xs: ring.Ternary{H: min(64, 1<<(m.LogN-1))}})
	if err != nil {
		c.Violate("C18|mod1|ckks.NewParametersFromLiteral|error", err.Error(), m)
		return
	}
	lit := m.lit(levelQ)
	lit.Scaling = o.Lit
	var mp mod1.Parameters
	if !c.Try("C18|mod1.NewParametersFromLiteral", func() { mp, err = mod1.NewParametersFromLiteral(params, lit) }) {
		return
	}
	if err != nil {
		c.Violate("C18|mod1.NewParametersFromLiteral|error-on-admissible", err.Error(), m)
		return
	}
	c.Sample(map[string]any{"kind": "mod1x", "config": m, "variant": o, "depth": depth})
	kgen := rlwe.NewKeyGenerator(params)
	sk := kgen.GenSecretKeyNew()
	ecd := ckks.NewEncoder(params)
	enc := rlwe.NewEncryptor(params, sk)
	dec := rlwe.NewDecryptor(params, sk)
	eval := ckks.NewEvaluator(params, rlwe.NewMemEvaluationKeySet(kgen.GenRelinearizationKeyNew(sk)))
	r := c.Rand()

	// derived accessors agree with their definitions
	c.Check(mp.IntervalShrinkFactor() == math.Exp2(float64(mp.DoubleAngle)) && mp.KShrinked() == mp.K/mp.IntervalShrinkFactor() && mp.MessageRatio() == math.Exp2(float64(m.LogRatio)) &&
		mp.ScalingFactor().Float64() == math.Exp2(float64(m.LogScale)) && mp.LevelQ == levelQ && mp.K == float64(m.K), "C18|mod1.Parameters|accessor-differs-from-definition", nil)

	K := mp.K - 1
	Q := mp.QDiff * mp.MessageRatio()
	n := params.MaxSlots()
	vals := make([]float64, n)
	fr := make([]float64, n)
	core := make([]bool, n)
	for i := range vals {
		k := math.Round((2*r.F64() - 1) * K)
		f := 2*r.F64() - 1
		switch r.N(16) {
		case 0:
			k = K
		case 1:
			k = -K
		case 2:
			f = eng.Pick(r, 1.0, -1.0, 0.0)
		}
		vals[i], fr[i], core[i] = k*Q+f, f, math.Abs(k) <= math.Floor(K/2)
	}
	vals[0], fr[0], core[0] = K*Q+0.5, 0.5, false
	pt := ckks.NewPlaintext(params, params.MaxLevel())
	if err = ecd.Encode(vals, pt); err != nil {
		panic(err)
	}
	ct, err := enc.EncryptNew(pt)
	if err != nil {
		panic(err)
	}
	ok := c.Try("C18|mod1|input-normalisation", func() {
		scale := rlwe.NewScale(math.Exp2(math.Round(math.Log2(float64(params.Q()[0]) / mp.MessageRatio()))))
		scale = scale.Div(ct.Scale)
		if err = eval.ScaleUp(ct, rlwe.NewScale(math.Round(scale.Float64())), ct); err != nil {
			return
		}
		scale = mp.ScalingFactor().Div(ct.Scale)
		scale = scale.Div(rlwe.NewScale(mp.MessageRatio()))
		if err = eval.ScaleUp(ct, rlwe.NewScale(math.Round(scale.Float64())), ct); err != nil {
			return
		}
		if err = eval.Mul(ct, 1/(mp.K*mp.QDiff), ct); err != nil {
			return
		}
		err = eval.Rescale(ct, ct)
	})
	if !ok || err != nil {
		c.Inconclusive(fmt.Sprintf("mod1 input normalisation failed: %v", err))
		return
	}
	if ct.Level() != levelQ+o.Above {
		c.Inconclusive(fmt.Sprintf("mod1 input at level %d, wanted %d", ct.Level(), levelQ+o.Above))
		return
	}
	api := "EvaluateNew"
	s := complex(1, 0)
	if o.Arg != 0 {
		api = "EvaluateAndScaleNew"
		s = o.Arg
	}
	if o.Lit != 0 {
		s *= complex(o.Lit, 0)
	}
	pred := ""
	if o.Lit != 0 {
		pred += "|literal-Scaling"
	}
	if o.Above != 0 {
		pred += "|input-above-LevelQ"
	}
	var out *rlwe.Ciphertext
	me := mod1.NewEvaluator(eval, polynomial.NewEvaluator(params, eval), mp)
	if !c.Try("C18|mod1.Evaluator."+api, func() {
		if o.Arg != 0 {
			out, err = me.EvaluateAndScaleNew(ct, o.Arg)
		} else {
			out, err = me.EvaluateNew(ct)
		}
	}) {
		return
	}
	if err != nil {
		c.Violate("C18|mod1.Evaluator."+api+"|error-on-admissible"+pred, err.Error(), m)
		return
	}
	c.Count("mod1_evaluations", 1)
	c.Count("mod1_variant_evaluations", 1)
	c.Distinct(fmt.Sprintf("mod1x/%s/%s/%v/%g/%d", m.Name, o.Variant, o.Arg, o.Lit, o.Above), true)
	c.Check(out.Level() == levelQ-depth, "C18|mod1.Evaluator."+api+"|levels-consumed-differ-from-Depth"+pred, func() string {
		return fmt.Sprintf("Depth()=%d, LevelQ %d (input at %d) -> %d", depth, levelQ, levelQ+o.Above, out.Level())
	})
	have := make([]complex128, n)
	if err = ecd.Decode(dec.DecryptNew(out), have); err != nil {
		panic(err)
	}
	as := cmplx.Abs(s)
	var worst, worstCore, worstRaw float64
	wi := 0
	for i := range have {
		dm := Q * distort(fr[i]/Q, m.InvDeg)
		e := cmplx.Abs(have[i] - s*complex(fr[i]+dm, 0))
		if math.IsNaN(e) {
			e = math.Inf(1)
		}
		if e > worst {
			worst, wi = e, i
		}
		if core[i] && e > worstCore {
			worstCore = e
		}
		worstRaw = math.Max(worstRaw, cmplx.Abs(have[i]-s*complex(fr[i], 0))-1.25*as*math.Abs(dm))
	}
	fl, okf := mod1Floors[m.Name]
	if !okf {
		c.Inconclusive("no frozen floor for mod1 configuration " + m.Name)
		return
	}
	f := math.Max(1, as)
	thrCore, thr := f*math.Exp2(fl[0]+marginBits), f*math.Exp2(fl[1]+marginBits)
	c.Max("max_mod1_variant_err_over_threshold_x1000", int64(1000*worst/thr))
	c.Check(worstCore <= thrCore, "C18|mod1.Evaluator."+api+"|differs-from-x-mod-1-model|inner-half-of-interval"+pred, func() string {
		return fmt.Sprintf("scaling %v: integer parts |k| <= (K-1)/2: error 2^%.1f > 2^%.1f (%+v, %+v)", s, math.Log2(worstCore), math.Log2(thrCore), m, o)
	})
	c.Check(worst <= thr, "C18|mod1.Evaluator."+api+"|differs-from-x-mod-1-model"+pred, func() string {
		return fmt.Sprintf("scaling %v, slot %d: input %.6f = k*Q + f with f=%.6f, output %v; error 2^%.1f > 2^%.1f (%+v, %+v)", s, wi, vals[wi], fr[wi], have[wi], math.Log2(worst), math.Log2(thr), m, o)
	})
	c.Check(worstRaw <= thr, "C18|mod1.Evaluator."+api+"|not-x-mod-1-on-stated-interval"+pred, func() string {
		return fmt.Sprintf("scaling %v: max (|out - s*(x mod 1)| - documented approximation error) = 2^%.1f > 2^%.1f (%+v, %+v)", s, math.Log2(worstRaw), math.Log2(thr), m, o)
	})
}
