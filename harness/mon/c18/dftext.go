package c18

// Coverage-audit extension of the dft family:
//
//	reverse   CoeffsToSlots(SlotsToCoeffs(x)) == x (the dft family only composes in the other order), on
//	          slot-domain inputs, every format that has an inverse
//	receivers the non-allocating CoeffsToSlots / SlotsToCoeffs with caller-provided receivers that are larger
//	          than needed, full of unrelated data and carry unrelated metadata, used twice in a row: each
//	          result must be bit-identical to what CoeffsToSlotsNew / SlotsToCoeffsNew return (deterministic
//	          circuit; a fresh object is the reference)
//	above     the input ciphertext sits one level above MatrixLiteral.LevelQ ("starting level of the linear
//	          transformation"): levels, coefficient model and composition as in the dft family

import (
	"fmt"
	"math"
	"math/big"

	"github.com/tuneinsight/lattigo/v6/circuits/ckks/dft"
	"github.com/tuneinsight/lattigo/v6/core/rlwe"
	"github.com/tuneinsight/lattigo/v6/ring"
	"github.com/tuneinsight/lattigo/v6/schemes/ckks"
	"github.com/tuneinsight/lattigo/v6/utils"

	"verif/harness/eng"
)

type dftExtCfg struct {
	dftCfg
	Variant string `json:"variant"`
}

func dftExtCases(tier string, r *eng.Rand) []eng.Case {
	n := 18
	if tier == "thorough" {
		n = 180
	}
	var out []eng.Case
	for i := 0; i < n; i++ {
		d := dftCfg{LogN: eng.Pick(r, 4, 5, 6, 7, 8)}
		d.LogSlots = 1 + r.N(d.LogN-1)
		if r.N(3) == 0 {
			d.LogSlots = d.LogN - 1
		}
		d.Enc = splitDepth(r, 1+r.N(min(3, d.LogSlots)), false)
		d.Dec = splitDepth(r, 1+r.N(min(3, d.LogSlots)), false)
		d.Format = eng.Pick(r, int(dft.RepackImagAsReal), int(dft.RepackImagAsReal), int(dft.SplitRealAndImag), int(dft.Standard))
		d.BitRev = r.N(4) == 0
		d.LogBSGS = r.N(3)
		d.NP = 1 + r.N(2)
		if r.N(3) == 0 {
			d.Scaling = eng.Pick(r, 0.5, 2.0, 0.125)
		}
		x := dftExtCfg{dftCfg: d, Variant: []string{"reverse", "receivers", "above"}[i%3]}
		if d.Format == int(dft.SplitRealAndImag) && d.LogSlots < d.LogN-1 {
			// sparse packing with SplitRealAndImag drops the imaginary part: no inverse, nothing to compose
			x.Format = int(dft.RepackImagAsReal)
		}
		out = append(out, eng.Case{ID: fmt.Sprintf("dftx/%d/%s-n%d-s%d-e%v-d%v-f%d-br%v", i, x.Variant, x.LogN, x.LogSlots, x.Enc, x.Dec, x.Format, x.BitRev), Sig: "C18|dft", Desc: x,
			Run: func(c *eng.Ctx) { runDFTExt(c, x) }})
	}
	return out
}

// dirtyCt: a degree-1 ciphertext at the given level full of uniform residues, with unrelated metadata.
func dirtyCt(params ckks.Parameters, level int, r *eng.Rand) *rlwe.Ciphertext {
	ct := ckks.NewCiphertext(params, 1, level)
	for i := range ct.Value {
		for j := range ct.Value[i].Coeffs {
			q := params.Q()[j]
			for k := range ct.Value[i].Coeffs[j] {
				ct.Value[i].Coeffs[j][k] = r.U64() % q
			}
		}
	}
	ct.Scale = rlwe.NewScale(12345.678)
	ct.LogDimensions = ring.Dimensions{Rows: 0, Cols: 1}
	return ct
}

func runDFTExt(c *eng.Ctx, d dftExtCfg) {
	depth := len(d.Enc) + len(d.Dec)
	extra := 0
	if d.Variant == "above" {
		extra = 1
	}
	logQ := []int{55}
	for i := 0; i < depth+extra; i++ {
		logQ = append(logQ, 45)
	}
	logP := make([]int, d.NP)
	for i := range logP {
		logP[i] = 60
	}
	params, err := ckks.NewParametersFromLiteral(ckks.ParametersLiteral{LogN: d.LogN, LogQ: logQ, LogP: logP, LogDefaultScale: 45, Xs: ring.Ternary{H: min(64, 1<<(d.LogN-1))}})
	if err != nil {
		c.Violate("C18|dft|ckks.NewParametersFromLiteral|error", err.Error(), d)
		return
	}
	c.Sample(map[string]any{"kind": "dftx", "config": d})
	c.Distinct(fmt.Sprintf("dftx/%s/n%d/s%d/e%v/d%v/f%d/%v/b%d/p%d/%g", d.Variant, d.LogN, d.LogSlots, d.Enc, d.Dec, d.Format, d.BitRev, d.LogBSGS, d.NP, d.Scaling), true)
	var scaling, invScaling *big.Float
	if d.Scaling != 0 {
		scaling = new(big.Float).SetFloat64(d.Scaling)
		invScaling = new(big.Float).Quo(big.NewFloat(1), scaling)
	}
	top := params.MaxLevel() - extra
	encLevel, decLevel := top, top-len(d.Enc)
	if d.Variant == "reverse" {
		decLevel, encLevel = top, top-len(d.Dec)
	}
	encLit := dft.MatrixLiteral{Type: dft.HomomorphicEncode, LogSlots: d.LogSlots, LevelQ: encLevel, LevelP: params.MaxLevelP(), Levels: d.Enc,
		Format: dft.Format(d.Format), BitReversed: d.BitRev, LogBSGSRatio: d.LogBSGS, Scaling: scaling}
	decLit := dft.MatrixLiteral{Type: dft.HomomorphicDecode, LogSlots: d.LogSlots, LevelQ: decLevel, LevelP: params.MaxLevelP(), Levels: d.Dec,
		Format: dft.Format(d.Format), BitReversed: d.BitRev, LogBSGSRatio: d.LogBSGS, Scaling: invScaling}
	ecd := ckks.NewEncoder(params)
	var encM, decM dft.Matrix
	if !c.Try("C18|dft.NewMatrixFromLiteral", func() {
		if encM, err = dft.NewMatrixFromLiteral(params, encLit, ecd); err == nil {
			decM, err = dft.NewMatrixFromLiteral(params, decLit, ecd)
		}
	}) {
		return
	}
	if err != nil {
		c.Violate("C18|dft.NewMatrixFromLiteral|error-on-admissible", err.Error(), d)
		return
	}
	kgen := rlwe.NewKeyGenerator(params)
	sk := kgen.GenSecretKeyNew()
	gal := map[uint64]bool{params.GaloisElementOrderTwoOrthogonalSubgroup(): true}
	for _, g := range encLit.GaloisElements(params) {
		gal[g] = true
	}
	for _, g := range decLit.GaloisElements(params) {
		gal[g] = true
	}
	evk := rlwe.NewMemEvaluationKeySet(nil, kgen.GenGaloisKeysNew(utils.GetKeys(gal), sk)...)
	eval := dft.NewEvaluator(params, ckks.NewEvaluator(params, evk))
	enc := rlwe.NewEncryptor(params, sk)
	dec := rlwe.NewDecryptor(params, sk)
	r := c.Rand()

	n := 1 << d.LogSlots
	sparse := d.LogSlots < params.LogMaxSlots()
	std := dft.Format(d.Format) == dft.Standard
	tol := math.Exp2(dftTolLog2(d.LogN))
	encrypt := func(v []complex128, logSlots int) *rlwe.Ciphertext {
		pt := ckks.NewPlaintext(params, params.MaxLevel())
		pt.LogDimensions = ring.Dimensions{Rows: 0, Cols: logSlots}
		if err := ecd.Encode(v, pt); err != nil {
			panic(err)
		}
		ct, err := enc.EncryptNew(pt)
		if err != nil {
			panic(err)
		}
		return ct
	}
	decode := func(x *rlwe.Ciphertext, logSlots int) []complex128 {
		y := x.CopyNew()
		y.LogDimensions = ring.Dimensions{Rows: 0, Cols: logSlots}
		o := make([]complex128, 1<<logSlots)
		if err := ecd.Decode(dec.DecryptNew(y), o); err != nil {
			panic(err)
		}
		return o
	}
	rnd := func(k int, realOnly bool) []complex128 {
		v := make([]complex128, k)
		for i := range v {
			v[i] = complex(2*r.F64()-1, 2*r.F64()-1)
			if realOnly {
				v[i] = complex(real(v[i]), 0)
			}
		}
		return v
	}
	// coefficient-domain input whose homomorphic encoding is z (as in the dft family)
	coeffInput := func(z []complex128) []complex128 {
		cf := make([]float64, 2*n)
		for i := 0; i < n; i++ {
			u := z[bitrev(i, d.LogSlots)]
			cf[i], cf[n+i] = real(u), imag(u)
		}
		return newEmbedding(d.LogSlots).slots(cf)
	}

	switch d.Variant {
	case "reverse":
		// ---- slot-domain input -> SlotsToCoeffs -> CoeffsToSlots
		var inR, inI *rlwe.Ciphertext
		var wantR, wantI []complex128
		logR := d.LogSlots
		switch {
		case std:
			wantR = rnd(n, false)
			inR = encrypt(wantR, d.LogSlots)
		case !sparse:
			wantR, wantI = rnd(n, true), rnd(n, true)
			inR, inI = encrypt(wantR, d.LogSlots), encrypt(wantI, d.LogSlots)
		default: // sparse, RepackImagAsReal: vReal || vImag on 2n slots
			logR = d.LogSlots + 1
			wantR = rnd(2*n, true)
			inR = encrypt(wantR, logR)
		}
		var mid *rlwe.Ciphertext
		if !c.Try("C18|dft.Evaluator.SlotsToCoeffs", func() { mid, err = eval.SlotsToCoeffsNew(inR, inI, decM) }) {
			return
		}
		if err != nil {
			c.Violate("C18|dft.Evaluator.SlotsToCoeffs|error-on-admissible", err.Error(), d)
			return
		}
		c.Count("dft_transforms", 1)
		if !c.Check(mid.Level() == decLevel-len(d.Dec), "C18|dft.Evaluator.SlotsToCoeffs|levels-consumed-differ-from-Depth", func() string {
			return fmt.Sprintf("Levels=%v: output at level %d from %d", d.Dec, mid.Level(), decLevel)
		}) {
			return
		}
		// the decoded ciphertext carries n complex slots
		mid.LogDimensions = ring.Dimensions{Rows: 0, Cols: d.LogSlots}
		var outR, outI *rlwe.Ciphertext
		if !c.Try("C18|dft.Evaluator.CoeffsToSlots", func() { outR, outI, err = eval.CoeffsToSlotsNew(mid, encM) }) {
			return
		}
		if err != nil {
			c.Violate("C18|dft.Evaluator.CoeffsToSlots|error-on-admissible", err.Error(), d)
			return
		}
		c.Count("dft_transforms", 1)
		c.Count("dft_reverse_compositions", 1)
		if !c.Check(outR.Level() == encLevel-len(d.Enc), "C18|dft.Evaluator.CoeffsToSlots|levels-consumed-differ-from-Depth", func() string {
			return fmt.Sprintf("Levels=%v: output at level %d from %d", d.Enc, outR.Level(), encLevel)
		}) {
			return
		}
		e := maxAbsDiff(decode(outR, logR), wantR)
		if wantI != nil {
			if !c.Check(outI != nil, "C18|dft.Evaluator.CoeffsToSlotsNew|imaginary-ciphertext-presence", nil) {
				return
			}
			e = math.Max(e, maxAbsDiff(decode(outI, d.LogSlots), wantI))
		}
		c.Max("max_dft_reverse_err_over_tolerance_x1e6", int64(1e6*e/tol))
		c.Check(e <= tol, "C18|dft.Evaluator.CoeffsToSlots-after-SlotsToCoeffs|not-identity", func() string {
			return fmt.Sprintf("max error 2^%.1f > 2^%.1f (%+v)", math.Log2(e), math.Log2(tol), d)
		})

	case "receivers":
		full := !sparse
		mkImag := func() *rlwe.Ciphertext {
			if full && !std {
				return dirtyCt(params, params.MaxLevel(), r)
			}
			return nil
		}
		recvR, recvI := dirtyCt(params, params.MaxLevel(), r), mkImag()
		recvO := dirtyCt(params, params.MaxLevel(), r)
		redirty := func(ct *rlwe.Ciphertext) {
			if ct != nil {
				// a caller reusing a buffer: back to full size (stale residues stay), unrelated metadata
				ct.Resize(1, params.MaxLevel())
				ct.Scale = rlwe.NewScale(777.25)
				ct.LogDimensions = ring.Dimensions{Rows: 0, Cols: 1}
			}
		}
		for round := 0; round < 2; round++ {
			if round > 0 {
				redirty(recvR)
				redirty(recvI)
				redirty(recvO)
			}
			ct := encrypt(coeffInput(rnd(n, false)), d.LogSlots)
			var refR, refI, refO *rlwe.Ciphertext
			if !c.Try("C18|dft.Evaluator.CoeffsToSlots", func() {
				if refR, refI, err = eval.CoeffsToSlotsNew(ct.CopyNew(), encM); err == nil {
					err = eval.CoeffsToSlots(ct.CopyNew(), encM, recvR, recvI)
				}
			}) {
				return
			}
			if err != nil {
				c.Violate("C18|dft.Evaluator.CoeffsToSlots|error-on-admissible", err.Error(), d)
				return
			}
			if std {
				refI = nil
			}
			c.Count("dft_transforms", 2)
			c.Count("dft_receiver_differentials", 1)
			ok := samePolys(refR, recvR) && sameMeta(refR, recvR) && (refI == nil) == (recvI == nil) && (refI == nil || (samePolys(refI, recvI) && sameMeta(refI, recvI)))
			if !c.Check(ok, "C18|dft.Evaluator.CoeffsToSlots|provided-receivers-differ-from-CoeffsToSlotsNew", func() string {
				return fmt.Sprintf("round %d: receiver level %d scale 2^%.3f dims %v, fresh level %d scale 2^%.3f dims %v (%+v)", round, recvR.Level(), recvR.Scale.Log2(), recvR.LogDimensions, refR.Level(), refR.Scale.Log2(), refR.LogDimensions, d)
			}) {
				return
			}
			if sparse && dft.Format(d.Format) == dft.SplitRealAndImag {
				continue
			}
			if !c.Try("C18|dft.Evaluator.SlotsToCoeffs", func() {
				if refO, err = eval.SlotsToCoeffsNew(refR.CopyNew(), copyOrNil(refI), decM); err == nil {
					err = eval.SlotsToCoeffs(refR.CopyNew(), copyOrNil(refI), decM, recvO)
				}
			}) {
				return
			}
			if err != nil {
				c.Violate("C18|dft.Evaluator.SlotsToCoeffs|error-on-admissible", err.Error(), d)
				return
			}
			c.Count("dft_transforms", 2)
			c.Count("dft_receiver_differentials", 1)
			if !c.Check(samePolys(refO, recvO) && sameMeta(refO, recvO), "C18|dft.Evaluator.SlotsToCoeffs|provided-receiver-differs-from-SlotsToCoeffsNew", func() string {
				return fmt.Sprintf("round %d: receiver level %d scale 2^%.3f dims %v, fresh level %d scale 2^%.3f dims %v (%+v)", round, recvO.Level(), recvO.Scale.Log2(), recvO.LogDimensions, refO.Level(), refO.Scale.Log2(), refO.LogDimensions, d)
			}) {
				return
			}
		}

	case "above":
		z := rnd(n, false)
		in := coeffInput(z)
		ct := encrypt(in, d.LogSlots) // at MaxLevel = encLit.LevelQ + 1
		var ctReal, ctImag *rlwe.Ciphertext
		if !c.Try("C18|dft.Evaluator.CoeffsToSlots", func() { ctReal, ctImag, err = eval.CoeffsToSlotsNew(ct, encM) }) {
			return
		}
		if err != nil {
			c.Violate("C18|dft.Evaluator.CoeffsToSlots|error-on-admissible|input-above-LevelQ", err.Error(), d)
			return
		}
		c.Count("dft_transforms", 1)
		c.Count("dft_inputs_above_LevelQ", 1)
		if std {
			ctImag = nil
		}
		wantL := encLevel - len(d.Enc)
		if !c.Check(ctReal.Level() == wantL && (ctImag == nil || ctImag.Level() == wantL), "C18|dft.Evaluator.CoeffsToSlots|levels-consumed-differ-from-Depth|input-above-LevelQ", func() string {
			return fmt.Sprintf("input at level %d, LevelQ=%d, Levels=%v: output at level %d", params.MaxLevel(), encLevel, d.Enc, ctReal.Level())
		}) {
			return
		}
		s := 1.0
		if d.Scaling != 0 {
			s = d.Scaling
		}
		if !d.BitRev {
			var have, want []complex128
			switch {
			case std:
				have, want = decode(ctReal, d.LogSlots), z
			case sparse && dft.Format(d.Format) == dft.RepackImagAsReal:
				have = decode(ctReal, d.LogSlots+1)
				want = make([]complex128, 2*n)
				for i := range z {
					want[i], want[n+i] = complex(real(z[i]), 0), complex(imag(z[i]), 0)
				}
			default:
				have = append(decode(ctReal, d.LogSlots), decode(ctImag, d.LogSlots)...)
				want = make([]complex128, 2*n)
				for i := range z {
					want[i], want[n+i] = complex(real(z[i]), 0), complex(imag(z[i]), 0)
				}
			}
			for i := range want {
				want[i] *= complex(s, 0)
			}
			e := maxAbsDiff(have, want)
			c.Check(e <= tol*math.Max(1, s), "C18|dft.Evaluator.CoeffsToSlots|differs-from-coefficient-model|input-above-LevelQ", func() string {
				return fmt.Sprintf("max error 2^%.1f > 2^%.1f (%+v)", math.Log2(e), math.Log2(tol), d)
			})
		}
		var back *rlwe.Ciphertext
		if !c.Try("C18|dft.Evaluator.SlotsToCoeffs", func() { back, err = eval.SlotsToCoeffsNew(ctReal, ctImag, decM) }) {
			return
		}
		if err != nil {
			c.Violate("C18|dft.Evaluator.SlotsToCoeffs|error-on-admissible", err.Error(), d)
			return
		}
		c.Count("dft_transforms", 1)
		if !c.Check(back.Level() == wantL-len(d.Dec), "C18|dft.Evaluator.SlotsToCoeffs|levels-consumed-differ-from-Depth", nil) {
			return
		}
		e := maxAbsDiff(decode(back, d.LogSlots), in)
		c.Check(e <= tol*math.Max(1, maxAbs(in)), "C18|dft.Evaluator.SlotsToCoeffs-after-CoeffsToSlots|not-identity|input-above-LevelQ", func() string {
			return fmt.Sprintf("max error 2^%.1f > 2^%.1f (%+v)", math.Log2(e), math.Log2(tol), d)
		})
	}
}

func copyOrNil(ct *rlwe.Ciphertext) *rlwe.Ciphertext {
	if ct == nil {
		return nil
	}
	return ct.CopyNew()
}
