package c18

// floors: log2 of the largest |out - model| observed per named configuration on the unchanged tree
// (calibration: C18_CALIB=<file> vcheck C18, i.e. 36 calls per set over input levels, slot counts,
// batches, message classes, level-0 scales and evaluator copies; sets whose every call ends in a known
// finding on the unchanged tree were calibrated on a scratch copy carrying the suggested repairs).
// Frozen; the verdict threshold is floor + marginBits. High-precision sets are clamped at 2^-50
// (the harness decodes into float64).
var floors = map[string]float64{
	"arcsine3-n9":             -24.1, // n=31
	"arcsine5-n9":             -23.9, // n=31
	"arcsine7-n9":             -26.7, // n=31
	"base-n10":                -24.7, // n=34
	"base-n11":                -24.4, // n=33
	"base-n8":                 -24.6, // n=34
	"base-n9":                 -24.6, // n=35
	"ci-n10":                  -24.6, // n=36
	"ci-n9":                   -24.7, // n=36
	"coscont-n9":              -25.0, // n=36
	"cosdisc-r0-n9":           -27.1, // n=33
	"cosdisc-r1-n9":           -23.2, // n=35
	"cosdisc-r2-n9":           -15.8, // n=32
	"cosdisc-r3-n9":           -27.2, // n=32
	"def-N15QP768H192H32":     -9.3,  // n=36
	"def-N15QP880H16384H32":   -11.2, // n=36
	"def-N16QP1546H192H32":    -24.6, // n=32
	"def-N16QP1547H192H32":    -28.0, // n=34
	"def-N16QP1553H192H32":    -15.0, // n=36
	"def-N16QP1767H32768H32":  -24.3, // n=35
	"def-N16QP1788H32768H32":  -28.3, // n=33
	"def-N16QP1793H32768H32":  -15.1, // n=36
	"dense-eph32-n9":          -24.4, // n=34
	"dense-noeph-n8":          -24.3, // n=34
	"dft-c2s1-n8":             -21.4, // n=36
	"dft-c2s2-s2c1-n9":        -23.6, // n=33
	"dft-deep-n9":             -21.5, // n=35
	"dft-s2c-merged-n9":       -19.6, // n=36
	"eph8-k8-n9":              -27.2, // n=29
	"evalmod50-n9":            -15.0, // n=32
	"hp80-iter1-noreserve-n9": -49.5, // n=32
	"hp80-n9":                 -50.0, // n=34
	"hp80-noiter-n9":          -24.5, // n=32
	"iter1-reserved-n9":       -31.1, // n=30
	"logp1-n9":                -24.6, // n=31
	"logp55x3-n9":             -12.7, // n=35
	"n1lt-n10-d1":             -25.4, // n=27
	"n1lt-n10-d2":             -26.1, // n=25
	"n1lt-n10-d4":             -27.2, // n=22
	"n1lt-n9-d1-slots6":       -26.4, // n=22
	"n1lt-noeph-n9":           -25.2, // n=26
	"order-custom-n8":         -24.6, // n=34
	"noeph-q0-55-n9":          -26.4, // n=32
	"q0above-evalmod55-n9":    -22.0, // n=32
	"q0above-n9":              -24.7, // n=30
	"order-decode-first-n8":   -24.6, // n=29
	"sin-arcsine-n9":          -24.4, // n=35
	"sin-n9":                  -24.2, // n=32
	"slots1-n9":               -29.1, // n=31
	"slots2-n9":               -28.9, // n=34
	"slots5-n9":               -27.2, // n=31
	"slots7-n9":               -25.1, // n=35
	"sparse16-noeph-n9":       -24.3, // n=35
}

// mod1Floors: same for the stand-alone mod1 evaluations: {integer part in the inner half, whole interval}.
var mod1Floors = map[string][2]float64{
	"coscont-k16-d127-r1":        {-38.4, -37.7},
	"coscont-k16-d63-r3":         {-37.8, -37.6},
	"coscont-k30-d63-r3":         {-37.2, -36.4},
	"coscont-k325-d177-r4":       {-34.5, -33.6},
	"cosdisc-k12-d30-r3":         {-37.8, -30.5},
	"cosdisc-k12-d30-r3-asin3":   {-38.0, -33.2},
	"cosdisc-k12-d30-r3-asin7":   {-38.2, -33.9},
	"cosdisc-k16-d30-r3":         {-30.5, -4.5},
	"cosdisc-k16-d30-r3-ratio14": {-29.5, -3.5},
	"cosdisc-k5-d63-r0":          {-38.4, -14.5},
	"cosdisc-k8-d30-r2":          {-25.7, -7.0},
	"cosdisc-k8-d47-r1":          {-31.5, -1.2},
	"sin-k14-d127":               {-35.1, -34.7},
	"sin-k14-d127-asin7":         {-35.2, -34.7},
	"sin-k6-d63":                 {-28.7, -27.7},
}
