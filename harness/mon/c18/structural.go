package c18

import (
	"fmt"
	"os"
	"regexp"
	"strconv"

	"github.com/tuneinsight/lattigo/v6/circuits/ckks/bootstrapping"
	"github.com/tuneinsight/lattigo/v6/ring"
	"github.com/tuneinsight/lattigo/v6/schemes/ckks"

	"verif/harness/eng"
)

func appendCalib(line string) {
	if calibPath == "" {
		return
	}
	if f, err := os.OpenFile(calibPath, os.O_CREATE|os.O_WRONLY|os.O_APPEND, 0o644); err == nil {
		f.WriteString(line)
		f.Close()
	}
}

type defaultSet struct {
	Name   string
	Scheme ckks.ParametersLiteral
	Btp    bootstrapping.ParametersLiteral
}

func exportedDefaults() []defaultSet {
	return []defaultSet{
		{"N16QP1546H192H32", bootstrapping.N16QP1546H192H32.SchemeParams, bootstrapping.N16QP1546H192H32.BootstrappingParams},
		{"N16QP1547H192H32", bootstrapping.N16QP1547H192H32.SchemeParams, bootstrapping.N16QP1547H192H32.BootstrappingParams},
		{"N16QP1553H192H32", bootstrapping.N16QP1553H192H32.SchemeParams, bootstrapping.N16QP1553H192H32.BootstrappingParams},
		{"N15QP768H192H32", bootstrapping.N15QP768H192H32.SchemeParams, bootstrapping.N15QP768H192H32.BootstrappingParams},
		{"N16QP1767H32768H32", bootstrapping.N16QP1767H32768H32.SchemeParams, bootstrapping.N16QP1767H32768H32.BootstrappingParams},
		{"N16QP1788H32768H32", bootstrapping.N16QP1788H32768H32.SchemeParams, bootstrapping.N16QP1788H32768H32.BootstrappingParams},
		{"N16QP1793H32768H32", bootstrapping.N16QP1793H32768H32.SchemeParams, bootstrapping.N16QP1793H32768H32.BootstrappingParams},
		{"N15QP880H16384H32", bootstrapping.N15QP880H16384H32.SchemeParams, bootstrapping.N15QP880H16384H32.BootstrappingParams},
	}
}

func structCases() []eng.Case {
	var out []eng.Case
	for _, d := range exportedDefaults() {
		d := d
		out = append(out, eng.Case{ID: "struct/" + d.Name, Sig: "C18|struct", Desc: d.Name, Run: func(c *eng.Ctx) { runStruct(c, d) }})
	}
	return out
}

var nameRe = regexp.MustCompile(`^N(\d+)QP(\d+)H(\d+)H(\d+)$`)

// runStruct: the full-size exported defaults instantiate and their bookkeeping agrees with the
// definitions and with what their names announce. No keys are generated (tens of GB).
func runStruct(c *eng.Ctx, d defaultSet) {
	lit := d.Btp
	lit.LogN = &d.Scheme.LogN // the shipped literals leave LogN to its default 16; the N15 sets need 15
	res, err := ckks.NewParametersFromLiteral(d.Scheme)
	if err != nil {
		c.Violate("C18|struct|ckks.NewParametersFromLiteral|error-on-exported-default", err.Error(), d.Name)
		return
	}
	var btp bootstrapping.Parameters
	if !c.Try("C18|struct|NewParametersFromLiteral", func() { btp, err = bootstrapping.NewParametersFromLiteral(res, lit) }) {
		return
	}
	if err != nil {
		c.Violate("C18|struct|NewParametersFromLiteral|error-on-exported-default", err.Error(), d.Name)
		return
	}
	c.Distinct("struct/"+d.Name, true)
	c.Sample(map[string]any{"kind": "struct", "set": d.Name, "logQP": btp.BootstrappingParameters.LogQP(), "Q_primes": btp.BootstrappingParameters.QCount(),
		"P_primes": btp.BootstrappingParameters.PCount(), "galois_elements": len(btp.GaloisElements(btp.BootstrappingParameters))})
	p2 := btp.BootstrappingParameters
	m := nameRe.FindStringSubmatch(d.Name)
	logN, _ := strconv.Atoi(m[1])
	qp, _ := strconv.Atoi(m[2])
	h, _ := strconv.Atoi(m[3])
	he, _ := strconv.Atoi(m[4])
	c.Check(p2.LogN() == logN && res.LogN() == logN, "C18|struct|name-vs-logN", nil)
	_ = qp // log2(QP) of the name is the paper's; the automatic prime allocation differs (C19 judges security)
	xs, okx := res.Xs().(ring.Ternary)
	c.Check(okx && xs.H == h, "C18|struct|name-vs-secret-weight", nil)
	c.Check(btp.EphemeralSecretWeight == he, "C18|struct|name-vs-ephemeral-weight", nil)
	structureChecks(c, res, btp)
	// depth accessors agree with the literals they are named after
	c.Check(btp.Depth() == btp.CoeffsToSlotsParameters.Depth(true)+btp.Mod1ParametersLiteral.Depth()+btp.SlotsToCoeffsParameters.Depth(true) &&
		btp.Depth() == p2.MaxLevel()-res.MaxLevel(), "C18|Parameters.Depth|differs-from-levels", nil)
	c.Check(btp.DepthCoeffsToSlots() == btp.CoeffsToSlotsParameters.Depth(true) && btp.DepthSlotsToCoeffs() == btp.SlotsToCoeffsParameters.Depth(true),
		"C18|Parameters.DepthCoeffsToSlots|swapped-with-DepthSlotsToCoeffs", func() string {
			return fmt.Sprintf("%s: DepthCoeffsToSlots()=%d but CoeffsToSlotsParameters.Depth(true)=%d; DepthSlotsToCoeffs()=%d but SlotsToCoeffsParameters.Depth(true)=%d",
				d.Name, btp.DepthCoeffsToSlots(), btp.CoeffsToSlotsParameters.Depth(true), btp.DepthSlotsToCoeffs(), btp.SlotsToCoeffsParameters.Depth(true))
		})
	c.Check(btp.DepthEvalMod() == btp.Mod1ParametersLiteral.Depth(), "C18|Parameters.DepthEvalMod|differs", nil)
	// Galois element list: unique, odd, below 2N, contains the conjugation
	gs := btp.GaloisElements(p2)
	seen := map[uint64]bool{}
	okg := true
	for _, g := range gs {
		if seen[g] || g&1 == 0 || g >= uint64(2*p2.N()) {
			okg = false
		}
		seen[g] = true
	}
	c.Check(okg && seen[p2.GaloisElementForComplexConjugation()], "C18|Parameters.GaloisElements|malformed-list", nil)
	// serialisation round trip of the parameters object
	var back bootstrapping.Parameters
	data, err := btp.MarshalBinary()
	if err == nil {
		err = back.UnmarshalBinary(data)
	}
	c.Check(err == nil && btp.Equal(&back), "C18|Parameters.MarshalBinary|round-trip-differs", func() string { return fmt.Sprint(err) })
}

// structureChecks: level bookkeeping shared by every instantiated parameter object.
func structureChecks(c *eng.Ctx, res ckks.Parameters, btp bootstrapping.Parameters) {
	p2 := btp.BootstrappingParameters
	resv := 0
	if btp.IterationsParameters != nil && btp.IterationsParameters.ReservedPrimeBitSize > 0 {
		resv = 1
	}
	s2c, c2s, em := btp.SlotsToCoeffsParameters, btp.CoeffsToSlotsParameters, btp.Mod1ParametersLiteral
	c.Check(p2.MaxLevel() == c2s.LevelQ, "C18|NewParametersFromLiteral|levels|c2s-start-not-max-level", func() string {
		return fmt.Sprintf("MaxLevel=%d C2S.LevelQ=%d", p2.MaxLevel(), c2s.LevelQ)
	})
	c.Check(c2s.LevelQ-c2s.Depth(true) == em.LevelQ && em.LevelQ-em.Depth() == s2c.LevelQ && s2c.LevelQ-s2c.Depth(true) == res.MaxLevel()+resv,
		"C18|NewParametersFromLiteral|levels|chain-inconsistent", func() string {
			return fmt.Sprintf("C2S %d-%d, Mod1 %d-%d, S2C %d-%d, residual max %d reserved %d", c2s.LevelQ, c2s.Depth(true), em.LevelQ, em.Depth(), s2c.LevelQ, s2c.Depth(true), res.MaxLevel(), resv)
		})
	c.Check(p2.QCount() == res.QCount()+resv+s2c.Depth(true)+em.Depth()+c2s.Depth(true), "C18|NewParametersFromLiteral|levels|prime-count", nil)
	sameQ := true
	for i, q := range res.Q() {
		if p2.Q()[i] != q {
			sameQ = false
		}
	}
	c.Check(sameQ, "C18|NewParametersFromLiteral|residual-primes-not-a-prefix", nil)
	seen := map[uint64]bool{}
	okp := true
	for _, q := range append(append([]uint64{}, p2.Q()...), p2.P()...) {
		if seen[q] {
			okp = false
		}
		seen[q] = true
	}
	for _, q := range p2.Q() {
		if q%uint64(2*p2.N()) != 1 {
			okp = false
		}
	}
	c.Check(okp, "C18|NewParametersFromLiteral|primes-not-distinct-or-not-ntt-friendly", nil)
}
