package c18

import (
	"fmt"
	"math"
	"math/big"
	"runtime/debug"
	"strings"

	"github.com/tuneinsight/lattigo/v6/circuits/ckks/bootstrapping"
	"github.com/tuneinsight/lattigo/v6/core/rlwe"
	"github.com/tuneinsight/lattigo/v6/ring"
	"github.com/tuneinsight/lattigo/v6/schemes/ckks"

	"verif/harness/eng"
)

// input describes one call of the bootstrapping evaluator.
type input struct {
	API      string `json:"api"`      // Bootstrap | BootstrapMany | Evaluate | EvaluateConjugateInvariant
	Level    int    `json:"level"`    // level of the input ciphertexts
	LogSlots int    `json:"logSlots"` // slots of each input ciphertext
	Batch    int    `json:"batch"`
	Mag      string `json:"mag"`             // unit | mid | max | const | onehot
	Scale    string `json:"scale"`           // default | pow2low | pow2max
	Copy     bool   `json:"copy"`            // run on a ShallowCopy of the evaluator
	Chain    bool   `json:"chain,omitempty"` // audit extension: bootstrap, drop back to Level, bootstrap again
}

// measurement is what one call produced (used by the calibration probe).
type measurement struct {
	In      input
	ErrLog2 float64 // log2 max |out - model| over the batch
	DLog2   float64 // log2 of the modelled (documented) distortion
	RawLog2 float64 // log2 max |out - in|
	Failed  bool
}

type session struct {
	c      *eng.Ctx
	cf     cfg
	res    ckks.Parameters
	btp    bootstrapping.Parameters
	skN1   *rlwe.SecretKey
	skN2   *rlwe.SecretKey
	evk    *bootstrapping.EvaluationKeys
	eval   *bootstrapping.Evaluator
	cp     *bootstrapping.Evaluator
	ecd    *ckks.Encoder
	enc    *rlwe.Encryptor
	dec    *rlwe.Decryptor
	ci     bool
	floor  float64 // log2 of the frozen error floor of the configuration
	hasFlr bool
	meas   []measurement
}

func sigAPI(api string) string { return "C18|Evaluator." + api }

// predicates: discriminating suffix of a signature, computed from the parameter set and the call.
func (s *session) predicates(in input) string {
	var p []string
	for _, g := range s.cf.S2C {
		if len(g) > 1 {
			p = append(p, "s2c-shared-prime")
			break
		}
	}
	for _, g := range s.cf.C2S {
		if len(g) > 1 {
			p = append(p, "c2s-shared-prime")
			break
		}
	}
	if len(p) == 0 {
		return ""
	}
	return "|" + strings.Join(p, ",")
}

// panicSite returns the innermost function of the bootstrapping package on the stack of a recovered
// panic (no line numbers), to tell apart panics of different origin.
func panicSite(stack string) string {
	const pkg = "lattigo/v6/circuits/ckks/bootstrapping."
	for _, l := range strings.Split(stack, "\n") {
		if i := strings.Index(l, pkg); i >= 0 && !strings.HasPrefix(l, "\t") {
			fn := l[i+len(pkg):]
			if j := strings.Index(fn, "("); j >= 0 {
				// keep "(*T).method" receivers intact: cut at the argument list = last '(' group
				if k := strings.LastIndex(fn, "("); k > 0 {
					fn = fn[:k]
				}
			}
			fn = strings.NewReplacer("(*", "", ")", "").Replace(fn)
			return fn
		}
	}
	return "outside-bootstrapping-package"
}

// keepPreds filters a "|a|b,c" predicate string down to the listed predicates.
func keepPreds(preds string, keep ...string) string {
	out := ""
	for _, p := range strings.Split(preds, "|") {
		for _, k := range keep {
			if p == k {
				out += "|" + p
			}
		}
	}
	return out
}

// tryCall runs f; a panic becomes a violation sig|panic|in:<function>[|predicates].
func (s *session) tryCall(sig, preds string, f func()) (ok bool) {
	defer func() {
		if r := recover(); r != nil {
			ok = false
			st := string(debug.Stack())
			var keep []string
			for _, l := range strings.Split(st, "\n") {
				if strings.Contains(l, "/repo/") {
					keep = append(keep, strings.TrimSpace(l))
				}
			}
			if len(keep) > 8 {
				keep = keep[:8]
			}
			site := panicSite(st)
			switch site {
			case "Evaluator.pack":
				preds = keepPreds(preds, "level>0")
			case "Evaluator.unpack":
				preds = keepPreds(preds, "on-shallow-copy", "N1<N2")
			}
			s.c.Violate(sig+"|panic|in:"+site+preds, fmt.Sprintf("panic: %v (config %s)\n%s", r, s.cf.Name, strings.Join(keep, "\n")), nil)
		}
	}()
	f()
	return true
}

// newSession instantiates parameters, keys and evaluator of a configuration, judging each step.
func newSession(c *eng.Ctx, cf cfg) *session {
	s := &session{c: c, cf: cf}
	var err error
	if !c.Try("C18|NewParametersFromLiteral", func() { s.res, s.btp, err = cf.build() }) {
		return nil
	}
	if err != nil {
		c.Violate("C18|NewParametersFromLiteral|error-on-admissible", err.Error(), cf)
		return nil
	}
	s.ci = s.res.RingType() == ring.ConjugateInvariant
	checkParamsStructure(c, cf, s.res, s.btp)
	s.skN1 = rlwe.NewKeyGenerator(s.res).GenSecretKeyNew()
	if !c.Try("C18|Parameters.GenEvaluationKeys", func() { s.evk, s.skN2, err = s.btp.GenEvaluationKeys(s.skN1) }) {
		return nil
	}
	if err != nil || s.evk == nil || s.skN2 == nil {
		c.Violate("C18|Parameters.GenEvaluationKeys|error-on-admissible", fmt.Sprint(err), cf)
		return nil
	}
	c.Try("C18|Parameters.GenEvaluationKeys|classification", func() { checkKeys(c, cf, s.btp, s.skN1, s.skN2, s.evk) })
	if !c.Try("C18|NewEvaluator", func() { s.eval, err = bootstrapping.NewEvaluator(s.btp, s.evk) }) {
		return nil
	}
	if err != nil {
		c.Violate("C18|NewEvaluator|reports-missing-key-or-error-on-helper-bundle", err.Error(), cf)
		return nil
	}
	c.Check(s.eval.OutputLevel() == s.res.MaxLevel() && s.eval.Depth() == s.btp.BootstrappingParameters.MaxLevel()-s.res.MaxLevel(), "C18|Evaluator.OutputLevel|inconsistent", nil)
	s.ecd = ckks.NewEncoder(s.res)
	s.enc = rlwe.NewEncryptor(s.res, s.skN1)
	s.dec = rlwe.NewDecryptor(s.res, s.skN1)
	s.floor, s.hasFlr = floors[cf.Name]
	return s
}

func (s *session) copyEval() *bootstrapping.Evaluator {
	if s.cp == nil {
		s.c.Try("C18|Evaluator.ShallowCopy", func() { s.cp = s.eval.ShallowCopy() })
	}
	return s.cp
}

// maxCtLogSlots: largest slot count of an input ciphertext.
func (s *session) maxCtLogSlots() int {
	return min(s.res.LogMaxSlots(), s.btp.LogMaxSlots())
}

func (s *session) minLevel() int {
	if s.res.PrecisionMode() == ckks.PREC128 {
		return 1
	}
	return 0
}

// genValues draws a message of the given class and normalises it so that no coefficient of the
// message polynomial exceeds 0.95 (the announced ratio Q0/|m| is then respected after ScaleDown).
func (s *session) genValues(r *eng.Rand, emb *embedding, mag string, realOnly bool) []complex128 {
	n := emb.n
	v := make([]complex128, n)
	u := func() float64 { return 2*r.F64() - 1 }

	switch mag {
	case "const":
		z := complex(u(), u())
		for i := range v {
			v[i] = z
		}
	case "onehot":
		v[r.N(n)] = complex(u(), u())
	default:
		for i := range v {
			v[i] = complex(u(), u())
		}
	}
	if realOnly {
		for i := range v {
			v[i] = complex(real(v[i]), 0)
		}
	}
	c := emb.coeffs(v)
	var mc float64
	for _, x := range c {
		mc = math.Max(mc, math.Abs(x))
	}
	target := 0.0
	switch mag {
	case "max":
		target = 0.95
	case "mid":
		target = 0.25
	case "const", "onehot":
		target = 0.5 + 0.45*r.F64()
	default: // unit: only shrink when needed
		if mc > 0.95 {
			target = 0.95
		}
	}
	if target != 0 && mc > 0 {
		f := target / mc
		for i := range v {
			v[i] *= complex(f, 0)
		}
	}
	return v
}

func pow2Scale(e int) rlwe.Scale {
	return rlwe.NewScale(new(big.Float).SetMantExp(big.NewFloat(1), e))
}

// inputScale returns the scale of the input ciphertexts: level >= 1 -> the default scale; level 0 ->
// a power of two not above Q0/MessageRatio, as Evaluate documents.
func (s *session) inputScale(in input) rlwe.Scale {
	if in.Scale == "non-pow2" {
		// level >= 1 only: "the input scale does not need to be an exact power of two"
		f := new(big.Float).SetPrec(128).SetFloat64(1.37)
		d := s.res.DefaultScale()
		return rlwe.NewScale(f.Mul(f, &d.Value))
	}
	// largest power of two strictly below Q0/MessageRatio
	q0 := float64(s.res.Q()[0])
	top := int(math.Ceil(math.Log2(q0))) - 1 - s.cf.LogRatio
	// audit extension: exact powers of two other than the default scale at level >= 1 (any scale is documented
	// as admissible there; these stay below Q0/MessageRatio like the level-0 classes)
	switch in.Scale {
	case "pow2lvl-2primes":
		// level >= 2: the smallest power of two above Q0*Q1/MessageRatio. ScaleDown keeps two primes for such an
		// input (its own admissibility test, Q_l/scale >= Q0/(2*MessageRatio), holds at level 2) and has to divide
		// by both of them to reach Q0/MessageRatio.
		return pow2Scale(int(math.Floor(math.Log2(q0)+math.Log2(float64(s.res.Q()[1])))) - s.cf.LogRatio + 1)
	case "pow2lvl-top":
		return pow2Scale(top)
	case "pow2lvl-up":
		return pow2Scale(min(s.cf.ResLogScale+2, top))
	case "pow2lvl-low":
		return pow2Scale(min(s.cf.ResLogScale-3, top))
	}
	if in.Level > 0 || in.Scale == "default" {
		return s.res.DefaultScale()
	}
	switch in.Scale {
	case "pow2max":
		return pow2Scale(top)
	case "pow2low":
		e := s.cf.ResLogScale - 4
		if e > top {
			e = top
		}
		return pow2Scale(e)
	}
	return s.res.DefaultScale()
}

// run performs one call and judges it.
func (s *session) run(in input) {
	c := s.c
	r := c.Rand()
	sig := sigAPI(in.API)
	preds := s.predicates(in)
	ev := s.eval
	if in.Copy {
		if ev = s.copyEval(); ev == nil {
			return
		}
	}
	scale := s.inputScale(in)
	// --- messages and ciphertexts
	logSlots := in.LogSlots
	if s.ci {
		logSlots = s.res.LogMaxSlots()
	}
	nct := in.Batch
	type msg struct {
		v   []complex128 // model slots (for CI pairs: left + i*right)
		ref []complex128
	}
	var msgs []msg
	cts := make([]rlwe.Ciphertext, nct)
	embLog := logSlots
	emb := newEmbedding(embLog)
	decode := func(ct *rlwe.Ciphertext) []complex128 {
		out := make([]complex128, 1<<logSlots)
		if err := s.ecd.Decode(s.dec.DecryptNew(ct), out); err != nil {
			panic(err)
		}
		return out
	}
	encrypt := func(v []complex128) *rlwe.Ciphertext {
		pt := ckks.NewPlaintext(s.res, in.Level)
		pt.Scale = scale
		pt.LogDimensions = ring.Dimensions{Rows: 0, Cols: logSlots}
		if err := s.ecd.Encode(v, pt); err != nil {
			panic(err)
		}
		ct, err := s.enc.EncryptNew(pt)
		if err != nil {
			panic(err)
		}
		return ct
	}
	if s.ci {
		// ciphertexts are consumed in pairs (left, right); model vector = left + i*right
		for i := 0; i < nct; i += 2 {
			z := s.genValues(r, emb, in.Mag, i+1 >= nct)
			left := make([]complex128, len(z))
			right := make([]complex128, len(z))
			for k := range z {
				left[k] = complex(real(z[k]), 0)
				right[k] = complex(imag(z[k]), 0)
			}
			cts[i] = *encrypt(left)
			rl := decode(&cts[i])
			m := msg{v: make([]complex128, len(z)), ref: rl}
			for k := range z {
				m.v[k] = complex(real(rl[k]), 0)
			}
			msgs = append(msgs, m)
			if i+1 < nct {
				cts[i+1] = *encrypt(right)
				rr := decode(&cts[i+1])
				for k := range z {
					msgs[len(msgs)-1].v[k] += complex(0, real(rr[k]))
				}
				msgs = append(msgs, msg{ref: rr})
			}
		}
	} else {
		for i := 0; i < nct; i++ {
			v := s.genValues(r, emb, in.Mag, false)
			cts[i] = *encrypt(v)
			rf := decode(&cts[i])
			msgs = append(msgs, msg{v: rf, ref: rf})
		}
	}
	inMeta := make([]rlwe.MetaData, nct)
	for i := range cts {
		inMeta[i] = *cts[i].MetaData
	}

	// --- the call
	var outs []rlwe.Ciphertext
	var err error
	callPreds := preds
	if in.Level > 0 {
		callPreds += "|level>0"
	}
	if in.Copy {
		callPreds += "|on-shallow-copy"
	}
	if s.res.N() != s.btp.BootstrappingParameters.N() && !s.ci {
		callPreds += "|N1<N2"
	}
	ok := s.tryCall(sig, callPreds, func() {
		switch in.API {
		case "Bootstrap":
			var o *rlwe.Ciphertext
			if o, err = ev.Bootstrap(&cts[0]); err == nil && o != nil {
				outs = []rlwe.Ciphertext{*o}
			}
		case "Evaluate":
			var o *rlwe.Ciphertext
			if o, err = ev.Evaluate(&cts[0]); err == nil && o != nil {
				outs = []rlwe.Ciphertext{*o}
			}
		case "EvaluateConjugateInvariant":
			var l, rr, second *rlwe.Ciphertext
			if nct > 1 {
				second = &cts[1]
			}
			if l, rr, err = ev.EvaluateConjugateInvariant(&cts[0], second); err == nil && l != nil {
				outs = []rlwe.Ciphertext{*l}
				if rr != nil {
					outs = append(outs, *rr)
				}
			}
		default:
			outs, err = ev.BootstrapMany(cts)
		}
	})
	key := fmt.Sprintf("btp/%s/%s/l%d/s%d/b%d/%s/%s/%v", s.cf.Name, in.API, in.Level, logSlots, in.Batch, in.Mag, in.Scale, in.Copy)
	nontrivial := in.Level > 0 || logSlots < s.btp.LogMaxSlots() || in.Batch > 1 || in.Copy || in.Mag != "unit" || s.ci || s.res.N() != s.btp.BootstrappingParameters.N() || in.Scale != "default"
	c.Distinct(key, nontrivial)
	c.Count("bootstrap_calls", 1)
	c.Count("ciphertexts_bootstrapped", int64(nct))
	if in.Copy {
		c.Count("calls_on_shallow_copy", 1)
	}
	m := measurement{In: in}
	defer func() { s.meas = append(s.meas, m) }()
	if !ok {
		m.Failed = true
		return
	}
	if err != nil {
		m.Failed = true
		c.Violate(sig+"|error-on-admissible"+preds, fmt.Sprintf("%v (config %s, input %+v)", err, s.cf.Name, in), s.witness(in))
		return
	}
	c.Eval(1)
	if len(outs) != nct {
		m.Failed = true
		c.Violate(sig+"|wrong-number-of-outputs", fmt.Sprintf("%d inputs, %d outputs", nct, len(outs)), s.witness(in))
		return
	}
	// --- level, scale, metadata: exact
	wantLevel := s.res.MaxLevel()
	wantScale := s.res.DefaultScale()
	iterMode := s.cf.Iter != nil || s.res.PrecisionMode() == ckks.PREC128
	nonDefaultScale := scale.Cmp(s.res.DefaultScale()) != 0
	// message-error signatures additionally carry the scale class of the input
	msgPreds := preds
	if iterMode && nonDefaultScale {
		msgPreds += "|iterated,input-scale!=default"
	}
	if in.Scale == "non-pow2" {
		msgPreds += "|input-scale-not-a-power-of-two"
	}
	for i := range outs {
		o := &outs[i]
		c.Check(o.Level() == wantLevel && o.Level() == ev.OutputLevel(), sig+"|output-level"+preds, func() string {
			return fmt.Sprintf("output %d at level %d, OutputLevel()=%d residual max level=%d (config %s, input %+v)", i, o.Level(), ev.OutputLevel(), wantLevel, s.cf.Name, in)
		})
		// Evaluate in iterated / high-precision mode documents "ctOut.Scale = ctIn.Scale"
		scaleOK := o.Scale.Cmp(wantScale) == 0 || (in.API == "Evaluate" && iterMode && o.Scale.Cmp(scale) == 0)
		c.Check(scaleOK, sig+"|output-scale"+preds, func() string {
			return fmt.Sprintf("output %d scale 2^%.6f, residual default scale 2^%.6f (config %s, input %+v)", i, o.Scale.Log2(), wantScale.Log2(), s.cf.Name, in)
		})
		c.Check(o.Degree() == 1 && o.Value[0].N() == s.res.N() && o.IsNTT == inMeta[i].IsNTT && o.IsBatched == inMeta[i].IsBatched && o.LogDimensions == inMeta[i].LogDimensions, sig+"|output-metadata", func() string {
			return fmt.Sprintf("output %d: degree %d N %d meta %+v, input meta %+v", i, o.Degree(), o.Value[0].N(), *o.MetaData, inMeta[i])
		})
		c.Check(o.IsMontgomery == inMeta[i].IsMontgomery, sig+"|output-metadata|IsMontgomery", func() string {
			return fmt.Sprintf("output %d: IsMontgomery=%v, input %v", i, o.IsMontgomery, inMeta[i].IsMontgomery)
		})
		if o.Level() != wantLevel || o.Value[0].N() != s.res.N() || o.Degree() != 1 {
			m.Failed = true
			return
		}
	}
	// --- message
	iter := s.cf.Iter != nil
	var worst, worstD, worstRaw float64
	for i := range outs {
		o := &outs[i]
		o.LogDimensions = inMeta[i].LogDimensions // decode with the input's dimensions (checked above)
		var have []complex128
		if !c.Try(sig+"|decode-output", func() { have = decode(o) }) {
			m.Failed = true
			return
		}
		raw := maxAbsDiff(have, msgs[i].ref)
		worstRaw = math.Max(worstRaw, raw)
		if s.ci {
			// model on the packed pair; left = Re, right = Im
			if i%2 == 1 {
				continue
			}
			z := make([]complex128, len(have))
			for k := range have {
				z[k] = complex(real(have[k]), 0)
			}
			if i+1 < nct {
				o2 := &outs[i+1]
				o2.LogDimensions = inMeta[i+1].LogDimensions
				var h2 []complex128
				if !c.Try(sig+"|decode-output", func() { h2 = decode(o2) }) {
					m.Failed = true
					return
				}
				for k := range z {
					z[k] += complex(0, real(h2[k]))
				}
			}
			have = z
		}
		model := msgs[i].v
		D := 0.0
		if !iter {
			var w []complex128
			w, _ = emb.modelOutput(msgs[i].v, math.Exp2(float64(s.cf.LogRatio)), s.cf.InvDeg)
			D = maxAbsDiff(w, msgs[i].v)
			model = w
		}
		e := maxAbsDiff(have, model)
		worst = math.Max(worst, e)
		worstD = math.Max(worstD, D)
		if s.hasFlr {
			thr := math.Exp2(s.floor+marginBits) + 0.25*D
			M := maxAbs(msgs[i].v)
			c.Count("precision_checks", 1)
			if e <= thr {
				c.Max("max_passing_err_over_threshold_x1000", int64(1000*e/thr))
			}
			// the scale-class predicates name triaged defects whose effect is bounded (a relative error of at most
			// 2^-7 for a non-power-of-two input scale, a factor input/default scale <= 2^12 in iterated mode): an
			// error beyond that is something else and keeps the plain signature
			mp := msgPreds
			if in.Scale == "non-pow2" {
				// the triaged defect matches the scale with the integer k = round(Q0/(scale*MessageRatio)) after dropping
				// to level 0: relative error up to 1/(2k). k >= 8 in all but the sets with a small first prime and a
				// small message ratio; there (k < 8) the error reaches 1/6 and a message at the top of its range leaves
				// the interval of the modular reduction - its own class, without a magnitude bound
				k := math.Round(float64(s.res.Q()[0]) / (scale.Float64() * math.Exp2(float64(s.cf.LogRatio))))
				switch {
				case k < 8:
					mp = strings.Replace(mp, "|input-scale-not-a-power-of-two", "|input-scale-not-a-power-of-two,matching-integer-below-8", 1)
				case e > math.Max(M, 1.0/1024)/16:
					mp = strings.Replace(mp, "|input-scale-not-a-power-of-two", "", 1)
				}
			}
			if e > math.Max(M, 1.0/1024)*4096 {
				mp = strings.Replace(mp, "|iterated,input-scale!=default", "", 1)
			}
			c.Check(e <= thr, sig+"|message-error-above-announced-precision"+mp, func() string {
				return fmt.Sprintf("ciphertext %d/%d: max |out - model| = 2^%.2f > 2^%.2f (frozen floor of the set 2^%.1f + %g bits, documented sin distortion of this message 2^%.2f); |message|max=%.3g, |out-in|=2^%.2f (config %s, input %+v)",
					i, nct, math.Log2(e), math.Log2(thr), s.floor, marginBits, math.Log2(D+1e-300), M, math.Log2(raw+1e-300), s.cf.Name, in)
			})
		}
	}
	m.ErrLog2, m.DLog2, m.RawLog2 = math.Log2(worst+1e-300), math.Log2(worstD+1e-300), math.Log2(worstRaw+1e-300)
	if !s.hasFlr && c.Tier != "calib" {
		c.Inconclusive("no frozen precision floor for configuration " + s.cf.Name)
	}
}

const marginBits = 6.0

func (s *session) witness(in input) any {
	return map[string]any{"config": s.cf, "input": in}
}

// checkParamsStructure: depth / level bookkeeping of the instantiated parameters agrees with the
// definitions and the literal's fields arrive in the parameters object.
func checkParamsStructure(c *eng.Ctx, cf cfg, res ckks.Parameters, btp bootstrapping.Parameters) {
	structureChecks(c, res, btp)
	c.Check(btp.EphemeralSecretWeight == cf.Eph && btp.LogMaxSlots() == cf.btpLogSlots() && btp.BootstrappingParameters.LogN() == cf.BtpLogN, "C18|NewParametersFromLiteral|literal-field-lost", nil)
	// audit extension: the parameters object survives its own serialisation (a transported object must announce the
	// same ephemeral weight, circuit order, depths and levels)
	var back bootstrapping.Parameters
	data, err := btp.MarshalBinary()
	if err == nil {
		err = back.UnmarshalBinary(data)
	}
	c.Check(err == nil && btp.Equal(&back) && back.CircuitOrder == btp.CircuitOrder && back.EphemeralSecretWeight == btp.EphemeralSecretWeight && back.Depth() == btp.Depth() && back.LogMaxSlots() == btp.LogMaxSlots(),
		"C18|Parameters.MarshalBinary|round-trip-differs", func() string { return fmt.Sprintf("err=%v (config %s)", err, cf.Name) })
}
