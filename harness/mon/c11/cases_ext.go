package c11

import (
	"fmt"

	"verif/harness/eng"
)

// extCases: the families added by the coverage audit (entry points, receivers, evaluator derivations,
// refusals, histories and boundary shapes that the first families do not reach). They draw from their own
// stream so that the configurations of the older cases do not move.
func extCases(tier string, seed int64, uid func(string) string) (out []eng.Case) {
	r := eng.NewRand("c11-cases-ext", seed)
	thorough := tier == "thorough"

	// group laws at the ring degrees that are actually deployed
	lo, hi := 12, 16
	if thorough {
		lo, hi = 15, 17 // 12..14 are already part of the thorough tier
	}
	for _, rt := range []string{"std", "ci"} {
		for logN := lo; logN <= hi; logN++ {
			ac := algCfg{Ring: rt, LogN: logN}
			out = append(out, eng.Case{ID: fmt.Sprintf("alg/%s/logN%d", rt, logN), Sig: "C11|GaloisElement", Desc: ac, Run: func(c *eng.Ctx) { runAlg(c, ac) }})
		}
	}

	type fam struct {
		scheme, ring string
		ntt          bool
	}
	fams := []fam{{"ckks", "std", true}, {"ckks", "ci", true}, {"bgv", "std", true}, {"rlwe", "std", true}, {"rlwe", "std", false}, {"rlwe", "ci", true}, {"rlwe", "ci", false}}
	withP := []shape{{1, 1, 0}, {2, 1, 0}, {3, 2, 0}, {4, 3, 0}, {3, 1, 0}, {4, 2, 0}}
	noHoist := []shape{{2, 0, 8}, {2, 1, 12}, {3, 0, 5}, {1, 1, 16}}
	manyDigits := []shape{{6, 1, 0}, {8, 2, 0}, {5, 1, 0}, {7, 3, 0}, {8, 1, 0}}
	pickShape := func(s []shape) shape { return s[r.N(len(s))] }
	reps := 1
	if thorough {
		reps = 3
	}

	add := func(kind string, f fam, logN int, sh shape, sig string, run func(c *eng.Ctx, cf cfg)) {
		cf, ok := mkCfg(r, f.scheme, f.ring, logN, sh, f.ntt)
		if !ok {
			return
		}
		out = append(out, eng.Case{ID: uid(kind + "/" + cf.tag()), Sig: sig, Desc: cf, Run: func(c *eng.Ctx) { run(c, cf) }})
	}

	for rep := 0; rep < reps; rep++ {
		for _, f := range fams {
			// rotations
			rotN := []int{4, 7, 10}
			if thorough {
				rotN = []int{4, 5, 6, 8, 9, 10, 11, 12}
			}
			for _, logN := range rotN {
				add("rotx", f, logN, pickShape(withP), "C11|rotation", runRotX)
			}
			add("rotx", f, eng.Pick(r, 5, 8), pickShape(noHoist), "C11|rotation", runRotX)
			add("rotx", f, eng.Pick(r, 6, 9), pickShape(manyDigits), "C11|rotation", runRotX)

			// traces (the conjugate-invariant ring included)
			trN := []int{4, 6, 8, 10}
			if thorough {
				trN = []int{4, 5, 6, 7, 8, 9, 10, 11, 12}
			}
			for _, logN := range trN {
				add("tracex", f, logN, pickShape(withP), "C11|Trace", runTraceX)
			}
			add("tracex", f, eng.Pick(r, 5, 7), pickShape(noHoist), "C11|Trace", runTraceX)
			add("tracex", f, eng.Pick(r, 6, 9), pickShape(manyDigits), "C11|Trace", runTraceX)

			// histories
			seqN := []int{5, 8, 10}
			if thorough {
				seqN = []int{4, 5, 6, 7, 8, 9, 10, 11, 12}
			}
			for _, logN := range seqN {
				for i := 0; i < 2; i++ {
					add("seq", f, logN, pickShape(withP), "C11|sequence", runSeq)
				}
			}
			add("seq", f, eng.Pick(r, 5, 7), pickShape(noHoist), "C11|sequence", runSeq)
			add("seq", f, eng.Pick(r, 6, 9), pickShape(manyDigits), "C11|sequence", runSeq)

			// Galois keys below the maximum level of the auxiliary modulus
			klN := []int{5, 8}
			if thorough {
				klN = []int{4, 6, 7, 9, 10}
			}
			for _, logN := range klN {
				add("keylevel", f, logN, pickShape([]shape{{3, 2, 0}, {4, 3, 0}, {4, 2, 0}, {3, 3, 0}}), "C11|key-LevelP", runKeyLevel)
			}

			add("keypow2", f, eng.Pick(r, 5, 7, 9), pickShape([]shape{{2, 1, 12}, {1, 1, 16}, {3, 1, 10}, {2, 1, 6}}), "C11|key-BaseTwoDecomposition", runKeyPow2)

			// slot sums
			var ops []string
			switch f.scheme {
			case "ckks":
				ops = []string{"RotateAndAdd", "InnerSum", "Replicate", "InnerFunction", "Average"}
			case "bgv":
				ops = []string{"RotateAndAdd", "InnerSum", "Replicate", "InnerFunction"}
			default:
				ops = []string{"PartialTracesSum", "Replicate", "InnerFunction"}
			}
			sumN := []int{5, 9}
			if thorough {
				sumN = []int{4, 5, 6, 7, 8, 9, 10, 11}
			}
			budget := 9
			if thorough {
				budget = 16
			}
			for _, op := range ops {
				op := op
				for _, logN := range sumN {
					ln := logN
					if f.scheme == "ckks" && f.ring == "std" && ln < 6 {
						ln++
					}
					add("sumx/"+op, f, ln, pickShape(withP), "C11|"+op, func(c *eng.Ctx, cf cfg) { runSumX(c, cf, op, budget) })
				}
				if r.N(2) == 0 || thorough {
					add("sumx/"+op, f, eng.Pick(r, 6, 8), pickShape(manyDigits), "C11|"+op, func(c *eng.Ctx, cf cfg) { runSumX(c, cf, op, budget) })
				}
				if op == "InnerFunction" {
					add("sumx/"+op, f, eng.Pick(r, 5, 7), pickShape(noHoist), "C11|"+op, func(c *eng.Ctx, cf cfg) { runSumX(c, cf, op, budget) })
				}
			}
		}
	}
	return out
}
