package c11

import (
	"fmt"

	"github.com/tuneinsight/lattigo/v6/core/rlwe"
	"github.com/tuneinsight/lattigo/v6/ring"

	"verif/harness/eng"
	"verif/harness/ref"
)

type pair struct{ b, n int }

func isPow2(x int) bool { return x > 0 && x&(x-1) == 0 }

// pairsFor enumerates (batch, n). total = number of slots of the ciphertext, cols = slots per row.
func pairsFor(r *eng.Rand, op string, total, cols int, exhaustive bool, budget int) []pair {
	var out []pair
	ok := func(b, n int) bool {
		if b < 1 || n < 1 || n > 2048 {
			return false
		}
		switch op {
		case "InnerSum":
			return isPow2(b) && isPow2(n) && b*n <= total
		case "InnerFunction":
			return b*n <= cols
		case "Replicate":
			return b*n <= cols
		}
		return true
	}
	if op == "Average" {
		for b := 1; b <= cols; b <<= 1 {
			out = append(out, pair{b, cols / b})
		}
		return out
	}
	if exhaustive {
		for b := 1; b <= total; b++ {
			for n := 1; n*b <= total; n++ {
				if ok(b, n) {
					out = append(out, pair{b, n})
				}
			}
		}
		if op == "RotateAndAdd" || op == "PartialTracesSum" {
			// accepted although n*batch exceeds the slot count (the rotations wrap)
			out = append(out, pair{3, total/3 + 2}, pair{total, 3}, pair{cols + 1, 2})
		}
		if len(out) > budget {
			// keep boundary pairs, thin the rest
			var keep []pair
			for _, p := range out {
				l := p.b * p.n
				if l == total || l == cols || l > cols || p.n <= 3 || p.b == 1 || r.N(len(out)) < budget/2 {
					keep = append(keep, p)
				}
			}
			out = keep
		}
		return out
	}
	seen := map[pair]bool{}
	add := func(b, n int) {
		if ok(b, n) && !seen[pair{b, n}] {
			seen[pair{b, n}] = true
			out = append(out, pair{b, n})
		}
	}
	add(1, cols)
	add(1, total)
	add(cols, total/cols)
	add(cols/2, 2*total/cols)
	add(2, cols/2)
	add(1, 2)
	add(1, 3)
	add(3, 5)
	add(1, cols-1)
	add(cols/4, 3)
	add(1, 1)
	add(cols/8, 8)
	add(5, cols/5)
	add(7, 1)
	if op == "RotateAndAdd" || op == "PartialTracesSum" {
		add(3, cols/2)
		add(cols+1, 2)
	}
	for i := 0; len(out) < budget && i < 200; i++ {
		b := 1 + r.N(cols)
		if op == "InnerSum" || r.N(3) == 0 {
			b = 1 << r.N(ref.BitLen(uint64(cols)))
		}
		nmax := total / b
		if nmax < 1 {
			continue
		}
		n := 1 + r.N(nmax)
		switch r.N(4) {
		case 0:
			n = nmax
		case 1:
			n = 1 << r.N(ref.BitLen(uint64(nmax)))
		}
		add(b, n)
	}
	if len(out) > budget {
		out = out[:budget]
	}
	return out
}

func rotGals(nth uint64, offset, n int) []uint64 {
	gs := make([]uint64, n)
	for i := 0; i < n; i++ {
		gs[i] = refGal(i*offset, nth)
	}
	return gs
}

// runSum: one (configuration, operation) over many (batch, n); keys = exactly the advertised list.
func runSum(c *eng.Ctx, cf cfg, op string, exhaustive bool, budget int) {
	e, err := cf.build()
	if err != nil {
		c.Violate("C11|NewParameters|error-on-admissible", err.Error(), cf)
		return
	}
	rnd := c.Rand()
	typ := cf.Ring
	tag := cf.tag()
	maxL := len(cf.Q) - 1
	rows, cols := 1, e.S
	logSlots := 0
	switch cf.Scheme {
	case "ckks":
		logSlots = e.ck.LogMaxSlots()
		if !exhaustive && rnd.N(3) == 0 && logSlots > 3 {
			logSlots = 3 + rnd.N(logSlots-3)
		}
		cols = 1 << logSlots
	case "bgv":
		rows = 2
	}
	total := rows * cols
	api := cf.Scheme + ".Evaluator." + op
	if cf.Scheme == "rlwe" || op == "Replicate" || op == "InnerFunction" {
		api = "rlwe.Evaluator." + op
	}
	pairs := pairsFor(rnd, op, total, cols, exhaustive, budget)
	if cf.Dense > 0 {
		pairs = pairs[:0]
		for k := 3; (1<<k)-1 <= min(cf.Dense, total); k++ {
			pairs = append(pairs, pair{1, (1 << k) - 1})
			if k >= 7 && 3*((1<<k)-1) <= total {
				pairs = append(pairs, pair{3, (1 << k) - 1})
			}
		}
	}
	c.Sample(map[string]any{"kind": "sum", "op": op, "cfg": cf, "pairs": len(pairs), "slots": total, "cols": cols, "first_pairs": pairs[:min(6, len(pairs))]})

	// refused arguments must come back as errors, not panics
	if op == "InnerSum" || op == "RotateAndAdd" || op == "PartialTracesSum" {
		ev := e.newEval(nil)
		if tv, err := e.fresh(rnd, maxL, logSlots, 0, 0); err == nil {
			for _, p := range []pair{{0, 1}, {1, 0}, {3, 5}, {total, 2}, {-1, 2}} {
				p := p
				out := e.newCt(maxL)
				c.Try("C11|"+api+"|refused-arguments", func() {
					switch {
					case op == "InnerSum" && cf.Scheme == "ckks":
						_ = ev.ck.InnerSum(tv.ct, p.b, p.n, out)
					case op == "InnerSum" && cf.Scheme == "bgv":
						_ = ev.bg.InnerSum(tv.ct, p.b, p.n, out)
					case p.b == 0 || p.n == 0:
						_ = ev.rl.PartialTracesSum(tv.ct, p.b, p.n, out)
					}
				})
				c.Eval(1)
			}
		}
	}

	for _, p := range pairs {
		api := api
		b, n := p.b, p.n
		l := b * n
		offset := b
		if op == "Replicate" {
			offset = -b
		}
		if op == "PartialTracesSum" && rnd.Bool() {
			offset = -b
		}
		eops := float64(2*n+2) * e.ks(maxL)
		lo := e.minLevelFor(eops, n)
		if lo < 0 {
			c.Count("pairs_skipped_no_room", 1)
			continue
		}
		if cf.Scheme == "ckks" && e.slotTol(eops, n) > maxTol {
			c.Count("pairs_skipped_loose_bound", 1)
			continue
		}
		lin := lo + rnd.N(maxL-lo+1)
		gapL, gapB := 0, 0
		if op == "Replicate" && cols%l == 0 && rnd.N(3) != 0 {
			gapL, gapB = l, b
		}
		var logB int
		if op == "Average" {
			logB = ref.BitLen(uint64(b)) - 1
		}
		tv, err := e.fresh(rnd, lin, logSlots, gapL, gapB)
		if err != nil {
			c.Violate("C11|setup|error", err.Error(), cf)
			return
		}
		// advertised keys
		var gals []uint64
		var advName string
		ok := c.Try("C11|GaloisElementsFor"+op, func() {
			switch {
			case op == "Replicate" && cf.Scheme == "ckks":
				gals, advName = e.ck.GaloisElementsForReplicate(b, n), "ckks.Parameters.GaloisElementsForReplicate"
			case op == "Replicate" && cf.Scheme == "bgv":
				gals, advName = e.bg.GaloisElementsForReplicate(b, n), "bgv.Parameters.GaloisElementsForReplicate"
			case op == "Replicate":
				gals, advName = rlwe.GaloisElementsForReplicate(e.rp, b, n), "rlwe.GaloisElementsForReplicate"
			case op == "PartialTracesSum":
				gals, advName = rlwe.GaloisElementsForInnerSum(e.rp, offset, n), "rlwe.GaloisElementsForInnerSum"
			case cf.Scheme == "ckks":
				gals, advName = e.ck.GaloisElementsForInnerSum(b, n), "ckks.Parameters.GaloisElementsForInnerSum"
			case cf.Scheme == "bgv":
				gals, advName = e.bg.GaloisElementsForInnerSum(b, n), "bgv.Parameters.GaloisElementsForInnerSum"
			default:
				gals, advName = rlwe.GaloisElementsForInnerSum(e.rp, b, n), "rlwe.GaloisElementsForInnerSum"
			}
		})
		if !ok {
			continue
		}
		ev := e.newEval(gals)
		out := e.newCt(lin)
		if op == "InnerFunction" {
			out = e.newCt(outLevel(rnd, lin, lo, maxL))
		}
		want := lin
		if op == "InnerFunction" {
			want = min(lin, out.Level())
		}
		what := func() string {
			return fmt.Sprintf("%s %s(batch=%d, n=%d) offset=%d slots=%dx%d level=%d keys=%s(%d,%d)=%v", tag, op, b, n, offset, rows, cols, lin, advName, b, n, gals)
		}
		c.Distinct(fmt.Sprintf("sum/%s/%s/%d/%d/%d", tag, op, cols, b, n), n >= 2)
		var rerr error
		if !c.Try("C11|"+api, func() {
			switch op {
			case "RotateAndAdd":
				if cf.Scheme == "ckks" {
					rerr = ev.ck.RotateAndAdd(tv.ct, b, n, out)
				} else {
					rerr = ev.bg.RotateAndAdd(tv.ct, b, n, out)
				}
			case "InnerSum":
				if cf.Scheme == "ckks" {
					rerr = ev.ck.InnerSum(tv.ct, b, n, out)
				} else {
					rerr = ev.bg.InnerSum(tv.ct, b, n, out)
				}
			case "Replicate":
				rerr = ev.rl.Replicate(tv.ct, b, n, out)
			case "PartialTracesSum":
				rerr = ev.rl.PartialTracesSum(tv.ct, offset, n, out)
			case "InnerFunction":
				rerr = ev.rl.InnerFunction(tv.ct, b, n, ev.add, out)
			case "Average":
				rerr = ev.ck.Average(tv.ct, logB, out)
			}
		}) {
			continue
		}
		if rerr != nil {
			c.Violate("C11|"+api+"|error-with-advertised-keys", what()+": "+rerr.Error(), cf)
			continue
		}
		c.Count("sums_"+op, 1)
		if n == 1 && !tv.ct.IsNTT {
			api += "|n=1,coefficient-domain-input"
		} else if op == "InnerFunction" && !tv.ct.IsNTT {
			api += "|coefficient-domain-input"
		}
		if !isPow2(n) {
			c.Count("sums_n_not_power_of_two", 1)
		}
		if l == total || l == cols {
			c.Count("sums_at_slot_or_row_boundary", 1)
		}
		if l > cols {
			c.Count("sums_wrapping_past_a_row", 1)
		}
		// ---- phase-domain oracle where the whole output polynomial is documented
		switch op {
		case "RotateAndAdd", "Replicate", "PartialTracesSum":
			e.checkPhase(c, api, tv.ct, out, want, autModel(typ, rotGals(e.nth, offset, n)...), eops, what)
		case "Average":
			gs := rotGals(e.nth, b, n)
			e.checkPhase(c, api, tv.ct, out, want, func(ph ring.Poly, r *ring.Ring) ring.Poly {
				sc := r.NewPoly()
				for i, q := range r.ModuliChain()[:r.Level()+1] {
					inv := ref.InvMod(uint64(n)%q, q)
					for j := range sc.Coeffs[i] {
						sc.Coeffs[i][j] = ref.MulMod(ph.Coeffs[i][j], inv, q)
					}
				}
				return autSum(typ, r, sc, gs)
			}, eops, what)
		case "InnerFunction":
			if n == 1 {
				// groups of one sub-vector: every slot is documented, the output is the input
				e.checkPhase(c, api, tv.ct, out, want, autModel(typ, 1), 1, what)
				break
			}
			fallthrough
		default:
			c.Check(out.Level() <= lin, "C11|"+api+"|output-level-above-input", func() string { return fmt.Sprintf("%s: level %d", what(), out.Level()) })
			c.Check(out.MetaData != nil && out.MetaData.Equal(tv.ct.MetaData), "C11|"+api+"|metadata-not-carried", func() string {
				return fmt.Sprintf("%s: in=%+v out=%+v", what(), tv.ct.MetaData, out.MetaData)
			})
		}
		// ---- slot-domain oracle
		tol := e.slotTol(eops, n)
		switch cf.Scheme {
		case "ckks":
			var exp []complex128
			var mask []bool
			switch op {
			case "RotateAndAdd", "Replicate":
				exp = rotSum(cAlg(), tv.cv, 1, offset, n)
			case "InnerSum", "InnerFunction":
				exp, mask = innerSumDoc(cAlg(), tv.cv, 1, b, n)
			case "Average":
				exp = rotSum(cAlg(), tv.cv, 1, b, n)
				for i := range exp {
					exp[i] /= complex(float64(n), 0)
				}
			}
			e.checkSlots(c, api, out, exp, nil, mask, tol, what)
			if gapL > 0 {
				rep := make([]complex128, len(tv.cv))
				for p := range rep {
					rep[p] = tv.cv[p-p%l+(p%l)%b]
				}
				e.checkSlots(c, api+"|replicated", out, rep, nil, nil, tol, what)
			}
		case "bgv":
			var exp []uint64
			var mask []bool
			switch op {
			case "RotateAndAdd", "Replicate":
				exp = rotSum(uAlg(cf.T), tv.uv, 2, offset, n)
			case "InnerSum", "InnerFunction":
				exp, mask = innerSumDoc(uAlg(cf.T), tv.uv, 2, b, n)
			}
			e.checkSlots(c, api, out, nil, exp, mask, 0, what)
			if gapL > 0 {
				rep := make([]uint64, len(tv.uv))
				for p := range rep {
					r0 := p / cols * cols
					q := p - r0
					rep[p] = tv.uv[r0+q-q%l+(q%l)%b]
				}
				e.checkSlots(c, api+"|replicated", out, nil, rep, nil, 0, what)
			}
		}
	}
}

// runSumNoP: the slot sums on a parameter set without auxiliary modulus (P is optional in
// rlwe.Parameters and none of these functions documents that it needs one).
func runSumNoP(c *eng.Ctx, cf cfg) {
	e, err := cf.build()
	if err != nil {
		c.Violate("C11|NewParameters|error-on-admissible", err.Error(), cf)
		return
	}
	rnd := c.Rand()
	maxL := len(cf.Q) - 1
	c.Sample(map[string]any{"kind": "sum-without-P", "cfg": cf})
	for _, p := range []pair{{1, 2}, {1, 3}, {2, 4}} {
		p := p
		tv, err := e.fresh(rnd, maxL, e.rp.LogN()-1, 0, 0)
		if err != nil {
			c.Violate("C11|setup|error", err.Error(), cf)
			return
		}
		ev := e.newEval(rlwe.GaloisElementsForInnerSum(e.rp, p.b, p.n))
		out := e.newCt(maxL)
		var rerr error
		c.Distinct(fmt.Sprintf("sum-noP/%s/%d/%d", cf.tag(), p.b, p.n), true)
		c.Eval(1)
		eops := float64(2*p.n+2) * e.ks(maxL)
		if c.Try("C11|rlwe.Evaluator.PartialTracesSum|no-auxiliary-modulus", func() { rerr = ev.rl.PartialTracesSum(tv.ct, p.b, p.n, out) }) && rerr == nil {
			e.checkPhase(c, "rlwe.Evaluator.PartialTracesSum|no-auxiliary-modulus", tv.ct, out, maxL, autModel(cf.Ring, rotGals(e.nth, p.b, p.n)...), eops, func() string {
				return fmt.Sprintf("%s PartialTracesSum(%d,%d)", cf.tag(), p.b, p.n)
			})
		}
	}
}
