package c11

import (
	"fmt"
	"math"

	"github.com/tuneinsight/lattigo/v6/core/rlwe"
	"github.com/tuneinsight/lattigo/v6/ring"
	"github.com/tuneinsight/lattigo/v6/schemes/bgv"
	"github.com/tuneinsight/lattigo/v6/schemes/ckks"

	"verif/harness/eng"
	"verif/harness/gen"
)

type algCfg struct {
	Ring string `json:"ring"`
	LogN int    `json:"logN"`
}

var extremeKs = []int{
	1 << 62, -(1 << 62), 1<<62 + 1, 1<<62 - 1, -(1 << 62) - 1, -(1 << 62) + 1,
	math.MaxInt64, math.MaxInt64 - 1, math.MinInt64, math.MinInt64 + 1, math.MinInt64 + 2,
	1 << 32, -(1 << 32), 1<<32 + 1, 1<<31 - 1, -(1 << 31), 1<<53 + 1,
}

// kClass names a rotation amount for the distinct-case key without putting huge numbers in it.
func kClass(k, s int) string {
	if k >= -4*s && k <= 4*s {
		return fmt.Sprint(k)
	}
	sign := "+"
	if k < 0 {
		sign = "-"
	}
	return fmt.Sprintf("big%s/%d", sign, emod(k, s))
}

// runAlg checks the group laws of the Galois-element functions of rlwe.Parameters and of the scheme
// wrappers against the math/big reference.
func runAlg(c *eng.Ctx, ac algCfg) {
	rt := ring.Standard
	nth := uint64(2) << ac.LogN
	if ac.Ring == "ci" {
		rt = ring.ConjugateInvariant
		nth <<= 1
	}
	q := gen.Primes(50, nth, 1, gen.PosBelow, nil)
	rp, err := rlwe.NewParametersFromLiteral(rlwe.ParametersLiteral{LogN: ac.LogN, Q: q, RingType: rt, NTTFlag: true})
	if err != nil {
		c.Violate("C11|rlwe.NewParametersFromLiteral|error-on-admissible", err.Error(), ac)
		return
	}
	ck, err := ckks.NewParametersFromLiteral(ckks.ParametersLiteral{LogN: ac.LogN, Q: q, RingType: rt, LogDefaultScale: 30})
	if err != nil {
		c.Violate("C11|ckks.NewParametersFromLiteral|error-on-admissible", err.Error(), ac)
		return
	}
	var bg bgv.Parameters
	hasBgv := ac.Ring == "std"
	if hasBgv {
		var t []uint64
		for b := ac.LogN + 3; len(t) == 0 && b < 40; b++ {
			t = gen.Primes(b, nth, 1, gen.PosAbove, nil)
		}
		if bg, err = bgv.NewParametersFromLiteral(bgv.ParametersLiteral{LogN: ac.LogN, Q: q, PlaintextModulus: t[0]}); err != nil {
			c.Violate("C11|bgv.NewParametersFromLiteral|error-on-admissible", err.Error(), ac)
			return
		}
	}
	c.Check(rp.RingQ().NthRoot() == nth, "C11|Parameters.NthRoot|wrong-value", nil)
	S := int(nth / 4)
	slots := ck.MaxSlots()
	c.Check(slots == S, "C11|ckks.Parameters.MaxSlots|not-rotation-order", func() string { return fmt.Sprintf("MaxSlots=%d order of 5 = %d", slots, S) })
	if hasBgv {
		c.Check(bg.MaxDimensions().Cols == S && bg.MaxDimensions().Rows == 2, "C11|bgv.Parameters.MaxDimensions|not-rotation-order", nil)
	}
	rnd := c.Rand()
	c.Sample(map[string]any{"kind": "alg", "ring": ac.Ring, "logN": ac.LogN, "nthRoot": nth, "order": S})

	var ks []int
	exhaustive := ac.LogN <= 8
	if exhaustive {
		for k := -2 * S; k <= 2*S; k++ {
			ks = append(ks, k)
		}
	} else {
		for _, k := range []int{0, 1, -1, 2, 3, S - 1, S, S + 1, -S, -S + 1, -S - 1, 2 * S, 2*S + 1, -2 * S, S / 2, S/2 + 1, -S / 2, 4*S - 1} {
			ks = append(ks, k)
		}
		for i := 0; i < 400; i++ {
			ks = append(ks, rnd.N(4*S+1)-2*S)
		}
	}
	nsmall := len(ks)
	ks = append(ks, extremeKs...)
	for i := 0; i < 24; i++ {
		ks = append(ks, int(rnd.U64()))
	}
	els := make([]uint64, len(ks))
	for i, k := range ks {
		k := k
		var g uint64
		if !c.Try("C11|Parameters.GaloisElement", func() { g = rp.GaloisElement(k) }) {
			continue
		}
		els[i] = g
		want := refGal(k, nth)
		c.Distinct(fmt.Sprintf("alg/%s/%d/el/%s", ac.Ring, ac.LogN, kClass(k, S)), k < 0 || k >= S)
		c.Check(g == want, "C11|Parameters.GaloisElement|wrong-value", func() string {
			return fmt.Sprintf("ring=%s logN=%d k=%d: got %d want 5^(k mod %d) mod %d = %d", ac.Ring, ac.LogN, k, g, S, nth, want)
		})
		// k and k modulo the slot count coincide (mathematical and Go remainder)
		for _, km := range []int{emod(k, S), k % S} {
			km := km
			c.Check(rp.GaloisElement(km) == g, "C11|Parameters.GaloisElement|k-and-k-mod-slots-differ", func() string {
				return fmt.Sprintf("ring=%s logN=%d k=%d -> %d but k mod %d = %d -> %d", ac.Ring, ac.LogN, k, g, S, km, rp.GaloisElement(km))
			})
		}
		// scheme wrappers
		c.Check(ck.GaloisElementForRotation(k) == want, "C11|ckks.Parameters.GaloisElementForRotation|wrong-value", func() string { return fmt.Sprintf("logN=%d k=%d", ac.LogN, k) })
		if hasBgv {
			c.Check(bg.GaloisElementForColRotation(k) == want, "C11|bgv.Parameters.GaloisElementForColRotation|wrong-value", func() string { return fmt.Sprintf("logN=%d k=%d", ac.LogN, k) })
		}
		// inverse
		var inv uint64
		if c.Try("C11|Parameters.ModInvGaloisElement", func() { inv = rp.ModInvGaloisElement(g) }) {
			c.Check(mulModPow2(inv, want, nth) == 1, "C11|Parameters.ModInvGaloisElement|not-inverse", func() string {
				return fmt.Sprintf("ring=%s logN=%d g=%d inv=%d product=%d mod %d", ac.Ring, ac.LogN, g, inv, mulModPow2(inv, want, nth), nth)
			})
			if k != math.MinInt64 {
				c.Check(inv == refGal(-k, nth), "C11|Parameters.ModInvGaloisElement|not-element-of-minus-k", nil)
			}
		}
		// discrete logarithm <-> element
		var dl int
		if c.Try("C11|Parameters.SolveDiscreteLogGaloisElement", func() { dl = rp.SolveDiscreteLogGaloisElement(want) }) {
			c.Check(dl >= 0 && emod(dl, S) == emod(k, S), "C11|Parameters.SolveDiscreteLogGaloisElement|wrong-value", func() string {
				return fmt.Sprintf("ring=%s logN=%d: dlog(5^%d mod %d = %d) = %d, expected = %d mod %d", ac.Ring, ac.LogN, emod(k, S), nth, want, dl, emod(k, S), S)
			})
			c.Check(refGal(dl, nth) == want && rp.GaloisElement(dl) == want, "C11|Parameters.SolveDiscreteLogGaloisElement|element-of-dlog-differs", func() string {
				return fmt.Sprintf("ring=%s logN=%d g=%d dl=%d", ac.Ring, ac.LogN, want, dl)
			})
		}
	}
	// GaloisElements(list) is the element-wise map
	var lst []uint64
	if c.Try("C11|Parameters.GaloisElements", func() { lst = rp.GaloisElements(ks) }) {
		ok := len(lst) == len(ks)
		for i := range lst {
			ok = ok && lst[i] == refGal(ks[i], nth)
		}
		c.Check(ok, "C11|Parameters.GaloisElements|wrong-value", nil)
	}
	// composition: element(a)*element(b) = element(a+b)
	pair := func(a, b int) {
		if (b > 0 && a > math.MaxInt64-b) || (b < 0 && a < math.MinInt64-b) {
			return // a+b is not an int
		}
		ga, gb, gab := rp.GaloisElement(a), rp.GaloisElement(b), rp.GaloisElement(a+b)
		c.Distinct(fmt.Sprintf("alg/%s/%d/mul/%s/%s", ac.Ring, ac.LogN, kClass(a, S), kClass(b, S)), a+b < 0 || a+b >= S)
		c.Check(mulModPow2(ga, gb, nth) == gab, "C11|Parameters.GaloisElement|not-a-homomorphism", func() string {
			return fmt.Sprintf("ring=%s logN=%d a=%d b=%d: g(a)*g(b)=%d*%d=%d mod %d but g(a+b)=%d", ac.Ring, ac.LogN, a, b, ga, gb, mulModPow2(ga, gb, nth), nth, gab)
		})
	}
	if ac.LogN <= 6 {
		for _, a := range ks[:nsmall] {
			for _, b := range ks[:nsmall] {
				pair(a, b)
			}
		}
	}
	for i := 0; i < 3000; i++ {
		pair(ks[rnd.N(len(ks))], ks[rnd.N(len(ks))])
	}
	// the order-two element
	if ac.Ring == "std" {
		var g2 uint64
		if c.Try("C11|Parameters.GaloisElementOrderTwoOrthogonalSubgroup", func() { g2 = rp.GaloisElementOrderTwoOrthogonalSubgroup() }) {
			c.Check(g2 == nth-1 && mulModPow2(g2, g2, nth) == 1, "C11|Parameters.GaloisElementOrderTwoOrthogonalSubgroup|wrong-value", nil)
			c.Check(ck.GaloisElementForComplexConjugation() == nth-1, "C11|ckks.Parameters.GaloisElementForComplexConjugation|wrong-value", nil)
			c.Check(bg.GaloisElementForRowRotation() == nth-1, "C11|bgv.Parameters.GaloisElementForRowRotation|wrong-value", nil)
			c.Check(rp.ModInvGaloisElement(g2) == g2, "C11|Parameters.ModInvGaloisElement|not-inverse", nil)
		}
	}
}
