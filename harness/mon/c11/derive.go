package c11

import (
	"github.com/tuneinsight/lattigo/v6/core/rlwe"
	"github.com/tuneinsight/lattigo/v6/schemes/bgv"
	"github.com/tuneinsight/lattigo/v6/schemes/ckks"

	"verif/harness/eng"
)

// Evaluators are not only obtained from the constructor: in-tree callers build them with WithKey (the
// unit tests do), ShallowCopy, and add keys to the key set after the evaluator exists. "After generating
// keys for exactly that list the operation never fails" must hold for all of them.
const (
	viaCtor         = "ctor"              // NewEvaluator(params, keys) with keys from GenGaloisKeysNew(list)
	viaWithKeyNil   = "WithKey-from-nil"  // NewEvaluator(params, nil).WithKey(keys)
	viaWithKeyOther = "WithKey-replacing" // NewEvaluator(params, other keys).WithKey(keys)
	viaShallow      = "ShallowCopy"       // NewEvaluator(params, keys).ShallowCopy()
	viaLate         = "keys-added-later"  // NewEvaluator(params, empty set); the keys are put into the set afterwards
	viaLateShallow  = "ShallowCopy-keys-added-later"
	viaBFV          = "scale-invariant" // bgv.NewEvaluator(params, keys, true): the BFV evaluator
)

var viaModes = []string{viaCtor, viaWithKeyNil, viaWithKeyOther, viaShallow, viaLate, viaLateShallow}

func pickVia(r *eng.Rand, scheme string) string {
	if scheme == "bgv" && r.N(7) == 0 {
		return viaBFV
	}
	return viaModes[r.N(len(viaModes))]
}

// viaSig is appended to the API entry of a signature so that a defect of a derivation path does not
// share its signature with a defect of the operation itself.
func viaSig(via string) string {
	if via == "" || via == viaCtor {
		return ""
	}
	return "|evaluator-via-" + via
}

// galKeys returns Galois keys for exactly the listed elements (duplicates included as the list has them),
// generated through the list API when batch is set, from the per-element cache otherwise.
func (e *env) galKeys(galEls []uint64, batch bool) []*rlwe.GaloisKey {
	if batch {
		if e.cfg.Pow2 > 0 {
			w := e.cfg.Pow2
			return e.kgen.GenGaloisKeysNew(galEls, e.sk, rlwe.EvaluationKeyParameters{BaseTwoDecomposition: &w})
		}
		return e.kgen.GenGaloisKeysNew(galEls, e.sk)
	}
	ks := e.keySet(galEls)
	out := make([]*rlwe.GaloisKey, 0, len(ks.GaloisKeys))
	for _, g := range galEls {
		if k, ok := ks.GaloisKeys[g]; ok {
			out = append(out, k)
		}
	}
	return out
}

// newEvalVia builds the scheme evaluator holding keys for exactly galEls through the given derivation.
// `other` are Galois elements of an unrelated key set (for viaWithKeyOther).
func (e *env) newEvalVia(via string, galEls, other []uint64, batch bool) *evalr {
	keys := e.galKeys(galEls, batch)
	full := rlwe.NewMemEvaluationKeySet(nil, keys...)
	var first rlwe.EvaluationKeySet
	late := false
	switch via {
	case viaWithKeyNil:
		first = nil
	case viaWithKeyOther:
		first = e.keySet(other)
	case viaLate, viaLateShallow:
		first = rlwe.NewMemEvaluationKeySet(nil)
		late = true
	default:
		first = full
	}
	v := &evalr{e: e}
	switch e.cfg.Scheme {
	case "ckks":
		ev := ckks.NewEvaluator(e.ck, first)
		switch via {
		case viaWithKeyNil, viaWithKeyOther:
			ev = ev.WithKey(full)
		case viaShallow, viaLateShallow:
			ev = ev.ShallowCopy()
		}
		v.ck, v.rl = ev, ev.Evaluator
	case "bgv":
		ev := bgv.NewEvaluator(e.bg, first, via == viaBFV)
		switch via {
		case viaWithKeyNil, viaWithKeyOther:
			ev = ev.WithKey(full)
		case viaShallow, viaLateShallow:
			ev = ev.ShallowCopy()
		}
		v.bg, v.rl = ev, ev.Evaluator
	default:
		ev := rlwe.NewEvaluator(e.rp, first)
		switch via {
		case viaWithKeyNil, viaWithKeyOther:
			ev = ev.WithKey(full)
		case viaShallow, viaLateShallow:
			ev = ev.ShallowCopy()
		}
		v.rl = ev
	}
	if late {
		ks := first.(*rlwe.MemEvaluationKeySet)
		for _, k := range keys {
			ks.GaloisKeys[k.GaloisElement] = k
		}
	}
	return v
}

// snapshot / sameCt: bitwise comparison of a ciphertext with an earlier copy (operands must stay intact
// on a refused call).
func sameCt(a, b *rlwe.Ciphertext) bool {
	if a.Degree() != b.Degree() || a.Level() != b.Level() || !a.MetaData.Equal(b.MetaData) {
		return false
	}
	for i := range a.Value {
		if !a.Value[i].Equal(&b.Value[i]) {
			return false
		}
	}
	return true
}

// newEvalNilKeys: the scheme evaluator constructed with a nil key set.
func (e *env) newEvalNilKeys() *evalr {
	v := &evalr{e: e}
	switch e.cfg.Scheme {
	case "ckks":
		v.ck = ckks.NewEvaluator(e.ck, nil)
		v.rl = v.ck.Evaluator
	case "bgv":
		v.bg = bgv.NewEvaluator(e.bg, nil)
		v.rl = v.bg.Evaluator
	default:
		v.rl = rlwe.NewEvaluator(e.rp, nil)
	}
	return v
}
