package c11

import (
	"fmt"

	"github.com/tuneinsight/lattigo/v6/core/rlwe"
	"github.com/tuneinsight/lattigo/v6/ring"

	"verif/harness/eng"
	"verif/harness/ref"
)

// judgeSum applies the oracles of runSum to one call `out = op(in, batch b, count n)`; `in` is the
// ciphertext as it was before the call (a copy when the call was made in place), tv its slot content.
func (e *env) judgeSum(c *eng.Ctx, api, op string, in, out *rlwe.Ciphertext, tv *tvec, b, n, offset, gapL, cols int, eops float64, what func() string) {
	e.judgeSumPhase(c, api, op, in, out, b, n, offset, eops, what)
	e.judgeSumSlots(c, api, op, out, tv, b, n, offset, gapL, cols, eops, what)
}

// judgeSumPhase: the phase-domain part (where the whole output polynomial is documented; level and metadata otherwise).
func (e *env) judgeSumPhase(c *eng.Ctx, api, op string, in, out *rlwe.Ciphertext, b, n, offset int, eops float64, what func() string) (ok bool) {
	typ := e.cfg.Ring
	want := min(in.Level(), out.Level())
	switch op {
	case "RotateAndAdd", "Replicate", "PartialTracesSum":
		return e.checkPhase(c, api, in, out, want, autModel(typ, rotGals(e.nth, offset, n)...), eops, what)
	case "Average":
		gs := rotGals(e.nth, b, n)
		return e.checkPhase(c, api, in, out, want, func(ph ring.Poly, r *ring.Ring) ring.Poly {
			sc := r.NewPoly()
			for i, q := range r.ModuliChain()[:r.Level()+1] {
				inv := ref.InvMod(uint64(n)%q, q)
				for j := range sc.Coeffs[i] {
					sc.Coeffs[i][j] = ref.MulMod(ph.Coeffs[i][j], inv, q)
				}
			}
			return autSum(typ, r, sc, gs)
		}, eops, what)
	default: // InnerSum, InnerFunction: only the leftmost sub-vectors are documented
		if op == "InnerFunction" && n == 1 {
			return e.checkPhase(c, api, in, out, want, autModel(typ, 1), 1, what)
		}
		ok = c.Check(out.Level() <= in.Level(), "C11|"+api+"|output-level-above-input", func() string { return fmt.Sprintf("%s: level %d", what(), out.Level()) })
		return c.Check(out.MetaData != nil && out.MetaData.Equal(in.MetaData), "C11|"+api+"|metadata-not-carried", func() string {
			return fmt.Sprintf("%s: in=%+v out=%+v", what(), in.MetaData, out.MetaData)
		}) && ok
	}
}

// judgeSumSlots: the slot-domain part (CKKS within the worst-case tolerance, BGV exactly).
func (e *env) judgeSumSlots(c *eng.Ctx, api, op string, out *rlwe.Ciphertext, tv *tvec, b, n, offset, gapL, cols int, eops float64, what func() string) {
	l := b * n
	tol := e.slotTol(eops, n)
	switch e.cfg.Scheme {
	case "ckks":
		var exp []complex128
		var mask []bool
		switch op {
		case "RotateAndAdd", "Replicate", "PartialTracesSum":
			exp = rotSum(cAlg(), tv.cv, 1, offset, n)
		case "InnerSum", "InnerFunction":
			exp, mask = innerSumDoc(cAlg(), tv.cv, 1, b, n)
		case "Average":
			exp = rotSum(cAlg(), tv.cv, 1, b, n)
			for i := range exp {
				exp[i] /= complex(float64(n), 0)
			}
		}
		e.checkSlots(c, api, out, exp, nil, mask, tol, what)
		if gapL > 0 {
			rep := make([]complex128, len(tv.cv))
			for p := range rep {
				rep[p] = tv.cv[p-p%l+(p%l)%b]
			}
			e.checkSlots(c, api+"|replicated", out, rep, nil, nil, tol, what)
		}
	case "bgv":
		var exp []uint64
		var mask []bool
		switch op {
		case "RotateAndAdd", "Replicate", "PartialTracesSum":
			exp = rotSum(uAlg(e.cfg.T), tv.uv, 2, offset, n)
		case "InnerSum", "InnerFunction":
			exp, mask = innerSumDoc(uAlg(e.cfg.T), tv.uv, 2, b, n)
		}
		e.checkSlots(c, api, out, nil, exp, mask, 0, what)
		if gapL > 0 {
			rep := make([]uint64, len(tv.uv))
			for p := range rep {
				r0 := p / cols * cols
				q := p - r0
				rep[p] = tv.uv[r0+q-q%l+(q%l)%b]
			}
			e.checkSlots(c, api+"|replicated", out, nil, rep, nil, 0, what)
		}
	}
}

// advertised returns the advertised Galois elements of one slot sum through the scheme-level API.
func (e *env) advertised(op string, b, n, offset int) (gals []uint64, name string) {
	cf := e.cfg
	switch {
	case op == "Replicate" && cf.Scheme == "ckks":
		return e.ck.GaloisElementsForReplicate(b, n), "ckks.Parameters.GaloisElementsForReplicate"
	case op == "Replicate" && cf.Scheme == "bgv":
		return e.bg.GaloisElementsForReplicate(b, n), "bgv.Parameters.GaloisElementsForReplicate"
	case op == "Replicate":
		return rlwe.GaloisElementsForReplicate(e.rp, b, n), "rlwe.GaloisElementsForReplicate"
	case op == "PartialTracesSum":
		return rlwe.GaloisElementsForInnerSum(e.rp, offset, n), "rlwe.GaloisElementsForInnerSum"
	case cf.Scheme == "ckks":
		return e.ck.GaloisElementsForInnerSum(b, n), "ckks.Parameters.GaloisElementsForInnerSum"
	case cf.Scheme == "bgv":
		return e.bg.GaloisElementsForInnerSum(b, n), "bgv.Parameters.GaloisElementsForInnerSum"
	}
	return rlwe.GaloisElementsForInnerSum(e.rp, b, n), "rlwe.GaloisElementsForInnerSum"
}

func (v *evalr) sum(op string, ct *rlwe.Ciphertext, b, n, offset, logB int, out *rlwe.Ciphertext) error {
	switch op {
	case "RotateAndAdd":
		if v.ck != nil {
			return v.ck.RotateAndAdd(ct, b, n, out)
		}
		return v.bg.RotateAndAdd(ct, b, n, out)
	case "InnerSum":
		if v.ck != nil {
			return v.ck.InnerSum(ct, b, n, out)
		}
		return v.bg.InnerSum(ct, b, n, out)
	case "Replicate":
		return v.rl.Replicate(ct, b, n, out)
	case "PartialTracesSum":
		return v.rl.PartialTracesSum(ct, offset, n, out)
	case "InnerFunction":
		return v.rl.InnerFunction(ct, b, n, v.add, out)
	case "Average":
		return v.ck.Average(ct, logB, out)
	}
	return fmt.Errorf("harness: unknown op %s", op)
}

const (
	fDeg2    = "receiver-was-degree-2"
	fLevel   = "receiver-level-differs"
	fMissing = "one-key-missing"
)

// runSumX: the slot sums called the way runSum never calls them: in place (the unit tests and Average do),
// into used receivers (other level, other degree, stale values and metadata), on evaluators obtained through
// WithKey / ShallowCopy / late keys, with keys from the list generator, and with one advertised key
// removed (an error or a correct result, never a panic or a wrong result).
func runSumX(c *eng.Ctx, cf cfg, op string, budget int) {
	e, err := cf.build()
	if err != nil {
		c.Violate("C11|NewParameters|error-on-admissible", err.Error(), cf)
		return
	}
	rnd := c.Rand()
	tag := cf.tag()
	maxL := len(cf.Q) - 1
	rows, cols := 1, e.S
	logSlots := 0
	switch cf.Scheme {
	case "ckks":
		logSlots = e.ck.LogMaxSlots()
		if rnd.Bool() && logSlots > 3 {
			logSlots = 3 + rnd.N(logSlots-3)
		}
		cols = 1 << logSlots
	case "bgv":
		rows = 2
	}
	total := rows * cols
	api0 := cf.Scheme + ".Evaluator." + op
	if cf.Scheme == "rlwe" || op == "Replicate" || op == "InnerFunction" {
		api0 = "rlwe.Evaluator." + op
	}
	pairs := pairsFor(rnd, op, total, cols, false, budget)
	c.Sample(map[string]any{"kind": "sumx", "op": op, "cfg": cf, "pairs": len(pairs), "slots": total, "cols": cols})
	c.Max("max_rns_digits", int64(e.rp.BaseRNSDecompositionVectorSize(maxL, len(cf.P)-1)))
	other := []uint64{e.galRot(cols/2 + 1)}
	feats := []string{fInPlace, fUsed, fDeg2, fLevel, fVia, fVia, fListKeys, fMissing}
	for pi, p := range pairs {
		b, n := p.b, p.n
		l := b * n
		offset := b
		if op == "Replicate" {
			offset = -b
		}
		if op == "PartialTracesSum" && rnd.Bool() {
			offset = -b
		}
		feat := feats[(pi+rnd.N(len(feats)))%len(feats)]
		if feat == fDeg2 && op == "Average" {
			feat = fUsed // Average documents an error for receivers of degree != 1
		}
		eops := float64(2*n+2) * e.ks(maxL)
		lo := e.minLevelFor(eops, n)
		if lo < 0 {
			c.Count("pairs_skipped_no_room", 1)
			continue
		}
		if cf.Scheme == "ckks" && e.slotTol(eops, n) > maxTol {
			c.Count("pairs_skipped_loose_bound", 1)
			continue
		}
		lin := lo + rnd.N(maxL-lo+1)
		gapL, gapB := 0, 0
		if op == "Replicate" && cols%l == 0 && rnd.N(3) != 0 {
			gapL, gapB = l, b
		}
		var logB int
		if op == "Average" {
			logB = ref.BitLen(uint64(b)) - 1
		}
		// receiver (before the input: fresh() records the metadata of the last ciphertext it made)
		var out *rlwe.Ciphertext
		switch feat {
		case fUsed:
			out = e.usedReceiver(rnd, lin)
		case fLevel:
			out = e.usedReceiver(rnd, lo+rnd.N(maxL-lo+1))
		case fDeg2:
			out = e.usedReceiver(rnd, eng.Pick(rnd, lin, maxL, lo))
			out.Resize(2, out.Level())
			for i := range out.Value[2].Coeffs {
				for j := range out.Value[2].Coeffs[i] {
					out.Value[2].Coeffs[i][j] = rnd.U64() % cf.Q[i]
				}
			}
		}
		tv, err := e.fresh(rnd, lin, logSlots, gapL, gapB)
		if err != nil {
			c.Violate("C11|setup|error", err.Error(), cf)
			return
		}
		// CKKS / BGV ciphertexts in the coefficient domain through the rlwe-level methods (which honour IsNTT):
		// the only way to judge their coefficient-domain branches in the slot domain
		coef := cf.Scheme != "rlwe" && (op == "RotateAndAdd" || op == "Replicate" || op == "InnerFunction") && rnd.N(3) == 0
		if coef {
			rq := e.rp.RingQ().AtLevel(lin)
			rq.INTT(tv.ct.Value[0], tv.ct.Value[0])
			rq.INTT(tv.ct.Value[1], tv.ct.Value[1])
			tv.ct.IsNTT = false
			e.inMeta.IsNTT = false
		}
		var gals []uint64
		var advName string
		if !c.Try("C11|GaloisElementsFor"+op, func() { gals, advName = e.advertised(op, b, n, offset) }) {
			continue
		}
		via := viaCtor
		if feat == fVia {
			via = pickVia(rnd, cf.Scheme)
		}
		keyEls := gals
		dropped := uint64(0)
		if feat == fMissing {
			if len(gals) == 0 {
				feat = fListKeys
			} else {
				d := rnd.N(len(gals))
				dropped = gals[d]
				keyEls = nil
				for _, g := range gals {
					if g != dropped {
						keyEls = append(keyEls, g)
					}
				}
			}
		}
		ev := e.newEvalVia(via, keyEls, other, feat == fListKeys)
		api := api0
		in := tv.ct
		switch feat {
		case fInPlace:
			in, out = tv.ct.CopyNew(), tv.ct
			api += "|in-place"
		case fUsed, fLevel, fDeg2:
			api += "|" + feat
		case fVia:
			api += viaSig(via)
		case fMissing:
			api += "|" + feat
		}
		if out == nil {
			out = e.newCt(lin)
		}
		callOp := op
		if coef {
			if op == "RotateAndAdd" {
				callOp = "PartialTracesSum"
			}
			api = "rlwe.Evaluator." + callOp + api[len(api0):]
			if op != "InnerFunction" && n != 1 { // (InnerFunction and n = 1 get their predicate below)
				api += "|coefficient-domain-input"
			}
			ev = &evalr{e: e, rl: ev.rl} // ring-level add for InnerFunction
			c.Count("sumx_coefficient_domain_ckks_bgv", 1)
		}
		what := func() string {
			return fmt.Sprintf("%s %s(batch=%d, n=%d) offset=%d slots=%dx%d level=%d [%s %s] keys=%s(%d,%d)=%v dropped=%d", tag, op, b, n, offset, rows, cols, lin, feat, via, advName, b, n, gals, dropped)
		}
		c.Distinct(fmt.Sprintf("sumx/%s/%s/%d/%d/%d/%s/%s", tag, op, cols, b, n, feat, via), n >= 2)
		snap := tv.ct.CopyNew()
		var rerr error
		if !c.Try("C11|"+api, func() { rerr = ev.sum(callOp, tv.ct, b, n, offset, logB, out) }) {
			continue
		}
		if feat == fMissing {
			c.Eval(1)
			if rerr != nil {
				c.Count("missing_key_refused_with_error", 1)
				c.Check(sameCt(tv.ct, snap), "C11|"+api+"|input-modified", func() string { return what() + ": refused call changed its input" })
				continue
			}
			c.Count("advertised_key_not_needed", 1) // the list is a superset for these arguments: the result must still be right
		} else if rerr != nil {
			c.Violate("C11|"+api+"|error-with-advertised-keys", what()+": "+rerr.Error(), cf)
			continue
		}
		c.Count("sumx_"+op, 1)
		c.Count("sumx_"+feat, 1)
		if feat == fVia {
			c.Count("sumx_via_"+via, 1)
		}
		if !c.Check(out.Degree() == 1, "C11|"+api+"|output-degree-not-input-degree", func() string {
			return fmt.Sprintf("%s: output degree %d", what(), out.Degree())
		}) {
			continue
		}
		if n == 1 && !in.IsNTT {
			api += "|n=1,coefficient-domain-input"
		} else if op == "InnerFunction" && !in.IsNTT {
			api += "|coefficient-domain-input"
		}
		e.judgeSum(c, api, op, in, out, tv, b, n, offset, gapL, cols, eops, what)
	}

	// ---- refused arguments of InnerSum: an error or the documented result, never a panic
	if op == "InnerSum" {
		tv, err := e.fresh(rnd, maxL, logSlots, 0, 0)
		if err != nil {
			return
		}
		for _, p := range []pair{{0, 1}, {1, 0}, {-1, 2}, {2, -1}, {3, 5}, {3, 1}, {total, 2}, {2 * total, 1}, {1, total + 1}, {cols, 4}} {
			p := p
			var gals []uint64
			if !c.Try("C11|GaloisElementsForInnerSum|refused-arguments", func() { gals, _ = e.advertised(op, p.b, p.n, p.b) }) {
				continue
			}
			ev := e.newEval(gals)
			out := e.newCt(maxL)
			snap := tv.ct.CopyNew()
			var rerr error
			c.Distinct(fmt.Sprintf("sumx/%s/InnerSum/refused/%d/%d", tag, p.b, p.n), true)
			if !c.Try("C11|"+api0+"|refused-arguments", func() { rerr = ev.sum(op, tv.ct, p.b, p.n, p.b, 0, out) }) {
				continue
			}
			c.Eval(1)
			c.Check(sameCt(tv.ct, snap), "C11|"+api0+"|refused-arguments|input-modified", func() string { return fmt.Sprintf("%s InnerSum(%d,%d)", tag, p.b, p.n) })
			if rerr != nil {
				c.Count("innersum_arguments_refused", 1)
				continue
			}
			if p.b >= 1 && p.n >= 1 && p.b*p.n <= total && isPow2(p.b*p.n) {
				c.Count("innersum_arguments_accepted", 1)
				eops := float64(2*p.n+2) * e.ks(maxL)
				if lo := e.minLevelFor(eops, p.n); lo >= 0 && (cf.Scheme != "ckks" || e.slotTol(eops, p.n) <= maxTol) {
					e.judgeSum(c, api0, op, tv.ct, out, tv, p.b, p.n, p.b, 0, cols, eops, func() string { return fmt.Sprintf("%s InnerSum(%d,%d)", tag, p.b, p.n) })
				}
			} else {
				// outside the documented domain and not refused: nothing is promised about the result
				c.Count("innersum_undocumented_arguments_accepted", 1)
			}
		}
	}
}
