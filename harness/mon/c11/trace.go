package c11

import (
	"fmt"

	"github.com/tuneinsight/lattigo/v6/core/rlwe"
	"github.com/tuneinsight/lattigo/v6/ring"

	"verif/harness/eng"
)

// runTrace: Trace for every admissible logN argument with keys = exactly GaloisElementsForTrace(logN).
// Documented semantics: the monomials X^k with k not divisible by gap vanish, the others are kept
// (the factor N/n is removed by the pre-multiplication), gap = N/2^(logN+1) for logN >= 1 and N for logN = 0.
func runTrace(c *eng.Ctx, cf cfg) {
	e, err := cf.build()
	if err != nil {
		c.Violate("C11|NewParameters|error-on-admissible", err.Error(), cf)
		return
	}
	rnd := c.Rand()
	tag := cf.tag()
	maxL := len(cf.Q) - 1
	api := "rlwe.Evaluator.Trace"
	c.Sample(map[string]any{"kind": "trace", "cfg": cf})
	logSlots := 0
	if cf.Scheme == "ckks" {
		logSlots = e.ck.LogMaxSlots()
	}
	for logn := 0; logn < cf.LogN; logn++ {
		logn := logn
		gap := e.N >> (logn + 1)
		if logn == 0 {
			gap = e.N
		}
		eops := float64(gap+1) * e.ks(maxL)
		lo := e.minLevelFor(eops, 1)
		if lo < 0 {
			c.Count("trace_skipped_no_room", 1)
			continue
		}
		lin := lo + rnd.N(maxL-lo+1)
		tv, err := e.fresh(rnd, lin, logSlots, 0, 0)
		if err != nil {
			c.Violate("C11|setup|error", err.Error(), cf)
			return
		}
		var gals []uint64
		adv := "rlwe.GaloisElementsForTrace"
		if !c.Try("C11|GaloisElementsForTrace", func() {
			switch cf.Scheme {
			case "ckks":
				gals, adv = e.ck.GaloisElementsForTrace(logn), "ckks.Parameters.GaloisElementsForTrace"
			case "bgv":
				gals, adv = e.bg.GaloisElementsForTrace(logn), "bgv.Parameters.GaloisElementsForTrace"
			default:
				gals = rlwe.GaloisElementsForTrace(e.rp, logn)
			}
		}) {
			continue
		}
		ev := e.newEval(gals)
		out := e.newCt(outLevel(rnd, lin, lo, maxL))
		want := min(lin, out.Level())
		what := func() string {
			return fmt.Sprintf("%s Trace(logN=%d) gap=%d levels in=%d out=%d keys=%s=%v", tag, logn, gap, lin, want, adv, gals)
		}
		c.Distinct(fmt.Sprintf("trace/%s/%d/L%d", tag, logn, want), gap > 1)
		var rerr error
		if !c.Try("C11|"+api, func() { rerr = ev.rl.Trace(tv.ct, logn, out) }) {
			continue
		}
		if rerr != nil {
			c.Violate("C11|"+api+"|error-with-advertised-keys", what()+": "+rerr.Error(), cf)
			continue
		}
		c.Count("traces", 1)
		e.checkPhase(c, api, tv.ct, out, want, func(ph ring.Poly, r *ring.Ring) ring.Poly {
			exp := r.NewPoly()
			for i := 0; i <= r.Level(); i++ {
				for j := 0; j < e.N; j += gap {
					exp.Coeffs[i][j] = ph.Coeffs[i][j]
				}
			}
			return exp
		}, eops, what)
	}
}
