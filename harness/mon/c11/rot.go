package c11

import (
	"fmt"
	"sort"

	"github.com/tuneinsight/lattigo/v6/core/rlwe"
	"github.com/tuneinsight/lattigo/v6/ring"
	"github.com/tuneinsight/lattigo/v6/ring/ringqp"

	"verif/harness/eng"
)

func (e *env) rotKs(r *eng.Rand, slots int) []int {
	S := e.S
	var ks []int
	if e.N <= 64 {
		for k := -S - 3; k <= 2*S+3; k++ {
			ks = append(ks, k)
		}
		ks = append(ks, extremeKs[:11]...)
		ks = append(ks, int(r.U64()), int(r.U64()))
		return ks
	}
	ks = []int{0, 1, -1, 2, 3, S - 1, S, S + 1, -S, -S - 1, -S + 1, 2*S + 1, S / 2, S/2 + 1, S/2 - 1, -S / 2}
	if slots != S {
		ks = append(ks, slots, slots-1, slots+1, -slots, slots/2)
	}
	for i := 0; i < 3; i++ {
		ks = append(ks, r.N(8*S+1)-4*S)
	}
	ks = append(ks, eng.Pick(r, extremeKs[:6]...), eng.Pick(r, extremeKs[6:11]...), eng.Pick(r, extremeKs[11:]...), int(r.U64()))
	return ks
}

// outLevel draws the level of the receiver: equal, lower or higher than the input level.
func outLevel(r *eng.Rand, lin, lo, max int) int {
	switch r.N(4) {
	case 0:
		if lin > lo {
			return lo + r.N(lin-lo)
		}
	case 1:
		if lin < max {
			return lin + 1 + r.N(max-lin)
		}
	}
	return lin
}

func autModel(typ string, gs ...uint64) func(ph ring.Poly, r *ring.Ring) ring.Poly {
	return func(ph ring.Poly, r *ring.Ring) ring.Poly { return autSum(typ, r, ph, gs) }
}

// runRot: plain and hoisted rotations / conjugation, keys generated for exactly the advertised element of
// k reduced modulo the slot count.
func runRot(c *eng.Ctx, cf cfg) {
	e, err := cf.build()
	if err != nil {
		c.Violate("C11|NewParameters|error-on-admissible", err.Error(), cf)
		return
	}
	rnd := c.Rand()
	typ := cf.Ring
	hoist := len(cf.P) > 0 && cf.Pow2 == 0
	maxL := len(cf.Q) - 1
	// sparse packing for CKKS
	logSlots := 0
	if cf.Scheme == "ckks" {
		logSlots = e.ck.LogMaxSlots()
		if rnd.N(3) == 0 && logSlots > 1 {
			logSlots = 1 + rnd.N(logSlots-1)
		}
	}
	slots := e.S
	if cf.Scheme == "ckks" {
		slots = 1 << logSlots
	}
	ks := e.rotKs(rnd, slots)
	ksNoise := e.ks(maxL)
	c.Sample(map[string]any{"kind": "rot", "cfg": cf, "ks": len(ks), "logSlots": logSlots, "hoisted": hoist, "ks_bound_log2": fmt.Sprintf("%.1f", log2f(ksNoise))})
	api := e.apiRot()
	tag := cf.tag()

	lo := e.minLevelFor(ksNoise, 1)
	if lo < 0 {
		c.Inconclusive("no level leaves room for the key-switch noise: " + tag)
		return
	}

	// ---- plain rotations, one evaluator per k holding exactly one key
	for _, k := range ks {
		k := k
		lin := lo + rnd.N(maxL-lo+1)
		tv, err := e.fresh(rnd, lin, logSlots, 0, 0)
		if err != nil {
			c.Violate("C11|setup|error", err.Error(), cf)
			return
		}
		kred := emod(k, e.S)
		gAdv := e.galRot(kred)
		gRef := refGal(k, e.nth)
		ev := e.newEval([]uint64{gAdv})
		out := e.newCt(outLevel(rnd, lin, lo, maxL))
		want := min(lin, out.Level())
		what := func() string {
			return fmt.Sprintf("%s k=%d (k mod maxslots=%d, slots=%d) levels in=%d out=%d, key generated for element %d", tag, k, kred, slots, lin, want, gAdv)
		}
		c.Distinct(fmt.Sprintf("rot/%s/%s/plain/L%d", tag, kClass(k, e.S), want), gRef != 1)
		var rerr error
		if !c.Try("C11|"+api, func() { rerr = ev.rotate(tv.ct, k, out) }) {
			continue
		}
		if rerr != nil {
			c.Violate("C11|"+api+"|error-with-advertised-key", what()+": "+rerr.Error(), cf)
			continue
		}
		c.Count("rotations_plain", 1)
		e.checkPhase(c, api, tv.ct, out, want, autModel(typ, gRef), ksNoise, what)
		switch cf.Scheme {
		case "ckks":
			e.checkSlots(c, api, out, rotSlots(tv.cv, 1, k), nil, nil, e.slotTol(ksNoise, 1), what)
		case "bgv":
			e.checkSlots(c, api, out, nil, rotSlots(tv.uv, 2, k), nil, 0, what)
		}
	}

	// ---- order-two element (row swap / conjugation)
	if typ == "std" {
		apic := e.apiConj()
		for rep := 0; rep < 2; rep++ {
			lin := lo + rnd.N(maxL-lo+1)
			tv, err := e.fresh(rnd, lin, logSlots, 0, 0)
			if err != nil {
				c.Violate("C11|setup|error", err.Error(), cf)
				return
			}
			ev := e.newEval([]uint64{e.galConj()})
			out := e.newCt(outLevel(rnd, lin, lo, maxL))
			want := min(lin, out.Level())
			what := func() string { return fmt.Sprintf("%s order-two element, levels in=%d out=%d", tag, lin, want) }
			c.Distinct(fmt.Sprintf("rot/%s/conj/L%d", tag, want), true)
			var rerr error
			if !c.Try("C11|"+apic, func() { rerr = ev.conj(tv.ct, out) }) {
				continue
			}
			if rerr != nil {
				c.Violate("C11|"+apic+"|error-with-advertised-key", what()+": "+rerr.Error(), cf)
				continue
			}
			c.Count("conjugations", 1)
			e.checkPhase(c, apic, tv.ct, out, want, autModel(typ, e.nth-1), ksNoise, what)
			switch cf.Scheme {
			case "ckks":
				e.checkSlots(c, apic, out, conjSlots(tv.cv), nil, nil, e.slotTol(ksNoise, 1), what)
			case "bgv":
				e.checkSlots(c, apic, out, nil, swapRows(tv.uv), nil, 0, what)
			}
		}
	}

	if !hoist {
		return
	}
	// ---- hoisted variants: one decomposition, many rotations; keys = exactly the advertised elements
	// of the list (reduced modulo the slot count)
	lists := [][]int{ks}
	if len(ks) > 24 {
		lists = nil
		p := rnd.Perm(len(ks))
		for i := 0; i+8 <= len(p) && len(lists) < 6; i += 8 {
			var l []int
			for _, j := range p[i : i+8] {
				l = append(l, ks[j])
			}
			lists = append(lists, l)
		}
	}
	for _, list := range lists {
		// deduplicate (the result maps are indexed by k)
		seen := map[int]bool{}
		var rots []int
		for _, k := range list {
			if !seen[k] {
				seen[k] = true
				rots = append(rots, k)
			}
		}
		sort.Ints(rots)
		var gals []uint64
		for _, k := range rots {
			gals = append(gals, e.galRot(emod(k, e.S)))
		}
		lin := lo + rnd.N(maxL-lo+1)
		tv, err := e.fresh(rnd, lin, logSlots, 0, 0)
		if err != nil {
			c.Violate("C11|setup|error", err.Error(), cf)
			return
		}
		ev := e.newEval(gals)
		judge := func(apih string, k int, out *rlwe.Ciphertext, variant string) {
			what := func() string {
				return fmt.Sprintf("%s %s k=%d of list %v level=%d slots=%d", tag, variant, k, rots, lin, slots)
			}
			gRef := refGal(k, e.nth)
			c.Distinct(fmt.Sprintf("rot/%s/%s/%s/L%d", tag, kClass(k, e.S), variant, lin), gRef != 1)
			if out == nil {
				c.Violate("C11|"+apih+"|missing-output", what(), cf)
				return
			}
			c.Count("rotations_hoisted", 1)
			e.checkPhase(c, apih, tv.ct, out, lin, autModel(typ, gRef), ksNoise, what)
			switch cf.Scheme {
			case "ckks":
				e.checkSlots(c, apih, out, rotSlots(tv.cv, 1, k), nil, nil, e.slotTol(ksNoise, 1), what)
			case "bgv":
				e.checkSlots(c, apih, out, nil, rotSlots(tv.uv, 2, k), nil, 0, what)
			}
		}
		levelP := len(cf.P) - 1
		switch cf.Scheme {
		case "ckks":
			var outs map[int]*rlwe.Ciphertext
			var herr error
			if c.Try("C11|ckks.Evaluator.RotateHoistedNew", func() { outs, herr = ev.ck.RotateHoistedNew(tv.ct, rots) }) {
				if herr != nil {
					c.Violate("C11|ckks.Evaluator.RotateHoistedNew|error-with-advertised-keys", fmt.Sprintf("%s list %v: %v", tag, rots, herr), cf)
				} else {
					for _, k := range rots {
						judge("ckks.Evaluator.RotateHoistedNew", k, outs[k], "hoistedNew")
					}
				}
			}
			pre := map[int]*rlwe.Ciphertext{}
			for _, k := range rots {
				pre[k] = e.newCt(lin)
			}
			if c.Try("C11|ckks.Evaluator.RotateHoisted", func() { herr = ev.ck.RotateHoisted(tv.ct, rots, pre) }) {
				if herr != nil {
					c.Violate("C11|ckks.Evaluator.RotateHoisted|error-with-advertised-keys", fmt.Sprintf("%s list %v: %v", tag, rots, herr), cf)
				} else {
					for _, k := range rots {
						judge("ckks.Evaluator.RotateHoisted", k, pre[k], "hoisted")
					}
				}
			}
		case "rlwe":
			ev.rl.DecomposeNTT(lin, levelP, levelP+1, tv.ct.Value[1], tv.ct.IsNTT, ev.rl.BuffDecompQP)
			for _, k := range rots {
				k := k
				out := e.newCt(lin)
				var herr error
				if c.Try("C11|rlwe.Evaluator.AutomorphismHoisted", func() {
					herr = ev.rl.AutomorphismHoisted(lin, tv.ct, ev.rl.BuffDecompQP, e.rp.GaloisElement(k), out)
				}) {
					if herr != nil {
						c.Violate("C11|rlwe.Evaluator.AutomorphismHoisted|error-with-advertised-keys", fmt.Sprintf("%s k=%d: %v", tag, k, herr), cf)
					} else {
						judge("rlwe.Evaluator.AutomorphismHoisted", k, out, "hoisted")
					}
				}
			}
		}
		// lazy variant (result modulo QP, scaled by P)
		var lazy map[int]*rlwe.Element[ringqp.Poly]
		var lerr error
		apil := cf.Scheme + ".Evaluator.RotateHoistedLazyNew"
		ok := false
		switch cf.Scheme {
		case "ckks":
			ok = c.Try("C11|"+apil, func() {
				ev.rl.DecomposeNTT(lin, levelP, levelP+1, tv.ct.Value[1], tv.ct.IsNTT, ev.rl.BuffDecompQP)
				lazy, lerr = ev.ck.RotateHoistedLazyNew(lin, rots, tv.ct, ev.rl.BuffDecompQP)
			})
		case "bgv":
			ok = c.Try("C11|"+apil, func() {
				ev.rl.DecomposeNTT(lin, levelP, levelP+1, tv.ct.Value[1], tv.ct.IsNTT, ev.rl.BuffDecompQP)
				lazy, lerr = ev.bg.RotateHoistedLazyNew(lin, rots, tv.ct, ev.rl.BuffDecompQP)
			})
		default:
			apil = "rlwe.Evaluator.AutomorphismHoistedLazy"
			lazy = map[int]*rlwe.Element[ringqp.Poly]{}
			ok = c.Try("C11|"+apil, func() {
				ev.rl.DecomposeNTT(lin, levelP, levelP+1, tv.ct.Value[1], tv.ct.IsNTT, ev.rl.BuffDecompQP)
				for _, k := range rots {
					if g := e.rp.GaloisElement(k); g != 1 {
						el := rlwe.NewElementExtended(e.rp, 1, lin, levelP)
						el.IsNTT = tv.ct.IsNTT
						if lerr = ev.rl.AutomorphismHoistedLazy(lin, tv.ct, ev.rl.BuffDecompQP, g, el); lerr != nil {
							return
						}
						lazy[k] = el
					}
				}
			})
		}
		if !ok {
			continue
		}
		if lerr != nil {
			c.Violate("C11|"+apil+"|error-with-advertised-keys", fmt.Sprintf("%s list %v: %v", tag, rots, lerr), cf)
			continue
		}
		for _, k := range rots {
			k := k
			el := lazy[k]
			if el == nil {
				// rotation 0 is documented to be skipped by the scheme-level functions
				if k != 0 && !(cf.Scheme == "rlwe" && refGal(k, e.nth) == 1) {
					c.Violate("C11|"+apil+"|missing-output", fmt.Sprintf("%s k=%d list %v", tag, k, rots), cf)
				}
				continue
			}
			c.Distinct(fmt.Sprintf("rot/%s/%s/lazy/L%d", tag, kClass(k, e.S), lin), refGal(k, e.nth) != 1)
			c.Count("rotations_hoisted_lazy", 1)
			e.checkLazy(c, apil, tv.ct, el, lin, refGal(k, e.nth), func() string {
				return fmt.Sprintf("%s lazy k=%d of list %v level=%d", tag, k, rots, lin)
			})
		}
	}
}
