package c11

import (
	"fmt"
	"math/cmplx"

	"github.com/tuneinsight/lattigo/v6/core/rlwe"
	"github.com/tuneinsight/lattigo/v6/ring"

	"verif/harness/eng"
)

type seqStep struct {
	Kind    string `json:"kind"` // rot | conj | sum | trace | drop | fresh
	Op      string `json:"op,omitempty"`
	K       int    `json:"k,omitempty"`
	B       int    `json:"b,omitempty"`
	N       int    `json:"n,omitempty"`
	Recv    string `json:"recv,omitempty"` // in-place | spare | new
	Rederiv string `json:"rederive,omitempty"`
}

// runSeq: a history on one evaluator. A random program of rotations, conjugations, slot sums, level drops and
// (last) a trace is run on one ciphertext with ONE evaluator that holds exactly the union of the advertised
// key lists of its steps; receivers are the input itself, the ciphertext of two steps before (stale values,
// other level) or new ones; the evaluator is re-derived (ShallowCopy / WithKey) on the way. Every step is
// judged in the phase domain against the ciphertext it actually received; the end result is judged in the slot
// domain against the composition of the slot models (this is the group law on ciphertexts).
func runSeq(c *eng.Ctx, cf cfg) {
	e, err := cf.build()
	if err != nil {
		c.Violate("C11|NewParameters|error-on-admissible", err.Error(), cf)
		return
	}
	rnd := c.Rand()
	typ := cf.Ring
	tag := cf.tag()
	maxL := len(cf.Q) - 1
	sums := len(cf.P) > 0 && cf.Pow2 == 0
	S := e.S
	rows, cols := 1, S
	logSlots := 0
	switch cf.Scheme {
	case "ckks":
		logSlots = e.ck.LogMaxSlots()
		if rnd.N(3) == 0 && logSlots > 2 {
			logSlots = 2 + rnd.N(logSlots-2)
		}
		cols = 1 << logSlots
	case "bgv":
		rows = 2
	}
	ks1 := e.ks(maxL)

	// ---- the program, with its worst-case noise and growth
	var prog []seqStep
	var gals []uint64
	bound, nsum := 0.0, 1
	nsteps := 6 + rnd.N(6)
	for len(prog) < nsteps {
		st := seqStep{Recv: eng.Pick(rnd, "in-place", "spare", "spare", "new")}
		x := rnd.N(100)
		switch {
		case x < 40:
			st.Kind = "rot"
			st.K = eng.Pick(rnd, 1, -1, 2, S-1, S+1, -S-2, cols, cols-1, rnd.N(4*S+1)-2*S, rnd.N(4*S+1)-2*S, eng.Pick(rnd, extremeKs[:11]...))
			gals = append(gals, e.galRot(emod(st.K, S)))
			bound += ks1
		case x < 52 && typ == "std":
			st.Kind = "conj"
			gals = append(gals, e.galConj())
			bound += ks1
		case x < 80 && sums:
			st.Kind = "sum"
			st.N = eng.Pick(rnd, 2, 3, 4, 5, 7, 8)
			if nsum*st.N > 32 {
				continue
			}
			st.B = eng.Pick(rnd, 1, 2, 3, 1<<rnd.N(4), 1+rnd.N(max(1, cols/2)))
			if st.B*st.N > cols {
				continue
			}
			offset := st.B
			switch cf.Scheme {
			case "rlwe":
				st.Op = eng.Pick(rnd, "PartialTracesSum", "Replicate")
			default:
				st.Op = eng.Pick(rnd, "RotateAndAdd", "Replicate", "InnerSumLike")
				if st.Op == "InnerSumLike" { // InnerSum itself when its arguments are admissible
					st.Op = "RotateAndAdd"
					if isPow2(st.B * st.N) {
						st.Op = "InnerSum"
					}
				}
			}
			if cf.Scheme == "bgv" && st.Op == "InnerSum" && st.B*st.N == 2*cols {
				st.Op = "RotateAndAdd"
			}
			if st.Op == "Replicate" {
				offset = -st.B
			}
			g, _ := e.advertised(st.Op, st.B, st.N, offset)
			gals = append(gals, g...)
			bound = float64(st.N)*bound + float64(2*st.N+2)*ks1
			nsum *= st.N
		case x < 90 && typ == "std" && len(prog) >= nsteps-2:
			st.Kind = "trace"
			st.N = rnd.N(cf.LogN) // the logN argument
			_, terms := e.traceGap(st.N)
			if float64(terms+1)*ks1 > 1e15 {
				continue
			}
			switch cf.Scheme {
			case "ckks":
				gals = append(gals, e.ck.GaloisElementsForTrace(st.N)...)
			case "bgv":
				gals = append(gals, e.bg.GaloisElementsForTrace(st.N)...)
			default:
				gals = append(gals, rlwe.GaloisElementsForTrace(e.rp, st.N)...)
			}
			bound += float64(terms+1) * ks1
		case x < 95:
			st.Kind = "fresh" // the evaluator goes on with another ciphertext, at a level that may be higher
		default:
			st.Kind = "drop"
		}
		if rnd.N(5) == 0 {
			st.Rederiv = eng.Pick(rnd, "ShallowCopy", "WithKey")
		}
		prog = append(prog, st)
	}
	lo := e.minLevelFor(bound, nsum)
	if lo < 0 {
		c.Count("sequences_skipped_no_room", 1)
		return
	}
	c.Sample(map[string]any{"kind": "seq", "cfg": cf, "program": prog, "noise_bound_log2": fmt.Sprintf("%.1f", log2f(bound+1)), "terms": nsum, "min_level": lo})
	c.Distinct(fmt.Sprintf("seq/%s/%d/%d", tag, len(prog), nsum), true)

	via := pickVia(rnd, cf.Scheme)
	ev := e.newEvalVia(via, gals, []uint64{e.galRot(5)}, rnd.Bool())
	evk := ev.rl.EvaluationKeySet

	// (not always the top level: the evaluator has to cope with a later ciphertext above its first one)
	tv, err := e.fresh(rnd, eng.Pick(rnd, maxL, lo, lo+rnd.N(maxL-lo+1)), logSlots, 0, 0)
	if err != nil {
		c.Violate("C11|setup|error", err.Error(), cf)
		return
	}
	cur := tv.ct
	spare := e.usedReceiver(rnd, eng.Pick(rnd, maxL, lo))
	cv, uv := tv.cv, tv.uv
	slotsOK := true
	for si, st := range prog {
		st := st
		if st.Rederiv != "" {
			nv := &evalr{e: e}
			switch {
			case ev.ck != nil && st.Rederiv == "ShallowCopy":
				nv.ck = ev.ck.ShallowCopy()
				nv.rl = nv.ck.Evaluator
			case ev.ck != nil:
				nv.ck = ev.ck.WithKey(evk)
				nv.rl = nv.ck.Evaluator
			case ev.bg != nil && st.Rederiv == "ShallowCopy":
				nv.bg = ev.bg.ShallowCopy()
				nv.rl = nv.bg.Evaluator
			case ev.bg != nil:
				nv.bg = ev.bg.WithKey(evk)
				nv.rl = nv.bg.Evaluator
			case st.Rederiv == "ShallowCopy":
				nv.rl = ev.rl.ShallowCopy()
			default:
				nv.rl = ev.rl.WithKey(evk)
			}
			ev = nv
			c.Count("seq_evaluator_rederived", 1)
		}
		if st.Kind == "drop" {
			if cur.Level() > lo {
				cur.Resize(1, cur.Level()-1)
				c.Count("seq_level_drops", 1)
			}
			continue
		}
		if st.Kind == "fresh" {
			up := cur.Level() < maxL
			if tv, err = e.fresh(rnd, eng.Pick(rnd, maxL, maxL, lo+rnd.N(maxL-lo+1)), logSlots, 0, 0); err != nil {
				c.Violate("C11|setup|error", err.Error(), cf)
				return
			}
			spare, cur = cur, tv.ct
			cv, uv, slotsOK = tv.cv, tv.uv, true
			c.Count("seq_ciphertext_switches", 1)
			if up && cur.Level() > spare.Level() {
				c.Count("seq_ciphertext_switches_to_higher_level", 1)
			}
			continue
		}
		in := cur.CopyNew()
		var out *rlwe.Ciphertext
		switch st.Recv {
		case "in-place":
			out = cur
		case "spare":
			out = spare
		default:
			out = e.newCt(eng.Pick(rnd, cur.Level(), maxL))
		}
		if out.Level() < lo {
			out.Resize(1, lo)
		}
		var api string
		var model func(ph ring.Poly, r *ring.Ring) ring.Poly
		var eops float64
		var rerr error
		var call func()
		switch st.Kind {
		case "rot":
			api, model, eops = e.apiRot(), autModel(typ, refGal(st.K, e.nth)), ks1
			call = func() { rerr = ev.rotate(cur, st.K, out) }
		case "conj":
			api, model, eops = e.apiConj(), autModel(typ, e.nth-1), ks1
			call = func() { rerr = ev.conj(cur, out) }
		case "sum":
			offset := st.B
			if st.Op == "Replicate" {
				offset = -st.B
			}
			api = cf.Scheme + ".Evaluator." + st.Op
			if cf.Scheme == "rlwe" || st.Op == "Replicate" {
				api = "rlwe.Evaluator." + st.Op
			}
			model, eops = autModel(typ, rotGals(e.nth, offset, st.N)...), float64(2*st.N+2)*ks1
			call = func() { rerr = ev.sum(st.Op, cur, st.B, st.N, offset, 0, out) }
		case "trace":
			gap, terms := e.traceGap(st.N)
			api, model, eops = "rlwe.Evaluator.Trace", traceModel(e.N, gap), float64(terms+1)*ks1
			call = func() { rerr = ev.rl.Trace(cur, st.N, out) }
		}
		api += "|sequence"
		what := func() string {
			return fmt.Sprintf("%s step %d of %+v (evaluator via %s, input level %d)", tag, si, prog, via, in.Level())
		}
		if !c.Try("C11|"+api, call) {
			return
		}
		if rerr != nil {
			c.Violate("C11|"+api+"|error-with-advertised-keys", what()+": "+rerr.Error(), cf)
			return
		}
		c.Count("seq_steps", 1)
		c.Count("seq_steps_"+st.Recv, 1)
		ok := c.Check(out.Degree() == 1, "C11|"+api+"|output-degree-not-input-degree", what)
		if st.Kind == "sum" && st.Op == "InnerSum" {
			// only the leftmost sub-vectors are documented: level and metadata here, slots at the end are lost
			ok = ok && c.Check(out.Level() <= in.Level() && out.MetaData.Equal(in.MetaData), "C11|"+api+"|metadata-not-carried", what)
			// the phase is nevertheless the rotate-and-add polynomial in this implementation; not required
			slotsOK = false
		} else {
			ok = ok && e.checkPhase(c, api, in, out, min(in.Level(), out.Level()), model, eops, what)
		}
		if !ok || out.Level() < lo {
			return
		}
		// slot models
		switch st.Kind {
		case "rot":
			if cv != nil {
				cv = rotSlots(cv, 1, st.K)
			}
			if uv != nil {
				uv = rotSlots(uv, 2, st.K)
			}
		case "conj":
			if cv != nil {
				cv = conjSlots(cv)
			}
			if uv != nil {
				uv = swapRows(uv)
			}
		case "sum":
			offset := st.B
			if st.Op == "Replicate" {
				offset = -st.B
			}
			if cv != nil {
				cv = rotSum(cAlg(), cv, 1, offset, st.N)
			}
			if uv != nil {
				uv = rotSum(uAlg(cf.T), uv, 2, offset, st.N)
			}
		case "trace":
			slotsOK = false
		}
		if out != cur {
			if st.Recv == "spare" {
				spare = cur
			}
			cur = out
		}
	}
	c.Count("sequences_completed", 1)
	_ = rows
	if cf.Scheme == "rlwe" || !slotsOK {
		return
	}
	for _, x := range cv {
		if cmplx.IsNaN(x) {
			return
		}
	}
	c.Count("sequences_judged_in_slot_domain", 1)
	e.checkSlots(c, e.apiRot()+"|sequence", cur, cv, uv, nil, e.slotTol(bound, nsum), func() string {
		return fmt.Sprintf("%s end of program %+v (evaluator via %s)", tag, prog, via)
	})
}
