package c11

import (
	"fmt"
	"math"
	"math/big"

	"github.com/tuneinsight/lattigo/v6/core/rlwe"
	"github.com/tuneinsight/lattigo/v6/ring"
	"github.com/tuneinsight/lattigo/v6/ring/ringqp"
	"github.com/tuneinsight/lattigo/v6/schemes/bgv"
	"github.com/tuneinsight/lattigo/v6/schemes/ckks"

	"verif/harness/obs"
	"verif/harness/ref"
)

// cfg is one parameter set (JSON-able: it is the case descriptor / witness).
type cfg struct {
	Scheme   string   `json:"scheme"` // ckks | bgv | rlwe
	Ring     string   `json:"ring"`   // std | ci
	LogN     int      `json:"logN"`
	Q        []uint64 `json:"q"`
	P        []uint64 `json:"p"`
	Pow2     int      `json:"pow2"` // BaseTwoDecomposition of the Galois keys (0 = none)
	T        uint64   `json:"t,omitempty"`
	LogScale int      `json:"logScale,omitempty"`
	NTT      bool     `json:"ntt"`
	H        int      `json:"h,omitempty"` // Hamming weight of the secret (0 = library default)
	// Dense > 0: the sum case only runs n = 2^k-1 <= Dense (every bit set: the longest chains of accumulated
	// rotations, which is where a lazily reduced accumulator runs out of headroom) with batch 1 and 3.
	Dense int `json:"dense,omitempty"`
}

func (c cfg) tag() string {
	s := fmt.Sprintf("%s/%s/logN%d/q%dp%dw%d", c.Scheme, c.Ring, c.LogN, len(c.Q), len(c.P), c.Pow2)
	if !c.NTT {
		s += "/coef"
	}
	return s
}

func (c cfg) nthRoot() uint64 {
	if c.Ring == "ci" {
		return 4 << c.LogN
	}
	return 2 << c.LogN
}

type env struct {
	cfg    cfg
	rp     rlwe.Parameters
	pp     rlwe.ParameterProvider
	ck     ckks.Parameters
	bg     bgv.Parameters
	kgen   *rlwe.KeyGenerator
	sk     *rlwe.SecretKey
	enc    *rlwe.Encryptor
	dec    *rlwe.Decryptor
	cke    *ckks.Encoder
	bge    *bgv.Encoder
	nth    uint64
	N      int
	S      int // order of the rotation group = slots per row at full packing
	keys   map[uint64]*rlwe.GaloisKey
	inMeta *rlwe.MetaData // metadata of the last fresh ciphertext
	B, h   float64        // worst-case |e|_inf of one error sample, worst-case l1 norm of the secret
}

func (cf cfg) build() (e *env, err error) {
	e = &env{cfg: cf, keys: map[uint64]*rlwe.GaloisKey{}}
	rt := ring.Standard
	if cf.Ring == "ci" {
		rt = ring.ConjugateInvariant
	}
	var xs ring.DistributionParameters
	if cf.H > 0 {
		xs = ring.Ternary{H: cf.H}
	}
	switch cf.Scheme {
	case "ckks":
		if e.ck, err = ckks.NewParametersFromLiteral(ckks.ParametersLiteral{LogN: cf.LogN, Q: cf.Q, P: cf.P, Xs: xs, RingType: rt, LogDefaultScale: cf.LogScale}); err != nil {
			return nil, err
		}
		e.rp, e.pp = e.ck.Parameters, e.ck
		e.cke = ckks.NewEncoder(e.ck)
	case "bgv":
		if e.bg, err = bgv.NewParametersFromLiteral(bgv.ParametersLiteral{LogN: cf.LogN, Q: cf.Q, P: cf.P, Xs: xs, PlaintextModulus: cf.T}); err != nil {
			return nil, err
		}
		e.rp, e.pp = e.bg.Parameters, e.bg
		e.bge = bgv.NewEncoder(e.bg)
	default:
		if e.rp, err = rlwe.NewParametersFromLiteral(rlwe.ParametersLiteral{LogN: cf.LogN, Q: cf.Q, P: cf.P, Xs: xs, RingType: rt, NTTFlag: cf.NTT}); err != nil {
			return nil, err
		}
		e.pp = e.rp
	}
	e.nth = e.rp.RingQ().NthRoot()
	e.N = e.rp.N()
	e.S = int(e.nth / 4)
	e.kgen = rlwe.NewKeyGenerator(e.pp)
	e.sk = e.kgen.GenSecretKeyNew()
	e.enc = rlwe.NewEncryptor(e.pp, e.sk)
	e.dec = rlwe.NewDecryptor(e.pp, e.sk)
	e.B, _ = obs.ErrBound(e.rp)
	_, e.h = obs.SecretBound(e.rp)
	return e, nil
}

// keySet returns an evaluation-key set holding exactly the Galois keys of the listed elements.
func (e *env) keySet(galEls []uint64) *rlwe.MemEvaluationKeySet {
	var ks []*rlwe.GaloisKey
	seen := map[uint64]bool{}
	for _, g := range galEls {
		if seen[g] {
			continue
		}
		seen[g] = true
		k, ok := e.keys[g]
		if !ok {
			if e.cfg.Pow2 > 0 {
				w := e.cfg.Pow2
				k = e.kgen.GenGaloisKeyNew(g, e.sk, rlwe.EvaluationKeyParameters{BaseTwoDecomposition: &w})
			} else {
				k = e.kgen.GenGaloisKeyNew(g, e.sk)
			}
			e.keys[g] = k
		}
		ks = append(ks, k)
	}
	return rlwe.NewMemEvaluationKeySet(nil, ks...)
}

// evalr bundles the scheme evaluator under test.
type evalr struct {
	e  *env
	rl *rlwe.Evaluator
	ck *ckks.Evaluator
	bg *bgv.Evaluator
}

func (e *env) newEval(galEls []uint64) *evalr {
	evk := e.keySet(galEls)
	v := &evalr{e: e}
	switch e.cfg.Scheme {
	case "ckks":
		v.ck = ckks.NewEvaluator(e.ck, evk)
		v.rl = v.ck.Evaluator
	case "bgv":
		v.bg = bgv.NewEvaluator(e.bg, evk)
		v.rl = v.bg.Evaluator
	default:
		v.rl = rlwe.NewEvaluator(e.rp, evk)
	}
	return v
}

// advertised Galois element for a rotation by k, through the scheme-level API.
func (e *env) galRot(k int) uint64 {
	switch e.cfg.Scheme {
	case "ckks":
		return e.ck.GaloisElementForRotation(k)
	case "bgv":
		return e.bg.GaloisElementForColRotation(k)
	}
	return e.rp.GaloisElement(k)
}

func (e *env) galConj() uint64 {
	switch e.cfg.Scheme {
	case "ckks":
		return e.ck.GaloisElementForComplexConjugation()
	case "bgv":
		return e.bg.GaloisElementForRowRotation()
	}
	return e.rp.GaloisElementOrderTwoOrthogonalSubgroup()
}

func (e *env) apiRot() string {
	switch e.cfg.Scheme {
	case "ckks":
		return "ckks.Evaluator.Rotate"
	case "bgv":
		return "bgv.Evaluator.RotateColumns"
	}
	return "rlwe.Evaluator.Automorphism"
}

func (e *env) apiConj() string {
	switch e.cfg.Scheme {
	case "ckks":
		return "ckks.Evaluator.Conjugate"
	case "bgv":
		return "bgv.Evaluator.RotateRows"
	}
	return "rlwe.Evaluator.Automorphism"
}

func (v *evalr) rotate(ct *rlwe.Ciphertext, k int, out *rlwe.Ciphertext) error {
	switch v.e.cfg.Scheme {
	case "ckks":
		return v.ck.Rotate(ct, k, out)
	case "bgv":
		return v.bg.RotateColumns(ct, k, out)
	}
	return v.rl.Automorphism(ct, v.e.rp.GaloisElement(k), out)
}

func (v *evalr) conj(ct, out *rlwe.Ciphertext) error {
	switch v.e.cfg.Scheme {
	case "ckks":
		return v.ck.Conjugate(ct, out)
	case "bgv":
		return v.bg.RotateRows(ct, out)
	}
	return v.rl.Automorphism(ct, v.e.rp.GaloisElementOrderTwoOrthogonalSubgroup(), out)
}

// add is the function handed to InnerFunction.
func (v *evalr) add(a, b, c *rlwe.Ciphertext) error {
	switch {
	case v.ck != nil:
		return v.ck.Add(a, b, c)
	case v.bg != nil:
		return v.bg.Add(a, b, c)
	}
	lvl := min(a.Level(), b.Level(), c.Level())
	r := v.e.rp.RingQ().AtLevel(lvl)
	c.Resize(1, lvl)
	r.Add(a.Value[0], b.Value[0], c.Value[0])
	r.Add(a.Value[1], b.Value[1], c.Value[1])
	return nil
}

// newCt allocates a receiver the way in-tree callers do (scheme-level constructor).
func (e *env) newCt(level int) *rlwe.Ciphertext {
	switch e.cfg.Scheme {
	case "ckks":
		return ckks.NewCiphertext(e.ck, 1, level)
	case "bgv":
		return bgv.NewCiphertext(e.bg, 1, level)
	}
	return rlwe.NewCiphertext(e.pp, 1, level)
}

// ---------------------------------------------------------------------------------------------
// noise budgets (worst case, see DESIGN 2.4)

func log2Q(q []uint64) float64 {
	var s float64
	for _, x := range q {
		s += math.Log2(float64(x))
	}
	return s
}

// digitSum bounds sum_i |d_i|_inf over the gadget decomposition digits of a polynomial at levelQ.
func digitSum(q, p []uint64, pow2, levelQ int) float64 {
	if pow2 > 0 && len(p) <= 1 {
		var s float64
		for _, x := range q[:levelQ+1] {
			s += float64((ref.BitLen(x)+pow2-1)/pow2) * math.Exp2(float64(pow2))
		}
		return s
	}
	g := len(p)
	if g == 0 {
		g = 1
	}
	var s float64
	for i := 0; i <= levelQ; i += g {
		prod, k := 1.0, 0
		for j := i; j < i+g && j <= levelQ; j++ {
			prod *= float64(q[j])
			k++
		}
		s += float64(k) * prod
	}
	return s
}

// ksBound: worst-case |.|_inf of the noise added by one key switch (gadget product + division by P).
func ksBound(n int, q, p []uint64, pow2, levelQ int, B, h float64) float64 {
	P := math.Exp2(log2Q(p))
	return float64(n)*B*digitSum(q, p, pow2, levelQ)/P + float64(len(p)+2)*(1+h)
}

func (e *env) ks(levelQ int) float64 {
	n := e.N
	if e.cfg.Ring == "ci" {
		n *= 2 // products in Z[X+X^-1] are products in the ring of degree 2N
	}
	return 2 * ksBound(n, e.cfg.Q, e.cfg.P, e.cfg.Pow2, levelQ, e.B, e.h)
}

// ksLazy: bound of the noise of a lazy (not yet divided by P) key switch, modulo QP.
func (e *env) ksLazy(levelQ int) float64 {
	n := e.N
	if e.cfg.Ring == "ci" {
		n *= 2
	}
	return 2 * float64(n) * e.B * digitSum(e.cfg.Q, e.cfg.P, e.cfg.Pow2, levelQ)
}

// minLevel returns the smallest level whose modulus has more than `bits` bits, or -1.
func (e *env) minLevel(bits float64) int {
	for l := range e.cfg.Q {
		if log2Q(e.cfg.Q[:l+1]) > bits {
			return l
		}
	}
	return -1
}

func log2f(x float64) float64 { return math.Log2(x) }

// minLevelFor returns the lowest level that leaves room for opsNoise (added by the operation) when the
// result is the sum of nsum fresh ciphertexts, or -1.
func (e *env) minLevelFor(opsNoise float64, nsum int) int {
	var need float64
	tot := opsNoise + float64(nsum)*(e.B+1)
	switch e.cfg.Scheme {
	case "bgv":
		need = math.Log2(float64(e.cfg.T)) + math.Log2(tot) + 3
	case "ckks":
		need = math.Max(float64(e.cfg.LogScale)+math.Log2(float64(nsum))+4, math.Log2(tot)+4)
	default:
		need = math.Log2(tot) + 4
	}
	return e.minLevel(need)
}

// ---------------------------------------------------------------------------------------------
// phases

// phaseAt returns the coefficient-domain phase of ct truncated to `level`.
func (e *env) phaseAt(ct *rlwe.Ciphertext, level int) ring.Poly {
	if ct.Level() != level {
		ct = ct.CopyNew()
		ct.Resize(ct.Degree(), level)
	}
	return obs.Phase(e.rp, &ct.Element, e.sk)
}

// phaseQP returns the centred phase over QP of a degree-1 element modulo QP.
func (e *env) phaseQP(el *rlwe.Element[ringqp.Poly], levelQ, levelP int) (out []*big.Int, crt *ref.CRT) {
	rqp := e.rp.RingQP().AtLevel(levelQ, levelP)
	c0, c1 := rqp.NewPoly(), rqp.NewPoly()
	cp := func(dst, src ringqp.Poly) {
		for i := 0; i <= levelQ; i++ {
			copy(dst.Q.Coeffs[i], src.Q.Coeffs[i])
		}
		for i := 0; i <= levelP; i++ {
			copy(dst.P.Coeffs[i], src.P.Coeffs[i])
		}
	}
	cp(c0, el.Value[0])
	cp(c1, el.Value[1])
	if !el.IsNTT {
		rqp.NTT(c0, c0)
		rqp.NTT(c1, c1)
	}
	rqp.MulCoeffsMontgomery(c1, e.sk.Value, c1)
	rqp.Add(c0, c1, c0)
	rqp.INTT(c0, c0)
	mods := append(append([]uint64{}, e.cfg.Q[:levelQ+1]...), e.cfg.P[:levelP+1]...)
	crt = ref.NewCRT(mods)
	out = make([]*big.Int, e.N)
	col := make([]uint64, len(mods))
	for j := 0; j < e.N; j++ {
		for i := 0; i <= levelQ; i++ {
			col[i] = c0.Q.Coeffs[i][j]
		}
		for i := 0; i <= levelP; i++ {
			col[levelQ+1+i] = c0.P.Coeffs[i][j]
		}
		out[j] = crt.Centered(col)
	}
	return
}
