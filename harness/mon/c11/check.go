package c11

import (
	"fmt"
	"math"
	"math/big"

	"github.com/tuneinsight/lattigo/v6/core/rlwe"
	"github.com/tuneinsight/lattigo/v6/ring"
	"github.com/tuneinsight/lattigo/v6/ring/ringqp"
	"github.com/tuneinsight/lattigo/v6/schemes/bgv"
	"github.com/tuneinsight/lattigo/v6/schemes/ckks"

	"verif/harness/eng"
	"verif/harness/obs"
)

// tvec is an encrypted test vector together with its slot content.
type tvec struct {
	ct   *rlwe.Ciphertext
	rows int
	cv   []complex128 // ckks: slots decoded from the fresh ciphertext (length 2^logSlots)
	uv   []uint64     // bgv: encoded slots (length N)
}

// fresh encrypts a random vector at `level`. When gapL > 0 only slots p with p mod gapL < gapB are
// non-zero (the precondition of Replicate).
func (e *env) fresh(r *eng.Rand, level, logSlots, gapL, gapB int) (t *tvec, err error) {
	t = &tvec{rows: 1}
	keep := func(p int) bool { return gapL <= 0 || p%gapL < gapB }
	var pt *rlwe.Plaintext
	switch e.cfg.Scheme {
	case "ckks":
		pt = ckks.NewPlaintext(e.ck, level)
		pt.LogDimensions = ring.Dimensions{Rows: 0, Cols: logSlots}
		// the scale is metadata the operations must carry over: do not always use the default one
		// (kept within [scale/2, scale] so that the noise and overflow budgets stay valid)
		if r.N(3) == 0 {
			pt.Scale = rlwe.NewScale(math.Exp2(float64(e.cfg.LogScale)) * (0.5 + 0.5*r.F64()))
		}
		s := 1 << logSlots
		if e.cfg.Ring == "ci" {
			v := make([]float64, s)
			for i := range v {
				if keep(i) {
					v[i] = 2*r.F64() - 1
				}
			}
			err = e.cke.Encode(v, pt)
		} else {
			v := make([]complex128, s)
			for i := range v {
				if keep(i) {
					v[i] = complex(2*r.F64()-1, 2*r.F64()-1)
				}
			}
			err = e.cke.Encode(v, pt)
		}
	case "bgv":
		t.rows = 2
		pt = bgv.NewPlaintext(e.bg, level)
		if r.N(3) == 0 {
			pt.Scale = e.bg.NewScale(1 + r.U64()%(e.cfg.T-1))
		}
		t.uv = make([]uint64, e.N)
		cols := e.N / 2
		for i := range t.uv {
			if keep(i % cols) {
				t.uv[i] = r.U64() % e.cfg.T
			}
		}
		err = e.bge.Encode(t.uv, pt)
	default:
		pt = rlwe.NewPlaintext(e.pp, level)
		for i := 0; i <= level; i++ {
			q := e.cfg.Q[i]
			for j := range pt.Value.Coeffs[i] {
				pt.Value.Coeffs[i][j] = r.U64() % q
			}
		}
	}
	if err != nil {
		return nil, fmt.Errorf("encode: %w", err)
	}
	if t.ct, err = e.enc.EncryptNew(pt); err != nil {
		return nil, fmt.Errorf("encrypt: %w", err)
	}
	e.inMeta = t.ct.MetaData.CopyNew()
	if e.cfg.Scheme == "ckks" {
		if t.cv, err = e.decodeC(t.ct); err != nil {
			return nil, err
		}
	}
	return t, nil
}

func (e *env) decodeC(ct *rlwe.Ciphertext) ([]complex128, error) {
	pt := e.dec.DecryptNew(ct)
	s := 1 << pt.LogDimensions.Cols
	out := make([]complex128, s)
	if e.cfg.Ring == "ci" {
		f := make([]float64, s)
		if err := e.cke.Decode(pt, f); err != nil {
			return nil, err
		}
		for i := range f {
			out[i] = complex(f[i], 0)
		}
		return out, nil
	}
	return out, e.cke.Decode(pt, out)
}

func (e *env) decodeU(ct *rlwe.Ciphertext) ([]uint64, error) {
	out := make([]uint64, e.N)
	return out, e.bge.Decode(e.dec.DecryptNew(ct), out)
}

// slotTol: worst-case slot error of a CKKS ciphertext whose phase is within eops of the model,
// decoded in float64 (canonical embedding norm <= N * |.|_inf, doubled for the conjugate-invariant ring).
func (e *env) slotTol(eops float64, nsum int) float64 {
	return 4*float64(e.N)*eops/math.Exp2(float64(e.cfg.LogScale)) + math.Exp2(-34)*float64(1+nsum)
}

const maxTol = 1.0 / 128

// checkPhase compares the phase of ctOut with model(phase(ctIn) truncated to ctOut's level): the centred
// difference must be within bound. Also checks the output level and that the metadata was carried over.
func (e *env) checkPhase(c *eng.Ctx, api string, ctIn, ctOut *rlwe.Ciphertext, wantLevel int, model func(ph ring.Poly, r *ring.Ring) ring.Poly, bound float64, what func() string) bool {
	// The level rule min(in,out) is implementation behaviour, not part of the property (a plain copy
	// keeps the input level): only require a level at which the input is defined, and count the rest.
	if !c.Check(ctOut.Level() <= ctIn.Level() && ctOut.Level() >= 0, "C11|"+api+"|output-level-above-input", func() string {
		return fmt.Sprintf("%s: output level %d, input level %d", what(), ctOut.Level(), ctIn.Level())
	}) {
		return false
	}
	if ctOut.Level() != wantLevel {
		c.Count("outputs_not_at_min_level", 1)
	}
	c.Check(ctOut.MetaData != nil && ctOut.MetaData.Equal(ctIn.MetaData), "C11|"+api+"|metadata-not-carried", func() string {
		return fmt.Sprintf("%s: in=%+v out=%+v", what(), ctIn.MetaData, ctOut.MetaData)
	})
	lvl := ctOut.Level()
	r := e.rp.RingQ().AtLevel(lvl)
	exp := model(e.phaseAt(ctIn, lvl), r)
	got := obs.Phase(e.rp, &ctOut.Element, e.sk)
	st := obs.Stat(obs.Diff(r, got, exp))
	c.Count("phase_comparisons", 1)
	if st.MaxLog2 <= math.Log2(bound) {
		c.Max("max_accepted_opnoise_log2_x10", int64(10*st.MaxLog2))
		if st.MaxLog2 >= 0 { // exact results (no key switch) have no margin to speak of
			c.Max("max_1000_plus_10x_log2_noise_over_bound", 1000+int64(10*(st.MaxLog2-math.Log2(bound))))
		}
		c.Max("max_10000_plus_10x_log2_bound_over_halfQ", 10000+int64(10*(math.Log2(bound)-log2Q(e.cfg.Q[:lvl+1])+1)))
	}
	return c.Check(st.MaxLog2 <= math.Log2(bound), "C11|"+api+"|wrong-phase", func() string {
		return fmt.Sprintf("%s: |phase(out) - model(phase(in))|_inf = 2^%.1f > worst-case bound 2^%.1f (log2 Q_level = %.1f)", what(), st.MaxLog2, math.Log2(bound), log2Q(e.cfg.Q[:lvl+1]))
	})
}

// checkSlots compares the decoded output with the slot model on the masked slots.
func (e *env) checkSlots(c *eng.Ctx, api string, ctOut *rlwe.Ciphertext, expC []complex128, expU []uint64, mask []bool, tol float64, what func() string) {
	if ctOut.MetaData == nil || !ctOut.MetaData.Equal(e.inMeta) {
		c.Count("slot_checks_skipped_metadata_already_flagged", 1)
		return // decoding depends on scale and dimensions; their loss is reported by the metadata check
	}
	switch e.cfg.Scheme {
	case "ckks":
		if tol > maxTol {
			c.Count("slot_checks_skipped_loose_bound", 1)
			return
		}
		got, err := e.decodeC(ctOut)
		if err != nil || len(got) != len(expC) {
			c.Violate("C11|"+api+"|decode-failed", fmt.Sprintf("%s: %v (len %d vs %d)", what(), err, len(got), len(expC)), e.cfg)
			return
		}
		d, at := maxDiffC(got, expC, mask)
		c.Count("slot_comparisons", 1)
		c.Check(d <= tol, "C11|"+api+"|wrong-slots", func() string {
			return fmt.Sprintf("%s: slot %d got %v want %v (|diff|=%.3g > tol %.3g)", what(), at, got[at], expC[at], d, tol)
		})
	case "bgv":
		got, err := e.decodeU(ctOut)
		if err != nil {
			c.Violate("C11|"+api+"|decode-failed", fmt.Sprintf("%s: %v", what(), err), e.cfg)
			return
		}
		at := firstDiffU(got, expU, mask)
		c.Count("slot_comparisons", 1)
		c.Check(at < 0, "C11|"+api+"|wrong-slots", func() string {
			lo, hi := max(0, at-2), min(len(got), at+6)
			return fmt.Sprintf("%s: first differing slot %d: got[%d:%d]=%v want %v", what(), at, lo, hi, got[lo:hi], expU[lo:hi])
		})
	}
}

// checkLazy judges an element modulo QP returned by the lazy hoisted rotations: its phase must be
// P * phi_g(phase(ctIn)) up to the (undivided) key-switch noise.
func (e *env) checkLazy(c *eng.Ctx, api string, ctIn *rlwe.Ciphertext, el *rlwe.Element[ringqp.Poly], levelQ int, g uint64, what func() string) {
	levelP := el.LevelP()
	r := e.rp.RingQ().AtLevel(levelQ)
	exp := obs.Centered(r, autSum(e.cfg.Ring, r, e.phaseAt(ctIn, levelQ), []uint64{g}))
	got, crt := e.phaseQP(el, levelQ, levelP)
	P := big.NewInt(1)
	for _, p := range e.cfg.P[:levelP+1] {
		P.Mul(P, new(big.Int).SetUint64(p))
	}
	maxd := new(big.Int)
	t := new(big.Int)
	for j := range got {
		t.Mul(P, exp[j])
		t.Sub(got[j], t)
		t.Mod(t, crt.Q)
		if t.Cmp(crt.Half) > 0 {
			t.Sub(t, crt.Q)
		}
		t.Abs(t)
		if t.Cmp(maxd) > 0 {
			maxd.Set(t)
		}
	}
	l2 := obs.Log2Big(maxd)
	bound := e.ksLazy(levelQ)
	c.Count("phase_comparisons_qp", 1)
	c.Check(l2 <= math.Log2(bound), "C11|"+api+"|wrong-phase", func() string {
		return fmt.Sprintf("%s: |phase_QP(out) - P*phi(phase(in))|_inf = 2^%.1f > worst-case bound 2^%.1f (log2 QP = %d)", what(), l2, math.Log2(bound), crt.Q.BitLen())
	})
}
