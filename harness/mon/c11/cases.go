// Package c11: rotations and slot sums follow the Galois algebra; advertised key lists suffice.
//
// Oracles (all independent of the code path under test):
//   - Galois-element functions against a math/big model of 5^k mod NthRoot (group laws, inverse,
//     discrete logarithm, k vs k mod slots);
//   - every ciphertext operation in the phase domain: phase(out) must equal the exact model
//     sum_g phi_g(phase(in)) (coefficient-domain automorphism model of package ref, per RNS row) up to a
//     worst-case key-switch noise bound; lazy hoisted outputs are judged modulo QP;
//   - in the slot domain through the scheme encoders: BGV exactly, CKKS within the worst-case bound
//     mapped through the canonical embedding; InnerSum/InnerFunction only on the documented slots;
//   - sufficiency: the evaluator only ever holds keys for exactly the advertised Galois elements.
//
// Families: alg, rot, sum, sum-noP, sum-dense, trace (cases.go) and, from the coverage audit (cases_ext.go),
// rotx (rotx.go), sumx (sumx.go), tracex (tracex.go), seq (seq.go), keylevel / keypow2 (keylevel.go); the
// evaluator derivations they share are in derive.go.
package c11

import (
	"fmt"
	"math"

	"verif/harness/eng"
	"verif/harness/gen"
)

type shape struct {
	nQ, nP, pow2 int
}

// mkCfg draws a parameter set. Returns ok=false when no admissible chain exists.
func mkCfg(r *eng.Rand, scheme, rtyp string, logN int, sh shape, ntt bool) (cf cfg, ok bool) {
	cf = cfg{Scheme: scheme, Ring: rtyp, LogN: logN, Pow2: sh.pow2, NTT: ntt}
	if scheme != "rlwe" {
		cf.NTT = true
	}
	nth := cf.nthRoot()
	skip := map[uint64]bool{}
	pick := func(bits int) uint64 {
		pos := r.N(4)
		if sh.pow2 > 0 {
			pos = gen.PosBelow // keep round(log2 q) == bit length (digit count of the power-of-two decomposition)
		}
		p := gen.Primes(bits, nth, 1, pos, skip)
		if len(p) == 0 {
			p = gen.Primes(bits, nth, 1, gen.PosBelow, skip)
		}
		if len(p) == 0 {
			return 0
		}
		return p[0]
	}
	for i := 0; i < sh.nQ; i++ {
		bits := 45 + r.N(14)
		if i == 0 {
			bits = 55 + r.N(6)
		}
		q := pick(bits)
		if q == 0 {
			return cf, false
		}
		cf.Q = append(cf.Q, q)
	}
	for i := 0; i < sh.nP; i++ {
		p := pick(59 + r.N(3))
		if p == 0 {
			return cf, false
		}
		cf.P = append(cf.P, p)
	}
	if r.N(4) == 0 {
		cf.H = min(1<<logN, eng.Pick(r, 8, 16, 64))
	}
	N := 1 << logN
	nn := N
	if rtyp == "ci" {
		nn = 2 * N
	}
	ks := 2 * ksBound(nn, cf.Q, cf.P, cf.Pow2, len(cf.Q)-1, 19, float64(N))
	switch scheme {
	case "bgv":
		tb := eng.Pick(r, logN+3, 17, 20, 25, 30)
		if tb < logN+3 {
			tb = logN + 3
		}
		t := gen.Primes(tb, nth, 1, r.N(2), nil)
		if len(t) == 0 {
			t = []uint64{65537}
		}
		cf.T = t[0]
		if r.N(3) == 0 && logN <= 15 {
			cf.T = 65537
		}
	case "ckks":
		// scale large enough for sums of up to 256 terms to be judged within maxTol
		need := math.Log2(4*float64(N)*float64(2*min(N/2, 256)+2)*ks) + 7
		cf.LogScale = 40
		for cf.LogScale < int(need)+1 && cf.LogScale < 58 {
			cf.LogScale++
		}
	}
	return cf, true
}

func cases(tier string, seed int64) []eng.Case {
	r := eng.NewRand("c11-cases", seed)
	thorough := tier == "thorough"
	var out []eng.Case
	ids := map[string]int{}
	uid := func(s string) string {
		ids[s]++
		if ids[s] > 1 {
			return fmt.Sprintf("%s#%d", s, ids[s])
		}
		return s
	}

	// 1. group laws
	maxLogN := 11
	if thorough {
		maxLogN = 14
	}
	for _, rt := range []string{"std", "ci"} {
		for logN := 4; logN <= maxLogN; logN++ {
			ac := algCfg{Ring: rt, LogN: logN}
			out = append(out, eng.Case{ID: fmt.Sprintf("alg/%s/logN%d", rt, logN), Sig: "C11|GaloisElement", Desc: ac, Run: func(c *eng.Ctx) { runAlg(c, ac) }})
		}
	}

	type fam struct {
		scheme, ring string
		ntt          bool
	}
	fams := []fam{{"ckks", "std", true}, {"ckks", "ci", true}, {"bgv", "std", true}, {"rlwe", "std", true}, {"rlwe", "std", false}, {"rlwe", "ci", true}, {"rlwe", "ci", false}}
	withP := []shape{{1, 1, 0}, {2, 1, 0}, {3, 2, 0}, {4, 3, 0}, {3, 1, 0}, {4, 2, 0}}
	noHoist := []shape{{2, 0, 8}, {2, 1, 12}, {3, 0, 5}, {1, 1, 16}}
	rawRNS := shape{3, 0, 0} // RNS digits without auxiliary modulus: noise ~ N*B*q, usable where Q is 3 primes

	// 2. rotations
	smallN := []int{4, 5, 6}
	bigN := []int{7, 8, 9, 10, 11}
	if thorough {
		bigN = []int{7, 8, 9, 10, 11, 12, 13}
	}
	addRot := func(f fam, logN int, sh shape) {
		cf, ok := mkCfg(r, f.scheme, f.ring, logN, sh, f.ntt)
		if !ok {
			return
		}
		out = append(out, eng.Case{ID: uid("rot/" + cf.tag()), Sig: "C11|rotation", Desc: cf, Run: func(c *eng.Ctx) { runRot(c, cf) }})
	}
	reps := 1
	if thorough {
		reps = 2
	}
	for rep := 0; rep < reps; rep++ {
		for _, f := range fams {
			for _, logN := range smallN {
				addRot(f, logN, withP[r.N(len(withP))])
				if thorough || r.N(2) == 0 {
					addRot(f, logN, noHoist[r.N(len(noHoist))])
				}
				if thorough {
					addRot(f, logN, withP[r.N(len(withP))])
				}
			}
			for _, logN := range bigN {
				addRot(f, logN, withP[r.N(len(withP))])
				if logN <= 9 {
					addRot(f, logN, noHoist[r.N(len(noHoist))])
				}
				if thorough {
					addRot(f, logN, withP[r.N(len(withP))])
					addRot(f, logN, noHoist[r.N(len(noHoist))])
				}
			}
			if f.scheme != "ckks" {
				addRot(f, eng.Pick(r, 5, 8, 9), rawRNS)
			} else {
				addRot(f, eng.Pick(r, 7, 9), noHoist[r.N(len(noHoist))])
			}
		}
	}

	// 3. slot sums
	addSum := func(f fam, logN int, sh shape, op string, exhaustive bool, budget int) {
		cf, ok := mkCfg(r, f.scheme, f.ring, logN, sh, f.ntt)
		if !ok {
			return
		}
		out = append(out, eng.Case{ID: uid("sum/" + op + "/" + cf.tag()), Sig: "C11|" + op, Desc: cf, Run: func(c *eng.Ctx) { runSum(c, cf, op, exhaustive, budget) }})
	}
	opsOf := func(f fam) []string {
		switch f.scheme {
		case "ckks":
			return []string{"RotateAndAdd", "InnerSum", "Replicate", "InnerFunction", "Average"}
		case "bgv":
			return []string{"RotateAndAdd", "InnerSum", "Replicate", "InnerFunction"}
		}
		return []string{"PartialTracesSum", "Replicate", "InnerFunction"}
	}
	exN := []int{4, 5, 6}
	sampN := []int{7, 8, 9, 10, 11}
	if thorough {
		sampN = []int{7, 8, 9, 10, 11, 12}
	}
	for rep := 0; rep < reps; rep++ {
		for _, f := range fams {
			if f.scheme == "rlwe" && f.ring == "ci" && !f.ntt && !thorough {
				continue
			}
			for _, op := range opsOf(f) {
				for _, logN := range exN {
					ln := logN
					if f.scheme == "ckks" && f.ring == "std" {
						ln++ // same slot count as the other families
					}
					budget := 300
					if thorough {
						budget = 4000
					}
					addSum(f, ln, withP[r.N(len(withP))], op, true, budget)
				}
				for _, logN := range sampN {
					budget := 12
					if thorough {
						budget = 30
					}
					addSum(f, logN, withP[r.N(len(withP))], op, false, budget)
				}
				if op == "InnerFunction" {
					// the only sum that does not need an auxiliary modulus
					addSum(f, eng.Pick(r, 5, 6, 8), noHoist[r.N(len(noHoist))], op, false, 12)
				}
			}
		}
	}

	// 3b. the same sums without auxiliary modulus
	for _, f := range []fam{{"ckks", "std", true}, {"bgv", "std", true}, {"rlwe", "std", false}} {
		if cf, ok := mkCfg(r, f.scheme, f.ring, 5, shape{3, 0, 0}, f.ntt); ok {
			if cf.Scheme == "ckks" {
				cf.LogScale = 40
			}
			out = append(out, eng.Case{ID: uid("sum-noP/" + cf.tag()), Sig: "C11|PartialTracesSum", Desc: cf, Run: func(c *eng.Ctx) { runSumNoP(c, cf) }})
		}
	}

	// 3c. dense counts with the largest auxiliary modulus: n = 2^k-1 accumulates one rotated copy per set bit,
	// and 2^64/p is ~8 for the usual 61-bit P, so that an accumulator that is not reduced wraps from ~10 terms on
	largestBelow := func(bound, nth uint64) uint64 {
		for x := (bound-1)/nth*nth + 1; x > nth; x -= nth {
			if gen.IsPrime(x) {
				return x
			}
		}
		return 0
	}
	type denseFam struct {
		f     fam
		op    string
		logN  int
		bound uint64
		dense int
		name  string
	}
	dfs := []denseFam{
		{fam{"rlwe", "std", true}, "PartialTracesSum", 12, 1 << 61, 2047, "p61"},
		{fam{"ckks", "std", true}, "RotateAndAdd", 13, 1 << 61, 4095, "p61"},
		{fam{"bgv", "std", true}, "RotateAndAdd", 12, 1 << 61, 2047, "p61"},
		{fam{"rlwe", "std", false}, "Replicate", 12, 1 << 61, 2047, "p61"},
	}
	if thorough {
		dfs = append(dfs,
			denseFam{fam{"rlwe", "std", true}, "PartialTracesSum", 13, 1 << 61, 4095, "p61"},
			denseFam{fam{"ckks", "std", true}, "RotateAndAdd", 12, 1 << 61, 2047, "p61"},
			denseFam{fam{"bgv", "std", true}, "RotateAndAdd", 13, 1 << 61, 4095, "p61"},
			denseFam{fam{"rlwe", "ci", true}, "PartialTracesSum", 11, 1 << 61, 2047, "p61"},
			denseFam{fam{"ckks", "ci", true}, "RotateAndAdd", 11, 1 << 61, 2047, "p61"},
			denseFam{fam{"rlwe", "std", true}, "PartialTracesSum", 12, 1 << 60, 2047, "p60"},
		)
	}
	for _, d := range dfs {
		cf, ok := mkCfg(r, d.f.scheme, d.f.ring, d.logN, shape{3, 1, 0}, d.f.ntt)
		if !ok {
			continue
		}
		p := largestBelow(d.bound, cf.nthRoot())
		if p == 0 {
			continue
		}
		cf.P = []uint64{p}
		cf.Dense = d.dense
		op := d.op
		out = append(out, eng.Case{ID: uid("sum-dense/" + d.name + "/" + op + "/" + cf.tag()), Sig: "C11|" + op, Desc: cf, Run: func(c *eng.Ctx) { runSum(c, cf, op, false, 0) }})
	}

	// 4. traces
	trN := []int{4, 5, 6, 7, 8, 9, 10, 11}
	if thorough {
		trN = []int{4, 5, 6, 7, 8, 9, 10, 11, 12}
	}
	for rep := 0; rep < reps; rep++ {
		for _, f := range fams {
			if f.ring == "ci" {
				continue // Trace is documented for the standard ring only (see limitations)
			}
			for _, logN := range trN {
				shapes := []shape{withP[r.N(len(withP))]}
				if thorough || r.N(2) == 0 {
					shapes = append(shapes, noHoist[r.N(len(noHoist))])
				}
				for _, sh := range shapes {
					cf, ok := mkCfg(r, f.scheme, f.ring, logN, sh, f.ntt)
					if !ok {
						continue
					}
					out = append(out, eng.Case{ID: uid("trace/" + cf.tag()), Sig: "C11|Trace", Desc: cf, Run: func(c *eng.Ctx) { runTrace(c, cf) }})
				}
			}
		}
	}
	// 5. families of the coverage audit (own random stream: the configurations above do not move)
	out = append(out, extCases(tier, seed, uid)...)
	return out
}

func init() {
	eng.Register(&eng.Monitor{
		ID: "C11", Level: "exploration",
		Rule: "cases = (kind, scheme in {ckks,bgv,rlwe}, ring type, logN, #Q, #P, power-of-two key decomposition, NTT/coefficient representation). " +
			"alg: every k in [-2*slots, 2*slots] for logN<=8 (sampled above) plus k near +-2^62, +-2^63 and random 64-bit k, all pairs (a,b) for logN<=6 and 3000 sampled pairs otherwise. " +
			"rot: every k in [-slots-3, 2*slots+3] for N<=64, boundary and random k above, plain / hoisted / hoisted-lazy variants, input and receiver levels varied, sparse CKKS packing. " +
			"sum: every (batch,n) with n*batch<=slots for <=64 slots (thinned to the case budget keeping boundary pairs), boundary and random pairs above, for RotateAndAdd, InnerSum, Replicate, InnerFunction, Average, PartialTracesSum. " +
			"trace: every logN argument. " +
			"rotx / sumx / tracex (coverage audit): about 20 rotation amounts (boundary, random, near 2^62/2^63) / 9-16 (batch,n) pairs / every trace depth (conjugate-invariant ring included) per configuration, " +
			"each call with one calling feature: *New variant, receiver == input, used receiver (stale values and metadata, other level, previously degree 2), evaluator obtained through WithKey / ShallowCopy / keys added after construction / the BFV evaluator, " +
			"keys from GenGaloisKeysNew(list), one advertised key removed (error or correct result), CKKS/BGV inputs in the coefficient domain, hoisted automorphisms below the level of their input, up to 8 RNS digits; " +
			"documented refusals (missing key, empty and nil key set, degree != 1, conjugation in the conjugate-invariant ring, InnerSum arguments): an error, no panic, input intact. " +
			"seq: programs of 6-11 steps (rotation, conjugation, slot sum, trace, level drop, switch to another ciphertext at a higher level, evaluator re-derivation) on ONE evaluator holding the union of the advertised lists, receivers = input / ciphertext of two steps before / new; every step judged in the phase domain, the end in the slot domain against the composed slot model. " +
			"keylevel / keypow2: Galois keys generated at a LevelP below the maximum (and -1) or with a base-two decomposition: error or correct result, never garbage or a panic. " +
			"alg additionally at logN 12..16 (quick) / ..17 (thorough). " +
			"distinct key = (kind, configuration tag, operation/variant/feature/derivation, k class or (slots,batch,n) or trace depth, output level); " +
			"non-trivial = alg: k (or a+b) outside [0,slots); rot: the Galois element is not 1 (a key switch happens); sum: n>=2; trace: at least one automorphism is applied; refusals and sequences: always.",
		Cases: cases,
		Assumptions: []string{
			"math/big modular exponentiation and the coefficient-domain automorphism model of package ref are correct",
			"the phase c0+c1*s is evaluated with lattigo's NTT and Montgomery product (judged by C01); CRT reconstruction is math/big",
			"slot semantics are those of the scheme encoders (judged by C07); CKKS slot tolerances are worst-case bounds through the canonical embedding",
			"hoisted operations and the sums built on them are required to be correct only with an auxiliary modulus P and keys without power-of-two decomposition at the maximum LevelP (documented restriction); outside of it they are required to refuse with an error or be correct",
			"Trace(logN) in the conjugate-invariant ring may keep either the plaintexts with 2^logN slots (every N/2^logN-th coefficient) or the coefficient indices of the standard ring (every N/2^(logN+1)-th): the documentation leaves both readings open, both are accepted",
		},
	})
}
