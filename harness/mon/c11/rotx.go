package c11

import (
	"fmt"

	"github.com/tuneinsight/lattigo/v6/core/rlwe"
	"github.com/tuneinsight/lattigo/v6/ring"
	"github.com/tuneinsight/lattigo/v6/ring/ringqp"

	"verif/harness/eng"
)

// usedReceiver returns a degree-1 ciphertext at `level` that looks like the result of an unrelated earlier
// operation: random values in every row and metadata that differ from any input's.
func (e *env) usedReceiver(r *eng.Rand, level int) *rlwe.Ciphertext {
	ct := e.newCt(level)
	for _, p := range ct.Value {
		for i := range p.Coeffs {
			q := e.cfg.Q[i]
			for j := range p.Coeffs[i] {
				p.Coeffs[i][j] = r.U64() % q
			}
		}
	}
	ct.Scale = rlwe.NewScale(12345)
	ct.LogDimensions = ring.Dimensions{Rows: 0, Cols: 1}
	ct.IsNTT = r.Bool()
	ct.IsBatched = !ct.IsBatched
	return ct
}

// features of runRotX: one per call, so that a signature names the feature that was exercised
const (
	fNew      = "new"           // RotateNew / ConjugateNew / RotateColumnsNew / RotateRowsNew
	fInPlace  = "in-place"      // receiver == input
	fUsed     = "used-receiver" // receiver holds values and metadata of an unrelated earlier result
	fVia      = "via"           // evaluator obtained through WithKey / ShallowCopy / late keys / BFV
	fListKeys = "list-keys"     // keys generated with GenGaloisKeysNew(list)
)

// runRotX: the rotation entry points that runRot does not reach: the *New variants, in-place calls, used
// receivers, evaluators that do not come straight from the constructor, hoisted automorphisms below the
// level of their input, and the documented refusals (missing key, nil key set, degree != 1, conjugation
// in the conjugate-invariant ring): an error, no panic, input left intact.
func runRotX(c *eng.Ctx, cf cfg) {
	e, err := cf.build()
	if err != nil {
		c.Violate("C11|NewParameters|error-on-admissible", err.Error(), cf)
		return
	}
	rnd := c.Rand()
	typ := cf.Ring
	tag := cf.tag()
	hoist := len(cf.P) > 0 && cf.Pow2 == 0
	maxL := len(cf.Q) - 1
	logSlots := 0
	if cf.Scheme == "ckks" {
		logSlots = e.ck.LogMaxSlots()
		if rnd.Bool() && logSlots > 1 {
			logSlots = 1 + rnd.N(logSlots-1)
		}
	}
	slots := e.S
	if cf.Scheme == "ckks" {
		slots = 1 << logSlots
	}
	S := e.S
	ksNoise := e.ks(maxL)
	lo := e.minLevelFor(ksNoise, 1)
	if lo < 0 {
		c.Inconclusive("no level leaves room for the key-switch noise: " + tag)
		return
	}
	c.Sample(map[string]any{"kind": "rotx", "cfg": cf, "logSlots": logSlots, "digits": e.rp.BaseRNSDecompositionVectorSize(maxL, len(cf.P)-1)})
	c.Max("max_rns_digits", int64(e.rp.BaseRNSDecompositionVectorSize(maxL, len(cf.P)-1)))

	// an unrelated key set (WithKey-replacing, missing-key refusals)
	other := []uint64{e.galRot(2)}
	if typ == "std" {
		other = append(other, e.galConj())
	}

	ks := []int{0, 1, -1, 3, S - 1, S, S + 1, -S - 1, S / 2, -S/2 - 1, slots, slots - 1, -slots, rnd.N(8*S+1) - 4*S, rnd.N(8*S+1) - 4*S,
		eng.Pick(rnd, extremeKs[:6]...), eng.Pick(rnd, extremeKs[6:11]...), int(rnd.U64())}
	feats := []string{fNew, fInPlace, fUsed, fVia, fVia, fListKeys}
	if cf.Scheme == "rlwe" {
		feats = feats[1:]
	}

	type call struct {
		conj bool
		k    int
	}
	var calls []call
	for _, k := range ks {
		calls = append(calls, call{k: k})
	}
	if typ == "std" {
		for i := 0; i < 5; i++ {
			calls = append(calls, call{conj: true})
		}
	}
	for ci, cl := range calls {
		cl := cl
		feat := feats[(ci+rnd.N(len(feats)))%len(feats)]
		via := viaCtor
		if feat == fVia {
			via = pickVia(rnd, cf.Scheme)
		}
		lin := lo + rnd.N(maxL-lo+1)
		var out *rlwe.Ciphertext
		if feat == fUsed {
			out = e.usedReceiver(rnd, outLevel(rnd, lin, lo, maxL))
		}
		tv, err := e.fresh(rnd, lin, logSlots, 0, 0)
		if err != nil {
			c.Violate("C11|setup|error", err.Error(), cf)
			return
		}
		var gAdv, gRef uint64
		api := e.apiRot()
		if cl.conj {
			gAdv, gRef, api = e.galConj(), e.nth-1, e.apiConj()
		} else {
			gAdv, gRef = e.galRot(emod(cl.k, S)), refGal(cl.k, e.nth)
		}
		ev := e.newEvalVia(via, []uint64{gAdv}, other, feat == fListKeys)
		in := tv.ct
		switch feat {
		case fNew:
			api += "New"
		case fInPlace:
			in = tv.ct.CopyNew()
			out = tv.ct
			api += "|in-place"
		case fUsed:
			api += "|used-receiver"
		case fVia:
			api += viaSig(via)
		}
		if out == nil && feat != fNew {
			out = e.newCt(lin)
		}
		what := func() string {
			if cl.conj {
				return fmt.Sprintf("%s order-two element [%s %s] level in=%d slots=%d", tag, feat, via, lin, slots)
			}
			return fmt.Sprintf("%s k=%d (k mod maxslots=%d) [%s %s] level in=%d slots=%d, key for element %d", tag, cl.k, emod(cl.k, S), feat, via, lin, slots, gAdv)
		}
		kc := "conj"
		if !cl.conj {
			kc = kClass(cl.k, S)
		}
		c.Distinct(fmt.Sprintf("rotx/%s/%s/%s/%s", tag, kc, feat, via), gRef != 1)
		var rerr error
		if !c.Try("C11|"+api, func() {
			switch {
			case feat == fNew && cl.conj && cf.Scheme == "ckks":
				out, rerr = ev.ck.ConjugateNew(tv.ct)
			case feat == fNew && cl.conj:
				out, rerr = ev.bg.RotateRowsNew(tv.ct)
			case feat == fNew && cf.Scheme == "ckks":
				out, rerr = ev.ck.RotateNew(tv.ct, cl.k)
			case feat == fNew:
				out, rerr = ev.bg.RotateColumnsNew(tv.ct, cl.k)
			case cl.conj:
				rerr = ev.conj(tv.ct, out)
			default:
				rerr = ev.rotate(tv.ct, cl.k, out)
			}
		}) {
			continue
		}
		if rerr != nil {
			c.Violate("C11|"+api+"|error-with-advertised-key", what()+": "+rerr.Error(), cf)
			continue
		}
		if out == nil {
			c.Violate("C11|"+api+"|missing-output", what(), cf)
			continue
		}
		c.Count("rotx_"+feat, 1)
		if feat == fVia {
			c.Count("rotx_via_"+via, 1)
		}
		if feat == fNew {
			c.Check(out.Level() == lin && out.Degree() == 1, "C11|"+api+"|new-output-level-differs", func() string {
				return fmt.Sprintf("%s: new ciphertext has level %d degree %d", what(), out.Level(), out.Degree())
			})
		}
		e.checkPhase(c, api, in, out, min(lin, out.Level()), autModel(typ, gRef), ksNoise, what)
		switch cf.Scheme {
		case "ckks":
			exp := rotSlots(tv.cv, 1, cl.k)
			if cl.conj {
				exp = conjSlots(tv.cv)
			}
			e.checkSlots(c, api, out, exp, nil, nil, e.slotTol(ksNoise, 1), what)
		case "bgv":
			exp := rotSlots(tv.uv, 2, cl.k)
			if cl.conj {
				exp = swapRows(tv.uv)
			}
			e.checkSlots(c, api, out, nil, exp, nil, 0, what)
		}
	}

	// ---- hoisted automorphisms below the level of their input (the way the linear transformations call them)
	if hoist && maxL > lo {
		levelP := len(cf.P) - 1
		for rep := 0; rep < 3; rep++ {
			lin := lo + 1 + rnd.N(maxL-lo)
			lvl := lo + rnd.N(lin-lo)
			tv, err := e.fresh(rnd, lin, logSlots, 0, 0)
			if err != nil {
				c.Violate("C11|setup|error", err.Error(), cf)
				return
			}
			rots := []int{1 + rnd.N(S-1), -1 - rnd.N(S-1), S + 2, eng.Pick(rnd, extremeKs[:11]...)}
			var gals []uint64
			for _, k := range rots {
				gals = append(gals, e.galRot(emod(k, S)))
			}
			via := pickVia(rnd, cf.Scheme)
			ev := e.newEvalVia(via, gals, other, rep == 0)
			apih := "rlwe.Evaluator.AutomorphismHoisted|level-below-input" + viaSig(via)
			apil := "rlwe.Evaluator.AutomorphismHoistedLazy|level-below-input" + viaSig(via)
			if !c.Try("C11|rlwe.Evaluator.DecomposeNTT|level-below-input", func() {
				ev.rl.DecomposeNTT(lvl, levelP, levelP+1, tv.ct.Value[1], tv.ct.IsNTT, ev.rl.BuffDecompQP)
			}) {
				continue
			}
			for _, k := range rots {
				k := k
				g := e.rp.GaloisElement(k)
				gRef := refGal(k, e.nth)
				what := func() string {
					return fmt.Sprintf("%s hoisted k=%d of %v [%s] input level %d, call level %d", tag, k, rots, via, lin, lvl)
				}
				c.Distinct(fmt.Sprintf("rotx/%s/%s/hoisted-below/%d", tag, kClass(k, S), lin-lvl), gRef != 1)
				out := e.newCt(eng.Pick(rnd, lvl, lin, maxL))
				var herr error
				if c.Try("C11|"+apih, func() { herr = ev.rl.AutomorphismHoisted(lvl, tv.ct, ev.rl.BuffDecompQP, g, out) }) {
					if herr != nil {
						c.Violate("C11|"+apih+"|error-with-advertised-keys", what()+": "+herr.Error(), cf)
					} else if gRef != 1 {
						// (for the identity element the method documents nothing about `level`: it copies)
						c.Count("rotx_hoisted_below_input_level", 1)
						c.Check(out.Level() == lvl, "C11|"+apih+"|output-level-not-call-level", func() string {
							return fmt.Sprintf("%s: output level %d", what(), out.Level())
						})
						if out.Level() <= lin {
							e.checkPhase(c, apih, tv.ct, out, lvl, autModel(typ, gRef), ksNoise, what)
						}
					}
				}
				if gRef == 1 {
					continue
				}
				el := rlwe.NewElementExtended(e.rp, 1, lvl, levelP)
				el.IsNTT = tv.ct.IsNTT
				var lerr error
				if c.Try("C11|"+apil, func() { lerr = ev.rl.AutomorphismHoistedLazy(lvl, tv.ct, ev.rl.BuffDecompQP, g, el) }) {
					if lerr != nil {
						c.Violate("C11|"+apil+"|error-with-advertised-keys", what()+": "+lerr.Error(), cf)
					} else {
						c.Count("rotx_hoisted_lazy_below_input_level", 1)
						e.checkLazy(c, apil, tv.ct, el, lvl, gRef, what)
					}
				}
			}
		}
	}

	// ---- refusals: an error (a panic is a violation), input left intact
	refuse := func(api, class string, in *rlwe.Ciphertext, f func() error) {
		snap := in.CopyNew()
		var rerr error
		c.Distinct(fmt.Sprintf("rotx/%s/refusal/%s/%s", tag, api, class), true)
		if !c.Try("C11|"+api+"|"+class, func() { rerr = f() }) {
			return
		}
		c.Count("refusals_checked", 1)
		c.Check(rerr != nil, "C11|"+api+"|"+class+"|no-error", func() string { return tag + ": the call is documented to return an error" })
		c.Check(sameCt(in, snap), "C11|"+api+"|"+class+"|input-modified", func() string { return tag + ": refused call changed its input" })
	}
	tv, err := e.fresh(rnd, maxL, logSlots, 0, 0)
	if err != nil {
		c.Violate("C11|setup|error", err.Error(), cf)
		return
	}
	// a rotation whose element is in no key set used below
	kMiss := 5
	gMiss := e.galRot(kMiss)
	for _, g := range other {
		if g == gMiss {
			kMiss = 7
			gMiss = e.galRot(kMiss)
		}
	}
	{
		evOther := e.newEvalVia(pickVia(rnd, cf.Scheme), other, nil, false)
		evEmpty := e.newEval(nil)
		evNil := e.newEvalNilKeys()
		for _, t := range []struct {
			class string
			ev    *evalr
		}{{"missing-key", evOther}, {"empty-key-set", evEmpty}, {"nil-key-set", evNil}} {
			t := t
			refuse(e.apiRot(), t.class, tv.ct, func() error { return t.ev.rotate(tv.ct, kMiss, e.newCt(maxL)) })
			refuse(e.apiRot(), t.class+",in-place", tv.ct, func() error { return t.ev.rotate(tv.ct, kMiss, tv.ct) })
			if hoist {
				levelP := len(cf.P) - 1
				refuse("rlwe.Evaluator.AutomorphismHoisted", t.class, tv.ct, func() error {
					t.ev.rl.DecomposeNTT(maxL, levelP, levelP+1, tv.ct.Value[1], tv.ct.IsNTT, t.ev.rl.BuffDecompQP)
					return t.ev.rl.AutomorphismHoisted(maxL, tv.ct, t.ev.rl.BuffDecompQP, gMiss, e.newCt(maxL))
				})
				refuse("rlwe.Evaluator.AutomorphismHoistedLazy", t.class, tv.ct, func() error {
					t.ev.rl.DecomposeNTT(maxL, levelP, levelP+1, tv.ct.Value[1], tv.ct.IsNTT, t.ev.rl.BuffDecompQP)
					el := rlwe.NewElementExtended(e.rp, 1, maxL, levelP)
					el.IsNTT = tv.ct.IsNTT
					return t.ev.rl.AutomorphismHoistedLazy(maxL, tv.ct, t.ev.rl.BuffDecompQP, gMiss, el)
				})
				if cf.Scheme == "ckks" {
					refuse("ckks.Evaluator.RotateHoistedNew", t.class, tv.ct, func() error {
						_, err := t.ev.ck.RotateHoistedNew(tv.ct, []int{2, kMiss})
						return err
					})
				}
				if cf.Scheme != "rlwe" {
					refuse(cf.Scheme+".Evaluator.RotateHoistedLazyNew", t.class, tv.ct, func() error {
						t.ev.rl.DecomposeNTT(maxL, levelP, levelP+1, tv.ct.Value[1], tv.ct.IsNTT, t.ev.rl.BuffDecompQP)
						var err error
						var m map[int]*rlwe.Element[ringqp.Poly]
						if cf.Scheme == "ckks" {
							m, err = t.ev.ck.RotateHoistedLazyNew(maxL, []int{2, kMiss}, tv.ct, t.ev.rl.BuffDecompQP)
						} else {
							m, err = t.ev.bg.RotateHoistedLazyNew(maxL, []int{2, kMiss}, tv.ct, t.ev.rl.BuffDecompQP)
						}
						_ = m
						return err
					})
				}
			}
			if typ == "std" && t.class != "missing-key" {
				refuse(e.apiConj(), t.class, tv.ct, func() error { return t.ev.conj(tv.ct, e.newCt(maxL)) })
			}
		}
	}
	// degree != 1 (documented for rlwe.Evaluator.Automorphism* and the bgv wrappers)
	if cf.Scheme != "ckks" {
		ev := e.newEval([]uint64{e.galRot(1)})
		deg2 := rlwe.NewCiphertext(e.pp, 2, maxL)
		*deg2.MetaData = *tv.ct.MetaData
		for i := range deg2.Value {
			for j := range deg2.Value[i].Coeffs {
				for l := range deg2.Value[i].Coeffs[j] {
					deg2.Value[i].Coeffs[j][l] = rnd.U64() % cf.Q[j]
				}
			}
		}
		refuse(e.apiRot(), "degree-2-input", deg2, func() error { return ev.rotate(deg2, 1, e.newCt(maxL)) })
		refuse(e.apiRot(), "degree-2-receiver", tv.ct, func() error { return ev.rotate(tv.ct, 1, rlwe.NewCiphertext(e.pp, 2, maxL)) })
		refuse(e.apiRot(), "degree-0-receiver", tv.ct, func() error { return ev.rotate(tv.ct, 1, rlwe.NewCiphertext(e.pp, 0, maxL)) })
		if hoist {
			levelP := len(cf.P) - 1
			refuse("rlwe.Evaluator.AutomorphismHoisted", "degree-2-receiver", tv.ct, func() error {
				ev.rl.DecomposeNTT(maxL, levelP, levelP+1, tv.ct.Value[1], tv.ct.IsNTT, ev.rl.BuffDecompQP)
				return ev.rl.AutomorphismHoisted(maxL, tv.ct, ev.rl.BuffDecompQP, e.galRot(1), rlwe.NewCiphertext(e.pp, 2, maxL))
			})
		}
	}
	// complex conjugation does not exist in the conjugate-invariant ring: ckks documents an error
	if cf.Scheme == "ckks" && typ == "ci" {
		ev := e.newEval([]uint64{e.galRot(1)})
		refuse("ckks.Evaluator.Conjugate", "conjugate-invariant-ring", tv.ct, func() error { return ev.ck.Conjugate(tv.ct, e.newCt(maxL)) })
		refuse("ckks.Evaluator.ConjugateNew", "conjugate-invariant-ring", tv.ct, func() error { _, err := ev.ck.ConjugateNew(tv.ct); return err })
	}
}
