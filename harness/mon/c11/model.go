package c11

import (
	"math/big"
	"math/cmplx"

	"github.com/tuneinsight/lattigo/v6/ring"

	"verif/harness/ref"
)

// refGal is the reference Galois element of a rotation by k: 5^(k mod ord) mod nth with
// ord = nth/4 the multiplicative order of 5 modulo the power of two nth (math/big only).
func refGal(k int, nth uint64) uint64 {
	ord := big.NewInt(int64(nth / 4))
	e := new(big.Int).Mod(big.NewInt(int64(k)), ord) // Euclidean: always >= 0
	return new(big.Int).Exp(big.NewInt(5), e, new(big.Int).SetUint64(nth)).Uint64()
}

func mulModPow2(a, b, nth uint64) uint64 { return (a * b) & (nth - 1) }

// emod is the mathematical k mod m in [0,m).
func emod(k, m int) int {
	r := k % m
	if r < 0 {
		r += m
	}
	return r
}

// autRow applies X -> X^g to one coefficient row of the ring of the given type.
func autRow(typ string, a []uint64, g, q uint64) []uint64 {
	if typ == "ci" {
		n := len(a)
		u := make([]uint64, 2*n)
		u[0] = a[0] % q
		for i := 1; i < n; i++ {
			u[i] = a[i] % q
			u[2*n-i] = ref.NegMod(a[i], q)
		}
		return ref.Automorphism(u, g, q)[:n]
	}
	return ref.Automorphism(a, g, q)
}

// autSum returns sum_g phi_g(p) over the listed Galois elements, coefficient domain, rows of r.
func autSum(typ string, r *ring.Ring, p ring.Poly, gs []uint64) ring.Poly {
	out := r.NewPoly()
	mods := r.ModuliChain()
	for i := 0; i <= r.Level(); i++ {
		q := mods[i]
		acc := out.Coeffs[i]
		for _, g := range gs {
			row := autRow(typ, p.Coeffs[i], g, q)
			for j := range acc {
				acc[j] = ref.AddMod(acc[j], row[j], q)
			}
		}
	}
	return out
}

// ---------------------------------------------------------------------------------------------
// slot models. A plaintext is a rows x cols matrix stored row-major; rotations act on every row.

type alg[T any] struct {
	add func(a, b T) T
}

func rotSlots[T any](v []T, rows, k int) []T {
	cols := len(v) / rows
	out := make([]T, len(v))
	kk := emod(k, cols)
	for r := 0; r < rows; r++ {
		for j := 0; j < cols; j++ {
			out[r*cols+j] = v[r*cols+(j+kk)%cols]
		}
	}
	return out
}

func swapRows[T any](v []T) []T {
	h := len(v) / 2
	out := make([]T, len(v))
	copy(out, v[h:])
	copy(out[h:], v[:h])
	return out
}

// rotSum = sum_{i<n} rot(v, i*offset)
func rotSum[T any](a alg[T], v []T, rows, offset, n int) []T {
	cols := len(v) / rows
	out := make([]T, len(v))
	copy(out, v)
	for i := 1; i < n; i++ {
		kk := emod(i*offset, cols)
		for r := 0; r < rows; r++ {
			for j := 0; j < cols; j++ {
				out[r*cols+j] = a.add(out[r*cols+j], v[r*cols+(j+kk)%cols])
			}
		}
	}
	return out
}

// innerSumDoc is the documented result of InnerSum / InnerFunction(Add): the leftmost sub-vector of
// every complete group of n sub-vectors of size batch holds the sum of the group; everything else is
// unspecified (mask false). When rows == 2 and n*batch == len(v) the vector is treated as 1-D.
func innerSumDoc[T any](a alg[T], v []T, rows, batch, n int) (exp []T, mask []bool) {
	exp = make([]T, len(v))
	mask = make([]bool, len(v))
	l := n * batch
	span := len(v) / rows
	if l == len(v) {
		span = len(v)
	}
	for base := 0; base+span <= len(v); base += span {
		for g := 0; (g+1)*l <= span; g++ {
			for j := 0; j < batch; j++ {
				s := v[base+g*l+j]
				for i := 1; i < n; i++ {
					s = a.add(s, v[base+g*l+i*batch+j])
				}
				exp[base+g*l+j] = s
				mask[base+g*l+j] = true
			}
		}
	}
	return
}

func cAlg() alg[complex128] {
	return alg[complex128]{add: func(a, b complex128) complex128 { return a + b }}
}
func uAlg(t uint64) alg[uint64] {
	return alg[uint64]{add: func(a, b uint64) uint64 { return ref.AddMod(a, b, t) }}
}

func conjSlots(v []complex128) []complex128 {
	out := make([]complex128, len(v))
	for i, x := range v {
		out[i] = cmplx.Conj(x)
	}
	return out
}

// maxDiffC returns the largest |a-b| over the masked slots and its index.
func maxDiffC(a, b []complex128, mask []bool) (float64, int) {
	m, at := 0.0, -1
	for i := range a {
		if mask != nil && !mask[i] {
			continue
		}
		if d := cmplx.Abs(a[i] - b[i]); d > m || d != d {
			m, at = d, i
			if d != d {
				return d, i
			}
		}
	}
	return m, at
}

func firstDiffU(a, b []uint64, mask []bool) int {
	for i := range a {
		if mask != nil && !mask[i] {
			continue
		}
		if a[i] != b[i] {
			return i
		}
	}
	return -1
}
