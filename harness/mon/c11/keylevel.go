package c11

import (
	"fmt"

	"github.com/tuneinsight/lattigo/v6/core/rlwe"

	"verif/harness/eng"
	"verif/harness/ref"
)

// runKeyLevel: Galois keys for exactly the advertised elements, generated with the documented key
// parameterisation EvaluationKeyParameters{LevelP: lp}, lp below the maximum level of the auxiliary modulus
// (lp = -1: no auxiliary modulus at all). The plain rotations take the level from the key; the entry points
// that decompose their input themselves (slot sums, ckks RotateHoisted) have to do the same or refuse:
// an error or a correct result (within the key-switch noise of the smaller P), never garbage or a panic.
func runKeyLevel(c *eng.Ctx, cf cfg) {
	e, err := cf.build()
	if err != nil {
		c.Violate("C11|NewParameters|error-on-admissible", err.Error(), cf)
		return
	}
	rnd := c.Rand()
	typ := cf.Ring
	tag := cf.tag()
	maxL := len(cf.Q) - 1
	maxLP := len(cf.P) - 1
	S := e.S
	rows, cols := 1, S
	logSlots := 0
	switch cf.Scheme {
	case "ckks":
		logSlots = e.ck.LogMaxSlots()
		cols = 1 << logSlots
	case "bgv":
		rows = 2
	}
	total := rows * cols
	c.Sample(map[string]any{"kind": "keylevel", "cfg": cf})
	n2 := e.N
	if typ == "ci" {
		n2 *= 2
	}
	var lps []int
	for _, lp := range []int{maxLP - 1, 0, -1} {
		if lp < maxLP && (len(lps) == 0 || lps[len(lps)-1] != lp) {
			lps = append(lps, lp)
		}
	}
	for _, lp := range lps {
		lp := lp
		pred := "|galois-keys-below-max-levelP"
		ks1 := 2 * ksBound(n2, cf.Q, cf.P[:lp+1], 0, maxL, e.B, e.h)
		keysFor := func(gals []uint64) *evalr {
			evk := rlwe.NewMemEvaluationKeySet(nil, e.kgen.GenGaloisKeysNew(gals, e.sk, rlwe.EvaluationKeyParameters{LevelP: &lp})...)
			v := &evalr{e: e}
			switch cf.Scheme {
			case "ckks":
				v.ck = e.newEvalNilKeys().ck.WithKey(evk)
				v.rl = v.ck.Evaluator
			case "bgv":
				v.bg = e.newEvalNilKeys().bg.WithKey(evk)
				v.rl = v.bg.Evaluator
			default:
				v.rl = rlwe.NewEvaluator(e.rp, evk)
			}
			return v
		}
		// outcome bookkeeping shared by all calls
		accepted := func(api string, rerr error, what func() string) bool {
			c.Eval(1)
			if rerr != nil {
				c.Count("keylevel_refused_with_error", 1)
				return false
			}
			c.Count("keylevel_accepted", 1)
			return true
		}

		// ---- plain rotation and order-two element
		for i := 0; i < 3; i++ {
			k := eng.Pick(rnd, 1, -1, S-1, 1+rnd.N(S-1), eng.Pick(rnd, extremeKs[:11]...))
			conj := i == 2 && typ == "std"
			lo := e.minLevelFor(ks1, 1)
			if lo < 0 {
				c.Count("keylevel_skipped_no_room", 1)
				break
			}
			lin := lo + rnd.N(maxL-lo+1)
			tv, err := e.fresh(rnd, lin, logSlots, 0, 0)
			if err != nil {
				c.Violate("C11|setup|error", err.Error(), cf)
				return
			}
			g, gRef, api := e.galRot(emod(k, S)), refGal(k, e.nth), e.apiRot()+pred
			if conj {
				g, gRef, api = e.galConj(), e.nth-1, e.apiConj()+pred
			}
			ev := keysFor([]uint64{g})
			out := e.newCt(lin)
			what := func() string {
				return fmt.Sprintf("%s k=%d conj=%v key LevelP=%d (max %d) level=%d", tag, k, conj, lp, maxLP, lin)
			}
			c.Distinct(fmt.Sprintf("keylevel/%s/%d/rot/%s/%v", tag, lp, kClass(k, S), conj), gRef != 1)
			var rerr error
			if !c.Try("C11|"+api, func() {
				if conj {
					rerr = ev.conj(tv.ct, out)
				} else {
					rerr = ev.rotate(tv.ct, k, out)
				}
			}) || !accepted(api, rerr, what) {
				continue
			}
			e.checkPhase(c, api, tv.ct, out, lin, autModel(typ, gRef), ks1, what)
		}

		// ---- ckks: self-decomposing hoisted rotations
		if cf.Scheme == "ckks" {
			if lo := e.minLevelFor(ks1, 1); lo >= 0 {
				lin := lo + rnd.N(maxL-lo+1)
				tv, err := e.fresh(rnd, lin, logSlots, 0, 0)
				if err != nil {
					c.Violate("C11|setup|error", err.Error(), cf)
					return
				}
				rots := []int{1, -2, S + 3, 1 + rnd.N(S-1)}
				var gals []uint64
				for _, k := range rots {
					gals = append(gals, e.galRot(emod(k, S)))
				}
				ev := keysFor(gals)
				for _, newv := range []bool{true, false} {
					api := "ckks.Evaluator.RotateHoisted" + pred // (RotateHoistedNew allocates and calls RotateHoisted)
					var outs map[int]*rlwe.Ciphertext
					var rerr error
					if !newv {
						outs = map[int]*rlwe.Ciphertext{}
						for _, k := range rots {
							outs[k] = e.newCt(lin)
						}
					}
					what := func() string {
						return fmt.Sprintf("%s rotations %v key LevelP=%d (max %d) level=%d", tag, rots, lp, maxLP, lin)
					}
					c.Distinct(fmt.Sprintf("keylevel/%s/%d/hoisted/%v", tag, lp, newv), true)
					if !c.Try("C11|"+api, func() {
						if newv {
							outs, rerr = ev.ck.RotateHoistedNew(tv.ct, rots)
						} else {
							rerr = ev.ck.RotateHoisted(tv.ct, rots, outs)
						}
					}) || !accepted(api, rerr, what) {
						continue
					}
					for _, k := range rots {
						k := k
						if outs[k] == nil {
							c.Violate("C11|"+api+"|missing-output", what(), cf)
							continue
						}
						if e.checkPhase(c, api, tv.ct, outs[k], lin, autModel(typ, refGal(k, e.nth)), ks1, func() string { return fmt.Sprintf("%s, k=%d", what(), k) }) {
							e.checkSlots(c, api, outs[k], rotSlots(tv.cv, 1, k), nil, nil, e.slotTol(ks1, 1), what)
						}
					}
				}
			}
		}

		// ---- slot sums and trace
		var ops []string
		switch cf.Scheme {
		case "ckks", "bgv":
			// (InnerSum and Average are thin wrappers around the same method)
			ops = []string{"RotateAndAdd", "Replicate", "InnerFunction"}
		default:
			ops = []string{"PartialTracesSum", "Replicate", "InnerFunction"}
		}
		for _, op := range ops {
			op := op
			pairs := []pair{{1, 3}, {2, 4}, {1 + rnd.N(4), 2 + rnd.N(6)}}
			if op == "InnerSum" {
				pairs = []pair{{1, 2}, {2, 4}, {4, 8}}
			}
			if op == "Average" {
				pairs = []pair{{cols / 4, 4}, {cols / 2, 2}}
			}
			for _, p := range pairs {
				b, n := p.b, p.n
				if b < 1 || b*n > cols {
					continue
				}
				offset := b
				if op == "Replicate" {
					offset = -b
				}
				eops := float64(2*n+2) * ks1
				lo := e.minLevelFor(eops, n)
				if lo < 0 {
					c.Count("keylevel_skipped_no_room", 1)
					continue
				}
				lin := lo + rnd.N(maxL-lo+1)
				tv, err := e.fresh(rnd, lin, logSlots, 0, 0)
				if err != nil {
					c.Violate("C11|setup|error", err.Error(), cf)
					return
				}
				var gals []uint64
				if !c.Try("C11|GaloisElementsFor"+op, func() { gals, _ = e.advertised(op, b, n, offset) }) {
					continue
				}
				ev := keysFor(gals)
				// one signature per code site: RotateAndAdd and Replicate are PartialTracesSum
				api := "rlwe.Evaluator.PartialTracesSum" + pred
				if op == "InnerFunction" {
					api = "rlwe.Evaluator.InnerFunction" + pred
				}
				out := e.newCt(lin)
				logB := 0
				if op == "Average" {
					logB = ref.BitLen(uint64(b)) - 1
				}
				what := func() string {
					return fmt.Sprintf("%s %s(batch=%d, n=%d) key LevelP=%d (max %d) level=%d slots=%d", tag, op, b, n, lp, maxLP, lin, total)
				}
				c.Distinct(fmt.Sprintf("keylevel/%s/%d/%s/%d/%d", tag, lp, op, b, n), true)
				var rerr error
				if !c.Try("C11|"+api, func() { rerr = ev.sum(op, tv.ct, b, n, offset, logB, out) }) || !accepted(api, rerr, what) {
					continue
				}
				if n == 1 && !tv.ct.IsNTT {
					api += "|n=1,coefficient-domain-input"
				} else if op == "InnerFunction" && !tv.ct.IsNTT {
					api += "|coefficient-domain-input"
				}
				if e.judgeSumPhase(c, api, op, tv.ct, out, b, n, offset, eops, what) {
					e.judgeSumSlots(c, api, op, out, tv, b, n, offset, 0, cols, eops, what)
				}
			}
		}
		{
			logn := rnd.N(cf.LogN)
			gap, terms := e.traceGap(logn)
			eops := float64(terms+1) * ks1
			if lo := e.minLevelFor(eops, 1); lo >= 0 {
				lin := lo + rnd.N(maxL-lo+1)
				tv, err := e.fresh(rnd, lin, logSlots, 0, 0)
				if err != nil {
					c.Violate("C11|setup|error", err.Error(), cf)
					return
				}
				ev := keysFor(rlwe.GaloisElementsForTrace(e.rp, logn))
				out := e.newCt(lin)
				api := "rlwe.Evaluator.Trace" + pred
				what := func() string {
					return fmt.Sprintf("%s Trace(logN=%d) key LevelP=%d (max %d) level=%d", tag, logn, lp, maxLP, lin)
				}
				c.Distinct(fmt.Sprintf("keylevel/%s/%d/trace/%d", tag, lp, logn), terms > 1)
				var rerr error
				if c.Try("C11|"+api, func() { rerr = ev.rl.Trace(tv.ct, logn, out) }) && accepted(api, rerr, what) {
					if typ == "ci" {
						e.checkTraceCIBound(c, api, tv.ct, out, logn, ks1, what)
					} else {
						e.checkPhase(c, api, tv.ct, out, lin, traceModel(e.N, gap), eops, what)
					}
				}
			}
		}
	}
}

// runKeyPow2: Galois keys with a base-two decomposition (EvaluationKeyParameters{BaseTwoDecomposition}) on a
// parameter set that has an auxiliary modulus. The hoisted gadget product documents that it does not support
// them ("method is unsupported for BaseTwoDecomposition != 0"); every entry point built on it returns an
// error value, so the refusal has to arrive as an error (or the result has to be right): never a panic.
func runKeyPow2(c *eng.Ctx, cf cfg) {
	e, err := cf.build()
	if err != nil {
		c.Violate("C11|NewParameters|error-on-admissible", err.Error(), cf)
		return
	}
	rnd := c.Rand()
	typ := cf.Ring
	tag := cf.tag()
	maxL := len(cf.Q) - 1
	levelP := len(cf.P) - 1
	S := e.S
	logSlots := 0
	if cf.Scheme == "ckks" {
		logSlots = e.ck.LogMaxSlots()
	}
	pred := "|galois-keys-base-two-decomposition"
	ks1 := e.ks(maxL)
	c.Sample(map[string]any{"kind": "keypow2", "cfg": cf})
	outcome := func(rerr error) bool {
		c.Eval(1)
		if rerr != nil {
			c.Count("keypow2_refused_with_error", 1)
			return false
		}
		c.Count("keypow2_accepted", 1)
		return true
	}
	lo := e.minLevelFor(8*ks1, 3)
	if lo < 0 {
		c.Inconclusive("no level leaves room for the key-switch noise: " + tag)
		return
	}
	tv, err := e.fresh(rnd, maxL, logSlots, 0, 0)
	if err != nil {
		c.Violate("C11|setup|error", err.Error(), cf)
		return
	}
	k := 1 + rnd.N(S-1)
	g := e.galRot(k)
	gals := append([]uint64{g}, rlwe.GaloisElementsForInnerSum(e.rp, 1, 3)...)
	ev := e.newEval(gals)
	what := func() string { return fmt.Sprintf("%s keys with BaseTwoDecomposition=%d", tag, cf.Pow2) }
	c.Distinct("keypow2/"+tag, true)

	// plain rotation: supported
	{
		out := e.newCt(maxL)
		var rerr error
		if c.Try("C11|"+e.apiRot()+pred, func() { rerr = ev.rotate(tv.ct, k, out) }) && outcome(rerr) {
			e.checkPhase(c, e.apiRot()+pred, tv.ct, out, maxL, autModel(typ, refGal(k, e.nth)), ks1, what)
		}
	}
	decompose := func() {
		ev.rl.DecomposeNTT(maxL, levelP, levelP+1, tv.ct.Value[1], tv.ct.IsNTT, ev.rl.BuffDecompQP)
	}
	{
		api := "rlwe.Evaluator.AutomorphismHoisted" + pred
		out := e.newCt(maxL)
		var rerr error
		if c.Try("C11|"+api, func() {
			decompose()
			rerr = ev.rl.AutomorphismHoisted(maxL, tv.ct, ev.rl.BuffDecompQP, g, out)
		}) && outcome(rerr) {
			e.checkPhase(c, api, tv.ct, out, maxL, autModel(typ, refGal(k, e.nth)), ks1, what)
		}
	}
	{
		api := "rlwe.Evaluator.AutomorphismHoistedLazy" + pred
		el := rlwe.NewElementExtended(e.rp, 1, maxL, levelP)
		el.IsNTT = tv.ct.IsNTT
		var rerr error
		if c.Try("C11|"+api, func() {
			decompose()
			rerr = ev.rl.AutomorphismHoistedLazy(maxL, tv.ct, ev.rl.BuffDecompQP, g, el)
		}) && outcome(rerr) {
			e.checkLazy(c, api, tv.ct, el, maxL, refGal(k, e.nth), what)
		}
	}
	if cf.Scheme == "ckks" {
		api := "rlwe.Evaluator.AutomorphismHoisted" + pred // (the code site ckks.Evaluator.RotateHoisted goes through)
		var outs map[int]*rlwe.Ciphertext
		var rerr error
		if c.Try("C11|"+api, func() { outs, rerr = ev.ck.RotateHoistedNew(tv.ct, []int{k}) }) && outcome(rerr) && outs[k] != nil {
			e.checkPhase(c, api, tv.ct, outs[k], maxL, autModel(typ, refGal(k, e.nth)), ks1, what)
		}
	}
	{
		api := "rlwe.Evaluator.AutomorphismHoistedLazy" + pred // (the code site PartialTracesSum goes through)
		out := e.newCt(maxL)
		var rerr error
		if c.Try("C11|"+api, func() { rerr = ev.rl.PartialTracesSum(tv.ct, 1, 3, out) }) && outcome(rerr) {
			e.checkPhase(c, api, tv.ct, out, maxL, autModel(typ, rotGals(e.nth, 1, 3)...), 8*ks1, what)
		}
	}
}
