package c03

// Extension families added by the coverage audit of C03:
//
//	api    every exported entry point of encryptor.go / decryptor.go that the 'enc' family does not call
//	       (EncryptNew, EncryptZero, EncryptZeroNew, Encrypt(nil, .), NewTestEncryptorWithPRNG, Decrypt into a
//	       caller-supplied receiver, Decryptor.ShallowCopy / WithKey), receivers at another level than the
//	       plaintext, non-default plaintext metadata, Horner decryption of degree 3..9, refusal paths.
//	qp     EncryptZero into Element[ringqp.Poly] targets at (levelQ, levelP) pairs, sk and pk.
//	keys2  secret keys against the declared Xs, non-New generators into used receivers, GenGaloisKeys(New),
//	       keys between rings of different degree, ring-swap keys, degenerate / repeated masks.
//	seq    one encryptor, one decryptor and reused receivers through a random sequence of calls.
//
// plus, for every family (old and new): the parameters must carry the distributions the literal declares, and
// every RNS row of a fresh ciphertext must be masked (row-wise wrong-key distance, non-degenerate c1).

import (
	"fmt"
	"math"
	"math/big"

	"github.com/tuneinsight/lattigo/v6/core/rlwe"
	"github.com/tuneinsight/lattigo/v6/ring"
	"github.com/tuneinsight/lattigo/v6/ring/ringqp"
	"github.com/tuneinsight/lattigo/v6/utils/sampling"

	"verif/harness/eng"
	"verif/harness/gen"
	"verif/harness/obs"
	"verif/harness/ref"
)

// ---------------------------------------------------------------------------------------------
// declared distributions

// declared returns the distributions the literal of cf announces; "default" stands for the literal that leaves
// the field empty, for which the property text fixes sigma = 3.2, bound = 6 sigma and a ternary secret.
func declared(cf cfg) (xs, xe ring.DistributionParameters) {
	xs, xe = cf.xs(), cf.xe()
	if cf.Xs == "default" {
		xs = ring.Ternary{P: 2.0 / 3}
	}
	if cf.Xe == "default" {
		xe = ring.DiscreteGaussian{Sigma: 3.2, Bound: 19.2}
	}
	return
}

func sameDist(a, b ring.DistributionParameters) bool {
	switch x := a.(type) {
	case ring.DiscreteGaussian:
		y, ok := b.(ring.DiscreteGaussian)
		return ok && x.Sigma == y.Sigma && x.Bound == y.Bound
	case ring.Ternary:
		y, ok := b.(ring.Ternary)
		return ok && x.P == y.P && x.H == y.H
	}
	return false
}

// checkDeclared: the noise oracles read the distributions back from the parameters, so the parameters must
// carry exactly what the literal declared (otherwise sampler and oracle would drift together).
func checkDeclared(c *eng.Ctx, cf cfg, params rlwe.Parameters) {
	dxs, dxe := declared(cf)
	c.Count("declared_distribution_checks", 1)
	c.Check(sameDist(params.Xs(), dxs), "C03|rlwe.NewParametersFromLiteral|Xs-differs-from-literal", func() string {
		return fmt.Sprintf("literal Xs=%s (%+v) parameters Xs=%+v", cf.Xs, dxs, params.Xs())
	})
	c.Check(sameDist(params.Xe(), dxe), "C03|rlwe.NewParametersFromLiteral|Xe-differs-from-literal", func() string {
		return fmt.Sprintf("literal Xe=%s (%+v) parameters Xe=%+v", cf.Xe, dxe, params.Xe())
	})
	wantBound := 1.0
	if g, ok := dxe.(ring.DiscreteGaussian); ok {
		wantBound = g.Bound
		c.Check(params.NoiseFreshSK() == g.Sigma, "C03|Parameters.NoiseFreshSK|differs-from-declared-sigma", func() string {
			return fmt.Sprintf("NoiseFreshSK=%v declared sigma=%v", params.NoiseFreshSK(), g.Sigma)
		})
	}
	c.Check(params.NoiseBound() == wantBound, "C03|Parameters.NoiseBound|differs-from-declared-bound", func() string {
		return fmt.Sprintf("NoiseBound=%v declared=%v", params.NoiseBound(), wantBound)
	})
}

// collisionBits returns a lower bound on -log2 P(two independent samples of n coefficients of d coincide).
// "Two encryptions / two keys differ" is only demanded when this is >= 48: a fixed-weight ternary secret with
// n = H = 16 has 2^16 values, and with an auxiliary modulus the ephemeral secret is the only entropy of a
// public-key encryption (the errors vanish in the division by P).
func collisionBits(d ring.DistributionParameters, n int) float64 {
	switch x := d.(type) {
	case ring.DiscreteGaussian:
		if x.Sigma < 1 {
			return 0
		}
		return float64(n) * math.Log2(x.Sigma*math.Sqrt(2*math.Pi)) // max point mass <= 1/(sigma*sqrt(2pi))
	case ring.Ternary:
		if x.P != 0 {
			pc := (1-x.P)*(1-x.P) + x.P*x.P/2
			return -float64(n) * math.Log2(pc)
		}
		h := min(x.H, n)
		lg, _ := math.Lgamma(float64(n + 1))
		l1, _ := math.Lgamma(float64(h + 1))
		l2, _ := math.Lgamma(float64(n - h + 1))
		return (lg-l1-l2)/math.Ln2 + float64(h)
	}
	return 0
}

// reduced: every coefficient of p below its modulus.
func reduced(rq *ring.Ring, p ring.Poly) bool {
	for i := 0; i <= rq.Level(); i++ {
		q := rq.SubRings[i].Modulus
		for _, x := range p.Coeffs[i] {
			if x >= q {
				return false
			}
		}
	}
	return true
}

// ---------------------------------------------------------------------------------------------
// row-wise masking

func centredAbs(x, q uint64) uint64 {
	if x > q>>1 {
		return q - x
	}
	return x
}

// rowMax returns max_j |centred(row[j])|.
func rowMax(row []uint64, q uint64) uint64 {
	var m uint64
	for _, x := range row {
		if a := centredAbs(x, q); a > m {
			m = a
		}
	}
	return m
}

// degenerateRow: fewer than n/2 distinct values among n residues (a uniform row of n <= 2^15 residues modulo a
// prime >= 2^29 has n distinct values up to a few birthday collisions).
func degenerateRow(row []uint64) bool {
	seen := make(map[uint64]struct{}, len(row))
	for _, x := range row {
		seen[x] = struct{}{}
	}
	return len(seen) < len(row)/2
}

// checkRowsMasked judges every RNS row separately: d = Dec_{sk'}(ct) - pt (coefficient domain) must be far from
// zero in every row (a row that is not masked shows pt mod q_i, which for a small plaintext is the plaintext),
// and the mask itself must not be degenerate in any row. P(false alarm) <= (1/8)^n per row, n >= 16.
func checkRowsMasked(c *eng.Ctx, sig string, mods []uint64, d [][]uint64, mask [][]uint64) {
	for i, q := range mods {
		c.Count("row_masking_checks", 1)
		c.Check(rowMax(d[i], q) >= q>>4, sig+"|rns-row-readable-without-key", func() string {
			return fmt.Sprintf("row %d (q=%d): |Dec_sk'(ct)-pt|inf=%d < q/16", i, q, rowMax(d[i], q))
		})
		if mask != nil {
			c.Check(!degenerateRow(mask[i]), sig+"|degenerate-mask-row", func() string {
				return fmt.Sprintf("row %d (q=%d) of the mask has fewer than n/2 distinct residues", i, q)
			})
		}
	}
}

// quotientRowsSmall reports whether INTT(num/den) is small (|.|inf < q/16) in some RNS row; num and den in the
// NTT domain and non-Montgomery; ok = false when den has a zero slot. The quotient of (u*a + e) by a uniform a
// is u + e/a: small exactly when e = 0.
func quotientRowsSmall(mods []uint64, num, den [][]uint64, intt func(row int, v []uint64)) (small bool, ok bool) {
	for i, q := range mods {
		v := make([]uint64, len(num[i]))
		for j := range v {
			if den[i][j] == 0 {
				return false, false
			}
			v[j] = ref.MulMod(num[i][j], ref.InvMod(den[i][j], q), q)
		}
		intt(i, v)
		if rowMax(v, q) < q>>4 {
			small = true // a uniform row stays below q/16 with probability (1/8)^n
		}
	}
	return small, true
}

// sameErrorInBothComponents: a P-less public-key encryption (c0, c1) = (u*pk0 + e0 + m, u*pk1 + e1) whose two
// error terms are one and the same polynomial satisfies (c0 - m - c1) = u*(pk0 - pk1), i.e. the quotient by the
// public pk0 - pk1 is the small u in every RNS row. c0, c1, msg: coefficient domain, non-Montgomery.
func sameErrorInBothComponents(c *eng.Ctx, sigBase string, rq *ring.Ring, c0, c1, msg ring.Poly, pk *rlwe.PublicKey, level int) {
	num := rq.NewPoly()
	rq.Sub(c0, msg, num)
	rq.Sub(num, c1, num)
	rq.NTT(num, num)
	a0, a1 := rq.NewPoly(), rq.NewPoly()
	rq.IMForm(pk.Value[0].Q, a0)
	rq.IMForm(pk.Value[1].Q, a1)
	rq.Sub(a0, a1, a0)
	small, ok := quotientRowsSmall(rq.ModuliChain()[:level+1], num.Coeffs, a0.Coeffs, func(i int, v []uint64) { rq.SubRings[i].INTT(v, v) })
	if !ok {
		return
	}
	c.Count("component_masking_checks", 1)
	c.Check(!small, sigBase+"|same-error-in-both-components", func() string {
		return fmt.Sprintf("(c0 - m - c1)/(pk0 - pk1) is a small polynomial in an RNS row: both components carry the same error term, u and hence m + e are public (level=%d)", level)
	})
}

// ---------------------------------------------------------------------------------------------
// environment shared by the extension families

type env struct {
	cf                    cfg
	params                rlwe.Parameters
	n                     int
	B, varE, varS, cif, H float64
	hasP                  bool
	kgen                  *rlwe.KeyGenerator
	sk, sk2               *rlwe.SecretKey
	pk                    *rlwe.PublicKey
}

func newEnv(c *eng.Ctx, cf cfg) *env {
	params, err := cf.params()
	if err != nil {
		c.Violate("C03|rlwe.NewParametersFromLiteral|error-on-admissible", err.Error(), cf)
		return nil
	}
	checkDeclared(c, cf, params)
	c.Sample(cf)
	e := &env{cf: cf, params: params, n: params.N(), hasP: params.PCount() > 0}
	e.B, _ = obs.ErrBound(params)
	e.varE = varOf(params.Xe(), e.n)
	e.varS = varOf(params.Xs(), e.n)
	e.cif = ciFactor(params)
	e.H = l1s(params)
	e.kgen = rlwe.NewKeyGenerator(params)
	e.sk = e.kgen.GenSecretKeyNew()
	e.pk = e.kgen.GenPublicKeyNew(e.sk)
	for t := 0; t < 64; t++ {
		e.sk2 = e.kgen.GenSecretKeyNew()
		if !e.sk2.Equal(e.sk) {
			break
		}
	}
	return e
}

func (e *env) key(keyType string) rlwe.EncryptionKey {
	if keyType == "pk" {
		return e.pk
	}
	return e.sk
}

// ctBound: worst-case bound and nominal standard deviation of the error of a fresh *rlwe.Ciphertext (same
// formulas as the 'enc' family: the public-key path divides by P_0 only).
func (e *env) ctBound(keyType string) (bound, nominal float64) {
	switch {
	case keyType == "sk":
		return e.B, math.Sqrt(e.varE)
	case !e.hasP:
		return e.cif*e.H*e.B + e.B + e.cif*e.H*e.B, math.Sqrt(float64(e.n)*e.varS*e.varE*e.cif*2 + e.varE)
	default:
		Pf, _ := new(big.Float).SetInt(e.params.RingP().ModulusAtLevel[0]).Float64()
		bound = (e.cif*e.H*e.B+e.B+e.cif*e.H*e.B)/Pf + 1.5*(1+e.cif*e.H)
		nominal = math.Sqrt((float64(e.n)*e.varS*e.varE*e.cif*2+e.varE)/(Pf*Pf) + float64(e.n)*e.varS*e.cif/12)
		if nominal < 3 {
			nominal = 0
		}
		return
	}
}

// qpBound: the same for an Element[ringqp.Poly] target (no division by P).
func (e *env) qpBound(keyType string) (bound, nominal float64) {
	if keyType == "sk" {
		return e.B, math.Sqrt(e.varE)
	}
	return e.cif*e.H*e.B + e.B + e.cif*e.H*e.B, math.Sqrt(float64(e.n)*e.varS*e.varE*e.cif*2 + e.varE)
}

func smallVals(r *eng.Rand, n int) []int64 {
	v := make([]int64, n)
	switch r.N(4) {
	case 0: // zero plaintext
	case 1: // one-hot
		v[r.N(n)] = int64(r.N(2001) - 1000)
	default:
		for i := range v {
			v[i] = int64(r.N(2001) - 1000)
		}
	}
	return v
}

// polyOf returns the coefficient-domain polynomial with the given small signed coefficients at the level of rq.
func polyOf(vals []int64, rq *ring.Ring) ring.Poly {
	p := rq.NewPoly()
	for i := 0; i <= rq.Level(); i++ {
		q := rq.SubRings[i].Modulus
		for j, v := range vals {
			if v >= 0 {
				p.Coeffs[i][j] = uint64(v) % q
			} else {
				p.Coeffs[i][j] = q - uint64(-v)%q
			}
		}
	}
	return p
}

func randMeta(r *eng.Rand, isNTT, isMont bool) rlwe.MetaData {
	var m rlwe.MetaData
	switch r.N(3) {
	case 0:
		m.Scale = rlwe.NewScale(math.Exp2(float64(r.N(60))))
	case 1:
		m.Scale = rlwe.NewScale(1 + float64(r.N(1<<30))/7)
	default:
		m.Scale = rlwe.NewScaleModT(uint64(2+r.N(65000)), 65537)
	}
	m.LogDimensions = ring.Dimensions{Rows: r.N(3), Cols: r.N(12)}
	m.IsBatched = r.Bool()
	m.IsBitReversed = r.Bool()
	m.IsNTT, m.IsMontgomery = isNTT, isMont
	return m
}

func (e *env) mkPt(level int, vals []int64, meta rlwe.MetaData) *rlwe.Plaintext {
	rq := e.params.RingQ().AtLevel(level)
	val := polyOf(vals, rq)
	if meta.IsMontgomery {
		rq.MForm(val, val)
	}
	if meta.IsNTT {
		rq.NTT(val, val)
	}
	pt := rlwe.NewPlaintext(e.params, level)
	copy2(pt.Value, val, level)
	*pt.MetaData = meta
	return pt
}

func garbage(r *eng.Rand, rq *ring.Ring, p ring.Poly) {
	for i := 0; i <= rq.Level() && i < len(p.Coeffs); i++ {
		copy(p.Coeffs[i], gen.Vec(r, rq.N(), rq.SubRings[i].Modulus-1, gen.PatUniform, 0))
	}
}

func (e *env) usedCt(r *eng.Rand, degree, level int) *rlwe.Ciphertext {
	ct := rlwe.NewCiphertext(e.params, degree, level)
	rq := e.params.RingQ().AtLevel(level)
	for k := range ct.Value {
		garbage(r, rq, ct.Value[k])
	}
	ct.IsNTT, ct.IsMontgomery = r.Bool(), r.Bool()
	return ct
}

// judgeCt measures the exact error of ct against the message vals under e.sk and checks the worst-case bound;
// it returns the error vector (nil when the bound is exceeded).
func (e *env) judgeCt(c *eng.Ctx, sigBase, keyType string, ct *rlwe.Ciphertext, vals []int64) []*big.Int {
	rq := e.params.RingQ().AtLevel(ct.Level())
	ev := obs.Diff(rq, obs.Phase(e.params, ct.El(), e.sk), polyOf(vals, rq))
	st := obs.Stat(ev)
	c.Count("noise_measurements", 1)
	c.Max("max_noise_log2_x100", int64(100*st.MaxLog2))
	bound, _ := e.ctBound(keyType)
	maxf, _ := new(big.Float).SetInt(st.Max).Float64()
	if !c.Check(maxf <= bound, sigBase+"|noise-above-worst-case-bound", func() string {
		return fmt.Sprintf("level=%d degree=%d ntt=%v mont=%v |e|inf=2^%.1f bound=%.1f Xs=%s Xe=%s", ct.Level(), ct.Degree(), ct.IsNTT, ct.IsMontgomery, st.MaxLog2, bound, e.cf.Xs, e.cf.Xe)
	}) {
		return nil
	}
	return ev
}

// maskedCt: wrong-key distance of a degree>=1 ciphertext, globally and row by row.
func (e *env) maskedCt(c *eng.Ctx, sigBase, keyType string, ct *rlwe.Ciphertext, vals []int64) {
	if keyType != "sk" && zeroBits(e.params.Xs(), e.n) < 64 {
		return // u = 0 is a legitimate (if toy-sized) outcome
	}
	level := ct.Level()
	rq := e.params.RingQ().AtLevel(level)
	d := rq.NewPoly()
	rq.Sub(obs.Phase(e.params, ct.El(), e.sk2), polyOf(vals, rq), d)
	st := obs.Stat(obs.Centered(rq, d))
	eighth := new(big.Int).Rsh(rq.ModulusAtLevel[level], 3)
	c.Check(st.Max.Cmp(eighth) >= 0, sigBase+"|readable-without-key", func() string {
		return fmt.Sprintf("|Dec_sk'(ct)-pt|inf=2^%.1f < Q/8", st.MaxLog2)
	})
	checkRowsMasked(c, sigBase, rq.ModuliChain()[:level+1], d.Coeffs, ct.Value[1].Coeffs)
}

func eqPoly(a, b ring.Poly, level int) bool {
	for i := 0; i <= level; i++ {
		for j := range a.Coeffs[i] {
			if a.Coeffs[i][j] != b.Coeffs[i][j] {
				return false
			}
		}
	}
	return true
}

func pickLevel(r *eng.Rand, trial, max int) int {
	switch trial {
	case 0:
		return max
	case 1:
		return 0
	}
	return r.N(max + 1)
}

// ---------------------------------------------------------------------------------------------
// family "api"

func runAPI(c *eng.Ctx, cf cfg) {
	e := newEnv(c, cf)
	if e == nil {
		return
	}
	rnd := c.Rand()
	params := e.params
	L := params.MaxLevel()
	dec := rlwe.NewDecryptor(params, e.sk)
	dec2 := rlwe.NewDecryptor(params, e.sk2)
	pools := map[string]*pool{}
	addPool := func(keyType string, ev []*big.Int) {
		if ev == nil {
			return
		}
		_, nominal := e.ctBound(keyType)
		if pools[keyType] == nil {
			pools[keyType] = &pool{nominal: nominal}
		}
		pools[keyType].add(ev)
	}
	dkey := func(what string, a ...any) {
		c.Distinct(fmt.Sprintf("api/%s/%s/%d/%v/%v/%s/%s/%s", cf.Ring, what, cf.LogN, cf.QBits, cf.PBits, cf.Xs, cf.Xe, fmt.Sprint(a...)), true)
	}

	for _, keyType := range []string{"sk", "pk"} {
		enc := rlwe.NewEncryptor(params, e.key(keyType))
		for trial := 0; trial < 3; trial++ {
			level := pickLevel(rnd, trial, L)
			isNTT, isMont := rnd.Bool(), rnd.Bool()
			if trial == 0 {
				isNTT, isMont = true, false
			}
			meta := randMeta(rnd, isNTT, isMont)
			vals := smallVals(rnd, e.n)
			pt := e.mkPt(level, vals, meta)
			ptCopy := pt.CopyNew()
			flags := fmt.Sprintf("%s|ntt=%v|mont=%v|P=%v", keyType, isNTT, isMont, e.hasP)

			// ---- EncryptNew
			sig := "C03|Encryptor.EncryptNew|" + flags
			var ct *rlwe.Ciphertext
			var err error
			dkey("EncryptNew", keyType, level, isNTT, isMont)
			if c.Try(sig, func() { ct, err = enc.EncryptNew(pt) }) {
				c.Count("api_entry_point_calls", 1)
				if err != nil {
					c.Violate(sig+"|error-on-admissible", err.Error(), cf)
				} else {
					c.Check(ct.Degree() == 1 && ct.Level() == level, sig+"|shape", func() string {
						return fmt.Sprintf("degree=%d level=%d want 1/%d", ct.Degree(), ct.Level(), level)
					})
					c.Check(ct.MetaData.Equal(&meta), sig+"|ciphertext-metadata", func() string {
						return fmt.Sprintf("ct=%+v pt=%+v", *ct.MetaData, meta)
					})
					c.Check(pt.Equal(ptCopy), sig+"|plaintext-modified", nil)
					if ct.Level() == level && ct.Degree() == 1 {
						addPool(keyType, e.judgeCt(c, sig, keyType, ct, vals))
						e.maskedCt(c, sig, keyType, ct, vals)
					}
				}
			}

			// ---- Encrypt into a receiver at another level (larger than needed / smaller than the plaintext)
			if L >= 1 {
				lct := rnd.N(L + 1)
				for lct == level {
					lct = rnd.N(L + 1)
				}
				rel := "receiver-above-plaintext"
				if lct < level {
					rel = "receiver-below-plaintext"
				}
				degree := 1 + rnd.N(2)
				sig := fmt.Sprintf("C03|Encryptor.Encrypt|%s|deg%d|ntt=%v|mont=%v|P=%v|%s", keyType, degree, isNTT, isMont, e.hasP, rel)
				rct := rlwe.NewCiphertext(params, degree, lct)
				if rnd.Bool() {
					rct = e.usedCt(rnd, degree, lct)
				}
				var err error
				dkey("Encrypt-level-mismatch", keyType, level, lct, degree, isNTT, isMont)
				if c.Try(sig, func() { err = enc.Encrypt(pt, rct) }) {
					c.Count("level_mismatch_encryptions", 1)
					want := min(level, lct)
					if err != nil {
						c.Violate(sig+"|error-on-admissible", err.Error(), cf)
					} else if c.Check(rct.Level() == want && rct.Degree() == degree, sig+"|shape", func() string {
						return fmt.Sprintf("ciphertext level=%d degree=%d want level min(%d,%d) degree %d", rct.Level(), rct.Degree(), level, lct, degree)
					}) {
						c.Check(rct.MetaData.Equal(&meta), sig+"|ciphertext-metadata", nil)
						c.Check(pt.Equal(ptCopy), sig+"|plaintext-modified", nil)
						e.judgeCt(c, sig, keyType, rct, vals)
						e.maskedCt(c, sig, keyType, rct, vals)
					}
				}
			}

			// ---- EncryptZero / Encrypt(nil, .) on a caller-prepared receiver: the metadata of the receiver rule
			zero := make([]int64, e.n)
			for _, how := range []string{"EncryptZero", "Encrypt(nil)"} {
				degree := 1 + rnd.N(2)
				zct := rlwe.NewCiphertext(params, degree, level)
				if rnd.Bool() {
					zct = e.usedCt(rnd, degree, level)
				}
				zmeta := randMeta(rnd, rnd.Bool(), rnd.Bool())
				*zct.MetaData = zmeta
				sig := fmt.Sprintf("C03|Encryptor.%s|%s|deg%d|ntt=%v|mont=%v|P=%v", how, keyType, degree, zmeta.IsNTT, zmeta.IsMontgomery, e.hasP)
				var err error
				dkey(how, keyType, level, degree, zmeta.IsNTT, zmeta.IsMontgomery)
				if !c.Try(sig, func() {
					if how == "EncryptZero" {
						err = enc.EncryptZero(zct)
					} else {
						err = enc.Encrypt(nil, zct)
					}
				}) {
					continue
				}
				c.Count("api_entry_point_calls", 1)
				if err != nil {
					c.Violate(sig+"|error-on-admissible", err.Error(), cf)
					continue
				}
				c.Check(zct.MetaData.Equal(&zmeta), sig+"|receiver-metadata-changed", func() string {
					return fmt.Sprintf("after=%+v before=%+v", *zct.MetaData, zmeta)
				})
				if c.Check(zct.Level() == level && zct.Degree() == degree, sig+"|shape", nil) {
					addPool(keyType, e.judgeCt(c, sig, keyType, zct, zero))
					e.maskedCt(c, sig, keyType, zct, zero)
				}
			}

			// ---- EncryptZeroNew
			{
				sig := fmt.Sprintf("C03|Encryptor.EncryptZeroNew|%s|P=%v", keyType, e.hasP)
				var z1, z2 *rlwe.Ciphertext
				dkey("EncryptZeroNew", keyType, level)
				if c.Try(sig, func() { z1 = enc.EncryptZeroNew(level); z2 = enc.EncryptZeroNew(level) }) {
					c.Count("api_entry_point_calls", 1)
					if c.Check(z1.Level() == level && z1.Degree() == 1, sig+"|shape", nil) {
						c.Check(z1.IsNTT == params.NTTFlag() && !z1.IsMontgomery, sig+"|ciphertext-metadata", nil)
						addPool(keyType, e.judgeCt(c, sig, keyType, z1, zero))
						e.maskedCt(c, sig, keyType, z1, zero)
						if keyType == "sk" || collisionBits(params.Xs(), e.n) >= 48 {
							c.Check(!z1.Equal(z2), sig+"|same-ciphertext-twice", nil)
							c.Check(!z1.Value[1].Equal(&z2.Value[1]), sig+"|same-mask-twice", nil)
						}
					}
				}
			}

			// ---- Decrypt into a caller-supplied receiver; derived decryptors
			if ct != nil && err == nil && ct.Level() == level && ct.Degree() == 1 {
				e.decryptVariants(c, rnd, dec, dec2, ct, dkey)
				e.hornerDegrees(c, rnd, dec, ct, trial, dkey)
			}
		}

		// ---- NewTestEncryptorWithPRNG
		{
			sig := fmt.Sprintf("C03|NewTestEncryptorWithPRNG|%s|P=%v", keyType, e.hasP)
			seedA, seedB := make([]byte, 32), make([]byte, 32)
			rnd.Read(seedA)
			rnd.Read(seedB)
			pa, _ := sampling.NewKeyedPRNG(seedA)
			pb, _ := sampling.NewKeyedPRNG(seedB)
			level := rnd.N(L + 1)
			vals := smallVals(rnd, e.n)
			meta := randMeta(rnd, rnd.Bool(), rnd.Bool())
			pt := e.mkPt(level, vals, meta)
			var a1, a2, b1 *rlwe.Ciphertext
			var e1, e2, e3 error
			dkey("NewTestEncryptorWithPRNG", keyType, level, meta.IsNTT, meta.IsMontgomery)
			if c.Try(sig, func() {
				ea := rlwe.NewTestEncryptorWithPRNG(params, e.key(keyType), pa)
				eb := rlwe.NewTestEncryptorWithPRNG(params, e.key(keyType), pb)
				a1, e1 = ea.EncryptNew(pt)
				a2, e2 = ea.EncryptNew(pt)
				b1, e3 = eb.EncryptNew(pt)
			}) {
				c.Count("api_entry_point_calls", 1)
				if e1 != nil || e2 != nil || e3 != nil {
					c.Violate(sig+"|error-on-admissible", fmt.Sprint(e1, e2, e3), cf)
				} else {
					for _, x := range []*rlwe.Ciphertext{a1, a2, b1} {
						c.Check(x.MetaData.Equal(&meta), sig+"|ciphertext-metadata", nil)
						addPool(keyType, e.judgeCt(c, sig, keyType, x, vals))
						e.maskedCt(c, sig, keyType, x, vals)
					}
					if keyType == "sk" || collisionBits(params.Xs(), e.n) >= 48 {
						c.Check(!a1.Equal(a2), sig+"|same-ciphertext-twice", nil)
						c.Check(!a1.Equal(b1), sig+"|same-ciphertext-for-two-seeds", nil)
					}
				}
			}
		}

		// ---- refusal paths: an error, never a panic, and the plaintext stays intact
		{
			level := rnd.N(L + 1)
			meta := randMeta(rnd, rnd.Bool(), rnd.Bool())
			pt := e.mkPt(level, smallVals(rnd, e.n), meta)
			ptCopy := pt.CopyNew()
			keyless := rlwe.NewEncryptor(params, nil)
			refuse := func(sig string, f func() error) {
				var err error
				c.Count("refusals_checked", 1)
				if c.Try(sig, func() { err = f() }) {
					c.Check(err != nil, sig+"|not-refused", nil)
				}
				c.Check(pt.Equal(ptCopy), sig+"|plaintext-modified", nil)
			}
			if keyType == "sk" { // independent of the key type
				refuse("C03|Encryptor.Encrypt|no-key", func() error { return keyless.Encrypt(pt, rlwe.NewCiphertext(params, 1, level)) })
				refuse("C03|Encryptor.EncryptZero|no-key", func() error { return keyless.EncryptZero(rlwe.NewCiphertext(params, 1, level)) })
				refuse("C03|Encryptor.EncryptNew|no-key", func() error { _, err := keyless.EncryptNew(pt); return err })
				refuse("C03|Encryptor.Encrypt|no-key|KeyGenerator", func() error { return e.kgen.Encrypt(pt, rlwe.NewCiphertext(params, 1, level)) })
			}
			refuse("C03|Encryptor.Encrypt|"+keyType+"|unsupported-receiver", func() error { return enc.Encrypt(pt, rlwe.NewPlaintext(params, level)) })
			refuse("C03|Encryptor.Encrypt|"+keyType+"|unsupported-receiver", func() error { return enc.Encrypt(pt, nil) })
			refuse("C03|Encryptor.EncryptZero|"+keyType+"|unsupported-receiver", func() error { return enc.EncryptZero(rlwe.NewPlaintext(params, level)) })
			refuse("C03|Encryptor.EncryptZero|"+keyType+"|unsupported-receiver", func() error { return enc.EncryptZero(42) })
			if keyType == "pk" {
				// a public-key encryption cannot drop c1: a degree-0 target must be refused, not crash
				sig := "C03|Encryptor.EncryptZero|pk|deg0"
				c.Count("refusals_checked", 1)
				c.Try(sig, func() { _ = enc.EncryptZero(rlwe.NewCiphertext(params, 0, level)) })
			}
		}
	}
	for k, p := range pools {
		checkPool(c, "Encryptor.Encrypt*|api|"+k+"/"+fmt.Sprint(e.hasP), p)
	}
}

// decryptVariants: Decrypt into a supplied plaintext (used, other level), ShallowCopy and WithKey decryptors.
func (e *env) decryptVariants(c *eng.Ctx, rnd *eng.Rand, dec, dec2 *rlwe.Decryptor, ct *rlwe.Ciphertext, dkey func(string, ...any)) {
	params := e.params
	L := params.MaxLevel()
	level := ct.Level()
	ctCopy := ct.CopyNew()
	for _, rel := range []string{"same", "higher", "lower"} {
		lpt := level
		switch rel {
		case "higher":
			if level == L {
				continue
			}
			lpt = level + 1 + rnd.N(L-level)
		case "lower":
			if level == 0 {
				continue
			}
			lpt = rnd.N(level)
		}
		sig := "C03|Decryptor.Decrypt|receiver-level-" + rel
		out := rlwe.NewPlaintext(params, lpt)
		garbage(rnd, params.RingQ().AtLevel(lpt), out.Value)
		*out.MetaData = randMeta(rnd, rnd.Bool(), rnd.Bool())
		dkey("Decrypt", rel, level, lpt, ct.IsNTT, ct.IsMontgomery)
		if !c.Try(sig, func() { dec.Decrypt(ct, out) }) {
			continue
		}
		c.Count("decryptions_into_receiver", 1)
		want := min(level, lpt)
		c.Check(ct.Equal(ctCopy), sig+"|ciphertext-modified", nil)
		c.Check(out.MetaData.Equal(ct.MetaData), sig+"|metadata", func() string {
			return fmt.Sprintf("got=%+v want=%+v", *out.MetaData, *ct.MetaData)
		})
		if !c.Check(out.Level() == want, sig+"|level", func() string {
			return fmt.Sprintf("plaintext level=%d want min(%d,%d)", out.Level(), level, lpt)
		}) {
			continue
		}
		rq := params.RingQ().AtLevel(want)
		ctT := ct.CopyNew()
		ctT.Resize(ct.Degree(), want)
		ph := obs.Phase(params, ctT.El(), e.sk)
		c.Check(eqPoly(obs.Plain(rq, out.Value, out.IsNTT, out.IsMontgomery), ph, want), sig+"|differs-from-c0+c1s", nil)
		c.Check(reduced(rq, out.Value), sig+"|unreduced-output", nil)
	}
	ref := dec.DecryptNew(ct)
	far := dec2.DecryptNew(ct)
	var a, b *rlwe.Plaintext
	if c.Try("C03|Decryptor.ShallowCopy", func() { a = dec.ShallowCopy().DecryptNew(ct) }) {
		c.Count("derived_decryptors", 1)
		c.Check(a.Equal(ref), "C03|Decryptor.ShallowCopy|differs-from-parent", nil)
	}
	if c.Try("C03|Decryptor.WithKey", func() { b = dec2.WithKey(e.sk).DecryptNew(ct) }) {
		c.Count("derived_decryptors", 1)
		c.Check(b.Equal(ref), "C03|Decryptor.WithKey|differs-from-fresh-decryptor", nil)
		c.Check(dec2.DecryptNew(ct).Equal(far), "C03|Decryptor.WithKey|original-decryptor-rebound", nil)
	}
	c.Check(ct.Equal(ctCopy), "C03|Decryptor.DecryptNew|ciphertext-modified", nil)
}

// hornerDegrees: Decrypt evaluates sum_i c_i s^i for every degree; degrees 7.. reach the periodic reduction.
func (e *env) hornerDegrees(c *eng.Ctx, rnd *eng.Rand, dec *rlwe.Decryptor, fresh *rlwe.Ciphertext, trial int, dkey func(string, ...any)) {
	params := e.params
	level := fresh.Level()
	rq := params.RingQ().AtLevel(level)
	d := 3 + rnd.N(7)
	switch trial {
	case 0:
		d = 7
	case 1:
		d = 8 + rnd.N(9) // 8..16 (15 hits the second periodic reduction)
	}
	// every component uniform, flags of its own: the oracle is the exact Horner sum, not a noise bound
	ct := rlwe.NewCiphertext(params, d, level)
	*ct.MetaData = randMeta(rnd, rnd.Bool(), rnd.Bool())
	for k := 0; k <= d; k++ {
		garbage(rnd, rq, ct.Value[k])
	}
	ctCopy := ct.CopyNew()
	sig := "C03|Decryptor.Decrypt|deg>=3"
	if d&7 == 7 && !ct.IsNTT {
		sig += "|deg&7=7|ntt=false" // the last periodic reduction falls on the first Horner step: own class
	}
	var got *rlwe.Plaintext
	dkey("Decrypt-horner", d, level, ct.IsNTT, ct.IsMontgomery)
	if !c.Try(sig, func() { got = dec.DecryptNew(ct) }) {
		return
	}
	c.Count("high_degree_decryptions", 1)
	c.Max("max_degree_decrypted", int64(d))
	c.Check(ct.Equal(ctCopy), sig+"|ciphertext-modified", nil)
	c.Check(got.MetaData.Equal(ct.MetaData), sig+"|metadata", nil)
	ph := obs.Phase(params, ct.El(), e.sk)
	c.Check(reduced(rq, got.Value), sig+"|unreduced-output", func() string {
		return fmt.Sprintf("degree=%d level=%d ntt=%v mont=%v", d, level, ct.IsNTT, ct.IsMontgomery)
	})
	c.Check(eqPoly(obs.Plain(rq, got.Value, got.IsNTT, got.IsMontgomery), ph, level), sig+"|differs-from-horner-sum", func() string {
		return fmt.Sprintf("degree=%d level=%d ntt=%v mont=%v", d, level, ct.IsNTT, ct.IsMontgomery)
	})
}

// ---------------------------------------------------------------------------------------------
// family "qp": EncryptZero into Element[ringqp.Poly]

// phaseQP returns the centred coefficients of c0 + c1*s over Q_lq * P_lp (flags interpreted semantically).
func phaseQP(params rlwe.Parameters, el *rlwe.Element[ringqp.Poly], sk *rlwe.SecretKey, lq, lp int) ([]*big.Int, ringqp.Poly) {
	r := params.RingQP().AtLevel(lq, lp)
	c0, c1 := *el.Value[0].CopyNew(), *el.Value[1].CopyNew()
	if !el.IsNTT {
		r.NTT(c0, c0)
		r.NTT(c1, c1)
	}
	ph := r.NewPoly()
	r.MulCoeffsMontgomery(c1, sk.Value, ph)
	r.Add(ph, c0, ph)
	r.INTT(ph, ph)
	if el.IsMontgomery {
		r.IMForm(ph, ph)
	}
	return centredQP(params, ph, lq, lp), ph
}

func qpRows(params rlwe.Parameters, p ringqp.Poly, lq, lp int) (mods []uint64, rows [][]uint64) {
	for i := 0; i <= lq; i++ {
		mods = append(mods, params.Q()[i])
		rows = append(rows, p.Q.Coeffs[i])
	}
	for i := 0; i <= lp; i++ {
		mods = append(mods, params.P()[i])
		rows = append(rows, p.P.Coeffs[i])
	}
	return
}

func garbageQP(r *eng.Rand, params rlwe.Parameters, p ringqp.Poly, lq, lp int) {
	for i := 0; i <= lq; i++ {
		copy(p.Q.Coeffs[i], gen.Vec(r, params.N(), params.Q()[i]-1, gen.PatUniform, 0))
	}
	for i := 0; i <= lp; i++ {
		copy(p.P.Coeffs[i], gen.Vec(r, params.N(), params.P()[i]-1, gen.PatUniform, 0))
	}
}

// judgeQP runs one EncryptZero into an Element[ringqp.Poly] and judges it. Returns the error vector or nil.
func (e *env) judgeQP(c *eng.Ctx, rnd *eng.Rand, enc *rlwe.Encryptor, keyType string, lq, lp int, isNTT, isMont bool) []*big.Int {
	params := e.params
	el := rlwe.NewElementExtended(params, 1, lq, lp)
	if rnd.N(3) == 0 {
		garbageQP(rnd, params, el.Value[0], lq, lp)
		garbageQP(rnd, params, el.Value[1], lq, lp)
		c.Count("encryptions_into_used_receiver", 1)
	}
	meta := randMeta(rnd, isNTT, isMont)
	*el.MetaData = meta
	sig := fmt.Sprintf("C03|Encryptor.EncryptZero|Element[ringqp.Poly]|%s|ntt=%v|mont=%v", keyType, isNTT, isMont)
	if keyType == "pk" && lp == -1 {
		// no in-tree caller (rgsw goes through the *Ciphertext path at LevelP = -1); own class
		sig = "C03|Encryptor.EncryptZero|Element[ringqp.Poly]|pk|levelP=-1"
	}
	var err error
	if !c.Try(sig, func() { err = enc.EncryptZero(*el) }) {
		return nil
	}
	c.Count("qp_target_encryptions", 1)
	if err != nil {
		if keyType == "pk" && lp == -1 {
			return nil // a refusal is a fine answer there
		}
		c.Violate(sig+"|error-on-admissible", err.Error(), e.cf)
		return nil
	}
	c.Check(el.MetaData.Equal(&meta), sig+"|receiver-metadata-changed", nil)
	if !c.Check(el.LevelQ() == lq && el.LevelP() == lp && el.Degree() == 1, sig+"|shape", nil) {
		return nil
	}
	ev, _ := phaseQP(params, el, e.sk, lq, lp)
	st := obs.Stat(ev)
	c.Count("noise_measurements", 1)
	bound, _ := e.qpBound(keyType)
	maxf, _ := new(big.Float).SetInt(st.Max).Float64()
	if !c.Check(maxf <= bound, sig+"|noise-above-worst-case-bound", func() string {
		return fmt.Sprintf("levelQ=%d levelP=%d |e|inf=2^%.1f bound=%.1f Xs=%s Xe=%s", lq, lp, st.MaxLog2, bound, e.cf.Xs, e.cf.Xe)
	}) {
		return nil
	}
	// every component of a public-key encryption carries an error term, and not the same one
	if keyType == "pk" && (math.Sqrt(e.varE) >= 3 || e.n >= 256) {
		r := params.RingQP().AtLevel(lq, lp)
		plainNTT := func(p ringqp.Poly) ringqp.Poly {
			o := *p.CopyNew()
			if !el.IsNTT {
				r.NTT(o, o)
			}
			if el.IsMontgomery {
				r.IMForm(o, o)
			}
			return o
		}
		c0, c1 := plainNTT(el.Value[0]), plainNTT(el.Value[1])
		a0, a1 := r.NewPoly(), r.NewPoly()
		r.IMForm(e.pk.Value[0], a0)
		r.IMForm(e.pk.Value[1], a1)
		dn, dd := r.NewPoly(), r.NewPoly()
		r.Sub(c0, c1, dn)
		r.Sub(a0, a1, dd)
		intt := func(i int, v []uint64) {
			if i <= lq {
				params.RingQ().SubRings[i].INTT(v, v)
			} else {
				params.RingP().SubRings[i-lq-1].INTT(v, v)
			}
		}
		for _, t := range []struct {
			num, den ringqp.Poly
			class    string
		}{{c0, a0, "component-without-error|c0"}, {c1, a1, "component-without-error|c1"}, {dn, dd, "same-error-in-both-components"}} {
			mods, nrows := qpRows(params, t.num, lq, lp)
			_, drows := qpRows(params, t.den, lq, lp)
			small, ok := quotientRowsSmall(mods, nrows, drows, intt)
			if !ok {
				continue
			}
			c.Count("component_masking_checks", 1)
			c.Check(!small, sig+"|"+t.class, func() string {
				return fmt.Sprintf("levelQ=%d levelP=%d: the quotient by the public key component is a small polynomial in an RNS row (it is the ephemeral secret u)", lq, lp)
			})
		}
	}
	// wrong key, globally and per row; mask rows
	if keyType == "sk" || zeroBits(params.Xs(), e.n) >= 64 {
		wv, wp := phaseQP(params, el, e.sk2, lq, lp)
		ws := obs.Stat(wv)
		M := new(big.Int).Set(params.RingQ().ModulusAtLevel[lq])
		if lp >= 0 {
			M.Mul(M, params.RingP().ModulusAtLevel[lp])
		}
		c.Check(ws.Max.Cmp(M.Rsh(M, 3)) >= 0, sig+"|readable-without-key", func() string {
			return fmt.Sprintf("|c0+c1*s'|inf=2^%.1f < QP/8", ws.MaxLog2)
		})
		mods, rows := qpRows(params, wp, lq, lp)
		_, mrows := qpRows(params, el.Value[1], lq, lp)
		checkRowsMasked(c, sig, mods, rows, mrows)
	}
	return ev
}

func runQP(c *eng.Ctx, cf cfg) {
	e := newEnv(c, cf)
	if e == nil {
		return
	}
	rnd := c.Rand()
	params := e.params
	lqMax, lpMax := params.MaxLevelQ(), params.MaxLevelP()
	for _, keyType := range []string{"sk", "pk"} {
		enc := rlwe.NewEncryptor(params, e.key(keyType))
		_, nominal := e.qpBound(keyType)
		pl := &pool{nominal: nominal}
		var last []*big.Int
		for trial := 0; trial < 10; trial++ {
			lq := pickLevel(rnd, trial, lqMax)
			lp := lpMax
			switch {
			case trial == 2 || lpMax < 0:
				lp = -1
			case trial >= 3:
				lp = rnd.N(lpMax+2) - 1
			}
			// in-tree callers use NTT + Montgomery; the other combinations are judged by the same semantic reading
			isNTT, isMont := true, true
			if trial >= 4 {
				isNTT, isMont = rnd.Bool(), rnd.Bool()
			}
			if keyType == "pk" && lp == -1 && trial != 2 {
				continue // that class is probed once per case
			}
			c.Distinct(fmt.Sprintf("qp/%s/%d/%v/%v/%s/%s/%s/%d/%d/%v/%v", cf.Ring, cf.LogN, cf.QBits, cf.PBits, cf.Xs, cf.Xe, keyType, lq, lp, isNTT, isMont), true)
			ev := e.judgeQP(c, rnd, enc, keyType, lq, lp, isNTT, isMont)
			if ev == nil {
				continue
			}
			pl.add(ev)
			if last != nil && len(last) == len(ev) && nominal >= 3 {
				c.Check(!eqBig(last, ev), "C03|Encryptor.EncryptZero|Element[ringqp.Poly]|"+keyType+"|same-error-twice", nil)
			}
			last = ev
		}
		checkPool(c, "Encryptor.EncryptZero|Element[ringqp.Poly]|"+keyType, pl)
	}
}

// ---------------------------------------------------------------------------------------------
// family "seq": history on one encryptor / decryptor / receiver

func runSeq(c *eng.Ctx, cf cfg) {
	e := newEnv(c, cf)
	if e == nil {
		return
	}
	rnd := c.Rand()
	params := e.params
	L := params.MaxLevel()
	lpMax := params.MaxLevelP()
	dec := rlwe.NewDecryptor(params, e.sk)
	out := rlwe.NewPlaintext(params, L)
	steps := 24
	for _, keyType := range []string{"sk", "pk"} {
		other := "pk"
		if keyType == "pk" {
			other = "sk"
		}
		parent := rlwe.NewEncryptor(params, e.key(keyType))
		recv := map[int]*rlwe.Ciphertext{}
		for step := 0; step < steps; step++ {
			c.Count("history_steps", 1)
			enc, kt := parent, keyType
			how := "parent"
			switch rnd.N(6) {
			case 0: // a derived encryptor shares buffers and samplers with its parent; used in between
				enc, kt, how = parent.WithKey(e.key(other)), other, "withkey"
			case 1:
				seed := make([]byte, 32)
				rnd.Read(seed)
				prng, _ := sampling.NewKeyedPRNG(seed)
				enc, how = parent.WithPRNG(prng), "withprng"
			case 2:
				enc, how = parent.ShallowCopy(), "shallowcopy"
			}
			level := rnd.N(L + 1)
			isNTT, isMont := rnd.Bool(), rnd.Bool()
			op := rnd.N(4)
			c.Distinct(fmt.Sprintf("seq/%s/%d/%v/%v/%s/%s/%s/%s/%d/%d/%v/%v", cf.Ring, cf.LogN, cf.QBits, cf.PBits, cf.Xs, cf.Xe, kt, how, op, level, isNTT, isMont), true)
			if op == 3 {
				lp := lpMax
				if lpMax >= 0 {
					lp = rnd.N(lpMax + 1)
				}
				if kt == "pk" && lp < 0 {
					continue
				}
				if kt == "sk" {
					isMont = true // the secret-key path of this target type is only used with Montgomery set
				}
				e.judgeQP(c, rnd, enc, kt, level, lp, isNTT, isMont)
				continue
			}
			degree := 1 + rnd.N(2)
			ct := recv[degree]
			if ct == nil || ct.Level() < level || rnd.N(6) == 0 {
				ct = rlwe.NewCiphertext(params, degree, L)
				recv[degree] = ct
			}
			sig := fmt.Sprintf("C03|Encryptor.Encrypt|%s|deg%d|ntt=%v|mont=%v|P=%v|history", kt, degree, isNTT, isMont, e.hasP)
			vals := make([]int64, e.n)
			meta := randMeta(rnd, isNTT, isMont)
			var err error
			ok := false
			if op == 0 {
				ct.Resize(degree, level)
				*ct.MetaData = meta
				ok = c.Try(sig, func() { err = enc.EncryptZero(ct) })
			} else {
				vals = smallVals(rnd, e.n)
				pt := e.mkPt(level, vals, meta)
				ok = c.Try(sig, func() { err = enc.Encrypt(pt, ct) })
			}
			if !ok {
				continue
			}
			if err != nil {
				c.Violate(sig+"|error-on-admissible", err.Error(), cf)
				continue
			}
			c.Check(ct.MetaData.Equal(&meta), sig+"|ciphertext-metadata", nil)
			if !c.Check(ct.Level() == level && ct.Degree() == degree, sig+"|shape", nil) {
				delete(recv, degree)
				continue
			}
			if e.judgeCt(c, sig, kt, ct, vals) == nil {
				continue
			}
			e.maskedCt(c, sig, kt, ct, vals)
			// one decryptor and one output plaintext for the whole history
			if c.Try("C03|Decryptor.Decrypt|history", func() { dec.Decrypt(ct, out) }) {
				want := min(level, out.Level())
				rq := params.RingQ().AtLevel(want)
				ctT := ct
				if want != level {
					ctT = ct.CopyNew()
					ctT.Resize(degree, want)
				}
				c.Check(out.Level() == want && out.MetaData.Equal(ct.MetaData), "C03|Decryptor.Decrypt|history|metadata", nil)
				if out.Level() == want {
					c.Check(eqPoly(obs.Plain(rq, out.Value, out.IsNTT, out.IsMontgomery), obs.Phase(params, ctT.El(), e.sk), want), "C03|Decryptor.Decrypt|history|differs-from-c0+c1s", nil)
				}
				if out.Level() < L && rnd.N(4) == 0 {
					out = rlwe.NewPlaintext(params, L)
				}
			}
		}
	}
}

// ---------------------------------------------------------------------------------------------
// family "keys2"

// decodeSk returns the centred integer coefficients of a secret key over all of QP (keys are NTT + Montgomery).
func decodeSk(params rlwe.Parameters, sk *rlwe.SecretKey) []*big.Int {
	r := params.RingQP()
	p := *sk.Value.CopyNew()
	r.INTT(p, p)
	r.IMForm(p, p)
	return centredQP(params, p, params.MaxLevelQ(), params.MaxLevelP())
}

// inDist checks a decoded secret against a declared distribution: support, and weight when it is fixed.
func inDist(v []*big.Int, d ring.DistributionParameters) (bool, string) {
	n := len(v)
	nz := 0
	for _, x := range v {
		if x.Sign() != 0 {
			nz++
		}
	}
	switch t := d.(type) {
	case ring.Ternary:
		for j, x := range v {
			if !x.IsInt64() || x.Int64() < -1 || x.Int64() > 1 {
				return false, fmt.Sprintf("coefficient %d = %s is not ternary (or the Q and P rows disagree)", j, x.String())
			}
		}
		if t.P == 0 && nz != min(t.H, n) {
			return false, fmt.Sprintf("Hamming weight %d, declared %d", nz, min(t.H, n))
		}
	case ring.DiscreteGaussian:
		b := int64(math.Floor(t.Bound + 0.5))
		for j, x := range v {
			if !x.IsInt64() || x.Int64() < -b || x.Int64() > b {
				return false, fmt.Sprintf("coefficient %d = %s exceeds the declared bound %d (or the Q and P rows disagree)", j, x.String(), b)
			}
		}
	}
	return true, ""
}

func garbageSk(r *eng.Rand, params rlwe.Parameters, p ringqp.Poly) {
	garbageQP(r, params, p, params.MaxLevelQ(), params.MaxLevelP())
}

// judgeEvk measures b + a*sOut - P*2^{jw}*sIn for every component of evk (same model as the 'keys' family) and
// judges the masks: every a-component non-degenerate in every row, no two components with the same a.
func judgeEvk(c *eng.Ctx, sig string, params rlwe.Parameters, evk *rlwe.EvaluationKey, sIn ring.Poly, sOut ringqp.Poly, B float64, ep *pool, cf cfg) bool {
	lq, lp, w := evk.LevelQ(), evk.LevelP(), evk.BaseTwoDecomposition
	n := params.N()
	r := params.RingQP().AtLevel(lq, lp)
	nbPi := lp + 1
	if nbPi == 0 {
		nbPi = 1
	}
	Pbig := big.NewInt(1)
	if lp >= 0 {
		Pbig = params.RingP().ModulusAtLevel[lp]
	}
	var masks []ringqp.Poly
	for i := range evk.Value {
		for j := range evk.Value[i] {
			el := evk.Value[i][j]
			ph := r.NewPoly()
			r.MulCoeffsMontgomery(el[1], sOut, ph)
			r.Add(ph, el[0], ph)
			scal := new(big.Int).Lsh(Pbig, uint(j*w))
			for k := 0; k < nbPi; k++ {
				row := i*nbPi + k
				if row > lq {
					break
				}
				q := params.Q()[row]
				sc := new(big.Int).Mod(scal, new(big.Int).SetUint64(q)).Uint64()
				for x := 0; x < n; x++ {
					t := mulmod(sIn.Coeffs[row][x], sc, q)
					if ph.Q.Coeffs[row][x] >= t {
						ph.Q.Coeffs[row][x] -= t
					} else {
						ph.Q.Coeffs[row][x] += q - t
					}
				}
			}
			r.INTT(ph, ph)
			r.IMForm(ph, ph)
			ev := centredQP(params, ph, lq, lp)
			st := obs.Stat(ev)
			c.Count("noise_measurements", 1)
			maxf, _ := new(big.Float).SetInt(st.Max).Float64()
			if maxf > B {
				c.Violate(sig+"|component-not-an-encryption-of-the-gadget-payload", fmt.Sprintf("row=%d digit=%d lq=%d lp=%d w=%d: |b+a*s_out-P*2^(jw)*s_in|inf=2^%.1f, worst-case bound %.0f", i, j, lq, lp, w, st.MaxLog2, B), cf)
				return false
			}
			ep.add(ev)
			_, mrows := qpRows(params, el[1], lq, lp)
			for ri, row := range mrows {
				c.Count("mask_components_checked", 1)
				if !c.Check(!degenerateRow(row), sig+"|degenerate-mask-row", func() string {
					return fmt.Sprintf("component (%d,%d) row %d: fewer than n/2 distinct residues in a", i, j, ri)
				}) {
					return false
				}
			}
			for _, m := range masks {
				if !c.Check(!eqPoly(m.Q, el[1].Q, lq), sig+"|same-mask-in-two-components", func() string {
					return fmt.Sprintf("component (%d,%d) repeats the a of an earlier component", i, j)
				}) {
					return false
				}
			}
			masks = append(masks, el[1])
		}
	}
	c.Eval(1)
	return true
}

func mulmod(a, b, q uint64) uint64 {
	var x, y, m big.Int
	x.SetUint64(a)
	y.SetUint64(b)
	m.SetUint64(q)
	x.Mul(&x, &y)
	x.Mod(&x, &m)
	return x.Uint64()
}

func (e *env) pkError(pk *rlwe.PublicKey, sk *rlwe.SecretKey) []*big.Int {
	rqp := e.params.RingQP()
	ph := rqp.NewPoly()
	rqp.MulCoeffsMontgomery(pk.Value[1], sk.Value, ph)
	rqp.Add(ph, pk.Value[0], ph)
	rqp.INTT(ph, ph)
	rqp.IMForm(ph, ph)
	return centredQP(e.params, ph, e.params.MaxLevelQ(), e.params.MaxLevelP())
}

func (e *env) randEvkParams(rnd *eng.Rand, trial int) rlwe.EvaluationKeyParameters {
	lqMax, lpMax := e.params.MaxLevelQ(), e.params.MaxLevelP()
	lq, lp := lqMax, lpMax
	if trial > 0 {
		lq = rnd.N(lqMax + 1)
		if lpMax >= 0 && rnd.Bool() {
			lp = rnd.N(lpMax + 1)
		}
	}
	w := 0
	if lp <= 0 && rnd.Bool() {
		w = 1 + rnd.N(30)
	}
	return rlwe.EvaluationKeyParameters{LevelQ: &lq, LevelP: &lp, BaseTwoDecomposition: &w}
}

func runKeys2(c *eng.Ctx, cf cfg) {
	e := newEnv(c, cf)
	if e == nil {
		return
	}
	rnd := c.Rand()
	params := e.params
	n := e.n
	kgen := e.kgen
	rq := params.RingQ()
	rqp := params.RingQP()
	lpMax := params.MaxLevelP()
	sigma := math.Sqrt(e.varE)
	dk := func(what string, a ...any) {
		c.Distinct(fmt.Sprintf("keys2/%s/%s/%d/%v/%v/%s/%s/%s", what, cf.Ring, cf.LogN, cf.QBits, cf.PBits, cf.Xs, cf.Xe, fmt.Sprint(a...)), true)
	}

	// ---- secret keys against the declared Xs
	dxs, _ := declared(cf)
	sp := &pool{nominal: math.Sqrt(e.varS)}
	nk := max(2, 2048/n)
	var prev []*big.Int
	for k := 0; k < nk; k++ {
		sig := "C03|KeyGenerator.GenSecretKey"
		var sk *rlwe.SecretKey
		if k%2 == 0 {
			if !c.Try(sig, func() { sk = kgen.GenSecretKeyNew() }) {
				continue
			}
		} else {
			sk = rlwe.NewSecretKey(params)
			garbageSk(rnd, params, sk.Value)
			if !c.Try(sig, func() { kgen.GenSecretKey(sk) }) {
				continue
			}
			c.Count("used_key_receivers", 1)
		}
		v := decodeSk(params, sk)
		c.Count("secret_keys_checked", 1)
		dk("sk", k%2)
		ok, why := inDist(v, dxs)
		if !c.Check(ok, sig+"|outside-declared-distribution", func() string { return why + " Xs=" + cf.Xs }) {
			continue
		}
		sp.add(v)
		if prev != nil && collisionBits(dxs, n) >= 48 {
			c.Check(!eqBig(prev, v), sig+"|same-key-twice", nil)
		}
		prev = v
	}
	checkPool(c, "KeyGenerator.GenSecretKey", sp)

	for _, hw := range []int{1, n, n / 2, 1 + rnd.N(n)} {
		sig := "C03|KeyGenerator.GenSecretKeyWithHammingWeight"
		var sk *rlwe.SecretKey
		if rnd.Bool() {
			if !c.Try(sig, func() { sk = kgen.GenSecretKeyWithHammingWeightNew(hw) }) {
				continue
			}
		} else {
			sk = rlwe.NewSecretKey(params)
			garbageSk(rnd, params, sk.Value)
			if !c.Try(sig, func() { kgen.GenSecretKeyWithHammingWeight(hw, sk) }) {
				continue
			}
			c.Count("used_key_receivers", 1)
		}
		c.Count("secret_keys_checked", 1)
		dk("sk-hw", hw == 1, hw == n)
		ok, why := inDist(decodeSk(params, sk), ring.Ternary{H: hw})
		c.Check(ok, sig+"|outside-declared-distribution", func() string { return fmt.Sprintf("hw=%d: %s", hw, why) })
	}

	// ---- key pair; public key into a used receiver
	pp := &pool{nominal: sigma}
	{
		sig := "C03|KeyGenerator.GenKeyPairNew"
		var sk *rlwe.SecretKey
		var pk *rlwe.PublicKey
		if c.Try(sig, func() { sk, pk = kgen.GenKeyPairNew() }) {
			dk("keypair")
			ok, why := inDist(decodeSk(params, sk), dxs)
			c.Check(ok, sig+"|secret-outside-declared-distribution", func() string { return why })
			st := obs.Stat(e.pkError(pk, sk))
			c.Count("noise_measurements", 1)
			maxf, _ := new(big.Float).SetInt(st.Max).Float64()
			c.Check(maxf <= e.B, sig+"|noise-above-worst-case-bound", func() string {
				return fmt.Sprintf("|b+a*s|inf=2^%.1f bound=%.0f", st.MaxLog2, e.B)
			})
		}
	}
	for k := 0; k < 3; k++ {
		sig := "C03|KeyGenerator.GenPublicKey|used-receiver"
		pk := rlwe.NewPublicKey(params)
		garbageSk(rnd, params, pk.Value[0])
		garbageSk(rnd, params, pk.Value[1])
		if !c.Try(sig, func() { kgen.GenPublicKey(e.sk, pk) }) {
			continue
		}
		c.Count("used_key_receivers", 1)
		dk("pk-used")
		ev := e.pkError(pk, e.sk)
		st := obs.Stat(ev)
		c.Count("noise_measurements", 1)
		maxf, _ := new(big.Float).SetInt(st.Max).Float64()
		if c.Check(maxf <= e.B, sig+"|noise-above-worst-case-bound", func() string {
			return fmt.Sprintf("|b+a*s|inf=2^%.1f bound=%.0f", st.MaxLog2, e.B)
		}) {
			pp.add(ev)
		}
		mods, rows := qpRows(params, pk.Value[1], params.MaxLevelQ(), lpMax)
		for i := range mods {
			c.Count("mask_components_checked", 1)
			c.Check(!degenerateRow(rows[i]), sig+"|degenerate-mask-row", nil)
		}
		c.Check(!eqPoly(pk.Value[1].Q, e.pk.Value[1].Q, params.MaxLevelQ()), sig+"|same-mask-as-another-key", nil)
	}

	// ---- evaluation keys: non-New generators into used receivers, GenGaloisKeys(New)
	ep := &pool{nominal: sigma}
	s2 := rq.NewPoly()
	rq.MulCoeffsMontgomery(e.sk.Value.Q, e.sk.Value.Q, s2)
	nth := rq.NthRoot()
	galOf := func() uint64 {
		if cf.Ring == "ci" {
			return ring.ModExp(ring.GaloisGen, uint64(1+rnd.N(n-1)), nth)
		}
		return eng.Pick(rnd, params.GaloisElement(1+rnd.N(n/2-1)), nth-1, params.GaloisElement(-1))
	}
	sOutGal := func(galEl uint64) ringqp.Poly {
		idx, _ := ring.AutomorphismNTTIndex(n, nth, params.ModInvGaloisElement(galEl))
		o := rqp.NewPoly()
		rq.AutomorphismNTTWithIndex(e.sk.Value.Q, idx, o.Q)
		if lpMax >= 0 {
			params.RingP().AutomorphismNTTWithIndex(e.sk.Value.P, idx, o.P)
		}
		return o
	}
	dirty := func(evk *rlwe.EvaluationKey) {
		for i := range evk.Value {
			for j := range evk.Value[i] {
				for k := range evk.Value[i][j] {
					garbageQP(rnd, params, evk.Value[i][j][k], evk.LevelQ(), evk.LevelP())
				}
			}
		}
		c.Count("used_key_receivers", 1)
	}
	for trial := 0; trial < 2; trial++ {
		evp := e.randEvkParams(rnd, trial)
		// relinearisation key, generated twice into the same object
		{
			sig := "C03|KeyGenerator.GenRelinearizationKey|used-receiver"
			rlk := rlwe.NewRelinearizationKey(params, evp)
			dirty(&rlk.EvaluationKey)
			dk("rlk-used", *evp.LevelQ, *evp.LevelP, *evp.BaseTwoDecomposition)
			for rep := 0; rep < 2; rep++ {
				if !c.Try(sig, func() { kgen.GenRelinearizationKey(e.sk, rlk) }) {
					break
				}
				if !judgeEvk(c, sig, params, &rlk.EvaluationKey, s2, e.sk.Value, e.B, ep, cf) {
					break
				}
			}
		}
		// generic key sk -> sk2 into a receiver that held a key for another pair
		{
			sig := "C03|KeyGenerator.GenEvaluationKey|used-receiver"
			evk := rlwe.NewEvaluationKey(params, evp)
			dk("evk-used", *evp.LevelQ, *evp.LevelP, *evp.BaseTwoDecomposition)
			if c.Try(sig, func() { kgen.GenEvaluationKey(e.sk2, e.sk, evk); kgen.GenEvaluationKey(e.sk, e.sk2, evk) }) {
				c.Count("used_key_receivers", 1)
				judgeEvk(c, sig, params, evk, e.sk.Value.Q, e.sk2.Value, e.B, ep, cf)
			}
		}
		// Galois key regenerated for another element
		{
			sig := "C03|KeyGenerator.GenGaloisKey|used-receiver"
			g1, g2 := galOf(), galOf()
			gk := rlwe.NewGaloisKey(params, evp)
			dirty(&gk.EvaluationKey)
			dk("gk-used", *evp.LevelQ, *evp.LevelP, *evp.BaseTwoDecomposition)
			if c.Try(sig, func() { kgen.GenGaloisKey(g1, e.sk, gk); kgen.GenGaloisKey(g2, e.sk, gk) }) {
				c.Check(gk.GaloisElement == g2 && gk.NthRoot == nth, sig+"|galois-element-field", func() string {
					return fmt.Sprintf("GaloisElement=%d NthRoot=%d want %d/%d", gk.GaloisElement, gk.NthRoot, g2, nth)
				})
				judgeEvk(c, sig, params, &gk.EvaluationKey, e.sk.Value.Q, sOutGal(g2), e.B, ep, cf)
			}
		}
		// GenGaloisKeysNew / GenGaloisKeys (nil and allocated slots)
		{
			els := []uint64{galOf(), galOf(), galOf()}
			var gks []*rlwe.GaloisKey
			sig := "C03|KeyGenerator.GenGaloisKeysNew"
			if trial == 1 {
				sig = "C03|KeyGenerator.GenGaloisKeys"
			}
			dk(sig, *evp.LevelQ, *evp.LevelP, *evp.BaseTwoDecomposition)
			ok := false
			if trial == 0 {
				ok = c.Try(sig, func() { gks = kgen.GenGaloisKeysNew(els, e.sk, evp) })
			} else {
				gks = []*rlwe.GaloisKey{nil, rlwe.NewGaloisKey(params, evp), nil}
				dirty(&gks[1].EvaluationKey)
				ok = c.Try(sig, func() { kgen.GenGaloisKeys(els, e.sk, gks) })
			}
			if ok && c.Check(len(gks) == len(els), sig+"|length", nil) {
				for i, gk := range gks {
					if !c.Check(gk != nil, sig+"|nil-key", nil) {
						continue
					}
					c.Check(gk.GaloisElement == els[i] && gk.NthRoot == nth, sig+"|galois-element-field", nil)
					judgeEvk(c, sig, params, &gk.EvaluationKey, e.sk.Value.Q, sOutGal(els[i]), e.B, ep, cf)
				}
			}
		}
	}

	// ---- keys between rings of different degree (standard ring; same moduli)
	if cf.Ring == "std" && cf.LogN >= 5 {
		small := cf
		small.LogN = cf.LogN - 1 - rnd.N(min(2, cf.LogN-4))
		if ps, err := small.params(); err == nil {
			skS := rlwe.NewKeyGenerator(ps).GenSecretKeyNew()
			mapped := rqp.NewPoly()
			ring.MapSmallDimensionToLargerDimensionNTT(skS.Value.Q, mapped.Q)
			if lpMax >= 0 {
				ring.MapSmallDimensionToLargerDimensionNTT(skS.Value.P, mapped.P)
			}
			evp := e.randEvkParams(rnd, 1)
			dk("degree-switch", small.LogN, *evp.LevelQ, *evp.LevelP, *evp.BaseTwoDecomposition)
			var up, down *rlwe.EvaluationKey
			sig := "C03|KeyGenerator.GenEvaluationKey|ring-degree-switch"
			if c.Try(sig, func() { up = kgen.GenEvaluationKeyNew(skS, e.sk, evp) }) {
				c.Count("ring_degree_switch_keys", 1)
				judgeEvk(c, sig, params, up, mapped.Q, e.sk.Value, e.B, ep, cf)
			}
			if c.Try(sig, func() { down = kgen.GenEvaluationKeyNew(e.sk, skS, evp) }) {
				c.Count("ring_degree_switch_keys", 1)
				judgeEvk(c, sig, params, down, e.sk.Value.Q, mapped, e.B, ep, cf)
			}
		}
	}

	// ---- ring-swap keys (generator over the standard ring of degree 2N, secret of the conjugate-invariant ring of degree N)
	if cf.Ring == "std" && cf.LogN >= 5 {
		ci := cf
		ci.Ring, ci.LogN = "ci", cf.LogN-1
		if pc, err := ci.params(); err == nil {
			skCI := rlwe.NewKeyGenerator(pc).GenSecretKeyNew()
			mapped := rqp.NewPoly()
			rq.UnfoldConjugateInvariantToStandard(skCI.Value.Q, mapped.Q)
			if lpMax >= 0 {
				params.RingP().UnfoldConjugateInvariantToStandard(skCI.Value.P, mapped.P)
			}
			evp := e.randEvkParams(rnd, 1)
			dk("ring-swap", *evp.LevelQ, *evp.LevelP, *evp.BaseTwoDecomposition)
			sig := "C03|KeyGenerator.GenEvaluationKeysForRingSwapNew"
			var a, b *rlwe.EvaluationKey
			if c.Try(sig, func() { a, b = kgen.GenEvaluationKeysForRingSwapNew(e.sk, skCI, evp) }) {
				c.Count("ring_swap_keys", 2)
				judgeEvk(c, sig+"|stdToci", params, a, e.sk.Value.Q, mapped, e.B, ep, cf)
				judgeEvk(c, sig+"|ciToStd", params, b, mapped.Q, e.sk.Value, e.B, ep, cf)
			}
		}
	}

	if sigma >= 3 {
		checkPool(c, "KeyGenerator.GenPublicKey|used-receiver", pp)
		checkPool(c, "KeyGenerator.Gen*Key|keys2", ep)
	}
}
