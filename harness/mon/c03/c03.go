// Package c03: decryption inverts encryption with noise inside a two-sided bound.
//
// Observation point: the harness owns every secret key, so the error of a ciphertext / key is
// measured exactly as a centred integer vector (CRT with math/big). Upper bounds are worst-case
// bounds derived from the declared distributions; lower bounds are wide statistical regions.
package c03

import (
	"fmt"
	"math"
	"math/big"

	"github.com/tuneinsight/lattigo/v6/core/rlwe"
	"github.com/tuneinsight/lattigo/v6/ring"
	"github.com/tuneinsight/lattigo/v6/ring/ringqp"
	"github.com/tuneinsight/lattigo/v6/utils/sampling"

	"verif/harness/eng"
	"verif/harness/gen"
	"verif/harness/obs"
	"verif/harness/ref"
)

type cfg struct {
	LogN  int      `json:"logN"`
	Q     []uint64 `json:"q"`
	P     []uint64 `json:"p"`
	QBits []int    `json:"qbits"`
	PBits []int    `json:"pbits"`
	Ring  string   `json:"ring"`
	Xs    string   `json:"xs"`
	Xe    string   `json:"xe"`
	Kind  string   `json:"kind"`
}

func (c cfg) xs() ring.DistributionParameters {
	n := 1 << c.LogN
	switch c.Xs {
	case "ternary-p0.5":
		return ring.Ternary{P: 0.5}
	case "ternary-p2/3":
		return ring.Ternary{P: 2.0 / 3}
	case "ternary-p1/3":
		return ring.Ternary{P: 1.0 / 3}
	case "ternary-h1":
		return ring.Ternary{H: 1}
	case "ternary-h32":
		return ring.Ternary{H: min(32, n)}
	case "ternary-hN/2":
		return ring.Ternary{H: n / 2}
	case "ternary-hN":
		return ring.Ternary{H: n}
	case "gauss3.2":
		return ring.DiscreteGaussian{Sigma: 3.2, Bound: 19.2}
	case "gauss3.2b5":
		return ring.DiscreteGaussian{Sigma: 3.2, Bound: 5} // tail cut well inside 6 sigma
	case "default": // the literal leaves Xs empty
		return nil
	}
	return ring.Ternary{P: 0.5}
}

func (c cfg) xe() ring.DistributionParameters {
	switch c.Xe {
	case "gauss3.2":
		return ring.DiscreteGaussian{Sigma: 3.2, Bound: 19.2}
	case "gauss0.5":
		return ring.DiscreteGaussian{Sigma: 0.5, Bound: 3}
	case "gauss40":
		return ring.DiscreteGaussian{Sigma: 40, Bound: 240}
	case "gauss3.2b6.4": // declared tail cut at 2 sigma: the bound, not 6 sigma, is what the noise must respect
		return ring.DiscreteGaussian{Sigma: 3.2, Bound: 6.4}
	case "gauss8b12":
		return ring.DiscreteGaussian{Sigma: 8, Bound: 12}
	case "ternary-p0.5":
		return ring.Ternary{P: 0.5}
	case "ternary-hN/4": // fixed-Hamming-weight ternary error (the sparse sampling path, read-and-add included)
		return ring.Ternary{H: max(1, (1<<c.LogN)/4)}
	case "default": // the literal leaves Xe empty
		return nil
	}
	return ring.DiscreteGaussian{Sigma: 3.2, Bound: 19.2}
}

func (c cfg) params() (rlwe.Parameters, error) {
	rt := ring.Standard
	if c.Ring == "ci" {
		rt = ring.ConjugateInvariant
	}
	return rlwe.NewParametersFromLiteral(rlwe.ParametersLiteral{LogN: c.LogN, Q: c.Q, P: c.P, Xs: c.xs(), Xe: c.xe(), RingType: rt, NTTFlag: true})
}

var xsKinds = []string{"ternary-p0.5", "ternary-p2/3", "ternary-p1/3", "ternary-h1", "ternary-h32", "ternary-hN/2", "ternary-hN", "gauss3.2", "gauss3.2b5"}
var xeKinds = []string{"gauss3.2", "gauss3.2", "gauss0.5", "gauss40", "ternary-p0.5", "gauss3.2b6.4", "gauss8b12", "ternary-hN/4"}

func cases(tier string, seed int64) []eng.Case {
	r := eng.NewRand("c03-cases", seed)
	var out []eng.Case
	n := 200
	if tier == "thorough" {
		n = 4000
	}
	for i := 0; i < n; i++ {
		c := cfg{Ring: eng.Pick(r, "std", "std", "ci"), Xs: eng.Pick(r, xsKinds...), Xe: eng.Pick(r, xeKinds...)}
		// a third of the cases are statistical (larger ring so that >= 2^11 noise coefficients are pooled)
		c.Kind = eng.Pick(r, "enc", "enc", "keys")
		c.LogN = eng.Pick(r, 4, 5, 6, 8)
		if i%3 == 0 {
			c.LogN = 9
		}
		nq := 1 + r.N(4)
		np := r.N(3)
		for j := 0; j < nq; j++ {
			c.QBits = append(c.QBits, eng.Pick(r, 30, 36, 45, 55, 60))
		}
		for j := 0; j < np; j++ {
			c.PBits = append(c.PBits, eng.Pick(r, 36, 45, 55, 60, 61))
		}
		nth := uint64(2) << c.LogN
		if c.Ring == "ci" {
			nth <<= 1
		}
		c.Q, c.P = gen.Chain(r, nth, c.QBits, c.PBits)
		if c.Q == nil {
			continue
		}
		cc := c
		id := fmt.Sprintf("%s/%d/%s/logN%d/q%v/p%v/%s/%s", c.Kind, i, c.Ring, c.LogN, c.QBits, c.PBits, c.Xs, c.Xe)
		if c.Kind == "enc" {
			out = append(out, eng.Case{ID: id, Sig: "C03|enc", Desc: cc, Run: func(x *eng.Ctx) { runEnc(x, cc) }})
		} else {
			out = append(out, eng.Case{ID: id, Sig: "C03|keys", Desc: cc, Run: func(x *eng.Ctx) { runKeys(x, cc) }})
		}
	}
	return append(out, extCases(tier, seed, n)...)
}

// extCases: the families added by the coverage audit (own random stream, so that the ids above stay what they were).
func extCases(tier string, seed int64, base int) []eng.Case {
	r := eng.NewRand("c03-cases-ext", seed)
	var out []eng.Case
	n := 150
	if tier == "thorough" {
		n = 2400
	}
	for i := 0; i < n; i++ {
		c := cfg{Ring: eng.Pick(r, "std", "std", "ci"), Xs: eng.Pick(r, xsKinds...), Xe: eng.Pick(r, xeKinds...)}
		c.Kind = eng.Pick(r, "api", "api", "qp", "keys2", "keys2", "seq", "enc", "keys")
		c.LogN = eng.Pick(r, 4, 5, 6, 8)
		if i%4 == 0 {
			c.LogN = 9
		}
		nq := 1 + r.N(4)
		np := r.N(3)
		qb := []int{30, 36, 45, 55, 60, 61}
		if c.Kind == "enc" || c.Kind == "keys" {
			// the old families on boundary literals: empty Xs/Xe, 61-bit Q primes, many RNS digits, smallest ring
			switch r.N(4) {
			case 0:
				c.Xs, c.Xe = "default", "default"
			case 1:
				qb = []int{61, 61, 30}
			case 2:
				c.LogN = eng.Pick(r, 4, 5, 6)
				nq, np = 5+r.N(4), 1+r.N(4)
				if tier == "thorough" {
					nq, np = 5+r.N(8), 1+r.N(5)
				}
			default:
				c.LogN, nq, np = 4, 1, r.N(2)
				c.Xs = eng.Pick(r, "default", "ternary-hN", "gauss3.2")
			}
		} else if r.N(6) == 0 {
			c.Xs, c.Xe = eng.Pick(r, "default", c.Xs), "default"
		}
		for j := 0; j < nq; j++ {
			c.QBits = append(c.QBits, eng.Pick(r, qb...))
		}
		for j := 0; j < np; j++ {
			c.PBits = append(c.PBits, eng.Pick(r, 36, 45, 55, 60, 61))
		}
		nth := uint64(2) << c.LogN
		if c.Ring == "ci" {
			nth <<= 1
		}
		c.Q, c.P = gen.Chain(r, nth, c.QBits, c.PBits)
		if c.Q == nil {
			continue
		}
		cc := c
		id := fmt.Sprintf("%s/x%d/%s/logN%d/q%v/p%v/%s/%s", c.Kind, base+i, c.Ring, c.LogN, c.QBits, c.PBits, c.Xs, c.Xe)
		var run func(*eng.Ctx, cfg)
		switch c.Kind {
		case "enc":
			run = runEnc
		case "keys":
			run = runKeys
		case "api":
			run = runAPI
		case "qp":
			run = runQP
		case "keys2":
			run = runKeys2
		default:
			run = runSeq
		}
		out = append(out, eng.Case{ID: id, Sig: "C03|" + c.Kind, Desc: cc, Run: func(x *eng.Ctx) {
			if cc.Xs == "default" || cc.Xe == "default" {
				x.Count("default_distribution_cases", 1)
			}
			run(x, cc)
		}})
	}
	return out
}

func init() {
	eng.Register(&eng.Monitor{
		ID: "C03", Level: "exploration",
		Rule:  "cases = accepted rlwe parameter literals (ring type x logN x Q/P prime sizes (1..4 Q, 0..2 P; boundary literals: 61-bit Q primes, 5..8 (thorough ..12) Q and up to 4 (5) P primes, smallest ring with one prime, empty Xs/Xe) x secret distribution x error distribution); inside an 'enc' case every level x key type (sk, pk) x encryptor variant (plain, ShallowCopy, WithKey, WithPRNG) x target degree (0 with keyed PRNG, 1, 2) x IsNTT x IsMontgomery is encrypted, decrypted and its exact centred error measured; 'keys' cases measure the error of every component of public, relinearisation, Galois and generic evaluation keys; 'api' cases call the remaining entry points (EncryptNew, EncryptZero, EncryptZeroNew, Encrypt(nil), NewTestEncryptorWithPRNG, Decrypt into a used receiver at the same/higher/lower level, Decryptor.ShallowCopy/WithKey, Horner decryption of degree 3..16, receivers above/below the plaintext level, random Scale/LogDimensions/IsBatched metadata, refusal paths); 'qp' cases encrypt zero into Element[ringqp.Poly] at (levelQ, levelP) pairs; 'keys2' cases judge secret keys against Xs, generators writing into used receivers, GenGaloisKeys(New), ring-degree-switch and ring-swap keys and the masks of all components; 'seq' cases drive one encryptor/decryptor/receiver through 24 random calls. distinct key = (family, ring type, logN, chain sizes, Xs, Xe, entry point, level(s), key type, variant, degree, flags); non-trivial = not the all-default combination (level max, sk, plain encryptor, degree 1, NTT, non-Montgomery).",
		Cases: cases,
		Assumptions: []string{
			"ring arithmetic used to evaluate c0+c1*s is the one judged by C01",
			"flags are interpreted semantically: message = IMForm^{IsMontgomery}(INTT^{IsNTT}(value))",
			"upper noise bounds are worst-case bounds from the declared distributions; lower bounds are [sigma/2, 2*sigma] regions on >= 2^11 pooled coefficients",
			"Element[ringqp.Poly] targets are judged with the same semantic reading of the flags; in-tree callers only use NTT+Montgomery there",
			"keys between rings are judged against the library's own NTT-domain embedding of the smaller secret (MapSmallDimensionToLargerDimensionNTT / UnfoldConjugateInvariantToStandard)",
		},
	})
}

// worst-case l1 norm of a sample of the secret distribution and of u (same distribution)
func l1s(p rlwe.Parameters) float64 { _, l1 := obs.SecretBound(p); return l1 }

func ciFactor(p rlwe.Parameters) float64 {
	if p.RingType() == ring.ConjugateInvariant {
		return 2
	}
	return 1
}

func varOf(d ring.DistributionParameters, n int) float64 {
	switch x := d.(type) {
	case ring.DiscreteGaussian:
		return x.Sigma * x.Sigma
	case ring.Ternary:
		if x.P != 0 {
			return x.P
		}
		return float64(min(x.H, n)) / float64(n)
	}
	return 0
}

// zeroBits returns -log2 of the probability that n independent draws of d are all zero.
func zeroBits(d ring.DistributionParameters, n int) float64 {
	switch x := d.(type) {
	case ring.DiscreteGaussian:
		// P(0) <= 1/(sigma*sqrt(2pi)) for sigma >= 1; narrower ones are treated as possibly all-zero
		if x.Sigma < 1 {
			return 0
		}
		return float64(n) * math.Log2(x.Sigma*math.Sqrt(2*math.Pi))
	case ring.Ternary:
		if x.P != 0 {
			if x.P >= 1 {
				return math.Inf(1)
			}
			return -float64(n) * math.Log2(1-x.P)
		}
		if x.H >= 1 {
			return math.Inf(1)
		}
	}
	return 0
}

// pooled statistics
type pool struct {
	sum, sum2 float64
	n         int
	nominal   float64
	means     []float64 // mean of each error vector added
}

func (p *pool) add(v []*big.Int) {
	m := 0.0
	for _, x := range v {
		f, _ := new(big.Float).SetInt(x).Float64()
		p.sum += f
		p.sum2 += f * f
		p.n++
		m += f
	}
	if len(v) > 0 {
		p.means = append(p.means, m/float64(len(v)))
	}
}
func (p *pool) std() float64 {
	if p.n == 0 {
		return 0
	}
	m := p.sum / float64(p.n)
	return math.Sqrt(math.Max(0, p.sum2/float64(p.n)-m*m))
}

func checkPool(c *eng.Ctx, name string, p *pool) {
	if p.n < 2048 || p.nominal <= 0 {
		return
	}
	s := p.std()
	c.Count("stat_pools_checked", 1)
	c.Check(s >= p.nominal/2 && s <= p.nominal*2, "C03|"+name+"|noise-std-outside-[nominal/2,2*nominal]", func() string {
		return fmt.Sprintf("pooled coefficients=%d empirical std=%.3f nominal=%.3f", p.n, s, p.nominal)
	})
	// bias: the coefficients of one error vector are not independent (the sum of the coefficients of a product
	// u*e is the product of the (signed) sums, and the key-dependent factors e_pk, s are the same for the whole
	// pool), so the standard error of the mean is estimated from the per-encryption means, which are independent
	// and centred given the keys; 8 standard errors of at least 16 vectors.
	if k := len(p.means); k >= 16 {
		var m, m2 float64
		for _, x := range p.means {
			m += x
		}
		m /= float64(k)
		for _, x := range p.means {
			m2 += (x - m) * (x - m)
		}
		se := math.Sqrt(m2/float64(k-1)) / math.Sqrt(float64(k))
		c.Check(math.Abs(m) <= 8*se+1e-9, "C03|"+name+"|noise-mean-biased", func() string {
			return fmt.Sprintf("error vectors=%d mean of their means=%.4f standard error=%.4f (pooled std=%.3f)", k, m, se, s)
		})
	}
}

func eqBig(a, b []*big.Int) bool {
	for i := range a {
		if a[i].Cmp(b[i]) != 0 {
			return false
		}
	}
	return true
}

func runEnc(c *eng.Ctx, cf cfg) {
	params, err := cf.params()
	if err != nil {
		c.Violate("C03|rlwe.NewParametersFromLiteral|error-on-admissible", err.Error(), cf)
		return
	}
	rnd := c.Rand()
	c.Sample(cf)
	checkDeclared(c, cf, params)
	kgen := rlwe.NewKeyGenerator(params)
	sk := kgen.GenSecretKeyNew()
	pk := kgen.GenPublicKeyNew(sk)
	// an independent key, different from sk
	var sk2 *rlwe.SecretKey
	for t := 0; t < 64; t++ {
		sk2 = kgen.GenSecretKeyNew()
		if !sk2.Equal(sk) {
			break
		}
	}
	dec := rlwe.NewDecryptor(params, sk)
	dec2 := rlwe.NewDecryptor(params, sk2)
	n := params.N()
	B, _ := obs.ErrBound(params)
	varE := varOf(params.Xe(), n)
	varS := varOf(params.Xs(), n)
	cif := ciFactor(params)
	H := l1s(params)

	type variant struct {
		name string
		mk   func(key rlwe.EncryptionKey) *rlwe.Encryptor
	}
	prngKey := make([]byte, 32)
	rnd.Read(prngKey)
	variants := []variant{
		{"plain", func(k rlwe.EncryptionKey) *rlwe.Encryptor { return rlwe.NewEncryptor(params, k) }},
		{"shallowcopy", func(k rlwe.EncryptionKey) *rlwe.Encryptor { return rlwe.NewEncryptor(params, k).ShallowCopy() }},
		{"withkey", func(k rlwe.EncryptionKey) *rlwe.Encryptor {
			// built with the other kind of key, then rebound
			var other rlwe.EncryptionKey = pk
			if _, isPk := k.(*rlwe.PublicKey); isPk {
				other = sk2
			}
			return rlwe.NewEncryptor(params, other).WithKey(k)
		}},
		{"withprng", func(k rlwe.EncryptionKey) *rlwe.Encryptor {
			prng, _ := sampling.NewKeyedPRNG(prngKey)
			return rlwe.NewEncryptor(params, k).WithPRNG(prng)
		}},
	}
	// encryptors derived from one another (ShallowCopy, WithKey) must draw independent randomness: the k-th
	// encryption of a copy must not repeat the mask or the error of the k-th encryption of its parent or of a
	// sibling copy (otherwise ct - ct' = pt - pt' is readable without any key).
	for _, keyType := range []string{"sk", "pk"} {
		var key rlwe.EncryptionKey = sk
		if keyType == "pk" {
			if float64(n)*varS < 16 || collisionBits(params.Xs(), n) < 48 {
				continue // the ephemeral secret of a very sparse (or toy-sized: n = H = 16 has 2^16 values) Xs may legitimately repeat
			}
			key = pk
		}
		level := params.MaxLevel()
		rq := params.RingQ().AtLevel(level)
		parent := rlwe.NewEncryptor(params, key)
		encs := []*rlwe.Encryptor{parent, parent.ShallowCopy(), parent.ShallowCopy(), parent.WithKey(key), parent.ShallowCopy().ShallowCopy()}
		names := []string{"parent", "copy1", "copy2", "withkey", "copy-of-copy"}
		pt := rlwe.NewPlaintext(params, level) // zero plaintext
		zero := rq.NewPoly()
		for round := 0; round < 2; round++ {
			var cts []*rlwe.Ciphertext
			var errs [][]*big.Int
			okAll := true
			for _, en := range encs {
				ct := rlwe.NewCiphertext(params, 1, level)
				if err := en.Encrypt(pt, ct); err != nil {
					okAll = false
					break
				}
				cts = append(cts, ct)
				errs = append(errs, obs.Diff(rq, obs.Phase(params, ct.El(), sk), zero))
			}
			if !okAll {
				break
			}
			sig := fmt.Sprintf("C03|Encryptor.ShallowCopy|%s|P=%v", keyType, len(cf.P) > 0)
			for i := 0; i < len(cts); i++ {
				for j := i + 1; j < len(cts); j++ {
					c.Count("derived_encryptor_pairs", 1)
					c.Check(!cts[i].Value[1].Equal(&cts[j].Value[1]), sig+"|same-mask-as-"+"derived-encryptor", func() string {
						return fmt.Sprintf("encryption #%d of %s and of %s have the same c1", round, names[i], names[j])
					})
					c.Check(!cts[i].Equal(cts[j]), sig+"|same-ciphertext-as-derived-encryptor", func() string {
						return fmt.Sprintf("encryption #%d of %s and of %s are identical", round, names[i], names[j])
					})
				}
			}
			_ = errs
		}
	}
	pools := map[string]*pool{}
	for level := 0; level <= params.MaxLevel(); level++ {
		rq := params.RingQ().AtLevel(level)
		Qlvl := rq.ModulusAtLevel[level]
		for _, keyType := range []string{"sk", "pk"} {
			var key rlwe.EncryptionKey = sk
			if keyType == "pk" {
				key = pk
			}
			for _, v := range variants {
				// not every combination at every level in every case: sample
				if level != params.MaxLevel() && rnd.N(3) != 0 {
					continue
				}
				var enc *rlwe.Encryptor
				if !c.Try("C03|Encryptor."+v.name, func() { enc = v.mk(key) }) {
					continue
				}
				for _, degree := range []int{1, 2, 0} {
					if degree == 0 && !(keyType == "sk" && v.name == "withprng") {
						continue // a degree-0 ciphertext is only decryptable when c1 can be regenerated from the seed
					}
					for _, isNTT := range []bool{true, false} {
						for _, isMont := range []bool{false, true} {
							if degree != 1 && rnd.N(2) == 0 {
								continue
							}
							// plaintext polynomial with a known message
							msg := rq.NewPoly()
							pat := eng.Pick(rnd, gen.PatUniform, gen.PatTop, gen.PatZero, gen.PatSmall, gen.PatOneHot)
							for i := 0; i <= level; i++ {
								copy(msg.Coeffs[i], gen.Vec(rnd, n, rq.SubRings[i].Modulus-1, pat, rnd.N(n)))
							}
							if pat == gen.PatUniform || pat == gen.PatSmall {
								// one integer vector across moduli: small signed values
								for j := 0; j < n; j++ {
									x := big.NewInt(int64(rnd.N(2001) - 1000))
									for i := 0; i <= level; i++ {
										msg.Coeffs[i][j] = ref.ModU(x, rq.SubRings[i].Modulus)
									}
								}
							}
							pt := rlwe.NewPlaintext(params, level)
							// a plaintext obtained indirectly: allocated at the maximum level (rows above `level` hold residues of
							// something else) and brought down with Resize, as a receiver that is recycled for a lower-level message;
							// it is then encrypted into a receiver that is still at the maximum level
							relevelled := level < params.MaxLevel() && rnd.N(4) == 0
							if relevelled {
								pt = rlwe.NewPlaintext(params, params.MaxLevel())
								for i := range pt.Value.Coeffs {
									copy(pt.Value.Coeffs[i], gen.Vec(rnd, n, params.RingQ().SubRings[i].Modulus-1, gen.PatUniform, 0))
								}
								pt.Resize(0, level)
								c.Count("encryptions_of_relevelled_plaintexts", 1)
							}
							pt.IsNTT, pt.IsMontgomery = isNTT, isMont
							// store the message in the representation the flags announce
							val := rq.NewPoly()
							for i := range val.Coeffs {
								copy(val.Coeffs[i], msg.Coeffs[i])
							}
							if isMont {
								rq.MForm(val, val)
							}
							if isNTT {
								rq.NTT(val, val)
							}
							for i := 0; i <= level; i++ {
								copy(pt.Value.Coeffs[i], val.Coeffs[i])
							}
							ptMeta := *pt.MetaData
							ptCopy := pt.CopyNew()
							key3 := fmt.Sprintf("enc/%s/%d/%v/%v/%s/%s/%d/%s/%s/%d/%v/%v", cf.Ring, cf.LogN, cf.QBits, cf.PBits, cf.Xs, cf.Xe, level, keyType, v.name, degree, isNTT, isMont)
							c.Distinct(key3, !(level == params.MaxLevel() && keyType == "sk" && v.name == "plain" && degree == 1 && isNTT && !isMont))
							ct := rlwe.NewCiphertext(params, degree, level)
							if relevelled {
								ct = rlwe.NewCiphertext(params, degree, params.MaxLevel())
							}
							if rnd.N(3) == 0 {
								// reused receiver: it still holds an unrelated ciphertext (uniform residues, other flags)
								for k := range ct.Value {
									for i := 0; i <= level; i++ {
										copy(ct.Value[k].Coeffs[i], gen.Vec(rnd, n, rq.SubRings[i].Modulus-1, gen.PatUniform, 0))
									}
								}
								ct.IsNTT, ct.IsMontgomery = rnd.Bool(), rnd.Bool()
								c.Count("encryptions_into_used_receiver", 1)
							}
							var encErr error
							sigBase := fmt.Sprintf("C03|Encryptor.Encrypt|%s|deg%d|ntt=%v|mont=%v|P=%v", keyType, degree, isNTT, isMont, len(cf.P) > 0)
							useEnc := enc
							if degree == 0 {
								// fresh encryptor on a fresh keyed stream, so that c1 is the first uniform draw
								prng0, _ := sampling.NewKeyedPRNG(prngKey)
								useEnc = rlwe.NewEncryptor(params, key).WithPRNG(prng0)
							}
							if !c.Try(sigBase, func() { encErr = useEnc.Encrypt(pt, ct) }) {
								continue
							}
							if encErr != nil {
								c.Violate(sigBase+"|error-on-admissible", encErr.Error(), cf)
								continue
							}
							if !c.Check(ct.Level() == level, sigBase+"|ciphertext-level", func() string {
								return fmt.Sprintf("ciphertext at level %d, plaintext at level %d (relevelled=%v)", ct.Level(), level, relevelled)
							}) {
								continue
							}
							// (a re-levelled plaintext keeps a pt.Value header with the rows of its first life: the element is what is compared)
							c.Check(pt.Element.Equal(&ptCopy.Element), sigBase+"|plaintext-modified", nil)
							c.Check(ct.MetaData.Equal(&ptMeta), sigBase+"|ciphertext-metadata", func() string {
								return fmt.Sprintf("ct=%+v pt=%+v", *ct.MetaData, ptMeta)
							})
							dct := ct
							if degree == 0 {
								// regenerate c1 from the keyed PRNG (first draw of the uniform sampler at this level)
								prng, _ := sampling.NewKeyedPRNG(prngKey)
								us := ringqp.NewUniformSampler(prng, *params.RingQP())
								c1 := rq.NewPoly()
								us.AtLevel(level, -1).Read(ringqp.Poly{Q: c1})
								dct = rlwe.NewCiphertext(params, 1, level)
								*dct.MetaData = *ct.MetaData
								copy2(dct.Value[0], ct.Value[0], level)
								copy2(dct.Value[1], c1, level)
							}
							// decrypt with the library
							var got *rlwe.Plaintext
							if !c.Try("C03|Decryptor.Decrypt", func() { got = dec.DecryptNew(dct) }) {
								continue
							}
							c.Check(got.MetaData.Equal(&ptMeta), "C03|Decryptor.Decrypt|metadata", func() string {
								return fmt.Sprintf("got=%+v want=%+v", *got.MetaData, ptMeta)
							})
							// the metadata of the decrypted plaintext are the plaintext's own: relabelling it (a recycled scratch
							// plaintext gets another scale / domain flag) must leave the ciphertext's metadata alone
							{
								keep := *got.MetaData
								before := *dct.MetaData
								got.Scale = rlwe.NewScale(12345)
								got.IsNTT, got.IsBatched = !got.IsNTT, !got.IsBatched
								c.Check(dct.MetaData.Equal(&before), "C03|Decryptor.Decrypt|plaintext-shares-its-metadata-with-the-ciphertext", nil)
								*got.MetaData = keep
								*dct.MetaData = before
							}
							gm := obs.Plain(rq, got.Value, got.IsNTT, got.IsMontgomery)
							e := obs.Diff(rq, gm, msg)
							st := obs.Stat(e)
							c.Count("noise_measurements", 1)
							// cross-check with the harness' own phase computation
							ph := obs.Phase(params, dct.El(), sk)
							e2 := obs.Diff(rq, ph, msg)
							c.Check(eqBig(e, e2), "C03|Decryptor.Decrypt|differs-from-c0+c1s", nil)
							// worst-case upper bound
							var bound float64
							var nominal float64
							switch {
							case keyType == "sk":
								bound = B
								nominal = math.Sqrt(varE)
							case len(cf.P) == 0:
								bound = cif*H*B + B + cif*H*B
								nominal = math.Sqrt(float64(n)*varS*varE*cif*2 + varE)
							default:
								Pf, _ := new(big.Float).SetInt(params.RingP().ModulusAtLevel[0]).Float64() // levelP=0 is what the encryptor uses for *Ciphertext targets
								bound = (cif*H*B+B+cif*H*B)/Pf + 1.5*(1+cif*H)
								// the rounding errors of c0 and c1 are correlated (c0 = -c1*s + small): the phase is
								// round(sum_i r1_i*s_i + small/P) with r1 uniform in [-1/2,1/2], i.e. variance ~ |s|^2/12;
								// for very sparse secrets it is legitimately (almost) always zero.
								nominal = math.Sqrt((float64(n)*varS*varE*cif*2+varE)/(Pf*Pf) + float64(n)*varS*cif/12)
								if nominal < 3 {
									nominal = 0 // no lower-bound test: rounding dominates and is near-degenerate by design
								}
							}
							c.Max("max_noise_log2_x100", int64(100*st.MaxLog2))
							maxf, _ := new(big.Float).SetInt(st.Max).Float64()
							c.Check(maxf <= bound, sigBase+"|noise-above-worst-case-bound", func() string {
								return fmt.Sprintf("level=%d variant=%s |e|inf=2^%.1f bound=%.1f (Q_level=2^%d) Xs=%s Xe=%s", level, v.name, st.MaxLog2, bound, Qlvl.BitLen(), cf.Xs, cf.Xe)
							})
							if maxf > bound {
								continue
							}
							// degenerate masking: the error must not vanish (P(all-zero) is negligible unless the
							// distribution is extremely narrow; with sigma=0.5 and N>=16 it is < 1e-3 per sample,
							// so only require it for the pooled statistics below and for sigma>=3)
							poolKey := keyType + "/" + fmt.Sprint(len(cf.P) > 0)
							if pools[poolKey] == nil {
								pools[poolKey] = &pool{nominal: nominal}
							}
							pools[poolKey].add(e)
							// a second encryption of the same plaintext must differ and carry a different error
							if degree == 1 && isNTT && !isMont {
								ct2 := rlwe.NewCiphertext(params, 1, level)
								if enc.Encrypt(pt, ct2) == nil {
									e3 := obs.Diff(rq, obs.Phase(params, ct2.El(), sk), msg)
									if nominal >= 3 {
										c.Check(!eqBig(e, e3), sigBase+"|same-error-twice", nil)
									}
									// with a pk the only entropy may be the ephemeral u (errors vanish in the division by P):
									// a weight-1 u has 2N values, so require a non-sparse distribution before demanding inequality
									if keyType == "sk" || (float64(n)*varS >= 16 && collisionBits(params.Xs(), n) >= 48) {
										c.Check(!ct2.Equal(ct), sigBase+"|same-ciphertext-twice", nil)
									}
								}
							}
							// every component of a public-key encryption must carry its own error: without P,
							// c1 = u*pk1 + e1 and c0 - m = u*pk0 + e0, so c1/pk1 and (c0-m)/pk0 are small (= u) exactly
							// when the error term is missing, and uniform otherwise.
							// (only judged when an all-zero error vector is impossible in practice: P(e=0) per coefficient
							// is 0.12 for sigma=3.2 but 0.68 for sigma=0.5 and 0.5 for the ternary error)
							if keyType == "pk" && len(cf.P) == 0 && degree == 1 && (math.Sqrt(varE) >= 3 || n >= 256) {
								for comp := 0; comp < 2; comp++ {
									v := obs.Plain(rq, dct.Value[comp], dct.IsNTT, dct.IsMontgomery)
									if comp == 0 {
										rq.Sub(v, msg, v)
									}
									rq.NTT(v, v)
									a := rq.NewPoly()
									rq.IMForm(pk.Value[comp].Q, a) // keys are stored NTT + Montgomery
									okInv := true
									for i := 0; i <= level && okInv; i++ {
										q := rq.SubRings[i].Modulus
										for j := 0; j < n; j++ {
											if a.Coeffs[i][j] == 0 {
												okInv = false
												break
											}
											v.Coeffs[i][j] = ref.MulMod(v.Coeffs[i][j], ref.InvMod(a.Coeffs[i][j], q), q)
										}
									}
									if !okInv {
										continue
									}
									rq.INTT(v, v)
									w := obs.Stat(obs.Centered(rq, v))
									c.Count("component_masking_checks", 1)
									c.Check(w.Max.Cmp(new(big.Int).Rsh(Qlvl, 4)) >= 0, sigBase+"|component-without-error", func() string {
										return fmt.Sprintf("c%d of a public-key encryption divided by pk%d is a small polynomial (|.|inf=2^%.1f, Q=2^%d): this component carries no error term and reveals the ephemeral secret u (level=%d variant=%s)", comp, comp, w.MaxLog2, Qlvl.BitLen(), level, v2name(v.Coeffs))
									})
								}
								// ... and its own one: with e0 = e1 the difference (c0 - m - c1)/(pk0 - pk1) is the small u
								sameErrorInBothComponents(c, sigBase, rq, obs.Plain(rq, dct.Value[0], dct.IsNTT, dct.IsMontgomery), obs.Plain(rq, dct.Value[1], dct.IsNTT, dct.IsMontgomery), msg, pk, level)
							}
							// independent key: decryption must be far from the plaintext
							// (a public-key encryption whose ephemeral secret u, drawn from Xs, is the zero polynomial is the
							// trivial encryption (m, 0) once the errors vanish in the division by P: with N=16 and a
							// ternary Xs of density 1/3 that happens with probability (2/3)^16 ~ 2^-9.4 per encryption, by
							// design. Only judge when P(u=0) < 2^-64.)
							if keyType == "sk" || zeroBits(params.Xs(), n) >= 64 {
								w := dec2.DecryptNew(dct)
								wm := obs.Plain(rq, w.Value, w.IsNTT, w.IsMontgomery)
								d := obs.Stat(obs.Diff(rq, wm, msg))
								eighth := new(big.Int).Rsh(Qlvl, 3)
								c.Check(d.Max.Cmp(eighth) >= 0, sigBase+"|readable-without-key", func() string {
									return fmt.Sprintf("|Dec_sk'(ct)-pt|inf=2^%.1f < Q/8=2^%d", d.MaxLog2, eighth.BitLen())
								})
								// the same row by row (one unmasked RNS row shows pt mod q_i), and the mask itself
								dr := rq.NewPoly()
								rq.Sub(wm, msg, dr)
								checkRowsMasked(c, sigBase, rq.ModuliChain()[:level+1], dr.Coeffs, dct.Value[1].Coeffs)
							}
						}
					}
				}
			}
		}
	}
	for k, p := range pools {
		checkPool(c, "Encryptor.Encrypt|"+k, p)
	}
}

func v2name(_ [][]uint64) string { return "" }

func copy2(dst, src ring.Poly, level int) {
	for i := 0; i <= level; i++ {
		copy(dst.Coeffs[i], src.Coeffs[i])
	}
}

// ---------------------------------------------------------------------------------------------
// keys

// errOfQP returns the centred integer vector represented by p (coefficient domain, non-Montgomery)
// over the moduli of Q[:lq+1] and P[:lp+1], and whether all rows agree on one small integer.
func centredQP(params rlwe.Parameters, p ringqp.Poly, lq, lp int) []*big.Int {
	mods := append([]uint64{}, params.Q()[:lq+1]...)
	if lp >= 0 {
		mods = append(mods, params.P()[:lp+1]...)
	}
	crt := ref.NewCRT(mods)
	n := params.N()
	out := make([]*big.Int, n)
	col := make([]uint64, len(mods))
	for j := 0; j < n; j++ {
		for i := 0; i <= lq; i++ {
			col[i] = p.Q.Coeffs[i][j]
		}
		for i := 0; i <= lp; i++ {
			col[lq+1+i] = p.P.Coeffs[i][j]
		}
		out[j] = crt.Centered(col)
	}
	return out
}

func runKeys(c *eng.Ctx, cf cfg) {
	params, err := cf.params()
	if err != nil {
		c.Violate("C03|rlwe.NewParametersFromLiteral|error-on-admissible", err.Error(), cf)
		return
	}
	rnd := c.Rand()
	c.Sample(cf)
	checkDeclared(c, cf, params)
	kgen := rlwe.NewKeyGenerator(params)
	sk := kgen.GenSecretKeyNew()
	n := params.N()
	B, _ := obs.ErrBound(params)
	sigma := math.Sqrt(varOf(params.Xe(), n))
	lqMax, lpMax := params.MaxLevelQ(), params.MaxLevelP()
	rqp := params.RingQP()

	// ---- public key: b + a*s = e over QP
	pk := kgen.GenPublicKeyNew(sk)
	pk2 := kgen.GenPublicKeyNew(sk)
	c.Check(!pk.Equal(pk2), "C03|KeyGenerator.GenPublicKey|same-key-twice", nil)
	pp := &pool{nominal: sigma}
	for _, k := range []*rlwe.PublicKey{pk, pk2} {
		ph := rqp.NewPoly()
		rqp.MulCoeffsMontgomery(k.Value[1], sk.Value, ph)
		rqp.Add(ph, k.Value[0], ph)
		rqp.INTT(ph, ph)
		rqp.IMForm(ph, ph)
		e := centredQP(params, ph, lqMax, lpMax)
		st := obs.Stat(e)
		c.Count("noise_measurements", 1)
		c.Distinct(fmt.Sprintf("pk/%s/%d/%v/%v/%s/%s", cf.Ring, cf.LogN, cf.QBits, cf.PBits, cf.Xs, cf.Xe), true)
		maxf, _ := new(big.Float).SetInt(st.Max).Float64()
		c.Check(maxf <= B, "C03|KeyGenerator.GenPublicKey|noise-above-worst-case-bound", func() string {
			return fmt.Sprintf("|e|inf=2^%.1f bound=%.0f", st.MaxLog2, B)
		})
		if maxf <= B {
			pp.add(e)
		}
	}
	// ---- evaluation keys
	type kcase struct {
		name string
		gen  func(p rlwe.EvaluationKeyParameters) *rlwe.EvaluationKey
		sIn  func() ring.Poly // NTT+Montgomery, level lqMax
		sOut ringqp.Poly
	}
	sk2 := kgen.GenSecretKeyNew()
	rq := params.RingQ()
	s2 := rq.NewPoly()
	rq.MulCoeffsMontgomery(sk.Value.Q, sk.Value.Q, s2)
	// galois element
	nth := params.RingQ().NthRoot()
	var galEl uint64
	if cf.Ring == "ci" {
		galEl = ring.ModExp(ring.GaloisGen, uint64(1+rnd.N(n-1)), nth)
	} else {
		galEl = eng.Pick(rnd, params.GaloisElement(1+rnd.N(n/2-1)), nth-1, params.GaloisElement(-1))
	}
	galInv := params.ModInvGaloisElement(galEl)
	idx, _ := ring.AutomorphismNTTIndex(n, nth, galInv)
	sOutGal := rqp.NewPoly()
	rq.AutomorphismNTTWithIndex(sk.Value.Q, idx, sOutGal.Q)
	if lpMax >= 0 {
		params.RingP().AutomorphismNTTWithIndex(sk.Value.P, idx, sOutGal.P)
	}
	kcs := []kcase{
		{"GenRelinearizationKey", func(p rlwe.EvaluationKeyParameters) *rlwe.EvaluationKey {
			return &kgen.GenRelinearizationKeyNew(sk, p).EvaluationKey
		}, func() ring.Poly { return s2 }, sk.Value},
		{"GenGaloisKey", func(p rlwe.EvaluationKeyParameters) *rlwe.EvaluationKey {
			return &kgen.GenGaloisKeyNew(galEl, sk, p).EvaluationKey
		}, func() ring.Poly { return sk.Value.Q }, sOutGal},
		{"GenEvaluationKey", func(p rlwe.EvaluationKeyParameters) *rlwe.EvaluationKey {
			return kgen.GenEvaluationKeyNew(sk, sk2, p)
		}, func() ring.Poly { return sk.Value.Q }, sk2.Value},
	}
	ep := &pool{nominal: sigma}
	for _, kc := range kcs {
		for trial := 0; trial < 3; trial++ {
			lq := rnd.N(lqMax + 1)
			lp := lpMax
			if lpMax >= 0 && rnd.Bool() {
				lp = rnd.N(lpMax + 1)
			}
			if trial == 0 {
				lq, lp = lqMax, lpMax
			}
			w := 0
			if lp <= 0 && rnd.Bool() {
				w = 1 + rnd.N(30)
			}
			compressed := rnd.N(3) == 0
			evp := rlwe.EvaluationKeyParameters{LevelQ: &lq, LevelP: &lp, BaseTwoDecomposition: &w, Compressed: compressed}
			sig := "C03|KeyGenerator." + kc.name
			var evk *rlwe.EvaluationKey
			if !c.Try(sig, func() { evk = kc.gen(evp) }) {
				continue
			}
			c.Distinct(fmt.Sprintf("evk/%s/%s/%d/%v/%v/%s/%s/%d/%d/%d/%v", kc.name, cf.Ring, cf.LogN, cf.QBits, cf.PBits, cf.Xs, cf.Xe, lq, lp, w, compressed), true)
			full := evk
			if compressed {
				// Expand regenerates the second components from the seed, in place
				if err := evk.Expand(params, nil); err != nil {
					c.Violate(sig+"|Expand-error", err.Error(), cf)
					continue
				}
			}
			r := rqp.AtLevel(lq, lp)
			sIn := kc.sIn()
			nbPi := lp + 1
			if nbPi == 0 {
				nbPi = 1
			}
			Pbig := big.NewInt(1)
			if lp >= 0 {
				Pbig = params.RingP().ModulusAtLevel[lp]
			}
			bad := false
			for i := range full.Value {
				for j := range full.Value[i] {
					el := full.Value[i][j]
					ph := r.NewPoly()
					r.MulCoeffsMontgomery(el[1], kc.sOut, ph)
					r.Add(ph, el[0], ph)
					// subtract the payload P * 2^{jw} * sIn on the Q rows of digit group i (keys are stored NTT+Montgomery)
					scal := new(big.Int).Lsh(Pbig, uint(j*w))
					for k := 0; k < nbPi; k++ {
						row := i*nbPi + k
						if row > lq {
							break
						}
						q := params.Q()[row]
						sc := ref.ModU(scal, q)
						for x := 0; x < n; x++ {
							ph.Q.Coeffs[row][x] = ref.SubMod(ph.Q.Coeffs[row][x], ref.MulMod(sIn.Coeffs[row][x], sc, q), q)
						}
					}
					r.INTT(ph, ph)
					r.IMForm(ph, ph)
					e := centredQP(params, ph, lq, lp)
					st := obs.Stat(e)
					c.Count("noise_measurements", 1)
					maxf, _ := new(big.Float).SetInt(st.Max).Float64()
					if maxf > B {
						c.Violate(sig+"|component-not-an-encryption-of-the-gadget-payload", fmt.Sprintf("row=%d digit=%d lq=%d lp=%d w=%d compressed=%v: |b+a*s_out-P*2^(jw)*s_in|inf=2^%.1f, worst-case bound %.0f", i, j, lq, lp, w, compressed, st.MaxLog2, B), cf)
						bad = true
						break
					}
					ep.add(e)
				}
				if bad {
					break
				}
			}
			c.Eval(1)
		}
	}
	if sigma >= 3 {
		checkPool(c, "KeyGenerator.GenPublicKey", pp)
		checkPool(c, "KeyGenerator.Gen*Key", ep)
	}
}
