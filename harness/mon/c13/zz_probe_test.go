package c13

import (
	"math"
	ckkspoly "github.com/tuneinsight/lattigo/v6/circuits/ckks/polynomial"
	"github.com/tuneinsight/lattigo/v6/schemes/ckks"
	"github.com/tuneinsight/lattigo/v6/utils/bignum"
	"fmt"
	"testing"

	bgvpoly "github.com/tuneinsight/lattigo/v6/circuits/bgv/polynomial"
	"github.com/tuneinsight/lattigo/v6/core/rlwe"
	"github.com/tuneinsight/lattigo/v6/schemes/bgv"
)

func TestProbeLazy(t *testing.T) {
	params, err := bgv.NewParametersFromLiteral(bgv.ParametersLiteral{LogN: 6, LogQ: []int{55, 55, 55, 55}, LogP: []int{56}, PlaintextModulus: 65537})
	if err != nil {
		t.Fatal(err)
	}
	kgen := rlwe.NewKeyGenerator(params)
	sk := kgen.GenSecretKeyNew()
	rlk := kgen.GenRelinearizationKeyNew(sk)
	evk := rlwe.NewMemEvaluationKeySet(rlk)
	ecd := bgv.NewEncoder(params)
	enc := rlwe.NewEncryptor(params, sk)
	dec := rlwe.NewDecryptor(params, sk)
	for _, inv := range []bool{false, true} {
		eval := bgv.NewEvaluator(params, evk, inv)
		pe := bgvpoly.NewEvaluator(params, eval)
		for _, lazy := range []bool{false, true} {
			for _, deg := range []int{1, 2, 3, 4, 5, 7, 8, 15} {
				vals := make([]uint64, params.MaxSlots())
				for i := range vals {
					vals[i] = uint64(i*3+1) % 65537
				}
				pt := bgv.NewPlaintext(params, 3)
				ecd.Encode(vals, pt)
				ct, _ := enc.EncryptNew(pt)
				coeffs := make([]uint64, deg+1)
				for i := range coeffs {
					coeffs[i] = uint64(i + 1)
				}
				poly := bgvpoly.NewPolynomial(coeffs)
				poly.Lazy = lazy
				res, err := pe.Evaluate(ct, poly, params.DefaultScale())
				if err != nil {
					fmt.Printf("inv=%v lazy=%v deg=%d err=%v\n", inv, lazy, deg, err)
					continue
				}
				out := make([]uint64, params.MaxSlots())
				ecd.Decode(dec.DecryptNew(res), out)
				nbad := 0
				for i := range out {
					if refModT(coeffs, vals[i], 65537) != out[i] {
						nbad++
					}
				}
				fmt.Printf("inv=%v lazy=%v deg=%d -> lvl=%d deg=%d bad=%d\n", inv, lazy, deg, res.Level(), res.Degree(), nbad)
			}
		}
	}
}

func TestProbeLazyCKKS(t *testing.T) {
	params, err := ckks.NewParametersFromLiteral(ckks.ParametersLiteral{LogN: 6, LogQ: []int{55, 45, 45, 45, 45}, LogP: []int{56}, LogDefaultScale: 45})
	if err != nil {
		t.Fatal(err)
	}
	kgen := rlwe.NewKeyGenerator(params)
	sk := kgen.GenSecretKeyNew()
	rlk := kgen.GenRelinearizationKeyNew(sk)
	evk := rlwe.NewMemEvaluationKeySet(rlk)
	ecd := ckks.NewEncoder(params)
	enc := rlwe.NewEncryptor(params, sk)
	dec := rlwe.NewDecryptor(params, sk)
	eval := ckks.NewEvaluator(params, evk)
	pe := ckkspoly.NewEvaluator(params, eval)
	for _, basis := range []bignum.Basis{bignum.Monomial, bignum.Chebyshev} {
		for _, lazy := range []bool{false, true} {
			for _, deg := range []int{3, 4, 5, 7, 8, 15} {
				vals := make([]float64, params.MaxSlots())
				for i := range vals {
					vals[i] = float64(i)/float64(len(vals))*2 - 1
				}
				pt := ckks.NewPlaintext(params, 4)
				ecd.Encode(vals, pt)
				ct, _ := enc.EncryptNew(pt)
				coeffs := make([]float64, deg+1)
				cc := make([]cx, deg+1)
				for i := range coeffs {
					coeffs[i] = 1 / float64(i+1)
					cc[i] = cxF(coeffs[i], 0)
				}
				poly := ckkspoly.NewPolynomial(bignum.NewPolynomial(basis, coeffs, [2]float64{-1, 1}))
				poly.Lazy = lazy
				res, err := pe.Evaluate(ct, poly, params.DefaultScale())
				if err != nil {
					fmt.Printf("basis=%v lazy=%v deg=%d err=%v\n", basis, lazy, deg, err)
					continue
				}
				out := make([]float64, params.MaxSlots())
				ecd.Decode(dec.DecryptNew(res), out)
				maxe := 0.0
				for i := range out {
					var w cx
					if basis == bignum.Monomial {
						w = refMono(cc, cxF(vals[i], 0))
					} else {
						w = refCheb(cc, cxF(vals[i], 0))
					}
					wf, _ := w.re.Float64()
					if d := math.Abs(wf - out[i]); d > maxe {
						maxe = d
					}
				}
				fmt.Printf("basis=%v lazy=%v deg=%d -> lvl=%d maxerr=%g\n", basis, lazy, deg, res.Level(), maxe)
			}
		}
	}
}
