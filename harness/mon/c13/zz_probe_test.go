package c13

import (
	"fmt"
	"math/big"
	"testing"
	"time"

	bgvpoly "github.com/tuneinsight/lattigo/v6/circuits/bgv/polynomial"
	ckkspoly "github.com/tuneinsight/lattigo/v6/circuits/ckks/polynomial"
	"github.com/tuneinsight/lattigo/v6/core/rlwe"
	"github.com/tuneinsight/lattigo/v6/schemes/bgv"
	"github.com/tuneinsight/lattigo/v6/schemes/ckks"
	"github.com/tuneinsight/lattigo/v6/utils/bignum"
)

func TestProbeBGV(t *testing.T) {
	params, err := bgv.NewParametersFromLiteral(bgv.ParametersLiteral{LogN: 6, LogQ: []int{55, 55, 55, 55}, LogP: []int{56}, PlaintextModulus: 65537})
	if err != nil {
		t.Fatal(err)
	}
	kgen := rlwe.NewKeyGenerator(params)
	sk := kgen.GenSecretKeyNew()
	rlk := kgen.GenRelinearizationKeyNew(sk)
	evk := rlwe.NewMemEvaluationKeySet(rlk)
	ecd := bgv.NewEncoder(params)
	enc := rlwe.NewEncryptor(params, sk)
	dec := rlwe.NewDecryptor(params, sk)
	for _, inv := range []bool{false, true} {
		eval := bgv.NewEvaluator(params, evk, inv)
		pe := bgvpoly.NewEvaluator(params, eval)
		for _, deg := range []int{0, 1, 2, 3, 4, 7, 8} {
			for lvl := 0; lvl <= params.MaxLevel(); lvl++ {
				vals := make([]uint64, params.MaxSlots())
				for i := range vals {
					vals[i] = uint64(i * 3 % 65537)
				}
				pt := bgv.NewPlaintext(params, lvl)
				ecd.Encode(vals, pt)
				ct, _ := enc.EncryptNew(pt)
				coeffs := make([]uint64, deg+1)
				for i := range coeffs {
					coeffs[i] = uint64(i + 1)
				}
				poly := bignum.NewPolynomial(bignum.Monomial, coeffs, nil)
				func() {
					defer func() {
						if r := recover(); r != nil {
							fmt.Printf("inv=%v deg=%d lvl=%d PANIC %v\n", inv, deg, lvl, r)
						}
					}()
					t0 := time.Now()
					res, err := pe.Evaluate(ct, poly, params.DefaultScale())
					if err != nil {
						fmt.Printf("inv=%v deg=%d lvl=%d err=%v\n", inv, deg, lvl, err)
						return
					}
					out := make([]uint64, params.MaxSlots())
					ecd.Decode(dec.DecryptNew(res), out)
					ok := true
					for i := range out {
						x := new(big.Int).SetUint64(vals[i])
						if poly.EvaluateModP(x, big.NewInt(65537)).Uint64() != out[i] {
							ok = false
						}
					}
					fmt.Printf("inv=%v deg=%d lvl=%d -> lvl=%d scale=%v ok=%v %v\n", inv, deg, lvl, res.Level(), res.Scale.Uint64(), ok, time.Since(t0))
				}()
			}
		}
	}
}

func TestProbeCKKS(t *testing.T) {
	params, err := ckks.NewParametersFromLiteral(ckks.ParametersLiteral{LogN: 6, LogQ: []int{55, 45, 45, 45, 45}, LogP: []int{56}, LogDefaultScale: 45})
	if err != nil {
		t.Fatal(err)
	}
	kgen := rlwe.NewKeyGenerator(params)
	sk := kgen.GenSecretKeyNew()
	rlk := kgen.GenRelinearizationKeyNew(sk)
	evk := rlwe.NewMemEvaluationKeySet(rlk)
	ecd := ckks.NewEncoder(params)
	enc := rlwe.NewEncryptor(params, sk)
	dec := rlwe.NewDecryptor(params, sk)
	eval := ckks.NewEvaluator(params, evk)
	pe := ckkspoly.NewEvaluator(params, eval)
	for _, basis := range []bignum.Basis{bignum.Monomial, bignum.Chebyshev} {
		for _, deg := range []int{0, 1, 2, 3, 4, 7, 8, 15} {
			for lvl := 0; lvl <= params.MaxLevel(); lvl++ {
				vals := make([]float64, params.MaxSlots())
				for i := range vals {
					vals[i] = float64(i)/float64(len(vals))*2 - 1
				}
				pt := ckks.NewPlaintext(params, lvl)
				ecd.Encode(vals, pt)
				ct, _ := enc.EncryptNew(pt)
				coeffs := make([]float64, deg+1)
				for i := range coeffs {
					coeffs[i] = 1 / float64(i+1)
				}
				poly := bignum.NewPolynomial(basis, coeffs, [2]float64{-1, 1})
				func() {
					defer func() {
						if r := recover(); r != nil {
							fmt.Printf("basis=%v deg=%d lvl=%d PANIC %v\n", basis, deg, lvl, r)
						}
					}()
					t0 := time.Now()
					res, err := pe.Evaluate(ct, poly, params.DefaultScale())
					if err != nil {
						fmt.Printf("basis=%v deg=%d lvl=%d err=%v\n", basis, deg, lvl, err)
						return
					}
					out := make([]float64, params.MaxSlots())
					ecd.Decode(dec.DecryptNew(res), out)
					maxe := 0.0
					for i := range out {
						w := poly.Evaluate(vals[i])
						wf, _ := w[0].Float64()
						if d := wf - out[i]; d > maxe {
							maxe = d
						} else if -d > maxe {
							maxe = -d
						}
					}
					fmt.Printf("basis=%v deg=%d lvl=%d -> lvl=%d scale=%v maxerr=%g %v\n", basis, deg, lvl, res.Level(), res.Scale.Float64(), maxe, time.Since(t0))
				}()
			}
		}
	}
	// plaintext Chebyshev evaluate with asymmetric interval
	p := bignum.NewPolynomial(bignum.Chebyshev, []float64{0.5, 1, 0.25}, [2]float64{0, 4})
	y := p.Evaluate(3.0)
	// T1(u) with u = (2x - a - b)/(b-a) = (6-4)/4 = 0.5 ; T2 = 2u^2-1 = -0.5 ; p = 0.5+0.5-0.125 = 0.875
	fmt.Printf("cheb asym interval Evaluate(3.0) = %v + i %v (want 0.875)\n", y[0], y[1])
}
