// Package c13: homomorphic polynomial evaluation returns p(x) at the advertised depth and scale.
//
// Workload: generated parameter sets (BGV in both tensoring modes; CKKS in both ring types, one and two
// primes per rescaling, rescaling primes spread around the scale) x every degree up to 9, every
// 2^k-1 / 2^k / 2^k+1 boundary and random degrees up to the depth the chain allows x coefficient shapes
// (dense, sparse, odd/even with and without the parity flags, zero leading / trailing coefficients,
// leading-only, all-zero, lazy relinearisation) x single polynomials and vectors of 1..4 polynomials with
// random disjoint slot mappings x input level from the minimum to the maximum x input / target scales
// equal or not to the default x Evaluate / EvaluateFromPowerBasis (fresh, pre-generated, serialised and
// restored basis). Composite circuits (sign, step, max, min, inverse, mod1) on their documented domains.
//
// Oracles (independent of the code under test): slot-wise Horner / Chebyshev-recurrence evaluation with
// exact modular arithmetic (BGV: equality) or 320-bit big.Float complex arithmetic (CKKS: distance below a
// worst-case noise bound), zero on unmapped slots, output level = input level - levels_per_rescaling *
// ceil(log2(degree+1)) (0 in the scale-invariant mode), output scale = target scale (exact mod t / 2^-100
// relative), an error (never a panic, never a result) when the input has fewer levels.
//
// Parameter rules that keep correct code silent:
//   - BGV: prime size >= 1.5*(log2 t + log2 N) + 12 bits; the measured phase of every checked result is
//     reported as a fraction of log2 Q (max_bgv_phase_over_logq_permille, < 1000 = no wrap-around).
//   - CKKS: |log2(q_i/scale)| <= 2^-depth bits so that no power of X drifts by more than 2 bits;
//     error bound = G*(W+deg+2)*(eps1+rho) + floor with rho = N(1+|s|_1)/(2*scale/2^3.5) the worst-case
//     rounding error of one rescaling in the canonical embedding, eps1 = N(B+1)/scale the fresh noise,
//     W = sum |c_k| k (monomial, |x|<=1) or 4 sum |c_k| k^2 (Chebyshev), G = 4 / 16.
//
// Extension families (coverage audit; bgvx.go, ckksx.go, compx.go, plainx.go), same oracles and parameter rules:
// signed / unreduced coefficients of the generic BGV constructors; vectors whose members differ in sparsity, parity
// flags or Chebyshev interval (with the vectorised homomorphic change of basis); nil coefficients on the parity a flag
// excludes (CKKS, as mod1 builds them); sparsely packed CKKS inputs; one PowerBasis shared by a sequence of
// polynomials, lazily pre-generated powers, a literal PowerBasis sharing the caller's ciphertext, GenPower judged
// directly; refusal through every entry point / polynomial type / scale and malformed arguments, with the operands
// left intact; output metadata; comparison with a caller-supplied composite (Sign, Step, Step, Sign, Max, Min on one
// evaluator, exact composite oracle, default output scale), inverse with one prime per rescaling, without bootstrapper,
// with a caller-supplied sign composite, IntervalNormalization on its own, mod1 above / below LevelQ;
// EvaluateModP, Clone, Depth of a constant, ChebyshevApproximation (exact on polynomials of degree <= Nodes).
package c13

import (
	"fmt"

	"verif/harness/eng"
)

func cases(tier string, seed int64) []eng.Case {
	r := eng.NewRand("c13-cases", seed)
	var out []eng.Case
	nBGV := 110
	if tier == "thorough" {
		nBGV = 1000
	}
	for i := 0; i < nBGV; i++ {
		cfg, ok := drawBGV(r.Sub("bgv", i), i, tier)
		if !ok {
			continue
		}
		cc := cfg
		out = append(out, eng.Case{ID: fmt.Sprintf("bgv/%03d/logN%d/t%d/L%d/qb%d", i, cc.LogN, cc.T, len(cc.Q)-1, cc.QBits), Sig: "C13|bgv/polynomial.Evaluator", Desc: cc,
			Run: func(c *eng.Ctx) { runBGV(c, cc) }})
	}
	nCKKS := 130
	if tier == "thorough" {
		nCKKS = 1100
	}
	for i := 0; i < nCKKS; i++ {
		cfg, ok := drawCKKS(r.Sub("ckks", i), i, tier)
		if !ok {
			continue
		}
		cc := cfg
		out = append(out, eng.Case{ID: fmt.Sprintf("ckks/%03d/%s/logN%d/ls%d/L%d/d%d", i, cc.Ring, cc.LogN, cc.LogScale, len(cc.Q)-1, cc.Depth), Sig: "C13|ckks/polynomial.Evaluator", Desc: cc,
			Run: func(c *eng.Ctx) { runCKKS(c, cc) }})
	}
	nComp := 36
	if tier == "thorough" {
		nComp = 288
	}
	for i := 0; i < nComp; i++ {
		cc := drawComposite(r.Sub("comp", i), i, tier)
		out = append(out, eng.Case{ID: fmt.Sprintf("comp/%03d/%s/%s/logN%d", i, cc.Kind, cc.Ring, cc.LogN), Sig: "C13|composite|" + cc.Kind, Desc: cc,
			Run: func(c *eng.Ctx) { runComposite(c, cc) }})
	}
	nPlain, perPlain := 8, 60
	if tier == "thorough" {
		nPlain, perPlain = 64, 150
	}
	for i := 0; i < nPlain; i++ {
		ii := i
		out = append(out, eng.Case{ID: fmt.Sprintf("plain/%03d", i), Sig: "C13|bignum.Polynomial", Desc: map[string]int{"idx": i},
			Run: func(c *eng.Ctx) { runPlain(c, ii, perPlain) }})
	}
	return append(out, extCases(r, tier)...)
}

// extCases: the families added by the coverage audit (bgvx.go, ckksx.go, compx.go, plainx.go). They are appended after the
// original families and draw from their own sub-streams: ids and draws of the original cases are unchanged.
func extCases(r *eng.Rand, tier string) []eng.Case {
	var out []eng.Case
	nB, nC, nX, nP, perP := 96, 120, 50, 4, 40
	if tier == "thorough" {
		nB, nC, nX, nP, perP = 600, 800, 320, 32, 100
	}
	for i := 0; i < nB; i++ {
		cfg, ok := drawBGVX(r.Sub("bgvx", i), i, tier)
		if !ok {
			continue
		}
		cc := cfg
		out = append(out, eng.Case{ID: fmt.Sprintf("bgvx/%03d/%s/logN%d/t%d/L%d/qb%d", i, cc.Kind, cc.LogN, cc.T, len(cc.Q)-1, cc.QBits), Sig: "C13|bgv/polynomial.Evaluator", Desc: cc,
			Run: func(c *eng.Ctx) { runBGVX(c, cc) }})
	}
	for i := 0; i < nC; i++ {
		cfg, ok := drawCKKSX(r.Sub("ckksx", i), i, tier)
		if !ok {
			continue
		}
		cc := cfg
		out = append(out, eng.Case{ID: fmt.Sprintf("ckksx/%03d/%s/%s/logN%d/ls%d/L%d/d%d", i, cc.Kind, cc.Ring, cc.LogN, cc.LogScale, len(cc.Q)-1, cc.Depth), Sig: "C13|ckks/polynomial.Evaluator", Desc: cc,
			Run: func(c *eng.Ctx) { runCKKSX(c, cc) }})
	}
	for i := 0; i < nX; i++ {
		cc := drawCompX(r.Sub("compx", i), i, tier)
		out = append(out, eng.Case{ID: fmt.Sprintf("compx/%03d/%s/%s/logN%d", i, cc.Kind, cc.Ring, cc.LogN), Sig: "C13|composite|" + cc.Kind, Desc: cc,
			Run: func(c *eng.Ctx) { runCompX(c, cc) }})
	}
	for i := 0; i < nP; i++ {
		ii := i
		out = append(out, eng.Case{ID: fmt.Sprintf("plainx/%03d", i), Sig: "C13|bignum.Polynomial", Desc: map[string]int{"idx": i},
			Run: func(c *eng.Ctx) { runPlainX(c, ii, perP) }})
	}
	return out
}

func init() {
	eng.Register(&eng.Monitor{
		ID: "C13", Level: "exploration",
		Rule:  "cases = generated parameter sets (bgv: logN, t, prime sizes, levels; ckks: ring type, logN, scale, prime spread, secret weight, 1 or 2 primes per rescaling) + composite circuits + plaintext bignum tools; inside a polynomial case every degree 1..9, every 2^k-1/2^k/2^k+1 and random degrees up to the chain depth are evaluated with a drawn (coefficient shape, API variant, number of polynomials and slot mapping, lazy flag, input level in [min,max], input scale, target scale) and compared slot by slot with the exact reference, together with the level/scale contract; below-minimum levels must be refused. distinct key = (scheme, mode or ring+basis, degree, shape, API variant, #polynomials, lazy, level class min/mid/max, input-scale default or not, target = input or not, complex, change of basis, primes per rescaling); non-trivial = degree >= 3 (a baby-step/giant-step split or a non power-of-two power is involved) or a vector of >= 2 polynomials or a refusal / degree-0 / composite-circuit / plaintext-tool check of degree >= 3; trivial = single polynomial of degree <= 2. Extension families (ids bgvx/, ckksx/, compx/, plainx/): per parameter set one of the kinds coeff | vecmix | pbseq | refuse (bgv), sparse | vecmix | pbseq | refuse (ckks), cmp-custom | gold-nobtp | normalize | inv45-* | mod1-low (composite); distinct key = (family, kind, scheme mode or ring+basis, degree, coefficient type / member shapes and flag mode / position in the shared-basis sequence and whether the basis held a non-relinearised power / entry point, level class, packing); every such evaluation, direct GenPower check of a power >= 3, refusal and malformed-argument check is non-trivial except single polynomials of degree <= 2.",
		Cases: cases,
		Assumptions: []string{
			"reference arithmetic (math/big, 128-bit modular products of verif/harness/ref) is correct",
			"decryption, decoding and secret-key encryption of the scheme packages are correct (judged by C03/C07); they are only used to observe the result",
			"CKKS bound: first-order worst-case propagation (canonical-embedding norm N*|.|_inf, ternary secret of weight <= h, Gaussian bound B) with the stated slack factors; measured errors stay >= 9 bits below it (max_ckks_err_over_bound_permille)",
			"composite circuits are judged on the domain and with the tolerance their doc comments state (sign/step: |x| >= 2^-29, 2^-20; max/min: 2^-19; inverse: relative 2^-20; mod1: the three in-tree parameterisations, 2^-20 against the documented scaled sine)",
			"bignum.NewPolynomial built from float64 coefficients carries 53-bit coefficients: with two primes per rescaling the workload passes 256-bit coefficients and intervals",
			"coefficient domain of the BGV constructors: any int64 / uint64, read modulo t the way bgv.Encoder reads values (negative int64 c = t - |c| mod t); nil coefficients only on the parity a flag excludes and only for CKKS (the only in-tree producer is mod1)",
			"a PowerBasis may be shared by several evaluations and may hold powers generated with lazy = true (GenPower documents that non-relinearised operands are relinearised automatically); X^1 of a basis and the ciphertext it was built from are inputs and stay unchanged",
			"comparison / inverse with a caller-supplied composite are judged against that composite evaluated in plain (error budget = worst-case stage noise x stage Lipschitz constants), not against the ideal sign; IntervalNormalization against its doc comment (ct*factor = normalised, |normalised| <= 1, 0 < factor <= 1)",
			"sparse packing is combined with single polynomials only (a PolynomialVector on a sparsely packed input is refused with an error by the evaluator: the per-slot coefficient vector always has MaxSlots entries)",
		},
	})
}
