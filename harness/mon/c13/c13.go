// Package c13: homomorphic polynomial evaluation returns p(x) at the advertised depth and scale.
package c13

import (
	"fmt"

	"verif/harness/eng"
)

func cases(tier string, seed int64) []eng.Case {
	r := eng.NewRand("c13-cases", seed)
	var out []eng.Case
	nBGV := 60
	if tier == "thorough" {
		nBGV = 300
	}
	for i := 0; i < nBGV; i++ {
		cfg, ok := drawBGV(r.Sub("bgv", i), i, tier)
		if !ok {
			continue
		}
		cc := cfg
		out = append(out, eng.Case{ID: fmt.Sprintf("bgv/%03d/logN%d/t%d/L%d/qb%d", i, cc.LogN, cc.T, len(cc.Q)-1, cc.QBits), Sig: "C13|bgv/polynomial.Evaluator", Desc: cc,
			Run: func(c *eng.Ctx) { runBGV(c, cc) }})
	}
	nCKKS := 70
	if tier == "thorough" {
		nCKKS = 350
	}
	for i := 0; i < nCKKS; i++ {
		cfg, ok := drawCKKS(r.Sub("ckks", i), i, tier)
		if !ok {
			continue
		}
		cc := cfg
		out = append(out, eng.Case{ID: fmt.Sprintf("ckks/%03d/%s/logN%d/ls%d/L%d/d%d", i, cc.Ring, cc.LogN, cc.LogScale, len(cc.Q)-1, cc.Depth), Sig: "C13|ckks/polynomial.Evaluator", Desc: cc,
			Run: func(c *eng.Ctx) { runCKKS(c, cc) }})
	}
	return out
}

func init() {
	eng.Register(&eng.Monitor{
		ID: "C13", Level: "exploration",
		Rule:  "TODO",
		Cases: cases,
	})
}
