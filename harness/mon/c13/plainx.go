package c13

import (
	"fmt"
	"math"
	"math/big"

	"github.com/tuneinsight/lattigo/v6/utils/bignum"

	"verif/harness/eng"
)

// Plaintext-side tools of the anchor files that plain.go does not reach (coverage audit):
//
//	bignum.Polynomial.EvaluateModP   against exact Horner evaluation mod P, result in the documented range [0, P-1]
//	bignum.Polynomial.Clone          equal, and independent of the original (comparison.Step and mod1 edit clones)
//	bignum.Polynomial.Depth          of a constant polynomial
//	bignum.ChebyshevApproximation    of a polynomial of degree <= Nodes (interpolation at Nodes+1 Chebyshev nodes is
//	                                 exact), all four accepted function types, intervals not centred on zero
func runPlainX(c *eng.Ctx, idx int, n int) {
	rnd := c.Rand()
	c.Sample(map[string]any{"kind": "plainx", "iterations": n})
	for it := 0; it < n; it++ {
		plainxModP(c, rnd)
		plainxClone(c, rnd)
		plainxCheby(c, rnd)
	}
	// Depth: "the number of sequential multiplications needed to evaluate the polynomial": none for a constant
	p0 := bignum.NewPolynomial(bignum.Monomial, []float64{0.5}, nil)
	var d int
	if c.Try("C13|bignum.Polynomial.Depth", func() { d = p0.Depth() }) {
		c.Distinct("plainx/depth/degree0", true)
		c.Check(d == 0, "C13|bignum.Polynomial.Depth|wrong-value|degree-0", func() string { return fmt.Sprintf("constant polynomial: Depth()=%d, want 0", d) })
	}
	_ = idx
}

func plainxModP(c *eng.Ctx, rnd *eng.Rand) {
	deg := rnd.N(24)
	P := eng.Pick(rnd, uint64(2), 97, 257, 65537, 0xffc001, 1<<61-1, 0xffffffff00000001)
	signed := rnd.Bool()
	red := make([]uint64, deg+1)
	var p bignum.Polynomial
	if signed {
		cs := make([]int64, deg+1)
		for k := range cs {
			cs[k] = int64(rnd.U64()>>1) % int64(P>>1+1)
			if rnd.Bool() {
				cs[k] = -cs[k]
			}
			red[k] = modT(big.NewInt(cs[k]), P)
		}
		p = bignum.NewPolynomial(bignum.Monomial, cs, nil)
	} else {
		cs := make([]uint64, deg+1)
		for k := range cs {
			cs[k] = rnd.U64() % P
			switch rnd.N(6) {
			case 0:
				cs[k] = P - 1
			case 1:
				cs[k] = 0
			case 2:
				cs[k] = rnd.U64() // unreduced
			}
			red[k] = cs[k] % P
		}
		p = bignum.NewPolynomial(bignum.Monomial, cs, nil)
	}
	xv := rnd.U64() % P
	switch rnd.N(5) {
	case 0:
		xv = P - 1
	case 1:
		xv = 0
	}
	xi := new(big.Int).SetUint64(xv)
	xclass := "reduced"
	switch rnd.N(4) {
	case 0:
		xi.Add(xi, new(big.Int).Mul(new(big.Int).SetUint64(P), new(big.Int).SetUint64(rnd.U64()))) // unreduced argument
		xclass = "unreduced"
	case 1:
		xi.Sub(xi, new(big.Int).SetUint64(P)) // negative representative
		xclass = "negative"
	}
	PI := new(big.Int).SetUint64(P)
	// reference: Horner with big.Int, Euclidean remainder
	want := new(big.Int)
	xm := new(big.Int).Mod(xi, PI)
	for k := deg; k >= 0; k-- {
		want.Mul(want, xm).Add(want, new(big.Int).SetUint64(red[k])).Mod(want, PI)
	}
	var got *big.Int
	sig := "C13|bignum.Polynomial.EvaluateModP"
	if !c.Try(sig, func() { got = p.EvaluateModP(new(big.Int).Set(xi), new(big.Int).Set(PI)) }) {
		return
	}
	c.Distinct(fmt.Sprintf("plainx/modp/d%d/signed%v/x%s/P%d", deg, signed, xclass, P), deg >= 3)
	c.Count("evaluate_mod_p_checks", 1)
	c.Check(got != nil && new(big.Int).Mod(got, PI).Cmp(want) == 0, sig+"|wrong-value", func() string {
		return fmt.Sprintf("degree %d signed=%v P=%d x=%v: got %v, want %v (mod P)", deg, signed, P, xi, got, want)
	})
	if got != nil {
		// "returning the result as *big.Int in the interval [0, P-1]"
		c.Check(got.Sign() >= 0 && got.Cmp(PI) < 0, sig+"|result-not-reduced", func() string {
			return fmt.Sprintf("degree %d signed=%v P=%d x=%v: result %v is outside the documented interval [0, P-1]", deg, signed, P, xi, got)
		})
	}
}

func plainxClone(c *eng.Ctx, rnd *eng.Rand) {
	deg := 1 + rnd.N(20)
	basis := eng.Pick(rnd, "monomial", "chebyshev")
	cs := make([]*bignum.Complex, deg+1)
	orig := make([][2]float64, deg+1)
	for k := range cs {
		orig[k] = [2]float64{pickCoeffF(rnd), pickCoeffF(rnd)}
		cs[k] = &bignum.Complex{bigF(orig[k][0]), bigF(orig[k][1])}
	}
	hole := -1
	if rnd.Bool() {
		hole = rnd.N(deg) // a nil coefficient below the leading one (mod1 builds such polynomials)
		cs[hole] = nil
	}
	p := bignum.NewPolynomial(basisOf(basis), cs, [2]float64{-3, 5})
	p.IsOdd, p.IsEven = rnd.Bool(), rnd.Bool()
	var q bignum.Polynomial
	sig := "C13|bignum.Polynomial.Clone"
	if !c.Try(sig, func() { q = p.Clone() }) {
		return
	}
	c.Distinct(fmt.Sprintf("plainx/clone/%s/d%d/hole%v", basis, deg, hole >= 0), deg >= 3)
	same := len(q.Coeffs) == deg+1 && q.Basis == p.Basis && q.IsOdd == p.IsOdd && q.IsEven == p.IsEven && q.A.Cmp(&p.A) == 0 && q.B.Cmp(&p.B) == 0
	for k := 0; same && k <= deg; k++ {
		if k == hole {
			same = q.Coeffs[k] == nil
			continue
		}
		same = q.Coeffs[k] != nil && q.Coeffs[k][0].Cmp(p.Coeffs[k][0]) == 0 && q.Coeffs[k][1].Cmp(p.Coeffs[k][1]) == 0
	}
	c.Check(same, sig+"|not-equal", func() string { return fmt.Sprintf("%s degree %d: the clone differs from the original", basis, deg) })
	if !same {
		return
	}
	// edit the clone in place the way comparison.Step does; the original must keep its values
	half := new(big.Float).SetFloat64(0.5)
	for k := range q.Coeffs {
		if q.Coeffs[k] != nil {
			q.Coeffs[k][0].Mul(q.Coeffs[k][0], half)
			q.Coeffs[k][1].Add(q.Coeffs[k][1], half)
		}
	}
	indep := true
	for k := 0; indep && k <= deg; k++ {
		if k == hole {
			continue
		}
		re, _ := p.Coeffs[k][0].Float64()
		im, _ := p.Coeffs[k][1].Float64()
		indep = re == orig[k][0] && im == orig[k][1]
	}
	c.Check(indep, sig+"|shares-coefficients", func() string { return fmt.Sprintf("%s degree %d: editing the clone changed the original", basis, deg) })
}

// plainxCheby: f = a polynomial of degree <= Nodes given in the monomial basis; the Chebyshev interpolant on Nodes+1
// nodes reproduces it exactly (up to the working precision).
func plainxCheby(c *eng.Ctx, rnd *eng.Rand) {
	ftype := eng.Pick(rnd, "big.Float", "bignum.Complex", "float64", "complex128")
	lowPrec := ftype == "float64" || ftype == "complex128"
	nodes := 1 + rnd.N(24)
	a := math.Round((rnd.F64()*16-8)*64) / 64
	w := math.Round((0.5+rnd.F64()*8)*64) / 64
	if lowPrec {
		// keep a float64-evaluated f well conditioned: small interval, small degree
		nodes = 1 + rnd.N(10)
		a = math.Round((rnd.F64()*2-1.5)*64) / 64
		w = math.Round((0.5+rnd.F64())*64) / 64
	}
	switch rnd.N(4) {
	case 0:
		a, w = -1, 2
	case 1:
		a = -w / 2
	}
	b := a + w
	fdeg := rnd.N(nodes + 1)
	if rnd.Bool() {
		fdeg = nodes
	}
	cplx := ftype == "bignum.Complex" || ftype == "complex128"
	fc := make([]cx, fdeg+1)
	f128 := make([]complex128, fdeg+1)
	amp := 1.0
	xm := math.Max(math.Abs(a), math.Abs(b))
	for k := range fc {
		re, im := pickCoeffF(rnd), 0.0
		if cplx && rnd.Bool() {
			im = pickCoeffF(rnd)
		}
		fc[k], f128[k] = cxF(re, im), complex(re, im)
		amp += math.Hypot(re, im) * math.Pow(xm, float64(k))
	}
	prec := uint(256)
	var f interface{}
	switch ftype {
	case "big.Float":
		f = func(x *big.Float) (y *big.Float) {
			v := refMono(fc, cxB(x, nil))
			return new(big.Float).SetPrec(prec).Set(v.re)
		}
	case "bignum.Complex":
		f = func(x *bignum.Complex) (y *bignum.Complex) {
			v := refMono(fc, cxB(x[0], x[1]))
			return &bignum.Complex{new(big.Float).SetPrec(prec).Set(v.re), new(big.Float).SetPrec(prec).Set(v.im)}
		}
	case "float64":
		f = func(x float64) (y float64) {
			for k := fdeg; k >= 0; k-- {
				y = y*x + real(f128[k])
			}
			return
		}
	case "complex128":
		f = func(x complex128) (y complex128) {
			for k := fdeg; k >= 0; k-- {
				y = y*x + f128[k]
			}
			return
		}
	}
	itv := bignum.Interval{Nodes: nodes, A: *new(big.Float).SetPrec(prec).SetFloat64(a), B: *new(big.Float).SetPrec(prec).SetFloat64(b)}
	var pol bignum.Polynomial
	sig := "C13|bignum.ChebyshevApproximation"
	if !c.Try(sig, func() { pol = bignum.ChebyshevApproximation(f, itv) }) {
		return
	}
	c.Distinct(fmt.Sprintf("plainx/cheby/%s/n%d/fd%d/sym%v", ftype, nodes, fdeg, a == -b), nodes >= 3)
	c.Count("chebyshev_approximation_checks", 1)
	okShape := pol.Basis == bignum.Chebyshev && len(pol.Coeffs) == nodes+1 && pol.A.Cmp(&itv.A) == 0 && pol.B.Cmp(&itv.B) == 0
	for _, cf := range pol.Coeffs {
		okShape = okShape && cf != nil
	}
	if !c.Check(okShape, sig+"|shape", func() string {
		return fmt.Sprintf("%s nodes=%d on [%v,%v]: basis %v, %d coefficients, interval [%v,%v]", ftype, nodes, a, b, pol.Basis, len(pol.Coeffs), &pol.A, &pol.B)
	}) {
		return
	}
	coef := make([]cx, nodes+1)
	for k := range coef {
		coef[k] = cxB(pol.Coeffs[k][0], pol.Coeffs[k][1])
	}
	tolBits := 190.0
	if lowPrec {
		tolBits = 38
	}
	worst := 0.0
	var wx float64
	for pt := 0; pt < 5; pt++ {
		xr := a + w*rnd.F64()
		switch pt {
		case 0:
			xr = a
		case 1:
			xr = b
		}
		num := bf().SetFloat64(xr)
		num.Mul(num, bf().SetFloat64(2)).Sub(num, bf().SetFloat64(a)).Sub(num, bf().SetFloat64(b))
		num.Quo(num, bf().SetFloat64(w))
		got := refCheb(coef, cxB(num, nil))
		want := refMono(fc, cxF(xr, 0))
		if e := got.sub(want).abs(); e > worst || math.IsNaN(e) {
			worst, wx = e, xr
		}
	}
	scale := amp * float64(nodes*nodes+1)
	c.Check(worst <= scale*math.Exp2(-tolBits), sig+"|wrong-value|"+ftype, func() string {
		return fmt.Sprintf("%s nodes=%d degree(f)=%d on [%v,%v]: interpolant differs from f by 2^%.1f at x=%v (tolerance 2^%.1f)", ftype, nodes, fdeg, a, b, math.Log2(worst), wx, math.Log2(scale)-tolBits)
	})
}
