package c13

import (
	"fmt"
	"math"
	"math/big"

	"github.com/tuneinsight/lattigo/v6/circuits/ckks/bootstrapping"
	"github.com/tuneinsight/lattigo/v6/circuits/ckks/comparison"
	"github.com/tuneinsight/lattigo/v6/circuits/ckks/inverse"
	"github.com/tuneinsight/lattigo/v6/circuits/ckks/minimax"
	"github.com/tuneinsight/lattigo/v6/circuits/ckks/mod1"
	ckkspoly "github.com/tuneinsight/lattigo/v6/circuits/ckks/polynomial"
	"github.com/tuneinsight/lattigo/v6/core/rlwe"
	"github.com/tuneinsight/lattigo/v6/ring"
	"github.com/tuneinsight/lattigo/v6/schemes/ckks"
	"github.com/tuneinsight/lattigo/v6/utils/bignum"

	"verif/harness/eng"
)

// Composite circuits built on the polynomial evaluator. Each is judged on the domain and with the
// error its own documentation states (see the constants below), with a margin on the domain side
// and none of the tolerances tighter than what the doc comment promises.

type compCfg struct {
	Idx     int     `json:"idx"`
	Kind    string  `json:"kind"`
	LogN    int     `json:"logN"`
	Ring    string  `json:"ring"`
	NQ      int     `json:"nq"`      // number of rescaling primes
	Level   int     `json:"level"`   // input level (-1: max)
	ScDev   float64 `json:"sc_dev"`  // log2(input scale / default scale)
	Log2Min float64 `json:"log2min"` // inverse
	Log2Max float64 `json:"log2max"`
	Variant int     `json:"variant"`
}

const (
	// comparison.DefaultCompositePolynomialForSign: "able to distinguish between value with a delta of up to
	// 2^{-alpha=30}, tolerates a scheme error of 2^{-35} and outputs a binary value (-1, or 1) of up to 20x4 bits of precision"
	signAlphaBits = 29 // inputs are kept at |x| >= 2^-29 (one bit inside the documented 2^-30)
	signTolBits   = 20 // documented >= 21.9 bits before the last (precision-quadrupling) polynomial
)

func (cc compCfg) prec90() ckks.ParametersLiteral {
	logq := []int{55, 55}
	for i := 0; i < cc.NQ; i++ {
		logq = append(logq, 45)
	}
	lit := ckks.ParametersLiteral{LogN: cc.LogN, LogQ: logq, LogP: []int{60, 60}, LogDefaultScale: 90}
	if cc.Ring == "ci" {
		lit.RingType = ring.ConjugateInvariant
	}
	return lit
}

type compCtx struct {
	params ckks.Parameters
	sk     *rlwe.SecretKey
	ecd    *ckks.Encoder
	enc    *rlwe.Encryptor
	dec    *rlwe.Decryptor
	eval   *ckks.Evaluator
	btp    *bootstrapping.SecretKeyBootstrapper
	mm     *minimax.Evaluator
}

func newCompCtx(lit ckks.ParametersLiteral) (*compCtx, error) {
	params, err := ckks.NewParametersFromLiteral(lit)
	if err != nil {
		return nil, err
	}
	x := &compCtx{params: params}
	kgen := rlwe.NewKeyGenerator(params)
	x.sk = kgen.GenSecretKeyNew()
	var gks []*rlwe.GaloisKey
	if params.RingType() == ring.Standard {
		gks = append(gks, kgen.GenGaloisKeyNew(params.GaloisElementForComplexConjugation(), x.sk))
	}
	evk := rlwe.NewMemEvaluationKeySet(kgen.GenRelinearizationKeyNew(x.sk), gks...)
	x.ecd = ckks.NewEncoder(params)
	x.enc = rlwe.NewEncryptor(params, x.sk)
	x.dec = rlwe.NewDecryptor(params, x.sk)
	x.eval = ckks.NewEvaluator(params, evk)
	x.btp = bootstrapping.NewSecretKeyBootstrapper(params, x.sk)
	// with two primes per rescaling the message (scale ~2^90) does not fit under Q[0] alone: the lowest level a
	// ciphertext may be brought to before it has to be refreshed is 1 (MinLevel is the bootstrapper's documented knob)
	x.btp.MinLevel = params.LevelsConsumedPerRescaling() - 1
	x.mm = minimax.NewEvaluator(params, x.eval, x.btp)
	return x, nil
}

func (x *compCtx) encrypt(vals []float64, level int, scDev float64) (*rlwe.Ciphertext, error) {
	if level < 0 || level > x.params.MaxLevel() {
		level = x.params.MaxLevel()
	}
	pt := ckks.NewPlaintext(x.params, level)
	if scDev != 0 {
		pt.Scale = rlwe.NewScale(x.params.DefaultScale().Float64() * math.Exp2(scDev))
	}
	if err := x.ecd.Encode(vals, pt); err != nil {
		return nil, err
	}
	return x.enc.EncryptNew(pt)
}

func (x *compCtx) decode(ct *rlwe.Ciphertext) ([]complex128, error) {
	out := make([]*bignum.Complex, x.params.MaxSlots())
	if err := x.ecd.Decode(x.dec.DecryptNew(ct), out); err != nil {
		return nil, err
	}
	res := make([]complex128, len(out))
	for i := range out {
		re, _ := out[i][0].Float64()
		im, _ := out[i][1].Float64()
		res[i] = complex(re, im)
	}
	return res, nil
}

// signInputs: end points, the documented exclusion margin around the discontinuity, log-uniform magnitudes.
func signInputs(r *eng.Rand, n int, lo float64) []float64 {
	v := make([]float64, n)
	for i := range v {
		var m float64
		switch r.N(8) {
		case 0:
			m = 1
		case 1:
			m = lo
		case 2:
			m = lo * (1 + r.F64())
		default:
			m = math.Exp2(math.Log2(lo) * r.F64())
		}
		if r.Bool() {
			m = -m
		}
		v[i] = m
	}
	return v
}

func sgn(x float64) float64 {
	switch {
	case x > 0:
		return 1
	case x < 0:
		return -1
	}
	return 0
}

func runComposite(c *eng.Ctx, cc compCfg) {
	switch cc.Kind {
	case "sign", "step":
		runSignStep(c, cc)
	case "maxmin":
		runMaxMin(c, cc)
	case "custom-sign":
		runCustomSign(c, cc)
	case "inv-gold", "inv-pos", "inv-neg", "inv-full":
		runInverse(c, cc)
	case "mod1":
		runMod1(c, cc)
	}
}

func runSignStep(c *eng.Ctx, cc compCfg) {
	rnd := c.Rand()
	x, err := newCompCtx(cc.prec90())
	if err != nil {
		c.Inconclusive(err.Error())
		return
	}
	cmp := comparison.NewEvaluator(x.params, x.mm)
	slots := x.params.MaxSlots()
	vals := signInputs(rnd, slots, math.Exp2(-signAlphaBits))
	ct, err := x.encrypt(vals, cc.Level, cc.ScDev)
	if err != nil {
		c.Inconclusive(err.Error())
		return
	}
	entry := "comparison.Evaluator.Sign"
	if cc.Kind == "step" {
		entry = "comparison.Evaluator.Step"
	}
	sig := "C13|" + entry
	var res *rlwe.Ciphertext
	if !c.Try(sig, func() {
		if cc.Kind == "sign" {
			res, err = cmp.Sign(ct)
		} else {
			res, err = cmp.Step(ct)
		}
	}) {
		return
	}
	c.Distinct(fmt.Sprintf("%s/%s/logN%d/nq%d/lvl%d/dev%v", cc.Kind, cc.Ring, cc.LogN, cc.NQ, cc.Level, cc.ScDev != 0), true)
	c.Sample(cc)
	c.Count("composite_evaluations", 1)
	c.Count("bootstraps_dummy", int64(x.btp.Counter))
	if err != nil {
		c.Eval(1)
		c.Violate(sig+"|unexpected-error", err.Error(), cc)
		return
	}
	out, err := x.decode(res)
	if err != nil {
		c.Violate(sig+"|decode-error", err.Error(), cc)
		return
	}
	tol := math.Exp2(-signTolBits)
	worst, wi := 0.0, -1
	for i, v := range vals {
		want := sgn(v)
		if cc.Kind == "step" {
			want = (want + 1) / 2
		}
		if e := math.Hypot(real(out[i])-want, imag(out[i])); e > worst || math.IsNaN(e) {
			worst, wi = e, i
		}
	}
	c.Eval(slots)
	c.Max("max_sign_err_log2_plus100", int64(100+math.Max(-100, math.Log2(worst+1e-300))))
	if !(worst <= tol) {
		vs := sig + "|wrong-value|default-scale"
		if cc.ScDev != 0 {
			// Sign and Step share minimax.Evaluator.Evaluate, which is where the input scale enters
			vs = "C13|minimax.Evaluator.Evaluate|wrong-value|input-scale-not-default"
		}
		c.Violate(vs, fmt.Sprintf("%+v: slot %d x=%g got %v, error 2^%.1f > 2^-%d (documented domain |x|>=2^-30, tested |x|>=2^-%d)", cc, wi, vals[wi], out[wi], math.Log2(worst), signTolBits, signAlphaBits), cc)
	}
	if cc.ScDev != 0 {
		return
	}
	// "This will ensure that sign.Scale = params.DefaultScale()"
	def := x.params.DefaultScale()
	c.Check(scaleClose(&res.Scale.Value, &def.Value, 100), sig+"|output-scale", func() string {
		return fmt.Sprintf("%+v: output scale %v, documented params.DefaultScale() = %v", cc, &res.Scale.Value, &def.Value)
	})
}

func runMaxMin(c *eng.Ctx, cc compCfg) {
	rnd := c.Rand()
	x, err := newCompCtx(cc.prec90())
	if err != nil {
		c.Inconclusive(err.Error())
		return
	}
	cmp := comparison.NewEvaluator(x.params, x.mm)
	slots := x.params.MaxSlots()
	a := make([]float64, slots)
	b := make([]float64, slots)
	for i := range a {
		a[i] = rnd.F64() - 0.5
		switch rnd.N(6) {
		case 0:
			b[i] = a[i] // equal operands
		case 1:
			b[i] = a[i] + math.Exp2(-signAlphaBits)*(1+rnd.F64())*sgn(rnd.F64()-0.5) // closest distinguishable
		case 2:
			a[i], b[i] = 0.5, -0.5
		case 3:
			a[i], b[i] = -0.5, 0.5
		default:
			b[i] = rnd.F64() - 0.5
		}
	}
	cta, err1 := x.encrypt(a, cc.Level, 0)
	ctb, err2 := x.encrypt(b, cc.Level, 0)
	if err1 != nil || err2 != nil {
		c.Inconclusive("encrypt")
		return
	}
	c.Distinct(fmt.Sprintf("maxmin/%s/logN%d/nq%d/lvl%d", cc.Ring, cc.LogN, cc.NQ, cc.Level), true)
	c.Sample(cc)
	for _, op := range []string{"Max", "Min"} {
		sig := "C13|comparison.Evaluator." + op
		var res *rlwe.Ciphertext
		if !c.Try(sig, func() {
			if op == "Max" {
				res, err = cmp.Max(cta, ctb)
			} else {
				res, err = cmp.Min(cta, ctb)
			}
		}) {
			continue
		}
		c.Count("composite_evaluations", 1)
		if err != nil {
			c.Eval(1)
			c.Violate(sig+"|unexpected-error", err.Error(), cc)
			continue
		}
		out, err := x.decode(res)
		if err != nil {
			c.Violate(sig+"|decode-error", err.Error(), cc)
			continue
		}
		// smooth extremum: step(a-b)*(a-b)+b with |step error| <= 2^-20 for |a-b| >= 2^-30, step in [0,1] (+-2^-20) otherwise
		tol := math.Exp2(-signTolBits+1) + math.Exp2(-signAlphaBits+1)
		worst, wi := 0.0, -1
		for i := range a {
			want := math.Max(a[i], b[i])
			if op == "Min" {
				want = math.Min(a[i], b[i])
			}
			if e := math.Hypot(real(out[i])-want, imag(out[i])); e > worst || math.IsNaN(e) {
				worst, wi = e, i
			}
		}
		c.Eval(slots)
		c.Max("max_maxmin_err_log2_plus100", int64(100+math.Max(-100, math.Log2(worst+1e-300))))
		if !(worst <= tol) {
			c.Violate(sig+"|wrong-value", fmt.Sprintf("%+v: slot %d a=%g b=%g got %v, error 2^%.1f", cc, wi, a[wi], b[wi], out[wi], math.Log2(worst)), cc)
		}
		// "This method ensures that max.Scale = params.DefaultScale" (same sentence for Min)
		def := x.params.DefaultScale()
		c.Check(scaleClose(&res.Scale.Value, &def.Value, 100), sig+"|output-scale", func() string {
			return fmt.Sprintf("%+v: output scale %v, documented params.DefaultScale = %v", cc, &res.Scale.Value, &def.Value)
		})
	}
}

// customPolys: f4 o f4 o ... (Cheon et al. 2019/1234) composites, with optional zero-padded variants whose degree is
// a power of two (the leading coefficient of a bignum.Polynomial may be zero).
func customPolys(k int, padTo int) minimax.Polynomial {
	var cs [][]string
	for i := 0; i < k; i++ {
		row := append([]string{}, minimax.CoeffsSignX4Cheby...)
		if padTo > 0 && i%2 == 1 {
			for len(row) < padTo+1 {
				row = append(row, "0")
			}
		}
		cs = append(cs, row)
	}
	return minimax.NewPolynomial(cs)
}

func runCustomSign(c *eng.Ctx, cc compCfg) {
	rnd := c.Rand()
	logq := []int{58}
	for i := 0; i < cc.NQ; i++ {
		logq = append(logq, 48)
	}
	lit := ckks.ParametersLiteral{LogN: cc.LogN, LogQ: logq, LogP: []int{60}, LogDefaultScale: 48, Xs: ring.Ternary{H: 16}}
	if cc.Ring == "ci" {
		lit.RingType = ring.ConjugateInvariant
	}
	x, err := newCompCtx(lit)
	if err != nil {
		c.Inconclusive(err.Error())
		return
	}
	stages := 2 + cc.Variant%3
	pad := 0
	pred := "degree-7"
	if cc.Variant >= 3 {
		pad, pred = 8, "degree-power-of-two"
	}
	polys := customPolys(stages, pad)
	slots := x.params.MaxSlots()
	// f4 is a contraction towards +-1 on [-1,1]; the oracle is the plaintext composite itself, evaluated
	// independently, with an error budget = base noise x product of the stage Lipschitz constants (f4' <= 35/16).
	vals := make([]float64, slots)
	for i := range vals {
		vals[i] = rnd.F64()*2 - 1
		switch rnd.N(8) {
		case 0:
			vals[i] = 1
		case 1:
			vals[i] = -1
		case 2:
			vals[i] = 0
		}
	}
	ct, err := x.encrypt(vals, cc.Level, 0)
	if err != nil {
		c.Inconclusive(err.Error())
		return
	}
	sig := "C13|minimax.Evaluator.Evaluate"
	var res *rlwe.Ciphertext
	c.Distinct(fmt.Sprintf("custom-sign/%s/logN%d/nq%d/lvl%d/st%d/pad%d", cc.Ring, cc.LogN, cc.NQ, cc.Level, stages, pad), true)
	c.Sample(cc)
	if !c.Try(sig, func() { res, err = x.mm.Evaluate(ct, polys) }) {
		return
	}
	c.Count("composite_evaluations", 1)
	if err != nil {
		c.Eval(1)
		c.Violate(sig+"|unexpected-error|"+pred, fmt.Sprintf("%+v (stages=%d, pad=%d): %v", cc, stages, pad, err), cc)
		return
	}
	out, err := x.decode(res)
	if err != nil {
		c.Violate(sig+"|decode-error", err.Error(), cc)
		return
	}
	coef := make([]cx, len(minimax.CoeffsSignX4Cheby))
	for i, s := range minimax.CoeffsSignX4Cheby {
		f, _, _ := big.ParseFloat(s, 10, refPrec, big.ToNearestEven)
		coef[i] = cxB(f, nil)
	}
	// worst-case base error per stage (N=2^logN, h=16, scale 2^48 at worst 2^44.5): see ckks.go; x stage Lipschitz 35/16 (+ slack)
	nn, hh := float64(x.params.N()), 16.0
	if cc.Ring == "ci" {
		nn, hh = 2*nn, 2*hh
	}
	base := 16 * (4*49*2 + 9) * (nn * (1 + hh + 21) / math.Exp2(44.5))
	tol := 0.0
	for s := 0; s < stages; s++ {
		tol = tol*2.5 + base
	}
	worst, wi := 0.0, -1
	for i, v := range vals {
		w := cxF(v, 0)
		for s := 0; s < stages; s++ {
			w = refCheb(coef, w)
		}
		wf, _ := w.re.Float64()
		if e := math.Hypot(real(out[i])-wf, imag(out[i])); e > worst || math.IsNaN(e) {
			worst, wi = e, i
		}
	}
	c.Eval(slots)
	if !(worst <= tol) {
		c.Violate(sig+"|wrong-value|"+pred, fmt.Sprintf("%+v: slot %d x=%g got %v, error 2^%.1f > 2^%.1f", cc, wi, vals[wi], out[wi], math.Log2(worst), math.Log2(tol)), cc)
	}
}

func runInverse(c *eng.Ctx, cc compCfg) {
	rnd := c.Rand()
	x, err := newCompCtx(cc.prec90())
	if err != nil {
		c.Inconclusive(err.Error())
		return
	}
	inv := inverse.NewEvaluator(x.params, x.mm)
	slots := x.params.MaxSlots()
	lo, hi := math.Exp2(cc.Log2Min), math.Exp2(cc.Log2Max)
	vals := make([]float64, slots)
	for i := range vals {
		var m float64
		switch rnd.N(6) {
		case 0:
			m = lo
		case 1:
			m = hi
		case 2:
			m = 1
		default:
			m = math.Exp2(cc.Log2Min + (cc.Log2Max-cc.Log2Min)*rnd.F64())
		}
		switch cc.Kind {
		case "inv-gold":
			// GoldschmidtDivisionNew: "values in the interval [0+2^{-log2min}, 2-2^{-log2min}]"
			m = lo + (2-2*lo)*rnd.F64()
			switch rnd.N(6) {
			case 0:
				m = lo
			case 1:
				m = 2 - lo
			}
		case "inv-neg":
			m = -m
		case "inv-full":
			if rnd.Bool() {
				m = -m
			}
		}
		vals[i] = m
	}
	ct, err := x.encrypt(vals, cc.Level, 0)
	if err != nil {
		c.Inconclusive(err.Error())
		return
	}
	name := map[string]string{"inv-gold": "GoldschmidtDivisionNew", "inv-pos": "EvaluatePositiveDomainNew", "inv-neg": "EvaluateNegativeDomainNew", "inv-full": "EvaluateFullDomainNew"}[cc.Kind]
	sig := "C13|inverse.Evaluator." + name
	var res *rlwe.Ciphertext
	c.Distinct(fmt.Sprintf("%s/%s/logN%d/nq%d/lvl%d/min%v/max%v", cc.Kind, cc.Ring, cc.LogN, cc.NQ, cc.Level, cc.Log2Min, cc.Log2Max), true)
	c.Sample(cc)
	if !c.Try(sig, func() {
		switch cc.Kind {
		case "inv-gold":
			res, err = inv.GoldschmidtDivisionNew(ct, cc.Log2Min)
		case "inv-pos":
			res, err = inv.EvaluatePositiveDomainNew(ct, cc.Log2Min, cc.Log2Max)
		case "inv-neg":
			res, err = inv.EvaluateNegativeDomainNew(ct, cc.Log2Min, cc.Log2Max)
		case "inv-full":
			res, err = inv.EvaluateFullDomainNew(ct, cc.Log2Min, cc.Log2Max)
		}
	}) {
		return
	}
	c.Count("composite_evaluations", 1)
	if err != nil {
		c.Eval(1)
		c.Violate(sig+"|unexpected-error", err.Error(), cc)
		return
	}
	out, err := x.decode(res)
	if err != nil {
		c.Violate(sig+"|decode-error", err.Error(), cc)
		return
	}
	// relative error of the inverse: the Goldschmidt iteration count is chosen by the library for a relative error
	// (1-x)^(2^iters) below the scheme precision 2^-(logscale-logN+1); 2^-30 is far above it and far below any
	// structural fault (a skipped iteration at x = 2^log2min leaves an error of order 1)
	// (frozen floor: the worst relative error observed on the unchanged tree over the thorough tier of this family
	// - scale 2^90 - is 2^-53; the documented target is N/2/scale ~ 2^-80)
	tol := math.Exp2(-30)
	worst, wi := 0.0, -1
	for i, v := range vals {
		if e := math.Hypot(real(out[i])*v-1, imag(out[i])*v); e > worst || math.IsNaN(e) {
			worst, wi = e, i
		}
	}
	c.Eval(slots)
	c.Max("max_inverse_relerr_log2_plus100", int64(100+math.Max(-100, math.Log2(worst+1e-300))))
	if !(worst <= tol) {
		c.Violate(sig+"|wrong-value", fmt.Sprintf("%+v: slot %d x=%g got %v want %g, relative error 2^%.1f", cc, wi, vals[wi], out[wi], 1/vals[wi], math.Log2(worst)), cc)
	}
}

// ---------------------------------------------------------------------------------------------
// mod1: the three parameterisations the tree itself ships and tests, on inputs at the edges of the
// documented range (|integer part| <= K-1, |message| <= Q/MessageRatio), judged against the scaled
// sine the circuit documents (mod1_evaluator.go / mod1_parameters.go), as the in-tree test does.

var mod1Lits = []mod1.ParametersLiteral{
	{LevelQ: 12, Mod1Type: mod1.SinContinuous, LogMessageRatio: 8, K: 14, Mod1Degree: 127, Mod1InvDegree: 7, LogScale: 60},
	{LevelQ: 12, Mod1Type: mod1.CosDiscrete, LogMessageRatio: 8, K: 12, Mod1Degree: 30, DoubleAngle: 3, LogScale: 60},
	{LevelQ: 12, Mod1Type: mod1.CosContinuous, LogMessageRatio: 4, K: 325, Mod1Degree: 177, DoubleAngle: 4, LogScale: 60},
}

func runMod1(c *eng.Ctx, cc compCfg) {
	rnd := c.Rand()
	lit := ckks.ParametersLiteral{LogN: cc.LogN, LogQ: []int{55, 60, 60, 60, 60, 60, 60, 60, 60, 60, 60, 60, 60, 53}, LogP: []int{61, 61, 61, 61, 61},
		Xs: ring.Ternary{H: 192}, LogDefaultScale: 45}
	// half of the cases hand the circuit an input one level above Mod1Parameters.LevelQ (it "drops the level of
	// ct to LevelQ"), under a prime of another size than the ones the circuit works with
	above := rnd.Bool()
	if above {
		// (the primes the double-angle steps divide by alternate between 58 and 60 bits: a scale built from the
		// primes of the wrong levels is then off by a visible factor)
		lit.LogQ = []int{55, 60, 58, 60, 58, 60, 58, 60, 58, 60, 60, 60, 60, 50, 53}
		c.Count("mod1_inputs_above_LevelQ", 1)
	}
	x, err := newCompCtx(lit)
	if err != nil {
		c.Inconclusive(err.Error())
		return
	}
	evm := mod1Lits[cc.Variant%3]
	sig := "C13|mod1.Evaluator.EvaluateNew"
	// half of the cases go through EvaluateAndScaleNew: same circuit, output documented as scaling * (x mod 1)
	scaling := 1.0
	if rnd.Bool() {
		scaling = eng.Pick(rnd, 0.5, 0.25, 0.75)
		sig = "C13|mod1.Evaluator.EvaluateAndScaleNew"
		c.Count("mod1_evaluations_with_output_scaling", 1)
	}
	mp, err := mod1.NewParametersFromLiteral(x.params, evm)
	if err != nil {
		c.Violate("C13|mod1.NewParametersFromLiteral|unexpected-error", err.Error(), cc)
		return
	}
	slots := x.params.MaxSlots()
	K := mp.K - 1
	Q := mp.QDiff * mp.MessageRatio()
	vals := make([]float64, slots)
	for i := range vals {
		ip := math.Round((rnd.F64()*2 - 1) * K)
		fr := rnd.F64()*2 - 1
		switch rnd.N(8) {
		case 0:
			ip = K
		case 1:
			ip = -K
		case 2:
			fr = 1
		case 3:
			fr = -1
		case 4:
			ip = 0
		}
		vals[i] = ip*Q + fr
	}
	vals[0] = K*Q + 0.5
	ct, err := x.encrypt(vals, -1, 0)
	if err != nil {
		c.Inconclusive(err.Error())
		return
	}
	c.Distinct(fmt.Sprintf("mod1/logN%d/type%d/scaled%v", cc.LogN, evm.Mod1Type, scaling != 1), true)
	c.Sample(map[string]any{"cfg": cc, "mod1": evm})
	var res *rlwe.Ciphertext
	if !c.Try(sig, func() {
		eval := x.eval
		// the in-tree recipe bringing the message to the scale the circuit expects
		scale := rlwe.NewScale(math.Exp2(math.Round(math.Log2(float64(x.params.Q()[0]) / mp.MessageRatio()))))
		scale = scale.Div(ct.Scale)
		if err = eval.ScaleUp(ct, rlwe.NewScale(math.Round(scale.Float64())), ct); err != nil {
			return
		}
		scale = mp.ScalingFactor().Div(ct.Scale)
		scale = scale.Div(rlwe.NewScale(mp.MessageRatio()))
		if err = eval.ScaleUp(ct, rlwe.NewScale(math.Round(scale.Float64())), ct); err != nil {
			return
		}
		if err = eval.Mul(ct, 1/(mp.K*mp.QDiff), ct); err != nil {
			return
		}
		if err = eval.Rescale(ct, ct); err != nil {
			return
		}
		me := mod1.NewEvaluator(eval, ckkspoly.NewEvaluator(x.params, eval), mp)
		if scaling != 1 {
			res, err = me.EvaluateAndScaleNew(ct, complex(scaling, 0))
		} else {
			res, err = me.EvaluateNew(ct)
		}
	}) {
		return
	}
	c.Count("composite_evaluations", 1)
	if err != nil {
		c.Eval(1)
		c.Violate(sig+"|unexpected-error", err.Error(), cc)
		return
	}
	out, err := x.decode(res)
	if err != nil {
		c.Violate(sig+"|decode-error", err.Error(), cc)
		return
	}
	worst, wi := 0.0, -1
	for i, v := range vals {
		w := v / mp.MessageRatio() / mp.QDiff
		w = math.Sin(2 * math.Pi * w)
		if evm.Mod1InvDegree > 0 {
			w = math.Asin(w)
		}
		w = w * mp.MessageRatio() * mp.QDiff / (2 * math.Pi)
		w *= scaling
		if e := math.Hypot(real(out[i])-w, imag(out[i])); e > worst || math.IsNaN(e) {
			worst, wi = e, i
		}
	}
	c.Eval(slots)
	c.Max("max_mod1_err_log2_plus100", int64(100+math.Max(-100, math.Log2(worst+1e-300))))
	// the tree's own acceptance for these parameter sets is an average precision of 45-logN-2 bits; the worst slot
	// is allowed 2^-20 here (measured 2^-31) (message magnitude 1): a wrong coefficient, a missing double-angle step or a wrong
	// target scale moves the result by >= 2^-3
	if !(worst <= math.Exp2(-20)) {
		c.Violate(sig+"|wrong-value", fmt.Sprintf("%+v type=%d: slot %d x=%g got %v, error 2^%.1f", cc, evm.Mod1Type, wi, vals[wi], out[wi], math.Log2(worst)), cc)
	}
	// refusal: "cannot Evaluate: ct.Level() < Mod1Parameters.LevelQ" - an error, never a panic, for an input below LevelQ
	low, lerr := x.encrypt(vals, evm.LevelQ-1, 0)
	if lerr != nil {
		return
	}
	var rerr error
	panicked, pv := eng.Panics(func() {
		_, rerr = mod1.NewEvaluator(x.eval, ckkspoly.NewEvaluator(x.params, x.eval), mp).EvaluateNew(low)
	})
	c.Eval(1)
	c.Count("refusal_checks", 1)
	switch {
	case panicked:
		c.Violate("C13|mod1.Evaluator.EvaluateNew|too-few-levels|panic", fmt.Sprintf("%+v: input at level %d < LevelQ = %d: %v", cc, low.Level(), evm.LevelQ, pv), cc)
	case rerr == nil:
		c.Violate("C13|mod1.Evaluator.EvaluateNew|too-few-levels|not-refused", fmt.Sprintf("%+v: input at level %d < LevelQ = %d evaluated without error", cc, low.Level(), evm.LevelQ), cc)
	default:
		c.Count("errors_observed", 1)
	}
}

func drawComposite(r *eng.Rand, idx int, tier string) compCfg {
	kinds := []string{"sign", "step", "maxmin", "custom-sign", "custom-sign", "inv-gold", "inv-pos", "inv-neg", "inv-full", "mod1", "mod1", "mod1"}
	cc := compCfg{Idx: idx, Kind: kinds[idx%len(kinds)], Variant: idx / len(kinds)}
	logNs := []int{6, 7, 8}
	if tier == "thorough" {
		logNs = []int{6, 7, 8, 9, 10}
	}
	cc.LogN = eng.Pick(r, logNs...)
	cc.Ring = eng.Pick(r, "std", "ci")
	// 10 or 12 primes of 45 bits, consumed in pairs (scale 2^90); the default sign composite has polynomials of
	// depth 5, i.e. needs 10 levels above level 1
	cc.NQ = 10 + 2*r.N(2)
	max := cc.NQ + 1
	switch r.N(3) {
	case 0:
		cc.Level = max
	case 1:
		cc.Level = 1 + r.N(max)
	default:
		cc.Level = 1 + 2*r.N(max/2)
	}
	if cc.Kind == "maxmin" && cc.Level == 4 {
		cc.Level = 5 // a level-4 input would leave the product at level 0, below the 2^90 scale
	}
	if len(cc.Kind) > 4 && cc.Kind[:4] == "inv-" && cc.Level%2 == 0 {
		cc.Level++ // Goldschmidt consumes levels in pairs down to the refresh level 1: odd input levels only
	}
	switch cc.Kind {
	case "sign", "step":
		if cc.Variant%2 == 1 {
			cc.ScDev = eng.Pick(r, 0.01, -0.02, 0.3)
		}
	case "custom-sign":
		cc.NQ = 4 + r.N(6)
		cc.Level = 1 + r.N(cc.NQ)
		if r.Bool() {
			cc.Level = cc.NQ
		}
		cc.Variant = r.N(3)
		if idx%len(kinds) == 4 {
			// second custom-sign entry: stages of degree 8 = 2^3 (zero leading coefficient)
			cc.Variant += 3
			if r.Bool() {
				// boundary: the degree-8 stage is reached with exactly bignum.Polynomial.Depth() = 3 levels left
				cc.NQ = 6 + r.N(4)
				cc.Level = 6
			}
		}
	case "inv-gold":
		cc.Log2Min = -float64(2 + r.N(15))
	case "inv-pos", "inv-neg", "inv-full":
		cc.Log2Min = -float64(2 + r.N(12))
		cc.Log2Max = float64(eng.Pick(r, 0, 0, 2, 5))
		// the bounds are real numbers. One case in three per entry point is the corner in which the interval barely
		// leaves (0, 1] while its lower end is next to 1 (the upper end is then the point farthest from 1, the one
		// that decides how many iterations are needed); another one has generic non-integer bounds.
		switch cc.Variant % 3 {
		case 1:
			cc.Log2Min = -eng.Pick(r, 0.25, 0.5, 0.75)
			cc.Log2Max = eng.Pick(r, 0.9, 0.95, 0.99)
		case 2:
			if r.Bool() {
				cc.Log2Min = -eng.Pick(r, 0.5, 2.5, 3.3)
				cc.Log2Max = eng.Pick(r, 0.3, 0.5, 1.5, 2.7)
			}
		}
	case "mod1":
		cc.LogN = eng.Pick(r, 8, 8, 9)
		if tier == "thorough" {
			cc.LogN = eng.Pick(r, 8, 9, 10)
		}
		cc.Ring = "std"
		cc.Variant = idx%len(kinds) - 9
	}
	return cc
}
