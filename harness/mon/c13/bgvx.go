package c13

import (
	"bytes"
	"fmt"
	"math/big"

	bgvpoly "github.com/tuneinsight/lattigo/v6/circuits/bgv/polynomial"
	"github.com/tuneinsight/lattigo/v6/circuits/common/polynomial"
	"github.com/tuneinsight/lattigo/v6/core/rlwe"
	"github.com/tuneinsight/lattigo/v6/schemes/bgv"
	"github.com/tuneinsight/lattigo/v6/utils/bignum"

	"verif/harness/eng"
)

// Extension families of the BGV polynomial evaluator (coverage audit). Same parameter rule and same exact
// oracle as bgv.go; what changes is the part of the input space that is reached:
//
//	bgvx/coeff  : coefficient domain of the generic constructors (bgv.Integer = int64 | uint64): signed
//	              coefficients incl. negative ones, -1, MinInt64; unreduced uint64 coefficients (>= t, 2^63, 2^64-1)
//	bgvx/vecmix : polynomial vectors whose members differ in sparsity / parity flags (the evaluator takes most
//	              decisions from member 0), a one-member vector without mapping
//	bgvx/pbseq  : one PowerBasis shared by a sequence of polynomials (lazy and not), powers pre-generated with
//	              lazy = true, a literal PowerBasis that shares the caller's ciphertext; PowerBasis.GenPower judged
//	              directly (value, level, degree)
//	bgvx/refuse : refusal through every entry point / polynomial type / scale, malformed arguments (empty basis,
//	              pointer polynomial, unsupported type): an error, never a panic, operands left intact
type bgvxCfg struct {
	bgvCfg
	Kind string `json:"kind"`
}

var bgvxKinds = []string{"coeff", "vecmix", "pbseq", "refuse"}

func drawBGVX(r *eng.Rand, idx int, tier string) (bgvxCfg, bool) {
	cfg, ok := drawBGV(r, idx, tier)
	if !ok {
		return bgvxCfg{}, false
	}
	return bgvxCfg{bgvCfg: cfg, Kind: bgvxKinds[idx%len(bgvxKinds)]}, true
}

type bgvxEnv struct {
	cfg    bgvxCfg
	params bgv.Parameters
	sk     *rlwe.SecretKey
	evk    rlwe.EvaluationKeySet
	ecd    *bgv.Encoder
	enc    *rlwe.Encryptor
	dec    *rlwe.Decryptor
	slots  int
	t      uint64
}

// evaluators: a third of the parameter sets work on an evaluator obtained through ShallowCopy, a third on one obtained
// through WithKey (from an evaluator built without keys), the rest on the constructor's.
func (e *bgvxEnv) evaluators(inv bool) (*bgv.Evaluator, *bgvpoly.Evaluator) {
	eval := bgv.NewEvaluator(e.params, e.evk, inv)
	switch e.cfg.Idx % 3 {
	case 1:
		eval = eval.ShallowCopy()
	case 2:
		eval = bgv.NewEvaluator(e.params, nil, inv).WithKey(e.evk)
	}
	return eval, bgvpoly.NewEvaluator(e.params, eval)
}

// levels: the number of levels an evaluation of the given degree consumes (need) and the lowest input level
// the workload uses (min), with the same noise rule as runBGV.
func (e *bgvxEnv) levels(inv bool, deg int) (need, min int) {
	need = ceilLog2p1(deg)
	min = need
	if inv {
		need = 0
		min = ceilLog2(deg)
		if min == 0 && float64(e.cfg.QBits) < 2*log2u(e.t)+float64(e.cfg.LogN)+14 {
			min = 1
		}
	}
	return
}

func runBGVX(c *eng.Ctx, cfg bgvxCfg) {
	params, err := bgv.NewParametersFromLiteral(bgv.ParametersLiteral{LogN: cfg.LogN, Q: cfg.Q, P: cfg.P, PlaintextModulus: cfg.T})
	if err != nil {
		c.Inconclusive(fmt.Sprintf("parameters rejected: %v", err))
		return
	}
	kgen := rlwe.NewKeyGenerator(params)
	e := &bgvxEnv{cfg: cfg, params: params, t: cfg.T, slots: params.MaxSlots()}
	e.sk = kgen.GenSecretKeyNew()
	e.evk = rlwe.NewMemEvaluationKeySet(kgen.GenRelinearizationKeyNew(e.sk))
	e.ecd = bgv.NewEncoder(params)
	e.enc = rlwe.NewEncryptor(params, e.sk)
	e.dec = rlwe.NewDecryptor(params, e.sk)
	c.Sample(map[string]any{"kind": "bgvx/" + cfg.Kind, "cfg": cfg.bgvCfg, "slots": e.slots})
	c.Count([]string{"evaluator_from_constructor", "evaluator_from_shallowcopy", "evaluator_from_withkey"}[cfg.Idx%3], 1)
	switch cfg.Kind {
	case "coeff":
		bgvxCoeff(c, e)
	case "vecmix":
		bgvxVecMix(c, e)
	case "pbseq":
		bgvxPBSeq(c, e)
	case "refuse":
		bgvxRefuse(c, e)
	}
}

func metaSame(a, b *rlwe.MetaData) bool {
	return a.LogDimensions == b.LogDimensions && a.IsBatched == b.IsBatched && a.IsBitReversed == b.IsBitReversed &&
		a.IsNTT == b.IsNTT && a.IsMontgomery == b.IsMontgomery
}

func ctBytes(ct *rlwe.Ciphertext) []byte {
	b, err := ct.MarshalBinary()
	if err != nil {
		return nil
	}
	return b
}

// bgvxJudge applies the whole contract to one result: no error, level, scale, degree, metadata, values.
// want(j) is the expected value of slot j; unmapped(j) tells whether slot j lies outside every mapping.
func bgvxJudge(c *eng.Ctx, e *bgvxEnv, sigp, pred string, desc any, in *rlwe.MetaData, res *rlwe.Ciphertext, err error,
	inLevel, need int, tgt uint64, want func(j int) uint64, unmapped func(j int) bool) bool {
	wit := map[string]any{"cfg": e.cfg, "job": desc}
	if err != nil {
		c.Eval(1)
		c.Violate(sigp+"|unexpected-error|"+pred, fmt.Sprintf("%+v: %v", desc, err), wit)
		return false
	}
	c.Check(res.Level() == inLevel-need, sigp+"|levels-consumed|"+pred, func() string {
		return fmt.Sprintf("%+v: output level %d, documented %d - %d", desc, res.Level(), inLevel, need)
	})
	c.Check(res.Scale.Uint64() == tgt, sigp+"|output-scale|"+pred, func() string {
		return fmt.Sprintf("%+v: output scale %d, requested %d", desc, res.Scale.Uint64(), tgt)
	})
	c.Check(res.Degree() == 1, sigp+"|output-degree", func() string { return fmt.Sprintf("%+v: degree %d", desc, res.Degree()) })
	c.Check(metaSame(res.MetaData, in), sigp+"|output-metadata", func() string {
		return fmt.Sprintf("%+v: output metadata %+v / %+v, input %+v / %+v", desc, res.PlaintextMetaData, res.CiphertextMetaData, in.PlaintextMetaData, in.CiphertextMetaData)
	})
	c.Count("metadata_checks", 1)
	out := make([]uint64, e.slots)
	var derr error
	if !c.Try(sigp+"|decode", func() { derr = e.ecd.Decode(e.dec.DecryptNew(res), out) }) || derr != nil {
		c.Violate(sigp+"|decode-error", fmt.Sprint(derr), desc)
		return false
	}
	bad, badU := -1, -1
	for j := 0; j < e.slots; j++ {
		if out[j] != want(j) {
			if unmapped != nil && unmapped(j) {
				if badU < 0 {
					badU = j
				}
			} else if bad < 0 {
				bad = j
			}
		}
	}
	c.Eval(e.slots)
	c.Count("bgv_slots_checked", int64(e.slots))
	if bad >= 0 {
		c.Violate(sigp+"|wrong-value|"+pred, fmt.Sprintf("%+v: slot %d got=%d want=%d (t=%d)", desc, bad, out[bad], want(bad), e.t), wit)
		return false
	}
	if badU >= 0 {
		c.Violate(sigp+"|unmapped-slot-nonzero|"+pred, fmt.Sprintf("%+v: slot %d is in no mapping but decodes to %d", desc, badU, out[badU]), wit)
		return false
	}
	return true
}

// ---------------------------------------------------------------------------------------------
// bgvx/coeff

type bgvxCoeffJob struct {
	Mode    string   `json:"mode"`
	Deg     int      `json:"deg"`
	Type    string   `json:"type"` // int64 | uint64
	API     string   `json:"api"`
	Neg     bool     `json:"has_negative"`
	Level   int      `json:"level"`
	InScale uint64   `json:"in_scale"`
	Tgt     uint64   `json:"target_scale"`
	I64     []int64  `json:"i64,omitempty"`
	U64     []uint64 `json:"u64,omitempty"`
}

func modT(v *big.Int, t uint64) uint64 {
	return new(big.Int).Mod(v, new(big.Int).SetUint64(t)).Uint64()
}

func bgvxCoeff(c *eng.Ctx, e *bgvxEnv) {
	rnd := c.Rand()
	t := e.t
	maxLevel := e.params.MaxLevel()
	for _, mode := range []string{"standard", "invariant"} {
		inv := mode == "invariant"
		_, pe := e.evaluators(inv)
		depth := maxLevel
		if inv {
			depth = maxLevel + 1
		}
		maxDeg := (1 << depth) - 1
		if maxDeg > 17 {
			maxDeg = 17
		}
		for rep := 0; rep < 7; rep++ {
			job := bgvxCoeffJob{Mode: mode}
			job.Deg = eng.Pick(rnd, 1, 2, 3, 3, 4, 5, 7, 8, 9, 15, 16, 17)
			if job.Deg > maxDeg {
				job.Deg = 1 + rnd.N(maxDeg)
			}
			need, minLevel := e.levels(inv, job.Deg)
			if minLevel > maxLevel {
				continue
			}
			job.Level = minLevel + rnd.N(maxLevel-minLevel+1)
			job.InScale, job.Tgt = 1, 1
			if rnd.Bool() {
				job.InScale = 1 + rnd.U64()%(t-1)
			}
			if rnd.Bool() {
				job.Tgt = 1 + rnd.U64()%(t-1)
			}
			job.Type = eng.Pick(rnd, "int64", "int64", "uint64")
			job.API = eng.Pick(rnd, "poly", "vec", "bignum")
			red := make([]uint64, job.Deg+1) // the coefficients as residues mod t: the reference
			tb := new(big.Int).SetUint64(t)
			if job.Type == "int64" {
				job.Neg = rep%2 == 0
				job.I64 = make([]int64, job.Deg+1)
				for k := range job.I64 {
					v := int64(rnd.U64() % t)
					switch rnd.N(8) {
					case 0:
						v = 0
					case 1:
						v = 1
					case 2:
						v = int64(rnd.U64() >> 1) // large positive, unreduced
					}
					if job.Neg {
						switch rnd.N(6) {
						case 0:
							v = -1
						case 1:
							v = -int64(rnd.U64() % t)
						case 2:
							v = -int64(rnd.U64() >> 1)
						case 3:
							v = -1 << 63 // MinInt64
						}
					}
					job.I64[k] = v
				}
				if job.Neg {
					// at least one negative coefficient
					job.I64[rnd.N(job.Deg+1)] = -1 - int64(rnd.U64()%(t-1))
				}
				for k, v := range job.I64 {
					red[k] = modT(big.NewInt(v), t)
				}
			} else {
				job.U64 = make([]uint64, job.Deg+1)
				for k := range job.U64 {
					v := rnd.U64() % t
					switch rnd.N(6) {
					case 0:
						v += t * (rnd.U64() % (^uint64(0)/t - 1)) // same residue, unreduced
					case 1:
						v = ^uint64(0)
					case 2:
						v = 1 << 63
					case 3:
						v = t // = 0 mod t
					}
					job.U64[k] = v
					red[k] = new(big.Int).Mod(new(big.Int).SetUint64(v), tb).Uint64()
				}
			}
			var mapping map[int][]int
			owner := make([]int, e.slots)
			var pol interface{}
			var cerr error
			built := c.Try("C13|bgv/polynomial.NewPolynomial", func() {
				switch {
				case job.API == "vec":
					mapping, owner = randMapping(rnd, 1, e.slots)
					if job.Type == "int64" {
						pol, cerr = bgvpoly.NewPolynomialVector([][]int64{job.I64}, mapping)
					} else {
						pol, cerr = bgvpoly.NewPolynomialVector([][]uint64{job.U64}, mapping)
					}
				case job.API == "bignum" && job.Type == "int64":
					pol = bignum.NewPolynomial(bignum.Monomial, job.I64, nil)
				case job.API == "bignum":
					pol = bignum.NewPolynomial(bignum.Monomial, job.U64, nil)
				case job.Type == "int64":
					pol = bgvpoly.NewPolynomial(job.I64)
				default:
					pol = bgvpoly.NewPolynomial(job.U64)
				}
			})
			if !built {
				continue
			}
			if cerr != nil {
				c.Violate("C13|bgv/polynomial.NewPolynomialVector|unexpected-error", cerr.Error(), job)
				continue
			}
			vals, ct, err := bgvInput(rnd, e.params, e.ecd, e.enc, job.Level, job.InScale, e.slots)
			if err != nil {
				c.Inconclusive("input encryption failed: " + err.Error())
				return
			}
			sigp := "C13|bgv/polynomial.Evaluator.Evaluate"
			// the discriminating predicate is a property of the generated polynomial, not of the failure
			pred := "unreduced-uint64-coefficient"
			if job.Type == "int64" {
				pred = "int64-coefficient"
				if job.Neg {
					pred = "negative-int64-coefficient"
				}
			}
			var res *rlwe.Ciphertext
			in := ct.MetaData.CopyNew()
			if !c.Try(sigp, func() { res, err = pe.Evaluate(ct, pol, e.params.NewScale(job.Tgt)) }) {
				continue
			}
			c.Distinct(fmt.Sprintf("bgvx/coeff/%s/d%d/%s/%s/neg%v/lvl%s", mode, job.Deg, job.Type, job.API, job.Neg, levelClass(job.Level, need, maxLevel)), true)
			c.Count("bgv_evaluations", 1)
			c.Count("bgvx_coefficient_domain_evaluations", 1)
			if job.Neg {
				c.Count("bgvx_negative_coefficient_evaluations", 1)
			}
			vec := job.API == "vec"
			bgvxJudge(c, e, sigp, pred, job, in, res, err, job.Level, need, job.Tgt, func(j int) uint64 {
				if vec && owner[j] < 0 {
					return 0
				}
				return refModT(red, vals[j], t)
			}, func(j int) bool { return vec && owner[j] < 0 })
		}
	}
}

// ---------------------------------------------------------------------------------------------
// bgvx/vecmix

type bgvxVecJob struct {
	Mode    string   `json:"mode"`
	Deg     int      `json:"deg"`
	Shapes  []string `json:"shapes"`
	Flags   string   `json:"flag_mode"`
	NilMap  bool     `json:"nil_mapping"`
	API     string   `json:"api"`
	Lazy    bool     `json:"lazy"`
	Level   int      `json:"level"`
	InScale uint64   `json:"in_scale"`
	Tgt     uint64   `json:"target_scale"`
}

// drawMemberShape draws the shape of member i of a mixed vector for a flag mode:
//
//	"none"    no member carries a parity flag (the members still differ in sparsity)
//	"uniform" every member carries the same parity flag
//	"differ"  the members differ in their parity flags (at least one flagged, at least one different)
func drawMemberShape(rnd *eng.Rand, mode string, i int, first string) string {
	switch mode {
	case "uniform":
		return first
	case "differ":
		if i == 0 {
			return first
		}
		if i == 1 {
			// guaranteed to differ from member 0
			if first == shOdd {
				return eng.Pick(rnd, shEven, shDense, shSparse, shZLead)
			}
			return eng.Pick(rnd, shOdd, shDense, shSparse, shZLead)
		}
		return eng.Pick(rnd, memberShapes...)
	}
	return eng.Pick(rnd, shDense, shSparse, shOddNoFlag, shEvnNoFlag, shZLead, shZTrail, shMono, shZero)
}

func drawFlagMode(rnd *eng.Rand) (mode, first string) {
	mode = eng.Pick(rnd, "none", "none", "none", "uniform", "differ")
	first = eng.Pick(rnd, shOdd, shEven)
	return
}

// vecPred is the discriminating predicate of a mixed-vector case.
func vecPred(mode string, lazy bool) string {
	switch {
	case mode == "differ":
		return "vector-members-differ-in-parity-flags"
	case mode == "uniform":
		return "vector-uniform-parity-flag"
	case lazy:
		return "mixed-vector-lazy"
	}
	return "mixed-vector"
}

// tryPred runs f; a panic is reported under sigp|panic|pred.
func tryPred(c *eng.Ctx, sigp, pred string, f func()) bool {
	if p, v := eng.Panics(f); p {
		c.Eval(1)
		c.Violate(sigp+"|panic|"+pred, fmt.Sprintf("panic: %v", v), nil)
		return false
	}
	return true
}

// memberShapes: shapes a member of a mixed vector may take (all-zero members and zero leading coefficients
// included: NewPolynomialVector only asks for equal lengths).
var memberShapes = []string{shDense, shSparse, shOdd, shEven, shOddNoFlag, shEvnNoFlag, shZLead, shZTrail, shMono, shZero}

func bgvxVecMix(c *eng.Ctx, e *bgvxEnv) {
	rnd := c.Rand()
	t := e.t
	maxLevel := e.params.MaxLevel()
	for _, mode := range []string{"standard", "invariant"} {
		inv := mode == "invariant"
		eval, pe := e.evaluators(inv)
		depth := maxLevel
		if inv {
			depth = maxLevel + 1
		}
		maxDeg := (1 << depth) - 1
		if maxDeg > e.cfg.Cap {
			maxDeg = e.cfg.Cap
		}
		for rep := 0; rep < 8; rep++ {
			job := bgvxVecJob{Mode: mode}
			job.Deg = eng.Pick(rnd, 2, 3, 4, 5, 6, 7, 8, 9, 12, 15, 16, 17, 24, 31, 33)
			if job.Deg > maxDeg {
				job.Deg = 1 + rnd.N(maxDeg)
			}
			need, minLevel := e.levels(inv, job.Deg)
			if minLevel > maxLevel {
				continue
			}
			job.Level = minLevel + rnd.N(maxLevel-minLevel+1)
			if rnd.N(3) == 0 {
				job.Level = minLevel
			}
			job.InScale, job.Tgt = 1, 1
			if rnd.Bool() {
				job.InScale = 1 + rnd.U64()%(t-1)
			}
			if rnd.Bool() {
				job.Tgt = 1 + rnd.U64()%(t-1)
			}
			npoly := 2 + rnd.N(3)
			job.NilMap = rep == 7
			if job.NilMap {
				npoly = 1 // a vector of one polynomial without a mapping evaluates that polynomial on every slot
			}
			job.API = eng.Pick(rnd, "ct", "ct", "pb")
			coeffs := make([][]uint64, npoly)
			flags := make([][2]bool, npoly)
			mode, first := drawFlagMode(rnd)
			if npoly == 1 && mode == "differ" {
				mode = "uniform"
			}
			job.Flags = mode
			for i := 0; i < npoly; i++ {
				sh := drawMemberShape(rnd, mode, i, first)
				job.Shapes = append(job.Shapes, sh)
				mask, isOdd, isEven := shapeMask(rnd, sh, job.Deg)
				coeffs[i] = make([]uint64, job.Deg+1)
				for k := range coeffs[i] {
					// members of a uniformly flagged vector still differ in sparsity
					if mask[k] && !(mode == "uniform" && i > 0 && rnd.N(4) == 0) {
						coeffs[i][k] = pickCoeffT(rnd, t)
					}
				}
				flags[i] = [2]bool{isOdd, isEven}
			}
			job.Lazy = mode == "none" && rnd.N(4) == 0
			var mapping map[int][]int
			owner := make([]int, e.slots)
			if !job.NilMap {
				mapping, owner = randMapping(rnd, npoly, e.slots)
			}
			pv, err := bgvpoly.NewPolynomialVector(coeffs, mapping)
			if err != nil {
				c.Violate("C13|bgv/polynomial.NewPolynomialVector|unexpected-error", err.Error(), job)
				continue
			}
			for i := range pv.Value {
				pv.Value[i].IsOdd, pv.Value[i].IsEven = flags[i][0], flags[i][1]
				pv.Value[i].Lazy = job.Lazy
			}
			c.Check(pv.Depth() == ceilLog2(job.Deg), "C13|bgv/polynomial.PolynomialVector.Depth|wrong-value", func() string {
				return fmt.Sprintf("degree %d: Depth()=%d", job.Deg, pv.Depth())
			})
			vals, ct, err := bgvInput(rnd, e.params, e.ecd, e.enc, job.Level, job.InScale, e.slots)
			if err != nil {
				c.Inconclusive("input encryption failed: " + err.Error())
				return
			}
			sigp := "C13|bgv/polynomial.Evaluator.Evaluate"
			pred := vecPred(mode, job.Lazy)
			in := ct.MetaData.CopyNew()
			before := ctBytes(ct)
			var res *rlwe.Ciphertext
			if !tryPred(c, sigp, pred, func() {
				if job.API == "ct" {
					res, err = pe.Evaluate(ct, pv, e.params.NewScale(job.Tgt))
				} else {
					pb := polynomial.NewPowerBasis(ct, bignum.Monomial)
					if rnd.Bool() && ceilLog2(3) <= job.Level {
						if err = pb.GenPower(3, false, eval); err != nil {
							return
						}
					}
					res, err = pe.EvaluateFromPowerBasis(pb, pv, e.params.NewScale(job.Tgt))
				}
			}) {
				continue
			}
			c.Distinct(fmt.Sprintf("bgvx/vecmix/%s/d%d/%s/%v/%s/lazy%v/lvl%s", job.Mode, job.Deg, job.Flags, job.Shapes, job.API, job.Lazy, levelClass(job.Level, need, maxLevel)), true)
			c.Count("bgv_evaluations", 1)
			c.Count("bgvx_mixed_vector_evaluations", 1)
			bgvxJudge(c, e, sigp, pred, job, in, res, err, job.Level, need, job.Tgt, func(j int) uint64 {
				if job.NilMap {
					return refModT(coeffs[0], vals[j], t)
				}
				if owner[j] < 0 {
					return 0
				}
				return refModT(coeffs[owner[j]], vals[j], t)
			}, func(j int) bool { return !job.NilMap && owner[j] < 0 })
			c.Check(bytes.Equal(before, ctBytes(ct)), sigp+"|input-modified", func() string { return fmt.Sprintf("%+v: the input ciphertext changed", job) })
		}
	}
}

// ---------------------------------------------------------------------------------------------
// bgvx/pbseq

type bgvxSeqStep struct {
	Deg   int    `json:"deg"`
	Shape string `json:"shape"`
	NPoly int    `json:"npoly"`
	Lazy  bool   `json:"lazy"`
	Tgt   uint64 `json:"target_scale"`
	// HeldDeg2: the basis held a non-relinearised power when the call was made
	HeldDeg2 bool `json:"basis_held_degree2"`
}

type bgvxSeqJob struct {
	Mode    string        `json:"mode"`
	Level   int           `json:"level"`
	InScale uint64        `json:"in_scale"`
	Origin  string        `json:"origin"` // new | literal | serial
	Pregen  [][2]int      `json:"pregen"` // (n, lazy)
	Steps   []bgvxSeqStep `json:"steps"`
}

func pbHoldsDeg2(pb polynomial.PowerBasis) bool {
	for _, v := range pb.Value {
		if v != nil && v.Degree() > 1 {
			return true
		}
	}
	return false
}

func bgvxPBSeq(c *eng.Ctx, e *bgvxEnv) {
	rnd := c.Rand()
	t := e.t
	maxLevel := e.params.MaxLevel()
	for _, mode := range []string{"standard", "invariant"} {
		inv := mode == "invariant"
		eval, pe := e.evaluators(inv)
		depth := maxLevel
		if inv {
			depth = maxLevel + 1
		}
		maxDeg := (1 << depth) - 1
		if maxDeg > 33 {
			maxDeg = 33
		}
		if maxDeg < 2 {
			continue
		}
		for rep := 0; rep < 5; rep++ {
			job := bgvxSeqJob{Mode: mode, Origin: eng.Pick(rnd, "new", "new", "literal", "serial")}
			// the largest degree of the sequence fixes the lowest usable input level
			top := 2 + rnd.N(maxDeg-1)
			_, minLevel := e.levels(inv, top)
			if minLevel > maxLevel {
				continue
			}
			job.Level = minLevel + rnd.N(maxLevel-minLevel+1)
			job.InScale = 1
			if rnd.Bool() {
				job.InScale = 1 + rnd.U64()%(t-1)
			}
			vals, ct, err := bgvInput(rnd, e.params, e.ecd, e.enc, job.Level, job.InScale, e.slots)
			if err != nil {
				c.Inconclusive("input encryption failed: " + err.Error())
				return
			}
			before := ctBytes(ct)
			var pb polynomial.PowerBasis
			if job.Origin == "literal" {
				// the exported fields allow a basis that shares the caller's ciphertext
				pb = polynomial.PowerBasis{Basis: bignum.Monomial, Value: map[int]*rlwe.Ciphertext{1: ct}}
			} else {
				pb = polynomial.NewPowerBasis(ct, bignum.Monomial)
			}
			// ---- powers generated ahead of time, judged directly
			npre := rnd.N(3)
			aborted := false
			for i := 0; i < npre && !aborted; i++ {
				n := 2 + rnd.N(top-1)
				lazy := rnd.N(3) == 0
				if !inv && ceilLog2(n) > job.Level {
					continue
				}
				l := 0
				if lazy {
					l = 1
				}
				job.Pregen = append(job.Pregen, [2]int{n, l})
				held := pbHoldsDeg2(pb)
				// a power that is already there is left as it is (it may be a non-relinearised one)
				mayDeg2 := lazy
				if old := pb.Value[n]; old != nil {
					mayDeg2 = old.Degree() == 2
				}
				sigg := "C13|polynomial.PowerBasis.GenPower"
				var gerr error
				if !c.Try(sigg, func() { gerr = pb.GenPower(n, lazy, eval) }) {
					aborted = true
					break
				}
				c.Count("genpower_direct_checks", 1)
				c.Distinct(fmt.Sprintf("bgvx/genpower/%s/n%d/lazy%v/held%v", mode, n, lazy, held), n >= 3)
				if gerr != nil {
					c.Eval(1)
					pred := "general"
					if held {
						// "Previous non-relinearized X^{n} that are required to compute the target X^{n} are automatically relinearized"
						pred = "basis-holds-non-relinearized-power"
					}
					c.Violate(sigg+"|unexpected-error|"+pred, fmt.Sprintf("%+v: GenPower(%d, %v): %v", job, n, lazy, gerr), map[string]any{"cfg": e.cfg, "job": job})
					aborted = true
					break
				}
				x := pb.Value[n]
				wantLevel := job.Level - ceilLog2(n)
				if inv {
					wantLevel = job.Level
				}
				c.Check(x != nil && x.Level() == wantLevel && (x.Degree() == 1 || mayDeg2 && x.Degree() == 2), sigg+"|level-or-degree", func() string {
					if x == nil {
						return fmt.Sprintf("%+v: Value[%d] is nil after GenPower", job, n)
					}
					return fmt.Sprintf("%+v: X^%d at level %d (want %d), degree %d (lazy=%v)", job, n, x.Level(), wantLevel, x.Degree(), lazy)
				})
				if x == nil {
					aborted = true
					break
				}
				out := make([]uint64, e.slots)
				if e.ecd.Decode(e.dec.DecryptNew(x), out) == nil {
					bad := -1
					for j := range out {
						if out[j] != ref_pow(vals[j], n, t) && bad < 0 {
							bad = j
						}
					}
					c.Eval(e.slots)
					if bad >= 0 {
						pred := "non-lazy"
						if lazy {
							pred = "lazy"
						}
						c.Violate(sigg+"|wrong-value|"+pred, fmt.Sprintf("%+v: X^%d slot %d x=%d got=%d want=%d", job, n, bad, vals[bad], out[bad], ref_pow(vals[bad], n, t)), map[string]any{"cfg": e.cfg, "job": job})
					}
				}
			}
			if aborted {
				continue
			}
			if job.Origin == "serial" {
				data, err := pb.MarshalBinary()
				pb2 := polynomial.PowerBasis{}
				if err == nil {
					err = pb2.UnmarshalBinary(data)
				}
				if err != nil {
					c.Violate("C13|polynomial.PowerBasis.MarshalBinary|unexpected-error", err.Error(), job)
					continue
				}
				pb = pb2
			}
			// ---- the sequence of polynomials on the one basis
			nsteps := 2 + rnd.N(2)
			for s := 0; s < nsteps; s++ {
				st := bgvxSeqStep{NPoly: 1}
				st.Deg = 1 + rnd.N(top)
				if s == nsteps-1 && rnd.Bool() {
					st.Deg = top
				}
				st.Shape = eng.Pick(rnd, shapes...)
				st.Lazy = st.Shape != shEven && rnd.N(3) == 0
				st.Tgt = 1
				if rnd.Bool() {
					st.Tgt = 1 + rnd.U64()%(t-1)
				}
				vec := rnd.N(3) == 0
				if vec {
					st.NPoly = 1 + rnd.N(3)
				}
				st.HeldDeg2 = pbHoldsDeg2(pb)
				mask, isOdd, isEven := shapeMask(rnd, st.Shape, st.Deg)
				coeffs := make([][]uint64, st.NPoly)
				for i := range coeffs {
					coeffs[i] = make([]uint64, st.Deg+1)
					for k := range coeffs[i] {
						if mask[k] {
							coeffs[i][k] = pickCoeffT(rnd, t)
						}
					}
				}
				var mapping map[int][]int
				owner := make([]int, e.slots)
				var pol interface{}
				if vec {
					mapping, owner = randMapping(rnd, st.NPoly, e.slots)
					pv, err := bgvpoly.NewPolynomialVector(coeffs, mapping)
					if err != nil {
						c.Violate("C13|bgv/polynomial.NewPolynomialVector|unexpected-error", err.Error(), job)
						break
					}
					for i := range pv.Value {
						pv.Value[i].IsOdd, pv.Value[i].IsEven, pv.Value[i].Lazy = isOdd, isEven, st.Lazy
					}
					pol = pv
				} else {
					p := bgvpoly.NewPolynomial(coeffs[0])
					p.IsOdd, p.IsEven, p.Lazy = isOdd, isEven, st.Lazy
					pol = p
				}
				job.Steps = append(job.Steps, st)
				need, _ := e.levels(inv, st.Deg)
				sigp := "C13|bgv/polynomial.Evaluator.EvaluateFromPowerBasis"
				in := pb.Value[1].MetaData.CopyNew()
				var res *rlwe.Ciphertext
				if !c.Try(sigp, func() { res, err = pe.EvaluateFromPowerBasis(pb, pol, e.params.NewScale(st.Tgt)) }) {
					break
				}
				c.Distinct(fmt.Sprintf("bgvx/pbseq/%s/%s/step%d/d%d/%s/n%d/lazy%v/held%v", mode, job.Origin, s, st.Deg, st.Shape, st.NPoly, st.Lazy, st.HeldDeg2), st.Deg >= 3 || st.NPoly >= 2)
				c.Count("bgv_evaluations", 1)
				c.Count("shared_basis_evaluations", 1)
				if s > 0 {
					c.Count("shared_basis_evaluations_after_first", 1)
				}
				pred := "shared-basis-" + flagClass(st.Shape, st.Lazy)
				if err != nil && st.HeldDeg2 {
					// own class: a power left non-relinearised by an earlier lazy generation is used as an operand
					pred = "basis-holds-non-relinearized-power"
				}
				ok := bgvxJudge(c, e, sigp, pred, job, in, res, err, job.Level, need, st.Tgt, func(j int) uint64 {
					if !vec {
						return refModT(coeffs[0], vals[j], t)
					}
					if owner[j] < 0 {
						return 0
					}
					return refModT(coeffs[owner[j]], vals[j], t)
				}, func(j int) bool { return vec && owner[j] < 0 })
				if !ok {
					break
				}
			}
			// X^1 of the basis and the caller's ciphertext are inputs: they must come out unchanged
			c.Check(bytes.Equal(before, ctBytes(ct)), "C13|bgv/polynomial.Evaluator.EvaluateFromPowerBasis|input-modified", func() string {
				return fmt.Sprintf("%+v: the ciphertext the basis was built from changed", job)
			})
			if x1 := pb.Value[1]; x1 != nil && job.Origin != "literal" {
				c.Check(bytes.Equal(before, ctBytes(x1)), "C13|bgv/polynomial.Evaluator.EvaluateFromPowerBasis|basis-x1-modified", func() string {
					return fmt.Sprintf("%+v: PowerBasis.Value[1] changed", job)
				})
			}
		}
	}
}

func ref_pow(x uint64, n int, t uint64) uint64 {
	c := make([]uint64, n+1)
	c[n] = 1
	return refModT(c, x, t)
}

// ---------------------------------------------------------------------------------------------
// bgvx/refuse

func bgvxRefuse(c *eng.Ctx, e *bgvxEnv) {
	rnd := c.Rand()
	t := e.t
	maxLevel := e.params.MaxLevel()
	eval, pe := e.evaluators(false)
	_ = eval
	// ---- too few levels, through every entry point and polynomial type, default scale or not
	for _, deg := range []int{1, 2, 3, 4, 7, 8, 15, 16, 31, 32, 63} {
		need := ceilLog2p1(deg)
		if need > maxLevel+1 {
			continue
		}
		lvl := need - 1
		if rnd.N(3) == 0 {
			lvl = rnd.N(need)
		}
		api := eng.Pick(rnd, "ct/poly", "ct/vec", "pb/bignum", "pb/poly", "pb/vec")
		inScale := uint64(1)
		if rnd.Bool() {
			inScale = 1 + rnd.U64()%(t-1)
		}
		tgt := uint64(1)
		if rnd.Bool() {
			tgt = 1 + rnd.U64()%(t-1)
		}
		coeffs := make([]uint64, deg+1)
		for k := range coeffs {
			coeffs[k] = pickCoeffT(rnd, t)
		}
		_, ct, err := bgvInput(rnd, e.params, e.ecd, e.enc, lvl, inScale, e.slots)
		if err != nil {
			continue
		}
		var pol interface{}
		switch api[3:] {
		case "poly":
			pol = bgvpoly.NewPolynomial(coeffs)
		case "vec":
			mapping, _ := randMapping(rnd, 1, e.slots)
			pol, _ = bgvpoly.NewPolynomialVector([][]uint64{coeffs}, mapping)
		default:
			pol = bignum.NewPolynomial(bignum.Monomial, coeffs, nil)
		}
		entry := "Evaluate"
		if api[:2] == "pb" {
			entry = "EvaluateFromPowerBasis"
		}
		sigp := "C13|bgv/polynomial.Evaluator." + entry
		before := ctBytes(ct)
		var res *rlwe.Ciphertext
		c.Distinct(fmt.Sprintf("bgvx/refusal/%s/d%d/l%d/sc%v%v", api, deg, lvl, inScale != 1, tgt != 1), true)
		c.Count("refusal_checks", 1)
		c.Count("refusal_checks_extended", 1)
		if !c.Try(sigp+"|too-few-levels", func() {
			if api[:2] == "ct" {
				res, err = pe.Evaluate(ct, pol, e.params.NewScale(tgt))
			} else {
				res, err = pe.EvaluateFromPowerBasis(polynomial.NewPowerBasis(ct, bignum.Monomial), pol, e.params.NewScale(tgt))
			}
		}) {
			continue
		}
		c.Check(err != nil, sigp+"|too-few-levels|not-refused", func() string {
			return fmt.Sprintf("%s: degree %d needs %d levels, input at level %d was evaluated without error (output level %d)", api, deg, need, lvl, res.Level())
		})
		if err != nil {
			c.Count("errors_observed", 1)
		}
		c.Check(bytes.Equal(before, ctBytes(ct)), sigp+"|too-few-levels|input-modified", func() string {
			return fmt.Sprintf("%s: degree %d at level %d: the refused input changed", api, deg, lvl)
		})
	}
	// ---- malformed arguments: an error, never a panic
	_, ct, err := bgvInput(rnd, e.params, e.ecd, e.enc, maxLevel, 1, e.slots)
	if err != nil {
		return
	}
	p3 := bgvpoly.NewPolynomial([]uint64{1, 2, 3, 4})
	pv3, _ := bgvpoly.NewPolynomialVector([][]uint64{{1, 2, 3, 4}}, map[int][]int{0: {0}})
	bp3 := bignum.NewPolynomial(bignum.Monomial, []uint64{1, 2, 3, 4}, nil)
	type bad struct {
		name string
		f    func() (*rlwe.Ciphertext, error)
	}
	sc := e.params.DefaultScale()
	for _, b := range []bad{
		{"Evaluate|pointer-to-Polynomial", func() (*rlwe.Ciphertext, error) { return pe.Evaluate(ct, &p3, sc) }},
		{"Evaluate|pointer-to-PolynomialVector", func() (*rlwe.Ciphertext, error) { return pe.Evaluate(ct, &pv3, sc) }},
		{"Evaluate|pointer-to-bignum.Polynomial", func() (*rlwe.Ciphertext, error) { return pe.Evaluate(ct, &bp3, sc) }},
		{"Evaluate|coefficient-slice", func() (*rlwe.Ciphertext, error) { return pe.Evaluate(ct, []uint64{1, 2, 3}, sc) }},
		{"Evaluate|nil-polynomial", func() (*rlwe.Ciphertext, error) { return pe.Evaluate(ct, nil, sc) }},
		{"EvaluateFromPowerBasis|zero-value-basis", func() (*rlwe.Ciphertext, error) { return pe.EvaluateFromPowerBasis(polynomial.PowerBasis{}, p3, sc) }},
		{"EvaluateFromPowerBasis|basis-without-x1", func() (*rlwe.Ciphertext, error) {
			return pe.EvaluateFromPowerBasis(polynomial.PowerBasis{Basis: bignum.Monomial, Value: map[int]*rlwe.Ciphertext{2: ct}}, p3, sc)
		}},
		{"EvaluateFromPowerBasis|nil-x1", func() (*rlwe.Ciphertext, error) {
			return pe.EvaluateFromPowerBasis(polynomial.PowerBasis{Basis: bignum.Monomial, Value: map[int]*rlwe.Ciphertext{1: nil}}, p3, sc)
		}},
	} {
		var res *rlwe.Ciphertext
		var err error
		panicked, pv := eng.Panics(func() { res, err = b.f() })
		c.Eval(1)
		c.Count("malformed_argument_checks", 1)
		c.Distinct("bgvx/malformed/"+b.name, true)
		switch {
		case panicked:
			c.Violate("C13|bgv/polynomial.Evaluator."+b.name+"|panic", fmt.Sprint(pv), nil)
		case err == nil:
			c.Violate("C13|bgv/polynomial.Evaluator."+b.name+"|not-refused", fmt.Sprintf("returned a result (level %d) and no error", res.Level()), nil)
		default:
			c.Count("errors_observed", 1)
		}
	}
	var gerr error
	panicked, pv := eng.Panics(func() {
		pb := polynomial.NewPowerBasis(ct, bignum.Monomial)
		gerr = pb.GenPower(3, false, nil)
	})
	c.Eval(1)
	if panicked {
		c.Violate("C13|polynomial.PowerBasis.GenPower|nil-evaluator|panic", fmt.Sprint(pv), nil)
	} else if gerr == nil {
		c.Violate("C13|polynomial.PowerBasis.GenPower|nil-evaluator|not-refused", "GenPower(3, false, nil) returned no error", nil)
	}
}
