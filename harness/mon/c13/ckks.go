package c13

import (
	"fmt"
	"math"
	"math/big"

	ckkspoly "github.com/tuneinsight/lattigo/v6/circuits/ckks/polynomial"
	"github.com/tuneinsight/lattigo/v6/circuits/common/polynomial"
	"github.com/tuneinsight/lattigo/v6/core/rlwe"
	"github.com/tuneinsight/lattigo/v6/ring"
	"github.com/tuneinsight/lattigo/v6/schemes/ckks"
	"github.com/tuneinsight/lattigo/v6/utils/bignum"

	"verif/harness/eng"
	"verif/harness/obs"
)

type ckksCfg struct {
	Idx      int      `json:"idx"`
	LogN     int      `json:"logN"`
	Ring     string   `json:"ring"` // std | ci
	Q        []uint64 `json:"q"`
	P        []uint64 `json:"p"`
	LogScale int      `json:"log_scale"`
	H        int      `json:"h"` // 0: default ternary secret, else fixed Hamming weight
	Depth    int      `json:"depth"`
	DevBits  float64  `json:"dev_bits"` // |log2(q_i / scale)| <= DevBits (per rescaling step)
	Cap      int      `json:"degree_cap"`
	Extra    int      `json:"extra_degrees"`
}

func (cfg ckksCfg) literal() ckks.ParametersLiteral {
	lit := ckks.ParametersLiteral{LogN: cfg.LogN, Q: cfg.Q, P: cfg.P, LogDefaultScale: cfg.LogScale}
	if cfg.Ring == "ci" {
		lit.RingType = ring.ConjugateInvariant
	}
	if cfg.H > 0 {
		lit.Xs = ring.Ternary{H: cfg.H}
	}
	return lit
}

// drawCKKS builds a modulus chain whose rescaling primes (PREC64) or prime pairs (PREC128) stay within
// 2^(+-dev) of the default scale with dev = 1/2^depth bits (<= 0.6), so that the scale of X^(2^k)
// cannot drift by more than 2 bits from the default one whatever the level; the primes are spread
// over that window (never clustered at a power of two) so that using a wrong prime in the scale
// bookkeeping changes the decoded values far above the noise.
func drawCKKS(r *eng.Rand, idx int, tier string) (ckksCfg, bool) {
	logNs := []int{4, 5, 5, 6, 6, 7, 8, 9}
	if tier == "thorough" {
		logNs = []int{4, 5, 6, 7, 8, 9, 10}
	}
	cfg := ckksCfg{Idx: idx, LogN: eng.Pick(r, logNs...), Ring: eng.Pick(r, "std", "std", "ci")}
	prec128 := r.N(6) == 0
	cfg.Depth = 1 + r.N(6)
	if prec128 {
		cfg.Depth = 1 + r.N(4)
	}
	if tier == "thorough" && !prec128 && r.N(5) == 0 {
		cfg.Depth = 7
	}
	cfg.DevBits = math.Min(0.6, 1/math.Exp2(float64(cfg.Depth)))
	n := 1 << cfg.LogN
	nth := uint64(2 * n)
	if cfg.Ring == "ci" {
		nth *= 2
	}
	// secret: the default dense ternary secret only where the worst-case rounding bound N(1+|s|_1)/2 stays small
	// enough for the error bound to remain below 2^-8 (logN <= 6, depth <= 3); fixed weight 8 / 16 / N/4 <= 32 otherwise
	if cfg.LogN > 6 || cfg.Depth > 3 || r.N(3) != 0 {
		cfg.H = eng.Pick(r, 8, 16, n/4)
		if cfg.H > 32 {
			cfg.H = 16
		}
		if cfg.H > n/2 {
			cfg.H = n / 2
		}
	}
	if cfg.Depth >= 7 && cfg.LogN > 7 {
		cfg.LogN = 7
		n = 1 << cfg.LogN
		nth = uint64(2 * n)
		if cfg.Ring == "ci" {
			nth *= 2
		}
	}
	skip := map[uint64]bool{}
	if !prec128 {
		// deeper chains get larger scales (the worst-case noise bound grows with the degree)
		lo, hi := 40, 52
		if cfg.Depth >= 4 {
			lo = 47
		}
		if hi > 56-cfg.Depth {
			hi = 56 - cfg.Depth
		}
		cfg.LogScale = lo + r.N(hi-lo+1)
		q0bits := float64(cfg.LogScale + cfg.Depth + 4 + r.N(3))
		if q0bits > 60.5 {
			q0bits = 60.5
		}
		q0 := primeNear(uint64(math.Exp2(q0bits)), nth, skip, false)
		extra := r.N(2) // levels above the ones the deepest polynomial needs
		qs := primesAround(r, math.Exp2(float64(cfg.LogScale)), cfg.DevBits, nth, cfg.Depth+extra, skip)
		if q0 == 0 || qs == nil {
			return cfg, false
		}
		cfg.Q = append([]uint64{q0}, qs...)
	} else {
		cfg.LogScale = 76 + 2*r.N(10)
		half := float64(cfg.LogScale) / 2
		q0 := primeNear(uint64(math.Exp2(58)), nth, skip, false)
		q1 := primeNear(uint64(math.Exp2(57.5)), nth, skip, false)
		extra := r.N(2)
		qs := primesAround(r, math.Exp2(half), cfg.DevBits/2, nth, 2*cfg.Depth+extra, skip)
		if q0 == 0 || q1 == 0 || qs == nil {
			return cfg, false
		}
		cfg.Q = append([]uint64{q0, q1}, qs...)
	}
	np := 1 + r.N(2)
	for i := 0; i < np; i++ {
		p := primeNear(uint64(math.Exp2(60.2+0.5*r.F64())), nth, skip, true)
		if p == 0 {
			return cfg, false
		}
		cfg.P = append(cfg.P, p)
	}
	cfg.Cap, cfg.Extra = 63, 3
	if tier == "thorough" {
		cfg.Cap, cfg.Extra = 127, 8
	}
	if cfg.LogN >= 9 {
		cfg.Cap, cfg.Extra = 31, 2
	}
	return cfg, true
}

type ckksJob struct {
	Basis    string     `json:"basis"`
	Deg      int        `json:"deg"`
	Shape    string     `json:"shape"`
	API      string     `json:"api"`
	NPoly    int        `json:"npoly"`
	Lazy     bool       `json:"lazy"`
	Level    int        `json:"level"`
	InDev    float64    `json:"in_scale_dev_bits"`
	TgtDev   float64    `json:"target_scale_dev_bits"`
	Complex  bool       `json:"complex"`
	CoB      bool       `json:"change_of_basis_homomorphic"`
	Interval [2]float64 `json:"interval"`
	Pregen   []int      `json:"pregen,omitempty"`
	// HiPrec: coefficients and interval handed over as 256-bit big.Float (else float64 / complex128, whose
	// 53-bit mantissa bounds the precision of bignum.Polynomial.Factorize and ChangeOfBasis: PREC64 only)
	HiPrec bool `json:"hiprec"`
}

type ckksCtx struct {
	cfg    ckksCfg
	params ckks.Parameters
	sk     *rlwe.SecretKey
	ecd    *ckks.Encoder
	enc    *rlwe.Encryptor
	dec    *rlwe.Decryptor
	eval   *ckks.Evaluator
	pe     *ckkspoly.Evaluator
	lpr    int
	slots  int
	neff   float64 // canonical-embedding expansion of one unit coefficient
	heff   float64 // worst-case |s(zeta)|
	eb     float64 // worst-case |e_i|
}

func newCkksCtx(cfg ckksCfg) (*ckksCtx, error) {
	params, err := ckks.NewParametersFromLiteral(cfg.literal())
	if err != nil {
		return nil, err
	}
	x := &ckksCtx{cfg: cfg, params: params}
	kgen := rlwe.NewKeyGenerator(params)
	x.sk = kgen.GenSecretKeyNew()
	evk := rlwe.NewMemEvaluationKeySet(kgen.GenRelinearizationKeyNew(x.sk))
	x.ecd = ckks.NewEncoder(params)
	x.enc = rlwe.NewEncryptor(params, x.sk)
	x.dec = rlwe.NewDecryptor(params, x.sk)
	x.eval = ckks.NewEvaluator(params, evk)
	x.pe = ckkspoly.NewEvaluator(params, x.eval)
	x.lpr = params.LevelsConsumedPerRescaling()
	x.slots = params.MaxSlots()
	_, l1 := obs.SecretBound(params.Parameters)
	x.eb, _ = obs.ErrBound(params.Parameters)
	x.neff, x.heff = float64(params.N()), l1
	if cfg.Ring == "ci" {
		// an element of Z[X+X^-1] with N coefficients has 2N-1 monomials of the 2N-th cyclotomic ring
		x.neff, x.heff = 2*float64(params.N()), 2*l1
	}
	return x, nil
}

// noiseUnits returns the worst-case slot-domain error of one rescaling (rho) and of a fresh
// secret-key encryption of an encoded vector (eps1), for the given scales.
func (x *ckksCtx) noiseUnits(scaleIn, scaleMin float64) (rho, eps1 float64) {
	rho = 1.02 * x.neff * (1 + x.heff) / (2 * scaleMin)
	eps1 = x.neff * (x.eb + 1) / scaleIn
	return
}

func runCKKS(c *eng.Ctx, cfg ckksCfg) {
	rnd := c.Rand()
	x, err := newCkksCtx(cfg)
	if err != nil {
		c.Inconclusive(fmt.Sprintf("parameters rejected: %v", err))
		return
	}
	maxLevel := x.params.MaxLevel()
	c.Sample(map[string]any{"kind": "ckks", "cfg": cfg, "slots": x.slots, "levels_per_rescaling": x.lpr})
	// lowest level at which the message still fits: PREC128 needs two primes under the scale
	floorLevel := 0
	if x.lpr == 2 {
		floorLevel = 1
	}
	depth := (maxLevel - floorLevel) / x.lpr
	for _, basis := range []string{"monomial", "chebyshev"} {
		for _, deg := range degreeSchedule(rnd, depth, cfg.Cap, cfg.Extra) {
			need := x.lpr * ceilLog2p1(deg)
			minLevel := need + floorLevel
			if minLevel > maxLevel {
				continue
			}
			job := ckksJob{Basis: basis, Deg: deg}
			job.Shape = eng.Pick(rnd, shapes...)
			job.API = eng.Pick(rnd, "ct/bignum", "ct/poly", "ct/vec", "ct/vec", "pb/fresh", "pb/pregen", "pb/serial")
			job.NPoly = 1
			if job.API == "ct/vec" || (job.API[:2] == "pb" && rnd.N(3) == 0) {
				job.NPoly = 1 + rnd.N(4)
			}
			job.Lazy = job.API != "ct/bignum" && job.Shape != shEven && rnd.N(5) == 0
			switch rnd.N(4) {
			case 0:
				job.Level = minLevel
			case 1:
				job.Level = maxLevel
			default:
				job.Level = minLevel + rnd.N(maxLevel-minLevel+1)
			}
			if rnd.N(3) != 0 {
				job.InDev = (rnd.F64()*2 - 1) * cfg.DevBits
			}
			switch rnd.N(3) {
			case 0:
				job.TgtDev = job.InDev
			case 1:
				job.TgtDev = rnd.F64()*2 - 1
			}
			job.Complex = cfg.Ring == "std" && basis == "monomial" && rnd.Bool()
			job.HiPrec = x.lpr == 2 || rnd.Bool()
			if basis == "chebyshev" {
				a := math.Round((rnd.F64()*16-8)*64) / 64
				w := math.Round((0.5+rnd.F64()*8)*64) / 64
				if rnd.N(3) == 0 {
					a, w = -1, 2
				}
				job.Interval = [2]float64{a, a + w}
				// the in-tree recipe (Mul by 2/(b-a), Add, Rescale) only rescales correctly when the scalar is
				// not an integer (ckks.Evaluator.Mul does not scale up by an integer constant)
				sc := 2 / w
				job.CoB = job.Level+x.lpr <= maxLevel && rnd.N(3) == 0 && sc != math.Floor(sc)
			}
			ckksEvalOnce(c, rnd, x, job, need)
		}
		// degree 0: the constant (or a refusal), never a panic
		{
			vals := make([]float64, x.slots)
			pt := ckks.NewPlaintext(x.params, maxLevel)
			c0 := pickCoeffF(rnd)
			var res *rlwe.Ciphertext
			if err := x.ecd.Encode(vals, pt); err == nil {
				if ct, err := x.enc.EncryptNew(pt); err == nil {
					c.Distinct(fmt.Sprintf("ckks/degree0/%s/%s", cfg.Ring, basis), true)
					panicked, pv := eng.Panics(func() {
						res, err = x.pe.Evaluate(ct, bignum.NewPolynomial(basisOf(basis), []float64{c0}, [2]float64{-1, 1}), x.params.DefaultScale())
					})
					c.Eval(1)
					switch {
					case panicked:
						c.Violate("C13|ckks/polynomial.Evaluator.Evaluate|panic|degree-0", fmt.Sprintf("Evaluate(ct, bignum.NewPolynomial(%s, []float64{%v}, ...), scale) panics: %v", basis, c0, pv), cfg)
					case err != nil:
						c.Count("errors_observed", 1)
					default:
						out := make([]*bignum.Complex, x.slots)
						if x.ecd.Decode(x.dec.DecryptNew(res), out) == nil {
							re, _ := out[0][0].Float64()
							c.Check(math.Abs(re-c0) < math.Exp2(-15), "C13|ckks/polynomial.Evaluator.Evaluate|wrong-value|degree-0", func() string {
								return fmt.Sprintf("constant polynomial %v: got %v", c0, re)
							})
						}
					}
				}
			}
		}
		// refusal: fewer levels than documented
		for _, deg := range []int{1, 2, 3, 4, 5, 8, 9, 16, 31, 32} {
			need := x.lpr * ceilLog2p1(deg)
			if need > maxLevel+1 || need == 0 {
				continue
			}
			lvl := rnd.N(need)
			if rnd.Bool() {
				lvl = need - 1
			}
			if lvl > maxLevel {
				continue
			}
			ckksRefusal(c, rnd, x, basis, deg, lvl)
		}
	}
}

func basisOf(s string) bignum.Basis {
	if s == "chebyshev" {
		return bignum.Chebyshev
	}
	return bignum.Monomial
}

func pickCoeffF(r *eng.Rand) float64 {
	v := math.Exp2(-float64(r.N(4))) * (0.5 + 0.5*r.F64())
	switch r.N(8) {
	case 0:
		v = 1
	case 1:
		v = 0.125
	}
	if r.Bool() {
		v = -v
	}
	return v
}

// exact reference of one slot
func refEval(basis string, coeffs []cx, u cx) cx {
	if basis == "chebyshev" {
		return refCheb(coeffs, u)
	}
	return refMono(coeffs, u)
}

func ckksEvalOnce(c *eng.Ctx, rnd *eng.Rand, x *ckksCtx, job ckksJob, need int) {
	cfg := x.cfg
	sigp := "C13|ckks/polynomial.Evaluator.Evaluate"
	pred := flagClass(job.Shape, job.Lazy)
	params := x.params
	slots := x.slots
	vec := job.NPoly > 1 || job.API == "ct/vec"
	// ---- polynomials
	mask, isOdd, isEven := shapeMask(rnd, job.Shape, job.Deg)
	cplx := make([][]complex128, job.NPoly)
	refc := make([][]cx, job.NPoly)
	var wmax, smax float64
	for i := range cplx {
		cplx[i] = make([]complex128, job.Deg+1)
		refc[i] = make([]cx, job.Deg+1)
		var w, s float64
		for k := range cplx[i] {
			var re, im float64
			if mask[k] {
				re = pickCoeffF(rnd)
				if job.Complex {
					switch rnd.N(4) {
					case 0, 1:
						im = pickCoeffF(rnd)
					case 2: // purely imaginary coefficient: zero real part, non-zero imaginary part
						re, im = 0, pickCoeffF(rnd)
					}
				}
			}
			cplx[i][k] = complex(re, im)
			refc[i][k] = cxF(re, im)
			a := math.Hypot(re, im)
			s += a
			if job.Basis == "chebyshev" {
				w += a * 4 * float64(k*k)
			} else {
				w += a * float64(k)
			}
		}
		wmax, smax = math.Max(wmax, w), math.Max(smax, s)
	}
	mkPoly := func(i int) bignum.Polynomial {
		var p bignum.Polynomial
		var itv interface{}
		if job.Basis == "chebyshev" {
			itv = job.Interval
			if job.HiPrec {
				itv = &bignum.Interval{A: *new(big.Float).SetPrec(256).SetFloat64(job.Interval[0]), B: *new(big.Float).SetPrec(256).SetFloat64(job.Interval[1])}
			}
		}
		if job.HiPrec {
			cs := make([]*bignum.Complex, job.Deg+1)
			for k := range cs {
				cs[k] = &bignum.Complex{new(big.Float).SetPrec(256).SetFloat64(real(cplx[i][k])), new(big.Float).SetPrec(256).SetFloat64(imag(cplx[i][k]))}
			}
			p = bignum.NewPolynomial(basisOf(job.Basis), cs, itv)
		} else if job.Complex {
			p = bignum.NewPolynomial(basisOf(job.Basis), cplx[i], itv)
		} else {
			re := make([]float64, job.Deg+1)
			for k := range re {
				re[k] = real(cplx[i][k])
			}
			p = bignum.NewPolynomial(basisOf(job.Basis), re, itv)
		}
		p.IsOdd, p.IsEven = isOdd, isEven
		return p
	}
	var mapping map[int][]int
	owner := make([]int, slots)
	if vec {
		mapping, owner = randMapping(rnd, job.NPoly, slots)
	}
	// ---- input values: u in the unit disk / [-1,1]; through [a,b] when the change of basis is applied homomorphically
	delta := params.DefaultScale().Float64()
	scaleIn := delta * math.Exp2(job.InDev)
	scaleTgt := delta * math.Exp2(job.TgtDev)
	target := rlwe.NewScale(scaleTgt)
	us := make([]cx, slots)
	enc128 := make([]complex128, slots)
	a, b := job.Interval[0], job.Interval[1]
	for j := 0; j < slots; j++ {
		var re, im float64
		switch rnd.N(10) {
		case 0:
			re = 1
		case 1:
			re = -1
		case 2:
			re = 0
		default:
			re = rnd.F64()*2 - 1
		}
		if job.Complex {
			ang := rnd.F64() * 2 * math.Pi
			m := math.Abs(re)
			re, im = m*math.Cos(ang), m*math.Sin(ang)
			if math.Hypot(re, im) > 1 {
				re, im = re*0.999999, im*0.999999
			}
		}
		if job.CoB {
			// x in [a,b]; the encrypted message is x, the evaluated point is u = (2x-a-b)/(b-a)
			xv := a + (re+1)/2*(b-a)
			if xv < a {
				xv = a
			}
			if xv > b {
				xv = b
			}
			enc128[j] = complex(xv, 0)
			num := bf().SetFloat64(xv)
			num.Mul(num, bf().SetFloat64(2)).Sub(num, bf().SetFloat64(a)).Sub(num, bf().SetFloat64(b))
			num.Quo(num, bf().Sub(bf().SetFloat64(b), bf().SetFloat64(a)))
			us[j] = cxB(num, nil)
		} else {
			enc128[j] = complex(re, im)
			us[j] = cxF(re, im)
		}
	}
	inLevel := job.Level
	if job.CoB {
		inLevel += x.lpr
	}
	pt := ckks.NewPlaintext(params, inLevel)
	pt.Scale = rlwe.NewScale(scaleIn)
	var err error
	if cfg.Ring == "ci" {
		f := make([]float64, slots)
		for j := range f {
			f[j] = real(enc128[j])
		}
		err = x.ecd.Encode(f, pt)
	} else {
		err = x.ecd.Encode(enc128, pt)
	}
	if err != nil {
		c.Inconclusive("encode: " + err.Error())
		return
	}
	ct, err := x.enc.EncryptNew(pt)
	if err != nil {
		c.Inconclusive("encrypt: " + err.Error())
		return
	}
	// noise budget
	rho, eps1 := x.noiseUnits(math.Min(scaleIn, delta), math.Min(math.Min(scaleIn, scaleTgt), delta)*math.Exp2(-3.5))
	if job.CoB {
		p0 := mkPoly(0)
		scalar, constant := p0.ChangeOfBasis()
		ok := c.Try(sigp+"|change-of-basis", func() {
			if err = x.eval.Mul(ct, scalar, ct); err != nil {
				return
			}
			if err = x.eval.Add(ct, constant, ct); err != nil {
				return
			}
			err = x.eval.Rescale(ct, ct)
		})
		if !ok || err != nil {
			c.Inconclusive(fmt.Sprintf("homomorphic change of basis failed: %v", err))
			return
		}
		eps1 = eps1*2/(b-a) + 2*rho
	}

	var pol interface{}
	switch {
	case vec:
		polys := make([]bignum.Polynomial, job.NPoly)
		for i := range polys {
			polys[i] = mkPoly(i)
		}
		pv, err := ckkspoly.NewPolynomialVector(polys, mapping)
		if err != nil {
			c.Violate("C13|ckks/polynomial.NewPolynomialVector|unexpected-error", err.Error(), job)
			return
		}
		for i := range pv.Value {
			pv.Value[i].Lazy = job.Lazy
		}
		pol = pv
	case job.API == "ct/bignum":
		pol = mkPoly(0)
	default:
		p := ckkspoly.NewPolynomial(mkPoly(0))
		p.Lazy = job.Lazy
		pol = p
	}

	var res *rlwe.Ciphertext
	ok := c.Try(sigp, func() {
		if job.API[:2] == "ct" {
			res, err = x.pe.Evaluate(ct, pol, target)
			return
		}
		pb := polynomial.NewPowerBasis(ct, basisOf(job.Basis))
		if job.API != "pb/fresh" {
			npre := 1 + rnd.N(3)
			for i := 0; i < npre && err == nil; i++ {
				n := 2 + rnd.N(job.Deg+2)
				job.Pregen = append(job.Pregen, n)
				if x.lpr*ceilLog2(n) > ct.Level() {
					continue
				}
				err = pb.GenPower(n, false, x.eval)
			}
			if err != nil {
				return
			}
		}
		if job.API == "pb/serial" {
			var data []byte
			if data, err = pb.MarshalBinary(); err != nil {
				return
			}
			pb2 := polynomial.PowerBasis{}
			if err = pb2.UnmarshalBinary(data); err != nil {
				return
			}
			pb = pb2
		}
		res, err = x.pe.EvaluateFromPowerBasis(pb, pol, target)
	})
	key := fmt.Sprintf("ckks/%s/%s/d%d/%s/%s/n%d/lazy%v/lvl%s/sc%v%v/c%v/cob%v/lpr%d", cfg.Ring, job.Basis, job.Deg, job.Shape, job.API, job.NPoly, job.Lazy,
		levelClass(job.Level, need, params.MaxLevel()), job.InDev != 0, job.TgtDev != job.InDev, job.Complex, job.CoB, x.lpr)
	c.Distinct(key, job.Deg >= 3 || job.NPoly >= 2)
	c.Count("ckks_evaluations", 1)
	if !ok {
		return
	}
	wit := map[string]any{"cfg": cfg, "job": job}
	if err != nil {
		c.Eval(1)
		c.Violate(sigp+"|unexpected-error|"+pred, fmt.Sprintf("%+v: %v", job, err), wit)
		return
	}
	c.Check(res.Level() == job.Level-need, sigp+"|levels-consumed|"+pred, func() string {
		return fmt.Sprintf("%+v: output level %d, documented %d - %d", job, res.Level(), job.Level, need)
	})
	c.Check(scaleClose(&res.Scale.Value, &target.Value, 100), sigp+"|output-scale|"+pred, func() string {
		return fmt.Sprintf("%+v: output scale %v, requested %v", job, &res.Scale.Value, &target.Value)
	})
	c.Check(res.Degree() == 1, sigp+"|output-degree", func() string { return fmt.Sprintf("%+v: degree %d", job, res.Degree()) })
	// metadata other than the scale (packing, NTT / Montgomery domain) is that of the input
	c.Check(metaSame(res.MetaData, ct.MetaData), sigp+"|output-metadata", func() string {
		return fmt.Sprintf("%+v: output metadata %+v / %+v, input %+v / %+v", job, res.LogDimensions, res.CiphertextMetaData, ct.LogDimensions, ct.CiphertextMetaData)
	})
	c.Count("metadata_checks", 1)

	// ---- values
	out := make([]*bignum.Complex, slots)
	if !c.Try(sigp+"|decode", func() { err = x.ecd.Decode(x.dec.DecryptNew(res), out) }) || err != nil {
		c.Violate(sigp+"|decode-error", fmt.Sprint(err), job)
		return
	}
	g := 4.0
	if job.Basis == "chebyshev" {
		g = 16
	}
	floor := math.Exp2(-45)
	if x.lpr == 2 {
		floor = math.Exp2(-float64(cfg.LogScale - 12 - cfg.LogN))
	}
	bound := g*(wmax+float64(job.Deg)+2)*(eps1+rho) + floor*(smax+1)
	var worst, worstUnmapped float64
	bad, badUnmapped := -1, -1
	for j := 0; j < slots; j++ {
		want := cxF(0, 0)
		mapped := true
		if !vec {
			want = refEval(job.Basis, refc[0], us[j])
		} else if owner[j] >= 0 {
			want = refEval(job.Basis, refc[owner[j]], us[j])
		} else {
			mapped = false
		}
		e := cxB(out[j][0], out[j][1]).sub(want).abs()
		if math.IsNaN(e) {
			e = math.Inf(1)
		}
		if mapped {
			if e > worst {
				worst = e
				if e > bound {
					bad = j
				}
			}
		} else if e > worstUnmapped {
			worstUnmapped = e
			if e > bound {
				badUnmapped = j
			}
		}
	}
	c.Eval(slots)
	c.Count("ckks_slots_checked", int64(slots))
	c.Count("noise_measurements", 1)
	if bad < 0 && badUnmapped < 0 {
		m := math.Max(worst, worstUnmapped)
		if m > 0 {
			c.Max("max_ckks_err_over_bound_permille", int64(1000*m/bound))
			c.Max("max_ckks_err_log2_plus100", int64(100+math.Log2(m)))
		}
		c.Max("max_ckks_bound_log2_plus100", int64(100+math.Log2(bound)))
	}
	if bad >= 0 {
		o := 0
		if vec {
			o = owner[bad]
		}
		want := refEval(job.Basis, refc[o], us[bad])
		c.Violate(sigp+"|wrong-value|"+pred, fmt.Sprintf("%+v: slot %d u=(%s,%s) poly#%d: got (%s,%s) want (%s,%s): |err|=2^%.1f > bound 2^%.1f (coeffs %v)", job, bad,
			us[bad].re.Text('g', 8), us[bad].im.Text('g', 8), o, out[bad][0].Text('g', 12), out[bad][1].Text('g', 12), want.re.Text('g', 12), want.im.Text('g', 12),
			math.Log2(worst), math.Log2(bound), headC(cplx[o], 10)), wit)
	}
	if badUnmapped >= 0 && bad < 0 {
		c.Violate(sigp+"|unmapped-slot-nonzero|"+pred, fmt.Sprintf("%+v: slot %d is in no mapping but decodes to (%s,%s): 2^%.1f > bound 2^%.1f", job, badUnmapped,
			out[badUnmapped][0].Text('g', 10), out[badUnmapped][1].Text('g', 10), math.Log2(worstUnmapped), math.Log2(bound)), wit)
	}
}

func headC(v []complex128, n int) string {
	if len(v) > n {
		return fmt.Sprintf("%v…(%d)", v[:n], len(v))
	}
	return fmt.Sprint(v)
}

// scaleClose: |a-b| <= 2^-bits * max(|a|,|b|)
func scaleClose(a, b *big.Float, bits int) bool {
	d := new(big.Float).SetPrec(256).Sub(a, b)
	d.Abs(d)
	m := new(big.Float).SetPrec(256).Abs(a)
	if bb := new(big.Float).SetPrec(256).Abs(b); bb.Cmp(m) > 0 {
		m = bb
	}
	m.SetMantExp(m, -bits)
	return d.Cmp(m) <= 0
}

func ckksRefusal(c *eng.Ctx, rnd *eng.Rand, x *ckksCtx, basis string, deg, lvl int) {
	sigp := "C13|ckks/polynomial.Evaluator.Evaluate"
	coeffs := make([]float64, deg+1)
	for k := range coeffs {
		coeffs[k] = pickCoeffF(rnd)
	}
	vals := make([]float64, x.slots)
	for j := range vals {
		vals[j] = rnd.F64()*2 - 1
	}
	pt := ckks.NewPlaintext(x.params, lvl)
	if err := x.ecd.Encode(vals, pt); err != nil {
		return
	}
	ct, err := x.enc.EncryptNew(pt)
	if err != nil {
		return
	}
	var res *rlwe.Ciphertext
	c.Distinct(fmt.Sprintf("ckks/refusal/%s/d%d/l%d/lpr%d", basis, deg, lvl, x.lpr), true)
	c.Count("refusal_checks", 1)
	if !c.Try(sigp+"|too-few-levels", func() {
		res, err = x.pe.Evaluate(ct, bignum.NewPolynomial(basisOf(basis), coeffs, [2]float64{-1, 1}), x.params.DefaultScale())
	}) {
		return
	}
	c.Check(err != nil, sigp+"|too-few-levels|not-refused", func() string {
		return fmt.Sprintf("degree %d needs %d levels, input at level %d was evaluated without error (output level %d)", deg, x.lpr*ceilLog2p1(deg), lvl, res.Level())
	})
	if err != nil {
		c.Count("errors_observed", 1)
	}
}
