package c13

import (
	"bytes"
	"fmt"
	"math"
	"math/big"

	"github.com/tuneinsight/lattigo/v6/circuits/ckks/comparison"
	"github.com/tuneinsight/lattigo/v6/circuits/ckks/inverse"
	"github.com/tuneinsight/lattigo/v6/circuits/ckks/minimax"
	"github.com/tuneinsight/lattigo/v6/circuits/ckks/mod1"
	ckkspoly "github.com/tuneinsight/lattigo/v6/circuits/ckks/polynomial"
	"github.com/tuneinsight/lattigo/v6/core/rlwe"
	"github.com/tuneinsight/lattigo/v6/ring"
	"github.com/tuneinsight/lattigo/v6/schemes/ckks"

	"verif/harness/eng"
)

// Extension families of the composite circuits (coverage audit):
//
//	compx/cmp-custom : comparison.Evaluator built with a caller-supplied sign composite (the variadic argument of
//	                   NewEvaluator): Sign, Step, Step again, Sign again on ONE evaluator (Step derives its last stage
//	                   from the stored composite and must not alter it), Max, Min; exact plaintext oracle (the
//	                   composite itself), output scale = default scale for all five; minimax.Evaluate on parameters
//	                   with too few levels must return an error
//	compx/gold-nobtp : inverse.GoldschmidtDivisionNew without a bootstrapper: enough levels -> 1/x; too few -> error
//	compx/normalize  : inverse.IntervalNormalization: ct*factor = normalised ct, |normalised| <= 1, 0 < factor <= 1
//	compx/inv45-*    : the four inverse entry points with ONE prime per rescaling (the inverse cases of composite.go all
//	                   use two), the full-domain one with a caller-supplied sign composite (its variadic argument)
//	compx/mod1-low   : mod1 with Parameters.LevelQ below the input level (the evaluator drops the input to LevelQ and
//	                   indexes the moduli from there), and an input below LevelQ (must be refused with an error)
type compxCfg struct {
	Idx     int     `json:"idx"`
	Kind    string  `json:"kind"`
	LogN    int     `json:"logN"`
	Ring    string  `json:"ring"`
	NQ      int     `json:"nq"`
	Level   int     `json:"level"`
	Stages  int     `json:"stages"`
	Log2Min float64 `json:"log2min"`
	Log2Max float64 `json:"log2max"`
	Variant int     `json:"variant"`
}

var compxKinds = []string{"cmp-custom", "gold-nobtp", "normalize", "inv45-pos", "inv45-neg", "inv45-full", "inv45-gold", "mod1-low", "cmp-custom", "inv45-full"}

func drawCompX(r *eng.Rand, idx int, tier string) compxCfg {
	cc := compxCfg{Idx: idx, Kind: compxKinds[idx%len(compxKinds)], Variant: idx / len(compxKinds)}
	logNs := []int{6, 7, 8}
	if tier == "thorough" {
		logNs = []int{6, 7, 8, 9}
	}
	cc.LogN = eng.Pick(r, logNs...)
	cc.Ring = eng.Pick(r, "std", "ci")
	switch cc.Kind {
	case "cmp-custom":
		cc.Stages = 2 + r.N(2)
		cc.NQ = 5 + r.N(6)
		cc.Level = 1 + r.N(cc.NQ)
		if r.Bool() {
			cc.Level = cc.NQ
		}
	case "gold-nobtp":
		cc.NQ = 12
		cc.Level = cc.NQ
		cc.Log2Min = -float64(1 + r.N(3))
	case "normalize":
		cc.NQ = 6 + r.N(6)
		cc.Level = 1 + r.N(cc.NQ)
		cc.Log2Max = float64(1 + r.N(6))
	case "inv45-gold":
		cc.NQ = 6 + r.N(6)
		cc.Level = 1 + r.N(cc.NQ)
		cc.Log2Min = -float64(1 + r.N(4))
	case "inv45-pos", "inv45-neg", "inv45-full":
		cc.NQ = 6 + r.N(6)
		cc.Level = 1 + r.N(cc.NQ)
		cc.Log2Min = -float64(1 + r.N(3))
		cc.Log2Max = float64(eng.Pick(r, 0, 0, 1, 3, 5))
		cc.Stages = 4
	case "mod1-low":
		cc.LogN = eng.Pick(r, 8, 8, 9)
		cc.Ring = "std"
		cc.Variant = cc.Variant % 2 // SinContinuous, CosDiscrete: their depth fits under LevelQ = 11
	}
	return cc
}

// lit48: one 48-bit prime per rescaling, sparse ternary secret (the rule of runCustomSign).
func (cc compxCfg) lit48() ckks.ParametersLiteral {
	logq := []int{58}
	for i := 0; i < cc.NQ; i++ {
		logq = append(logq, 48)
	}
	lit := ckks.ParametersLiteral{LogN: cc.LogN, LogQ: logq, LogP: []int{60}, LogDefaultScale: 48, Xs: ring.Ternary{H: 16}}
	if cc.Ring == "ci" {
		lit.RingType = ring.ConjugateInvariant
	}
	return lit
}

// base48: worst-case slot error of one degree-7 Chebyshev stage under lit48 (see runCustomSign).
func base48(params ckks.Parameters, ci bool) float64 {
	nn, hh := float64(params.N()), 16.0
	if ci {
		nn, hh = 2*nn, 2*hh
	}
	return 16 * (4*49*2 + 9) * (nn * (1 + hh + 21) / math.Exp2(44.5))
}

func f4Coeffs() []cx {
	coef := make([]cx, len(minimax.CoeffsSignX4Cheby))
	for i, s := range minimax.CoeffsSignX4Cheby {
		f, _, _ := big.ParseFloat(s, 10, refPrec, big.ToNearestEven)
		coef[i] = cxB(f, nil)
	}
	return coef
}

func f4Stages(coef []cx, v float64, stages int) float64 {
	w := cxF(v, 0)
	for s := 0; s < stages; s++ {
		w = refCheb(coef, w)
	}
	f, _ := w.re.Float64()
	return f
}

func runCompX(c *eng.Ctx, cc compxCfg) {
	c.Sample(cc)
	switch cc.Kind {
	case "cmp-custom":
		runCmpCustom(c, cc)
	case "gold-nobtp":
		runGoldNoBtp(c, cc)
	case "normalize":
		runNormalize(c, cc)
	case "inv45-pos", "inv45-neg", "inv45-full", "inv45-gold":
		runInv45(c, cc)
	case "mod1-low":
		runMod1Low(c, cc)
	}
}

func maxAbsErr(out []complex128, want func(i int) float64) (worst float64, wi int) {
	wi = -1
	for i := range out {
		if e := math.Hypot(real(out[i])-want(i), imag(out[i])); e > worst || math.IsNaN(e) {
			worst, wi = e, i
		}
	}
	return
}

func runCmpCustom(c *eng.Ctx, cc compxCfg) {
	rnd := c.Rand()
	x, err := newCompCtx(cc.lit48())
	if err != nil {
		c.Inconclusive(err.Error())
		return
	}
	poly := customPolys(cc.Stages, 0)
	cmp := comparison.NewEvaluator(x.params, x.mm, poly)
	slots := x.params.MaxSlots()
	coef := f4Coeffs()
	vals := make([]float64, slots)
	for i := range vals {
		vals[i] = rnd.F64()*2 - 1
		switch rnd.N(8) {
		case 0:
			vals[i] = 1
		case 1:
			vals[i] = -1
		case 2:
			vals[i] = 0
		}
	}
	base := base48(x.params, cc.Ring == "ci")
	tol := 0.0
	for s := 0; s < cc.Stages; s++ {
		tol = tol*2.5 + base
	}
	def := x.params.DefaultScale()
	c.Distinct(fmt.Sprintf("compx/cmp-custom/%s/logN%d/nq%d/lvl%d/st%d", cc.Ring, cc.LogN, cc.NQ, cc.Level, cc.Stages), true)
	// ---- the history Sign, Step, Step, Sign on one evaluator
	for k, op := range []string{"Sign", "Step", "Step", "Sign"} {
		ct, err := x.encrypt(vals, cc.Level, 0)
		if err != nil {
			c.Inconclusive(err.Error())
			return
		}
		sig := "C13|comparison.Evaluator." + op
		before := ctBytes(ct)
		var res *rlwe.Ciphertext
		if !c.Try(sig, func() {
			if op == "Sign" {
				res, err = cmp.Sign(ct)
			} else {
				res, err = cmp.Step(ct)
			}
		}) {
			return
		}
		c.Count("composite_evaluations", 1)
		c.Count("composite_custom_sign_evaluations", 1)
		pred := "custom-composite"
		if k >= 2 {
			pred = "custom-composite-after-step" // an earlier Step on the same evaluator
		}
		if err != nil {
			c.Eval(1)
			c.Violate(sig+"|unexpected-error|"+pred, fmt.Sprintf("%+v call #%d: %v", cc, k, err), cc)
			return
		}
		out, err := x.decode(res)
		if err != nil {
			c.Violate(sig+"|decode-error", err.Error(), cc)
			return
		}
		worst, wi := maxAbsErr(out, func(i int) float64 {
			w := f4Stages(coef, vals[i], cc.Stages)
			if op == "Step" {
				w = (w + 1) / 2
			}
			return w
		})
		c.Eval(slots)
		if !(worst <= tol) {
			c.Violate(sig+"|wrong-value|"+pred, fmt.Sprintf("%+v call #%d (%s): slot %d x=%g got %v, error 2^%.1f > 2^%.1f", cc, k, op, wi, vals[wi], out[wi], math.Log2(worst), math.Log2(tol)), cc)
		}
		c.Check(scaleClose(&res.Scale.Value, &def.Value, 100), sig+"|output-scale", func() string {
			return fmt.Sprintf("%+v call #%d: output scale %v, documented params.DefaultScale() = %v", cc, k, &res.Scale.Value, &def.Value)
		})
		c.Check(bytes.Equal(before, ctBytes(ct)), sig+"|input-modified", func() string { return fmt.Sprintf("%+v call #%d: the input ciphertext changed", cc, k) })
	}
	// ---- Max / Min with the custom composite: step(d)*d + b, a - step(d)*d with step = (P(d)+1)/2, d = a-b
	a := make([]float64, slots)
	b := make([]float64, slots)
	for i := range a {
		a[i], b[i] = rnd.F64()-0.5, rnd.F64()-0.5
		switch rnd.N(6) {
		case 0:
			b[i] = a[i]
		case 1:
			a[i], b[i] = 0.5, -0.5
		case 2:
			a[i], b[i] = -0.5, 0.5
		}
	}
	lvl := cc.Level
	for _, op := range []string{"Max", "Min"} {
		cta, err1 := x.encrypt(a, lvl, 0)
		ctb, err2 := x.encrypt(b, lvl, 0)
		if err1 != nil || err2 != nil {
			c.Inconclusive("encrypt")
			return
		}
		ba, bb := ctBytes(cta), ctBytes(ctb)
		sig := "C13|comparison.Evaluator." + op
		var res *rlwe.Ciphertext
		var err error
		if !c.Try(sig, func() {
			if op == "Max" {
				res, err = cmp.Max(cta, ctb)
			} else {
				res, err = cmp.Min(cta, ctb)
			}
		}) {
			continue
		}
		c.Count("composite_evaluations", 1)
		c.Count("composite_custom_sign_evaluations", 1)
		if err != nil {
			c.Eval(1)
			c.Violate(sig+"|unexpected-error|custom-composite", fmt.Sprintf("%+v: %v", cc, err), cc)
			continue
		}
		out, err := x.decode(res)
		if err != nil {
			c.Violate(sig+"|decode-error", err.Error(), cc)
			continue
		}
		worst, wi := maxAbsErr(out, func(i int) float64 {
			d := a[i] - b[i]
			st := (f4Stages(coef, d, cc.Stages) + 1) / 2
			if op == "Max" {
				return st*d + b[i]
			}
			return a[i] - st*d
		})
		c.Eval(slots)
		// step error (tol, the last stage is halved) times |d| <= 1, plus the scale-matching multiplication, the product and two rescalings
		if t2 := tol + 4*base; !(worst <= t2) {
			c.Violate(sig+"|wrong-value|custom-composite", fmt.Sprintf("%+v: slot %d a=%g b=%g got %v, error 2^%.1f > 2^%.1f", cc, wi, a[wi], b[wi], out[wi], math.Log2(worst), math.Log2(t2)), cc)
		}
		c.Check(scaleClose(&res.Scale.Value, &def.Value, 100), sig+"|output-scale", func() string {
			return fmt.Sprintf("%+v: output scale %v, documented params.DefaultScale = %v", cc, &res.Scale.Value, &def.Value)
		})
		c.Check(bytes.Equal(ba, ctBytes(cta)) && bytes.Equal(bb, ctBytes(ctb)), sig+"|input-modified", func() string { return fmt.Sprintf("%+v: an input ciphertext changed", cc) })
	}
	// ---- a composite deeper than the parameters allow must be refused by minimax.Evaluator.Evaluate with an error
	deep := make([]string, (1<<x.params.MaxLevel())+2)
	for i := range deep {
		deep[i] = "0"
	}
	deep[1], deep[len(deep)-1] = "1", "0.001"
	ct, err := x.encrypt(vals, -1, 0)
	if err != nil {
		return
	}
	var res *rlwe.Ciphertext
	panicked, pv := eng.Panics(func() { res, err = x.mm.Evaluate(ct, minimax.NewPolynomial([][]string{deep})) })
	c.Eval(1)
	c.Count("refusal_checks", 1)
	c.Count("refusal_checks_extended", 1)
	switch {
	case panicked:
		c.Violate("C13|minimax.Evaluator.Evaluate|too-few-levels|panic", fmt.Sprintf("degree %d on %d levels: %v", len(deep)-1, x.params.MaxLevel(), pv), cc)
	case err == nil:
		c.Violate("C13|minimax.Evaluator.Evaluate|too-few-levels|not-refused", fmt.Sprintf("degree %d on %d levels evaluated without error (output level %d)", len(deep)-1, x.params.MaxLevel(), res.Level()), cc)
	default:
		c.Count("errors_observed", 1)
	}
}

func (cc compxCfg) lit45() ckks.ParametersLiteral {
	logq := []int{55}
	for i := 0; i < cc.NQ; i++ {
		logq = append(logq, 45)
	}
	lit := ckks.ParametersLiteral{LogN: cc.LogN, LogQ: logq, LogP: []int{60}, LogDefaultScale: 45, Xs: ring.Ternary{H: 16}}
	if cc.Ring == "ci" {
		lit.RingType = ring.ConjugateInvariant
	}
	return lit
}

func runGoldNoBtp(c *eng.Ctx, cc compxCfg) {
	rnd := c.Rand()
	x, err := newCompCtx(cc.lit45())
	if err != nil {
		c.Inconclusive(err.Error())
		return
	}
	// "will return an error if the input ciphertext does not have enough remaining level and if the InverseEvaluator was
	// instantiated with no bootstrapper"
	inv := inverse.NewEvaluator(x.params, minimax.NewEvaluator(x.params, x.eval, nil))
	slots := x.params.MaxSlots()
	lo := math.Exp2(cc.Log2Min)
	vals := make([]float64, slots)
	for i := range vals {
		vals[i] = lo + (2-2*lo)*rnd.F64()
		switch rnd.N(6) {
		case 0:
			vals[i] = lo
		case 1:
			vals[i] = 2 - lo
		case 2:
			vals[i] = 1
		}
	}
	sig := "C13|inverse.Evaluator.GoldschmidtDivisionNew"
	c.Distinct(fmt.Sprintf("compx/gold-nobtp/%s/logN%d/min%v", cc.Ring, cc.LogN, cc.Log2Min), true)
	ct, err := x.encrypt(vals, cc.Level, 0)
	if err != nil {
		c.Inconclusive(err.Error())
		return
	}
	before := ctBytes(ct)
	var res *rlwe.Ciphertext
	if !c.Try(sig, func() { res, err = inv.GoldschmidtDivisionNew(ct, cc.Log2Min) }) {
		return
	}
	c.Count("composite_evaluations", 1)
	c.Count("inverse_without_bootstrapper", 1)
	if err != nil {
		c.Eval(1)
		c.Violate(sig+"|unexpected-error|no-bootstrapper", fmt.Sprintf("%+v: %v", cc, err), cc)
	} else if out, err := x.decode(res); err != nil {
		c.Violate(sig+"|decode-error", err.Error(), cc)
	} else {
		worst, wi := 0.0, -1
		for i, v := range vals {
			if e := math.Hypot(real(out[i])*v-1, imag(out[i])*v); e > worst || math.IsNaN(e) {
				worst, wi = e, i
			}
		}
		c.Eval(slots)
		c.Max("max_inverse45_relerr_log2_plus100", int64(100+math.Max(-100, math.Log2(worst+1e-300))))
		if !(worst <= math.Exp2(-16)) {
			c.Violate(sig+"|wrong-value|no-bootstrapper", fmt.Sprintf("%+v: slot %d x=%g got %v want %g, relative error 2^%.1f", cc, wi, vals[wi], out[wi], 1/vals[wi], math.Log2(worst)), cc)
		}
	}
	c.Check(bytes.Equal(before, ctBytes(ct)), sig+"|input-modified", func() string { return fmt.Sprintf("%+v: the input ciphertext changed", cc) })
	// refusal: two levels cannot hold the (at least three) iterations
	low, err := x.encrypt(vals, 1+rnd.N(2), 0)
	if err != nil {
		return
	}
	before = ctBytes(low)
	panicked, pv := eng.Panics(func() { res, err = inv.GoldschmidtDivisionNew(low, cc.Log2Min) })
	c.Eval(1)
	c.Count("refusal_checks", 1)
	c.Count("refusal_checks_extended", 1)
	switch {
	case panicked:
		c.Violate(sig+"|too-few-levels|panic", fmt.Sprintf("%+v level %d: %v", cc, low.Level(), pv), cc)
	case err == nil:
		c.Violate(sig+"|too-few-levels|not-refused", fmt.Sprintf("%+v: input at level %d without bootstrapper evaluated without error", cc, low.Level()), cc)
	default:
		c.Count("errors_observed", 1)
	}
	c.Check(bytes.Equal(before, ctBytes(low)), sig+"|too-few-levels|input-modified", func() string { return fmt.Sprintf("%+v: the refused input changed", cc) })
}

func runNormalize(c *eng.Ctx, cc compxCfg) {
	rnd := c.Rand()
	x, err := newCompCtx(cc.lit45())
	if err != nil {
		c.Inconclusive(err.Error())
		return
	}
	inv := inverse.NewEvaluator(x.params, x.mm)
	slots := x.params.MaxSlots()
	hi := math.Exp2(cc.Log2Max)
	vals := make([]float64, slots)
	for i := range vals {
		vals[i] = hi * (rnd.F64()*2 - 1)
		switch rnd.N(8) {
		case 0:
			vals[i] = hi
		case 1:
			vals[i] = -hi
		case 2:
			vals[i] = rnd.F64()*2 - 1 // already inside [-1, 1]
		case 3:
			vals[i] = 0
		}
	}
	ct, err := x.encrypt(vals, cc.Level, 0)
	if err != nil {
		c.Inconclusive(err.Error())
		return
	}
	sig := "C13|inverse.Evaluator.IntervalNormalization"
	c.Distinct(fmt.Sprintf("compx/normalize/%s/logN%d/nq%d/lvl%d/max%v", cc.Ring, cc.LogN, cc.NQ, cc.Level, cc.Log2Max), true)
	before := ctBytes(ct)
	var norm, fac *rlwe.Ciphertext
	if !c.Try(sig, func() { norm, fac, err = inv.IntervalNormalization(ct, cc.Log2Max, x.btp) }) {
		return
	}
	c.Count("composite_evaluations", 1)
	c.Count("interval_normalizations", 1)
	if err != nil {
		c.Eval(1)
		c.Violate(sig+"|unexpected-error", fmt.Sprintf("%+v: %v", cc, err), cc)
		return
	}
	if norm == nil || fac == nil {
		c.Violate(sig+"|nil-result", fmt.Sprintf("%+v: norm=%v factor=%v", cc, norm != nil, fac != nil), cc)
		return
	}
	on, err1 := x.decode(norm)
	of, err2 := x.decode(fac)
	if err1 != nil || err2 != nil {
		c.Violate(sig+"|decode-error", fmt.Sprint(err1, err2), cc)
		return
	}
	// "compute y such that ct * y has values in [-1, 1]": y = factor, ct*y = normalised ciphertext; every step multiplies by
	// 1 - (c*y)^2 with (c*y)^2 <= 4*2.45^2/27 < 0.89: the factor lies in (0, 1]
	bad, why := -1, ""
	worst := 0.0
	for i, v := range vals {
		n, f := real(on[i]), real(of[i])
		e := math.Abs(n - v*f)
		worst = math.Max(worst, e/(1+math.Abs(v)))
		switch {
		case !(e <= math.Exp2(-18)*(1+math.Abs(v))):
			bad, why = i, "normalised != ct*factor"
		case !(math.Abs(n) <= 1+math.Exp2(-12)):
			bad, why = i, "normalised value outside [-1,1]"
		case !(f > 0 && f <= 1+math.Exp2(-12)):
			bad, why = i, "factor outside (0,1]"
		case !(math.Abs(imag(on[i])) <= math.Exp2(-18) && math.Abs(imag(of[i])) <= math.Exp2(-18)):
			bad, why = i, "imaginary part"
		}
		if bad >= 0 {
			break
		}
	}
	c.Eval(slots)
	c.Max("max_normalize_err_log2_plus100", int64(100+math.Max(-100, math.Log2(worst+1e-300))))
	if bad >= 0 {
		c.Violate(sig+"|wrong-value", fmt.Sprintf("%+v: slot %d x=%g: normalised %v factor %v: %s", cc, bad, vals[bad], on[bad], of[bad], why), cc)
	}
	c.Check(bytes.Equal(before, ctBytes(ct)), sig+"|input-modified", func() string { return fmt.Sprintf("%+v: the input ciphertext changed", cc) })
}

func runInv45(c *eng.Ctx, cc compxCfg) {
	rnd := c.Rand()
	x, err := newCompCtx(cc.lit48())
	if err != nil {
		c.Inconclusive(err.Error())
		return
	}
	inv := inverse.NewEvaluator(x.params, x.mm)
	slots := x.params.MaxSlots()
	lo, hi := math.Exp2(cc.Log2Min), math.Exp2(cc.Log2Max)
	vals := make([]float64, slots)
	for i := range vals {
		var m float64
		switch rnd.N(6) {
		case 0:
			m = lo
		case 1:
			m = hi
		case 2:
			m = 1
		default:
			m = math.Exp2(cc.Log2Min + (cc.Log2Max-cc.Log2Min)*rnd.F64())
		}
		switch cc.Kind {
		case "inv45-gold":
			m = lo + (2-2*lo)*rnd.F64()
			switch rnd.N(6) {
			case 0:
				m = lo
			case 1:
				m = 2 - lo
			}
		case "inv45-neg":
			m = -m
		case "inv45-full":
			if rnd.Bool() {
				m = -m
			}
		}
		vals[i] = m
	}
	ct, err := x.encrypt(vals, cc.Level, 0)
	if err != nil {
		c.Inconclusive(err.Error())
		return
	}
	name := map[string]string{"inv45-gold": "GoldschmidtDivisionNew", "inv45-pos": "EvaluatePositiveDomainNew", "inv45-neg": "EvaluateNegativeDomainNew", "inv45-full": "EvaluateFullDomainNew"}[cc.Kind]
	sig := "C13|inverse.Evaluator." + name
	pred := "one-prime-per-rescaling"
	if cc.Kind == "inv45-full" {
		pred = "caller-supplied-sign-composite"
	}
	c.Distinct(fmt.Sprintf("compx/%s/%s/logN%d/nq%d/lvl%d/min%v/max%v", cc.Kind, cc.Ring, cc.LogN, cc.NQ, cc.Level, cc.Log2Min, cc.Log2Max), true)
	before := ctBytes(ct)
	var res *rlwe.Ciphertext
	if !c.Try(sig, func() {
		switch cc.Kind {
		case "inv45-gold":
			res, err = inv.GoldschmidtDivisionNew(ct, cc.Log2Min)
		case "inv45-pos":
			res, err = inv.EvaluatePositiveDomainNew(ct, cc.Log2Min, cc.Log2Max)
		case "inv45-neg":
			res, err = inv.EvaluateNegativeDomainNew(ct, cc.Log2Min, cc.Log2Max)
		case "inv45-full":
			// "The user can provide a minimax composite polynomial (signMinimaxPoly) for the sign function in the interval
			// [-1-e, -2^{log2min}] U [2^{log2min}, 1+e]": four stages of f4 bring |x| >= 2^-3 to within 2^-9 of +-1, and "the
			// precision of the output of sign(x * c) does not impact the circuit precision"
			res, err = inv.EvaluateFullDomainNew(ct, cc.Log2Min, cc.Log2Max, customPolys(cc.Stages, 0))
		}
	}) {
		return
	}
	c.Count("composite_evaluations", 1)
	c.Count("inverse_one_prime_per_rescaling", 1)
	if err != nil {
		c.Eval(1)
		c.Violate(sig+"|unexpected-error|"+pred, fmt.Sprintf("%+v: %v", cc, err), cc)
		return
	}
	out, err := x.decode(res)
	if err != nil {
		c.Violate(sig+"|decode-error", err.Error(), cc)
		return
	}
	worst, wi := 0.0, -1
	for i, v := range vals {
		if e := math.Hypot(real(out[i])*v-1, imag(out[i])*v); e > worst || math.IsNaN(e) {
			worst, wi = e, i
		}
	}
	c.Eval(slots)
	c.Max("max_inverse45_relerr_log2_plus100", int64(100+math.Max(-100, math.Log2(worst+1e-300))))
	// scale 2^48, N <= 2^10, sparse secret: the scheme precision is ~2^-30; a skipped iteration, a lost sign or a missing
	// normalisation factor leaves an error of order 2^-6 or more
	if !(worst <= math.Exp2(-14)) {
		c.Violate(sig+"|wrong-value|"+pred, fmt.Sprintf("%+v: slot %d x=%g got %v want %g, relative error 2^%.1f", cc, wi, vals[wi], out[wi], 1/vals[wi], math.Log2(worst)), cc)
	}
	c.Check(bytes.Equal(before, ctBytes(ct)), sig+"|input-modified", func() string { return fmt.Sprintf("%+v: the input ciphertext changed", cc) })
}

// runMod1Low: the mod1 circuit with Parameters.LevelQ = 11 on the 13-level chain of runMod1: the input arrives at level 12,
// the evaluator drops it to LevelQ and takes the double-angle moduli relative to that level.
func runMod1Low(c *eng.Ctx, cc compxCfg) {
	rnd := c.Rand()
	lit := ckks.ParametersLiteral{LogN: cc.LogN, LogQ: []int{55, 60, 60, 60, 60, 60, 60, 60, 60, 60, 60, 60, 60, 53}, LogP: []int{61, 61, 61, 61, 61},
		Xs: ring.Ternary{H: 192}, LogDefaultScale: 45}
	x, err := newCompCtx(lit)
	if err != nil {
		c.Inconclusive(err.Error())
		return
	}
	evm := mod1Lits[cc.Variant%2]
	evm.LevelQ = 11
	mp, err := mod1.NewParametersFromLiteral(x.params, evm)
	if err != nil {
		c.Violate("C13|mod1.NewParametersFromLiteral|unexpected-error", err.Error(), cc)
		return
	}
	sig := "C13|mod1.Evaluator.EvaluateNew"
	slots := x.params.MaxSlots()
	K := mp.K - 1
	Q := mp.QDiff * mp.MessageRatio()
	vals := make([]float64, slots)
	for i := range vals {
		ip := math.Round((rnd.F64()*2 - 1) * K)
		fr := rnd.F64()*2 - 1
		switch rnd.N(8) {
		case 0:
			ip = K
		case 1:
			ip = -K
		case 2:
			fr = 1
		case 3:
			fr = -1
		}
		vals[i] = ip*Q + fr
	}
	c.Distinct(fmt.Sprintf("compx/mod1-low/logN%d/type%d", cc.LogN, evm.Mod1Type), true)
	prepare := func(level int) (*rlwe.Ciphertext, error) {
		ct, err := x.encrypt(vals, level, 0)
		if err != nil {
			return nil, err
		}
		eval := x.eval
		// the in-tree recipe bringing the message to the scale the circuit expects (as in runMod1)
		scale := rlwe.NewScale(math.Exp2(math.Round(math.Log2(float64(x.params.Q()[0]) / mp.MessageRatio()))))
		scale = scale.Div(ct.Scale)
		if err = eval.ScaleUp(ct, rlwe.NewScale(math.Round(scale.Float64())), ct); err != nil {
			return nil, err
		}
		scale = mp.ScalingFactor().Div(ct.Scale)
		scale = scale.Div(rlwe.NewScale(mp.MessageRatio()))
		if err = eval.ScaleUp(ct, rlwe.NewScale(math.Round(scale.Float64())), ct); err != nil {
			return nil, err
		}
		if err = eval.Mul(ct, 1/(mp.K*mp.QDiff), ct); err != nil {
			return nil, err
		}
		return ct, eval.Rescale(ct, ct)
	}
	me := mod1.NewEvaluator(x.eval, ckkspoly.NewEvaluator(x.params, x.eval), mp)
	// ---- input above LevelQ
	var res *rlwe.Ciphertext
	var ct *rlwe.Ciphertext
	if !c.Try(sig, func() {
		if ct, err = prepare(-1); err != nil { // level 13 -> 12 after the rescaling
			return
		}
		res, err = me.EvaluateNew(ct)
	}) {
		return
	}
	c.Count("composite_evaluations", 1)
	c.Count("mod1_evaluations_input_above_levelq", 1)
	if err != nil {
		c.Eval(1)
		c.Violate(sig+"|unexpected-error|input-above-LevelQ", err.Error(), cc)
	} else if out, err := x.decode(res); err != nil {
		c.Violate(sig+"|decode-error", err.Error(), cc)
	} else {
		worst, wi := maxAbsErr(out, func(i int) float64 {
			w := math.Sin(2 * math.Pi * vals[i] / mp.MessageRatio() / mp.QDiff)
			if evm.Mod1InvDegree > 0 {
				w = math.Asin(w)
			}
			return w * mp.MessageRatio() * mp.QDiff / (2 * math.Pi)
		})
		c.Eval(slots)
		c.Max("max_mod1_err_log2_plus100", int64(100+math.Max(-100, math.Log2(worst+1e-300))))
		if !(worst <= math.Exp2(-20)) {
			c.Violate(sig+"|wrong-value|input-above-LevelQ", fmt.Sprintf("%+v type=%d LevelQ=11 input level 12: slot %d x=%g got %v, error 2^%.1f", cc, evm.Mod1Type, wi, vals[wi], out[wi], math.Log2(worst)), cc)
		}
	}
	// ---- input below LevelQ: "cannot Evaluate: ct.Level() < Mod1Parameters.LevelQ"
	low, perr := prepare(evm.LevelQ - rnd.N(3)) // level LevelQ-1 .. LevelQ-3 after the rescaling
	if perr != nil {
		return
	}
	before := ctBytes(low)
	panicked, pv := eng.Panics(func() { res, err = me.EvaluateNew(low) })
	c.Check(bytes.Equal(before, ctBytes(low)), sig+"|too-few-levels|input-modified", func() string { return fmt.Sprintf("%+v: the refused input changed", cc) })
	c.Eval(1)
	c.Count("refusal_checks", 1)
	c.Count("refusal_checks_extended", 1)
	switch {
	case panicked:
		c.Violate(sig+"|too-few-levels|panic", fmt.Sprintf("%+v: %v", cc, pv), cc)
	case err == nil:
		c.Violate(sig+"|too-few-levels|not-refused", fmt.Sprintf("%+v: input at level %d < LevelQ = %d evaluated without error", cc, low.Level(), evm.LevelQ), cc)
	default:
		c.Count("errors_observed", 1)
	}
}
