package c13

import (
	"math"
	"math/big"

	"verif/harness/eng"
	"verif/harness/gen"
	"verif/harness/ref"
)

// ---------------------------------------------------------------------------------------------
// reference arithmetic (independent of lattigo's bignum package): complex numbers over
// math/big.Float at a fixed 320-bit mantissa.

const refPrec = 320

type cx struct{ re, im *big.Float }

func bf() *big.Float { return new(big.Float).SetPrec(refPrec) }

func cxF(re, im float64) cx { return cx{bf().SetFloat64(re), bf().SetFloat64(im)} }

func cxB(re, im *big.Float) cx {
	c := cx{bf(), bf()}
	if re != nil {
		c.re.Set(re)
	}
	if im != nil {
		c.im.Set(im)
	}
	return c
}

func (a cx) add(b cx) cx { return cx{bf().Add(a.re, b.re), bf().Add(a.im, b.im)} }
func (a cx) sub(b cx) cx { return cx{bf().Sub(a.re, b.re), bf().Sub(a.im, b.im)} }
func (a cx) mul(b cx) cx {
	rr := bf().Mul(a.re, b.re)
	ii := bf().Mul(a.im, b.im)
	ri := bf().Mul(a.re, b.im)
	ir := bf().Mul(a.im, b.re)
	return cx{rr.Sub(rr, ii), ri.Add(ri, ir)}
}
func (a cx) dbl() cx { return a.add(a) }

// abs returns |a| as a float64 (enough for error magnitudes; exponent range of float64 covers 2^-1000).
func (a cx) abs() float64 {
	r, _ := a.re.Float64()
	i, _ := a.im.Float64()
	return math.Hypot(r, i)
}

// refMono evaluates sum c_k x^k by Horner's rule.
func refMono(c []cx, x cx) cx {
	y := cxF(0, 0)
	for k := len(c) - 1; k >= 0; k-- {
		y = y.mul(x).add(c[k])
	}
	return y
}

// refCheb evaluates sum c_k T_k(u) with the three-term recurrence T_{k+1} = 2 u T_k - T_{k-1}.
func refCheb(c []cx, u cx) cx {
	y := cxF(0, 0)
	tPrev := cxF(1, 0)
	t := cxB(u.re, u.im)
	for k := 0; k < len(c); k++ {
		if k == 0 {
			y = y.add(c[0].mul(tPrev))
			continue
		}
		y = y.add(c[k].mul(t))
		tNext := u.mul(t).dbl().sub(tPrev)
		tPrev, t = t, tNext
	}
	return y
}

// refChebT returns T_n(u).
func refChebT(n int, u cx) cx {
	if n == 0 {
		return cxF(1, 0)
	}
	tPrev := cxF(1, 0)
	t := cxB(u.re, u.im)
	for k := 1; k < n; k++ {
		tNext := u.mul(t).dbl().sub(tPrev)
		tPrev, t = t, tNext
	}
	return t
}

func refPow(x cx, n int) cx {
	y := cxF(1, 0)
	for i := 0; i < n; i++ {
		y = y.mul(x)
	}
	return y
}

// refModT evaluates sum c_k x^k mod t.
func refModT(c []uint64, x, t uint64) uint64 {
	var y uint64
	for k := len(c) - 1; k >= 0; k-- {
		y = ref.AddMod(ref.MulMod(y, x%t, t), c[k]%t, t)
	}
	return y
}

// ceilLog2p1 = ceil(log2(d+1)) = bit length of d: the documented number of rescalings.
func ceilLog2p1(d int) int {
	n := 0
	for d > 0 {
		n++
		d >>= 1
	}
	return n
}

// ceilLog2 = ceil(log2(d)) for d >= 1.
func ceilLog2(d int) int {
	if d <= 1 {
		return 0
	}
	return ceilLog2p1(d - 1)
}

// ---------------------------------------------------------------------------------------------
// primes

// primeNear returns the first prime = 1 mod nth at or above (up) / at or below (!up) target that
// is not in skip, and records it in skip.
func primeNear(target, nth uint64, skip map[uint64]bool, up bool) uint64 {
	c := target - (target % nth) + 1
	if up {
		for c < target {
			c += nth
		}
	} else {
		for c > target {
			c -= nth
		}
	}
	for i := 0; i < 4_000_000; i++ {
		if c > nth && !skip[c] && gen.IsPrime(c) {
			skip[c] = true
			return c
		}
		if up {
			c += nth
		} else {
			c -= nth
		}
	}
	return 0
}

// primesAround draws k distinct primes = 1 mod nth whose ratio to center lies in [2^-dev, 2^dev],
// spread over that window (deterministic in r).
func primesAround(r *eng.Rand, center float64, dev float64, nth uint64, k int, skip map[uint64]bool) []uint64 {
	out := make([]uint64, 0, k)
	for i := 0; i < k; i++ {
		// position in [-dev, dev]: alternate the sign, spread the magnitudes
		f := (r.F64()*2 - 1) * dev
		tgt := center * math.Exp2(f)
		p := primeNear(uint64(tgt), nth, skip, f < 0)
		if p == 0 {
			return nil
		}
		out = append(out, p)
	}
	return out
}

// ---------------------------------------------------------------------------------------------
// shapes of coefficient vectors

const (
	shDense     = "dense"
	shSparse    = "sparse"
	shOdd       = "odd-flag"
	shEven      = "even-flag"
	shOddNoFlag = "odd-noflag"
	shEvnNoFlag = "even-noflag"
	shZLead     = "zero-lead"
	shZTrail    = "zero-trail"
	shMono      = "leading-only"
	shZero      = "all-zero"
)

var shapes = []string{shDense, shDense, shSparse, shOdd, shEven, shOddNoFlag, shEvnNoFlag, shZLead, shZTrail, shMono, shZero}

// shapeMask returns which coefficients of a degree-d polynomial are allowed to be non-zero, and
// the IsOdd / IsEven flags the caller has to set (both true = general polynomial).
func shapeMask(r *eng.Rand, shape string, d int) (mask []bool, isOdd, isEven bool) {
	mask = make([]bool, d+1)
	isOdd, isEven = true, true
	for i := range mask {
		mask[i] = true
	}
	switch shape {
	case shSparse:
		for i := range mask {
			mask[i] = r.Bool()
		}
		mask[d] = true
	case shOdd, shOddNoFlag:
		for i := range mask {
			mask[i] = i&1 == 1
		}
		if shape == shOdd {
			isEven = false
		}
	case shEven, shEvnNoFlag:
		for i := range mask {
			mask[i] = i&1 == 0
		}
		if shape == shEven {
			isOdd = false
		}
	case shZLead:
		mask[d] = false
		if d >= 3 && r.Bool() {
			mask[d-1] = false
		}
	case shZTrail:
		mask[0] = false
		if d >= 2 && r.Bool() {
			mask[1] = false
		}
	case shMono:
		for i := range mask {
			mask[i] = i == d
		}
	case shZero:
		for i := range mask {
			mask[i] = false
		}
	}
	return
}

// degreeSchedule lists the degrees exercised for a maximal depth: every degree up to 9, every
// boundary 2^k-1, 2^k, 2^k+1 and `extra` random ones, all <= min(2^depth - 1, cap).
func degreeSchedule(r *eng.Rand, depth int, cap int, extra int) []int {
	max := (1 << depth) - 1
	if max > cap {
		max = cap
	}
	seen := map[int]bool{}
	var out []int
	add := func(d int) {
		if d >= 1 && d <= max && !seen[d] {
			seen[d] = true
			out = append(out, d)
		}
	}
	for d := 1; d <= 9; d++ {
		add(d)
	}
	for k := 3; k <= depth; k++ {
		add(1<<k - 1)
		add(1 << k)
		add(1<<k + 1)
	}
	add(max)
	for i := 0; i < extra && max > 9; i++ {
		add(10 + r.N(max-9))
	}
	return out
}

// randMapping draws a slot mapping for npoly polynomials over `slots` slots: disjoint subsets, a
// random part of the slots left unmapped (those must evaluate to zero).
func randMapping(r *eng.Rand, npoly, slots int) (mapping map[int][]int, owner []int) {
	owner = make([]int, slots)
	mapping = map[int][]int{}
	mode := r.N(4) // 0: all slots mapped, 1: ~half unmapped, 2: blocks, 3: only a few mapped
	for j := 0; j < slots; j++ {
		owner[j] = -1
		switch mode {
		case 0:
			owner[j] = r.N(npoly)
		case 1:
			if r.Bool() {
				owner[j] = r.N(npoly)
			}
		case 2:
			b := j * (npoly + 1) / slots
			if b < npoly {
				owner[j] = b
			}
		case 3:
			if r.N(8) == 0 {
				owner[j] = r.N(npoly)
			}
		}
	}
	// first and last slot are boundary positions: force one mapped and (when possible) one unmapped
	owner[0] = 0
	if mode != 0 && slots > 1 {
		owner[slots-1] = -1
	}
	for j, o := range owner {
		if o >= 0 {
			mapping[o] = append(mapping[o], j)
		}
	}
	return
}

// flagClass is the discriminating predicate of a failing polynomial-evaluation case: which
// user-settable flag of the polynomial selects a special code path.
func flagClass(shape string, lazy bool) string {
	switch {
	case lazy:
		return "lazy"
	case shape == shEven:
		return "even-flag"
	case shape == shOdd:
		return "odd-flag"
	}
	return "general"
}
