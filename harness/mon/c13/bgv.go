package c13

import (
	"fmt"
	"math"
	"math/big"

	bgvpoly "github.com/tuneinsight/lattigo/v6/circuits/bgv/polynomial"
	"github.com/tuneinsight/lattigo/v6/circuits/common/polynomial"
	"github.com/tuneinsight/lattigo/v6/core/rlwe"
	"github.com/tuneinsight/lattigo/v6/schemes/bgv"
	"github.com/tuneinsight/lattigo/v6/utils/bignum"

	"verif/harness/eng"
	"verif/harness/obs"
)

type bgvCfg struct {
	Idx   int      `json:"idx"`
	LogN  int      `json:"logN"`
	T     uint64   `json:"t"`
	Q     []uint64 `json:"q"`
	P     []uint64 `json:"p"`
	QBits int      `json:"qbits"`
	Cap   int      `json:"degree_cap"`
	Extra int      `json:"extra_degrees"`
}

// plaintext moduli: (t, largest logN for which t = 1 mod 2N; for larger rings the slot count shrinks)
var bgvT = []uint64{65537, 257, 97, 12289, 786433, 0xffc001, 40961}

func log2u(x uint64) float64 { return math.Log2(float64(x)) }

func drawBGV(r *eng.Rand, idx int, tier string) (bgvCfg, bool) {
	logNs := []int{4, 5, 6, 6, 7, 7, 8, 9}
	if tier == "thorough" {
		logNs = []int{4, 5, 6, 7, 8, 9, 10}
	}
	logN := eng.Pick(r, logNs...)
	t := eng.Pick(r, bgvT...)
	// parameter rule (see package comment): prime size >= 1.5*(log t + log N) + 12 bits so that the
	// average-case noise stays >= 15 bits below Q at every step; the measured budget is reported.
	need := int(math.Ceil(1.5*(log2u(t)+float64(logN)) + 12))
	if need > 60 {
		return bgvCfg{}, false
	}
	if need < 30 {
		need = 30
	}
	qb := need + r.N(61-need)
	levels := 1 + r.N(6) // max level 1..6
	if tier == "thorough" && r.N(4) == 0 {
		levels = 7
	}
	nth := uint64(2) << logN
	skip := map[uint64]bool{t: true}
	var q []uint64
	for i := 0; i <= levels; i++ {
		b := qb
		if i > 0 && r.N(3) == 0 && qb > need {
			b = need + r.N(qb-need+1)
		}
		lo := math.Exp2(float64(b - 1))
		p := primeNear(uint64(lo*(1+r.F64()*0.98)), nth, skip, r.Bool())
		if p == 0 {
			return bgvCfg{}, false
		}
		q = append(q, p)
	}
	np := 1 + r.N(2)
	var p []uint64
	for i := 0; i < np; i++ {
		x := primeNear(uint64(math.Exp2(60)*(1+r.F64()*0.9)), nth, skip, true)
		if x == 0 {
			return bgvCfg{}, false
		}
		p = append(p, x)
	}
	cfg := bgvCfg{Idx: idx, LogN: logN, T: t, Q: q, P: p, QBits: qb, Cap: 63, Extra: 4}
	if tier == "thorough" {
		cfg.Cap, cfg.Extra = 127, 10
	}
	if logN >= 9 {
		cfg.Cap, cfg.Extra = 31, 3
	}
	return cfg, true
}

type bgvJob struct {
	Mode     string `json:"mode"` // standard | invariant
	Deg      int    `json:"deg"`
	Shape    string `json:"shape"`
	API      string `json:"api"`
	NPoly    int    `json:"npoly"`
	Lazy     bool   `json:"lazy"`
	Level    int    `json:"level"`
	InScale  uint64 `json:"in_scale"`
	TgtScale uint64 `json:"target_scale"`
	Pregen   []int  `json:"pregen,omitempty"`
}

func pickCoeffT(r *eng.Rand, t uint64) uint64 {
	switch r.N(6) {
	case 0:
		return 1
	case 1:
		return t - 1
	case 2:
		return t / 2
	default:
		return 1 + r.U64()%(t-1)
	}
}

func runBGV(c *eng.Ctx, cfg bgvCfg) {
	rnd := c.Rand()
	params, err := bgv.NewParametersFromLiteral(bgv.ParametersLiteral{LogN: cfg.LogN, Q: cfg.Q, P: cfg.P, PlaintextModulus: cfg.T})
	if err != nil {
		c.Inconclusive(fmt.Sprintf("parameters rejected: %v", err))
		return
	}
	t := cfg.T
	kgen := rlwe.NewKeyGenerator(params)
	sk := kgen.GenSecretKeyNew()
	evk := rlwe.NewMemEvaluationKeySet(kgen.GenRelinearizationKeyNew(sk))
	ecd := bgv.NewEncoder(params)
	enc := rlwe.NewEncryptor(params, sk)
	dec := rlwe.NewDecryptor(params, sk)
	slots := params.MaxSlots()
	maxLevel := params.MaxLevel()
	c.Sample(map[string]any{"kind": "bgv", "cfg": cfg, "slots": slots})

	for _, mode := range []string{"standard", "invariant"} {
		inv := mode == "invariant"
		eval := bgv.NewEvaluator(params, evk, inv)
		pe := bgvpoly.NewEvaluator(params, eval)
		// depth available: standard mode consumes ceil(log2(d+1)) levels; the invariant mode consumes none
		// but the generic level check still asks for ceil(log2 d) levels.
		depth := maxLevel
		if inv {
			depth = maxLevel + 1
		}
		for _, deg := range degreeSchedule(rnd, depth, cfg.Cap, cfg.Extra) {
			need := ceilLog2p1(deg)
			minLevel := need
			if inv {
				need = 0
				minLevel = ceilLog2(deg)
				// one prime must hold t*e*(N*t/2) (a plaintext-vector product of fresh noise) with room to spare
				if minLevel == 0 && float64(cfg.QBits) < 2*log2u(t)+float64(cfg.LogN)+14 {
					minLevel = 1
				}
			}
			if minLevel > maxLevel {
				continue
			}
			reps := 1
			if deg <= 9 {
				reps = 2
			}
			for rep := 0; rep < reps; rep++ {
				job := bgvJob{Mode: mode, Deg: deg}
				job.Shape = eng.Pick(rnd, shapes...)
				job.API = eng.Pick(rnd, "ct/bignum", "ct/poly", "ct/vec", "ct/vec", "pb/fresh", "pb/pregen", "pb/serial")
				job.NPoly = 1
				vec := job.API == "ct/vec" || (job.API[:2] == "pb" && rnd.N(3) == 0)
				if vec {
					job.NPoly = 1 + rnd.N(4)
				}
				// lazy relinearization is a flag of polynomial.Polynomial; it is not combined with the even-only flag so
				// that the two known defects keep separate signatures
				job.Lazy = job.API != "ct/bignum" && job.Shape != shEven && rnd.N(4) == 0
				switch rnd.N(4) {
				case 0:
					job.Level = minLevel
				case 1:
					job.Level = maxLevel
				default:
					job.Level = minLevel + rnd.N(maxLevel-minLevel+1)
				}
				job.InScale, job.TgtScale = 1, 1
				if rnd.N(3) != 0 {
					job.InScale = 1 + rnd.U64()%(t-1)
				}
				switch rnd.N(3) {
				case 0:
					job.TgtScale = job.InScale
				case 1:
					job.TgtScale = 1 + rnd.U64()%(t-1)
				}
				bgvEvalOnce(c, rnd, cfg, params, sk, ecd, enc, dec, eval, pe, job, vec, need, slots)
			}
			// refusal: an input below the documented number of levels must be refused with an error
			if !inv && need >= 1 {
				lvl := rnd.N(need)
				if rnd.Bool() {
					lvl = need - 1
				}
				bgvRefusal(c, rnd, cfg, params, ecd, enc, pe, deg, lvl, slots)
			}
		}
	}
	// degree 0 (a constant polynomial): the result must be the constant (or a refusal), never a panic
	for _, inv := range []bool{false, true} {
		eval := bgv.NewEvaluator(params, evk, inv)
		pe := bgvpoly.NewEvaluator(params, eval)
		vals, ct, err := bgvInput(rnd, params, ecd, enc, maxLevel, 1, slots)
		if err != nil {
			break
		}
		c0 := pickCoeffT(rnd, t)
		var res *rlwe.Ciphertext
		c.Distinct(fmt.Sprintf("bgv/degree0/inv%v", inv), true)
		panicked, pv := eng.Panics(func() {
			res, err = pe.Evaluate(ct, bignum.NewPolynomial(bignum.Monomial, []uint64{c0}, nil), params.DefaultScale())
		})
		c.Eval(1)
		switch {
		case panicked:
			c.Violate("C13|bgv/polynomial.Evaluator.Evaluate|panic|degree-0", fmt.Sprintf("Evaluate(ct, bignum.NewPolynomial(Monomial, []uint64{%d}, nil), scale) panics: %v", c0, pv), cfg)
		case err != nil:
			c.Count("errors_observed", 1)
		default:
			out := make([]uint64, slots)
			if ecd.Decode(dec.DecryptNew(res), out) == nil {
				okk := true
				for j := range out {
					okk = okk && out[j] == c0
				}
				c.Check(okk && res.Level() == maxLevel, "C13|bgv/polynomial.Evaluator.Evaluate|wrong-value|degree-0", func() string {
					return fmt.Sprintf("constant polynomial %d on %v...: got %v... at level %d", c0, eng.U64s(vals, 4), eng.U64s(out, 4), res.Level())
				})
			}
		}
	}
	// constructor domain: NewPolynomial / NewPolynomialVector are generic over bgv.Integer = int64 | uint64
	if cfg.Idx%8 != 0 {
		return
	}
	if p, v := eng.Panics(func() { _ = bgvpoly.NewPolynomial([]int64{1, 2, 3}) }); p {
		c.Eval(1)
		c.Violate("C13|bgv/polynomial.NewPolynomial|panic|int64-coefficients", fmt.Sprintf("bgvpoly.NewPolynomial([]int64{1,2,3}) panics: %v (the type parameter admits int64)", v), nil)
	} else {
		c.Eval(1)
	}
}

func bgvInput(rnd *eng.Rand, params bgv.Parameters, ecd *bgv.Encoder, enc *rlwe.Encryptor, level int, scale uint64, slots int) ([]uint64, *rlwe.Ciphertext, error) {
	t := params.PlaintextModulus()
	vals := make([]uint64, slots)
	for j := range vals {
		switch rnd.N(8) {
		case 0:
			vals[j] = 0
		case 1:
			vals[j] = 1
		case 2:
			vals[j] = t - 1
		default:
			vals[j] = rnd.U64() % t
		}
	}
	pt := bgv.NewPlaintext(params, level)
	pt.Scale = params.NewScale(scale)
	if err := ecd.Encode(vals, pt); err != nil {
		return nil, nil, err
	}
	ct, err := enc.EncryptNew(pt)
	return vals, ct, err
}

func bgvEvalOnce(c *eng.Ctx, rnd *eng.Rand, cfg bgvCfg, params bgv.Parameters, sk *rlwe.SecretKey, ecd *bgv.Encoder, enc *rlwe.Encryptor, dec *rlwe.Decryptor,
	eval *bgv.Evaluator, pe *bgvpoly.Evaluator, job bgvJob, vec bool, need, slots int) {
	t := cfg.T
	sigp := "C13|bgv/polynomial.Evaluator.Evaluate"
	pred := flagClass(job.Shape, job.Lazy)
	// polynomials
	mask, isOdd, isEven := shapeMask(rnd, job.Shape, job.Deg)
	coeffs := make([][]uint64, job.NPoly)
	for i := range coeffs {
		coeffs[i] = make([]uint64, job.Deg+1)
		for k := range coeffs[i] {
			if mask[k] {
				coeffs[i][k] = pickCoeffT(rnd, t)
			}
		}
	}
	var mapping map[int][]int
	owner := make([]int, slots)
	if vec {
		mapping, owner = randMapping(rnd, job.NPoly, slots)
	}
	vals, ct, err := bgvInput(rnd, params, ecd, enc, job.Level, job.InScale, slots)
	if err != nil {
		c.Inconclusive("input encryption failed: " + err.Error())
		return
	}
	target := params.NewScale(job.TgtScale)

	var pol interface{}
	switch {
	case vec:
		pv, err := bgvpoly.NewPolynomialVector(coeffs, mapping)
		if err != nil {
			c.Violate("C13|bgv/polynomial.NewPolynomialVector|unexpected-error", err.Error(), job)
			return
		}
		for i := range pv.Value {
			pv.Value[i].IsOdd, pv.Value[i].IsEven = isOdd, isEven
			pv.Value[i].Lazy = job.Lazy
		}
		pol = pv
	case job.API == "ct/bignum":
		bp := bignum.NewPolynomial(bignum.Monomial, coeffs[0], nil)
		bp.IsOdd, bp.IsEven = isOdd, isEven
		pol = bp
	default:
		p := bgvpoly.NewPolynomial(coeffs[0])
		p.IsOdd, p.IsEven = isOdd, isEven
		p.Lazy = job.Lazy
		pol = p
	}

	var res *rlwe.Ciphertext
	ok := c.Try(sigp, func() {
		if job.API[:2] == "ct" {
			res, err = pe.Evaluate(ct, pol, target)
			return
		}
		pb := polynomial.NewPowerBasis(ct, bignum.Monomial)
		if job.API != "pb/fresh" {
			// pre-generate a few powers the way a caller sharing a basis between polynomials would
			npre := 1 + rnd.N(3)
			for i := 0; i < npre && err == nil; i++ {
				n := 2 + rnd.N(job.Deg+2)
				job.Pregen = append(job.Pregen, n)
				if ceilLog2(n) > job.Level && job.Mode == "standard" {
					continue
				}
				err = pb.GenPower(n, false, eval)
			}
			if err != nil {
				return
			}
		}
		if job.API == "pb/serial" {
			var data []byte
			if data, err = pb.MarshalBinary(); err != nil {
				return
			}
			pb2 := polynomial.PowerBasis{}
			if err = pb2.UnmarshalBinary(data); err != nil {
				return
			}
			pb = pb2
		}
		res, err = pe.EvaluateFromPowerBasis(pb, pol, target)
	})
	key := fmt.Sprintf("bgv/%s/d%d/%s/%s/n%d/lazy%v/lvl%s/sc%v%v", job.Mode, job.Deg, job.Shape, job.API, job.NPoly, job.Lazy,
		levelClass(job.Level, need, params.MaxLevel()), job.InScale != 1, job.TgtScale != job.InScale)
	c.Distinct(key, job.Deg >= 3 || job.NPoly >= 2)
	c.Count("bgv_evaluations", 1)
	if !ok {
		return
	}
	if err != nil {
		c.Eval(1)
		c.Violate(sigp+"|unexpected-error|"+pred, fmt.Sprintf("%+v: %v", job, err), map[string]any{"cfg": cfg, "job": job})
		return
	}
	// level / scale / degree contract
	c.Check(res.Level() == job.Level-need, sigp+"|levels-consumed|"+pred, func() string {
		return fmt.Sprintf("%+v: output level %d, documented %d - %d", job, res.Level(), job.Level, need)
	})
	c.Check(res.Scale.Uint64() == job.TgtScale, sigp+"|output-scale|"+pred, func() string {
		return fmt.Sprintf("%+v: output scale %d, requested %d", job, res.Scale.Uint64(), job.TgtScale)
	})
	c.Check(res.Degree() == 1, sigp+"|output-degree", func() string { return fmt.Sprintf("%+v: degree %d", job, res.Degree()) })
	// metadata other than the scale (packing, NTT / Montgomery domain) is that of the input
	c.Check(metaSame(res.MetaData, ct.MetaData), sigp+"|output-metadata", func() string {
		return fmt.Sprintf("%+v: output metadata %+v / %+v, input %+v / %+v", job, res.PlaintextMetaData, res.CiphertextMetaData, ct.PlaintextMetaData, ct.CiphertextMetaData)
	})
	c.Count("metadata_checks", 1)
	// values
	out := make([]uint64, slots)
	if !c.Try(sigp+"|decode", func() { err = ecd.Decode(dec.DecryptNew(res), out) }) || err != nil {
		c.Violate(sigp+"|decode-error", fmt.Sprint(err), job)
		return
	}
	bad, badUnmapped := -1, -1
	for j := 0; j < slots; j++ {
		var want uint64
		if !vec {
			want = refModT(coeffs[0], vals[j], t)
		} else if owner[j] >= 0 {
			want = refModT(coeffs[owner[j]], vals[j], t)
		}
		if out[j] != want {
			if vec && owner[j] < 0 {
				if badUnmapped < 0 {
					badUnmapped = j
				}
			} else if bad < 0 {
				bad = j
			}
		}
	}
	c.Eval(slots)
	c.Count("bgv_slots_checked", int64(slots))
	if bad >= 0 {
		o := 0
		if vec {
			o = owner[bad]
		}
		c.Violate(sigp+"|wrong-value|"+pred, fmt.Sprintf("%+v: slot %d x=%d poly#%d coeffs=%v got=%d want=%d (t=%d)", job, bad, vals[bad], o, eng.U64s(coeffs[o], 12), out[bad], refModT(coeffs[o], vals[bad], t), t),
			map[string]any{"cfg": cfg, "job": job})
	}
	if badUnmapped >= 0 && bad < 0 {
		c.Violate(sigp+"|unmapped-slot-nonzero|"+pred, fmt.Sprintf("%+v: slot %d is in no mapping but decodes to %d", job, badUnmapped, out[badUnmapped]), map[string]any{"cfg": cfg, "job": job})
	}
	// remaining noise budget of the result (evidence that the parameter rule leaves room)
	if bad < 0 && badUnmapped < 0 && (params.N() <= 64 || rnd.N(4) == 0 && params.N() <= 256) {
		// lattigo's BGV keeps t^-1*m + e in the phase: t*phase mod Q = m + t*e is the quantity that must not wrap
		rq := params.RingQ().AtLevel(res.Level())
		ph := obs.Centered(rq, obs.Phase(params.Parameters, res.El(), sk))
		qBig := rq.Modulus()
		half := new(big.Int).Rsh(qBig, 1)
		tBig := new(big.Int).SetUint64(t)
		for i := range ph {
			ph[i].Mul(ph[i], tBig).Mod(ph[i], qBig)
			if ph[i].Cmp(half) > 0 {
				ph[i].Sub(ph[i], qBig)
			}
		}
		st := obs.Stat(ph)
		logQ := float64(qBig.BitLen())
		c.Count("noise_measurements", 1)
		// fraction of log2(Q/2) used by the phase of the result: < 1000 means the decryption is unambiguous
		c.Max("max_bgv_phase_over_logq_permille", int64(1000*(st.MaxLog2+1)/logQ))
		if 1000*(st.MaxLog2+1)/logQ > 850 {
			c.Count("bgv_phase_above_850_permille", 1)
		}
	}
}

func levelClass(level, need, max int) string {
	switch {
	case level == need:
		return "min"
	case level == max:
		return "max"
	}
	return "mid"
}

func bgvRefusal(c *eng.Ctx, rnd *eng.Rand, cfg bgvCfg, params bgv.Parameters, ecd *bgv.Encoder, enc *rlwe.Encryptor, pe *bgvpoly.Evaluator, deg, lvl, slots int) {
	sigp := "C13|bgv/polynomial.Evaluator.Evaluate"
	coeffs := make([]uint64, deg+1)
	for k := range coeffs {
		coeffs[k] = pickCoeffT(rnd, cfg.T)
	}
	_, ct, err := bgvInput(rnd, params, ecd, enc, lvl, 1, slots)
	if err != nil {
		return
	}
	var res *rlwe.Ciphertext
	c.Distinct(fmt.Sprintf("bgv/refusal/d%d/l%d", deg, lvl), true)
	c.Count("refusal_checks", 1)
	if !c.Try(sigp+"|too-few-levels", func() {
		res, err = pe.Evaluate(ct, bignum.NewPolynomial(bignum.Monomial, coeffs, nil), params.DefaultScale())
	}) {
		return
	}
	c.Check(err != nil, sigp+"|too-few-levels|not-refused", func() string {
		return fmt.Sprintf("degree %d needs %d levels, input at level %d was evaluated without error (output level %d)", deg, ceilLog2p1(deg), lvl, res.Level())
	})
	if err != nil {
		c.Count("errors_observed", 1)
	}
}
