package c13

import (
	"bytes"
	"fmt"
	"math"
	"math/big"

	ckkspoly "github.com/tuneinsight/lattigo/v6/circuits/ckks/polynomial"
	"github.com/tuneinsight/lattigo/v6/circuits/common/polynomial"
	"github.com/tuneinsight/lattigo/v6/core/rlwe"
	"github.com/tuneinsight/lattigo/v6/schemes/ckks"
	"github.com/tuneinsight/lattigo/v6/utils/bignum"

	"verif/harness/eng"
)

// Extension families of the CKKS polynomial evaluator (coverage audit). Parameter rule, reference and
// worst-case bound are those of ckks.go; the families reach other parts of the input space:
//
//	ckksx/sparse : sparsely packed inputs (LogDimensions below the maximum): values and output metadata
//	ckksx/vecmix : vectors whose members differ in sparsity / parity flags / Chebyshev interval, nil coefficients
//	               on the parity a flag excludes, the vectorised change of basis of
//	               PolynomialVector.ChangeOfBasis applied homomorphically (the in-tree recipe)
//	ckksx/pbseq  : one PowerBasis shared by a sequence of polynomials (lazy and not), lazily pre-generated powers,
//	               a literal PowerBasis sharing the caller's ciphertext, PowerBasis.GenPower judged directly
//	ckksx/refuse : refusal through every entry point / polynomial type / scale, malformed arguments; operands intact
type ckksxCfg struct {
	ckksCfg
	Kind string `json:"kind"`
}

var ckksxKinds = []string{"sparse", "vecmix", "pbseq", "refuse", "vecmix", "pbseq"}

func drawCKKSX(r *eng.Rand, idx int, tier string) (ckksxCfg, bool) {
	cfg, ok := drawCKKS(r, idx, tier)
	if !ok {
		return ckksxCfg{}, false
	}
	return ckksxCfg{ckksCfg: cfg, Kind: ckksxKinds[idx%len(ckksxKinds)]}, true
}

// cxMember is one polynomial of a job: float coefficients (exactly representable in the reference), flags, interval.
type cxMember struct {
	C      []complex128
	ref    []cx
	IsOdd  bool
	IsEven bool
	Shape  string
	Itv    [2]float64
	w, s   float64
}

type cxJob struct {
	Kind     string       `json:"kind"`
	Basis    string       `json:"basis"`
	Deg      int          `json:"deg"`
	Shapes   []string     `json:"shapes"`
	Flags    string       `json:"flag_mode,omitempty"`
	API      string       `json:"api"`
	Lazy     bool         `json:"lazy"`
	Level    int          `json:"level"`
	InDev    float64      `json:"in_scale_dev_bits"`
	TgtDev   float64      `json:"target_scale_dev_bits"`
	Complex  bool         `json:"complex"`
	HiPrec   bool         `json:"hiprec"`
	NilExcl  bool         `json:"nil_on_excluded_parity"`
	NilMap   bool         `json:"nil_mapping"`
	LogSlots int          `json:"log_slots"`
	CoBVec   bool         `json:"vector_change_of_basis"`
	Itvs     [][2]float64 `json:"intervals,omitempty"`
	Note     string       `json:"note,omitempty"`
}

func (x *ckksCtx) floorLevel() int {
	if x.lpr == 2 {
		return 1
	}
	return 0
}

func (x *ckksCtx) maxDepth() int { return (x.params.MaxLevel() - x.floorLevel()) / x.lpr }

// drawMember draws the coefficients of one member.
func drawMember(rnd *eng.Rand, basis string, deg int, shape string, cplx bool) cxMember {
	mask, isOdd, isEven := shapeMask(rnd, shape, deg)
	m := cxMember{C: make([]complex128, deg+1), ref: make([]cx, deg+1), IsOdd: isOdd, IsEven: isEven, Shape: shape, Itv: [2]float64{-1, 1}}
	for k := range m.C {
		var re, im float64
		if mask[k] {
			re = pickCoeffF(rnd)
			if cplx {
				switch rnd.N(4) {
				case 0, 1:
					im = pickCoeffF(rnd)
				case 2:
					re, im = 0, pickCoeffF(rnd)
				}
			}
		}
		m.C[k] = complex(re, im)
		m.ref[k] = cxF(re, im)
		a := math.Hypot(re, im)
		m.s += a
		if basis == "chebyshev" {
			m.w += a * 4 * float64(k*k)
		} else {
			m.w += a * float64(k)
		}
	}
	return m
}

func drawInterval(rnd *eng.Rand) [2]float64 {
	a := math.Round((rnd.F64()*16-8)*64) / 64
	w := math.Round((0.5+rnd.F64()*8)*64) / 64
	if rnd.N(4) == 0 {
		a, w = -1, 2
	}
	return [2]float64{a, a + w}
}

// big builds the bignum.Polynomial of a member.
func (m cxMember) big(basis string, hiPrec, cplx, nilExcl bool) bignum.Polynomial {
	var p bignum.Polynomial
	var itv interface{}
	if basis == "chebyshev" {
		itv = m.Itv
		if hiPrec {
			itv = &bignum.Interval{A: *new(big.Float).SetPrec(256).SetFloat64(m.Itv[0]), B: *new(big.Float).SetPrec(256).SetFloat64(m.Itv[1])}
		}
	}
	switch {
	case hiPrec:
		cs := make([]*bignum.Complex, len(m.C))
		for k := range cs {
			cs[k] = &bignum.Complex{new(big.Float).SetPrec(256).SetFloat64(real(m.C[k])), new(big.Float).SetPrec(256).SetFloat64(imag(m.C[k]))}
		}
		p = bignum.NewPolynomial(basisOf(basis), cs, itv)
	case cplx:
		p = bignum.NewPolynomial(basisOf(basis), m.C, itv)
	default:
		re := make([]float64, len(m.C))
		for k := range re {
			re[k] = real(m.C[k])
		}
		p = bignum.NewPolynomial(basisOf(basis), re, itv)
	}
	p.IsOdd, p.IsEven = m.IsOdd, m.IsEven
	if nilExcl && !(m.IsOdd && m.IsEven) {
		// in-tree callers (mod1) leave the coefficients of the excluded parity nil
		for k := range p.Coeffs {
			if k&1 == 0 && !m.IsEven || k&1 == 1 && !m.IsOdd {
				p.Coeffs[k] = nil
			}
		}
	}
	return p
}

// cxBound is the worst-case error bound of ckks.go for an evaluation of members of the given degree.
func (x *ckksCtx) cxBound(basis string, deg int, members []cxMember, eps1, rho float64) float64 {
	var wmax, smax float64
	for _, m := range members {
		wmax, smax = math.Max(wmax, m.w), math.Max(smax, m.s)
	}
	g := 4.0
	if basis == "chebyshev" {
		g = 16
	}
	floor := math.Exp2(-45)
	if x.lpr == 2 {
		floor = math.Exp2(-float64(x.cfg.LogScale - 12 - x.cfg.LogN))
	}
	return g*(wmax+float64(deg)+2)*(eps1+rho) + floor*(smax+1)
}

// cxInput draws the evaluation points (unit disk / [-1,1]) and encrypts them at the given level, scale and packing.
func (x *ckksCtx) cxInput(rnd *eng.Rand, level int, scaleIn float64, logSlots int, cplx bool, enc func(j int, u float64) float64) (us []cx, ct *rlwe.Ciphertext, err error) {
	n := 1 << logSlots
	us = make([]cx, n)
	v := make([]complex128, n)
	for j := 0; j < n; j++ {
		var re, im float64
		switch rnd.N(10) {
		case 0:
			re = 1
		case 1:
			re = -1
		case 2:
			re = 0
		default:
			re = rnd.F64()*2 - 1
		}
		if cplx {
			ang := rnd.F64() * 2 * math.Pi
			m := math.Abs(re)
			re, im = m*math.Cos(ang), m*math.Sin(ang)
			if math.Hypot(re, im) > 1 {
				re, im = re*0.999999, im*0.999999
			}
		}
		us[j] = cxF(re, im)
		v[j] = complex(re, im)
		if enc != nil {
			v[j] = complex(enc(j, re), 0)
		}
	}
	pt := ckks.NewPlaintext(x.params, level)
	pt.Scale = rlwe.NewScale(scaleIn)
	pt.LogDimensions.Cols = logSlots
	if x.cfg.Ring == "ci" {
		f := make([]float64, n)
		for j := range f {
			f[j] = real(v[j])
		}
		err = x.ecd.Encode(f, pt)
	} else {
		err = x.ecd.Encode(v, pt)
	}
	if err != nil {
		return nil, nil, err
	}
	// enc: the encrypted message is enc(j,u) instead of u; the caller fixes the reference points
	if enc != nil {
		for j := range us {
			us[j] = cxF(real(v[j]), 0)
		}
	}
	ct, err = x.enc.EncryptNew(pt)
	return
}

// cxJudge applies the whole contract to one result.
func cxJudge(c *eng.Ctx, x *ckksCtx, sigp, pred string, job any, in *rlwe.MetaData, res *rlwe.Ciphertext, err error,
	inLevel, need int, target rlwe.Scale, n int, want func(j int) (cx, bool), bound float64) bool {
	wit := map[string]any{"cfg": x.cfg, "job": job}
	if err != nil {
		c.Eval(1)
		c.Violate(sigp+"|unexpected-error|"+pred, fmt.Sprintf("%+v: %v", job, err), wit)
		return false
	}
	c.Check(res.Level() == inLevel-need, sigp+"|levels-consumed|"+pred, func() string {
		return fmt.Sprintf("%+v: output level %d, documented %d - %d", job, res.Level(), inLevel, need)
	})
	c.Check(scaleClose(&res.Scale.Value, &target.Value, 100), sigp+"|output-scale|"+pred, func() string {
		return fmt.Sprintf("%+v: output scale %v, requested %v", job, &res.Scale.Value, &target.Value)
	})
	c.Check(res.Degree() == 1, sigp+"|output-degree", func() string { return fmt.Sprintf("%+v: degree %d", job, res.Degree()) })
	c.Check(metaSame(res.MetaData, in), sigp+"|output-metadata", func() string {
		return fmt.Sprintf("%+v: output metadata %+v / %+v, input %+v / %+v", job, res.LogDimensions, res.CiphertextMetaData, in.LogDimensions, in.CiphertextMetaData)
	})
	c.Count("metadata_checks", 1)
	out := make([]*bignum.Complex, n)
	var derr error
	if !c.Try(sigp+"|decode", func() { derr = x.ecd.Decode(x.dec.DecryptNew(res), out) }) || derr != nil {
		c.Violate(sigp+"|decode-error", fmt.Sprint(derr), job)
		return false
	}
	var worst, worstU float64
	bad, badU := -1, -1
	for j := 0; j < n; j++ {
		w, mapped := want(j)
		e := cxB(out[j][0], out[j][1]).sub(w).abs()
		if math.IsNaN(e) {
			e = math.Inf(1)
		}
		if mapped {
			if e > worst {
				worst = e
				if e > bound {
					bad = j
				}
			}
		} else if e > worstU {
			worstU = e
			if e > bound {
				badU = j
			}
		}
	}
	c.Eval(n)
	c.Count("ckks_slots_checked", int64(n))
	c.Count("noise_measurements", 1)
	if bad < 0 && badU < 0 {
		if m := math.Max(worst, worstU); m > 0 {
			c.Max("max_ckks_err_over_bound_permille", int64(1000*m/bound))
		}
		return true
	}
	if bad >= 0 {
		w, _ := want(bad)
		c.Violate(sigp+"|wrong-value|"+pred, fmt.Sprintf("%+v: slot %d: got (%s,%s) want (%s,%s): |err|=2^%.1f > bound 2^%.1f", job, bad,
			out[bad][0].Text('g', 12), out[bad][1].Text('g', 12), w.re.Text('g', 12), w.im.Text('g', 12), math.Log2(worst), math.Log2(bound)), wit)
		return false
	}
	c.Violate(sigp+"|unmapped-slot-nonzero|"+pred, fmt.Sprintf("%+v: slot %d is in no mapping but decodes to (%s,%s): 2^%.1f > bound 2^%.1f", job, badU,
		out[badU][0].Text('g', 10), out[badU][1].Text('g', 10), math.Log2(worstU), math.Log2(bound)), wit)
	return false
}

func runCKKSX(c *eng.Ctx, cfg ckksxCfg) {
	x, err := newCkksCtx(cfg.ckksCfg)
	if err != nil {
		c.Inconclusive(fmt.Sprintf("parameters rejected: %v", err))
		return
	}
	// a third of the parameter sets work on an evaluator obtained through ShallowCopy, a third on one obtained through
	// WithKey (fresh relinearisation key of the same secret), the rest on the constructor's
	switch cfg.Idx % 3 {
	case 1:
		x.eval = x.eval.ShallowCopy()
		x.pe = ckkspoly.NewEvaluator(x.params, x.eval)
	case 2:
		x.eval = ckks.NewEvaluator(x.params, nil).WithKey(rlwe.NewMemEvaluationKeySet(rlwe.NewKeyGenerator(x.params).GenRelinearizationKeyNew(x.sk)))
		x.pe = ckkspoly.NewEvaluator(x.params, x.eval)
	}
	c.Count([]string{"evaluator_from_constructor", "evaluator_from_shallowcopy", "evaluator_from_withkey"}[cfg.Idx%3], 1)
	c.Sample(map[string]any{"kind": "ckksx/" + cfg.Kind, "cfg": cfg.ckksCfg, "slots": x.slots, "levels_per_rescaling": x.lpr})
	switch cfg.Kind {
	case "sparse":
		ckksxSparse(c, x)
	case "vecmix":
		ckksxVecMix(c, x)
	case "pbseq":
		ckksxPBSeq(c, x)
	case "refuse":
		ckksxRefuse(c, x)
	}
}

func (x *ckksCtx) drawLevelScales(rnd *eng.Rand, job *cxJob, minLevel int) {
	maxLevel := x.params.MaxLevel()
	switch rnd.N(3) {
	case 0:
		job.Level = minLevel
	case 1:
		job.Level = maxLevel
	default:
		job.Level = minLevel + rnd.N(maxLevel-minLevel+1)
	}
	if rnd.N(3) != 0 {
		job.InDev = (rnd.F64()*2 - 1) * x.cfg.DevBits
	}
	switch rnd.N(3) {
	case 0:
		job.TgtDev = job.InDev
	case 1:
		job.TgtDev = rnd.F64()*2 - 1
	}
	job.HiPrec = x.lpr == 2 || rnd.Bool()
}

func (x *ckksCtx) scales(job *cxJob) (scaleIn, scaleTgt float64, target rlwe.Scale, rho, eps1 float64) {
	delta := x.params.DefaultScale().Float64()
	scaleIn = delta * math.Exp2(job.InDev)
	scaleTgt = delta * math.Exp2(job.TgtDev)
	target = rlwe.NewScale(scaleTgt)
	rho, eps1 = x.noiseUnits(math.Min(scaleIn, delta), math.Min(math.Min(scaleIn, scaleTgt), delta)*math.Exp2(-3.5))
	return
}

// ---------------------------------------------------------------------------------------------
// ckksx/sparse

func ckksxSparse(c *eng.Ctx, x *ckksCtx) {
	rnd := c.Rand()
	maxLog := x.params.MaxSlots()
	logMax := 0
	for 1<<(logMax+1) <= maxLog {
		logMax++
	}
	if logMax < 2 {
		return
	}
	for _, basis := range []string{"monomial", "chebyshev"} {
		maxDeg := (1 << x.maxDepth()) - 1
		if maxDeg > x.cfg.Cap {
			maxDeg = x.cfg.Cap
		}
		for rep := 0; rep < 7; rep++ {
			job := cxJob{Kind: "sparse", Basis: basis}
			job.Deg = eng.Pick(rnd, 1, 2, 3, 4, 5, 7, 8, 9, 15, 16, 17, 31, 33)
			if job.Deg > maxDeg {
				job.Deg = 1 + rnd.N(maxDeg)
			}
			need := x.lpr * ceilLog2p1(job.Deg)
			minLevel := need + x.floorLevel()
			if minLevel > x.params.MaxLevel() {
				continue
			}
			x.drawLevelScales(rnd, &job, minLevel)
			job.LogSlots = rnd.N(logMax) // 0 (a single slot) .. logMax-1
			sh := eng.Pick(rnd, shapes...)
			job.Shapes = []string{sh}
			job.API = eng.Pick(rnd, "ct/bignum", "ct/poly", "pb/fresh", "pb/pregen")
			job.Lazy = job.API != "ct/bignum" && sh != shEven && rnd.N(5) == 0
			job.Complex = x.cfg.Ring == "std" && basis == "monomial" && rnd.Bool()
			m := drawMember(rnd, basis, job.Deg, sh, job.Complex)
			scaleIn, _, target, rho, eps1 := x.scales(&job)
			us, ct, err := x.cxInput(rnd, job.Level, scaleIn, job.LogSlots, job.Complex, nil)
			if err != nil {
				c.Inconclusive("encode/encrypt: " + err.Error())
				return
			}
			bp := m.big(basis, job.HiPrec, job.Complex, false)
			var pol interface{} = bp
			if job.API != "ct/bignum" {
				p := ckkspoly.NewPolynomial(bp)
				p.Lazy = job.Lazy
				pol = p
			}
			sigp := "C13|ckks/polynomial.Evaluator.Evaluate"
			in := ct.MetaData.CopyNew()
			var res *rlwe.Ciphertext
			if !c.Try(sigp, func() {
				if job.API[:2] == "ct" {
					res, err = x.pe.Evaluate(ct, pol, target)
					return
				}
				pb := polynomial.NewPowerBasis(ct, basisOf(basis))
				if job.API == "pb/pregen" {
					n := 2 + rnd.N(job.Deg+1)
					if x.lpr*ceilLog2(n) <= ct.Level() {
						if err = pb.GenPower(n, false, x.eval); err != nil {
							return
						}
					}
				}
				res, err = x.pe.EvaluateFromPowerBasis(pb, pol, target)
			}) {
				continue
			}
			c.Distinct(fmt.Sprintf("ckksx/sparse/%s/%s/d%d/%s/%s/ls%d/lazy%v/lvl%s/c%v/lpr%d", x.cfg.Ring, basis, job.Deg, sh, job.API, job.LogSlots, job.Lazy,
				levelClass(job.Level, need, x.params.MaxLevel()), job.Complex, x.lpr), true)
			c.Count("ckks_evaluations", 1)
			c.Count("ckksx_sparse_packing_evaluations", 1)
			bound := x.cxBound(basis, job.Deg, []cxMember{m}, eps1, rho)
			cxJudge(c, x, sigp, "sparse-packing", job, in, res, err, job.Level, need, target, 1<<job.LogSlots,
				func(j int) (cx, bool) { return refEval(basis, m.ref, us[j]), true }, bound)
		}
	}
}

// ---------------------------------------------------------------------------------------------
// ckksx/vecmix

func ckksxVecMix(c *eng.Ctx, x *ckksCtx) {
	rnd := c.Rand()
	maxLevel := x.params.MaxLevel()
	logSlots := 0
	for 1<<(logSlots+1) <= x.slots {
		logSlots++
	}
	for _, basis := range []string{"monomial", "chebyshev"} {
		maxDeg := (1 << x.maxDepth()) - 1
		if maxDeg > x.cfg.Cap {
			maxDeg = x.cfg.Cap
		}
		for rep := 0; rep < 6; rep++ {
			job := cxJob{Kind: "vecmix", Basis: basis, LogSlots: logSlots}
			job.Deg = eng.Pick(rnd, 2, 3, 4, 5, 6, 7, 8, 9, 12, 15, 16, 17, 24, 31, 33)
			if job.Deg > maxDeg {
				job.Deg = 1 + rnd.N(maxDeg)
			}
			need := x.lpr * ceilLog2p1(job.Deg)
			minLevel := need + x.floorLevel()
			if minLevel > maxLevel {
				continue
			}
			x.drawLevelScales(rnd, &job, minLevel)
			job.HiPrec = true // intervals and coefficients at 256 bits: the vectorised change of basis is judged to 2^-200
			npoly := 2 + rnd.N(3)
			job.NilMap = rep == 5
			if job.NilMap {
				npoly = 1
			}
			job.NilExcl = rnd.N(3) == 0
			job.Complex = x.cfg.Ring == "std" && basis == "monomial" && rnd.N(3) == 0
			job.API = eng.Pick(rnd, "ct", "ct", "pb")
			// homomorphic change of basis with one interval per member (needs one more rescaling above the input level)
			job.CoBVec = basis == "chebyshev" && !job.NilMap && job.Level+x.lpr <= maxLevel && rnd.N(2) == 0
			members := make([]cxMember, npoly)
			mode, first := drawFlagMode(rnd)
			if npoly == 1 && mode == "differ" {
				mode = "uniform"
			}
			job.Flags = mode
			for i := range members {
				sh := drawMemberShape(rnd, mode, i, first)
				job.Shapes = append(job.Shapes, sh)
				members[i] = drawMember(rnd, basis, job.Deg, sh, job.Complex)
				if basis == "chebyshev" {
					members[i].Itv = drawInterval(rnd)
				}
				job.Itvs = append(job.Itvs, members[i].Itv)
			}
			job.Lazy = mode == "none" && rnd.N(4) == 0
			var mapping map[int][]int
			owner := make([]int, x.slots)
			if !job.NilMap {
				mapping, owner = randMapping(rnd, npoly, x.slots)
			}
			polys := make([]bignum.Polynomial, npoly)
			for i := range polys {
				polys[i] = members[i].big(basis, true, job.Complex, job.NilExcl)
			}
			pv, err := ckkspoly.NewPolynomialVector(polys, mapping)
			if err != nil {
				c.Violate("C13|ckks/polynomial.NewPolynomialVector|unexpected-error", err.Error(), job)
				continue
			}
			for i := range pv.Value {
				pv.Value[i].Lazy = job.Lazy
			}
			c.Check(pv.Depth() == ceilLog2(job.Deg), "C13|ckks/polynomial.PolynomialVector.Depth|wrong-value", func() string {
				return fmt.Sprintf("degree %d: Depth()=%d", job.Deg, pv.Depth())
			})
			scaleIn, _, target, rho, eps1 := x.scales(&job)
			inLevel := job.Level
			var encf func(j int, u float64) float64
			if job.CoBVec {
				inLevel += x.lpr
				encf = func(j int, u float64) float64 {
					if owner[j] < 0 {
						return 0.3
					}
					a, b := members[owner[j]].Itv[0], members[owner[j]].Itv[1]
					xv := a + (u+1)/2*(b-a)
					return math.Min(math.Max(xv, a), b)
				}
			}
			us, ct, err := x.cxInput(rnd, inLevel, scaleIn, logSlots, job.Complex, encf)
			if err != nil {
				c.Inconclusive("encode/encrypt: " + err.Error())
				return
			}
			sigp := "C13|ckks/polynomial.Evaluator.Evaluate"
			if job.CoBVec {
				var scalar, constant []*big.Float
				sigc := "C13|ckks/polynomial.PolynomialVector.ChangeOfBasis"
				if !c.Try(sigc, func() { scalar, constant = pv.ChangeOfBasis(x.slots) }) {
					continue
				}
				okc := len(scalar) == x.slots && len(constant) == x.slots
				smax := 0.0
				for j := 0; j < x.slots && okc; j++ {
					if owner[j] < 0 {
						okc = scalar[j] != nil && constant[j] != nil && scalar[j].Sign() == 0 && constant[j].Sign() == 0
						continue
					}
					a, b := members[owner[j]].Itv[0], members[owner[j]].Itv[1]
					wantS := bf().Quo(bf().SetFloat64(2), bf().SetFloat64(b-a)) // a, b are multiples of 1/64: exact
					wantC := bf().Quo(bf().SetFloat64(-a-b), bf().SetFloat64(b-a))
					okc = scalar[j] != nil && constant[j] != nil && scaleClose(scalar[j], wantS, 200) && (scaleClose(constant[j], wantC, 200) || wantC.Sign() == 0 && constant[j].Sign() == 0)
					smax = math.Max(smax, 2/(b-a))
					// the reference point: u = (2x - a - b)/(b - a) of the encrypted x
					num := bf().Set(us[j].re)
					num.Mul(num, bf().SetFloat64(2)).Sub(num, bf().SetFloat64(a)).Sub(num, bf().SetFloat64(b))
					num.Quo(num, bf().SetFloat64(b-a))
					us[j] = cxB(num, nil)
				}
				c.Count("vector_change_of_basis_checks", 1)
				if !c.Check(okc, sigc+"|wrong-value", func() string {
					return fmt.Sprintf("%+v: scalar / constant differ from 2/(b-a), (-a-b)/(b-a) of the owning member (0 on unmapped slots)", job)
				}) {
					continue
				}
				ok := c.Try(sigp+"|change-of-basis", func() {
					if err = x.eval.Mul(ct, scalar, ct); err != nil {
						return
					}
					if err = x.eval.Add(ct, constant, ct); err != nil {
						return
					}
					err = x.eval.Rescale(ct, ct)
				})
				if !ok || err != nil {
					c.Inconclusive(fmt.Sprintf("homomorphic vector change of basis failed: %v", err))
					continue
				}
				// ciphertext noise scaled slot-wise by at most smax; one rescaling; two plaintext encodings
				eps1 = eps1*math.Max(smax, 1) + 4*rho
			}
			pred := vecPred(mode, job.Lazy)
			if job.CoBVec && mode == "none" {
				pred = "mixed-vector-change-of-basis"
			}
			in := ct.MetaData.CopyNew()
			before := ctBytes(ct)
			var res *rlwe.Ciphertext
			if !tryPred(c, sigp, pred, func() {
				if job.API == "ct" {
					res, err = x.pe.Evaluate(ct, pv, target)
				} else {
					res, err = x.pe.EvaluateFromPowerBasis(polynomial.NewPowerBasis(ct, basisOf(basis)), pv, target)
				}
			}) {
				continue
			}
			c.Distinct(fmt.Sprintf("ckksx/vecmix/%s/%s/d%d/%s/%v/nil%v/%s/lazy%v/cob%v/lvl%s/c%v/lpr%d", x.cfg.Ring, basis, job.Deg, job.Flags, job.Shapes, job.NilExcl, job.API, job.Lazy, job.CoBVec,
				levelClass(job.Level, need, maxLevel), job.Complex, x.lpr), true)
			c.Count("ckks_evaluations", 1)
			c.Count("ckksx_mixed_vector_evaluations", 1)
			bound := x.cxBound(basis, job.Deg, members, eps1, rho)
			cxJudge(c, x, sigp, pred, job, in, res, err, job.Level, need, target, x.slots, func(j int) (cx, bool) {
				if job.NilMap {
					return refEval(basis, members[0].ref, us[j]), true
				}
				if owner[j] < 0 {
					return cxF(0, 0), false
				}
				return refEval(basis, members[owner[j]].ref, us[j]), true
			}, bound)
			c.Check(bytes.Equal(before, ctBytes(ct)), sigp+"|input-modified", func() string { return fmt.Sprintf("%+v: the input ciphertext changed", job) })
		}
	}
}

// ---------------------------------------------------------------------------------------------
// ckksx/pbseq

type cxSeqStep struct {
	Deg      int     `json:"deg"`
	Shape    string  `json:"shape"`
	NPoly    int     `json:"npoly"`
	Lazy     bool    `json:"lazy"`
	TgtDev   float64 `json:"target_scale_dev_bits"`
	HeldDeg2 bool    `json:"basis_held_degree2"`
}

type cxSeqJob struct {
	Basis  string      `json:"basis"`
	Level  int         `json:"level"`
	InDev  float64     `json:"in_scale_dev_bits"`
	Origin string      `json:"origin"`
	Pregen [][2]int    `json:"pregen"`
	Steps  []cxSeqStep `json:"steps"`
	HiPrec bool        `json:"hiprec"`
}

func ckksxPBSeq(c *eng.Ctx, x *ckksCtx) {
	rnd := c.Rand()
	maxLevel := x.params.MaxLevel()
	logSlots := 0
	for 1<<(logSlots+1) <= x.slots {
		logSlots++
	}
	delta := x.params.DefaultScale().Float64()
	for _, basis := range []string{"monomial", "chebyshev"} {
		maxDeg := (1 << x.maxDepth()) - 1
		if maxDeg > 33 {
			maxDeg = 33
		}
		if maxDeg < 2 {
			continue
		}
		for rep := 0; rep < 3; rep++ {
			job := cxSeqJob{Basis: basis, Origin: eng.Pick(rnd, "new", "new", "literal", "serial"), HiPrec: x.lpr == 2 || rnd.Bool()}
			top := 2 + rnd.N(maxDeg-1)
			minLevel := x.lpr*ceilLog2p1(top) + x.floorLevel()
			if minLevel > maxLevel {
				continue
			}
			job.Level = minLevel + rnd.N(maxLevel-minLevel+1)
			if rnd.N(3) != 0 {
				job.InDev = (rnd.F64()*2 - 1) * x.cfg.DevBits
			}
			scaleIn := delta * math.Exp2(job.InDev)
			cplx := x.cfg.Ring == "std" && basis == "monomial" && rnd.N(3) == 0
			us, ct, err := x.cxInput(rnd, job.Level, scaleIn, logSlots, cplx, nil)
			if err != nil {
				c.Inconclusive("encode/encrypt: " + err.Error())
				return
			}
			before := ctBytes(ct)
			var pb polynomial.PowerBasis
			if job.Origin == "literal" {
				pb = polynomial.PowerBasis{Basis: basisOf(basis), Value: map[int]*rlwe.Ciphertext{1: ct}}
			} else {
				pb = polynomial.NewPowerBasis(ct, basisOf(basis))
			}
			// worst-case units for powers (scale = whatever the library chose: the decoder follows the ciphertext's scale)
			rhoP, eps1P := x.noiseUnits(math.Min(scaleIn, delta), math.Min(scaleIn, delta)*math.Exp2(-3.5))
			npre := rnd.N(3)
			aborted := false
			for i := 0; i < npre && !aborted; i++ {
				n := 2 + rnd.N(top-1)
				lazy := rnd.N(3) == 0
				if x.lpr*ceilLog2(n)+x.floorLevel() > job.Level {
					continue
				}
				l := 0
				if lazy {
					l = 1
				}
				job.Pregen = append(job.Pregen, [2]int{n, l})
				held := pbHoldsDeg2(pb)
				mayDeg2 := lazy
				if old := pb.Value[n]; old != nil {
					mayDeg2 = old.Degree() == 2
				}
				sigg := "C13|polynomial.PowerBasis.GenPower"
				var gerr error
				if !c.Try(sigg, func() { gerr = pb.GenPower(n, lazy, x.eval) }) {
					aborted = true
					break
				}
				c.Count("genpower_direct_checks", 1)
				c.Distinct(fmt.Sprintf("ckksx/genpower/%s/%s/n%d/lazy%v/held%v/lpr%d", x.cfg.Ring, basis, n, lazy, held, x.lpr), n >= 3)
				if gerr != nil {
					c.Eval(1)
					pred := "general"
					if held {
						pred = "basis-holds-non-relinearized-power"
					}
					c.Violate(sigg+"|unexpected-error|"+pred, fmt.Sprintf("%+v: GenPower(%d, %v): %v", job, n, lazy, gerr), map[string]any{"cfg": x.cfg, "job": job})
					aborted = true
					break
				}
				xn := pb.Value[n]
				wantLevel := job.Level - x.lpr*ceilLog2(n)
				c.Check(xn != nil && xn.Level() == wantLevel && (xn.Degree() == 1 || mayDeg2 && xn.Degree() == 2), sigg+"|level-or-degree", func() string {
					if xn == nil {
						return fmt.Sprintf("%+v: Value[%d] is nil after GenPower", job, n)
					}
					return fmt.Sprintf("%+v: power %d at level %d (want %d), degree %d (lazy=%v)", job, n, xn.Level(), wantLevel, xn.Degree(), lazy)
				})
				if xn == nil {
					aborted = true
					break
				}
				// value: X^n or T_n(X), as a polynomial with the single coefficient 1
				unit := cxMember{s: 1, w: float64(n)}
				if basis == "chebyshev" {
					unit.w = 4 * float64(n*n)
				}
				bound := x.cxBound(basis, n, []cxMember{unit}, eps1P, rhoP)
				out := make([]*bignum.Complex, x.slots)
				if x.ecd.Decode(x.dec.DecryptNew(xn), out) == nil {
					worst, wi := 0.0, -1
					for j := range out {
						var w cx
						if basis == "chebyshev" {
							w = refChebT(n, us[j])
						} else {
							w = refPow(us[j], n)
						}
						if e := cxB(out[j][0], out[j][1]).sub(w).abs(); e > worst || math.IsNaN(e) {
							worst, wi = e, j
						}
					}
					c.Eval(x.slots)
					if !(worst <= bound) {
						pred := "non-lazy"
						if lazy {
							pred = "lazy"
						}
						c.Violate(sigg+"|wrong-value|"+pred, fmt.Sprintf("%+v: power %d (%s) slot %d: |err|=2^%.1f > bound 2^%.1f", job, n, basis, wi, math.Log2(worst), math.Log2(bound)), map[string]any{"cfg": x.cfg, "job": job})
					}
				}
			}
			if aborted {
				continue
			}
			if job.Origin == "serial" {
				data, err := pb.MarshalBinary()
				pb2 := polynomial.PowerBasis{}
				if err == nil {
					err = pb2.UnmarshalBinary(data)
				}
				if err != nil {
					c.Violate("C13|polynomial.PowerBasis.MarshalBinary|unexpected-error", err.Error(), job)
					continue
				}
				pb = pb2
			}
			nsteps := 2 + rnd.N(2)
			for s := 0; s < nsteps; s++ {
				st := cxSeqStep{NPoly: 1}
				st.Deg = 1 + rnd.N(top)
				if s == nsteps-1 && rnd.Bool() {
					st.Deg = top
				}
				st.Shape = eng.Pick(rnd, shapes...)
				st.Lazy = st.Shape != shEven && rnd.N(3) == 0
				switch rnd.N(3) {
				case 0:
					st.TgtDev = job.InDev
				case 1:
					st.TgtDev = rnd.F64()*2 - 1
				}
				vec := rnd.N(3) == 0
				if vec {
					st.NPoly = 1 + rnd.N(3)
				}
				st.HeldDeg2 = pbHoldsDeg2(pb)
				// one shape for the whole vector here (mixed vectors have their own family)
				mask, isOdd, isEven := shapeMask(rnd, st.Shape, st.Deg)
				members := make([]cxMember, st.NPoly)
				for i := range members {
					m := cxMember{C: make([]complex128, st.Deg+1), ref: make([]cx, st.Deg+1), IsOdd: isOdd, IsEven: isEven, Itv: [2]float64{-1, 1}}
					for k := range m.C {
						var re, im float64
						if mask[k] {
							re = pickCoeffF(rnd)
							if cplx && rnd.Bool() {
								im = pickCoeffF(rnd)
							}
						}
						m.C[k], m.ref[k] = complex(re, im), cxF(re, im)
						a := math.Hypot(re, im)
						m.s += a
						if basis == "chebyshev" {
							m.w += a * 4 * float64(k*k)
						} else {
							m.w += a * float64(k)
						}
					}
					members[i] = m
				}
				var mapping map[int][]int
				owner := make([]int, x.slots)
				var pol interface{}
				if vec {
					mapping, owner = randMapping(rnd, st.NPoly, x.slots)
					polys := make([]bignum.Polynomial, st.NPoly)
					for i := range polys {
						polys[i] = members[i].big(basis, job.HiPrec, cplx, false)
					}
					pv, err := ckkspoly.NewPolynomialVector(polys, mapping)
					if err != nil {
						c.Violate("C13|ckks/polynomial.NewPolynomialVector|unexpected-error", err.Error(), job)
						break
					}
					for i := range pv.Value {
						pv.Value[i].Lazy = st.Lazy
					}
					pol = pv
				} else {
					p := ckkspoly.NewPolynomial(members[0].big(basis, job.HiPrec, cplx, false))
					p.Lazy = st.Lazy
					pol = p
				}
				job.Steps = append(job.Steps, st)
				need := x.lpr * ceilLog2p1(st.Deg)
				scaleTgt := delta * math.Exp2(st.TgtDev)
				target := rlwe.NewScale(scaleTgt)
				rho, eps1 := x.noiseUnits(math.Min(scaleIn, delta), math.Min(math.Min(scaleIn, scaleTgt), delta)*math.Exp2(-3.5))
				sigp := "C13|ckks/polynomial.Evaluator.EvaluateFromPowerBasis"
				in := pb.Value[1].MetaData.CopyNew()
				var res *rlwe.Ciphertext
				if !c.Try(sigp, func() { res, err = x.pe.EvaluateFromPowerBasis(pb, pol, target) }) {
					break
				}
				c.Distinct(fmt.Sprintf("ckksx/pbseq/%s/%s/%s/step%d/d%d/%s/n%d/lazy%v/held%v/lpr%d", x.cfg.Ring, basis, job.Origin, s, st.Deg, st.Shape, st.NPoly, st.Lazy, st.HeldDeg2, x.lpr),
					st.Deg >= 3 || st.NPoly >= 2)
				c.Count("ckks_evaluations", 1)
				c.Count("shared_basis_evaluations", 1)
				if s > 0 {
					c.Count("shared_basis_evaluations_after_first", 1)
				}
				pred := "shared-basis-" + flagClass(st.Shape, st.Lazy)
				if err != nil && st.HeldDeg2 {
					pred = "basis-holds-non-relinearized-power"
				}
				bound := x.cxBound(basis, st.Deg, members, eps1, rho)
				ok := cxJudge(c, x, sigp, pred, job, in, res, err, job.Level, need, target, x.slots, func(j int) (cx, bool) {
					if !vec {
						return refEval(basis, members[0].ref, us[j]), true
					}
					if owner[j] < 0 {
						return cxF(0, 0), false
					}
					return refEval(basis, members[owner[j]].ref, us[j]), true
				}, bound)
				if !ok {
					break
				}
			}
			c.Check(bytes.Equal(before, ctBytes(ct)), "C13|ckks/polynomial.Evaluator.EvaluateFromPowerBasis|input-modified", func() string {
				return fmt.Sprintf("%+v: the ciphertext the basis was built from changed", job)
			})
			if x1 := pb.Value[1]; x1 != nil && job.Origin != "literal" {
				c.Check(bytes.Equal(before, ctBytes(x1)), "C13|ckks/polynomial.Evaluator.EvaluateFromPowerBasis|basis-x1-modified", func() string {
					return fmt.Sprintf("%+v: PowerBasis.Value[1] changed", job)
				})
			}
		}
	}
}

// ---------------------------------------------------------------------------------------------
// ckksx/refuse

func ckksxRefuse(c *eng.Ctx, x *ckksCtx) {
	rnd := c.Rand()
	maxLevel := x.params.MaxLevel()
	logSlots := 0
	for 1<<(logSlots+1) <= x.slots {
		logSlots++
	}
	delta := x.params.DefaultScale().Float64()
	for _, basis := range []string{"monomial", "chebyshev"} {
		for _, deg := range []int{1, 2, 3, 4, 7, 8, 15, 16, 31, 32, 63} {
			need := x.lpr * ceilLog2p1(deg)
			if need > maxLevel+1 {
				continue
			}
			lvl := need - 1
			if rnd.N(3) == 0 {
				lvl = rnd.N(need)
			}
			if lvl > maxLevel {
				continue
			}
			api := eng.Pick(rnd, "ct/poly", "ct/vec", "pb/bignum", "pb/poly", "pb/vec")
			inDev, tgtDev := 0.0, 0.0
			if rnd.Bool() {
				inDev = (rnd.F64()*2 - 1) * x.cfg.DevBits
			}
			if rnd.Bool() {
				tgtDev = rnd.F64()*2 - 1
			}
			m := drawMember(rnd, basis, deg, shDense, false)
			_, ct, err := x.cxInput(rnd, lvl, delta*math.Exp2(inDev), logSlots, false, nil)
			if err != nil {
				continue
			}
			bp := m.big(basis, x.lpr == 2, false, false)
			var pol interface{} = bp
			switch api[3:] {
			case "poly":
				pol = ckkspoly.NewPolynomial(bp)
			case "vec":
				mapping, _ := randMapping(rnd, 1, x.slots)
				pol, _ = ckkspoly.NewPolynomialVector([]bignum.Polynomial{bp}, mapping)
			}
			entry := "Evaluate"
			if api[:2] == "pb" {
				entry = "EvaluateFromPowerBasis"
			}
			sigp := "C13|ckks/polynomial.Evaluator." + entry
			before := ctBytes(ct)
			var res *rlwe.Ciphertext
			c.Distinct(fmt.Sprintf("ckksx/refusal/%s/%s/d%d/l%d/sc%v%v/lpr%d", basis, api, deg, lvl, inDev != 0, tgtDev != 0, x.lpr), true)
			c.Count("refusal_checks", 1)
			c.Count("refusal_checks_extended", 1)
			target := rlwe.NewScale(delta * math.Exp2(tgtDev))
			if !c.Try(sigp+"|too-few-levels", func() {
				if api[:2] == "ct" {
					res, err = x.pe.Evaluate(ct, pol, target)
				} else {
					res, err = x.pe.EvaluateFromPowerBasis(polynomial.NewPowerBasis(ct, basisOf(basis)), pol, target)
				}
			}) {
				continue
			}
			c.Check(err != nil, sigp+"|too-few-levels|not-refused", func() string {
				return fmt.Sprintf("%s %s: degree %d needs %d levels, input at level %d was evaluated without error (output level %d)", basis, api, deg, need, lvl, res.Level())
			})
			if err != nil {
				c.Count("errors_observed", 1)
			}
			c.Check(bytes.Equal(before, ctBytes(ct)), sigp+"|too-few-levels|input-modified", func() string {
				return fmt.Sprintf("%s %s: degree %d at level %d: the refused input changed", basis, api, deg, lvl)
			})
		}
	}
	// ---- malformed arguments: an error, never a panic
	_, ct, err := x.cxInput(rnd, maxLevel, delta, logSlots, false, nil)
	if err != nil {
		return
	}
	bp3 := bignum.NewPolynomial(bignum.Monomial, []float64{1, 0.5, 0.25, 0.125}, nil)
	p3 := ckkspoly.NewPolynomial(bp3)
	pv3, _ := ckkspoly.NewPolynomialVector([]bignum.Polynomial{bp3}, map[int][]int{0: {0}})
	sc := x.params.DefaultScale()
	type bad struct {
		name string
		f    func() (*rlwe.Ciphertext, error)
	}
	for _, b := range []bad{
		{"Evaluate|pointer-to-Polynomial", func() (*rlwe.Ciphertext, error) { return x.pe.Evaluate(ct, &p3, sc) }},
		{"Evaluate|pointer-to-PolynomialVector", func() (*rlwe.Ciphertext, error) { return x.pe.Evaluate(ct, &pv3, sc) }},
		{"Evaluate|pointer-to-bignum.Polynomial", func() (*rlwe.Ciphertext, error) { return x.pe.Evaluate(ct, &bp3, sc) }},
		{"Evaluate|coefficient-slice", func() (*rlwe.Ciphertext, error) { return x.pe.Evaluate(ct, []float64{1, 2, 3}, sc) }},
		{"Evaluate|nil-polynomial", func() (*rlwe.Ciphertext, error) { return x.pe.Evaluate(ct, nil, sc) }},
		{"EvaluateFromPowerBasis|zero-value-basis", func() (*rlwe.Ciphertext, error) { return x.pe.EvaluateFromPowerBasis(polynomial.PowerBasis{}, p3, sc) }},
		{"EvaluateFromPowerBasis|basis-without-x1", func() (*rlwe.Ciphertext, error) {
			return x.pe.EvaluateFromPowerBasis(polynomial.PowerBasis{Basis: bignum.Monomial, Value: map[int]*rlwe.Ciphertext{2: ct}}, p3, sc)
		}},
		{"EvaluateFromPowerBasis|nil-x1", func() (*rlwe.Ciphertext, error) {
			return x.pe.EvaluateFromPowerBasis(polynomial.PowerBasis{Basis: bignum.Monomial, Value: map[int]*rlwe.Ciphertext{1: nil}}, p3, sc)
		}},
	} {
		var res *rlwe.Ciphertext
		var err error
		panicked, pv := eng.Panics(func() { res, err = b.f() })
		c.Eval(1)
		c.Count("malformed_argument_checks", 1)
		c.Distinct("ckksx/malformed/"+b.name, true)
		switch {
		case panicked:
			c.Violate("C13|ckks/polynomial.Evaluator."+b.name+"|panic", fmt.Sprint(pv), nil)
		case err == nil:
			c.Violate("C13|ckks/polynomial.Evaluator."+b.name+"|not-refused", fmt.Sprintf("returned a result (level %d) and no error", res.Level()), nil)
		default:
			c.Count("errors_observed", 1)
		}
	}
}
