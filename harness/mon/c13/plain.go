package c13

import (
	"fmt"
	"math"
	"math/big"

	"github.com/tuneinsight/lattigo/v6/circuits/common/polynomial"
	"github.com/tuneinsight/lattigo/v6/utils/bignum"

	"verif/harness/eng"
)

// Plaintext-side tools of the polynomial evaluator (utils/bignum/polynomial.go): Evaluate, Factorize,
// ChangeOfBasis, Depth, and polynomial.SplitDegree, against direct big-float evaluation.

func bigF(v float64) *big.Float { return new(big.Float).SetPrec(256).SetFloat64(v) }

func runPlain(c *eng.Ctx, idx int, n int) {
	rnd := c.Rand()
	c.Sample(map[string]any{"kind": "plain", "polynomials": n})
	for it := 0; it < n; it++ {
		basis := eng.Pick(rnd, "monomial", "chebyshev")
		deg := 1 + rnd.N(40)
		shape := eng.Pick(rnd, shapes...)
		mask, isOdd, isEven := shapeMask(rnd, shape, deg)
		cplxCoeffs := basis == "monomial" && rnd.Bool()
		coeffs := make([]*bignum.Complex, deg+1)
		refc := make([]cx, deg+1)
		var s float64
		for k := range coeffs {
			var re, im float64
			if mask[k] {
				re = pickCoeffF(rnd)
				if cplxCoeffs && rnd.Bool() {
					im = pickCoeffF(rnd)
				}
			}
			coeffs[k] = &bignum.Complex{bigF(re), bigF(im)}
			refc[k] = cxF(re, im)
			s += math.Hypot(re, im)
		}
		// interval: symmetric around 0 or not
		a := math.Round((rnd.F64()*16-8)*64) / 64
		w := math.Round((0.5+rnd.F64()*8)*64) / 64
		itvClass := "asymmetric-interval"
		switch rnd.N(3) {
		case 0:
			a, w = -1, 2
			itvClass = "symmetric-interval"
		case 1:
			a = -w / 2
			itvClass = "symmetric-interval"
		}
		b := a + w
		var itv interface{}
		if basis == "chebyshev" {
			itv = &bignum.Interval{A: *bigF(a), B: *bigF(b)}
		}
		p := bignum.NewPolynomial(basisOf(basis), coeffs, itv)
		p.IsOdd, p.IsEven = isOdd, isEven
		key := fmt.Sprintf("plain/%s/d%d/%s/%s", basis, deg, shape, itvClass)
		c.Distinct(key, deg >= 3)

		// ---- ChangeOfBasis
		if basis == "chebyshev" {
			var sc, ct *big.Float
			if c.Try("C13|bignum.Polynomial.ChangeOfBasis", func() { sc, ct = p.ChangeOfBasis() }) {
				wantS := bf().Quo(bf().SetFloat64(2), bf().SetFloat64(w))
				wantC := bf().Quo(bf().SetFloat64(-a-b), bf().SetFloat64(w)) // a, b, w are multiples of 1/64: exact
				c.Check(scaleClose(sc, wantS, 200) && (scaleClose(ct, wantC, 200) || (wantC.Sign() == 0 && ct.Sign() == 0)), "C13|bignum.Polynomial.ChangeOfBasis|wrong-value", func() string {
					return fmt.Sprintf("[a,b]=[%v,%v]: scalar=%v constant=%v, want 2/(b-a)=%v (-a-b)/(b-a)=%v", a, b, sc, ct, wantS, wantC)
				})
			}
		}
		// ---- Depth: "number of sequential multiplications needed to evaluate the polynomial"
		c.Check(p.Depth() == ceilLog2(deg), "C13|bignum.Polynomial.Depth|wrong-value", func() string {
			return fmt.Sprintf("degree %d: Depth()=%d, ceil(log2(degree))=%d", deg, p.Depth(), ceilLog2(deg))
		})
		// ---- Evaluate at real points of [a,b] (chebyshev) / complex points of the unit disk (monomial)
		for rep := 0; rep < 3; rep++ {
			var xr, xi float64
			if basis == "chebyshev" {
				xr = a + w*rnd.F64()
				switch rnd.N(5) {
				case 0:
					xr = a
				case 1:
					xr = b
				}
			} else {
				ang, m := rnd.F64()*2*math.Pi, rnd.F64()
				xr, xi = m*math.Cos(ang), m*math.Sin(ang)
				if rnd.N(3) == 0 {
					xi = 0
				}
			}
			// reference
			u := cxF(xr, xi)
			if basis == "chebyshev" {
				num := bf().SetFloat64(xr)
				num.Mul(num, bf().SetFloat64(2)).Sub(num, bf().SetFloat64(a)).Sub(num, bf().SetFloat64(b))
				num.Quo(num, bf().SetFloat64(w))
				u = cxB(num, nil)
			}
			want := refEval(basis, refc, u)
			// Chebyshev sums of a complex argument are only bounded on the real segment: keep the reference well conditioned
			var got *bignum.Complex
			inType := eng.Pick(rnd, "big.Float", "bignum.Complex", "float64", "complex128")
			if xi != 0 && (inType == "big.Float" || inType == "float64") {
				inType = "bignum.Complex"
			}
			tolBits := 180.0
			sig := "C13|bignum.Polynomial.Evaluate"
			if !c.Try(sig, func() {
				switch inType {
				case "big.Float":
					got = p.Evaluate(bigF(xr))
				case "bignum.Complex":
					got = p.Evaluate(&bignum.Complex{bigF(xr), bigF(xi)})
				case "float64":
					got = p.Evaluate(xr)
					tolBits = 48
				case "complex128":
					got = p.Evaluate(complex(xr, xi))
					tolBits = 48
				}
			}) {
				continue
			}
			pred := basis
			if basis == "chebyshev" {
				pred += "-" + itvClass
			}
			err := cxB(got[0], got[1]).sub(want).abs()
			amp := s + 1
			if basis == "chebyshev" {
				amp *= float64(deg*deg + 1)
			} else {
				amp *= float64(deg + 1)
			}
			c.Check(err <= amp*math.Exp2(-tolBits), sig+"|wrong-value|"+pred, func() string {
				return fmt.Sprintf("%s degree %d on [%v,%v], x=(%v,%v) given as %s: got (%s,%s) want (%s,%s), |err|=2^%.1f", basis, deg, a, b, xr, xi, inType,
					got[0].Text('g', 12), got[1].Text('g', 12), want.re.Text('g', 12), want.im.Text('g', 12), math.Log2(err))
			})
		}
		// ---- Factorize: p = B_n * q + r with B_n = X^n (monomial) or T_n (chebyshev), documented for n >= degree/2
		lo := (deg + 1) >> 1
		for rep := 0; rep < 2 && deg >= 2; rep++ {
			n := lo + rnd.N(deg-lo+1)
			if rep == 0 {
				// the split the homomorphic evaluator uses: smallest power of two >= degree/2 + 1/2
				n = 1
				for n < (deg>>1)+1 {
					n <<= 1
				}
				if n > deg {
					continue
				}
			}
			if !(isOdd && isEven) && n&1 == 1 {
				// parity-flagged polynomials are only ever split at an even n (a power of two) by the evaluator
				if n++; n > deg {
					continue
				}
			}
			var q, r bignum.Polynomial
			if !c.Try("C13|bignum.Polynomial.Factorize", func() { q, r = p.Factorize(n) }) {
				continue
			}
			toRef := func(pp bignum.Polynomial) []cx {
				o := make([]cx, len(pp.Coeffs))
				for i, cc := range pp.Coeffs {
					o[i] = cxF(0, 0)
					// flagged polynomials: coefficients of the excluded parity are not part of the polynomial
					if cc != nil && (isOdd && isEven || i&1 == 1 && isOdd || i&1 == 0 && isEven) {
						o[i] = cxB(cc[0], cc[1])
					}
				}
				return o
			}
			qc, rc := toRef(q), toRef(r)
			okk := len(qc) == deg-n+1 && len(rc) == n
			var worst float64
			for pt := 0; pt < 3 && okk; pt++ {
				u := cxF(rnd.F64()*2-1, 0)
				var lhs, rhs cx
				lhs = refEval(basis, refc, u)
				if basis == "chebyshev" {
					rhs = refChebT(n, u).mul(refCheb(qc, u)).add(refCheb(rc, u))
				} else {
					rhs = refPow(u, n).mul(refMono(qc, u)).add(refMono(rc, u))
				}
				if e := lhs.sub(rhs).abs(); e > worst {
					worst = e
				}
			}
			c.Check(okk && worst <= (s+1)*math.Exp2(-200), "C13|bignum.Polynomial.Factorize|wrong-value|"+basis, func() string {
				return fmt.Sprintf("%s degree %d shape %s split at n=%d: len(q)=%d len(r)=%d, max |p - (B_n q + r)| = 2^%.1f", basis, deg, shape, n, len(qc), len(rc), math.Log2(worst))
			})
		}
	}
	// SplitDegree(n) = (a, b) with a + b = n (the product B_a * B_b is used to generate B_n), both >= 1 for n >= 2
	for n := 2; n <= 260; n++ {
		var a, b int
		if !c.Try("C13|polynomial.SplitDegree", func() { a, b = polynomial.SplitDegree(n) }) {
			continue
		}
		c.Check(a+b == n && a >= 1 && b >= 1, "C13|polynomial.SplitDegree|wrong-value", func() string { return fmt.Sprintf("n=%d: a=%d b=%d", n, a, b) })
	}
	_ = idx
}
