// Package c04: evaluation keys re-encrypt faithfully for every key parameterisation.
//
// Oracle: the harness holds every secret; after each key-switching operation the phase of the
// output under the *target* key is computed and compared with the exactly transformed plaintext
// (coefficient-domain automorphism model, plain copy, product with the input key). The difference
// must stay below a worst-case bound derived from the decomposition parameters.
package c04

import (
	"fmt"
	"math"
	"math/big"

	"github.com/tuneinsight/lattigo/v6/core/rlwe"
	"github.com/tuneinsight/lattigo/v6/ring"
	"github.com/tuneinsight/lattigo/v6/ring/ringqp"
	"github.com/tuneinsight/lattigo/v6/utils/sampling"

	"verif/harness/eng"
	"verif/harness/gen"
	"verif/harness/obs"
	"verif/harness/ref"
)

type cfg struct {
	LogN  int      `json:"logN"`
	Q     []uint64 `json:"q"`
	P     []uint64 `json:"p"`
	QBits []int    `json:"qbits"`
	PBits []int    `json:"pbits"`
	Ring  string   `json:"ring"`
	Xs    string   `json:"xs"`
	Xe    string   `json:"xe,omitempty"` // error distribution ("" = default), set by the audit families only
}

func (c cfg) params() (rlwe.Parameters, error) {
	rt := ring.Standard
	if c.Ring == "ci" {
		rt = ring.ConjugateInvariant
	}
	var xs ring.DistributionParameters = ring.Ternary{P: 0.5}
	switch c.Xs {
	case "h8":
		xs = ring.Ternary{H: 8}
	case "hN":
		xs = ring.Ternary{H: 1 << c.LogN}
	case "gauss":
		xs = ring.DiscreteGaussian{Sigma: 3.2, Bound: 19.2}
	}
	var xe ring.DistributionParameters // nil: the default error distribution
	switch c.Xe {
	case "tight": // heavily truncated
		xe = ring.DiscreteGaussian{Sigma: 3.2, Bound: 3}
	case "narrow":
		xe = ring.DiscreteGaussian{Sigma: 0.7, Bound: 2}
	case "wide":
		xe = ring.DiscreteGaussian{Sigma: 25.6, Bound: 153.6}
	case "tern":
		xe = ring.Ternary{P: 0.5}
	}
	return rlwe.NewParametersFromLiteral(rlwe.ParametersLiteral{LogN: c.LogN, Q: c.Q, P: c.P, Xs: xs, Xe: xe, RingType: rt, NTTFlag: true})
}

// extraCases lets other files of this package contribute case families (ring packing, domain switch).
var extraCases []func(tier string, seed int64) []eng.Case

func cases(tier string, seed int64) []eng.Case {
	r := eng.NewRand("c04-cases", seed)
	var out []eng.Case
	for _, f := range extraCases {
		out = append(out, f(tier, seed)...)
	}
	n := 240
	if tier == "thorough" {
		n = 9000
	}
	for i := 0; i < n; i++ {
		c := cfg{Ring: eng.Pick(r, "std", "std", "std", "ci"), Xs: eng.Pick(r, "p0.5", "p0.5", "h8", "hN", "gauss"), LogN: eng.Pick(r, 4, 5, 6)}
		nq := 1 + r.N(6)
		np := r.N(4)
		for j := 0; j < nq; j++ {
			c.QBits = append(c.QBits, eng.Pick(r, 30, 36, 45, 50, 55, 58, 60))
		}
		for j := 0; j < np; j++ {
			c.PBits = append(c.PBits, eng.Pick(r, 36, 45, 55, 60, 61))
		}
		if i%12 == 11 {
			// many digits: small Q primes under one or two 61-bit auxiliary primes (5..16 digits), where the lazy
			// accumulation of the P rows runs out of headroom (2^64/p ~ 8) long before the Q rows do
			c.QBits, c.PBits = nil, nil
			for j := 0; j < 10+r.N(7); j++ {
				c.QBits = append(c.QBits, eng.Pick(r, 30, 36, 36, 40, 45))
			}
			c.PBits = []int{61}
			if r.Bool() {
				c.PBits = []int{61, 61}
			}
		}
		nth := uint64(2) << c.LogN
		if c.Ring == "ci" {
			nth <<= 1
		}
		c.Q, c.P = gen.Chain(r, nth, c.QBits, c.PBits)
		if c.Q == nil {
			continue
		}
		cc := c
		id := fmt.Sprintf("ks/%d/%s/logN%d/q%v/p%v/%s", i, c.Ring, c.LogN, c.QBits, c.PBits, c.Xs)
		out = append(out, eng.Case{ID: id, Sig: "C04|keyswitch", Desc: cc, Run: func(x *eng.Ctx) { runKS(x, cc) }})
	}
	// ring-degree switching: a small ring embedded in a larger one sharing the same moduli
	nrd := n / 6
	for i := 0; i < nrd; i++ {
		c := cfg{Ring: "std", Xs: eng.Pick(r, "p0.5", "h8", "hN"), LogN: eng.Pick(r, 4, 5, 6)}
		gapLog := 1 + r.N(2)
		nq := 1 + r.N(4)
		np := 1 + r.N(2)
		if r.N(4) == 0 {
			np = 0
		}
		for j := 0; j < nq; j++ {
			c.QBits = append(c.QBits, eng.Pick(r, 36, 45, 50, 55, 60))
		}
		for j := 0; j < np; j++ {
			c.PBits = append(c.PBits, eng.Pick(r, 45, 55, 60, 61))
		}
		c.Q, c.P = gen.Chain(r, uint64(2)<<(c.LogN+gapLog), c.QBits, c.PBits)
		if c.Q == nil {
			continue
		}
		cc, gl := c, gapLog
		id := fmt.Sprintf("rdswitch/%d/logN%d+%d/q%v/p%v/%s", i, c.LogN, gapLog, c.QBits, c.PBits, c.Xs)
		out = append(out, eng.Case{ID: id, Sig: "C04|ringdegree", Desc: cc, Run: func(x *eng.Ctx) { runRingDegree(x, cc, gl) }})
	}
	return out
}

// runRingDegree: ApplyEvaluationKey between a ring of degree n (small) and N = n<<gapLog (large), both ways.
// small -> large: the plaintext m(Y) becomes m(X^{N/n}); large -> small: the plaintext is projected on the
// coefficients whose index is a multiple of N/n.
func runRingDegree(c *eng.Ctx, cf cfg, gapLog int) {
	small, err := cf.params()
	if err != nil {
		c.Violate("C04|rlwe.NewParametersFromLiteral|error-on-admissible", err.Error(), cf)
		return
	}
	cfL := cf
	cfL.LogN = cf.LogN + gapLog
	large, err := cfL.params()
	if err != nil {
		c.Violate("C04|rlwe.NewParametersFromLiteral|error-on-admissible", err.Error(), cfL)
		return
	}
	rnd := c.Rand()
	c.Sample(map[string]any{"kind": "ring-degree-switch", "small": cf, "gapLog": gapLog})
	kgS, kgL := rlwe.NewKeyGenerator(small), rlwe.NewKeyGenerator(large)
	skS, skL := kgS.GenSecretKeyNew(), kgL.GenSecretKeyNew()
	eS := &env{c: c, cf: cf, params: small, kgen: kgS, sk: skS, n: small.N(), cif: 1}
	eL := &env{c: c, cf: cfL, params: large, kgen: kgL, sk: skL, n: large.N(), cif: 1}
	for _, e := range []*env{eS, eL} {
		e.B, _ = obs.ErrBound(e.params)
		_, e.H = obs.SecretBound(e.params)
	}
	gap := 1 << gapLog
	evalL := rlwe.NewEvaluator(large, nil)
	lqMax, lpMax := large.MaxLevelQ(), large.MaxLevelP()
	for trial := 0; trial < 4; trial++ {
		lq := lqMax
		if trial > 0 {
			lq = rnd.N(lqMax + 1)
		}
		lp := lpMax
		w := 0
		if lp <= 0 && rnd.Bool() {
			w = 4 + rnd.N(20)
		}
		level := rnd.N(lq + 1)
		isNTT := rnd.Bool()
		evp := rlwe.EvaluationKeyParameters{LevelQ: &lq, LevelP: &lp, BaseTwoDecomposition: &w}
		ksb := eL.ksBound(level, lp, w)
		desc := fmt.Sprintf("Q=%v P=%v n=2^%d N=2^%d keyLevelQ=%d keyLevelP=%d w=%d ctLevel=%d isNTT=%v", cf.Q, cf.P, cf.LogN, cfL.LogN, lq, lp, w, level, isNTT)
		kp := fmt.Sprintf("%d/%d/%v/%v/%d/%d/%d/%d/%v", cf.LogN, gapLog, cf.QBits, cf.PBits, lq, lp, w, level, isNTT)
		// ---- small -> large
		{
			var evk *rlwe.EvaluationKey
			if !c.Try("C04|KeyGenerator.GenEvaluationKeyNew|small-to-large", func() { evk = kgL.GenEvaluationKeyNew(skS, skL, evp) }) {
				continue
			}
			msg := eS.randMsg(level)
			ct := eS.freshCt(skS, msg, level, isNTT)
			out := rlwe.NewCiphertext(large, 1, level)
			var aerr error
			if c.Try("C04|Evaluator.ApplyEvaluationKey|small-to-large", func() { aerr = evalL.ApplyEvaluationKey(ct, evk, out) }) {
				if aerr != nil {
					c.Violate("C04|Evaluator.ApplyEvaluationKey|small-to-large|error-on-admissible", aerr.Error()+" "+desc, cf)
				} else {
					rqL := large.RingQ().AtLevel(level)
					want := rqL.NewPoly()
					for i := 0; i <= level; i++ {
						for j := 0; j < small.N(); j++ {
							want.Coeffs[i][j*gap] = msg.Coeffs[i][j]
						}
					}
					c.Check(out.IsNTT == isNTT && out.Level() == level, "C04|Evaluator.ApplyEvaluationKey|small-to-large|metadata", nil)
					eL.judge("Evaluator.ApplyEvaluationKey|small-to-large", out.El(), skL, want, eS.B+ksb, "rds2l/"+kp, desc)
				}
			}
		}
		// ---- large -> small
		{
			var evk *rlwe.EvaluationKey
			if !c.Try("C04|KeyGenerator.GenEvaluationKeyNew|large-to-small", func() { evk = kgL.GenEvaluationKeyNew(skL, skS, evp) }) {
				continue
			}
			msg := eL.randMsg(level)
			ct := eL.freshCt(skL, msg, level, isNTT)
			out := rlwe.NewCiphertext(small, 1, level)
			var aerr error
			if c.Try("C04|Evaluator.ApplyEvaluationKey|large-to-small", func() { aerr = evalL.ApplyEvaluationKey(ct, evk, out) }) {
				if aerr != nil {
					c.Violate("C04|Evaluator.ApplyEvaluationKey|large-to-small|error-on-admissible", aerr.Error()+" "+desc, cf)
				} else {
					rqS := small.RingQ().AtLevel(level)
					want := rqS.NewPoly()
					for i := 0; i <= level; i++ {
						for j := 0; j < small.N(); j++ {
							want.Coeffs[i][j] = msg.Coeffs[i][j*gap]
						}
					}
					c.Check(out.IsNTT == isNTT && out.Level() == level, "C04|Evaluator.ApplyEvaluationKey|large-to-small|metadata", nil)
					// the projection keeps one coefficient out of gap: the noise bound of the large ring applies
					eS.judgeBound("Evaluator.ApplyEvaluationKey|large-to-small", out.El(), skS, want, eL.B+ksb, "rdl2s/"+kp, desc)
				}
			}
		}
	}
}

func init() {
	eng.Register(&eng.Monitor{
		ID: "C04", Level: "exploration",
		Rule:  "cases = rlwe parameter sets (ring type, logN, 1..6 Q primes and 0..3 P primes of mixed sizes incl. primes whose bit length differs from round(log2 q), secret distribution); inside a case evaluation-key parameters (LevelQ, LevelP, BaseTwoDecomposition in {0,1..30}, Compressed) are drawn and each key-switching entry point (ApplyEvaluationKey, Relinearize, Automorphism, AutomorphismHoisted, AutomorphismHoistedLazy, GadgetProduct, GadgetProductLazy, GadgetProductHoisted(Lazy)) is run on ciphertexts at levels <= key level, in and out of the NTT domain; the phase under the target key minus the exactly transformed plaintext is measured. distinct key = (entry point, chain sizes, ring type, LevelQ, LevelP, w, compressed, ct level, IsNTT); non-trivial = the worst-case noise bound is below Q_level/8, so that a wrong digit count / payload / tail shows as a bound violation rather than being masked.",
		Cases: cases,
		Assumptions: []string{
			"worst-case key-switch bound: sum over gadget rows of N*|digit|_inf*floor(B_e+1/2) divided by P, plus 1.5*(1+|s|_1) for the ModDown rounding (|digit| <= digit-group modulus for RNS digits, < 2^w for power-of-two digits); x2 in the conjugate-invariant ring",
			"ring arithmetic of the phase computation is the one judged by C01",
		},
	})
}

type env struct {
	c      *eng.Ctx
	cf     cfg
	params rlwe.Parameters
	kgen   *rlwe.KeyGenerator
	sk     *rlwe.SecretKey
	B      float64
	H      float64
	cif    float64
	n      int
}

// ksBound returns the worst-case added noise of one gadget product at ciphertext level `level`
// with a key of (levelP=lp, BaseTwo=w).
func (e *env) ksBound(level, lp, w int) float64 {
	q := e.cf.Q
	N := float64(e.n)
	sum := 0.0
	if lp > 0 || (lp == 0 && w == 0) {
		nb := lp + 1
		for st := 0; st <= level; st += nb {
			g := 1.0
			for i := st; i < st+nb && i <= level; i++ {
				g *= float64(q[i])
			}
			sum += N * g * e.B * e.cif
		}
	} else if w > 0 {
		for i := 0; i <= level; i++ {
			nd := (ref.BitLen(q[i]) + w - 1) / w
			sum += float64(nd) * N * math.Exp2(float64(w)) * e.B * e.cif
		}
	} else { // lp == -1, w == 0: centred single-prime digits
		for i := 0; i <= level; i++ {
			sum += N * (float64(q[i])/2 + 1) * e.B * e.cif
		}
	}
	if lp >= 0 {
		P := 1.0
		for i := 0; i <= lp; i++ {
			P *= float64(e.cf.P[i])
		}
		sum = sum/P + 1.5*(1+e.cif*e.H)
	}
	return sum
}

func f64(x *big.Int) float64 { f, _ := new(big.Float).SetInt(x).Float64(); return f }

// freshCt encrypts msg (coefficient domain, level) under sk with the given NTT flag.
func (e *env) freshCt(sk *rlwe.SecretKey, msg ring.Poly, level int, isNTT bool) *rlwe.Ciphertext {
	rq := e.params.RingQ().AtLevel(level)
	pt := rlwe.NewPlaintext(e.params, level)
	pt.IsNTT = isNTT
	for i := 0; i <= level; i++ {
		copy(pt.Value.Coeffs[i], msg.Coeffs[i])
	}
	if isNTT {
		rq.NTT(pt.Value, pt.Value)
	}
	ct := rlwe.NewCiphertext(e.params, 1, level)
	if err := rlwe.NewEncryptor(e.params, sk).Encrypt(pt, ct); err != nil {
		panic(err)
	}
	return ct
}

func (e *env) randMsg(level int) ring.Poly {
	rq := e.params.RingQ().AtLevel(level)
	m := rq.NewPoly()
	rnd := e.c.Rand()
	for j := 0; j < e.n; j++ {
		x := big.NewInt(int64(rnd.N(1<<20)) - 1<<19)
		for i := 0; i <= level; i++ {
			m.Coeffs[i][j] = ref.ModU(x, rq.SubRings[i].Modulus)
		}
	}
	return m
}

// judge compares phase(out under skOut) with want; bound is the total worst-case bound.
func (e *env) judge(name string, out *rlwe.Element[ring.Poly], skOut *rlwe.SecretKey, want ring.Poly, bound float64, key string, detail string) {
	level := out.Level()
	rq := e.params.RingQ().AtLevel(level)
	ph := obs.Phase(e.params, out, skOut)
	st := obs.Stat(obs.Diff(rq, ph, want))
	Ql := rq.ModulusAtLevel[level]
	meaningful := bound < f64(Ql)/8
	e.c.Distinct(key, meaningful)
	e.c.Count("noise_measurements", 1)
	if meaningful {
		e.c.Count("meaningful_bounds", 1)
		e.c.Max("max_noise_over_bound_x1000", int64(1000*f64(st.Max)/bound))
	}
	e.c.Check(f64(st.Max) <= bound, "C04|"+name+"|noise-above-worst-case-bound", func() string {
		return fmt.Sprintf("%s: |phase-expected|inf=2^%.1f bound=2^%.1f Q_level=2^%d", detail, st.MaxLog2, math.Log2(bound), Ql.BitLen())
	})
}

func (e *env) judgeBound(name string, out *rlwe.Element[ring.Poly], skOut *rlwe.SecretKey, want ring.Poly, bound float64, key string, detail string) {
	e.judge(name, out, skOut, want, bound, key, detail)
}

func runKS(c *eng.Ctx, cf cfg) {
	params, err := cf.params()
	if err != nil {
		c.Violate("C04|rlwe.NewParametersFromLiteral|error-on-admissible", err.Error(), cf)
		return
	}
	rnd := c.Rand()
	c.Sample(cf)
	e := &env{c: c, cf: cf, params: params, kgen: rlwe.NewKeyGenerator(params), n: params.N()}
	e.sk = e.kgen.GenSecretKeyNew()
	e.B, _ = obs.ErrBound(params)
	e.H = func() float64 { _, l := obs.SecretBound(params); return l }()
	e.cif = 1
	if cf.Ring == "ci" {
		e.cif = 2
	}
	sk2 := e.kgen.GenSecretKeyNew()
	lqMax, lpMax := params.MaxLevelQ(), params.MaxLevelP()
	nth := params.RingQ().NthRoot()
	chain := fmt.Sprintf("%s/%d/%v/%v/%s", cf.Ring, cf.LogN, cf.QBits, cf.PBits, cf.Xs)

	ntrials := 5
	for trial := 0; trial < ntrials; trial++ {
		lq := rnd.N(lqMax + 1)
		lp := lpMax
		if lpMax >= 0 && rnd.N(2) == 0 {
			lp = rnd.N(lpMax+2) - 1 // -1: a key that does not use the auxiliary modulus of the parameters
		}
		if trial == 0 {
			lq, lp = lqMax, lpMax
		}
		w := 0
		if lp <= 0 && rnd.N(3) != 0 {
			w = 1 + rnd.N(30)
		}
		compressed := rnd.N(4) == 0
		evp := rlwe.EvaluationKeyParameters{LevelQ: &lq, LevelP: &lp, BaseTwoDecomposition: &w, Compressed: compressed}
		kp := fmt.Sprintf("%s/%d/%d/%d/%v", chain, lq, lp, w, compressed)
		desc := func(level int, ntt bool) string {
			return fmt.Sprintf("Q=%v P=%v ring=%s keyLevelQ=%d keyLevelP=%d w=%d compressed=%v ctLevel=%d isNTT=%v", cf.Q, cf.P, cf.Ring, lq, lp, w, compressed, level, ntt)
		}
		level := rnd.N(lq + 1)
		if rnd.Bool() {
			level = lq
		}
		isNTT := rnd.Bool()
		rq := params.RingQ().AtLevel(level)
		ksb := e.ksBound(level, lp, w)

		// ---------------- generic key switch sk -> sk2
		var evk *rlwe.EvaluationKey
		// the target key as an object of another parameter set (same ring and Q, other auxiliary primes): from this
		// generator's point of view its rows modulo P are residues of something else. GenEvaluationKey derives the
		// auxiliary part of the output key from its Q part ("Extends the modulus P of skOutput"), so the evaluation key
		// must be the one for sk2 all the same.
		skTarget := sk2
		if lpMax >= 0 && rnd.N(3) == 0 {
			skTarget = sk2.CopyNew()
			for i := range skTarget.Value.P.Coeffs {
				copy(skTarget.Value.P.Coeffs[i], gen.Vec(rnd, e.n, params.RingP().SubRings[i].Modulus-1, gen.PatUniform, 0))
			}
			c.Count("target_keys_with_foreign_auxiliary_rows", 1)
		}
		if !c.Try("C04|KeyGenerator.GenEvaluationKeyNew", func() { evk = e.kgen.GenEvaluationKeyNew(e.sk, skTarget, evp) }) {
			continue
		}
		if compressed {
			// a compressed key expands to exactly the key generated uncompressed from the same randomness:
			// regenerate with the same crypto/rand stream is not possible from outside, so check the
			// documented structure instead: Expand fills the second components from the seed and a second
			// Expand of a copy gives bit-identical components.
			cp := evk.CopyNew()
			if err := evk.Expand(params, nil); err != nil {
				c.Violate("C04|EvaluationKey.Expand|error", err.Error(), cf)
				continue
			}
			if cp.Seed != nil || evk.Seed != nil {
				if cp.Seed == nil {
					cp.Seed = evk.Seed
				}
				if err := cp.Expand(params, nil); err == nil {
					same := true
					for i := range evk.Value {
						for j := range evk.Value[i] {
							if len(cp.Value[i][j]) != 2 || !cp.Value[i][j][1].Equal(&evk.Value[i][j][1]) || !cp.Value[i][j][0].Equal(&evk.Value[i][j][0]) {
								same = false
							}
						}
					}
					c.Check(same, "C04|EvaluationKey.Expand|not-deterministic", nil)
					// and equals the stream of a keyed uniform sampler (the documented construction)
					prng, _ := sampling.NewKeyedPRNG((*evk.Seed)[:])
					us := ringqp.NewUniformSampler(prng, *params.RingQP()).AtLevel(lq, lp)
					tmp := params.RingQP().AtLevel(lq, lp).NewPoly()
					okk := true
					for i := range evk.Value {
						for j := range evk.Value[i] {
							us.Read(tmp)
							if !tmp.Equal(&evk.Value[i][j][1]) {
								okk = false
							}
						}
					}
					c.Check(okk, "C04|EvaluationKey.Expand|differs-from-seed-stream", nil)
				}
			}
		}
		eval := rlwe.NewEvaluator(params, nil)
		msg := e.randMsg(level)
		ct := e.freshCt(e.sk, msg, level, isNTT)
		ctCopy := ct.CopyNew()
		out := rlwe.NewCiphertext(params, 1, level)
		var aerr error
		if c.Try("C04|Evaluator.ApplyEvaluationKey", func() { aerr = eval.ApplyEvaluationKey(ct, evk, out) }) {
			if aerr != nil {
				c.Violate("C04|Evaluator.ApplyEvaluationKey|error-on-admissible", aerr.Error()+" "+desc(level, isNTT), cf)
			} else {
				c.Check(ct.Equal(ctCopy), "C04|Evaluator.ApplyEvaluationKey|input-modified", nil)
				c.Check(out.MetaData.Equal(ct.MetaData) && out.Level() == level, "C04|Evaluator.ApplyEvaluationKey|metadata", nil)
				e.judge("Evaluator.ApplyEvaluationKey", out.El(), sk2, msg, e.B+ksb, fmt.Sprintf("apply/%s/%d/%v", kp, level, isNTT), desc(level, isNTT))
			}
		}

		// ---------------- GadgetProduct family on a raw polynomial: phase = cx * sIn
		{
			cx := rq.NewPoly()
			for i := 0; i <= level; i++ {
				copy(cx.Coeffs[i], gen.Vec(rnd, e.n, rq.SubRings[i].Modulus-1, eng.Pick(rnd, gen.PatUniform, gen.PatUniform, gen.PatTop, gen.PatOneHot), rnd.N(e.n)))
			}
			// expected cx*s (coefficient domain)
			want := rq.NewPoly()
			cxn := rq.NewPoly()
			rq.NTT(cx, cxn)
			rq.MulCoeffsMontgomery(cxn, e.sk.Value.Q, want)
			rq.INTT(want, want)
			in := cx
			if isNTT {
				in = cxn
			}
			gct := rlwe.NewCiphertext(params, 1, level)
			gct.IsNTT = isNTT
			if c.Try("C04|Evaluator.GadgetProduct", func() { eval.GadgetProduct(level, in, &evk.GadgetCiphertext, gct) }) {
				e.judge("Evaluator.GadgetProduct", gct.El(), sk2, want, ksb, fmt.Sprintf("gp/%s/%d/%v", kp, level, isNTT), desc(level, isNTT))
			}
			if lp >= 0 {
				// lazy variant: result mod QP scaled by P; divide with ModDown
				qp := rlwe.NewElementExtended(params, 1, level, lp)
				qp.IsNTT = isNTT
				var lerr error
				if c.Try("C04|Evaluator.GadgetProductLazy", func() { lerr = eval.GadgetProductLazy(level, in, &evk.GadgetCiphertext, qp) }) && lerr == nil {
					g2 := rlwe.NewCiphertext(params, 1, level)
					g2.IsNTT = isNTT
					if c.Try("C04|Evaluator.ModDown", func() { eval.ModDown(level, lp, qp, g2) }) {
						e.judge("Evaluator.GadgetProductLazy+ModDown", g2.El(), sk2, want, ksb, fmt.Sprintf("gplazy/%s/%d/%v", kp, level, isNTT), desc(level, isNTT))
					}
				} else if lerr != nil {
					c.Violate("C04|Evaluator.GadgetProductLazy|error-on-admissible", lerr.Error()+" "+desc(level, isNTT), cf)
				}
				// hoisted: decomposition computed once (requires w == 0: the hoisted path is the RNS path)
				if w == 0 {
					nd := params.BaseRNSDecompositionVectorSize(level, lp)
					buf := make([]ringqp.Poly, nd)
					for i := range buf {
						buf[i] = params.RingQP().AtLevel(level, lp).NewPoly()
					}
					if c.Try("C04|Evaluator.DecomposeNTT", func() { eval.DecomposeNTT(level, lp, lp+1, in, isNTT, buf) }) {
						g3 := rlwe.NewCiphertext(params, 1, level)
						g3.IsNTT = isNTT
						if c.Try("C04|Evaluator.GadgetProductHoisted", func() { eval.GadgetProductHoisted(level, buf, &evk.GadgetCiphertext, g3) }) {
							e.judge("Evaluator.GadgetProductHoisted", g3.El(), sk2, want, ksb, fmt.Sprintf("gphoisted/%s/%d/%v", kp, level, isNTT), desc(level, isNTT))
						}
						qp2 := rlwe.NewElementExtended(params, 1, level, lp)
						qp2.IsNTT = isNTT
						var herr error
						if c.Try("C04|Evaluator.GadgetProductHoistedLazy", func() { herr = eval.GadgetProductHoistedLazy(level, buf, &evk.GadgetCiphertext, qp2) }) && herr == nil {
							g4 := rlwe.NewCiphertext(params, 1, level)
							g4.IsNTT = isNTT
							eval.ModDown(level, lp, qp2, g4)
							e.judge("Evaluator.GadgetProductHoistedLazy+ModDown", g4.El(), sk2, want, ksb, fmt.Sprintf("gphoistedlazy/%s/%d/%v", kp, level, isNTT), desc(level, isNTT))
						}
					}
				}
			}
		}

		// ---------------- relinearisation of a hand-built degree-2 ciphertext
		{
			rlk := e.kgen.GenRelinearizationKeyNew(e.sk, evp)
			if compressed {
				if err := rlk.Expand(params, nil); err != nil {
					c.Violate("C04|EvaluationKey.Expand|error", err.Error(), cf)
					continue
				}
			}
			evalR := rlwe.NewEvaluator(params, rlwe.NewMemEvaluationKeySet(rlk))
			ct2 := rlwe.NewCiphertext(params, 2, level)
			ct2.IsNTT = isNTT
			// c1, c2 uniform; c0 = m + e - c1 s - c2 s^2 (built in the NTT domain, then moved)
			c1n, c2n, acc := rq.NewPoly(), rq.NewPoly(), rq.NewPoly()
			for i := 0; i <= level; i++ {
				copy(c1n.Coeffs[i], gen.Vec(rnd, e.n, rq.SubRings[i].Modulus-1, gen.PatUniform, 0))
				copy(c2n.Coeffs[i], gen.Vec(rnd, e.n, rq.SubRings[i].Modulus-1, gen.PatUniform, 0))
			}
			rq.MulCoeffsMontgomery(c2n, e.sk.Value.Q, acc)
			rq.Add(acc, c1n, acc)
			rq.MulCoeffsMontgomery(acc, e.sk.Value.Q, acc) // c1 s + c2 s^2
			mN := rq.NewPoly()
			rq.NTT(msg, mN)
			c0n := rq.NewPoly()
			rq.Sub(mN, acc, c0n)
			set := func(dst, srcNTT ring.Poly) {
				for i := 0; i <= level; i++ {
					copy(dst.Coeffs[i], srcNTT.Coeffs[i])
				}
				if !isNTT {
					rq.INTT(dst, dst)
				}
			}
			set(ct2.Value[0], c0n)
			set(ct2.Value[1], c1n)
			set(ct2.Value[2], c2n)
			ct2c := ct2.CopyNew()
			o := rlwe.NewCiphertext(params, 1, level)
			var rerr error
			if c.Try("C04|Evaluator.Relinearize", func() { rerr = evalR.Relinearize(ct2, o) }) {
				if rerr != nil {
					c.Violate("C04|Evaluator.Relinearize|error-on-admissible", rerr.Error()+" "+desc(level, isNTT), cf)
				} else {
					c.Check(ct2.Equal(ct2c), "C04|Evaluator.Relinearize|input-modified", nil)
					c.Check(o.Degree() == 1 && o.Level() == level && o.IsNTT == isNTT, "C04|Evaluator.Relinearize|metadata", nil)
					e.judge("Evaluator.Relinearize", o.El(), e.sk, msg, ksb, fmt.Sprintf("relin/%s/%d/%v", kp, level, isNTT), desc(level, isNTT))
				}
			}
			// missing key -> error, not panic
			evalNo := rlwe.NewEvaluator(params, rlwe.NewMemEvaluationKeySet(nil))
			var merr error
			if c.Try("C04|Evaluator.Relinearize|missing-key", func() { merr = evalNo.Relinearize(ct2, rlwe.NewCiphertext(params, 1, level)) }) {
				c.Check(merr != nil, "C04|Evaluator.Relinearize|missing-key-not-reported", nil)
			}
		}

		// ---------------- automorphisms
		{
			var galEls []uint64
			if cf.Ring == "ci" {
				for k := 0; k < 3; k++ {
					galEls = append(galEls, ring.ModExp(ring.GaloisGen, uint64(1+rnd.N(e.n-1)), nth))
				}
			} else {
				galEls = []uint64{params.GaloisElement(1 + rnd.N(e.n/2-1)), nth - 1, params.GaloisElement(-(1 + rnd.N(e.n/2-1))), (rnd.U64() % nth) | 1}
			}
			for _, g := range galEls {
				if g == 1 {
					continue
				}
				gk := e.kgen.GenGaloisKeyNew(g, e.sk, evp)
				if compressed {
					if err := gk.Expand(params, nil); err != nil {
						c.Violate("C04|EvaluationKey.Expand|error", err.Error(), cf)
						continue
					}
				}
				evalG := rlwe.NewEvaluator(params, rlwe.NewMemEvaluationKeySet(nil, gk))
				cta := e.freshCt(e.sk, msg, level, isNTT)
				ctac := cta.CopyNew()
				// expected plaintext: coefficient-domain model, row by row
				want := rq.NewPoly()
				for i := 0; i <= level; i++ {
					q := rq.SubRings[i].Modulus
					var w []uint64
					if cf.Ring == "ci" {
						nn := e.n
						u := make([]uint64, 2*nn)
						u[0] = msg.Coeffs[i][0]
						for x := 1; x < nn; x++ {
							u[x] = msg.Coeffs[i][x]
							u[2*nn-x] = ref.NegMod(msg.Coeffs[i][x], q)
						}
						w = ref.Automorphism(u, g, q)[:nn]
					} else {
						w = ref.Automorphism(msg.Coeffs[i], g, q)
					}
					copy(want.Coeffs[i], w)
				}
				o := rlwe.NewCiphertext(params, 1, level)
				var gerr error
				if c.Try("C04|Evaluator.Automorphism", func() { gerr = evalG.Automorphism(cta, g, o) }) {
					if gerr != nil {
						c.Violate("C04|Evaluator.Automorphism|error-on-admissible", gerr.Error()+" "+desc(level, isNTT), cf)
					} else {
						c.Check(cta.Equal(ctac), "C04|Evaluator.Automorphism|input-modified", nil)
						e.judge("Evaluator.Automorphism", o.El(), e.sk, want, e.B+ksb, fmt.Sprintf("aut/%s/%d/%v/g%d", kp, level, isNTT, g%8), desc(level, isNTT)+fmt.Sprintf(" galEl=%d", g))
					}
				}
				// wrong Galois element requested -> error
				var werr error
				other := (g + 2) % nth
				if other != 1 && c.Try("C04|Evaluator.Automorphism|missing-key", func() { werr = evalG.Automorphism(cta, other, rlwe.NewCiphertext(params, 1, level)) }) {
					c.Check(werr != nil, "C04|Evaluator.Automorphism|missing-key-not-reported", nil)
				}
				if lp >= 0 && w == 0 && isNTT {
					nd := params.BaseRNSDecompositionVectorSize(level, lp)
					buf := make([]ringqp.Poly, nd)
					for i := range buf {
						buf[i] = params.RingQP().AtLevel(level, lp).NewPoly()
					}
					evalG.DecomposeNTT(level, lp, lp+1, cta.Value[1], true, buf)
					o2 := rlwe.NewCiphertext(params, 1, level)
					var herr error
					if c.Try("C04|Evaluator.AutomorphismHoisted", func() { herr = evalG.AutomorphismHoisted(level, cta, buf, g, o2) }) {
						if herr != nil {
							c.Violate("C04|Evaluator.AutomorphismHoisted|error-on-admissible", herr.Error(), cf)
						} else {
							e.judge("Evaluator.AutomorphismHoisted", o2.El(), e.sk, want, e.B+ksb, fmt.Sprintf("authoisted/%s/%d/g%d", kp, level, g%8), desc(level, isNTT)+fmt.Sprintf(" galEl=%d", g))
						}
					}
					qp := rlwe.NewElementExtended(params, 1, level, lp)
					if lp < params.MaxLevelP() && rnd.Bool() {
						// receiver with more P rows than the key (what RotateHoistedLazyNew allocates): the key's
						// LevelP decides the modulus of the result
						qp = rlwe.NewElementExtended(params, 1, level, params.MaxLevelP())
						c.Count("hoisted_lazy_receiver_above_key_levelP", 1)
					}
					qp.IsNTT = true
					var lerr error
					if c.Try("C04|Evaluator.AutomorphismHoistedLazy", func() { lerr = evalG.AutomorphismHoistedLazy(level, cta, buf, g, qp) }) {
						if lerr != nil {
							c.Violate("C04|Evaluator.AutomorphismHoistedLazy|error-on-admissible", lerr.Error(), cf)
						} else {
							o3 := rlwe.NewCiphertext(params, 1, level)
							o3.IsNTT = true
							evalG.ModDown(level, lp, qp, o3)
							e.judge("Evaluator.AutomorphismHoistedLazy+ModDown", o3.El(), e.sk, want, e.B+ksb, fmt.Sprintf("authoistedlazy/%s/%d/g%d", kp, level, g%8), desc(level, isNTT)+fmt.Sprintf(" galEl=%d", g))
						}
					}
				}
			}
		}
	}
}
