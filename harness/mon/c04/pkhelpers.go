package c04

// Helpers shared by the ring-packing (packing.go) and ring-swap (domainswitch.go) families.

import (
	"fmt"
	"math"
	"sort"
	"strings"

	"github.com/tuneinsight/lattigo/v6/core/rlwe"
	"github.com/tuneinsight/lattigo/v6/ring"

	"verif/harness/eng"
	"verif/harness/obs"
)

// newEnvFor builds the noise-bound context (error bound, secret l1 bound, chain) of arbitrary
// rlwe parameters, so that env.ksBound can be reused for rings that are not described by a cfg.
func newEnvFor(c *eng.Ctx, p rlwe.Parameters, sk *rlwe.SecretKey) *env {
	e := &env{c: c, cf: cfg{LogN: p.LogN(), Q: p.Q(), P: p.P(), Ring: "std"}, params: p, sk: sk, n: p.N(), cif: 1}
	if p.RingType() == ring.ConjugateInvariant {
		e.cf.Ring = "ci"
		e.cif = 2
	}
	e.B, _ = obs.ErrBound(p)
	_, e.H = obs.SecretBound(p)
	return e
}

// ksBoundH is env.ksBound with an explicit l1 bound of the target secret (the target of a
// ring-switching or ring-swap key is not drawn from the distribution of e.params).
func (e *env) ksBoundH(level, lp, w int, H float64) float64 {
	cp := *e
	cp.H = H
	return cp.ksBound(level, lp, w)
}

// uniPoly draws a polynomial uniform modulo Q_level (independent uniform residues).
// The phase arithmetic is exact modulo Q, so the message may fill the whole modulus: any misplaced,
// unscaled or sign-flipped coefficient then shows as a difference of the size of Q.
func uniPoly(rnd *eng.Rand, rq *ring.Ring) ring.Poly {
	m := rq.NewPoly()
	for i := range m.Coeffs {
		q := rq.SubRings[i].Modulus
		for j := range m.Coeffs[i] {
			m.Coeffs[i][j] = rnd.U64() % q
		}
	}
	return m
}

// encryptCoeffs encrypts the coefficient-domain polynomial msg under sk with the given metadata
// (IsNTT is honoured: the plaintext is moved to the NTT domain when md.IsNTT).
func encryptCoeffs(p rlwe.Parameters, sk *rlwe.SecretKey, msg ring.Poly, level int, md rlwe.MetaData) *rlwe.Ciphertext {
	rq := p.RingQ().AtLevel(level)
	pt := rlwe.NewPlaintext(p, level)
	*pt.MetaData = md
	for i := 0; i <= level; i++ {
		copy(pt.Value.Coeffs[i], msg.Coeffs[i])
	}
	if md.IsNTT {
		rq.NTT(pt.Value, pt.Value)
	}
	ct := rlwe.NewCiphertext(p, 1, level)
	if err := rlwe.NewEncryptor(p, sk).Encrypt(pt, ct); err != nil {
		panic(err)
	}
	return ct
}

// judgeAt measures |phase(out under sk) - want|_inf on the positions selected by mask (nil = all)
// and compares it with the worst-case bound. sig is the full violation signature.
func judgeAt(c *eng.Ctx, p rlwe.Parameters, sig string, out *rlwe.Element[ring.Poly], sk *rlwe.SecretKey, want ring.Poly, mask []bool, bound float64, key string, detail func() string) bool {
	level := out.Level()
	rq := p.RingQ().AtLevel(level)
	ph := obs.Phase(p, out, sk)
	d := obs.Diff(rq, ph, want)
	if mask != nil {
		dd := d[:0:0]
		for i, x := range d {
			if mask[i] {
				dd = append(dd, x)
			}
		}
		d = dd
	}
	st := obs.Stat(d)
	Ql := rq.ModulusAtLevel[level]
	meaningful := bound < f64(Ql)/8
	c.Distinct(key, meaningful)
	c.Count("noise_measurements", 1)
	fam := key
	if i := strings.IndexByte(key, '/'); i > 0 {
		fam = key[:i]
	}
	c.Count("noise_measurements_"+fam, 1)
	if meaningful {
		c.Count("meaningful_bounds", 1)
		c.Count("meaningful_bounds_"+fam, 1)
		c.Max("max_noise_over_bound_x1000", int64(1000*f64(st.Max)/bound))
		c.Max("max_noise_over_bound_x1000_"+fam, int64(1000*f64(st.Max)/bound))
	}
	return c.Check(f64(st.Max) <= bound, sig, func() string {
		return fmt.Sprintf("%s: |phase-expected|inf=2^%.1f bound=2^%.1f Q_level=2^%d", detail(), st.MaxLog2, math.Log2(bound), Ql.BitLen())
	})
}

func sortedKeys[T any](m map[int]T) []int {
	ks := make([]int, 0, len(m))
	for k := range m {
		ks = append(ks, k)
	}
	sort.Ints(ks)
	return ks
}

// minGapValuation returns the 2-adic valuation of the smallest difference between consecutive
// elements of the sorted list (0 for a single element), i.e. the "logGap" that the packing code
// derives from an index set.
func minGapValuation(keys []int) int {
	if len(keys) < 2 {
		return 0
	}
	g := keys[1] - keys[0]
	for i := 2; i < len(keys); i++ {
		if d := keys[i] - keys[i-1]; d < g {
			g = d
		}
	}
	v := 0
	for g&1 == 0 {
		v++
		g >>= 1
	}
	return v
}
