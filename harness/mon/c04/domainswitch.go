package c04

// Standard <-> conjugate-invariant ring swap (ckks.DomainSwitcher with the keys of
// rlwe.KeyGenerator.GenEvaluationKeysForRingSwapNew).
//
// Model (N = degree of the conjugate-invariant ring, 2N = degree of the standard ring, same Q):
// a compressed polynomial p_0..p_{N-1} of Z[X+X^-1]/(X^2N+1) stands for
// U(p) = p_0 + sum_{0<i<N} p_i (X^i - X^{2N-i}) in Z[X]/(X^2N+1)   (UnfoldConjugateInvariantToStandard),
// and FoldStandardToConjugateInvariant computes the first N coefficients of p + p(X^-1):
// fold(p)_0 = 2 p_0, fold(p)_i = p_i - p_{2N-i}.
//   - RealToComplex: phase(out) under skStd = U(m) + U(e) + e_ks, metadata copied.
//   - ComplexToReal: phase(out) under skCI = fold(m + e + e_ks) ("real part", scale doubled).

import (
	"fmt"
	"math/big"

	"github.com/tuneinsight/lattigo/v6/core/rlwe"
	"github.com/tuneinsight/lattigo/v6/ring"
	"github.com/tuneinsight/lattigo/v6/schemes/ckks"

	"verif/harness/eng"
	"verif/harness/gen"
	"verif/harness/obs"
	"verif/harness/ref"
)

type dsCfg struct {
	LogNCI   int      `json:"logN_ci"`
	Q        []uint64 `json:"q"`
	PStd     []uint64 `json:"p_std"`
	PCI      []uint64 `json:"p_ci"`
	QBits    []int    `json:"qbits"`
	PBits    []int    `json:"pbits"`
	PCIBits  []int    `json:"pcibits"`
	XsStd    string   `json:"xs_std"`
	XsCI     string   `json:"xs_ci"`
	LogScale int      `json:"logscale"`
	FromCI   bool     `json:"switcher_from_ci_params"`
}

func xsOf(name string, logN int) ring.DistributionParameters {
	switch name {
	case "h8":
		return ring.Ternary{H: 8}
	case "hN":
		return ring.Ternary{H: 1 << logN}
	case "gauss":
		return ring.DiscreteGaussian{Sigma: 3.2, Bound: 19.2}
	}
	return ring.Ternary{P: 0.5}
}

func init() {
	extraCases = append(extraCases, domainSwitchCases)
	// c04.go (same package, initialised first) registers the monitor: document the two added families there
	if m := eng.Get("C04"); m != nil {
		m.Rule += " | ringswap/ cases = (conjugate-invariant logN 4..7, standard ring of twice the degree, 1..5 Q primes and 0..2 P primes of mixed sizes, independent P of the conjugate-invariant parameters, secret distributions); keys from GenEvaluationKeysForRingSwapNew with drawn (LevelQ, LevelP, w, Compressed); ckks.DomainSwitcher.ComplexToReal / RealToComplex on fresh encryptions of messages uniform modulo Q_level at levels <= key level; the phase under the target secret is compared with the exact fold / unfold of the message; level, scale (doubled / unchanged) and metadata are checked exactly. packing/ cases = (logN_max 4..8, MinLogN 4..logN_max-1 or a single ring, 1..5 Q primes, 0..2 P primes, key LevelQ/LevelP/w); rlwe.RingPackingEvaluator Split(New), Merge(New), Expand, Pack, Extract(Naive), Repack(Naive) and the documented compositions Extract->RepackNaive, ExtractNaive->Repack, with the keys of GenRingSwitchingKeys / GenExtractEvaluationKeys / GenRepackEvaluationKeys and with exactly GaloisElementsForPack(params, inputLogGap); messages uniform modulo Q_level, every output judged in the phase domain under the per-degree secret. distinct key = (entry point, chain sizes, degrees, key levels, w, ct level, variant: logGap / inputLogGap / zeroGarbageSlots / naive / number of indices); non-trivial as above (bound < Q_level/8)."
		m.Assumptions = append(m.Assumptions,
			"ring swap: ComplexToReal noise <= 2*(B_e + key-switch bound) (fold adds the polynomial to its conjugate), RealToComplex noise <= B_e + key-switch bound; target l1 norm of the unfolded conjugate-invariant secret <= 2*|s|_1",
			"ring packing: Split/Merge add one key-switch bound of the larger ring; Expand and Pack double the surviving noise at each of their s steps and add one automorphism: (2^s - 1) key-switch bounds on top of the input noise; RepackNaive adds the input noises of one residue class",
			"Pack with zeroGarbageSlots=false is only exercised on index sets made of multiples of 2^v (v = valuation of the smallest gap) and judged on the positions divisible by 2^v (getMinimumGap documents that the rest is discarded)",
		)
	}
}

func domainSwitchCases(tier string, seed int64) []eng.Case {
	r := eng.NewRand("c04-domainswitch-cases", seed)
	n := 60
	if tier == "thorough" {
		n = 900
	}
	var out []eng.Case
	for i := 0; i < n; i++ {
		d := dsCfg{LogNCI: eng.Pick(r, 4, 4, 5, 5, 6, 7), XsStd: eng.Pick(r, "p0.5", "h8", "hN", "gauss"), XsCI: eng.Pick(r, "p0.5", "h8", "hN", "gauss"),
			LogScale: eng.Pick(r, 20, 30, 40), FromCI: r.Bool()}
		nq := 1 + r.N(5)
		np := 1 + r.N(2)
		if r.N(5) == 0 {
			np = 0
		}
		for j := 0; j < nq; j++ {
			d.QBits = append(d.QBits, eng.Pick(r, 30, 36, 45, 50, 55, 58, 60))
		}
		for j := 0; j < np; j++ {
			d.PBits = append(d.PBits, eng.Pick(r, 36, 45, 55, 60, 61))
		}
		// the conjugate-invariant parameters get their own auxiliary primes (the swap keys live in the standard ring)
		npci := r.N(3)
		for j := 0; j < npci; j++ {
			d.PCIBits = append(d.PCIBits, eng.Pick(r, 45, 55, 61))
		}
		nth := uint64(4) << d.LogNCI // 2*(2N) = 4N for both rings
		all := append(append([]int{}, d.PBits...), d.PCIBits...)
		var p []uint64
		d.Q, p = gen.Chain(r, nth, d.QBits, all)
		if d.Q == nil {
			continue
		}
		d.PStd, d.PCI = p[:len(d.PBits)], p[len(d.PBits):]
		dd := d
		id := fmt.Sprintf("ringswap/%d/logNci%d/q%v/p%v/pci%v/%s/%s", i, d.LogNCI, d.QBits, d.PBits, d.PCIBits, d.XsStd, d.XsCI)
		out = append(out, eng.Case{ID: id, Sig: "C04|ckks.DomainSwitcher", Desc: dd, Run: func(x *eng.Ctx) { runDomainSwitch(x, dd) }})
	}
	return out
}

func runDomainSwitch(c *eng.Ctx, d dsCfg) {
	stdP, err := ckks.NewParametersFromLiteral(ckks.ParametersLiteral{LogN: d.LogNCI + 1, Q: d.Q, P: d.PStd, Xs: xsOf(d.XsStd, d.LogNCI+1), RingType: ring.Standard, LogDefaultScale: d.LogScale})
	if err != nil {
		c.Violate("C04|ckks.NewParametersFromLiteral|error-on-admissible", err.Error(), d)
		return
	}
	ciP, err := ckks.NewParametersFromLiteral(ckks.ParametersLiteral{LogN: d.LogNCI, Q: d.Q, P: d.PCI, Xs: xsOf(d.XsCI, d.LogNCI), RingType: ring.ConjugateInvariant, LogDefaultScale: d.LogScale})
	if err != nil {
		c.Violate("C04|ckks.NewParametersFromLiteral|error-on-admissible", err.Error(), d)
		return
	}
	rnd := c.Rand()
	c.Sample(map[string]any{"kind": "ring-swap", "cfg": d})
	N := ciP.N()
	kgStd, kgCI := rlwe.NewKeyGenerator(stdP), rlwe.NewKeyGenerator(ciP)
	skStd, skCI := kgStd.GenSecretKeyNew(), kgCI.GenSecretKeyNew()
	eStd := newEnvFor(c, stdP.Parameters, skStd)
	eCI := newEnvFor(c, ciP.Parameters, skCI)
	evalStd := ckks.NewEvaluator(stdP, nil)
	lqMax, lpMax := stdP.MaxLevelQ(), stdP.MaxLevelP()
	chain := fmt.Sprintf("%d/%v/%v/%s/%s", d.LogNCI, d.QBits, d.PBits, d.XsStd, d.XsCI)

	// a switcher without keys reports an error (documented), never panics
	{
		var sw0 ckks.DomainSwitcher
		var nerr error
		if c.Try("C04|ckks.NewDomainSwitcher", func() { sw0, nerr = ckks.NewDomainSwitcher(stdP, nil, nil) }) && nerr == nil {
			ct := ckks.NewCiphertext(stdP, 1, 0)
			o := ckks.NewCiphertext(ciP, 1, 0)
			var e1, e2 error
			if c.Try("C04|DomainSwitcher.ComplexToReal|missing-key", func() { e1 = sw0.ComplexToReal(evalStd, ct, o) }) {
				c.Check(e1 != nil, "C04|DomainSwitcher.ComplexToReal|missing-key-not-reported", nil)
			}
			if c.Try("C04|DomainSwitcher.RealToComplex|missing-key", func() { e2 = sw0.RealToComplex(evalStd, o, ct) }) {
				c.Check(e2 != nil, "C04|DomainSwitcher.RealToComplex|missing-key-not-reported", nil)
			}
		}
	}

	for trial := 0; trial < 3; trial++ {
		lq, lp := lqMax, lpMax
		if trial > 0 {
			lq = rnd.N(lqMax + 1)
			if lpMax >= 0 && rnd.Bool() {
				lp = rnd.N(lpMax + 1)
			}
		}
		w := 0
		if lp <= 0 && (lp < 0 || rnd.N(3) == 0) {
			w = 2 + rnd.N(20)
		}
		compressed := rnd.N(5) == 0
		evp := rlwe.EvaluationKeyParameters{LevelQ: &lq, LevelP: &lp, BaseTwoDecomposition: &w, Compressed: compressed}
		var c2r, r2c *rlwe.EvaluationKey
		if !c.Try("C04|KeyGenerator.GenEvaluationKeysForRingSwapNew", func() { c2r, r2c = kgStd.GenEvaluationKeysForRingSwapNew(skStd, skCI, evp) }) {
			continue
		}
		if compressed {
			if err := c2r.Expand(stdP, nil); err != nil {
				c.Violate("C04|EvaluationKey.Expand|error", err.Error(), d)
				continue
			}
			if err := r2c.Expand(stdP, nil); err != nil {
				c.Violate("C04|EvaluationKey.Expand|error", err.Error(), d)
				continue
			}
		}
		c.Check(c2r.LevelQ() == lq && c2r.LevelP() == lp && r2c.LevelQ() == lq && r2c.LevelP() == lp, "C04|KeyGenerator.GenEvaluationKeysForRingSwapNew|key-levels", nil)
		var sw ckks.DomainSwitcher
		var nerr error
		from := stdP
		if d.FromCI {
			from = ciP
		}
		if !c.Try("C04|ckks.NewDomainSwitcher", func() { sw, nerr = ckks.NewDomainSwitcher(from, c2r, r2c) }) {
			continue
		}
		if nerr != nil {
			c.Violate("C04|ckks.NewDomainSwitcher|error-on-admissible", nerr.Error(), d)
			continue
		}
		for rep := 0; rep < 2; rep++ {
			level := rnd.N(lq + 1)
			if rep == 0 {
				level = lq
			}
			outLevel := level
			if rnd.N(3) == 0 { // a receiver with more rows is resized to the input level
				outLevel = level + rnd.N(lqMax-level+1)
			}
			scale := rlwe.NewScale(new(big.Float).SetPrec(128).SetMantExp(big.NewFloat(1+rnd.F64()), 10+rnd.N(50)))
			kp := fmt.Sprintf("%s/%d/%d/%d/%v/%d", chain, lq, lp, w, compressed, level)
			desc := func() string {
				return fmt.Sprintf("Q=%v Pstd=%v logN_ci=%d keyLevelQ=%d keyLevelP=%d w=%d compressed=%v ctLevel=%d outLevel=%d fromCI=%v", d.Q, d.PStd, d.LogNCI, lq, lp, w, compressed, level, outLevel, d.FromCI)
			}
			// the key-switch happens in the standard ring (degree 2N, error of the standard parameters)
			// ---------------- RealToComplex: target secret skStd
			{
				rqCI := ciP.RingQ().AtLevel(level)
				rqStd := stdP.RingQ().AtLevel(level)
				msg := uniPoly(rnd, rqCI)
				md := *ckks.NewCiphertext(ciP, 1, level).MetaData
				md.Scale = scale
				ct := encryptCoeffs(ciP.Parameters, skCI, msg, level, md)
				ctCopy := ct.CopyNew()
				out := ckks.NewCiphertext(stdP, 1, outLevel)
				var aerr error
				if c.Try("C04|DomainSwitcher.RealToComplex", func() { aerr = sw.RealToComplex(evalStd, ct, out) }) {
					if aerr != nil {
						c.Violate("C04|DomainSwitcher.RealToComplex|error-on-admissible", aerr.Error()+" "+desc(), d)
					} else {
						c.Check(ct.Equal(ctCopy), "C04|DomainSwitcher.RealToComplex|input-modified", nil)
						c.Check(out.Level() == level && out.Degree() == 1 && out.Value[0].N() == 2*N && out.Value[1].N() == 2*N, "C04|DomainSwitcher.RealToComplex|level", desc)
						c.Check(out.MetaData.Equal(ctCopy.MetaData), "C04|DomainSwitcher.RealToComplex|metadata", desc)
						if out.Level() == level {
							want := rqStd.NewPoly()
							for i := 0; i <= level; i++ {
								q := rqStd.SubRings[i].Modulus
								want.Coeffs[i][0] = msg.Coeffs[i][0]
								for j := 1; j < N; j++ {
									want.Coeffs[i][j] = msg.Coeffs[i][j]
									want.Coeffs[i][2*N-j] = ref.NegMod(msg.Coeffs[i][j], q)
								}
							}
							bound := eCI.B + eStd.ksBoundH(level, lp, w, eStd.H)
							judgeAt(c, stdP.Parameters, "C04|DomainSwitcher.RealToComplex|noise-above-worst-case-bound", out.El(), skStd, want, nil, bound, "r2c/"+kp, desc)
						}
					}
				}
			}
			// ---------------- ComplexToReal: target secret skCI (as U(skCI) during the key switch)
			{
				rqCI := ciP.RingQ().AtLevel(level)
				rqStd := stdP.RingQ().AtLevel(level)
				msg := uniPoly(rnd, rqStd)
				md := *ckks.NewCiphertext(stdP, 1, level).MetaData
				md.Scale = scale
				ct := encryptCoeffs(stdP.Parameters, skStd, msg, level, md)
				ctCopy := ct.CopyNew()
				out := ckks.NewCiphertext(ciP, 1, outLevel)
				var aerr error
				if c.Try("C04|DomainSwitcher.ComplexToReal", func() { aerr = sw.ComplexToReal(evalStd, ct, out) }) {
					if aerr != nil {
						c.Violate("C04|DomainSwitcher.ComplexToReal|error-on-admissible", aerr.Error()+" "+desc(), d)
					} else {
						c.Check(ct.Equal(ctCopy), "C04|DomainSwitcher.ComplexToReal|input-modified", nil)
						c.Check(out.Level() == level && out.Degree() == 1 && out.Value[0].N() == N && out.Value[1].N() == N, "C04|DomainSwitcher.ComplexToReal|level", desc)
						// "The scale of the output ciphertext is twice the scale of the input one."
						twice := new(big.Float).SetPrec(scale.Value.Prec()+8).Mul(&scale.Value, big.NewFloat(2))
						c.Check(out.Scale.Value.Cmp(twice) == 0, "C04|DomainSwitcher.ComplexToReal|scale-not-doubled", desc)
						mdOut := *out.MetaData
						mdOut.Scale = ctCopy.Scale
						c.Check(mdOut.Equal(ctCopy.MetaData), "C04|DomainSwitcher.ComplexToReal|metadata", desc)
						if out.Level() == level {
							want := rqCI.NewPoly()
							for i := 0; i <= level; i++ {
								q := rqCI.SubRings[i].Modulus
								want.Coeffs[i][0] = ref.AddMod(msg.Coeffs[i][0], msg.Coeffs[i][0], q)
								for j := 1; j < N; j++ {
									want.Coeffs[i][j] = ref.SubMod(msg.Coeffs[i][j], msg.Coeffs[i][2*N-j], q)
								}
							}
							// target of the key switch is U(skCI): l1 norm <= 2*|skCI|_1
							bound := 2 * (eStd.B + eStd.ksBoundH(level, lp, w, 2*eCI.H))
							judgeAt(c, ciP.Parameters, "C04|DomainSwitcher.ComplexToReal|noise-above-worst-case-bound", out.El(), skCI, want, nil, bound, "c2r/"+kp, desc)
						}
					}
				}
			}
		}
	}
	// an evaluator of the conjugate-invariant ring is refused with an error (documented)
	{
		c2r, r2c := kgStd.GenEvaluationKeysForRingSwapNew(skStd, skCI)
		if sw, err := ckks.NewDomainSwitcher(stdP, c2r, r2c); err == nil {
			evalCI := ckks.NewEvaluator(ciP, nil)
			var e1 error
			if c.Try("C04|DomainSwitcher.ComplexToReal|ci-evaluator", func() {
				e1 = sw.ComplexToReal(evalCI, ckks.NewCiphertext(stdP, 1, 0), ckks.NewCiphertext(ciP, 1, 0))
			}) {
				c.Check(e1 != nil, "C04|DomainSwitcher.ComplexToReal|ci-evaluator-not-refused", nil)
			}
		}
	}
	_ = obs.ErrBound
}
