package c04

// Families added by the coverage audit of C04 (file name sorts after c04.go: its init must run
// after the monitor is registered).
//
//   keystruct/  exact structure of every evaluation key produced by every generator entry point
//               (GenEvaluationKey(New), GenRelinearizationKey(New), GenGaloisKey(New), GenGaloisKeys(New),
//               fresh / pre-allocated / re-used receivers, compressed keys expanded with and without a
//               caller-provided buffer): shape against an independent digit-count model, and every
//               gadget row decrypts under the output secret to  e + [row group](P * 2^(w j) * s_in)  with
//               |e|_inf <= floor(B_e + 1/2), the same small integer e modulo every prime of Q and P.
//               The (LevelQ, LevelP) table of the chain is exhausted (also with w != 0 next to LevelP > 0)
//               and every cell is also run through ApplyEvaluationKey (phase oracle).
//   recv/       receivers, evaluator provenance and history: the key-switching entry points are
//               deterministic, so a call in place, into a larger garbage-filled receiver, into a smaller
//               receiver, through Evaluator.ShallowCopy / WithKey, through an evaluator that has just
//               worked with a key of another parameterisation, with a key added to the key set after
//               the evaluator was built, or with a CopyNew of the key must be bit-identical to the call
//               on a fresh evaluator with an exact receiver (which is judged by the phase oracle).
//               Hoisted automorphisms are also run on ciphertexts outside the NTT domain; the identity
//               Galois element; documented refusals return an error (no panic) and leave operands intact.
//   galgroup/   the whole Galois group (N = 16, 32; 64 in the thorough tier) through one evaluator that
//               holds all keys in one key set (GenGaloisKeysNew, GetGaloisKeysList), plus a chain of
//               in-place automorphisms on one ciphertext.
//   ksx/        the existing key-switch workload (runKS) on dimensions it did not reach: logN up to 9
//               (11 thorough), 61-bit primes inside Q, a single prime, P much larger than Q, non-default
//               error distributions (tightly truncated / wide Gaussian, ternary).
//   rdx/        ring-degree switching (both directions) with compressed keys, larger / smaller receivers
//               (zero- and garbage-filled) and evaluators from ShallowCopy / WithKey.
//   packsc/     RingPackingEvaluator.ShallowCopy: differential against a fresh evaluator on the same
//               inputs, interleaved with its parent, then the phase-judged packing workload through the
//               copy, with Repack inputs outside the NTT domain.

import (
	"fmt"
	"math/big"
	"slices"
	"sort"

	"github.com/tuneinsight/lattigo/v6/core/rlwe"
	"github.com/tuneinsight/lattigo/v6/ring"
	"github.com/tuneinsight/lattigo/v6/ring/ringqp"
	"github.com/tuneinsight/lattigo/v6/utils/sampling"

	"verif/harness/eng"
	"verif/harness/gen"
	"verif/harness/obs"
	"verif/harness/ref"
)

func init() {
	extraCases = append(extraCases, auditCases)
	if m := eng.Get("C04"); m != nil {
		m.Rule += " | keystruct/ cases = (ring type, logN 4..6, chain, secret and error distribution); every (LevelQ, LevelP) cell of the chain with w in {0, drawn 1..30} and Compressed drawn: the key of GenEvaluationKeyNew is checked row by row (exact: phase under the output secret minus P*2^(w*j)*s_in on the rows of the digit group is one integer of absolute value <= floor(B_e+1/2) modulo every prime of Q and P; shape against an independent digit-count model) and run through ApplyEvaluationKey; the other generator entry points (GenEvaluationKey into a new and into a used receiver, GenRelinearizationKey(New), GenGaloisKey(New), GenGaloisKeys with nil and pre-allocated entries, GenGaloisKeysNew) on drawn cells; distinct key = (generator entry, chain, LevelQ, LevelP, w, compressed), non-trivial always (exact oracle). recv/ cases = same parameter space; per drawn key parameterisation each of ApplyEvaluationKey, Relinearize, Automorphism, AutomorphismHoisted, AutomorphismHoistedLazy+ModDown (NTT and non-NTT) is run on a fresh evaluator with an exact receiver (phase oracle) and then in place, into larger garbage-filled / smaller / degree-2 receivers, through ShallowCopy, WithKey, a re-used evaluator whose key set was modified after its construction, and with CopyNew of the key: results must be bit-identical; documented refusals must return an error and leave operands intact; distinct key = (entry, variant, chain, key parameters, level, IsNTT). galgroup/ cases = whole Galois group for N <= 32 (64 thorough), one key set. ksx/ cases = runKS on logN 4,7..9(11), 61-bit Q primes, single prime, #P > #Q, error distributions {tight, narrow, wide Gaussian, ternary}. packsc/ cases = RingPackingEvaluator.ShallowCopy against a fresh evaluator (bit-identical) and the packing workload through the copy. rdx/ cases = ring-degree switching both ways (n = 2^4..2^6, N/n = 2..8) with drawn (LevelQ, LevelP, w, Compressed), receivers above / below the input level (zero-filled and garbage-filled) and evaluators from ShallowCopy / WithKey, bit-identical to the exact call which is judged by the phase oracle."
		m.Assumptions = append(m.Assumptions,
			"key structure: an evaluation key row (i, j) is an encryption of zero under the output secret with one error sample (|e|_inf <= floor(B_e+1/2), identical modulo every prime) plus P_{LevelP}*2^(w*j)*s_in on the Q rows i*max(LevelP+1,1) .. (i+1)*max(LevelP+1,1)-1 (documented in AddPolyTimesGadgetVectorToGadgetCiphertext / genEvaluationKey)",
			"key switching draws no randomness: the same call on the same operands gives bit-identical results whatever the evaluator instance (fresh, ShallowCopy, WithKey, re-used) and whatever the receiver (exact, in place, larger, smaller: the level of the result is the minimum of the levels)",
			"a base-two decomposition requested together with LevelP > 0 is dropped (documented in BaseTwoDecompositionVectorSize): such a key behaves as the plain RNS key",
		)
	}
}

func auditCases(tier string, seed int64) []eng.Case {
	var out []eng.Case
	out = append(out, keystructCases(tier, seed)...)
	out = append(out, recvCases(tier, seed)...)
	out = append(out, galgroupCases(tier, seed)...)
	out = append(out, ksxCases(tier, seed)...)
	out = append(out, packscCases(tier, seed)...)
	out = append(out, rdxCases(tier, seed)...)
	return out
}

// ---------------------------------------------------------------------------------------------
// small helpers

func pickInt(r *eng.Rand, v []int) int { return v[r.N(len(v))] }

// fillChain draws the moduli of c (QBits/PBits already set).
func fillChain(r *eng.Rand, c *cfg) bool {
	nth := uint64(2) << c.LogN
	if c.Ring == "ci" {
		nth <<= 1
	}
	c.Q, c.P = gen.Chain(r, nth, c.QBits, c.PBits)
	return c.Q != nil
}

func newEnv(c *eng.Ctx, cf cfg, params rlwe.Parameters) *env {
	e := &env{c: c, cf: cf, params: params, kgen: rlwe.NewKeyGenerator(params), n: params.N(), cif: 1}
	if cf.Ring == "ci" {
		e.cif = 2
	}
	e.sk = e.kgen.GenSecretKeyNew()
	e.B, _ = obs.ErrBound(params)
	_, e.H = obs.SecretBound(params)
	return e
}

// invOdd returns g^-1 modulo the power of two nth.
func invOdd(g, nth uint64) uint64 {
	return new(big.Int).ModInverse(new(big.Int).SetUint64(g%nth), new(big.Int).SetUint64(nth)).Uint64()
}

// autoSmall applies X -> X^g to a small polynomial of Z[X]/(X^n+1), n = len(s), g odd.
func autoSmall(s []int64, g uint64) []int64 {
	n := uint64(len(s))
	out := make([]int64, n)
	for i := range s {
		k := (uint64(i) * (g % (2 * n))) % (2 * n)
		if k < n {
			out[k] += s[i]
		} else {
			out[k-n] -= s[i]
		}
	}
	return out
}

// autoSmallCI: s holds the n compressed coefficients of an element of Z[X+X^-1]/(X^2n+1).
func autoSmallCI(s []int64, g uint64) []int64 {
	n := len(s)
	u := make([]int64, 2*n)
	u[0] = s[0]
	for i := 1; i < n; i++ {
		u[i] = s[i]
		u[2*n-i] = -s[i]
	}
	return autoSmall(u, g)[:n]
}

// smallOf returns the centred coefficient-domain representative of a small polynomial given in
// the NTT and Montgomery domain (secret keys).
func smallOf(params rlwe.Parameters, p ring.Poly) []int64 {
	rq := params.RingQ().AtLevel(0)
	pl := obs.Plain(rq, p, true, true)
	q := rq.SubRings[0].Modulus
	out := make([]int64, rq.N())
	for i, v := range pl.Coeffs[0] {
		if v > q/2 {
			out[i] = -int64(q - v)
		} else {
			out[i] = int64(v)
		}
	}
	return out
}

func resOf(x int64, q uint64) uint64 {
	if x >= 0 {
		return uint64(x) % q
	}
	return ref.NegMod(uint64(-x)%q, q)
}

// smallToQP returns the small polynomial s modulo every prime of Q and P, in the NTT and Montgomery domain.
func smallToQP(params rlwe.Parameters, s []int64) ringqp.Poly {
	rqp := *params.RingQP()
	p := rqp.NewPoly()
	for i, sr := range rqp.RingQ.SubRings {
		for x, v := range s {
			p.Q.Coeffs[i][x] = resOf(v, sr.Modulus)
		}
	}
	if rqp.RingP != nil {
		for i, sr := range rqp.RingP.SubRings {
			for x, v := range s {
				p.P.Coeffs[i][x] = resOf(v, sr.Modulus)
			}
		}
	}
	rqp.NTT(p, p)
	rqp.MForm(p, p)
	return p
}

// smallResidues returns s modulo q_0..q_level (coefficient domain).
func smallResidues(params rlwe.Parameters, s []int64, level int) [][]uint64 {
	out := make([][]uint64, level+1)
	for i := range out {
		q := params.Q()[i]
		out[i] = make([]uint64, len(s))
		for x, v := range s {
			out[i][x] = resOf(v, q)
		}
	}
	return out
}

// autoWant is the exact coefficient-domain image of msg under X -> X^g (rows 0..level).
func autoWant(params rlwe.Parameters, ci bool, msg ring.Poly, g uint64, level int) ring.Poly {
	rq := params.RingQ().AtLevel(level)
	want := rq.NewPoly()
	nn := rq.N()
	for i := 0; i <= level; i++ {
		q := rq.SubRings[i].Modulus
		var w []uint64
		if ci {
			u := make([]uint64, 2*nn)
			u[0] = msg.Coeffs[i][0]
			for x := 1; x < nn; x++ {
				u[x] = msg.Coeffs[i][x]
				u[2*nn-x] = ref.NegMod(msg.Coeffs[i][x], q)
			}
			w = ref.Automorphism(u, g, q)[:nn]
		} else {
			w = ref.Automorphism(msg.Coeffs[i], g, q)
		}
		copy(want.Coeffs[i], w)
	}
	return want
}

// drawGalEl draws a Galois element different from the identity.
func drawGalEl(rnd *eng.Rand, params rlwe.Parameters, ci bool) uint64 {
	nth := params.RingQ().NthRoot()
	for {
		var g uint64
		if ci {
			g = 1
			for k := 1 + rnd.N(params.N()-1); k > 0; k-- {
				g = (g * ring.GaloisGen) % nth
			}
		} else {
			g = (rnd.U64() % nth) | 1
		}
		if g != 1 {
			return g
		}
	}
}

// ctSame is a shape-safe bit equality of two ciphertexts (values and metadata).
func ctSame(a, b *rlwe.Ciphertext) bool {
	if a == nil || b == nil {
		return a == b
	}
	if len(a.Value) != len(b.Value) {
		return false
	}
	if (a.MetaData == nil) != (b.MetaData == nil) || (a.MetaData != nil && !a.MetaData.Equal(b.MetaData)) {
		return false
	}
	for i := range a.Value {
		if len(a.Value[i].Coeffs) != len(b.Value[i].Coeffs) {
			return false
		}
		for j := range a.Value[i].Coeffs {
			if !slices.Equal(a.Value[i].Coeffs[j], b.Value[i].Coeffs[j]) {
				return false
			}
		}
	}
	return true
}

// garbageCt returns a ciphertext filled with uniform residues and meaningless metadata.
func garbageCt(params rlwe.Parameters, rnd *eng.Rand, degree, level int) *rlwe.Ciphertext {
	ct := rlwe.NewCiphertext(params, degree, level)
	for _, p := range ct.Value {
		for i := range p.Coeffs {
			q := params.Q()[i]
			for x := range p.Coeffs[i] {
				p.Coeffs[i][x] = rnd.U64() % q
			}
		}
	}
	ct.IsNTT = rnd.Bool()
	ct.IsMontgomery = false
	ct.Scale = rlwe.NewScale(3 + rnd.N(1000))
	ct.LogDimensions = ring.Dimensions{Rows: 1, Cols: 1}
	return ct
}

// buildDeg2 returns a noiseless degree-2 ciphertext of msg under sk (c1, c2 uniform).
func buildDeg2(e *env, rnd *eng.Rand, msg ring.Poly, level int, isNTT bool) *rlwe.Ciphertext {
	rq := e.params.RingQ().AtLevel(level)
	ct2 := rlwe.NewCiphertext(e.params, 2, level)
	ct2.IsNTT = isNTT
	c1n, c2n, acc := rq.NewPoly(), rq.NewPoly(), rq.NewPoly()
	for i := 0; i <= level; i++ {
		copy(c1n.Coeffs[i], gen.Vec(rnd, e.n, rq.SubRings[i].Modulus-1, gen.PatUniform, 0))
		copy(c2n.Coeffs[i], gen.Vec(rnd, e.n, rq.SubRings[i].Modulus-1, gen.PatUniform, 0))
	}
	rq.MulCoeffsMontgomery(c2n, e.sk.Value.Q, acc)
	rq.Add(acc, c1n, acc)
	rq.MulCoeffsMontgomery(acc, e.sk.Value.Q, acc) // c1 s + c2 s^2
	mN := rq.NewPoly()
	rq.NTT(msg, mN)
	c0n := rq.NewPoly()
	rq.Sub(mN, acc, c0n)
	for k, src := range []ring.Poly{c0n, c1n, c2n} {
		for i := 0; i <= level; i++ {
			copy(ct2.Value[k].Coeffs[i], src.Coeffs[i])
		}
		if !isNTT {
			rq.INTT(ct2.Value[k], ct2.Value[k])
		}
	}
	return ct2
}

// ---------------------------------------------------------------------------------------------
// exact key-structure oracle

// digitModel is an independent model of the shape of a gadget ciphertext.
func digitModel(params rlwe.Parameters, lq, lp, w int) (rns int, digits []int) {
	nb := lp + 1
	if nb < 1 {
		nb = 1
	}
	rns = (lq + nb) / nb
	digits = make([]int, rns)
	for i := range digits {
		digits[i] = 1
		if w != 0 && lp <= 0 {
			digits[i] = (ref.BitLen(params.Q()[i]) + w - 1) / w
		}
	}
	return
}

// checkGadget verifies the shape of gct and that every row decrypts under skOut (NTT, Montgomery,
// all levels) to one error sample plus P*2^(w j)*pin on the rows of its digit group. pin = residues
// of the input secret modulo q_0..q_lq, coefficient domain.
func checkGadget(c *eng.Ctx, params rlwe.Parameters, entry string, gct *rlwe.GadgetCiphertext, skOut ringqp.Poly, pin [][]uint64, lq, lp, w int, key string, desc func() string) bool {
	c.Count("keystruct_keys", 1)
	c.Count("keystruct_keys_"+entry, 1)
	c.Distinct("keystruct/"+entry+"/"+key, true)
	rns, digits := digitModel(params, lq, lp, w)
	shape := len(gct.Value) == rns && gct.BaseTwoDecomposition == w
	for i := 0; shape && i < rns; i++ {
		if len(gct.Value[i]) != digits[i] {
			shape = false
			break
		}
		for j := range gct.Value[i] {
			el := gct.Value[i][j]
			if len(el) != 2 || el[0].LevelQ() != lq || el[1].LevelQ() != lq || el[0].LevelP() != lp || el[1].LevelP() != lp {
				shape = false
			}
		}
	}
	if !c.Check(shape, "C04|"+entry+"|key-shape", func() string {
		return fmt.Sprintf("%s: want %d RNS rows with digits %v at (LevelQ=%d, LevelP=%d, w=%d), have %v rows (w=%d)", desc(), rns, digits, lq, lp, w, gct.BaseTwoDecompositionVectorSize(), gct.BaseTwoDecomposition)
	}) {
		return false
	}
	B, _ := obs.ErrBound(params)
	bnd := int64(B)
	rqp := params.RingQP().AtLevel(lq, lp)
	tmp := rqp.NewPoly()
	qs := params.Q()[:lq+1]
	var ps []uint64
	if lp >= 0 {
		ps = params.P()[:lp+1]
	}
	pmod := make([]uint64, lq+1)
	for k, q := range qs {
		pmod[k] = 1
		for _, p := range ps {
			pmod[k] = ref.MulMod(pmod[k], p%q, q)
		}
	}
	nb := lp + 1
	if nb < 1 {
		nb = 1
	}
	N := params.N()
	var worst int64
	badErr, badRes := "", ""
	rows := 0
	for i := 0; i < rns; i++ {
		for j := 0; j < digits[i]; j++ {
			rows++
			el := gct.Value[i][j]
			rqp.MulCoeffsMontgomery(el[1], skOut, tmp)
			rqp.Add(tmp, el[0], tmp)
			rqp.INTT(tmp, tmp)
			rqp.IMForm(tmp, tmp)
			fac := make([]uint64, lq+1)
			for k, q := range qs {
				if k >= i*nb && k < (i+1)*nb {
					fac[k] = ref.MulMod(pmod[k], ref.PowMod(2, uint64(w*j), q), q)
				}
			}
			for x := 0; x < N; x++ {
				d0 := ref.SubMod(tmp.Q.Coeffs[0][x], ref.MulMod(fac[0], pin[0][x], qs[0]), qs[0])
				ev := int64(d0)
				if d0 > qs[0]/2 {
					ev = -int64(qs[0] - d0)
				}
				a := ev
				if a < 0 {
					a = -a
				}
				if a > worst {
					worst = a
				}
				if a > bnd && badErr == "" {
					badErr = fmt.Sprintf("row (%d,%d) coefficient %d: error %d modulo q_0, bound %d", i, j, x, ev, bnd)
				}
				for k := 1; k <= lq && badRes == ""; k++ {
					d := ref.SubMod(tmp.Q.Coeffs[k][x], ref.MulMod(fac[k], pin[k][x], qs[k]), qs[k])
					if d != resOf(ev, qs[k]) {
						badRes = fmt.Sprintf("row (%d,%d) coefficient %d: residue modulo q_%d is not error %d plus the payload", i, j, x, k, ev)
					}
				}
				for k := 0; k <= lp && badRes == ""; k++ {
					if tmp.P.Coeffs[k][x] != resOf(ev, ps[k]) {
						badRes = fmt.Sprintf("row (%d,%d) coefficient %d: residue modulo p_%d is not the error %d", i, j, x, k, ev)
					}
				}
			}
		}
	}
	c.Count("keystruct_rows", int64(rows))
	c.Max("max_key_row_error", worst)
	ok1 := c.Check(badErr == "", "C04|"+entry+"|key-row-error-above-bound", func() string { return desc() + ": " + badErr })
	ok2 := c.Check(badRes == "", "C04|"+entry+"|key-row-not-gadget-encryption", func() string { return desc() + ": " + badRes })
	return ok1 && ok2
}

// expandChecked expands a compressed key (with or without a caller-provided buffer) and checks the
// documented construction of the second components.
func expandChecked(c *eng.Ctx, params rlwe.Parameters, evk *rlwe.EvaluationKey, withBuffer bool, desc func() string) bool {
	lq, lp := evk.LevelQ(), evk.LevelP()
	if !c.Check(evk.IsCompressed() && evk.Seed != nil, "C04|EvaluationKey.IsCompressed|compressed-key-without-seed", desc) {
		return false
	}
	var buf *rlwe.GadgetCiphertext
	if withBuffer {
		buf = rlwe.NewGadgetCiphertext(params, 0, lq, lp, evk.BaseTwoDecomposition)
		c.Count("expand_with_buffer", 1)
	}
	var err error
	if !c.Try("C04|EvaluationKey.Expand", func() { err = evk.Expand(params, buf) }) {
		return false
	}
	if err != nil {
		c.Eval(1)
		c.Violate("C04|EvaluationKey.Expand|error", err.Error()+" "+desc(), nil)
		return false
	}
	if !c.Check(!evk.IsCompressed(), "C04|EvaluationKey.Expand|still-compressed", desc) {
		return false
	}
	prng, _ := sampling.NewKeyedPRNG((*evk.Seed)[:])
	us := ringqp.NewUniformSampler(prng, *params.RingQP()).AtLevel(lq, lp)
	tmp := params.RingQP().AtLevel(lq, lp).NewPoly()
	same := true
	for i := range evk.Value {
		for j := range evk.Value[i] {
			us.Read(tmp)
			if len(evk.Value[i][j]) != 2 || !tmp.Equal(&evk.Value[i][j][1]) {
				same = false
			}
		}
	}
	c.Count("expanded_keys", 1)
	return c.Check(same, "C04|EvaluationKey.Expand|differs-from-seed-stream", desc)
}

// ---------------------------------------------------------------------------------------------
// keystruct/

func keystructCases(tier string, seed int64) []eng.Case {
	r := eng.NewRand("c04-keystruct-cases", seed)
	n := 40
	if tier == "thorough" {
		n = 600
	}
	var out []eng.Case
	for i := 0; i < n; i++ {
		c := cfg{Ring: eng.Pick(r, "std", "std", "ci"), Xs: eng.Pick(r, "p0.5", "h8", "hN", "gauss"), Xe: eng.Pick(r, "", "", "tight", "wide", "tern"), LogN: eng.Pick(r, 4, 4, 5, 6)}
		nq := 1 + r.N(6)
		np := r.N(4)
		if i%5 == 0 {
			nq, np = 6, 3
		}
		for j := 0; j < nq; j++ {
			c.QBits = append(c.QBits, pickInt(r, []int{30, 36, 45, 50, 55, 58, 60, 61}))
		}
		for j := 0; j < np; j++ {
			c.PBits = append(c.PBits, pickInt(r, []int{36, 45, 55, 60, 61}))
		}
		if !fillChain(r, &c) {
			continue
		}
		cc := c
		id := fmt.Sprintf("keystruct/%d/%s/logN%d/q%v/p%v/%s/%s", i, c.Ring, c.LogN, c.QBits, c.PBits, c.Xs, c.Xe)
		out = append(out, eng.Case{ID: id, Sig: "C04|keystructure", Desc: cc, Run: func(x *eng.Ctx) { runKeyStruct(x, cc) }})
	}
	return out
}

func runKeyStruct(c *eng.Ctx, cf cfg) {
	params, err := cf.params()
	if err != nil {
		c.Violate("C04|rlwe.NewParametersFromLiteral|error-on-admissible", err.Error(), cf)
		return
	}
	rnd := c.Rand()
	c.Sample(map[string]any{"kind": "key-structure", "cfg": cf})
	e := newEnv(c, cf, params)
	ci := cf.Ring == "ci"
	sk2 := e.kgen.GenSecretKeyNew()
	sSmall, s2Small := smallOf(params, e.sk.Value.Q), smallOf(params, sk2.Value.Q)
	lqMax, lpMax := params.MaxLevelQ(), params.MaxLevelP()
	nth := params.RingQ().NthRoot()
	chain := fmt.Sprintf("%s/%d/%v/%v/%s/%s", cf.Ring, cf.LogN, cf.QBits, cf.PBits, cf.Xs, cf.Xe)
	eval := rlwe.NewEvaluator(params, nil)

	// s^2 modulo every prime of Q (coefficient domain): payload of the relinearisation key
	sq := func(lq int) [][]uint64 {
		rq := params.RingQ().AtLevel(lq)
		t := rq.NewPoly()
		rq.MulCoeffsMontgomery(e.sk.Value.Q, e.sk.Value.Q, t)
		rq.INTT(t, t)
		rq.IMForm(t, t)
		return t.Coeffs
	}
	drawW := func(lp int) int {
		switch {
		case lp <= 0 && rnd.N(3) != 0:
			return 1 + rnd.N(30)
		case lp > 0 && rnd.N(4) == 0:
			c.Count("base_two_with_levelP_above_zero", 1)
			return 1 + rnd.N(30)
		}
		return 0
	}
	type cell struct {
		lq, lp, w  int
		compressed bool
	}
	mk := func(k cell) (rlwe.EvaluationKeyParameters, string, func() string) {
		lq, lp, w := k.lq, k.lp, k.w
		evp := rlwe.EvaluationKeyParameters{LevelQ: &lq, LevelP: &lp, BaseTwoDecomposition: &w, Compressed: k.compressed}
		kp := fmt.Sprintf("%s/%d/%d/%d/%v", chain, lq, lp, w, k.compressed)
		return evp, kp, func() string {
			return fmt.Sprintf("Q=%v P=%v ring=%s xe=%q keyLevelQ=%d keyLevelP=%d w=%d compressed=%v", cf.Q, cf.P, cf.Ring, cf.Xe, lq, lp, w, k.compressed)
		}
	}
	finish := func(evk *rlwe.EvaluationKey, k cell, desc func() string) bool {
		if k.compressed {
			return expandChecked(c, params, evk, rnd.Bool(), desc)
		}
		return c.Check(!evk.IsCompressed() && evk.Seed == nil, "C04|EvaluationKey.IsCompressed|uncompressed-key-with-seed", desc)
	}

	// ---- the whole (LevelQ, LevelP) table through GenEvaluationKeyNew + ApplyEvaluationKey
	for lq := 0; lq <= lqMax; lq++ {
		for lp := -1; lp <= lpMax; lp++ {
			k := cell{lq, lp, drawW(lp), rnd.N(4) == 0}
			evp, kp, desc := mk(k)
			var evk *rlwe.EvaluationKey
			if !c.Try("C04|KeyGenerator.GenEvaluationKeyNew", func() { evk = e.kgen.GenEvaluationKeyNew(e.sk, sk2, evp) }) {
				continue
			}
			c.Count("levels_table_cells", 1)
			if !finish(evk, k, desc) {
				continue
			}
			checkGadget(c, params, "KeyGenerator.GenEvaluationKeyNew", &evk.GadgetCiphertext, sk2.Value, smallResidues(params, sSmall, lq), lq, lp, k.w, kp, desc)
			level := lq
			if rnd.N(3) == 0 {
				level = rnd.N(lq + 1)
			}
			isNTT := rnd.Bool()
			msg := e.randMsg(level)
			ct := e.freshCt(e.sk, msg, level, isNTT)
			out := rlwe.NewCiphertext(params, 1, level)
			var aerr error
			d2 := func() string { return desc() + fmt.Sprintf(" ctLevel=%d isNTT=%v", level, isNTT) }
			if c.Try("C04|Evaluator.ApplyEvaluationKey", func() { aerr = eval.ApplyEvaluationKey(ct, evk, out) }) {
				if aerr != nil {
					c.Eval(1)
					c.Violate("C04|Evaluator.ApplyEvaluationKey|error-on-admissible", aerr.Error()+" "+d2(), cf)
				} else {
					e.judge("Evaluator.ApplyEvaluationKey", out.El(), sk2, msg, e.B+e.ksBound(level, lp, k.w), fmt.Sprintf("table/%s/%d/%v", kp, level, isNTT), d2())
				}
			}
		}
	}

	// ---- the other generator entry points on drawn cells
	drawCell := func() cell {
		lq := rnd.N(lqMax + 1)
		lp := lpMax
		if rnd.Bool() {
			lp = rnd.N(lpMax+2) - 1
		}
		return cell{lq, lp, drawW(lp), rnd.N(3) == 0}
	}
	galPayload := func(g uint64) ringqp.Poly {
		gi := invOdd(g, nth)
		if ci {
			return smallToQP(params, autoSmallCI(sSmall, gi))
		}
		return smallToQP(params, autoSmall(sSmall, gi))
	}
	for rep := 0; rep < 2; rep++ {
		// GenEvaluationKey into a new receiver, then again into the same receiver with the roles of the secrets swapped
		{
			k := drawCell()
			evp, kp, desc := mk(k)
			recv := rlwe.NewEvaluationKey(params, evp)
			for round, pair := range [][2]*rlwe.SecretKey{{e.sk, sk2}, {sk2, e.sk}} {
				if !c.Try("C04|KeyGenerator.GenEvaluationKey", func() { e.kgen.GenEvaluationKey(pair[0], pair[1], recv) }) {
					break
				}
				use := recv
				if k.compressed {
					use = recv.CopyNew() // the receiver stays compressed for the second round
				}
				in := sSmall
				if round == 1 {
					in = s2Small
					c.Count("keys_generated_into_used_receiver", 1)
				}
				d := func() string { return desc() + fmt.Sprintf(" round=%d", round) }
				if finish(use, k, d) {
					checkGadget(c, params, "KeyGenerator.GenEvaluationKey", &use.GadgetCiphertext, pair[1].Value, smallResidues(params, in, k.lq), k.lq, k.lp, k.w, kp+fmt.Sprintf("/r%d", round), d)
				}
			}
		}
		// relinearisation keys
		{
			k := drawCell()
			evp, kp, desc := mk(k)
			var rlk *rlwe.RelinearizationKey
			entry := "KeyGenerator.GenRelinearizationKeyNew"
			if rep == 1 {
				entry = "KeyGenerator.GenRelinearizationKey"
			}
			if c.Try("C04|"+entry, func() {
				if rep == 0 {
					rlk = e.kgen.GenRelinearizationKeyNew(e.sk, evp)
				} else {
					rlk = rlwe.NewRelinearizationKey(params, evp)
					e.kgen.GenRelinearizationKey(sk2, rlk)  // first use of the receiver
					e.kgen.GenRelinearizationKey(e.sk, rlk) // second use: must overwrite
				}
			}) && finish(&rlk.EvaluationKey, k, desc) {
				checkGadget(c, params, entry, &rlk.GadgetCiphertext, e.sk.Value, sq(k.lq), k.lq, k.lp, k.w, kp, desc)
			}
		}
		// Galois keys: New, into a receiver, list variants
		{
			k := drawCell()
			evp, kp, desc := mk(k)
			g := drawGalEl(rnd, params, ci)
			var gk *rlwe.GaloisKey
			entry := "KeyGenerator.GenGaloisKeyNew"
			if rep == 1 {
				entry = "KeyGenerator.GenGaloisKey"
			}
			if c.Try("C04|"+entry, func() {
				if rep == 0 {
					gk = e.kgen.GenGaloisKeyNew(g, e.sk, evp)
				} else {
					gk = rlwe.NewGaloisKey(params, evp)
					e.kgen.GenGaloisKey(drawGalEl(rnd, params, ci), sk2, gk)
					e.kgen.GenGaloisKey(g, e.sk, gk)
				}
			}) {
				d := func() string { return desc() + fmt.Sprintf(" galEl=%d", g) }
				c.Check(gk.GaloisElement == g && gk.NthRoot == nth, "C04|"+entry+"|galois-element-field", d)
				if finish(&gk.EvaluationKey, k, d) {
					checkGadget(c, params, entry, &gk.GadgetCiphertext, galPayload(g), smallResidues(params, sSmall, k.lq), k.lq, k.lp, k.w, kp, d)
				}
			}
		}
		{
			k := drawCell()
			evp, kp, desc := mk(k)
			els := []uint64{drawGalEl(rnd, params, ci), drawGalEl(rnd, params, ci), drawGalEl(rnd, params, ci)}
			var gks []*rlwe.GaloisKey
			entry := "KeyGenerator.GenGaloisKeysNew"
			cells := []cell{k, k, k}
			if rep == 1 {
				entry = "KeyGenerator.GenGaloisKeys"
				// a nil entry is allocated with the default parameters (documented by the code: GenGaloisKeyNew(galEl, sk))
				cells[0] = cell{lqMax, lpMax, 0, false}
			}
			if !c.Try("C04|"+entry, func() {
				if rep == 0 {
					gks = e.kgen.GenGaloisKeysNew(els, e.sk, evp)
				} else {
					gks = []*rlwe.GaloisKey{nil, rlwe.NewGaloisKey(params, evp), rlwe.NewGaloisKey(params, evp)}
					e.kgen.GenGaloisKeys(els, e.sk, gks)
				}
			}) {
				continue
			}
			if !c.Check(len(gks) == len(els), "C04|"+entry+"|wrong-number-of-keys", desc) {
				continue
			}
			for i, gk := range gks {
				g, kc := els[i], cells[i]
				_, kpi, desci := mk(kc)
				_ = kp
				d := func() string { return desci() + fmt.Sprintf(" galEl=%d (entry %d of the list)", g, i) }
				if !c.Check(gk != nil && gk.GaloisElement == g && gk.NthRoot == nth, "C04|"+entry+"|galois-element-field", d) {
					continue
				}
				if finish(&gk.EvaluationKey, kc, d) {
					checkGadget(c, params, entry, &gk.GadgetCiphertext, galPayload(g), smallResidues(params, sSmall, kc.lq), kc.lq, kc.lp, kc.w, kpi+fmt.Sprintf("/%d", i), d)
				}
			}
		}
	}
}

// ---------------------------------------------------------------------------------------------
// galgroup/

func galgroupCases(tier string, seed int64) []eng.Case {
	r := eng.NewRand("c04-galgroup-cases", seed)
	n := 12
	if tier == "thorough" {
		n = 120
	}
	var out []eng.Case
	for i := 0; i < n; i++ {
		c := cfg{Ring: eng.Pick(r, "std", "std", "ci"), Xs: eng.Pick(r, "p0.5", "h8", "hN", "gauss"), LogN: eng.Pick(r, 4, 4, 5)}
		if tier == "thorough" && r.N(4) == 0 {
			c.LogN = 6
		}
		nq := 1 + r.N(5)
		np := r.N(3)
		for j := 0; j < nq; j++ {
			c.QBits = append(c.QBits, pickInt(r, []int{36, 45, 55, 60, 61}))
		}
		for j := 0; j < np; j++ {
			c.PBits = append(c.PBits, pickInt(r, []int{45, 55, 61}))
		}
		if !fillChain(r, &c) {
			continue
		}
		cc := c
		id := fmt.Sprintf("galgroup/%d/%s/logN%d/q%v/p%v/%s", i, c.Ring, c.LogN, c.QBits, c.PBits, c.Xs)
		out = append(out, eng.Case{ID: id, Sig: "C04|galois-group", Desc: cc, Run: func(x *eng.Ctx) { runGalGroup(x, cc) }})
	}
	return out
}

func runGalGroup(c *eng.Ctx, cf cfg) {
	params, err := cf.params()
	if err != nil {
		c.Violate("C04|rlwe.NewParametersFromLiteral|error-on-admissible", err.Error(), cf)
		return
	}
	rnd := c.Rand()
	c.Sample(map[string]any{"kind": "whole-galois-group", "cfg": cf})
	e := newEnv(c, cf, params)
	ci := cf.Ring == "ci"
	nth := params.RingQ().NthRoot()
	lqMax, lpMax := params.MaxLevelQ(), params.MaxLevelP()
	lq, lp := lqMax, lpMax
	if rnd.Bool() {
		lq = rnd.N(lqMax + 1)
		lp = rnd.N(lpMax+2) - 1
	}
	w := 0
	if lp <= 0 && rnd.Bool() {
		w = 1 + rnd.N(30)
	}
	compressed := rnd.N(3) == 0
	evp := rlwe.EvaluationKeyParameters{LevelQ: &lq, LevelP: &lp, BaseTwoDecomposition: &w, Compressed: compressed}
	var els []uint64
	if ci {
		g := uint64(1)
		for k := 1; k < params.N(); k++ {
			g = (g * ring.GaloisGen) % nth
			els = append(els, g)
		}
	} else {
		for g := uint64(3); g < nth; g += 2 {
			els = append(els, g)
		}
	}
	level := rnd.N(lq + 1)
	if rnd.Bool() {
		level = lq
	}
	isNTT := rnd.Bool()
	desc := func(g uint64) string {
		return fmt.Sprintf("Q=%v P=%v ring=%s keyLevelQ=%d keyLevelP=%d w=%d compressed=%v ctLevel=%d isNTT=%v galEl=%d", cf.Q, cf.P, cf.Ring, lq, lp, w, compressed, level, isNTT, g)
	}
	var gks []*rlwe.GaloisKey
	if !c.Try("C04|KeyGenerator.GenGaloisKeysNew", func() { gks = e.kgen.GenGaloisKeysNew(els, e.sk, evp) }) {
		return
	}
	rlk := e.kgen.GenRelinearizationKeyNew(e.sk, evp)
	if compressed {
		for _, gk := range gks {
			if err := gk.Expand(params, nil); err != nil {
				c.Violate("C04|EvaluationKey.Expand|error", err.Error(), cf)
				return
			}
		}
		if err := rlk.Expand(params, nil); err != nil {
			c.Violate("C04|EvaluationKey.Expand|error", err.Error(), cf)
			return
		}
	}
	set := rlwe.NewMemEvaluationKeySet(rlk, gks...)
	have := append([]uint64{}, set.GetGaloisKeysList()...)
	sort.Slice(have, func(i, j int) bool { return have[i] < have[j] })
	wantEls := append([]uint64{}, els...)
	sort.Slice(wantEls, func(i, j int) bool { return wantEls[i] < wantEls[j] })
	c.Check(fmt.Sprint(have) == fmt.Sprint(wantEls), "C04|MemEvaluationKeySet.GetGaloisKeysList|wrong-list", nil)
	eval := rlwe.NewEvaluator(params, set)
	msg := e.randMsg(level)
	ct := e.freshCt(e.sk, msg, level, isNTT)
	ctc := ct.CopyNew()
	ksb := e.ksBound(level, lp, w)
	kp := fmt.Sprintf("%s/%d/%v/%v/%s/%d/%d/%d/%d/%v", cf.Ring, cf.LogN, cf.QBits, cf.PBits, cf.Xs, lq, lp, w, level, isNTT)
	for _, g := range els {
		out := rlwe.NewCiphertext(params, 1, level)
		var gerr error
		if !c.Try("C04|Evaluator.Automorphism", func() { gerr = eval.Automorphism(ct, g, out) }) {
			continue
		}
		if gerr != nil {
			c.Eval(1)
			c.Violate("C04|Evaluator.Automorphism|error-on-admissible", gerr.Error()+" "+desc(g), cf)
			continue
		}
		e.judge("Evaluator.Automorphism", out.El(), e.sk, autoWant(params, ci, msg, g, level), e.B+ksb, fmt.Sprintf("galgroup/%s/g%d", kp, g%8), desc(g))
	}
	c.Check(ctSame(ct, ctc), "C04|Evaluator.Automorphism|input-modified", nil)
	c.Count("galois_group_elements", int64(len(els)))
	c.Count("galois_groups_exhausted", 1)
	// relinearisation with the key set that also holds every Galois key
	{
		ct2 := buildDeg2(e, rnd, msg, level, isNTT)
		o := rlwe.NewCiphertext(params, 1, level)
		var rerr error
		if c.Try("C04|Evaluator.Relinearize", func() { rerr = eval.Relinearize(ct2, o) }) {
			if rerr != nil {
				c.Eval(1)
				c.Violate("C04|Evaluator.Relinearize|error-on-admissible", rerr.Error()+" "+desc(0), cf)
			} else {
				e.judge("Evaluator.Relinearize", o.El(), e.sk, msg, ksb, "galgroup-relin/"+kp, desc(0))
			}
		}
	}
	// a chain of automorphisms in place on one ciphertext
	cur, want := ct.CopyNew(), msg
	for step := 1; step <= 4; step++ {
		g := els[rnd.N(len(els))]
		var gerr error
		if !c.Try("C04|Evaluator.Automorphism|in-place-chain", func() { gerr = eval.Automorphism(cur, g, cur) }) {
			break
		}
		if gerr != nil {
			c.Eval(1)
			c.Violate("C04|Evaluator.Automorphism|error-on-admissible", gerr.Error()+" "+desc(g), cf)
			break
		}
		want = autoWant(params, ci, want, g, level)
		c.Count("in_place_chain_steps", 1)
		e.judge("Evaluator.Automorphism", cur.El(), e.sk, want, e.B+float64(step)*ksb, fmt.Sprintf("galchain/%s/%d", kp, step), desc(g)+fmt.Sprintf(" in-place chain step %d", step))
	}
}

// ---------------------------------------------------------------------------------------------
// ksx/

func ksxCases(tier string, seed int64) []eng.Case {
	r := eng.NewRand("c04-ksx-cases", seed)
	n := 36
	if tier == "thorough" {
		n = 480
	}
	var out []eng.Case
	for i := 0; i < n; i++ {
		c := cfg{Ring: eng.Pick(r, "std", "std", "ci"), Xs: eng.Pick(r, "p0.5", "h8", "hN", "gauss"), Xe: eng.Pick(r, "tight", "narrow", "wide", "tern", ""), LogN: eng.Pick(r, 4, 7, 8, 9)}
		if tier == "thorough" && r.N(5) == 0 {
			c.LogN = eng.Pick(r, 10, 11)
		}
		all := []int{30, 36, 45, 50, 55, 58, 60, 61}
		switch i % 6 {
		case 0: // a single prime, no auxiliary modulus
			c.QBits = []int{pickInt(r, all)}
		case 1: // P much larger than Q
			c.QBits = []int{pickInt(r, []int{30, 36})}
			c.PBits = []int{61, 61, 61}
		case 2: // everything at the largest accepted size
			for j, nq := 0, 2+r.N(5); j < nq; j++ {
				c.QBits = append(c.QBits, 61)
			}
			for j, np := 0, 1+r.N(3); j < np; j++ {
				c.PBits = append(c.PBits, 61)
			}
		case 3: // 61-bit primes next to small ones
			for j, nq := 0, 2+r.N(5); j < nq; j++ {
				c.QBits = append(c.QBits, []int{61, 30, 61, 36, 60, 30}[j])
			}
			c.PBits = []int{pickInt(r, []int{36, 61})}
			if r.Bool() {
				c.PBits = append(c.PBits, pickInt(r, []int{36, 61}))
			}
		case 4:
			for j, nq := 0, 1+r.N(6); j < nq; j++ {
				c.QBits = append(c.QBits, pickInt(r, all))
			}
			for j, np := 0, r.N(4); j < np; j++ {
				c.PBits = append(c.PBits, pickInt(r, []int{36, 45, 55, 60, 61}))
			}
		default: // #P does not divide #Q
			nq, np := 5, 2
			if r.Bool() {
				nq, np = 4, 3
			}
			for j := 0; j < nq; j++ {
				c.QBits = append(c.QBits, pickInt(r, all))
			}
			for j := 0; j < np; j++ {
				c.PBits = append(c.PBits, pickInt(r, []int{45, 55, 61}))
			}
		}
		if !fillChain(r, &c) {
			continue
		}
		cc := c
		id := fmt.Sprintf("ksx/%d/%s/logN%d/q%v/p%v/%s/%s", i, c.Ring, c.LogN, c.QBits, c.PBits, c.Xs, c.Xe)
		out = append(out, eng.Case{ID: id, Sig: "C04|keyswitch", Desc: cc, Run: func(x *eng.Ctx) {
			x.Count("ksx_cases", 1)
			x.Max("max_logN", int64(cc.LogN))
			runKS(x, cc)
		}})
	}
	return out
}

// ---------------------------------------------------------------------------------------------
// recv/

func recvCases(tier string, seed int64) []eng.Case {
	r := eng.NewRand("c04-recv-cases", seed)
	n := 48
	if tier == "thorough" {
		n = 700
	}
	var out []eng.Case
	for i := 0; i < n; i++ {
		c := cfg{Ring: eng.Pick(r, "std", "std", "std", "ci"), Xs: eng.Pick(r, "p0.5", "h8", "gauss"), LogN: eng.Pick(r, 4, 5, 6)}
		nq := 1 + r.N(6)
		np := r.N(4)
		for j := 0; j < nq; j++ {
			c.QBits = append(c.QBits, pickInt(r, []int{30, 36, 45, 55, 60, 61}))
		}
		for j := 0; j < np; j++ {
			c.PBits = append(c.PBits, pickInt(r, []int{36, 45, 55, 61}))
		}
		if !fillChain(r, &c) {
			continue
		}
		cc := c
		id := fmt.Sprintf("recv/%d/%s/logN%d/q%v/p%v/%s", i, c.Ring, c.LogN, c.QBits, c.PBits, c.Xs)
		out = append(out, eng.Case{ID: id, Sig: "C04|keyswitch-receivers", Desc: cc, Run: func(x *eng.Ctx) { runRecv(x, cc) }})
	}
	return out
}

type kop struct {
	entry   string
	deg     int
	in      *rlwe.Ciphertext
	run     func(ev *rlwe.Evaluator, in, out *rlwe.Ciphertext) error
	skOut   *rlwe.SecretKey
	want    ring.Poly
	bound   func(level int) float64
	inplace bool // in == out is meaningful
	larger  bool // a receiver above the level of the input is resized
	smaller bool // a receiver below the level of the input lowers the level of the result
	// dirtySig: signature of the (triaged) failure class "the previous content of the receiver leaks
	// into the result" for inputs outside the NTT domain; when set, the larger / smaller receivers are
	// first run zero-filled under the ordinary signatures, then garbage-filled under dirtySig, so that
	// this class cannot hide a resize defect.
	dirtySig string
}

type evProv struct {
	entry string
	ev    *rlwe.Evaluator
}

type recvRun struct {
	c      *eng.Ctx
	e      *env
	cf     cfg
	rnd    *eng.Rand
	fresh  func() *rlwe.Evaluator
	provs  []evProv
	kp     string
	desc   func() string
	lqMax  int
	params rlwe.Parameters // ring of the receivers (the evaluator's ring except for ring-degree switching)
}

func (x *recvRun) call(sig string, op kop, ev *rlwe.Evaluator, in, out *rlwe.Ciphertext) bool {
	var err error
	if !x.c.Try(sig, func() { err = op.run(ev, in, out) }) {
		return false
	}
	if err != nil {
		x.c.Eval(1)
		x.c.Violate(sig+"|error-on-admissible", err.Error()+" "+x.desc(), x.cf)
		return false
	}
	return true
}

func (x *recvRun) variants(op kop) {
	c, params := x.c, x.params
	level := op.in.Level()
	base := "C04|" + op.entry
	isNTT := op.in.IsNTT
	ds := func(v string) func() string {
		return func() string { return fmt.Sprintf("%s ctLevel=%d isNTT=%v variant=%s", x.desc(), level, isNTT, v) }
	}
	cmp := func(sig, v string, got, want *rlwe.Ciphertext) {
		c.Count("variants_compared", 1)
		c.Distinct(fmt.Sprintf("variant/%s/%s/%s/%d/%v", op.entry, v, x.kp, level, isNTT), true)
		c.Check(ctSame(got, want), sig, func() string {
			return fmt.Sprintf("%s: result level=%d degree=%d, reference level=%d degree=%d, metadata equal=%v", ds(v)(), got.Level(), got.Degree(), want.Level(), want.Degree(), got.MetaData.Equal(want.MetaData))
		})
	}
	// reference: fresh evaluator, exact receiver, judged by the phase oracle
	refOut := rlwe.NewCiphertext(params, 1, level)
	in0 := op.in.CopyNew()
	if !x.call(base, op, x.fresh(), in0, refOut) {
		return
	}
	c.Check(ctSame(in0, op.in), base+"|input-modified", ds("exact"))
	c.Check(refOut.Degree() == 1 && refOut.Level() == level && refOut.MetaData.Equal(op.in.MetaData), base+"|metadata", ds("exact"))
	x.e.judge(op.entry, refOut.El(), op.skOut, op.want, op.bound(level), fmt.Sprintf("recv/%s/%s/%d/%v", op.entry, x.kp, level, isNTT), ds("exact")())

	// ---- receivers (fresh evaluator)
	if op.inplace {
		io := op.in.CopyNew()
		if x.call(base+"|receiver-inplace", op, x.fresh(), io, io) {
			cmp(base+"|result-differs-from-exact-receiver|inplace", "inplace", io, refOut)
		}
	}
	split := op.dirtySig != "" && !isNTT
	if op.larger {
		big := garbageCt(params, x.rnd, 1, x.lqMax)
		if split {
			big = rlwe.NewCiphertext(params, 1, x.lqMax)
		}
		in1 := op.in.CopyNew()
		if x.call(base+"|receiver-larger", op, x.fresh(), in1, big) {
			cmp(base+"|result-differs-from-exact-receiver|larger", "larger", big, refOut)
			c.Check(ctSame(in1, op.in), base+"|input-modified", ds("larger"))
		}
		if split {
			dirty := garbageCt(params, x.rnd, 1, x.lqMax)
			if x.call(base+"|receiver-larger", op, x.fresh(), op.in.CopyNew(), dirty) {
				c.Count("non_zero_receivers_outside_ntt", 1)
				cmp(op.dirtySig, "larger-nonzero", dirty, refOut)
			}
		}
		if op.deg == 2 {
			big2 := garbageCt(params, x.rnd, 2, x.lqMax)
			in2 := op.in.CopyNew()
			if x.call(base+"|receiver-degree2", op, x.fresh(), in2, big2) {
				cmp(base+"|result-differs-from-exact-receiver|degree2", "degree2", big2, refOut)
			}
		}
	}
	if op.smaller && level > 0 {
		l2 := x.rnd.N(level)
		inT := op.in.CopyNew()
		inT.Resize(op.deg, l2)
		refS := rlwe.NewCiphertext(params, 1, l2)
		if x.call(base, op, x.fresh(), inT, refS) {
			x.e.judge(op.entry, refS.El(), op.skOut, op.want, op.bound(l2), fmt.Sprintf("recv-trunc/%s/%s/%d/%v", op.entry, x.kp, l2, isNTT), ds("truncated-input")())
			small := garbageCt(params, x.rnd, 1, l2)
			if split {
				small = rlwe.NewCiphertext(params, 1, l2)
			}
			in2 := op.in.CopyNew()
			if x.call(base+"|receiver-smaller", op, x.fresh(), in2, small) {
				cmp(base+"|result-differs-from-exact-receiver|smaller", "smaller", small, refS)
				c.Check(ctSame(in2, op.in), base+"|input-modified", ds("smaller"))
			}
			if split {
				dirty := garbageCt(params, x.rnd, 1, l2)
				if x.call(base+"|receiver-smaller", op, x.fresh(), op.in.CopyNew(), dirty) {
					c.Count("non_zero_receivers_outside_ntt", 1)
					cmp(op.dirtySig, "smaller-nonzero", dirty, refS)
				}
			}
		}
	}
	// ---- evaluator provenance (exact receiver); the evaluators are shared by all operations of the trial
	for _, p := range x.provs {
		out := rlwe.NewCiphertext(params, 1, level)
		in1 := op.in.CopyNew()
		if x.call("C04|"+p.entry+"|"+op.entry, op, p.ev, in1, out) {
			cmp("C04|"+p.entry+"|result-differs-from-fresh-evaluator|"+op.entry, p.entry, out, refOut)
		}
	}
	// ---- one mixed combination
	if op.inplace && len(x.provs) > 0 {
		p := x.provs[x.rnd.N(len(x.provs))]
		io := op.in.CopyNew()
		if x.call("C04|"+p.entry+"|"+op.entry+"|receiver-inplace", op, p.ev, io, io) {
			cmp("C04|"+p.entry+"|result-differs-from-fresh-evaluator|"+op.entry+"|inplace", p.entry+"+inplace", io, refOut)
		}
	}
}

func runRecv(c *eng.Ctx, cf cfg) {
	params, err := cf.params()
	if err != nil {
		c.Violate("C04|rlwe.NewParametersFromLiteral|error-on-admissible", err.Error(), cf)
		return
	}
	rnd := c.Rand()
	c.Sample(map[string]any{"kind": "receivers-evaluators-refusals", "cfg": cf})
	e := newEnv(c, cf, params)
	ci := cf.Ring == "ci"
	sk2 := e.kgen.GenSecretKeyNew()
	lqMax, lpMax := params.MaxLevelQ(), params.MaxLevelP()
	chain := fmt.Sprintf("%s/%d/%v/%v/%s", cf.Ring, cf.LogN, cf.QBits, cf.PBits, cf.Xs)
	histSet := rlwe.NewMemEvaluationKeySet(nil)
	histEv := rlwe.NewEvaluator(params, histSet) // built before any key exists

	ntrials := 3
	for trial := 0; trial < ntrials; trial++ {
		lq := rnd.N(lqMax + 1)
		lp := lpMax
		if lpMax >= 0 && rnd.Bool() {
			lp = rnd.N(lpMax+2) - 1
		}
		if trial == 0 {
			lq, lp = lqMax, lpMax
		}
		w := 0
		if lp <= 0 && rnd.N(3) != 0 {
			w = 1 + rnd.N(30)
		}
		compressed := rnd.N(4) == 0
		level := rnd.N(lq + 1)
		if rnd.Bool() {
			level = lq
		}
		isNTT := rnd.Bool()
		evp := rlwe.EvaluationKeyParameters{LevelQ: &lq, LevelP: &lp, BaseTwoDecomposition: &w, Compressed: compressed}
		g := drawGalEl(rnd, params, ci)
		desc := func() string {
			return fmt.Sprintf("Q=%v P=%v ring=%s keyLevelQ=%d keyLevelP=%d w=%d compressed=%v galEl=%d", cf.Q, cf.P, cf.Ring, lq, lp, w, compressed, g)
		}
		var evk *rlwe.EvaluationKey
		var rlk *rlwe.RelinearizationKey
		var gk *rlwe.GaloisKey
		if !c.Try("C04|KeyGenerator.GenEvaluationKeyNew", func() {
			evk = e.kgen.GenEvaluationKeyNew(e.sk, sk2, evp)
			rlk = e.kgen.GenRelinearizationKeyNew(e.sk, evp)
			gk = e.kgen.GenGaloisKeyNew(g, e.sk, evp)
		}) {
			continue
		}
		if compressed {
			ok := expandChecked(c, params, evk, true, desc) && expandChecked(c, params, &rlk.EvaluationKey, false, desc) && expandChecked(c, params, &gk.EvaluationKey, true, desc)
			if !ok {
				continue
			}
		}
		// a key of another parameterisation, to leave other content in the buffers of re-used evaluators
		lpo, wo := lpMax, 0
		if lp == lpMax {
			lpo = lpMax - 1
			if lpo < -1 {
				lpo = -1
			}
		}
		if lpo <= 0 && w == 0 {
			wo = 7
		}
		lqo := lqMax
		evpo := rlwe.EvaluationKeyParameters{LevelQ: &lqo, LevelP: &lpo, BaseTwoDecomposition: &wo}
		evkOther := e.kgen.GenEvaluationKeyNew(sk2, e.sk, evpo)
		gkOther := e.kgen.GenGaloisKeyNew(g, sk2, evpo)
		pollute := func(ev *rlwe.Evaluator) {
			ct := e.freshCt(sk2, e.randMsg(lqMax), lqMax, !isNTT)
			_ = ev.ApplyEvaluationKey(ct, evkOther, rlwe.NewCiphertext(params, 1, lqMax))
			c.Count("evaluator_pollutions", 1)
		}
		set := rlwe.NewMemEvaluationKeySet(rlk, gk)
		fresh := func() *rlwe.Evaluator { return rlwe.NewEvaluator(params, rlwe.NewMemEvaluationKeySet(rlk, gk)) }
		used := fresh()
		pollute(used)
		other := rlwe.NewEvaluator(params, rlwe.NewMemEvaluationKeySet(nil, gkOther))
		_ = other.Automorphism(e.freshCt(sk2, e.randMsg(lqMax), lqMax, true), g, rlwe.NewCiphertext(params, 1, lqMax))
		// the re-used evaluator: its key set is changed after its construction (and holds, for g, the key of the previous trial until now)
		histSet.RelinearizationKey = rlk
		histSet.GaloisKeys[g] = gk
		pollute(histEv)
		x := &recvRun{c: c, e: e, cf: cf, rnd: rnd, fresh: fresh, lqMax: lqMax, params: params, desc: desc,
			kp: fmt.Sprintf("%s/%d/%d/%d", chain, lq, lp, w),
			provs: []evProv{
				{"Evaluator.ShallowCopy", used.ShallowCopy()},
				{"Evaluator.WithKey", rlwe.NewEvaluator(params, nil).WithKey(set)},
				{"Evaluator.WithKey", other.WithKey(set)},
				{"Evaluator.reused-with-late-keys", histEv},
			}}
		msg := e.randMsg(level)
		ct := e.freshCt(e.sk, msg, level, isNTT)
		ksb := func(l int) float64 { return e.ksBound(l, lp, w) }
		wantAut := autoWant(params, ci, msg, g, level)

		x.variants(kop{entry: "Evaluator.ApplyEvaluationKey", deg: 1, in: ct, skOut: sk2, want: msg, inplace: true, larger: true, smaller: true,
			bound: func(l int) float64 { return e.B + ksb(l) },
			run:   func(ev *rlwe.Evaluator, in, out *rlwe.Ciphertext) error { return ev.ApplyEvaluationKey(in, evk, out) }})
		// a deep copy of the key is the same key
		{
			o1, o2 := rlwe.NewCiphertext(params, 1, level), rlwe.NewCiphertext(params, 1, level)
			cp := evk.CopyNew()
			if c.Try("C04|EvaluationKey.CopyNew", func() {
				_ = fresh().ApplyEvaluationKey(ct, evk, o1)
				_ = fresh().ApplyEvaluationKey(ct, cp, o2)
			}) {
				c.Check(ctSame(o1, o2) && cp.GadgetCiphertext.Equal(&evk.GadgetCiphertext), "C04|EvaluationKey.CopyNew|result-differs-from-original-key", desc)
			}
		}
		x.variants(kop{entry: "Evaluator.Relinearize", deg: 2, in: buildDeg2(e, rnd, msg, level, isNTT), skOut: e.sk, want: msg, inplace: true, larger: true, smaller: true,
			bound: ksb,
			run:   func(ev *rlwe.Evaluator, in, out *rlwe.Ciphertext) error { return ev.Relinearize(in, out) }})
		x.variants(kop{entry: "Evaluator.Automorphism", deg: 1, in: ct, skOut: e.sk, want: wantAut, inplace: true, larger: true, smaller: true,
			bound: func(l int) float64 { return e.B + ksb(l) },
			run:   func(ev *rlwe.Evaluator, in, out *rlwe.Ciphertext) error { return ev.Automorphism(in, g, out) }})
		if lp >= 0 && w == 0 {
			decomp := func(ev *rlwe.Evaluator, in *rlwe.Ciphertext) []ringqp.Poly {
				l := in.Level()
				buf := make([]ringqp.Poly, params.BaseRNSDecompositionVectorSize(l, lp))
				for i := range buf {
					buf[i] = params.RingQP().AtLevel(l, lp).NewPoly()
				}
				ev.DecomposeNTT(l, lp, lp+1, in.Value[1], in.IsNTT, buf)
				return buf
			}
			if !isNTT {
				c.Count("hoisted_automorphisms_outside_ntt", 1)
			}
			x.variants(kop{entry: "Evaluator.AutomorphismHoisted", deg: 1, in: ct, skOut: e.sk, want: wantAut, inplace: true, larger: true,
				bound: func(l int) float64 { return e.B + ksb(l) },
				run: func(ev *rlwe.Evaluator, in, out *rlwe.Ciphertext) error {
					return ev.AutomorphismHoisted(in.Level(), in, decomp(ev, in), g, out)
				}})
			x.variants(kop{entry: "Evaluator.AutomorphismHoistedLazy+ModDown", deg: 1, in: ct, skOut: e.sk, want: wantAut,
				bound: func(l int) float64 { return e.B + ksb(l) },
				run: func(ev *rlwe.Evaluator, in, out *rlwe.Ciphertext) error {
					l := in.Level()
					qp := rlwe.NewElementExtended(params, 1, l, lp)
					qp.IsNTT = in.IsNTT
					if err := ev.AutomorphismHoistedLazy(l, in, decomp(ev, in), g, qp); err != nil {
						return err
					}
					*out.MetaData = *in.MetaData
					ev.ModDown(l, lp, qp, out)
					return nil
				}})
		}
		// identity element: a copy, no key needed
		{
			evNo := rlwe.NewEvaluator(params, nil)
			for _, big := range []bool{false, true} {
				out := rlwe.NewCiphertext(params, 1, level)
				if big {
					out = garbageCt(params, rnd, 1, lqMax)
				}
				var ierr error
				if c.Try("C04|Evaluator.Automorphism|identity", func() { ierr = evNo.Automorphism(ct, 1, out) }) {
					c.Check(ierr == nil && ctSame(out, ct), "C04|Evaluator.Automorphism|identity-is-not-a-copy", desc)
				}
			}
			io := ct.CopyNew()
			var ierr error
			if c.Try("C04|Evaluator.Automorphism|identity", func() { ierr = evNo.Automorphism(io, 1, io) }) {
				c.Check(ierr == nil && ctSame(io, ct), "C04|Evaluator.Automorphism|identity-is-not-a-copy", desc)
			}
			c.Count("identity_automorphisms", 3)
		}
		if trial == 0 {
			recvRefusals(c, e, cf, rnd, sk2, evk, rlk, gk, g, lq, lp, level)
		}
	}
}

// recvRefusals: combinations that the API documents as errors return an error (a panic is a
// violation) and leave their operands as they were.
func recvRefusals(c *eng.Ctx, e *env, cf cfg, rnd *eng.Rand, sk2 *rlwe.SecretKey, evk *rlwe.EvaluationKey, rlk *rlwe.RelinearizationKey, gk *rlwe.GaloisKey, g uint64, lq, lp, level int) {
	params := e.params
	refuse := func(entry, cond string, f func() error, operands ...*rlwe.Ciphertext) {
		copies := make([]*rlwe.Ciphertext, len(operands))
		for i, o := range operands {
			copies[i] = o.CopyNew()
		}
		var err error
		if !c.Try("C04|"+entry+"|"+cond, func() { err = f() }) {
			return
		}
		c.Count("refusals_checked", 1)
		c.Check(err != nil, "C04|"+entry+"|"+cond+"-not-refused", nil)
		same := true
		for i, o := range operands {
			if !ctSame(o, copies[i]) {
				same = false
			}
		}
		c.Check(same, "C04|"+entry+"|"+cond+"|operand-modified-by-refused-call", nil)
	}
	ev := rlwe.NewEvaluator(params, rlwe.NewMemEvaluationKeySet(rlk, gk))
	evNil := rlwe.NewEvaluator(params, nil)
	ct1 := e.freshCt(e.sk, e.randMsg(level), level, true)
	ct2 := garbageCt(params, rnd, 2, level)
	ct3 := garbageCt(params, rnd, 3, level)
	o1 := garbageCt(params, rnd, 1, level)
	o2 := garbageCt(params, rnd, 2, level)
	refuse("Evaluator.ApplyEvaluationKey", "input-degree-2", func() error { return ev.ApplyEvaluationKey(ct2, evk, o1) }, ct2, o1)
	refuse("Evaluator.ApplyEvaluationKey", "output-degree-2", func() error { return ev.ApplyEvaluationKey(ct1, evk, o2) }, ct1, o2)
	refuse("Evaluator.Automorphism", "input-degree-2", func() error { return ev.Automorphism(ct2, g, o1) }, ct2, o1)
	refuse("Evaluator.Automorphism", "output-degree-2", func() error { return ev.Automorphism(ct1, g, o2) }, ct1, o2)
	refuse("Evaluator.Automorphism", "nil-key-set", func() error { return evNil.Automorphism(ct1, g, o1) }, ct1, o1)
	refuse("Evaluator.Relinearize", "input-degree-1", func() error { return ev.Relinearize(ct1, o1) }, ct1, o1)
	refuse("Evaluator.Relinearize", "input-degree-3", func() error { return ev.Relinearize(ct3, o1) }, ct3, o1)
	refuse("Evaluator.Relinearize", "nil-key-set", func() error { return evNil.Relinearize(ct2, o1) }, ct2, o1)
	if lp >= 0 {
		nd := params.BaseRNSDecompositionVectorSize(level, lp)
		buf := make([]ringqp.Poly, nd)
		for i := range buf {
			buf[i] = params.RingQP().AtLevel(level, lp).NewPoly()
		}
		refuse("Evaluator.AutomorphismHoisted", "input-degree-2", func() error { return ev.AutomorphismHoisted(level, ct2, buf, g, o1) }, ct2, o1)
		refuse("Evaluator.AutomorphismHoisted", "output-degree-2", func() error { return ev.AutomorphismHoisted(level, ct1, buf, g, o2) }, ct1, o2)
		qpSmall := rlwe.NewElementExtended(params, 1, level, lp-1)
		refuse("Evaluator.GadgetProductLazy", "receiver-levelP-below-key", func() error { return ev.GadgetProductLazy(level, ct1.Value[1], &evk.GadgetCiphertext, qpSmall) }, ct1)
		refuse("Evaluator.AutomorphismHoistedLazy", "receiver-levelP-below-key", func() error { return ev.AutomorphismHoistedLazy(level, ct1, buf, g, qpSmall) }, ct1)
		qp := rlwe.NewElementExtended(params, 1, level, lp)
		refuse("Evaluator.AutomorphismHoistedLazy", "missing-key", func() error { return ev.AutomorphismHoistedLazy(level, ct1, buf, (g+2)%params.RingQ().NthRoot(), qp) }, ct1)
		// the hoisted product is the RNS product: a key with a base-two decomposition is refused
		lpw, ww := 0, 5
		lqw := lq
		evpw := rlwe.EvaluationKeyParameters{LevelQ: &lqw, LevelP: &lpw, BaseTwoDecomposition: &ww}
		evkW := e.kgen.GenEvaluationKeyNew(e.sk, sk2, evpw)
		nd0 := params.BaseRNSDecompositionVectorSize(level, 0)
		buf0 := make([]ringqp.Poly, nd0)
		for i := range buf0 {
			buf0[i] = params.RingQP().AtLevel(level, 0).NewPoly()
		}
		qp0 := rlwe.NewElementExtended(params, 1, level, 0)
		refuse("Evaluator.GadgetProductHoistedLazy", "base-two-key", func() error { return ev.GadgetProductHoistedLazy(level, buf0, &evkW.GadgetCiphertext, qp0) })
	}
	// Expand
	{
		refuse("EvaluationKey.Expand", "uncompressed-key", func() error { return evk.CopyNew().Expand(params, nil) })
		lqc, lpc, wc := lq, lp, 0
		evpc := rlwe.EvaluationKeyParameters{LevelQ: &lqc, LevelP: &lpc, BaseTwoDecomposition: &wc, Compressed: true}
		ck := e.kgen.GenEvaluationKeyNew(e.sk, sk2, evpc)
		noSeed := ck.CopyNew()
		noSeed.Seed = nil
		refuse("EvaluationKey.Expand", "missing-seed", func() error { return noSeed.Expand(params, nil) })
		intact := func(cond string, buf *rlwe.GadgetCiphertext) {
			cp := ck.CopyNew()
			refuse("EvaluationKey.Expand", cond, func() error { return cp.Expand(params, buf) })
			c.Check(cp.IsCompressed() && cp.GadgetCiphertext.Equal(&ck.GadgetCiphertext), "C04|EvaluationKey.Expand|"+cond+"|key-modified-by-refused-call", nil)
		}
		intact("buffer-degree-1", rlwe.NewGadgetCiphertext(params, 1, lq, lp, 0))
		if lq > 0 {
			intact("buffer-wrong-levelQ", rlwe.NewGadgetCiphertext(params, 0, lq-1, lp, 0))
		}
		if params.MaxLevelP() >= 0 {
			lpb := lp - 1
			if lp == -1 {
				lpb = 0
			}
			intact("buffer-wrong-levelP", rlwe.NewGadgetCiphertext(params, 0, lq, lpb, 0))
		}
	}
}

// ---------------------------------------------------------------------------------------------
// rdx/: ring-degree switching (ApplyEvaluationKey between a ring of degree n and N = n << gap) with
// compressed keys, receivers above / below the level of the input and evaluators obtained through
// ShallowCopy / WithKey.

func rdxCases(tier string, seed int64) []eng.Case {
	r := eng.NewRand("c04-rdx-cases", seed)
	n := 24
	if tier == "thorough" {
		n = 300
	}
	var out []eng.Case
	for i := 0; i < n; i++ {
		c := cfg{Ring: "std", Xs: eng.Pick(r, "p0.5", "h8", "hN", "gauss"), LogN: eng.Pick(r, 4, 5, 6)}
		gapLog := 1 + r.N(3)
		nq := 1 + r.N(5)
		np := r.N(3)
		for j := 0; j < nq; j++ {
			c.QBits = append(c.QBits, pickInt(r, []int{36, 45, 55, 60, 61}))
		}
		for j := 0; j < np; j++ {
			c.PBits = append(c.PBits, pickInt(r, []int{45, 55, 61}))
		}
		c.Q, c.P = gen.Chain(r, uint64(2)<<(c.LogN+gapLog), c.QBits, c.PBits)
		if c.Q == nil {
			continue
		}
		cc, gl := c, gapLog
		id := fmt.Sprintf("rdx/%d/logN%d+%d/q%v/p%v/%s", i, c.LogN, gapLog, c.QBits, c.PBits, c.Xs)
		out = append(out, eng.Case{ID: id, Sig: "C04|ringdegree-receivers", Desc: cc, Run: func(x *eng.Ctx) { runRDX(x, cc, gl) }})
	}
	return out
}

func runRDX(c *eng.Ctx, cf cfg, gapLog int) {
	small, err := cf.params()
	if err != nil {
		c.Violate("C04|rlwe.NewParametersFromLiteral|error-on-admissible", err.Error(), cf)
		return
	}
	cfL := cf
	cfL.LogN = cf.LogN + gapLog
	large, err := cfL.params()
	if err != nil {
		c.Violate("C04|rlwe.NewParametersFromLiteral|error-on-admissible", err.Error(), cfL)
		return
	}
	rnd := c.Rand()
	c.Sample(map[string]any{"kind": "ring-degree-switch-receivers", "small": cf, "gapLog": gapLog})
	eS, eL := newEnv(c, cf, small), newEnv(c, cfL, large)
	gap := 1 << gapLog
	lqMax, lpMax := large.MaxLevelQ(), large.MaxLevelP()
	for trial := 0; trial < 3; trial++ {
		lq, lp := lqMax, lpMax
		if trial > 0 {
			lq = rnd.N(lqMax + 1)
			lp = rnd.N(lpMax+2) - 1
		}
		w := 0
		if lp <= 0 && rnd.Bool() {
			w = 1 + rnd.N(30)
		}
		compressed := rnd.N(3) == 0
		level := rnd.N(lq + 1)
		if rnd.Bool() {
			level = lq
		}
		isNTT := rnd.Bool()
		evp := rlwe.EvaluationKeyParameters{LevelQ: &lq, LevelP: &lp, BaseTwoDecomposition: &w, Compressed: compressed}
		desc := func() string {
			return fmt.Sprintf("Q=%v P=%v n=2^%d N=2^%d keyLevelQ=%d keyLevelP=%d w=%d compressed=%v", cf.Q, cf.P, cf.LogN, cfL.LogN, lq, lp, w, compressed)
		}
		var s2l, l2s *rlwe.EvaluationKey
		if !c.Try("C04|KeyGenerator.GenEvaluationKeyNew|ring-degree", func() {
			s2l = eL.kgen.GenEvaluationKeyNew(eS.sk, eL.sk, evp)
			l2s = eL.kgen.GenEvaluationKeyNew(eL.sk, eS.sk, evp)
		}) {
			continue
		}
		if compressed && !(expandChecked(c, large, s2l, rnd.Bool(), desc) && expandChecked(c, large, l2s, rnd.Bool(), desc)) {
			continue
		}
		fresh := func() *rlwe.Evaluator { return rlwe.NewEvaluator(large, nil) }
		used := fresh()
		_ = used.ApplyEvaluationKey(eL.freshCt(eL.sk, eL.randMsg(lq), lq, true), l2s, rlwe.NewCiphertext(small, 1, lq))
		provs := []evProv{{"Evaluator.ShallowCopy", used.ShallowCopy()}, {"Evaluator.WithKey", used.WithKey(rlwe.NewMemEvaluationKeySet(nil))}}
		ksb := func(l int) float64 { return eL.ksBound(l, lp, w) }
		kp := fmt.Sprintf("%d+%d/%v/%v/%s/%d/%d/%d", cf.LogN, gapLog, cf.QBits, cf.PBits, cf.Xs, lq, lp, w)
		// small -> large: m(Y) becomes m(X^gap)
		{
			msg := eS.randMsg(level)
			want := large.RingQ().AtLevel(level).NewPoly()
			for i := 0; i <= level; i++ {
				for j := 0; j < small.N(); j++ {
					want.Coeffs[i][j*gap] = msg.Coeffs[i][j]
				}
			}
			x := &recvRun{c: c, e: eL, cf: cf, rnd: rnd, fresh: fresh, provs: provs, lqMax: lqMax, params: large, desc: desc, kp: "s2l/" + kp}
			x.variants(kop{entry: "Evaluator.ApplyEvaluationKey|small-to-large", deg: 1, in: eS.freshCt(eS.sk, msg, level, isNTT), skOut: eL.sk, want: want, larger: true, smaller: true,
				// triaged: SwitchCiphertextRingDegree writes only every (N/n)-th coefficient of the receiver
				dirtySig: "C04|Evaluator.ApplyEvaluationKey|small-to-large|non-zero-receiver-outside-ntt|previous-content-leaks-into-result",
				bound:    func(l int) float64 { return eS.B + ksb(l) },
				run:      func(ev *rlwe.Evaluator, in, out *rlwe.Ciphertext) error { return ev.ApplyEvaluationKey(in, s2l, out) }})
		}
		// large -> small: projection on the coefficients whose index is a multiple of gap
		{
			msg := eL.randMsg(level)
			want := small.RingQ().AtLevel(level).NewPoly()
			for i := 0; i <= level; i++ {
				for j := 0; j < small.N(); j++ {
					want.Coeffs[i][j] = msg.Coeffs[i][j*gap]
				}
			}
			x := &recvRun{c: c, e: eS, cf: cf, rnd: rnd, fresh: fresh, provs: provs, lqMax: lqMax, params: small, desc: desc, kp: "l2s/" + kp}
			x.variants(kop{entry: "Evaluator.ApplyEvaluationKey|large-to-small", deg: 1, in: eL.freshCt(eL.sk, msg, level, isNTT), skOut: eS.sk, want: want, larger: true, smaller: true,
				bound: func(l int) float64 { return eL.B + ksb(l) },
				run:   func(ev *rlwe.Evaluator, in, out *rlwe.Ciphertext) error { return ev.ApplyEvaluationKey(in, l2s, out) }})
		}
		c.Count("ring_degree_receiver_trials", 1)
	}
}
