package c04

// rlwe.RingPackingEvaluator: Split/SplitNew, Merge/MergeNew, Expand, Pack, Extract/ExtractNaive,
// Repack/RepackNaive with the keys of GenRingSwitchingKeys / GenExtractEvaluationKeys /
// GenRepackEvaluationKeys (i.e. exactly GaloisElementsForExpand / GaloisElementsForPack).
//
// Plaintext model (coefficient domain, exact modulo Q_level; m = phase of the input):
//   Split   : even[j] = m[2j], odd[j] = m[2j+1]                       (under the secret of degree N/2)
//   Merge   : out[2j] = even[j], out[2j+1] = odd[j] (0 when odd==nil) (under the secret of degree 2n)
//   Expand  : cts[j] = m[j]*X^0 for every j < N divisible by 2^logGap, nothing else in the map
//   Pack    : out[j + 2^g k] = in_j[2^g k] for j in keys (g = inputLogGap, keys < 2^g), 0 for absent j;
//             with zeroGarbageSlots=false only positions divisible by 2^v are specified
//             (v = 2-adic valuation of the smallest key gap)
//   Extract : cts[i] = m[i]*X^0 (degree MinLogN); ExtractNaive: cts[i] = X^{-(i div F)} * t_b with
//             t_b[k] = m[b + kF], b = i mod F, F = N/n
//   Repack  : out[i] = in_i[0] for i in keys, 0 elsewhere; RepackNaive: out[c + kF] = P_c[k],
//             P_c = sum_j X^j in_{c+jF} in the input ring
// Noise: every automorphism / ring switch adds at most one key-switch bound; the Expand and Pack
// recursions double the surviving noise at each of their s steps: (2^s - 1) key-switch bounds.

import (
	"fmt"
	"sort"

	"github.com/tuneinsight/lattigo/v6/core/rlwe"
	"github.com/tuneinsight/lattigo/v6/ring"

	"verif/harness/eng"
	"verif/harness/gen"
	"verif/harness/ref"
)

type pkCfg struct {
	cfg
	MinLogN int  `json:"minLogN"`
	Single  bool `json:"single_ring"`
	LQ      int  `json:"keyLevelQ"`
	LP      int  `json:"keyLevelP"`
	W       int  `json:"w"`
}

func init() {
	extraCases = append(extraCases, packingCases)
}

func packingCases(tier string, seed int64) []eng.Case {
	r := eng.NewRand("c04-packing-cases", seed)
	n := 72
	if tier == "thorough" {
		n = 500
	}
	var out []eng.Case
	for i := 0; i < n; i++ {
		pc := pkCfg{cfg: cfg{Ring: "std", Xs: eng.Pick(r, "p0.5", "h8", "hN", "gauss"), LogN: eng.Pick(r, 5, 5, 6, 6, 7, 8)}}
		pc.Single = r.N(6) == 0
		if pc.Single {
			pc.LogN = eng.Pick(r, 4, 5, 6, 7)
			pc.MinLogN = pc.LogN
		} else {
			pc.MinLogN = pc.LogN - 1 - r.N(3)
			if pc.MinLogN < 4 {
				pc.MinLogN = 4
			}
		}
		nq := 1 + r.N(5)
		np := 1 + r.N(2)
		if r.N(5) == 0 {
			np = 0
		}
		for j := 0; j < nq; j++ {
			pc.QBits = append(pc.QBits, eng.Pick(r, 36, 45, 50, 55, 60))
		}
		for j := 0; j < np; j++ {
			pc.PBits = append(pc.PBits, eng.Pick(r, 45, 55, 60, 61))
		}
		pc.Q, pc.P = gen.Chain(r, uint64(2)<<pc.LogN, pc.QBits, pc.PBits)
		if pc.Q == nil {
			continue
		}
		pc.LQ, pc.LP = nq-1, np-1
		if r.N(3) == 0 {
			pc.LQ = r.N(nq)
		}
		if np > 0 && r.N(3) == 0 {
			pc.LP = r.N(np)
		}
		if pc.LP < 0 || (pc.LP == 0 && r.N(4) == 0) {
			pc.W = 3 + r.N(14)
		}
		cc := pc
		id := fmt.Sprintf("packing/%d/logN%d-%d/q%v/p%v/%s/k%d.%d.%d", i, pc.MinLogN, pc.LogN, pc.QBits, pc.PBits, pc.Xs, pc.LQ, pc.LP, pc.W)
		out = append(out, eng.Case{ID: id, Sig: "C04|RingPackingEvaluator", Desc: cc, Run: func(x *eng.Ctx) { runPacking(x, cc) }})
	}
	return out
}

type pk struct {
	c        *eng.Ctx
	rnd      *eng.Rand
	pc       pkCfg
	min, max int
	lq, lp   int
	w        int
	evp      rlwe.EvaluationKeyParameters
	rpk      *rlwe.RingPackingEvaluationKey
	prov     map[int]rlwe.ParameterProvider
	par      map[int]rlwe.Parameters
	sk       map[int]*rlwe.SecretKey
	env      map[int]*env
	ev       *rlwe.RingPackingEvaluator
	maxJudge int
	kp       string
}

func (k *pk) ksAuto(d, level int) float64 { return k.env[d].ksBound(level, k.lp, k.w) }

// ksSwitch: key between the rings of degree 2^d and 2^(d-1), generated in the ring of degree 2^d.
func (k *pk) ksSwitch(d, level int) float64 {
	H := k.env[d].H
	if h := k.env[d-1].H; h > H {
		H = h
	}
	return k.env[d].ksBoundH(level, k.lp, k.w, H)
}

func (k *pk) fresh(d, level int, isNTT bool) (*rlwe.Ciphertext, ring.Poly) {
	p := k.par[d]
	msg := uniPoly(k.rnd, p.RingQ().AtLevel(level))
	md := rlwe.MetaData{}
	md.IsNTT = isNTT
	md.Scale = rlwe.NewScale(1 << 20)
	md.LogDimensions = ring.Dimensions{Rows: 0, Cols: d - 1}
	return encryptCoeffs(p, k.sk[d], msg, level, md), msg
}

func (k *pk) desc(op string, level int, extra string) func() string {
	return func() string {
		return fmt.Sprintf("%s: Q=%v P=%v logN=%d..%d single=%v keyLevelQ=%d keyLevelP=%d w=%d ctLevel=%d %s", op, k.pc.Q, k.pc.P, k.min, k.max, k.pc.Single, k.lq, k.lp, k.w, level, extra)
	}
}

func (k *pk) level() int {
	if k.rnd.Bool() {
		return k.lq
	}
	return k.rnd.N(k.lq + 1)
}

func runPacking(c *eng.Ctx, pc pkCfg) {
	params, err := pc.cfg.params()
	if err != nil {
		c.Violate("C04|rlwe.NewParametersFromLiteral|error-on-admissible", err.Error(), pc)
		return
	}
	c.Sample(map[string]any{"kind": "ring-packing", "cfg": pc})
	k := &pk{c: c, rnd: c.Rand(), pc: pc, min: pc.MinLogN, max: pc.LogN, lq: pc.LQ, lp: pc.LP, w: pc.W, maxJudge: 12}
	k.evp = rlwe.EvaluationKeyParameters{LevelQ: &k.lq, LevelP: &k.lp, BaseTwoDecomposition: &k.w}
	k.kp = fmt.Sprintf("%d-%d/%v/%v/%s/%d/%d/%d", k.min, k.max, pc.QBits, pc.PBits, pc.Xs, k.lq, k.lp, k.w)
	sk := rlwe.NewKeyGenerator(params).GenSecretKeyNew()
	k.rpk = &rlwe.RingPackingEvaluationKey{}
	if pc.Single {
		// custom instantiation with a single ring (all fields are public; documented for the naive variants)
		k.rpk.Parameters = map[int]rlwe.ParameterProvider{pc.LogN: &params}
		k.sk = map[int]*rlwe.SecretKey{pc.LogN: sk}
		// GenRingSwitchingKeys documents an error for minLogN >= LogN
		var gerr error
		if c.Try("C04|RingPackingEvaluationKey.GenRingSwitchingKeys|minLogN-too-large", func() {
			_, gerr = (&rlwe.RingPackingEvaluationKey{}).GenRingSwitchingKeys(params, sk, pc.LogN, k.evp)
		}) {
			c.Check(gerr != nil, "C04|RingPackingEvaluationKey.GenRingSwitchingKeys|minLogN-too-large-not-refused", nil)
		}
	} else {
		var gerr error
		if !c.Try("C04|RingPackingEvaluationKey.GenRingSwitchingKeys", func() { k.sk, gerr = k.rpk.GenRingSwitchingKeys(params, sk, k.min, k.evp) }) {
			return
		}
		if gerr != nil {
			c.Violate("C04|RingPackingEvaluationKey.GenRingSwitchingKeys|error-on-admissible", gerr.Error(), pc)
			return
		}
		ok := len(k.sk) == k.max-k.min+1 && len(k.rpk.Parameters) == k.max-k.min+1
		for d := k.min; d <= k.max && ok; d++ {
			if k.sk[d] == nil || k.rpk.Parameters[d] == nil || k.rpk.Parameters[d].GetRLWEParameters().LogN() != d {
				ok = false
			}
			if d < k.max && ok && (k.rpk.RingSwitchingKeys[d][d+1] == nil || k.rpk.RingSwitchingKeys[d+1][d] == nil) {
				ok = false
			}
		}
		if !c.Check(ok && k.sk[k.max] == sk, "C04|RingPackingEvaluationKey.GenRingSwitchingKeys|incomplete-key-set", nil) {
			return
		}
	}
	k.prov = k.rpk.Parameters
	k.par = map[int]rlwe.Parameters{}
	k.env = map[int]*env{}
	for d := k.min; d <= k.max; d++ {
		k.par[d] = *k.prov[d].GetRLWEParameters()
		k.env[d] = newEnvFor(c, k.par[d], k.sk[d])
	}
	if !c.Try("C04|RingPackingEvaluationKey.GenExtractEvaluationKeys", func() {
		for d := k.min; d <= k.max; d++ {
			k.rpk.GenExtractEvaluationKeys(k.prov[d], k.sk[d], k.evp)
		}
	}) {
		return
	}
	if !c.Try("C04|RingPackingEvaluationKey.GenRepackEvaluationKeys", func() {
		for d := k.min; d <= k.max; d++ {
			k.rpk.GenRepackEvaluationKeys(k.prov[d], k.sk[d], k.evp)
		}
	}) {
		return
	}
	if !c.Try("C04|rlwe.NewRingPackingEvaluator", func() { k.ev = rlwe.NewRingPackingEvaluator(k.rpk) }) {
		return
	}
	// an evaluator holding only the ring-switching keys: documented to be enough for the naive variants
	var bare *rlwe.RingPackingEvaluator
	c.Try("C04|rlwe.NewRingPackingEvaluator", func() {
		bare = rlwe.NewRingPackingEvaluator(&rlwe.RingPackingEvaluationKey{Parameters: k.rpk.Parameters, RingSwitchingKeys: k.rpk.RingSwitchingKeys})
	})

	// ---- Split / Merge
	if pc.Single {
		k.splitMergeUnsupported()
	} else {
		for d := k.max; d > k.min; d-- {
			k.doSplit(d)
		}
		for d := k.min; d < k.max; d++ {
			k.doMerge(d)
		}
	}
	// ---- Expand / Pack on one or two of the rings
	k.doExpand(k.min + k.rnd.N(k.max-k.min+1))
	k.doExpand(k.min)
	for i := 0; i < 3; i++ {
		k.doPack(k.min+k.rnd.N(k.max-k.min+1), i)
	}
	k.doPackAdvertised(k.min + k.rnd.N(k.max-k.min+1))
	// ---- Extract / Repack, alone and composed as the documentation prescribes
	for _, naive := range []bool{false, true} {
		dct := k.max
		if k.rnd.N(3) == 0 {
			dct = k.min + k.rnd.N(k.max-k.min+1)
		}
		ev := k.ev
		if naive && bare != nil && k.rnd.Bool() {
			ev = bare
		}
		outs, wants, bound, level := k.doExtract(ev, dct, naive, idxFamily(k.rnd, 1<<dct))
		if outs != nil && dct == k.max {
			// permute and repack with the other flavour (Extract -> RepackNaive, ExtractNaive -> Repack)
			N := 1 << k.max
			in, msgs := map[int]*rlwe.Ciphertext{}, map[int]ring.Poly{}
			for i, ct := range outs {
				j := (i + N/2) & (N - 1)
				in[j], msgs[j] = ct, wants[i]
			}
			ev2 := k.ev
			if !naive && bare != nil && k.rnd.Bool() {
				ev2 = bare
			}
			k.doRepack(ev2, k.min, !naive, in, msgs, bound, level, "composed")
		}
	}
	for _, naive := range []bool{false, true} {
		din := k.min
		if k.rnd.N(3) == 0 {
			din = k.min + k.rnd.N(k.max-k.min+1)
		}
		level := k.level()
		in, msgs := map[int]*rlwe.Ciphertext{}, map[int]ring.Poly{}
		for _, i := range idxFamily(k.rnd, 1<<k.max) {
			in[i], msgs[i] = k.fresh(din, level, true)
		}
		ev := k.ev
		if naive && bare != nil && k.rnd.Bool() {
			ev = bare
		}
		k.doRepack(ev, din, naive, in, msgs, k.env[din].B, level, "fresh")
	}
}

// idxFamily draws an index set in [0, N): dense, random half, odd or power-of-two strides, small
// sets, shifted progressions and the example of the documentation ({0, 1, 4}).
func idxFamily(rnd *eng.Rand, N int) []int {
	set := map[int]bool{}
	logN := 0
	for 1<<logN < N {
		logN++
	}
	switch rnd.N(8) {
	case 0:
		for i := 0; i < N; i++ {
			set[i] = true
		}
	case 1, 2:
		for _, i := range rnd.Perm(N)[:N/2] {
			set[i] = true
		}
	case 3:
		s := eng.Pick(rnd, 3, 5, 7, 17)
		for i := 0; i < N; i += s {
			set[i] = true
		}
	case 4:
		s := 1 << (1 + rnd.N(logN-1))
		for i := 0; i < N; i += s {
			set[i] = true
		}
	case 5:
		for i, n := 0, 1+rnd.N(4); i < n; i++ {
			set[rnd.N(N)] = true
		}
	case 6:
		s := 1 << (1 + rnd.N(logN-1))
		off := 1 + rnd.N(s-1)
		for i := off; i < N; i += s {
			set[i] = true
		}
	default:
		set[0], set[1], set[4] = true, true, true
	}
	ks := make([]int, 0, len(set))
	for i := range set {
		ks = append(ks, i)
	}
	sort.Ints(ks)
	return ks
}

func (k *pk) splitMergeUnsupported() {
	c := k.c
	ct, _ := k.fresh(k.max, k.lq, true)
	var e1, e2 error
	if c.Try("C04|RingPackingEvaluator.SplitNew|single-ring", func() { _, _, e1 = k.ev.SplitNew(ct) }) {
		c.Check(e1 != nil, "C04|RingPackingEvaluator.SplitNew|single-ring-not-refused", nil)
	}
	if c.Try("C04|RingPackingEvaluator.MergeNew|single-ring", func() { _, e2 = k.ev.MergeNew(ct, nil) }) {
		c.Check(e2 != nil, "C04|RingPackingEvaluator.MergeNew|single-ring-not-refused", nil)
	}
}

func (k *pk) doSplit(d int) {
	c := k.c
	level := k.level()
	ct, msg := k.fresh(d, level, true)
	useNew := k.rnd.Bool()
	withOdd := useNew || k.rnd.N(4) != 0
	name := "RingPackingEvaluator.Split"
	if useNew {
		name = "RingPackingEvaluator.SplitNew"
	}
	var even, odd *rlwe.Ciphertext
	var err error
	if !c.Try("C04|"+name, func() {
		if useNew {
			even, odd, err = k.ev.SplitNew(ct)
		} else {
			even = rlwe.NewCiphertext(k.prov[d-1], 1, level)
			if withOdd {
				odd = rlwe.NewCiphertext(k.prov[d-1], 1, level)
			}
			err = k.ev.Split(ct, even, odd)
		}
	}) {
		return
	}
	ds := k.desc(name, level, fmt.Sprintf("degree 2^%d -> 2^%d", d, d-1))
	if err != nil {
		c.Violate("C04|"+name+"|error-on-admissible", err.Error()+" "+ds(), k.pc)
		return
	}
	h := 1 << (d - 1)
	rq := k.par[d-1].RingQ().AtLevel(level)
	bound := k.env[d].B + k.ksSwitch(d, level)
	for par, o := range []*rlwe.Ciphertext{even, odd} {
		if o == nil {
			continue
		}
		if !c.Check(o.Level() == level && o.Degree() == 1 && o.LogN() == d-1 && o.Scale.Cmp(ct.Scale) == 0, "C04|"+name+"|metadata", ds) {
			continue
		}
		want := rq.NewPoly()
		for i := 0; i <= level; i++ {
			for j := 0; j < h; j++ {
				want.Coeffs[i][j] = msg.Coeffs[i][2*j+par]
			}
		}
		judgeAt(c, k.par[d-1], "C04|"+name+"|noise-above-worst-case-bound", o.El(), k.sk[d-1], want, nil, bound, fmt.Sprintf("split/%s/%d/%d/%d", k.kp, d, level, par), ds)
	}
}

func (k *pk) doMerge(d int) {
	c := k.c
	level := k.level()
	even, me := k.fresh(d, level, true)
	var odd *rlwe.Ciphertext
	var mo ring.Poly
	if k.rnd.N(4) != 0 {
		odd, mo = k.fresh(d, level, true)
	}
	useNew := k.rnd.Bool()
	name := "RingPackingEvaluator.Merge"
	if useNew {
		name = "RingPackingEvaluator.MergeNew"
	}
	var out *rlwe.Ciphertext
	var err error
	if !c.Try("C04|"+name, func() {
		if useNew {
			out, err = k.ev.MergeNew(even, odd)
		} else {
			out = rlwe.NewCiphertext(k.prov[d+1], 1, level)
			err = k.ev.Merge(even, odd, out)
		}
	}) {
		return
	}
	ds := k.desc(name, level, fmt.Sprintf("degree 2^%d -> 2^%d odd=%v", d, d+1, odd != nil))
	if err != nil {
		c.Violate("C04|"+name+"|error-on-admissible", err.Error()+" "+ds(), k.pc)
		return
	}
	if !c.Check(out != nil && out.Level() == level && out.Degree() == 1 && out.LogN() == d+1 && out.Scale.Cmp(even.Scale) == 0, "C04|"+name+"|metadata", ds) {
		return
	}
	rq := k.par[d+1].RingQ().AtLevel(level)
	want := rq.NewPoly()
	for i := 0; i <= level; i++ {
		for j := 0; j < 1<<d; j++ {
			want.Coeffs[i][2*j] = me.Coeffs[i][j]
			if odd != nil {
				want.Coeffs[i][2*j+1] = mo.Coeffs[i][j]
			}
		}
	}
	bound := k.env[d].B + k.ksSwitch(d+1, level)
	judgeAt(c, k.par[d+1], "C04|"+name+"|noise-above-worst-case-bound", out.El(), k.sk[d+1], want, nil, bound, fmt.Sprintf("merge/%s/%d/%d/%v", k.kp, d, level, odd != nil), ds)
}

// pickSome returns at most max elements of keys (all of them when there are fewer), always
// including the first and the last one.
func pickSome(rnd *eng.Rand, keys []int, max int) []int {
	if len(keys) <= max {
		return keys
	}
	out := []int{keys[0], keys[len(keys)-1]}
	for _, i := range rnd.Perm(len(keys) - 2)[:max-2] {
		out = append(out, keys[1+i])
	}
	sort.Ints(out)
	return out
}

func (k *pk) doExpand(d int) {
	c := k.c
	level := k.level()
	isNTT := k.rnd.N(3) != 0
	logGap := eng.Pick(k.rnd, 0, 0, 1, 2, k.rnd.N(d+1))
	ct, msg := k.fresh(d, level, isNTT)
	var cts map[int]*rlwe.Ciphertext
	var err error
	name := "RingPackingEvaluator.Expand"
	if !c.Try("C04|"+name, func() { cts, err = k.ev.Expand(ct, logGap) }) {
		return
	}
	ds := k.desc(name, level, fmt.Sprintf("degree 2^%d logGap=%d isNTT=%v", d, logGap, isNTT))
	if err != nil {
		c.Violate("C04|"+name+"|error-on-admissible", err.Error()+" "+ds(), k.pc)
		return
	}
	N := 1 << d
	var keys []int
	for j := 0; j < N; j += 1 << logGap {
		keys = append(keys, j)
	}
	okSet := len(cts) == len(keys)
	for _, j := range keys {
		if cts[j] == nil {
			okSet = false
		}
	}
	if !c.Check(okSet, "C04|"+name+"|output-index-set", ds) {
		return
	}
	rq := k.par[d].RingQ().AtLevel(level)
	bound := k.env[d].B + float64(N-1)*k.ksAuto(d, level)
	for _, j := range pickSome(k.rnd, keys, k.maxJudge) {
		o := cts[j]
		if !c.Check(o.Level() == level && o.Degree() == 1 && o.LogN() == d, "C04|"+name+"|metadata", ds) {
			continue
		}
		want := rq.NewPoly()
		for i := 0; i <= level; i++ {
			want.Coeffs[i][0] = msg.Coeffs[i][j]
		}
		judgeAt(c, k.par[d], "C04|"+name+"|noise-above-worst-case-bound", o.El(), k.sk[d], want, nil, bound, fmt.Sprintf("expand/%s/%d/%d/%d/%v", k.kp, d, level, logGap, isNTT), ds)
	}
}

// packInputs encrypts one uniform message per key in the ring of degree 2^d.
func (k *pk) packInputs(d, level int, keys []int) (map[int]*rlwe.Ciphertext, map[int]ring.Poly) {
	in, msgs := map[int]*rlwe.Ciphertext{}, map[int]ring.Poly{}
	for _, j := range keys {
		in[j], msgs[j] = k.fresh(d, level, k.rnd.N(4) != 0)
	}
	return in, msgs
}

func (k *pk) packWant(d, g, level int, keys []int, msgs map[int]ring.Poly) ring.Poly {
	rq := k.par[d].RingQ().AtLevel(level)
	want := rq.NewPoly()
	N := 1 << d
	for _, j := range keys {
		for i := 0; i <= level; i++ {
			for p := 0; p < N; p += 1 << g {
				want.Coeffs[i][j+p] = msgs[j].Coeffs[i][p]
			}
		}
	}
	return want
}

func (k *pk) doPack(d int, variant int) {
	c := k.c
	level := k.level()
	g := d
	if variant > 0 {
		g = 1 + k.rnd.N(d)
	}
	G := 1 << g
	// keys in [0, 2^g)
	var keys []int
	switch k.rnd.N(4) {
	case 0:
		for j := 0; j < G; j++ {
			keys = append(keys, j)
		}
	case 1:
		s := eng.Pick(k.rnd, 2, 3, 4, 6, 8)
		for j := 0; j < G; j += s {
			keys = append(keys, j)
		}
	default:
		n := 1 + k.rnd.N(G)
		keys = append(keys, k.rnd.Perm(G)[:n]...)
		sort.Ints(keys)
	}
	zero := k.rnd.N(3) != 0
	v := minGapValuation(keys)
	if !zero {
		// zeroGarbageSlots=false: the code keeps only the positions divisible by 2^v and discards the
		// ciphertexts whose index is not (documented in getMinimumGap): stay inside that domain
		if len(keys) < 2 || v >= g {
			zero = true
		}
		for _, j := range keys {
			if j%(1<<v) != 0 {
				zero = true
			}
		}
	}
	in, msgs := k.packInputs(d, level, keys)
	name := "RingPackingEvaluator.Pack"
	var out *rlwe.Ciphertext
	var err error
	if !c.Try("C04|"+name, func() { out, err = k.ev.Pack(in, g, zero) }) {
		return
	}
	ds := k.desc(name, level, fmt.Sprintf("degree 2^%d inputLogGap=%d zeroGarbageSlots=%v keys=%v", d, g, zero, keys))
	if err != nil {
		c.Violate("C04|"+name+"|error-on-admissible", err.Error()+" "+ds(), k.pc)
		return
	}
	if !c.Check(out != nil && out.Level() == level && out.Degree() == 1 && out.LogN() == d, "C04|"+name+"|metadata", ds) {
		return
	}
	steps := g
	var mask []bool
	if !zero {
		steps = g - v
		mask = make([]bool, 1<<d)
		for p := range mask {
			mask[p] = p%(1<<v) == 0
		}
	}
	bound := k.env[d].B + float64(int(1)<<steps-1)*k.ksAuto(d, level)
	judgeAt(c, k.par[d], "C04|"+name+"|noise-above-worst-case-bound", out.El(), k.sk[d], k.packWant(d, g, level, keys, msgs), mask, bound,
		fmt.Sprintf("pack/%s/%d/%d/%d/%v/%d", k.kp, d, level, g, zero, len(keys)), ds)
}

// doPackAdvertised runs Pack(inputLogGap=g) with an evaluator whose Galois keys are exactly
// GaloisElementsForPack(params, g): a missing key is a violation.
func (k *pk) doPackAdvertised(d int) {
	c := k.c
	level := k.level()
	g := 1 + k.rnd.N(d)
	G := 1 << g
	n := 1 + k.rnd.N(G)
	keys := append([]int{}, k.rnd.Perm(G)[:n]...)
	sort.Ints(keys)
	var ev *rlwe.RingPackingEvaluator
	if !c.Try("C04|rlwe.GaloisElementsForPack", func() {
		gks := rlwe.NewKeyGenerator(k.par[d]).GenGaloisKeysNew(rlwe.GaloisElementsForPack(k.prov[d], g), k.sk[d], k.evp)
		ev = rlwe.NewRingPackingEvaluator(&rlwe.RingPackingEvaluationKey{Parameters: k.rpk.Parameters, RingSwitchingKeys: k.rpk.RingSwitchingKeys,
			RepackKeys: map[int]rlwe.EvaluationKeySet{d: rlwe.NewMemEvaluationKeySet(nil, gks...)}})
	}) {
		return
	}
	in, msgs := k.packInputs(d, level, keys)
	var out *rlwe.Ciphertext
	var err error
	if !c.Try("C04|RingPackingEvaluator.Pack", func() { out, err = ev.Pack(in, g, true) }) {
		return
	}
	ds := k.desc("Pack with exactly GaloisElementsForPack(params, inputLogGap)", level, fmt.Sprintf("degree 2^%d inputLogGap=%d keys=%v", d, g, keys))
	c.Count("pack_with_advertised_galois_elements", 1)
	if err != nil {
		pred := "inputLogGap>=logN-1"
		if g < d-1 {
			pred = "inputLogGap<logN-1"
		}
		c.Eval(1)
		c.Violate("C04|rlwe.GaloisElementsForPack|missing-key-with-advertised-elements|"+pred, err.Error()+" "+ds(), k.pc)
		return
	}
	if !c.Check(out != nil && out.Level() == level && out.LogN() == d, "C04|RingPackingEvaluator.Pack|metadata", ds) {
		return
	}
	bound := k.env[d].B + float64(int(1)<<g-1)*k.ksAuto(d, level)
	judgeAt(c, k.par[d], "C04|RingPackingEvaluator.Pack|noise-above-worst-case-bound", out.El(), k.sk[d], k.packWant(d, g, level, keys, msgs), nil, bound,
		fmt.Sprintf("packadv/%s/%d/%d/%d/%d", k.kp, d, level, g, len(keys)), ds)
}

// doExtract returns the outputs, their exact expected plaintexts and their noise bound (nil when the call failed).
func (k *pk) doExtract(ev *rlwe.RingPackingEvaluator, dct int, naive bool, keys []int) (map[int]*rlwe.Ciphertext, map[int]ring.Poly, float64, int) {
	c := k.c
	level := k.level()
	ct, msg := k.fresh(dct, level, true)
	name := "RingPackingEvaluator.Extract"
	if naive {
		name = "RingPackingEvaluator.ExtractNaive"
	}
	idx := map[int]bool{}
	for _, i := range keys {
		idx[i] = true
	}
	logF := dct - k.min
	F := 1 << logF
	// Extract expands every bucket with logGap = max(0, v - logF), v = valuation of the smallest index gap
	misaligned := false
	if !naive {
		fin := minGapValuation(keys) - logF
		if fin > 0 {
			for _, i := range keys {
				if (i>>logF)%(1<<fin) != 0 {
					misaligned = true
				}
			}
		}
	}
	var cts map[int]*rlwe.Ciphertext
	var err error
	if !c.Try("C04|"+name, func() {
		if naive {
			cts, err = ev.ExtractNaive(ct, idx)
		} else {
			cts, err = ev.Extract(ct, idx)
		}
	}) {
		return nil, nil, 0, 0
	}
	short := keys
	if len(short) > 12 {
		short = short[:12]
	}
	ds := k.desc(name, level, fmt.Sprintf("ct degree 2^%d #idx=%d idx[:12]=%v bareEvaluator=%v", dct, len(keys), short, ev != k.ev))
	c.Count("extract_calls", 1)
	if err != nil {
		c.Eval(1)
		if misaligned {
			c.Violate("C04|RingPackingEvaluator.Extract|error-on-admissible|index-not-multiple-of-min-gap", err.Error()+" "+ds(), k.pc)
		} else {
			c.Violate("C04|"+name+"|error-on-admissible", err.Error()+" "+ds(), k.pc)
		}
		return nil, nil, 0, 0
	}
	okSet := len(cts) == len(keys)
	for _, i := range keys {
		if cts[i] == nil {
			okSet = false
		}
	}
	if !c.Check(okSet, "C04|"+name+"|output-index-set", ds) {
		return nil, nil, 0, 0
	}
	n := 1 << k.min
	rq := k.par[k.min].RingQ().AtLevel(level)
	bound := k.env[dct].B
	for d := k.min + 1; d <= dct; d++ {
		bound += k.ksSwitch(d, level)
	}
	if !naive {
		bound += float64(n-1) * k.ksAuto(k.min, level)
	}
	wants := map[int]ring.Poly{}
	for _, i := range keys {
		want := rq.NewPoly()
		b, j := i&(F-1), i>>logF
		for r := 0; r <= level; r++ {
			q := rq.SubRings[r].Modulus
			if !naive {
				want.Coeffs[r][0] = msg.Coeffs[r][i]
				continue
			}
			for t := 0; t < n; t++ { // X^{-j} * t_b
				x := msg.Coeffs[r][b+((j+t)%n)*F]
				if j+t >= n {
					x = ref.NegMod(x, q)
				}
				want.Coeffs[r][t] = x
			}
		}
		wants[i] = want
	}
	for _, i := range pickSome(k.rnd, keys, k.maxJudge) {
		o := cts[i]
		if !c.Check(o.Level() == level && o.Degree() == 1 && o.LogN() == k.min, "C04|"+name+"|metadata", ds) {
			return nil, nil, 0, 0
		}
		judgeAt(c, k.par[k.min], "C04|"+name+"|noise-above-worst-case-bound", o.El(), k.sk[k.min], wants[i], nil, bound,
			fmt.Sprintf("extract/%s/%d/%d/%v/%d", k.kp, dct, level, naive, len(keys)), ds)
	}
	return cts, wants, bound, level
}

// doRepack: in[i] are ciphertexts of degree 2^din under sk[din] with exact plaintexts msgs[i] and noise <= bin.
func (k *pk) doRepack(ev *rlwe.RingPackingEvaluator, din int, naive bool, in map[int]*rlwe.Ciphertext, msgs map[int]ring.Poly, bin float64, level int, tag string) {
	c := k.c
	keys := sortedKeys(in)
	if len(keys) == 0 {
		return
	}
	name := "RingPackingEvaluator.Repack"
	if naive {
		name = "RingPackingEvaluator.RepackNaive"
	}
	logF := k.max - din
	F := 1 << logF
	n := 1 << din
	perClass := make([]int, F)
	for _, i := range keys {
		perClass[i&(F-1)]++
	}
	sparse, maxCnt := false, 0
	for _, x := range perClass {
		if x == 0 {
			sparse = true
		}
		if x > maxCnt {
			maxCnt = x
		}
	}
	// the shared merge tree of Repack/RepackNaive mishandles empty residue classes modulo N/n
	// (known finding): those cases get their own signature
	sigErr, sigBad := "C04|"+name+"|error-on-admissible", "C04|"+name+"|noise-above-worst-case-bound"
	if sparse {
		sigErr, sigBad = "C04|RingPackingEvaluator.Repack|empty-residue-class|error", "C04|RingPackingEvaluator.Repack|empty-residue-class|wrong-plaintext"
	}
	var out *rlwe.Ciphertext
	var err error
	if !c.Try("C04|"+name, func() {
		if naive {
			out, err = ev.RepackNaive(in)
		} else {
			out, err = ev.Repack(in)
		}
	}) {
		return
	}
	short := keys
	if len(short) > 12 {
		short = short[:12]
	}
	ds := k.desc(name, level, fmt.Sprintf("%s inputs of degree 2^%d #keys=%d keys[:12]=%v emptyClass=%v bareEvaluator=%v", tag, din, len(keys), short, sparse, ev != k.ev))
	c.Count("repack_calls", 1)
	if sparse {
		c.Count("repack_calls_with_empty_residue_class", 1)
	}
	if err != nil {
		c.Eval(1)
		c.Violate(sigErr, err.Error()+" "+ds(), k.pc)
		return
	}
	if out == nil {
		c.Eval(1)
		c.Violate(sigBad, "nil ciphertext without error "+ds(), k.pc)
		return
	}
	if !c.Check(out.Level() == level && out.Degree() == 1 && out.LogN() == k.max, "C04|"+name+"|metadata", ds) {
		return
	}
	rq := k.par[k.max].RingQ().AtLevel(level)
	want := rq.NewPoly()
	for _, i := range keys {
		cl, j := i&(F-1), i>>logF
		for r := 0; r <= level; r++ {
			q := rq.SubRings[r].Modulus
			if !naive {
				want.Coeffs[r][i] = msgs[i].Coeffs[r][0]
				continue
			}
			for t := 0; t < n; t++ { // P_cl += X^j * in_i
				x := msgs[i].Coeffs[r][t]
				pos := j + t
				if pos >= n {
					pos -= n
					x = ref.NegMod(x, q)
				}
				want.Coeffs[r][cl+pos*F] = ref.AddMod(want.Coeffs[r][cl+pos*F], x, q)
			}
		}
	}
	var bound float64
	if naive {
		bound = float64(maxCnt) * bin
	} else {
		bound = bin + float64(n-1)*k.ksAuto(din, level)
	}
	for d := din + 1; d <= k.max; d++ {
		bound += k.ksSwitch(d, level)
	}
	judgeAt(c, k.par[k.max], sigBad, out.El(), k.sk[k.max], want, nil, bound, fmt.Sprintf("repack/%s/%s/%d/%d/%v/%d/%v", k.kp, tag, din, level, naive, len(keys), sparse), ds)
}
