package c04

// packsc/: RingPackingEvaluator.ShallowCopy ("the receiver and the returned evaluators can be used
// concurrently": it owns its buffers and shares the read-only data). Ring packing draws no
// randomness, so the copy, its parent and a brand-new evaluator must return bit-identical results on
// identical inputs, in any interleaving; the phase-judged workload of packing.go is then run
// through the copy (with Repack inputs outside the NTT domain, which Pack documents to accept).

import (
	"fmt"

	"github.com/tuneinsight/lattigo/v6/core/rlwe"
	"github.com/tuneinsight/lattigo/v6/ring"

	"verif/harness/eng"
)

func packscCases(tier string, seed int64) []eng.Case {
	r := eng.NewRand("c04-packsc-cases", seed)
	n := 16
	if tier == "thorough" {
		n = 160
	}
	var out []eng.Case
	for i := 0; i < n; i++ {
		pc := pkCfg{cfg: cfg{Ring: "std", Xs: eng.Pick(r, "p0.5", "h8", "gauss"), LogN: eng.Pick(r, 5, 6, 6, 7)}}
		pc.MinLogN = pc.LogN - 1 - r.N(2)
		if pc.MinLogN < 4 {
			pc.MinLogN = 4
		}
		nq := 1 + r.N(4)
		np := r.N(3)
		for j := 0; j < nq; j++ {
			pc.QBits = append(pc.QBits, pickInt(r, []int{36, 45, 55, 60, 61}))
		}
		for j := 0; j < np; j++ {
			pc.PBits = append(pc.PBits, pickInt(r, []int{45, 55, 61}))
		}
		if !fillChain(r, &pc.cfg) {
			continue
		}
		pc.LQ, pc.LP = nq-1, np-1
		if r.N(3) == 0 {
			pc.LQ = r.N(nq)
		}
		if np > 0 && r.N(3) == 0 {
			pc.LP = r.N(np+1) - 1
		}
		if pc.LP < 0 || (pc.LP == 0 && r.N(3) == 0) {
			pc.W = 3 + r.N(14)
		}
		cc := pc
		id := fmt.Sprintf("packsc/%d/logN%d-%d/q%v/p%v/%s/k%d.%d.%d", i, pc.MinLogN, pc.LogN, pc.QBits, pc.PBits, pc.Xs, pc.LQ, pc.LP, pc.W)
		out = append(out, eng.Case{ID: id, Sig: "C04|RingPackingEvaluator.ShallowCopy", Desc: cc, Run: func(x *eng.Ctx) { runPackSC(x, cc) }})
	}
	return out
}

// newPK prepares the keys of all ring degrees MinLogN..LogN (multi-ring instantiation).
func newPK(c *eng.Ctx, pc pkCfg) *pk {
	params, err := pc.cfg.params()
	if err != nil {
		c.Violate("C04|rlwe.NewParametersFromLiteral|error-on-admissible", err.Error(), pc)
		return nil
	}
	k := &pk{c: c, rnd: c.Rand(), pc: pc, min: pc.MinLogN, max: pc.LogN, lq: pc.LQ, lp: pc.LP, w: pc.W, maxJudge: 8}
	k.evp = rlwe.EvaluationKeyParameters{LevelQ: &k.lq, LevelP: &k.lp, BaseTwoDecomposition: &k.w}
	k.kp = fmt.Sprintf("sc/%d-%d/%v/%v/%s/%d/%d/%d", k.min, k.max, pc.QBits, pc.PBits, pc.Xs, k.lq, k.lp, k.w)
	sk := rlwe.NewKeyGenerator(params).GenSecretKeyNew()
	k.rpk = &rlwe.RingPackingEvaluationKey{}
	var gerr error
	if !c.Try("C04|RingPackingEvaluationKey.GenRingSwitchingKeys", func() { k.sk, gerr = k.rpk.GenRingSwitchingKeys(params, sk, k.min, k.evp) }) {
		return nil
	}
	if gerr != nil {
		c.Violate("C04|RingPackingEvaluationKey.GenRingSwitchingKeys|error-on-admissible", gerr.Error(), pc)
		return nil
	}
	k.prov = k.rpk.Parameters
	k.par = map[int]rlwe.Parameters{}
	k.env = map[int]*env{}
	for d := k.min; d <= k.max; d++ {
		if k.prov[d] == nil || k.sk[d] == nil {
			c.Violate("C04|RingPackingEvaluationKey.GenRingSwitchingKeys|incomplete-key-set", fmt.Sprintf("degree 2^%d missing", d), pc)
			return nil
		}
		k.par[d] = *k.prov[d].GetRLWEParameters()
		k.env[d] = newEnvFor(c, k.par[d], k.sk[d])
	}
	if !c.Try("C04|RingPackingEvaluationKey.GenExtractEvaluationKeys", func() {
		for d := k.min; d <= k.max; d++ {
			k.rpk.GenExtractEvaluationKeys(k.prov[d], k.sk[d], k.evp)
			k.rpk.GenRepackEvaluationKeys(k.prov[d], k.sk[d], k.evp)
		}
	}) {
		return nil
	}
	return k
}

func copyMap(m map[int]*rlwe.Ciphertext) map[int]*rlwe.Ciphertext {
	out := map[int]*rlwe.Ciphertext{}
	for i, ct := range m {
		out[i] = ct.CopyNew()
	}
	return out
}

func sameMap(a, b map[int]*rlwe.Ciphertext) bool {
	if len(a) != len(b) {
		return false
	}
	for i, x := range a {
		y, ok := b[i]
		if !ok {
			return false
		}
		if !ctSame(x, y) {
			return false
		}
	}
	return true
}

func runPackSC(c *eng.Ctx, pc pkCfg) {
	k := newPK(c, pc)
	if k == nil {
		return
	}
	c.Sample(map[string]any{"kind": "ring-packing-shallowcopy", "cfg": pc})
	var parent, sc *rlwe.RingPackingEvaluator
	if !c.Try("C04|RingPackingEvaluator.ShallowCopy", func() {
		parent = rlwe.NewRingPackingEvaluator(k.rpk)
		sc = parent.ShallowCopy()
	}) {
		return
	}
	type opf func(ev *rlwe.RingPackingEvaluator) (map[int]*rlwe.Ciphertext, error)
	diff := func(op string, f opf) {
		var ref, a, b, a2 map[int]*rlwe.Ciphertext
		var e0, e1, e2, e3 error
		if !c.Try("C04|RingPackingEvaluator.ShallowCopy|"+op, func() {
			ref, e0 = f(rlwe.NewRingPackingEvaluator(k.rpk))
			a, e1 = f(sc)
			b, e2 = f(parent)
			a2, e3 = f(sc)
		}) {
			return
		}
		c.Count("shallowcopy_differentials", 1)
		c.Distinct("packsc/"+op+"/"+k.kp, true)
		if e0 != nil {
			// the operation itself is judged by packing.go; here only that all evaluators agree
			c.Check(e1 != nil && e2 != nil && e3 != nil, "C04|RingPackingEvaluator.ShallowCopy|error-only-on-fresh-evaluator|"+op, func() string { return e0.Error() })
			return
		}
		if e1 != nil || e3 != nil {
			err := e1
			if err == nil {
				err = e3
			}
			c.Eval(1)
			c.Violate("C04|RingPackingEvaluator.ShallowCopy|error-on-admissible|"+op, err.Error(), pc)
			return
		}
		if e2 != nil {
			c.Eval(1)
			c.Violate("C04|RingPackingEvaluator.ShallowCopy|parent-fails-after-copy|"+op, e2.Error(), pc)
			return
		}
		c.Check(sameMap(ref, a) && sameMap(ref, a2), "C04|RingPackingEvaluator.ShallowCopy|result-differs-from-fresh-evaluator|"+op, nil)
		c.Check(sameMap(ref, b), "C04|RingPackingEvaluator.ShallowCopy|parent-result-differs-from-fresh-evaluator|"+op, nil)
	}
	one := func(ct *rlwe.Ciphertext, err error) (map[int]*rlwe.Ciphertext, error) {
		return map[int]*rlwe.Ciphertext{0: ct}, err
	}
	level := k.level()
	if k.max > k.min {
		d := k.min + 1 + k.rnd.N(k.max-k.min)
		ct, _ := k.fresh(d, level, true)
		diff("SplitNew", func(ev *rlwe.RingPackingEvaluator) (map[int]*rlwe.Ciphertext, error) {
			ev0, od, err := ev.SplitNew(ct.CopyNew())
			return map[int]*rlwe.Ciphertext{0: ev0, 1: od}, err
		})
		a, _ := k.fresh(d-1, level, true)
		b, _ := k.fresh(d-1, level, true)
		diff("MergeNew", func(ev *rlwe.RingPackingEvaluator) (map[int]*rlwe.Ciphertext, error) {
			return one(ev.MergeNew(a.CopyNew(), b.CopyNew()))
		})
	}
	{
		d := k.min + k.rnd.N(k.max-k.min+1)
		ct, _ := k.fresh(d, level, k.rnd.Bool())
		lg := k.rnd.N(3)
		diff("Expand", func(ev *rlwe.RingPackingEvaluator) (map[int]*rlwe.Ciphertext, error) {
			return ev.Expand(ct.CopyNew(), lg)
		})
		g := 1 + k.rnd.N(d)
		keys := k.rnd.Perm(1 << g)[:1+k.rnd.N(1<<g)]
		in, _ := k.packInputs(d, level, keys)
		diff("Pack", func(ev *rlwe.RingPackingEvaluator) (map[int]*rlwe.Ciphertext, error) {
			return one(ev.Pack(copyMap(in), g, true))
		})
	}
	{
		ct, _ := k.fresh(k.max, level, true)
		idx := map[int]bool{}
		for _, i := range idxFamily(k.rnd, 1<<k.max) {
			idx[i] = true
		}
		diff("Extract", func(ev *rlwe.RingPackingEvaluator) (map[int]*rlwe.Ciphertext, error) {
			return ev.Extract(ct.CopyNew(), idx)
		})
		diff("ExtractNaive", func(ev *rlwe.RingPackingEvaluator) (map[int]*rlwe.Ciphertext, error) {
			return ev.ExtractNaive(ct.CopyNew(), idx)
		})
		in := map[int]*rlwe.Ciphertext{}
		for _, i := range idxFamily(k.rnd, 1<<k.max) {
			in[i], _ = k.fresh(k.min, level, true)
		}
		diff("Repack", func(ev *rlwe.RingPackingEvaluator) (map[int]*rlwe.Ciphertext, error) {
			return one(ev.Repack(copyMap(in)))
		})
		diff("RepackNaive", func(ev *rlwe.RingPackingEvaluator) (map[int]*rlwe.Ciphertext, error) {
			return one(ev.RepackNaive(copyMap(in)))
		})
	}

	// ---- the phase-judged workload through the copy, the parent being used in between
	k.ev = sc
	touchParent := func() {
		ct, _ := k.fresh(k.min, k.lq, true)
		_, _ = parent.Expand(ct, 0)
	}
	for d := k.max; d > k.min; d-- {
		k.doSplit(d)
		touchParent()
	}
	for d := k.min; d < k.max; d++ {
		k.doMerge(d)
	}
	touchParent()
	k.doExpand(k.min + k.rnd.N(k.max-k.min+1))
	k.doPack(k.min+k.rnd.N(k.max-k.min+1), 1)
	touchParent()
	k.doExtract(sc, k.max, false, idxFamily(k.rnd, 1<<k.max))
	k.doExtract(sc, k.max, true, idxFamily(k.rnd, 1<<k.max))
	// Repack (not naive) with inputs outside the NTT domain: Pack converts them
	{
		din := k.min + k.rnd.N(k.max-k.min+1)
		lv := k.level()
		in, msgs := map[int]*rlwe.Ciphertext{}, map[int]ring.Poly{}
		for _, i := range idxFamily(k.rnd, 1<<k.max) {
			in[i], msgs[i] = k.fresh(din, lv, k.rnd.N(3) == 0)
		}
		c.Count("repack_with_non_ntt_inputs", 1)
		k.doRepack(sc, din, false, in, msgs, k.env[din].B, lv, "shallowcopy-mixed-ntt")
	}
}
