// Package c15: t-out-of-N threshold access structure (multiparty.Thresholdizer / Combiner).
//
// Oracle: the harness plays all N parties and holds every secret. Every object the library
// produces during the setup (Shamir polynomials, Shamir shares, aggregated shares) and during the
// combination (additive shares) is compared, residue by residue, with an exact model computed with
// 128-bit products and hardware division (ref.MulMod / AddMod / InvMod): Horner evaluation of the
// Shamir polynomial at the public point, modular sums, Lagrange coefficients at 0. The sum of the t
// additive shares must equal the sum of the N original secrets for every subset of t parties and
// every listing order; a request with fewer than t parties must return an error. A protocol run
// (collective public key generation, collective decryption) by t parties alone is judged with the
// ideal secret and a worst-case noise bound.
package c15

import (
	"fmt"

	"github.com/tuneinsight/lattigo/v6/core/rlwe"
	"github.com/tuneinsight/lattigo/v6/ring"

	"verif/harness/eng"
	"verif/harness/gen"
)

type cfg struct {
	LogN   int      `json:"logN"`
	Q      []uint64 `json:"q"`
	P      []uint64 `json:"p"`
	QBits  []int    `json:"qbits"`
	PBits  []int    `json:"pbits"`
	Ring   string   `json:"ring"`
	Xs     string   `json:"xs"`
	N      int      `json:"parties"`
	T      int      `json:"threshold"`
	Points string   `json:"points"`
	SK     string   `json:"sk"`
	Proto  int      `json:"proto"`         // number of protocol-level runs (CKG + collective decryption)
	Ext    string   `json:"ext,omitempty"` // non-empty: case of the coverage-audit family (ext.go)
}

func (c cfg) params() (rlwe.Parameters, error) {
	rt := ring.Standard
	if c.Ring == "ci" {
		rt = ring.ConjugateInvariant
	}
	var xs ring.DistributionParameters = ring.Ternary{P: 0.5}
	switch c.Xs {
	case "h8":
		xs = ring.Ternary{H: 8}
	case "gauss":
		xs = ring.DiscreteGaussian{Sigma: 3.2, Bound: 19.2}
	}
	return rlwe.NewParametersFromLiteral(rlwe.ParametersLiteral{LogN: c.LogN, Q: c.Q, P: c.P, Xs: xs, RingType: rt, NTTFlag: true})
}

func (c cfg) chain() string {
	return fmt.Sprintf("%s/%d/%v/%v", c.Ring, c.LogN, c.QBits, c.PBits)
}

var pointFamilies = []string{"seq", "small", "u32", "gt32", "near64", "nearq", "pow2", "mixed"}
var skKinds = []string{"dist", "dist", "uniform", "top", "mixed"}

func cases(tier string, seed int64) []eng.Case {
	r := eng.NewRand("c15-cases", seed)
	var out []eng.Case
	variants := 18
	logNs := []int{4, 4, 5, 6, 7}
	if tier == "thorough" {
		variants = 300
		logNs = []int{4, 5, 6, 7, 8, 9, 10}
	}
	for n := 1; n <= 6; n++ {
		for t := 1; t <= n; t++ {
			for v := 0; v < variants; v++ {
				c := cfg{N: n, T: t, Ring: eng.Pick(r, "std", "std", "std", "ci"), Xs: eng.Pick(r, "p0.5", "h8", "gauss")}
				c.LogN = eng.Pick(r, logNs...)
				// the (N,t) pairs with the largest number of orderings get the small rings
				if n == 6 && t >= 5 && c.LogN > 6 {
					c.LogN = 4 + r.N(3)
				}
				// every family appears for every (N,t): the first variants walk the families, the rest are drawn
				if v < len(pointFamilies) {
					c.Points = pointFamilies[v]
				} else {
					c.Points = eng.Pick(r, pointFamilies...)
				}
				c.SK = eng.Pick(r, skKinds...)
				nq := 1 + r.N(4)
				np := r.N(3) // 0 = no auxiliary modulus (RingP == nil)
				for j := 0; j < nq; j++ {
					c.QBits = append(c.QBits, eng.Pick(r, 20, 30, 36, 45, 55, 60, 61))
				}
				for j := 0; j < np; j++ {
					c.PBits = append(c.PBits, eng.Pick(r, 30, 45, 60, 61))
				}
				nth := uint64(2) << c.LogN
				if c.Ring == "ci" {
					nth <<= 1
				}
				c.Q, c.P = gen.Chain(r, nth, c.QBits, c.PBits)
				if c.Q == nil {
					continue
				}
				c.Proto = 2
				if tier == "thorough" {
					c.Proto = 4
				}
				cc := c
				id := fmt.Sprintf("thr/N%d/t%d/%d/%s/%s/%s", n, t, v, c.Points, c.SK, c.chain())
				out = append(out, eng.Case{ID: id, Sig: "C15|threshold", Desc: cc, Run: func(x *eng.Ctx) { run(x, cc) }})
			}
		}
	}
	return append(out, extCases(tier, seed)...)
}

func init() {
	eng.Register(&eng.Monitor{
		ID: "C15", Level: "exploration",
		Rule:  "cases = every (N,t) with 1<=t<=N<=6 x variants (point family in {1..N, small, around 2^32, >2^32, near 2^64, q_i+-k and multiples, powers of two, mixed}; secret kind in {sampled from Xs, uniform in R_QP, all q-1, mixed with zero keys}; rlwe parameters: ring type, logN, 1..4 Q primes of 20..61 bits, 0..2 P primes). Inside a case the real setup is run by N parties (Shamir polynomial, N^2 shares, aggregation of the received shares in every order for N<=5 (N=6: identity, reverse and 60 sampled orders in the quick tier, all 720 in the thorough tier for logN<=7), each in three accumulation shapes), then for EVERY subset of t parties and EVERY listing order each party derives its additive share; every object is compared with the exact model, the sum of the additive shares with the sum of the original secrets, every k<t request must be refused, and t-1 aggregated shares interpolated by the harness must not give the secret. Some (subset, order) pairs additionally run the collective public-key generation and collective decryption with the additive shares. distinct key = (N, t, point family, chain shape, secret kind, subset mask, listing order); non-trivial = t >= 2 (Lagrange coefficients are used) and not the stock-test shape (points 1..N with the first t parties listed in increasing order). Family ext/ (coverage audit): every (N,t) x variants cycling three chain shapes (as above; 8..12 Q primes with 0..4 P primes; a single Q prime with 0..2 P primes) and the point families {x_k=-x_j mod q, consecutive points above 2^40, around q/2, 1..N, near 2^64, q_i+-k, mixed, >2^32}; inside a case the same exact model judges the API used differently: Thresholdizers from a value/pointer/ckks ParameterProvider, two Shamir polynomials per party and epoch (every masking residue row reduced, non-constant and never repeated across calls, parties, epochs), one share receiver re-used for all recipients, shares delivered by copy / MarshalBinary / WriteTo, AggregateShares with all operands aliased, at lower LevelQ/LevelP, and refused (receiver intact) for every level mismatch, five admissible constructions of the Combiner (own point listed or not, duplicates, outsiders, only the other active parties on a fresh Combiner) on all (subset, order) pairs when there are at most 24 and 24 sampled ones otherwise, one call in three writing over the caller's own share, refused requests leaving output and own share intact, t-1 aggregated shares interpolated by the harness judged per residue row, a second sharing epoch with the same Thresholdizers and Combiners, and for one (subset, order) the collective public key, decryption, Galois key and relinearisation key generated by the t parties from their additive shares and by all N parties from their secrets, every key component judged against the ideal secret; distinct key = (ext, N, t, point family, chain shape, secret kind, subset mask, listing order), non-trivial = t >= 2.",
		Cases: cases,
		Assumptions: []string{
			"Shamir public points are distinct and non-zero modulo every prime of Q and P (the sharing is only defined for such points; colliding points are not generated)",
			"the active list handed to GenAdditiveShare has exactly t distinct entries, all known to the Combiner, and contains the caller's own point (the documented 'set of active identities'); lists longer than t, with duplicates or with unknown points are not judged",
			"protocol noise bounds are worst case: t*floor(B_e+1/2) for the collective public key, t*floor(6*sigma_ks+1/2) for the collective key switch on top of the measured encryption noise",
			"collective evaluation keys (default gadget parameters): every component b + a*s_out - P*s_in is at most k*floor(B_e+1/2) for a Galois key of k parties and c*(|s_ideal|_1 + k*H)*k*B + k*B for the relinearisation key (documented noise s*e0 + u*e1 + e2; |s_ideal|_1 measured exactly, H = worst-case l1 norm of one ephemeral secret, c = 2 in the conjugate-invariant ring); the relinearisation run is skipped when that bound exceeds QP/8",
			"freshness checks are probabilistic with error < 2^-100: a uniform residue row of >= 16 residues modulo a prime of >= 19 bits is neither constant nor equal to another row, and agrees with a fixed row in fewer than max(8, n/4) places",
			"AggregateShares on operands of equal lower levels adds the rows that are present (the method selects the ring level from its operands); Combiner output may alias the own share (element-wise product)",
			"model arithmetic (bits.Mul64/Div64) is correct; the NTT/Montgomery kernels used to compute phases are the ones judged by C01",
		},
	})
}
