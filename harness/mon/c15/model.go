package c15

import (
	"math/big"
	"math/bits"

	"github.com/tuneinsight/lattigo/v6/ring/ringqp"

	"verif/harness/eng"
	"verif/harness/ref"
)

// rows returns the residue rows of p (Q rows first, then P rows); the rows alias p.
func rows(p ringqp.Poly) [][]uint64 {
	out := make([][]uint64, 0, len(p.Q.Coeffs)+len(p.P.Coeffs))
	out = append(out, p.Q.Coeffs...)
	return append(out, p.P.Coeffs...)
}

func cloneRows(a [][]uint64) [][]uint64 {
	out := make([][]uint64, len(a))
	for i := range a {
		out[i] = append([]uint64(nil), a[i]...)
	}
	return out
}

func zeroRows(nrows, n int) [][]uint64 {
	out := make([][]uint64, nrows)
	for i := range out {
		out[i] = make([]uint64, n)
	}
	return out
}

// addInto: acc += a (mod q_i), exact.
func addInto(acc, a [][]uint64, mods []uint64) {
	for i, q := range mods {
		ai, ci := a[i], acc[i]
		for j := range ci {
			ci[j] = ref.AddMod(ci[j], ai[j], q)
		}
	}
}

// cmpRows compares a and b as residues (mod q_i). Returns the first mismatch.
func cmpRows(a, b [][]uint64, mods []uint64) (ok bool, row, idx int) {
	if len(a) != len(mods) || len(b) != len(mods) {
		return false, -1, -1
	}
	for i, q := range mods {
		if len(a[i]) != len(b[i]) {
			return false, i, -1
		}
		for j := range a[i] {
			if a[i][j]%q != b[i][j]%q {
				return false, i, j
			}
		}
	}
	return true, 0, 0
}

// reduced reports whether every residue is in [0, q_i).
func reduced(a [][]uint64, mods []uint64) bool {
	for i, q := range mods {
		for _, v := range a[i] {
			if v >= q {
				return false
			}
		}
	}
	return true
}

func allZero(a [][]uint64, mods []uint64) bool {
	for i, q := range mods {
		for _, v := range a[i] {
			if v%q != 0 {
				return false
			}
		}
	}
	return true
}

// horner evaluates sum_k coef[k] * x^k residue-wise (mod q_i), exact.
func horner(coef [][][]uint64, x uint64, mods []uint64) [][]uint64 {
	k := len(coef)
	out := cloneRows(coef[k-1])
	for i, q := range mods {
		for j := range out[i] {
			out[i][j] %= q
		}
	}
	for d := k - 2; d >= 0; d-- {
		for i, q := range mods {
			xq := x % q
			oi, ci := out[i], coef[d][i]
			for j := range oi {
				oi[j] = ref.AddMod(ref.MulMod(oi[j], xq, q), ci[j], q)
			}
		}
	}
	return out
}

// lagrange returns prod_{k in A, k != j} x_k / (x_k - x_j) mod q: the Lagrange basis polynomial of
// party j for the interpolation set A, evaluated at 0.
func lagrange(pts []uint64, A []int, j int, q uint64) uint64 {
	l := uint64(1) % q
	xj := pts[j] % q
	for _, k := range A {
		if k == j {
			continue
		}
		xk := pts[k] % q
		l = ref.MulMod(l, ref.MulMod(xk, ref.InvMod(ref.SubMod(xk, xj, q), q), q), q)
	}
	return l
}

// scaleRows returns a * l_i (mod q_i) with one scalar per modulus.
func scaleRows(a [][]uint64, l []uint64, mods []uint64) [][]uint64 {
	out := make([][]uint64, len(a))
	for i, q := range mods {
		out[i] = make([]uint64, len(a[i]))
		for j, v := range a[i] {
			out[i][j] = ref.MulMod(v, l[i], q)
		}
	}
	return out
}

// subsets returns all k-subsets of {0..n-1} as sorted index lists, in increasing mask order.
func subsets(n, k int) [][]int {
	var out [][]int
	for m := 0; m < 1<<n; m++ {
		if bits.OnesCount(uint(m)) != k {
			continue
		}
		var s []int
		for i := 0; i < n; i++ {
			if m>>i&1 == 1 {
				s = append(s, i)
			}
		}
		out = append(out, s)
	}
	return out
}

func mask(s []int) int {
	m := 0
	for _, i := range s {
		m |= 1 << i
	}
	return m
}

var permCache = map[int][][]int{}

// perms returns all permutations of 0..k-1 in lexicographic order (identity first).
func perms(k int) [][]int {
	if p, ok := permCache[k]; ok {
		return p
	}
	var out [][]int
	cur := make([]int, 0, k)
	used := make([]bool, k)
	var rec func()
	rec = func() {
		if len(cur) == k {
			out = append(out, append([]int(nil), cur...))
			return
		}
		for i := 0; i < k; i++ {
			if !used[i] {
				used[i] = true
				cur = append(cur, i)
				rec()
				cur = cur[:len(cur)-1]
				used[i] = false
			}
		}
	}
	rec()
	if k == 0 {
		out = [][]int{{}}
	}
	permCache[k] = out
	return out
}

// centred CRT lift of every coefficient of the residue rows.
func centred(a [][]uint64, mods []uint64) []*big.Int {
	crt := ref.NewCRT(mods)
	n := len(a[0])
	out := make([]*big.Int, n)
	col := make([]uint64, len(mods))
	for j := 0; j < n; j++ {
		for i := range mods {
			col[i] = a[i][j]
		}
		out[j] = crt.Centered(col)
	}
	return out
}

// ---------------------------------------------------------------------------------------------
// Shamir public points

var baseFamilies = []string{"seq", "small", "u32", "gt32", "near64", "nearq", "pow2"}

// genPoints draws n public points of the family that are non-zero and pairwise distinct modulo
// every modulus (rejection sampling; the property is only defined for such points).
func genPoints(r *eng.Rand, family string, n int, mods []uint64) (pts []uint64, fams []string) {
	valid := func(x uint64) bool {
		if x == 0 {
			return false
		}
		for _, q := range mods {
			if x%q == 0 {
				return false
			}
			for _, y := range pts {
				if y%q == x%q {
					return false
				}
			}
		}
		return true
	}
	seq := uint64(0)
	var consec, negLast uint64 // state of the families added by the coverage audit (ext cases only)
	negPending := false
	draw := func(f string) uint64 {
		switch f {
		case "conseclarge": // K+1, K+2, ...: differences of 1 between points far above 2^32
			if consec == 0 {
				consec = 1<<40 | r.U64()>>16
			}
			consec++
			return consec
		case "neg": // pairs x, m*q-x: x_k = -x_j modulo one prime, so x_k/(x_k-x_j) = 1/2 there
			q := mods[r.N(len(mods))]
			if negPending {
				negPending = false
				m := 1 + r.U64()%(^uint64(0)/q)
				return m*q - negLast%q
			}
			negLast = 1 + r.U64()%(q-1)
			if r.Bool() {
				negLast = 1 + uint64(r.N(1000))
			}
			negPending = true
			return negLast
		case "halfq": // around q/2 = 2^-1 mod q, possibly shifted by q
			q := mods[r.N(len(mods))]
			x := (q+1)/2 + uint64(r.N(5)) - 2
			if r.Bool() && x <= ^uint64(0)-q {
				x += q
			}
			return x
		case "seq":
			seq++
			return seq
		case "small":
			return 1 + uint64(r.N(64))
		case "u32":
			return 1<<32 - 8 + uint64(r.N(16))
		case "gt32":
			return (r.U64() >> uint(r.N(31))) | 1<<32
		case "near64":
			return ^uint64(0) - uint64(r.N(64))
		case "nearq":
			q := mods[r.N(len(mods))]
			k := uint64(1 + r.N(3))
			maxm := ^uint64(0) / q
			m := eng.Pick(r, 1, 2, maxm, 1+r.U64()%maxm)
			base := m * q
			if r.Bool() && base <= ^uint64(0)-k {
				return base + k
			}
			return base - k
		case "pow2":
			return 1 << uint(r.N(64))
		}
		return r.U64()
	}
	for attempt := 0; len(pts) < n; attempt++ {
		f := family
		if family == "mixed" {
			f = baseFamilies[r.N(len(baseFamilies))]
		}
		if attempt > 20000 {
			f = "gt32" // the family is exhausted for this chain: fill up with large random points
		}
		x := draw(f)
		if valid(x) {
			pts = append(pts, x)
			fams = append(fams, f)
		}
	}
	return
}
