package c15

// Coverage-audit extension of the C15 monitor (case family "ext/...").
//
// The main family ("thr/...") enumerates every subset and every listing order against the exact
// model with ONE way of using the API. This family keeps the exact model and varies everything the
// main family holds fixed:
//
//   - the objects: Thresholdizer built from a value / pointer / scheme-level ParameterProvider; a second
//     Shamir polynomial from the same Thresholdizer (fresh masking per call and per party, residue row by
//     residue row); one share buffer re-used for all recipients; shares delivered through
//     MarshalBinary/UnmarshalBinary and WriteTo/ReadFrom; the polynomial is an input of
//     GenShamirSecretShare;
//   - AggregateShares: all three operands aliased, operands of a lower LevelQ / LevelP (exact sum of the
//     active rows), refusal of LevelP mismatches and of a receiver of another level, a refused call
//     leaves the receiver as it was;
//   - the Combiner: five ways of listing the other parties at construction (with/without the own point,
//     duplicates, outsiders that never become active, exactly the other active parties on a fresh
//     Combiner) must all give the model share; output aliasing the own share; a refused request leaves
//     output and own share intact;
//   - history: a second sharing epoch with the same Thresholdizers and the same (long-lived) Combiners;
//   - "fewer cannot", residue row by residue row: t-1 aggregated shares interpolated at 0 must differ
//     from the ideal secret in (almost) every coefficient of every residue row;
//   - protocols beyond CKG/CKS: collective Galois-key generation (the in-tree threshold example) and the
//     two-round relinearisation-key generation, run by the t parties with their additive shares and by
//     all N parties with their original secrets, both judged component-wise against the ideal secret;
//   - configurations: 8..12 Q primes with 0..4 P primes, a single modulus with and without P; point
//     families x_k = -x_j (mod q), consecutive large points, points around q/2.

import (
	"bytes"
	"fmt"
	"math/big"
	"slices"

	"github.com/tuneinsight/lattigo/v6/core/rlwe"
	"github.com/tuneinsight/lattigo/v6/multiparty"
	"github.com/tuneinsight/lattigo/v6/ring"
	"github.com/tuneinsight/lattigo/v6/ring/ringqp"
	"github.com/tuneinsight/lattigo/v6/schemes/ckks"
	"github.com/tuneinsight/lattigo/v6/utils/sampling"

	"verif/harness/eng"
	"verif/harness/gen"
	"verif/harness/obs"
	"verif/harness/ref"
)

var extPointFamilies = []string{"neg", "conseclarge", "halfq", "seq", "near64", "nearq", "mixed", "gt32"}
var extSKKinds = []string{"dist", "dist", "dist", "uniform", "mixed"}

func extCases(tier string, seed int64) []eng.Case {
	r := eng.NewRand("c15-ext-cases", seed)
	var out []eng.Case
	variants := 3
	logNs := []int{4, 4, 5, 6}
	if tier == "thorough" {
		variants = 24
		logNs = []int{4, 5, 6, 7, 8, 9}
	}
	for n := 1; n <= 6; n++ {
		for t := 1; t <= n; t++ {
			for v := 0; v < variants; v++ {
				c := cfg{N: n, T: t, Ext: "x", Ring: eng.Pick(r, "std", "std", "ci"), Xs: eng.Pick(r, "p0.5", "h8", "gauss")}
				c.LogN = eng.Pick(r, logNs...)
				c.Points = extPointFamilies[(v+n+3*t)%len(extPointFamilies)]
				c.SK = eng.Pick(r, extSKKinds...)
				switch v % 3 {
				case 0: // the chain shapes of the main family
					nq, np := 1+r.N(4), r.N(3)
					for j := 0; j < nq; j++ {
						c.QBits = append(c.QBits, eng.Pick(r, 20, 30, 36, 45, 55, 60, 61))
					}
					for j := 0; j < np; j++ {
						c.PBits = append(c.PBits, eng.Pick(r, 30, 45, 60, 61))
					}
				case 1: // many RNS digits
					nq, np := 8+r.N(5), eng.Pick(r, 0, 1, 3, 4)
					for j := 0; j < nq; j++ {
						c.QBits = append(c.QBits, eng.Pick(r, 25, 30, 45, 55, 60, 61))
					}
					for j := 0; j < np; j++ {
						c.PBits = append(c.PBits, eng.Pick(r, 30, 45, 60, 61))
					}
					if c.LogN > 6 {
						c.LogN = 4 + r.N(3)
					}
				case 2: // a single modulus
					c.QBits = []int{eng.Pick(r, 20, 30, 60, 61)}
					for j, np := 0, eng.Pick(r, 0, 0, 1, 2); j < np; j++ {
						c.PBits = append(c.PBits, eng.Pick(r, 30, 60, 61))
					}
				}
				nth := uint64(2) << c.LogN
				if c.Ring == "ci" {
					nth <<= 1
				}
				c.Q, c.P = gen.Chain(r, nth, c.QBits, c.PBits)
				if c.Q == nil {
					continue
				}
				cc := c
				id := fmt.Sprintf("ext/N%d/t%d/%d/%s/%s/%s", n, t, v, c.Points, c.SK, c.chain())
				out = append(out, eng.Case{ID: id, Sig: "C15|threshold-ext", Desc: cc, Run: func(x *eng.Ctx) { runExt(x, cc) }})
			}
		}
	}
	return out
}

type ext struct {
	*env
	outsiders []uint64
	seen      [][][]uint64 // modulus -> residue rows of all polynomial coefficients seen so far
	polys     []multiparty.ShamirPolynomial
	base      []multiparty.Combiner
}

func runExt(c *eng.Ctx, cf cfg) {
	params, err := cf.params()
	if err != nil {
		c.Violate("C15|rlwe.NewParametersFromLiteral|error-on-admissible", err.Error(), cf)
		return
	}
	rnd := c.Rand()
	e := &env{c: c, cf: cf, params: params, n: params.N(), N: cf.N, T: cf.T}
	e.mods = append(append([]uint64{}, params.Q()...), params.P()...)
	all, fams := genPoints(rnd, cf.Points, cf.N+2, e.mods)
	e.pts, e.fams = all[:cf.N], fams[:cf.N]
	e.key = fmt.Sprintf("ext/%d/%d/%s/%s/%s", cf.N, cf.T, cf.Points, cf.chain(), cf.SK)
	e.wit = map[string]any{"cfg": cf, "points": fmt.Sprint(e.pts), "outsiders": fmt.Sprint(all[cf.N:]), "moduli": fmt.Sprint(e.mods)}
	c.Sample(map[string]any{"family": "ext", "N": cf.N, "t": cf.T, "ring": cf.Ring, "logN": cf.LogN, "sk": cf.SK, "points": fmt.Sprint(e.pts), "point_families": e.fams, "moduli_QP": fmt.Sprint(e.mods), "P_primes": len(cf.P)})
	c.Count("ext_cases", 1)
	if len(cf.P) == 0 {
		c.Count("cases_without_P", 1)
	}
	if len(e.mods) >= 8 {
		c.Count("ext_cases_with_ge_8_moduli", 1)
	}
	if len(cf.Q) == 1 {
		c.Count("ext_cases_single_Q_modulus", 1)
	}

	kgen := rlwe.NewKeyGenerator(params)
	e.ideal = zeroRows(len(e.mods), e.n)
	var skSnap [][][]uint64
	for i := 0; i < e.N; i++ {
		kind := cf.SK
		if kind == "mixed" {
			kind = eng.Pick(rnd, "dist", "uniform", "top", "zero")
		}
		sk := rlwe.NewSecretKey(params)
		switch kind {
		case "dist":
			sk = kgen.GenSecretKeyNew()
		case "uniform":
			e.fillUniform(sk.Value)
		case "top":
			for r, row := range rows(sk.Value) {
				for j := range row {
					row[j] = e.mods[r] - 1
				}
			}
		}
		e.sks = append(e.sks, sk)
		skSnap = append(skSnap, cloneRows(rows(sk.Value)))
		addInto(e.ideal, rows(sk.Value), e.mods)
	}

	x := &ext{env: e, outsiders: all[cf.N:], seen: make([][][]uint64, len(e.mods))}
	for i := range e.sks {
		x.remember(rows(e.sks[i].Value))
	}
	if !x.makeThresholdizers() {
		return
	}
	var ok bool
	if e.tsks, ok = x.sharingEpoch(0); !ok {
		return
	}
	for i := range e.sks {
		same, _, _ := cmpRows(rows(e.sks[i].Value), skSnap[i], e.mods)
		c.Check(same, "C15|Thresholdizer|secret-key-modified-by-setup", func() string { return fmt.Sprintf("party %d", i) })
	}
	x.tooFewRowwise(e.tsks)
	x.aggregateSurface()
	if !x.combinerShapes() {
		return
	}
	x.secondEpoch()
	x.protocols()
}

// remember stores residue rows (one per modulus) for the freshness checks.
func (x *ext) remember(rr [][]uint64) {
	for i := range rr {
		x.seen[i] = append(x.seen[i], append([]uint64(nil), rr[i]...))
	}
}

func eqRow(a, b []uint64, q uint64) bool {
	for j := range a {
		if a[j]%q != b[j]%q {
			return false
		}
	}
	return true
}

func constRow(a []uint64, q uint64) bool {
	for j := range a {
		if a[j]%q != a[0]%q {
			return false
		}
	}
	return true
}

// freshMask judges one masking coefficient residue row by residue row: reduced, not constant (a
// constant row in the NTT domain is a constant polynomial), different from every row of the same
// modulus seen before in this case (secrets, masking coefficients of this and of the other parties,
// of earlier calls). A uniform row of >= 16 residues of >= 19 bits repeats with probability < 2^-300.
func (x *ext) freshMask(rr [][]uint64, what string) bool {
	c := x.c
	good := true
	for i, q := range x.mods {
		c.Count("masking_residue_rows_checked", 1)
		for _, v := range rr[i] {
			if v >= q {
				good = c.Check(false, "C15|Thresholdizer.GenShamirPolynomial|masking-coefficient-not-reduced", func() string { return fmt.Sprintf("%s modulus#%d", what, i) }) && good
				break
			}
		}
		if !c.Check(!constRow(rr[i], q), "C15|Thresholdizer.GenShamirPolynomial|degenerate-masking-residue-row", func() string {
			return fmt.Sprintf("%s: residue row of modulus#%d (q=%d) is constant", what, i, q)
		}) {
			good = false
			continue
		}
		for _, old := range x.seen[i] {
			if eqRow(rr[i], old, q) {
				c.Check(false, "C15|Thresholdizer.GenShamirPolynomial|masking-residue-row-reused", func() string {
					return fmt.Sprintf("%s: residue row of modulus#%d (q=%d) repeats a row produced earlier (secret or masking coefficient of this or another party/call)", what, i, q)
				})
				good = false
				break
			}
		}
	}
	x.remember(rr)
	return good
}

func (x *ext) makeThresholdizers() bool {
	c, e := x.c, x.env
	e.thr = make([]multiparty.Thresholdizer, e.N)
	var ck *ckks.Parameters
	if p, err := ckks.NewParametersFromLiteral(ckks.ParametersLiteral{LogN: e.cf.LogN, Q: e.cf.Q, P: e.cf.P, Xs: e.params.Xs(), RingType: e.params.RingType(), LogDefaultScale: 10}); err == nil && p.RingQP().RingQ.N() == e.n {
		ck = &p
	}
	for i := 0; i < e.N; i++ {
		i := i
		var prov rlwe.ParameterProvider = e.params
		kind := "value"
		switch {
		case i%3 == 1:
			pp := e.params
			prov, kind = &pp, "pointer"
		case i%3 == 2 && ck != nil:
			prov, kind = *ck, "ckks"
		}
		if !c.Try("C15|multiparty.NewThresholdizer", func() { e.thr[i] = multiparty.NewThresholdizer(prov) }) {
			return false
		}
		c.Count("thresholdizers_from_provider_"+kind, 1)
	}
	return true
}

// sharingEpoch runs one complete sharing with the Thresholdizers of the case and judges every
// object against the exact model. Returns the aggregated shares.
func (x *ext) sharingEpoch(epoch int) ([]multiparty.ShamirSecretShare, bool) {
	c, e, rnd := x.c, x.env, x.c.Rand()
	N, T := e.N, e.T
	polys := make([]multiparty.ShamirPolynomial, N)
	coefs := make([][][][]uint64, N)
	for i := 0; i < N; i++ {
		i := i
		// two polynomials per party and epoch: the second call must not repeat the first
		for call := 0; call < 2; call++ {
			var p multiparty.ShamirPolynomial
			var err error
			if !c.Try("C15|Thresholdizer.GenShamirPolynomial", func() { p, err = e.thr[i].GenShamirPolynomial(T, e.sks[i]) }) {
				return nil, false
			}
			if err != nil {
				c.Violate("C15|Thresholdizer.GenShamirPolynomial|error-on-admissible", fmt.Sprintf("threshold=%d: %v", T, err), e.witness(nil))
				return nil, false
			}
			if !c.Check(len(p.Value) == T, "C15|Thresholdizer.GenShamirPolynomial|wrong-degree", func() string {
				return fmt.Sprintf("threshold=%d: %d coefficients", T, len(p.Value))
			}) {
				return nil, false
			}
			same, r, j := cmpRows(rows(p.Value[0]), rows(e.sks[i].Value), e.mods)
			c.Check(same, "C15|Thresholdizer.GenShamirPolynomial|constant-term-is-not-the-secret", func() string {
				return fmt.Sprintf("party %d epoch %d call %d row %d idx %d", i, epoch, call, r, j)
			})
			// the constant term is a copy: the polynomial and the secret do not share storage
			c.Check(&p.Value[0].Q.Coeffs[0][0] != &e.sks[i].Value.Q.Coeffs[0][0], "C15|Thresholdizer.GenShamirPolynomial|constant-term-aliases-the-secret", nil)
			for d := 1; d < T; d++ {
				x.freshMask(rows(p.Value[d]), fmt.Sprintf("party %d epoch %d call %d degree %d", i, epoch, call, d))
			}
			if call == 0 {
				polys[i] = p
				for d := 0; d < T; d++ {
					coefs[i] = append(coefs[i], cloneRows(rows(p.Value[d])))
				}
			}
		}
	}

	// shares: one buffer per sender, re-used for every recipient; delivery by copy or over the wire
	recv := make([][]multiparty.ShamirSecretShare, N) // [to][from]
	for j := range recv {
		recv[j] = make([]multiparty.ShamirSecretShare, N)
	}
	for i := 0; i < N; i++ {
		i := i
		buf := e.thr[i].AllocateThresholdSecretShare()
		for _, j := range rnd.Perm(N) {
			j := j
			if !c.Try("C15|Thresholdizer.GenShamirSecretShare", func() {
				e.thr[i].GenShamirSecretShare(multiparty.ShamirPublicPoint(e.pts[j]), polys[i], &buf)
			}) {
				return nil, false
			}
			want := horner(coefs[i], e.pts[j], e.mods)
			same, r, k := cmpRows(rows(buf.Poly), want, e.mods)
			c.Count("shamir_shares_checked", 1)
			if !c.Check(same && reduced(rows(buf.Poly), e.mods), "C15|Thresholdizer.GenShamirSecretShare|wrong-evaluation|re-used-receiver", func() string {
				return fmt.Sprintf("share of party %d for point %d (%s), receiver re-used: modulus#%d idx=%d (threshold %d)", i, e.pts[j], e.fams[j], r, k, T)
			}) {
				return nil, false
			}
			// delivery
			var got multiparty.ShamirSecretShare
			mode := (i + 2*j + epoch) % 3
			okw := c.Try("C15|ShamirSecretShare.serialisation", func() {
				switch mode {
				case 0:
					got = multiparty.ShamirSecretShare{Poly: *buf.Poly.CopyNew()}
				case 1:
					b, err := buf.MarshalBinary()
					if err != nil {
						panic(err)
					}
					c.Check(len(b) == buf.BinarySize(), "C15|ShamirSecretShare.MarshalBinary|size-differs-from-BinarySize", nil)
					if err := got.UnmarshalBinary(b); err != nil {
						panic(err)
					}
					c.Count("shares_sent_over_the_wire", 1)
				case 2:
					var w bytes.Buffer
					nw, err := buf.WriteTo(&w)
					if err != nil {
						panic(err)
					}
					c.Check(int(nw) == buf.BinarySize() && w.Len() == buf.BinarySize(), "C15|ShamirSecretShare.WriteTo|size-differs-from-BinarySize", nil)
					got = e.thr[j].AllocateThresholdSecretShare()
					e.fillUniform(got.Poly)
					if _, err := got.ReadFrom(&w); err != nil {
						panic(err)
					}
					c.Count("shares_sent_over_the_wire", 1)
				}
			})
			if !okw {
				return nil, false
			}
			same, r, k = cmpRows(rows(got.Poly), want, e.mods)
			if !c.Check(same, "C15|ShamirSecretShare.serialisation|share-changed-in-transit", func() string {
				return fmt.Sprintf("mode %d: share of party %d for party %d: modulus#%d idx=%d", mode, i, j, r, k)
			}) {
				return nil, false
			}
			recv[j][i] = got
		}
		// the polynomial is an input
		for d := 0; d < T; d++ {
			same, _, _ := cmpRows(rows(polys[i].Value[d]), coefs[i][d], e.mods)
			c.Check(same, "C15|Thresholdizer.GenShamirSecretShare|polynomial-modified", func() string {
				return fmt.Sprintf("party %d coefficient of degree %d", i, d)
			})
		}
	}

	// aggregation in a random order, accumulator on either side
	tsks := make([]multiparty.ShamirSecretShare, N)
	for j := 0; j < N; j++ {
		j := j
		want := zeroRows(len(e.mods), e.n)
		for i := 0; i < N; i++ {
			addInto(want, rows(recv[j][i].Poly), e.mods)
		}
		acc := e.thr[j].AllocateThresholdSecretShare()
		var aerr error
		if !c.Try("C15|Thresholdizer.AggregateShares", func() {
			for _, i := range rnd.Perm(N) {
				var err error
				if rnd.Bool() {
					err = e.thr[j].AggregateShares(acc, recv[j][i], &acc)
				} else {
					err = e.thr[j].AggregateShares(recv[j][i], acc, &acc)
				}
				if err != nil && aerr == nil {
					aerr = err
				}
			}
		}) {
			return nil, false
		}
		if aerr != nil {
			c.Violate("C15|Thresholdizer.AggregateShares|error-on-admissible", aerr.Error(), e.witness(nil))
			return nil, false
		}
		same, r, k := cmpRows(rows(acc.Poly), want, e.mods)
		c.Count("aggregations_checked", 1)
		if !c.Check(same && reduced(rows(acc.Poly), e.mods), "C15|Thresholdizer.AggregateShares|wrong-sum-or-order-dependent", func() string {
			return fmt.Sprintf("party %d epoch %d: modulus#%d idx=%d", j, epoch, r, k)
		}) {
			return nil, false
		}
		tsks[j] = acc
	}
	if epoch == 0 {
		x.polys = polys
	}
	return tsks, true
}

// tooFewRowwise: the aggregated shares of every t-1 parties, interpolated at 0 by the harness, must
// not reproduce the ideal secret in any residue row: with an honest (uniform, degree t-1) masking the
// interpolation error is top_coefficient * prod(x_k), i.e. a coefficient matches with probability 1/q.
// A row with >= max(8, n/4) matching coefficients has probability < C(n,n/4) * 2^(-19 n/4) < 2^-100.
func (x *ext) tooFewRowwise(tsks []multiparty.ShamirSecretShare) {
	e := x.env
	if e.T < 2 {
		return
	}
	limit := e.n / 4
	if limit < 8 {
		limit = 8
	}
	for _, A := range subsets(e.N, e.T-1) {
		acc := zeroRows(len(e.mods), e.n)
		for _, j := range A {
			l := make([]uint64, len(e.mods))
			for i, q := range e.mods {
				l[i] = lagrange(e.pts, A, j, q)
			}
			addInto(acc, scaleRows(rows(tsks[j].Poly), l, e.mods), e.mods)
		}
		for i, q := range e.mods {
			m := 0
			for k := range acc[i] {
				if acc[i][k]%q == e.ideal[i][k]%q {
					m++
				}
			}
			e.c.Count("too_few_interpolations_rowwise", 1)
			e.c.Check(m < limit, "C15|Thresholdizer|t-1-parties-interpolate-the-secret|residue-row", func() string {
				return fmt.Sprintf("t=%d: the aggregated shares of parties %v interpolate to the ideal secret in %d of %d coefficients of the residue row of modulus#%d (q=%d)", e.T, A, m, e.n, i, q)
			})
		}
	}
}

// trunc returns a view of s with dq rows of Q and dp rows of P dropped.
func trunc(s multiparty.ShamirSecretShare, dq, dp int) multiparty.ShamirSecretShare {
	return multiparty.ShamirSecretShare{Poly: ringqp.Poly{
		Q: ring.Poly{Coeffs: s.Q.Coeffs[:len(s.Q.Coeffs)-dq]},
		P: ring.Poly{Coeffs: s.P.Coeffs[:len(s.P.Coeffs)-dp]},
	}}
}

func cloneShare(s multiparty.ShamirSecretShare) multiparty.ShamirSecretShare {
	return multiparty.ShamirSecretShare{Poly: *s.Poly.CopyNew()}
}

// aggregateSurface: aliasing, lower levels and refusals of AggregateShares.
func (x *ext) aggregateSurface() {
	c, e := x.c, x.env
	th := e.thr[0]
	a, b := e.tsks[0], e.tsks[e.N-1]
	nq, np := len(e.params.Q()), len(e.params.P())

	// all three operands are the same object
	{
		cp := cloneShare(a)
		var err error
		if c.Try("C15|Thresholdizer.AggregateShares|all-operands-aliased", func() { err = th.AggregateShares(cp, cp, &cp) }) {
			want := cloneRows(rows(a.Poly))
			addInto(want, rows(a.Poly), e.mods)
			same, _, _ := cmpRows(rows(cp.Poly), want, e.mods)
			c.Check(err == nil && same && reduced(rows(cp.Poly), e.mods), "C15|Thresholdizer.AggregateShares|all-operands-aliased|wrong-sum", func() string { return fmt.Sprint(err) })
		}
	}
	// operands of a lower level: exact sum of the rows that are there
	for _, d := range [][2]int{{1, 0}, {0, 1}, {1, 1}, {0, np}} {
		dq, dp := d[0], d[1]
		if dq >= nq || dp > np || (dq == 0 && dp == 0) {
			continue
		}
		ta, tb := trunc(cloneShare(a), dq, dp), trunc(cloneShare(b), dq, dp)
		out := trunc(th.AllocateThresholdSecretShare(), dq, dp)
		mods := append(append([]uint64{}, e.mods[:nq-dq]...), e.mods[nq:nq+np-dp]...)
		e.fillRows(rows(out.Poly), mods)
		var err error
		if !c.Try("C15|Thresholdizer.AggregateShares|lower-level", func() { err = th.AggregateShares(ta, tb, &out) }) {
			continue
		}
		want := cloneRows(rows(ta.Poly))
		addInto(want, rows(tb.Poly), mods)
		same, r, k := cmpRows(rows(out.Poly), want, mods)
		c.Count("lower_level_aggregations", 1)
		c.Check(err == nil && same && reduced(rows(out.Poly), mods), "C15|Thresholdizer.AggregateShares|lower-level|wrong-sum-or-error", func() string {
			return fmt.Sprintf("operands with %d Q rows and %d P rows dropped: err=%v modulus#%d idx=%d", dq, dp, err, r, k)
		})
	}
	// refusals: LevelP mismatch at every position, LevelQ mismatch of the receiver
	type bad struct {
		name       string
		s1, s2, o  [2]int
		applicable bool
	}
	for _, t := range []bad{
		{"levelP-share1", [2]int{0, 1}, [2]int{0, 0}, [2]int{0, 0}, np >= 1},
		{"levelP-share2", [2]int{0, 0}, [2]int{0, 1}, [2]int{0, 0}, np >= 1},
		{"levelP-receiver", [2]int{0, 0}, [2]int{0, 0}, [2]int{0, 1}, np >= 1},
		{"levelQ-receiver", [2]int{0, 0}, [2]int{0, 0}, [2]int{1, 0}, nq >= 2},
		{"levelQ-both-shares", [2]int{1, 0}, [2]int{1, 0}, [2]int{0, 0}, nq >= 2},
	} {
		if !t.applicable {
			continue
		}
		full := th.AllocateThresholdSecretShare()
		e.fillUniform(full.Poly)
		snap := cloneRows(rows(full.Poly))
		s1, s2, o := trunc(cloneShare(a), t.s1[0], t.s1[1]), trunc(cloneShare(b), t.s2[0], t.s2[1]), trunc(full, t.o[0], t.o[1])
		var err error
		p, val := eng.Panics(func() { err = th.AggregateShares(s1, s2, &o) })
		c.Eval(1)
		switch {
		case p:
			c.Violate("C15|Thresholdizer.AggregateShares|level-mismatch|panic", fmt.Sprintf("%s: %v", t.name, val), e.witness(nil))
		case err == nil:
			c.Violate("C15|Thresholdizer.AggregateShares|level-mismatch|accepted", t.name, e.witness(nil))
		default:
			c.Count("refusals_observed", 1)
			same, _, _ := cmpRows(rows(full.Poly), snap, e.mods)
			c.Check(same, "C15|Thresholdizer.AggregateShares|level-mismatch|receiver-modified-by-refused-call", func() string { return t.name })
		}
	}
}

func (e *env) fillRows(rr [][]uint64, mods []uint64) {
	rnd := e.c.Rand()
	for i, row := range rr {
		for j := range row {
			row[j] = rnd.U64() % mods[i]
		}
	}
}

// wantShare is the model of party j's additive share for the active set A: tsk_j * l_j(0).
func (e *env) wantShare(tsk [][]uint64, A []int, j int) [][]uint64 {
	l := make([]uint64, len(e.mods))
	for i, q := range e.mods {
		l[i] = lagrange(e.pts, A, j, q)
	}
	return scaleRows(tsk, l, e.mods)
}

var shapeNames = []string{"all-with-own", "others-reversed", "duplicates", "with-outsiders", "active-only-fresh"}

// newShape builds party j's Combiner from one of the admissible descriptions of "the other parties".
func (x *ext) newShape(shape, j int, active []int) (cmb multiparty.Combiner, ok bool) {
	e, rnd := x.env, x.c.Rand()
	var others []multiparty.ShamirPublicPoint
	add := func(v uint64) { others = append(others, multiparty.ShamirPublicPoint(v)) }
	switch shape {
	case 0:
		for _, k := range rnd.Perm(e.N) {
			add(e.pts[k])
		}
	case 1:
		for k := e.N - 1; k >= 0; k-- {
			if k != j {
				add(e.pts[k])
			}
		}
	case 2:
		for _, k := range rnd.Perm(2 * e.N) {
			add(e.pts[k%e.N])
		}
	case 3:
		add(x.outsiders[0])
		for _, k := range rnd.Perm(e.N) {
			add(e.pts[k])
		}
		add(x.outsiders[1])
	case 4:
		for _, k := range active {
			if k != j {
				add(e.pts[k])
			}
		}
	}
	listed := append([]multiparty.ShamirPublicPoint(nil), others...)
	ok = x.c.Try("C15|multiparty.NewCombiner", func() {
		cmb = multiparty.NewCombiner(e.params, multiparty.ShamirPublicPoint(e.pts[j]), others, e.T)
	})
	if ok {
		x.c.Count("combiner_input_lists_compared", 1)
		ok = x.c.Check(slices.Equal(listed, others), "C15|multiparty.NewCombiner|input-list-modified", func() string {
			return fmt.Sprintf("listed %v, after the call %v", listed, others)
		})
	}
	return
}

// combinerShapes: every admissible way of constructing the Combiner must give the model share; the
// output may alias the own share; refused requests leave their operands intact.
func (x *ext) combinerShapes() bool {
	c, e, rnd := x.c, x.env, x.c.Rand()
	N, T := e.N, e.T
	long := make([][]multiparty.Combiner, 4) // shape -> party
	for s := 0; s < 4; s++ {
		long[s] = make([]multiparty.Combiner, N)
		for j := 0; j < N; j++ {
			var ok bool
			if long[s][j], ok = x.newShape(s, j, nil); !ok {
				return false
			}
		}
	}
	x.base = long[0]
	tsSnap := make([][][]uint64, N)
	for j := range tsSnap {
		tsSnap[j] = cloneRows(rows(e.tsks[j].Poly))
	}

	// refusals on every shape: k < t listed parties; output and own share stay as they were
	for s := 0; s < 4; s++ {
		for j := 0; j < N; j++ {
			k := rnd.N(T) // 0..t-1
			var l []int
			if k >= 1 {
				l = append(l, j)
			}
			for _, y := range rnd.Perm(N) {
				if len(l) < k && y != j {
					l = append(l, y)
				}
			}
			out := rlwe.NewSecretKey(e.params)
			e.fillUniform(out.Value)
			snap := cloneRows(rows(out.Value))
			var err error
			p, val := eng.Panics(func() {
				err = long[s][j].GenAdditiveShare(e.spp(l), multiparty.ShamirPublicPoint(e.pts[j]), e.tsks[j], out)
			})
			c.Eval(1)
			switch {
			case p:
				c.Violate("C15|Combiner.GenAdditiveShare|fewer-than-t|panic", fmt.Sprintf("combiner %s, t=%d, active %v (caller %d): %v", shapeNames[s], T, l, j, val), e.witness(map[string]any{"active": l, "caller": j}))
			case err == nil:
				c.Violate("C15|Combiner.GenAdditiveShare|fewer-than-t|accepted", fmt.Sprintf("combiner %s, t=%d, active %v (caller %d): no error", shapeNames[s], T, l, j), e.witness(map[string]any{"active": l, "caller": j}))
			default:
				c.Count("refusals_observed", 1)
				s1, _, _ := cmpRows(rows(out.Value), snap, e.mods)
				s2, _, _ := cmpRows(rows(e.tsks[j].Poly), tsSnap[j], e.mods)
				c.Check(s1 && s2, "C15|Combiner.GenAdditiveShare|fewer-than-t|operands-modified-by-refused-call", func() string {
					return fmt.Sprintf("output intact=%v own share intact=%v", s1, s2)
				})
			}
		}
	}

	// observation only (outside the documented domain "set of active identities", never a violation):
	// what happens to a list of t entries that names fewer than t distinct parties
	if T >= 2 && N >= 2 {
		j := rnd.N(N)
		l := []int{j, j}
		for _, y := range rnd.Perm(N) {
			if len(l) < T && y != j {
				l = append(l, y)
			}
		}
		if len(l) == T {
			out := rlwe.NewSecretKey(e.params)
			var err error
			p, _ := eng.Panics(func() {
				err = long[0][j].GenAdditiveShare(e.spp(l), multiparty.ShamirPublicPoint(e.pts[j]), e.tsks[j], out)
			})
			switch {
			case p:
				c.Count("observed_out_of_domain_duplicate_active_list_panics", 1)
			case err == nil:
				c.Count("observed_out_of_domain_duplicate_active_list_accepted", 1)
			default:
				c.Count("observed_out_of_domain_duplicate_active_list_refused", 1)
			}
		}
	}

	// sampled (subset, listing order) pairs: all of them when there are at most 24
	subs, ords := subsets(N, T), perms(T)
	type pair struct{ s, o int }
	var pairs []pair
	if total := len(subs) * len(ords); total <= 24 {
		for s := range subs {
			for o := range ords {
				pairs = append(pairs, pair{s, o})
			}
		}
	} else {
		pairs = append(pairs, pair{0, 0}, pair{len(subs) - 1, len(ords) - 1})
		for len(pairs) < 24 {
			pairs = append(pairs, pair{rnd.N(len(subs)), rnd.N(len(ords))})
		}
	}
	out := rlwe.NewSecretKey(e.params)
	for _, pr := range pairs {
		A, ord := subs[pr.s], ords[pr.o]
		listed := make([]int, T)
		for a, b := range ord {
			listed[a] = A[b]
		}
		act := e.spp(listed)
		c.Distinct(fmt.Sprintf("%s/%x/%v", e.key, mask(A), ord), T >= 2)
		for shape := 0; shape < 5; shape++ {
			sum := zeroRows(len(e.mods), e.n)
			for _, j := range listed {
				j := j
				var cmb multiparty.Combiner
				if shape < 4 {
					cmb = long[shape][j]
				} else {
					var ok bool
					if cmb, ok = x.newShape(4, j, listed); !ok {
						return false
					}
				}
				// one call in three writes over the caller's own (copied) share
				dst, own := out, e.tsks[j]
				inplace := rnd.N(3) == 0
				if inplace {
					dst = rlwe.NewSecretKey(e.params)
					for i, row := range rows(dst.Value) {
						copy(row, tsSnap[j][i])
					}
					own = multiparty.ShamirSecretShare{Poly: dst.Value}
				} else {
					e.fillUniform(dst.Value)
				}
				var err error
				if !c.Try("C15|Combiner.GenAdditiveShare", func() {
					err = cmb.GenAdditiveShare(act, multiparty.ShamirPublicPoint(e.pts[j]), own, dst)
				}) {
					return false
				}
				if err != nil {
					c.Violate("C15|Combiner.GenAdditiveShare|error-on-admissible", fmt.Sprintf("combiner %s t=%d active=%v caller=%d: %v", shapeNames[shape], T, listed, j, err), e.witness(map[string]any{"active": listed}))
					return false
				}
				want := e.wantShare(tsSnap[j], A, j)
				same, r, k := cmpRows(rows(dst.Value), want, e.mods)
				c.Count("combiner_shape_shares_checked", 1)
				sig := "C15|Combiner.GenAdditiveShare|wrong-share|combiner-" + shapeNames[shape]
				if inplace {
					c.Count("additive_shares_written_over_own_share", 1)
					sig = "C15|Combiner.GenAdditiveShare|output-aliases-own-share|wrong-share"
				}
				if !c.Check(same && reduced(rows(dst.Value), e.mods), sig, func() string {
					return fmt.Sprintf("N=%d t=%d points=%v active listing=%v caller=%d combiner=%s inplace=%v: share != tsk_j*prod x_k/(x_k-x_j) (modulus#%d idx %d)", N, T, e.pts, listed, j, shapeNames[shape], inplace, r, k)
				}) {
					return false
				}
				addInto(sum, rows(dst.Value), e.mods)
			}
			same, r, k := cmpRows(sum, e.ideal, e.mods)
			if !c.Check(same, "C15|Combiner.GenAdditiveShare|shares-do-not-sum-to-secret", func() string {
				return fmt.Sprintf("N=%d t=%d points=%v active listing=%v combiner=%s: modulus#%d idx %d", N, T, e.pts, listed, shapeNames[shape], r, k)
			}) {
				return false
			}
		}
	}
	for j := range tsSnap {
		same, _, _ := cmpRows(rows(e.tsks[j].Poly), tsSnap[j], e.mods)
		c.Check(same, "C15|Combiner.GenAdditiveShare|own-share-modified", func() string { return fmt.Sprintf("party %d", j) })
	}
	return true
}

// secondEpoch: the parties share again (same Thresholdizers); the long-lived Combiners of the first
// epoch must reconstruct the same ideal secret from the new aggregated shares, which are new.
func (x *ext) secondEpoch() {
	c, e, rnd := x.c, x.env, x.c.Rand()
	tsks2, ok := x.sharingEpoch(1)
	if !ok {
		return
	}
	c.Count("second_epochs", 1)
	for j := range tsks2 {
		for i, q := range e.mods {
			eq := eqRow(rows(tsks2[j].Poly)[i], rows(e.tsks[j].Poly)[i], q)
			if e.T >= 2 {
				c.Check(!eq, "C15|Thresholdizer|re-sharing-repeats-the-aggregated-share", func() string {
					return fmt.Sprintf("party %d residue row of modulus#%d is the same in two sharing epochs (t=%d)", j, i, e.T)
				})
			} else {
				c.Check(eq, "C15|Thresholdizer|t=1-aggregated-share-is-not-the-ideal-secret", nil)
			}
		}
	}
	x.tooFewRowwise(tsks2)
	subs, ords := subsets(e.N, e.T), perms(e.T)
	out := rlwe.NewSecretKey(e.params)
	for rep := 0; rep < 4; rep++ {
		A, ord := subs[rnd.N(len(subs))], ords[rnd.N(len(ords))]
		listed := make([]int, e.T)
		for a, b := range ord {
			listed[a] = A[b]
		}
		sum := zeroRows(len(e.mods), e.n)
		for _, j := range listed {
			j := j
			var err error
			if !c.Try("C15|Combiner.GenAdditiveShare", func() {
				err = x.base[j].GenAdditiveShare(e.spp(listed), multiparty.ShamirPublicPoint(e.pts[j]), tsks2[j], out)
			}) {
				return
			}
			if err != nil {
				c.Violate("C15|Combiner.GenAdditiveShare|error-on-admissible", err.Error(), e.witness(map[string]any{"active": listed}))
				return
			}
			addInto(sum, rows(out.Value), e.mods)
		}
		same, r, k := cmpRows(sum, e.ideal, e.mods)
		c.Check(same, "C15|Combiner.GenAdditiveShare|shares-do-not-sum-to-secret|second-epoch", func() string {
			return fmt.Sprintf("N=%d t=%d points=%v active listing=%v: modulus#%d idx %d", e.N, e.T, e.pts, listed, r, k)
		})
	}
}

// ---------------------------------------------------------------------------------------------
// protocols: Galois key and relinearisation key generated by the t active parties alone

// gadgetErr returns the centred value of b + a*sOut - P*sIn on the rows of RNS digit i (NTT +
// Montgomery operands, default gadget parameters: maximum levels, no power-of-two decomposition).
func (e *env) gadgetErr(b, a, sOut ringqp.Poly, sIn ring.Poly, i int) []*big.Int {
	params := e.params
	lq, lp := params.MaxLevelQ(), params.MaxLevelP()
	r := params.RingQP()
	ph := r.NewPoly()
	r.MulCoeffsMontgomery(a, sOut, ph)
	r.Add(ph, b, ph)
	nbPi := lp + 1
	Pbig := big.NewInt(1)
	if lp >= 0 {
		Pbig = params.RingP().ModulusAtLevel[lp]
	} else {
		nbPi = 1
	}
	for k := 0; k < nbPi; k++ {
		row := i*nbPi + k
		if row > lq {
			break
		}
		q := params.Q()[row]
		sc := ref.ModU(Pbig, q)
		for y := 0; y < e.n; y++ {
			ph.Q.Coeffs[row][y] = ref.SubMod(ph.Q.Coeffs[row][y]%q, ref.MulMod(sIn.Coeffs[row][y]%q, sc, q), q)
		}
	}
	r.INTT(ph, ph)
	r.IMForm(ph, ph)
	return centred(rows(ph), e.mods)
}

func (e *env) checkGadget(sig string, g *rlwe.GadgetCiphertext, sOut ringqp.Poly, sIn ring.Poly, E float64, detail string) {
	c := e.c
	for i := range g.Value {
		for j := range g.Value[i] {
			st := obs.Stat(e.gadgetErr(g.Value[i][j][0], g.Value[i][j][1], sOut, sIn, i))
			c.Count("noise_measurements", 1)
			c.Count("gadget_components_checked", 1)
			c.Max("max_key_error_over_bound_x1000", int64(1000*f64(st.Max)/E))
			if !c.Check(f64(st.Max) <= E, sig, func() string {
				return fmt.Sprintf("%s digit=%d/%d: |b+a*s_out-P*s_in|inf=2^%.1f, worst-case bound %.0f", detail, i, j, st.MaxLog2, E)
			}) {
				return
			}
		}
	}
}

func (x *ext) protocols() {
	c, e, rnd := x.c, x.env, x.c.Rand()
	params := e.params
	subs, ords := subsets(e.N, e.T), perms(e.T)
	A, ord := subs[rnd.N(len(subs))], ords[rnd.N(len(ords))]
	listed := make([]int, e.T)
	for a, b := range ord {
		listed[a] = A[b]
	}
	var act []*rlwe.SecretKey
	for _, j := range listed {
		j := j
		sk := rlwe.NewSecretKey(params)
		var err error
		if !c.Try("C15|Combiner.GenAdditiveShare", func() {
			err = x.base[j].GenAdditiveShare(e.spp(listed), multiparty.ShamirPublicPoint(e.pts[j]), e.tsks[j], sk)
		}) || err != nil {
			return
		}
		act = append(act, sk)
	}
	skIdeal := rlwe.NewSecretKey(params)
	for i, row := range rows(skIdeal.Value) {
		copy(row, e.ideal[i])
	}
	// the CKG / collective decryption runs of the main family, here also under the long chains
	e.proto(listed, actByParty(e.N, listed, act), true)

	B, _ := obs.ErrBound(params)
	_, H := obs.SecretBound(params)
	cif := 1.0
	if e.cf.Ring == "ci" {
		cif = 2
	}
	QP := new(big.Int).Set(params.RingQ().ModulusAtLevel[params.MaxLevelQ()])
	if params.MaxLevelP() >= 0 {
		QP.Mul(QP, params.RingP().ModulusAtLevel[params.MaxLevelP()])
	}
	// l1 norm of the ideal secret (exact)
	var l1 float64
	{
		r := params.RingQP()
		tmp := *skIdeal.Value.CopyNew()
		r.INTT(tmp, tmp)
		r.IMForm(tmp, tmp)
		for _, v := range centred(rows(tmp), e.mods) {
			l1 += f64(new(big.Int).Abs(v))
		}
	}
	key := make([]byte, 32)
	rnd.Read(key)
	type group struct {
		name string
		sks  []*rlwe.SecretKey
	}
	for _, g := range []group{{"t-parties", act}, {"all-N-parties-reference", e.sks}} {
		g := g
		np := float64(len(g.sks))
		crs := func() *sampling.KeyedPRNG {
			p, err := sampling.NewKeyedPRNG(key)
			if err != nil {
				panic(err)
			}
			return p
		}
		// ---- Galois key
		galEl := params.GaloisElement(1 + rnd.N(e.n/2-1))
		if e.cf.Ring != "ci" && rnd.N(3) == 0 {
			galEl = params.RingQ().NthRoot() - 1
		}
		c.Try("C15|GaloisKeyGenProtocol|"+g.name, func() {
			gkg := multiparty.NewGaloisKeyGenProtocol(params)
			crp := gkg.SampleCRP(crs())
			agg := gkg.AllocateShare()
			agg.GaloisElement = galEl
			for y, sk := range g.sks {
				p := gkg
				if y&1 == 1 {
					p = gkg.ShallowCopy()
				}
				sh := p.AllocateShare()
				if err := p.GenShare(sk, galEl, crp, &sh); err != nil {
					panic(err)
				}
				if err := gkg.AggregateShares(agg, sh, &agg); err != nil {
					panic(err)
				}
			}
			gk := rlwe.NewGaloisKey(params)
			if err := gkg.GenGaloisKey(agg, crp, gk); err != nil {
				panic(err)
			}
			idx, err := ring.AutomorphismNTTIndex(e.n, params.RingQ().NthRoot(), params.ModInvGaloisElement(galEl))
			if err != nil {
				c.Inconclusive("AutomorphismNTTIndex: " + err.Error())
				return
			}
			sOut := params.RingQP().NewPoly()
			params.RingQ().AutomorphismNTTWithIndex(skIdeal.Value.Q, idx, sOut.Q)
			if params.MaxLevelP() >= 0 {
				params.RingP().AutomorphismNTTWithIndex(skIdeal.Value.P, idx, sOut.P)
			}
			E := np * B
			if E < f64(QP)/8 {
				c.Count("meaningful_key_bounds", 1)
			}
			c.Check(gk.GaloisElement == galEl, "C15|GaloisKeyGenProtocol|"+g.name+"|galois-element", nil)
			e.checkGadget("C15|GaloisKeyGenProtocol|"+g.name+"|not-a-key-of-the-ideal-secret", &gk.GadgetCiphertext, sOut, skIdeal.Value.Q, E,
				fmt.Sprintf("N=%d t=%d active=%v points=%v galEl=%d", e.N, e.T, listed, e.pts, galEl))
			c.Count("galois_keys_checked", 1)
		})
		// ---- relinearisation key: b + a*s = P*s^2 + s*e0 + u*e1 + e2
		E := cif*(l1+np*H)*np*B + np*B
		if E >= f64(QP)/8 {
			c.Count("rlk_runs_skipped_bound_not_meaningful", 1)
			continue
		}
		c.Try("C15|RelinearizationKeyGenProtocol|"+g.name, func() {
			rkg := multiparty.NewRelinearizationKeyGenProtocol(params)
			crp := rkg.SampleCRP(crs())
			n := len(g.sks)
			protos := make([]multiparty.RelinearizationKeyGenProtocol, n)
			eph := make([]*rlwe.SecretKey, n)
			r1 := make([]multiparty.RelinearizationKeyGenShare, n)
			r2 := make([]multiparty.RelinearizationKeyGenShare, n)
			_, agg1, agg2 := rkg.AllocateShare()
			for y, sk := range g.sks {
				protos[y] = rkg
				if y&1 == 1 {
					protos[y] = rkg.ShallowCopy()
				}
				eph[y], r1[y], r2[y] = protos[y].AllocateShare()
				protos[y].GenShareRoundOne(sk, crp, eph[y], &r1[y])
				rkg.AggregateShares(agg1, r1[y], &agg1)
			}
			for y, sk := range g.sks {
				protos[y].GenShareRoundTwo(eph[y], sk, agg1, &r2[y])
				rkg.AggregateShares(agg2, r2[y], &agg2)
			}
			rlk := rlwe.NewRelinearizationKey(params)
			rkg.GenRelinearizationKey(agg1, agg2, rlk)
			rq := params.RingQ()
			s2 := rq.NewPoly()
			rq.MulCoeffsMontgomery(skIdeal.Value.Q, skIdeal.Value.Q, s2)
			c.Count("meaningful_key_bounds", 1)
			e.checkGadget("C15|RelinearizationKeyGenProtocol|"+g.name+"|not-a-key-of-the-ideal-secret", &rlk.GadgetCiphertext, skIdeal.Value, s2, E,
				fmt.Sprintf("N=%d t=%d active=%v points=%v", e.N, e.T, listed, e.pts))
			c.Count("relinearisation_keys_checked", 1)
		})
	}
}

// actByParty spreads the additive shares of the listed parties over a party-indexed slice (the
// layout proto() expects).
func actByParty(N int, listed []int, act []*rlwe.SecretKey) []*rlwe.SecretKey {
	out := make([]*rlwe.SecretKey, N)
	for i, j := range listed {
		out[j] = act[i]
	}
	return out
}
