package c15

import (
	"fmt"
	"math"
	"math/big"
	"slices"

	"github.com/tuneinsight/lattigo/v6/core/rlwe"
	"github.com/tuneinsight/lattigo/v6/multiparty"
	"github.com/tuneinsight/lattigo/v6/ring"
	"github.com/tuneinsight/lattigo/v6/ring/ringqp"
	"github.com/tuneinsight/lattigo/v6/utils/sampling"

	"verif/harness/eng"
	"verif/harness/obs"
)

type env struct {
	c      *eng.Ctx
	cf     cfg
	params rlwe.Parameters
	mods   []uint64
	n      int // ring degree
	N, T   int
	pts    []uint64
	fams   []string
	sks    []*rlwe.SecretKey
	ideal  [][]uint64 // sum of the original secrets, exact
	thr    []multiparty.Thresholdizer
	cmb    []multiparty.Combiner
	tsks   []multiparty.ShamirSecretShare
	key    string
	wit    map[string]any
}

func (e *env) spp(idx []int) []multiparty.ShamirPublicPoint {
	out := make([]multiparty.ShamirPublicPoint, len(idx))
	for i, k := range idx {
		out[i] = multiparty.ShamirPublicPoint(e.pts[k])
	}
	return out
}

func (e *env) fillUniform(p ringqp.Poly) {
	rnd := e.c.Rand()
	for i, row := range rows(p) {
		q := e.mods[i]
		for j := range row {
			row[j] = rnd.U64() % q
		}
	}
}

func (e *env) witness(extra map[string]any) map[string]any {
	w := map[string]any{}
	for k, v := range e.wit {
		w[k] = v
	}
	for k, v := range extra {
		w[k] = v
	}
	return w
}

func run(c *eng.Ctx, cf cfg) {
	params, err := cf.params()
	if err != nil {
		c.Violate("C15|rlwe.NewParametersFromLiteral|error-on-admissible", err.Error(), cf)
		return
	}
	rnd := c.Rand()
	e := &env{c: c, cf: cf, params: params, n: params.N(), N: cf.N, T: cf.T}
	e.mods = append(append([]uint64{}, params.Q()...), params.P()...)
	e.pts, e.fams = genPoints(rnd, cf.Points, cf.N, e.mods)
	e.key = fmt.Sprintf("%d/%d/%s/%s/%s", cf.N, cf.T, cf.Points, cf.chain(), cf.SK)
	// 64-bit values as decimal strings: JSON numbers above 2^53 do not survive a generic decode
	e.wit = map[string]any{"cfg": cf, "points": fmt.Sprint(e.pts), "moduli": fmt.Sprint(e.mods)}
	c.Sample(map[string]any{"N": cf.N, "t": cf.T, "ring": cf.Ring, "logN": cf.LogN, "sk": cf.SK, "points": fmt.Sprint(e.pts), "point_families": e.fams, "moduli_QP": fmt.Sprint(e.mods), "P_primes": len(cf.P)})
	if len(cf.P) == 0 {
		c.Count("cases_without_P", 1)
	}
	for _, x := range e.pts {
		if x >= 1<<32 {
			c.Count("points_ge_2^32", 1)
		}
		for _, q := range e.mods {
			if x >= q {
				c.Count("point_modulus_pairs_with_point_ge_q", 1)
				break
			}
		}
	}

	// ---- the N original secrets and the ideal secret (exact sum)
	kgen := rlwe.NewKeyGenerator(params)
	nrows := len(e.mods)
	e.ideal = zeroRows(nrows, e.n)
	var skSnap [][][]uint64
	for i := 0; i < e.N; i++ {
		kind := cf.SK
		if kind == "mixed" {
			kind = eng.Pick(rnd, "dist", "uniform", "top", "zero")
		}
		var sk *rlwe.SecretKey
		switch kind {
		case "dist":
			sk = kgen.GenSecretKeyNew()
		case "uniform":
			sk = rlwe.NewSecretKey(params)
			e.fillUniform(sk.Value)
		case "top":
			sk = rlwe.NewSecretKey(params)
			for r, row := range rows(sk.Value) {
				for j := range row {
					row[j] = e.mods[r] - 1
				}
			}
		default:
			sk = rlwe.NewSecretKey(params)
		}
		e.sks = append(e.sks, sk)
		skSnap = append(skSnap, cloneRows(rows(sk.Value)))
		addInto(e.ideal, rows(sk.Value), e.mods)
	}

	if !e.setup() {
		return
	}
	// the setup must leave the parties' own secrets intact
	for i := range e.sks {
		ok, _, _ := cmpRows(rows(e.sks[i].Value), skSnap[i], e.mods)
		c.Check(ok, "C15|Thresholdizer|secret-key-modified-by-setup", func() string { return fmt.Sprintf("party %d", i) })
	}
	e.refusals()
	e.tooFewCannotInterpolate()
	e.combine()
}

// setup runs the threshold setup with the real API and judges every intermediate object.
func (e *env) setup() bool {
	c, rnd := e.c, e.c.Rand()
	N, T := e.N, e.T
	e.thr = make([]multiparty.Thresholdizer, N)
	polys := make([]multiparty.ShamirPolynomial, N)
	coefs := make([][][][]uint64, N) // party -> degree -> rows (snapshot)
	for i := 0; i < N; i++ {
		i := i
		if !c.Try("C15|multiparty.NewThresholdizer", func() { e.thr[i] = multiparty.NewThresholdizer(e.params) }) {
			return false
		}
		var err error
		if !c.Try("C15|Thresholdizer.GenShamirPolynomial", func() { polys[i], err = e.thr[i].GenShamirPolynomial(T, e.sks[i]) }) {
			return false
		}
		if err != nil {
			c.Violate("C15|Thresholdizer.GenShamirPolynomial|error-on-admissible", fmt.Sprintf("threshold=%d: %v", T, err), e.witness(nil))
			return false
		}
		if !c.Check(len(polys[i].Value) == T, "C15|Thresholdizer.GenShamirPolynomial|wrong-degree", func() string {
			return fmt.Sprintf("threshold=%d: %d coefficients", T, len(polys[i].Value))
		}) {
			return false
		}
		for d := 0; d < T; d++ {
			coefs[i] = append(coefs[i], cloneRows(rows(polys[i].Value[d])))
		}
		ok, r, j := cmpRows(coefs[i][0], rows(e.sks[i].Value), e.mods)
		c.Check(ok, "C15|Thresholdizer.GenShamirPolynomial|constant-term-is-not-the-secret", func() string {
			return fmt.Sprintf("party %d row %d idx %d", i, r, j)
		})
		// masking coefficients must be there: not zero, not a copy of another coefficient
		// (a uniform polynomial over >= 16 coefficients of >= 19 bits is zero / repeated with probability < 2^-300)
		for d := 1; d < T; d++ {
			deg := allZero(coefs[i][d], e.mods)
			for d2 := 0; d2 < d && !deg; d2++ {
				same, _, _ := cmpRows(coefs[i][d], coefs[i][d2], e.mods)
				deg = same
			}
			c.Check(!deg, "C15|Thresholdizer.GenShamirPolynomial|degenerate-masking-coefficient", func() string {
				return fmt.Sprintf("party %d coefficient of degree %d is zero or repeats a lower one", i, d)
			})
		}
	}
	// thresholds below 1 are refused with an error
	for _, bad := range []int{0, -1} {
		var err error
		p, val := eng.Panics(func() { _, err = e.thr[0].GenShamirPolynomial(bad, e.sks[0]) })
		c.Eval(1)
		switch {
		case p:
			c.Violate("C15|Thresholdizer.GenShamirPolynomial|threshold-below-1|panic", fmt.Sprintf("threshold=%d: %v", bad, val), e.witness(nil))
		case err == nil:
			c.Violate("C15|Thresholdizer.GenShamirPolynomial|threshold-below-1|accepted", fmt.Sprintf("threshold=%d", bad), e.witness(nil))
		default:
			c.Count("refusals_observed", 1)
		}
	}

	// ---- N^2 Shamir shares against Horner's rule
	shares := make([][]multiparty.ShamirSecretShare, N) // [from][to]
	for i := 0; i < N; i++ {
		shares[i] = make([]multiparty.ShamirSecretShare, N)
		for _, j := range rnd.Perm(N) {
			i, j := i, j
			sh := e.thr[i].AllocateThresholdSecretShare()
			if rnd.Bool() {
				e.fillUniform(sh.Poly) // what the buffer held before must not matter
			}
			if !c.Try("C15|Thresholdizer.GenShamirSecretShare", func() {
				e.thr[i].GenShamirSecretShare(multiparty.ShamirPublicPoint(e.pts[j]), polys[i], &sh)
			}) {
				return false
			}
			shares[i][j] = sh
			want := horner(coefs[i], e.pts[j], e.mods)
			ok, r, k := cmpRows(rows(sh.Poly), want, e.mods)
			c.Count("shamir_shares_checked", 1)
			if !c.Check(ok, "C15|Thresholdizer.GenShamirSecretShare|wrong-evaluation", func() string {
				return fmt.Sprintf("share of party %d for point %d (%s): modulus#%d q=%d idx=%d got=%d want=%d (threshold %d)", i, e.pts[j], e.fams[j], r, e.mods[r], k, rows(sh.Poly)[r][k], want[r][k], T)
			}) {
				return false
			}
			if !c.Check(reduced(rows(sh.Poly), e.mods), "C15|Thresholdizer.GenShamirSecretShare|not-reduced", func() string {
				return fmt.Sprintf("share of party %d for point %d has a residue >= q", i, e.pts[j])
			}) {
				return false
			}
		}
	}

	// ---- aggregation: every order, three accumulation shapes
	e.tsks = make([]multiparty.ShamirSecretShare, N)
	orders := perms(N)
	if N == 6 && (e.cf.LogN > 7 || c.Tier != "thorough") {
		// 60 sampled orders (+ identity and reverse) out of 720
		sel := [][]int{orders[0], orders[len(orders)-1]}
		for k := 0; k < 60; k++ {
			sel = append(sel, orders[rnd.N(len(orders))])
		}
		orders = sel
	}
	for j := 0; j < N; j++ {
		want := zeroRows(len(e.mods), e.n)
		for i := 0; i < N; i++ {
			addInto(want, rows(shares[i][j].Poly), e.mods)
		}
		for oi, ord := range orders {
			for shape := 0; shape < 3; shape++ {
				var res multiparty.ShamirSecretShare
				var aerr error
				th := e.thr[j]
				agg := func(a, b multiparty.ShamirSecretShare, o *multiparty.ShamirSecretShare) {
					if err := th.AggregateShares(a, b, o); err != nil && aerr == nil {
						aerr = err
					}
				}
				ok := c.Try("C15|Thresholdizer.AggregateShares", func() {
					switch shape {
					case 0: // the in-tree pattern: zero accumulator, acc = acc + share
						res = th.AllocateThresholdSecretShare()
						for _, i := range ord {
							agg(res, shares[i][j], &res)
						}
					case 1: // accumulator initialised with the first share, acc = share + acc
						res = multiparty.ShamirSecretShare{Poly: *shares[ord[0]][j].Poly.CopyNew()}
						for _, i := range ord[1:] {
							agg(shares[i][j], res, &res)
						}
					case 2: // balanced tree into fresh outputs
						level := make([]multiparty.ShamirSecretShare, 0, N)
						for _, i := range ord {
							level = append(level, shares[i][j])
						}
						for len(level) > 1 {
							var next []multiparty.ShamirSecretShare
							for k := 0; k+1 < len(level); k += 2 {
								o := th.AllocateThresholdSecretShare()
								agg(level[k], level[k+1], &o)
								next = append(next, o)
							}
							if len(level)&1 == 1 {
								next = append(next, level[len(level)-1])
							}
							level = next
						}
						res = level[0]
					}
				})
				if !ok {
					return false
				}
				c.Count("aggregations_checked", 1)
				if aerr != nil {
					c.Violate("C15|Thresholdizer.AggregateShares|error-on-admissible", aerr.Error(), e.witness(nil))
					return false
				}
				same, r, k := cmpRows(rows(res.Poly), want, e.mods)
				if !c.Check(same && reduced(rows(res.Poly), e.mods), "C15|Thresholdizer.AggregateShares|wrong-sum-or-order-dependent", func() string {
					return fmt.Sprintf("party %d order %v shape %d: modulus#%d idx=%d", j, ord, shape, r, k)
				}) {
					return false
				}
				if oi == 0 && shape == 0 {
					e.tsks[j] = res
				}
			}
		}
	}
	// the inputs of the aggregation are still what the senders produced
	for i := 0; i < N; i++ {
		for j := 0; j < N; j++ {
			want := horner(coefs[i], e.pts[j], e.mods)
			ok, _, _ := cmpRows(rows(shares[i][j].Poly), want, e.mods)
			c.Check(ok, "C15|Thresholdizer.AggregateShares|input-share-modified", nil)
		}
	}
	// shares of different levels are refused with an error
	if e.params.MaxLevelQ() >= 1 && N >= 1 {
		full := e.tsks[0]
		low := multiparty.ShamirSecretShare{Poly: ringqp.Poly{Q: ring.Poly{Coeffs: full.Q.Coeffs[:len(full.Q.Coeffs)-1]}, P: full.P}}
		out := e.thr[0].AllocateThresholdSecretShare()
		for v, pair := range [][2]multiparty.ShamirSecretShare{{low, full}, {full, low}} {
			var err error
			p, val := eng.Panics(func() { err = e.thr[0].AggregateShares(pair[0], pair[1], &out) })
			c.Eval(1)
			switch {
			case p:
				c.Violate("C15|Thresholdizer.AggregateShares|level-mismatch|panic", fmt.Sprintf("variant %d: %v", v, val), e.witness(nil))
			case err == nil:
				c.Violate("C15|Thresholdizer.AggregateShares|level-mismatch|accepted", fmt.Sprintf("variant %d", v), e.witness(nil))
			default:
				c.Count("refusals_observed", 1)
			}
		}
	}

	// ---- combiners: the list of the other parties in any order, with or without the own point
	e.cmb = make([]multiparty.Combiner, N)
	for j := 0; j < N; j++ {
		j := j
		var others []multiparty.ShamirPublicPoint
		withOwn := rnd.Bool()
		for _, k := range rnd.Perm(N) {
			if k != j || withOwn {
				others = append(others, multiparty.ShamirPublicPoint(e.pts[k]))
			}
		}
		listed := append([]multiparty.ShamirPublicPoint(nil), others...)
		if !c.Try("C15|multiparty.NewCombiner", func() {
			e.cmb[j] = multiparty.NewCombiner(e.params, multiparty.ShamirPublicPoint(e.pts[j]), others, T)
		}) {
			return false
		}
		// the caller's directory of public points is an input (callers index it afterwards)
		c.Count("combiner_input_lists_compared", 1)
		if !c.Check(slices.Equal(listed, others), "C15|multiparty.NewCombiner|input-list-modified", func() string {
			return fmt.Sprintf("listed %v, after the call %v", listed, others)
		}) {
			return false
		}
	}
	return true
}

// refusals: every request with k < t active parties must return an error.
func (e *env) refusals() {
	c, rnd := e.c, e.c.Rand()
	out := rlwe.NewSecretKey(e.params)
	for j := 0; j < e.N; j++ {
		for k := 0; k < e.T; k++ {
			var lists [][]int
			// k parties including the caller (first / last), k parties without the caller
			var rest []int
			for _, x := range rnd.Perm(e.N) {
				if x != j {
					rest = append(rest, x)
				}
			}
			if k >= 1 {
				lists = append(lists, append([]int{j}, rest[:k-1]...), append(append([]int{}, rest[:k-1]...), j))
			}
			if k <= len(rest) {
				lists = append(lists, append([]int{}, rest[:k]...))
			}
			for li, l := range lists {
				act := e.spp(l)
				if k == 0 && li == 0 && rnd.Bool() {
					act = nil
				}
				var err error
				p, val := eng.Panics(func() {
					err = e.cmb[j].GenAdditiveShare(act, multiparty.ShamirPublicPoint(e.pts[j]), e.tsks[j], out)
				})
				c.Eval(1)
				switch {
				case p:
					c.Violate("C15|Combiner.GenAdditiveShare|fewer-than-t|panic", fmt.Sprintf("t=%d, %d active parties %v (caller %d): %v", e.T, k, l, j, val), e.witness(map[string]any{"active": l, "caller": j}))
				case err == nil:
					c.Violate("C15|Combiner.GenAdditiveShare|fewer-than-t|accepted", fmt.Sprintf("t=%d, %d active parties %v (caller %d): no error", e.T, k, l, j), e.witness(map[string]any{"active": l, "caller": j}))
				default:
					c.Count("refusals_observed", 1)
				}
			}
		}
	}
}

// tooFewCannotInterpolate: the harness interpolates the aggregated shares of every set of t-1 parties
// at 0 (exact model arithmetic). With honest masking polynomials of degree t-1 the result differs from
// the ideal secret (it is equal only if the aggregated top coefficient vanishes everywhere: probability
// < 2^-300).
func (e *env) tooFewCannotInterpolate() {
	if e.T < 2 {
		return
	}
	for _, A := range subsets(e.N, e.T-1) {
		acc := zeroRows(len(e.mods), e.n)
		for _, j := range A {
			l := make([]uint64, len(e.mods))
			for i, q := range e.mods {
				l[i] = lagrange(e.pts, A, j, q)
			}
			addInto(acc, scaleRows(rows(e.tsks[j].Poly), l, e.mods), e.mods)
		}
		same, _, _ := cmpRows(acc, e.ideal, e.mods)
		e.c.Count("too_few_interpolations", 1)
		e.c.Check(!same, "C15|Thresholdizer|t-1-parties-interpolate-the-secret", func() string {
			return fmt.Sprintf("t=%d: the aggregated shares of parties %v interpolate to the ideal secret", e.T, A)
		})
	}
}

// combine: every t-subset, every listing order.
func (e *env) combine() {
	c, rnd := e.c, e.c.Rand()
	N, T := e.N, e.T
	subs := subsets(N, T)
	ords := perms(T)
	total := len(subs) * len(ords)
	// (subset, order) pairs that also run the protocols
	protoAt := map[int]bool{}
	if e.cf.Proto > 0 {
		protoAt[rnd.N(total)] = true
		for k := 1; k < e.cf.Proto; k++ {
			protoAt[rnd.N(total)] = true
		}
	}
	outs := make([]*rlwe.SecretKey, N)
	for j := range outs {
		outs[j] = rlwe.NewSecretKey(e.params)
	}
	tsSnap := make([][][]uint64, N)
	for j := range tsSnap {
		tsSnap[j] = cloneRows(rows(e.tsks[j].Poly))
	}
	refDone := false
	ctr := -1
	for _, A := range subs {
		first := make(map[int][][]uint64, T)
		m := mask(A)
		for oi, ord := range ords {
			ctr++
			listed := make([]int, T)
			for x, y := range ord {
				listed[x] = A[y]
			}
			act := e.spp(listed)
			stock := e.cf.Points == "seq" && oi == 0 && m == 1<<T-1
			c.Distinct(fmt.Sprintf("%s/%x/%v", e.key, m, ord), T >= 2 && !stock)
			c.Count("orderings_enumerated", 1)
			sum := zeroRows(len(e.mods), e.n)
			failed := false
			for _, j := range listed {
				j := j
				if rnd.N(4) == 0 {
					e.fillUniform(outs[j].Value)
				}
				var err error
				if !c.Try("C15|Combiner.GenAdditiveShare", func() {
					err = e.cmb[j].GenAdditiveShare(act, multiparty.ShamirPublicPoint(e.pts[j]), e.tsks[j], outs[j])
				}) {
					return
				}
				if err != nil {
					c.Violate("C15|Combiner.GenAdditiveShare|error-on-admissible", fmt.Sprintf("t=%d active=%v caller=%d: %v", T, listed, j, err), e.witness(map[string]any{"active": listed}))
					return
				}
				c.Count("additive_shares_checked", 1)
				got := rows(outs[j].Value)
				if !c.Check(reduced(got, e.mods), "C15|Combiner.GenAdditiveShare|share-not-reduced", func() string {
					return fmt.Sprintf("t=%d active=%v caller=%d", T, listed, j)
				}) {
					failed = true
				}
				if oi == 0 {
					first[j] = cloneRows(got)
				} else {
					same, r, k := cmpRows(got, first[j], e.mods)
					if !c.Check(same, "C15|Combiner.GenAdditiveShare|depends-on-listing-order", func() string {
						return fmt.Sprintf("N=%d t=%d points=%v: party %d derives different shares for the listings %v and %v of the same active set (modulus#%d idx %d)", N, T, e.pts, j, A, listed, r, k)
					}) {
						failed = true
					}
				}
				addInto(sum, got, e.mods)
			}
			same, r, k := cmpRows(sum, e.ideal, e.mods)
			if !same {
				// which parties deviate from the Lagrange model
				var dev []int
				for _, j := range listed {
					l := make([]uint64, len(e.mods))
					for i, q := range e.mods {
						l[i] = lagrange(e.pts, A, j, q)
					}
					if ok, _, _ := cmpRows(rows(outs[j].Value), scaleRows(tsSnap[j], l, e.mods), e.mods); !ok {
						dev = append(dev, j)
					}
				}
				c.Eval(1)
				c.Violate("C15|Combiner.GenAdditiveShare|shares-do-not-sum-to-secret", fmt.Sprintf("N=%d t=%d points=%v (%s) active listing=%v: sum of the additive shares != sum of the original secrets (modulus#%d q=%d idx %d got %d want %d); parties whose share deviates from tsks_j*prod x_k/(x_k-x_j): %v", N, T, e.pts, e.cf.Points, listed, r, e.mods[r], k, sum[r][k], e.ideal[r][k], dev), e.witness(map[string]any{"active": listed}))
				failed = true
			} else {
				c.Eval(1)
			}
			if failed {
				continue
			}
			if protoAt[ctr] {
				e.proto(listed, outs, !refDone)
				refDone = true
			}
		}
		c.Count("subsets_enumerated", 1)
	}
	// the aggregated shares are inputs of the combination
	for j := range tsSnap {
		ok, _, _ := cmpRows(rows(e.tsks[j].Poly), tsSnap[j], e.mods)
		c.Check(ok && reduced(rows(e.tsks[j].Poly), e.mods), "C15|Combiner.GenAdditiveShare|own-share-modified", func() string { return fmt.Sprintf("party %d", j) })
	}
}

func f64(x *big.Int) float64 { f, _ := new(big.Float).SetInt(x).Float64(); return f }

// proto: the t listed parties alone run the collective public-key generation and a collective
// decryption (key switch to the zero key) with their additive shares; withRef adds the full N-party
// run with the original secrets.
func (e *env) proto(listed []int, outs []*rlwe.SecretKey, withRef bool) {
	c, rnd := e.c, e.c.Rand()
	params := e.params
	rqp := params.RingQP()
	skIdeal := rlwe.NewSecretKey(params)
	for i, row := range rows(skIdeal.Value) {
		copy(row, e.ideal[i])
	}
	B, _ := obs.ErrBound(params)
	type group struct {
		name string
		sks  []*rlwe.SecretKey
	}
	var act []*rlwe.SecretKey
	for _, j := range listed {
		act = append(act, outs[j])
	}
	groups := []group{{"t-parties", act}}
	if withRef {
		groups = append(groups, group{"all-N-parties-reference", e.sks})
	}
	key := make([]byte, 32)
	rnd.Read(key)
	for _, g := range groups {
		g := g
		np := float64(len(g.sks))
		// ---- collective public key
		c.Try("C15|PublicKeyGenProtocol|"+g.name, func() {
			crs, err := sampling.NewKeyedPRNG(key)
			if err != nil {
				panic(err)
			}
			ckg := multiparty.NewPublicKeyGenProtocol(params)
			crp := ckg.SampleCRP(crs)
			agg := ckg.AllocateShare()
			for x, sk := range g.sks {
				p := ckg
				if x&1 == 1 {
					p = ckg.ShallowCopy()
				}
				sh := p.AllocateShare()
				p.GenShare(sk, crp, &sh)
				ckg.AggregateShares(agg, sh, &agg)
			}
			pk := rlwe.NewPublicKey(params)
			ckg.GenPublicKey(agg, crp, pk)
			ph := rqp.NewPoly()
			rqp.MulCoeffsMontgomery(pk.Value[1], skIdeal.Value, ph)
			rqp.Add(ph, pk.Value[0], ph)
			rqp.INTT(ph, ph)
			rqp.IMForm(ph, ph)
			st := obs.Stat(centred(rows(ph), e.mods))
			bound := np * B
			c.Count("noise_measurements", 1)
			c.Max("max_noise_over_bound_x1000", int64(1000*f64(st.Max)/bound))
			c.Check(f64(st.Max) <= bound, "C15|PublicKeyGenProtocol|"+g.name+"|not-a-key-of-the-ideal-secret", func() string {
				return fmt.Sprintf("N=%d t=%d active=%v points=%v: |pk0+pk1*s_ideal|inf=2^%.1f, worst-case bound %.0f", e.N, e.T, listed, e.pts, st.MaxLog2, bound)
			})
		})
		// ---- collective decryption
		c.Try("C15|KeySwitchProtocol|"+g.name, func() {
			level := rnd.N(params.MaxLevelQ() + 1)
			isNTT := rnd.Bool()
			rq := params.RingQ().AtLevel(level)
			pt := rlwe.NewPlaintext(params, level)
			pt.IsNTT = isNTT
			for i := 0; i <= level; i++ {
				q := e.mods[i]
				for j := range pt.Value.Coeffs[i] {
					pt.Value.Coeffs[i][j] = rnd.U64() % q
				}
			}
			msg := obs.Plain(rq, pt.Value, isNTT, false)
			ct := rlwe.NewCiphertext(params, 1, level)
			ct.IsNTT = isNTT
			if err := rlwe.NewEncryptor(params, skIdeal).Encrypt(pt, ct); err != nil {
				panic(err)
			}
			ect := rq.NewPoly()
			rq.Sub(obs.Phase(params, &ct.Element, skIdeal), msg, ect)
			if f64(obs.Stat(obs.Centered(rq, ect)).Max) > B {
				c.Inconclusive("fresh secret-key encryption noise above its own worst-case bound (C03's domain)")
				return
			}
			sigF := eng.Pick(rnd, 3.2, 3.2, 256.0)
			ks, err := multiparty.NewKeySwitchProtocol(params, ring.DiscreteGaussian{Sigma: sigF, Bound: 6 * sigF})
			if err != nil {
				panic(err)
			}
			sigKS := math.Sqrt(params.NoiseFreshSK()*params.NoiseFreshSK() + sigF*sigF)
			Bks := math.Floor(6*sigKS + 0.5)
			zero := rlwe.NewSecretKey(params)
			agg := ks.AllocateShare(level)
			for x, sk := range g.sks {
				p := ks
				if x&1 == 1 {
					p = ks.ShallowCopy()
				}
				sh := p.AllocateShare(level)
				p.GenShare(sk, zero, ct, &sh)
				if err := ks.AggregateShares(agg, sh, &agg); err != nil {
					panic(err)
				}
			}
			out := rlwe.NewCiphertext(params, 1, level)
			ks.KeySwitch(ct, agg, out)
			dec := obs.Plain(rq, out.Value[0], out.IsNTT, false)
			d := rq.NewPoly()
			rq.Sub(dec, msg, d)
			rq.Sub(d, ect, d)
			st := obs.Stat(obs.Centered(rq, d))
			bound := np * Bks
			Ql := f64(rq.ModulusAtLevel[level])
			c.Count("noise_measurements", 1)
			if bound < Ql/8 {
				c.Count("meaningful_decryption_bounds", 1)
				c.Max("max_noise_over_bound_x1000", int64(1000*f64(st.Max)/bound))
			}
			c.Check(f64(st.Max) <= bound, "C15|KeySwitchProtocol|"+g.name+"|wrong-decryption", func() string {
				return fmt.Sprintf("N=%d t=%d active=%v points=%v level=%d ntt=%v: |decryption - message - e_ct|inf=2^%.1f, worst-case bound %.0f (Q_level=2^%.0f)", e.N, e.T, listed, e.pts, level, isNTT, st.MaxLog2, bound, math.Log2(Ql))
			})
		})
	}
	c.Count("protocol_runs", 1)
}
