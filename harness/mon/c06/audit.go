package c06

// Coverage-audit extensions: boundary parameter sets, receivers of another degree, evaluators
// obtained through ShallowCopy / WithKey, documented refusals (error, operands intact), extreme scalar
// arguments, level-0 operands, identity rotations, RotateHoisted into caller-supplied receivers,
// Parameters.GetOptimalScalingFactor and the rlwe.Scale arithmetic the evaluator relies on.

import (
	"fmt"
	"math"
	"math/big"

	"github.com/tuneinsight/lattigo/v6/core/rlwe"
	"github.com/tuneinsight/lattigo/v6/schemes/ckks"
	"github.com/tuneinsight/lattigo/v6/utils/bignum"

	"verif/harness/eng"
	"verif/harness/gen"
)

// ---------------------------------------------------------------------------------------------
// boundary parameter sets

// mkedge builds one boundary parameter set; tag names the boundary.
func mkedge(r *eng.Rand, tag string, ci bool, logN, ls int) (pcfg, bool) {
	depth, np := 2, 1
	switch tag {
	case "L0": // a single modulus: nothing can be rescaled, every operation runs at level 0 = max level
		depth = 0
		if ls > 64 {
			depth = 0 // two primes, one "rescaling pair" only
		}
	case "noP": // no auxiliary modulus: key-switching digits are the primes themselves
		np = 0
		depth = 2 + r.N(2)
	case "digits": // many RNS digits
		depth, np = 8+r.N(3), 1
		if ls > 64 {
			depth = 5 + r.N(2)
		}
	case "q61": // 61-bit moduli next to scale-sized ones
		depth, np = 2+r.N(2), 1+r.N(2)
	case "xe-tight", "xe-wide", "xs-dense", "xs-h1":
		depth, np = 2, 1+r.N(2)
	}
	cfg, ok := mkcfg(r, ci, logN, ls, depth, np)
	if !ok {
		return cfg, false
	}
	cfg.Tag = tag
	cfg.XsH = 0
	N := 1 << logN
	switch tag {
	case "q61":
		nth := uint64(2) << logN
		if ci {
			nth <<= 1
		}
		skip := map[uint64]bool{}
		for _, q := range cfg.Q {
			skip[q] = true
		}
		pr := gen.Primes(61, nth, 1+len(cfg.P), gen.PosBelow, skip)
		if len(pr) < 1+len(cfg.P) {
			return cfg, false
		}
		if ls <= 64 {
			cfg.Q[0], cfg.QBits[0] = pr[0], 61
		}
		copy(cfg.P, pr[1:])
	case "xe-tight":
		cfg.XeSigma, cfg.XeBound = 0.5, 1
	case "xe-wide":
		cfg.XeSigma, cfg.XeBound = 25.6, 153.6
	case "xs-dense":
		cfg.XsH = N
	case "xs-h1":
		cfg.XsH = 1
	}
	return cfg, true
}

func edgeCfgs(tier string, seed int64) []pcfg {
	r := eng.NewRand("c06-edge-cfgs", seed)
	var out []pcfg
	add := func(tag string, ci bool, logN, ls int) {
		if cfg, ok := mkedge(r, tag, ci, logN, ls); ok {
			out = append(out, cfg)
		}
	}
	add("L0", false, 4+r.N(3), eng.Pick(r, 30, 40, 50))
	add("noP", false, 4+r.N(2), eng.Pick(r, 36, 45))
	add("digits", false, 4+r.N(2), eng.Pick(r, 25, 30))
	add("q61", false, 4+r.N(3), eng.Pick(r, 20, 25, 30))
	add(eng.Pick(r, "xe-tight", "xe-wide"), false, 4+r.N(3), eng.Pick(r, 30, 45))
	add(eng.Pick(r, "xs-dense", "xs-h1"), r.Bool(), 4+r.N(3), eng.Pick(r, 33, 45))
	add(eng.Pick(r, "L0", "q61", "digits"), true, 4+r.N(2), eng.Pick(r, 24, 33))
	if tier == "thorough" {
		add("L0", false, 5, 80) // PREC128, two primes only
		add("L0", true, 5, 45)
		add("noP", true, 5, 45)
		add("noP", false, 5, 72)
		add("digits", false, 5, 70)
		add("q61", false, 6, 90)
		add("xe-tight", true, 5, 33)
		add("xe-wide", false, 5, 75)
		add("xs-dense", false, 6, 66)
		add("xs-h1", false, 5, 40)
	}
	return out
}

// ---------------------------------------------------------------------------------------------
// helpers

// thin: the larger rings take a sample of the enumerations (the cost of one judged call grows like
// N log N, what is enumerated does not depend on N).
func (s *st) thin() int {
	switch {
	case s.cfg.LogN >= 8:
		return 6
	case s.cfg.LogN == 7:
		return 3
	}
	return 2
}

// baseWith is base() with a chosen value class.
func (s *st) baseWith(level int, scale *big.Float, logSlots int, cls string, extra ...*ent) *ent {
	s.dead = false
	s.prog = s.prog[:0]
	room := s.maxMagAt(scale, level)
	if room < 1.5 {
		cls = "tiny"
	}
	e := s.fresh(level, scale, logSlots, s.genVals(1<<logSlots, cls, room, s.cfg.CI), s.rnd.Bool())
	s.pool = s.pool[:0]
	if e != nil {
		s.pool = append(s.pool, e)
	}
	for _, x := range extra {
		if x != nil {
			s.pool = append(s.pool, s.clone(x))
		}
	}
	return e
}

// product returns an unrelinearised product (degree 2) of two fresh ciphertexts; the pool is reset.
func (s *st) product(level int, logSlots int) *ent {
	if !s.fits(fmul(s.defScale, s.defScale), 4, level) {
		return nil
	}
	x := s.base(level, s.defScale, logSlots)
	y := s.fresh(level, s.defScale, logSlots, s.genVals(1<<logSlots, "unit", 1, s.cfg.CI), true)
	if x == nil || y == nil {
		return nil
	}
	s.pool = append(s.pool, y)
	d2, _ := s.binary("Mul", x, &operand{kind: "ct", e: y, cls: "-"}, "fresh")
	return d2
}

// ---------------------------------------------------------------------------------------------
// extreme scalar arguments (part of the "scalar" cases)

func (s *st) extremeScalars() []*operand {
	var out []*operand
	prec := s.encPrec
	add := func(kind, cls string, v any, re, im *big.Float) {
		if im == nil {
			im = fnew()
		}
		if s.cfg.CI && im.Sign() != 0 {
			return
		}
		o := &operand{kind: kind, cls: "x:" + cls, v: v}
		o.z = cx{roundPrec(re, prec), roundPrec(im, prec)}
		o.zint = o.z.re.IsInt() && o.z.im.IsInt()
		out = append(out, o)
	}
	bi := func(x *big.Int) *big.Float { return fI(x) }
	two := func(k uint) *big.Int { return new(big.Int).Lsh(big.NewInt(1), k) }
	add("int64", "min", int64(math.MinInt64), fnew().SetInt64(math.MinInt64), nil)
	add("int64", "max", int64(math.MaxInt64), fnew().SetInt64(math.MaxInt64), nil)
	add("int", "min", int(math.MinInt64), fnew().SetInt64(math.MinInt64), nil)
	add("int", "max", int(math.MaxInt64), fnew().SetInt64(math.MaxInt64), nil)
	add("uint64", "max", uint64(math.MaxUint64), fnew().SetUint64(math.MaxUint64), nil)
	add("uint64", "2^63", uint64(1)<<63, fnew().SetUint64(1<<63), nil)
	add("uint", "max", uint(math.MaxUint64), fnew().SetUint64(math.MaxUint64), nil)
	{
		a := two(64)
		b := new(big.Int).Neg(new(big.Int).Add(two(64), big.NewInt(1)))
		c := new(big.Int).Add(two(100), big.NewInt(1))
		d := new(big.Int).Neg(new(big.Int).Sub(two(127), big.NewInt(1)))
		add("*big.Int", "2^64", a, bi(a), nil)
		add("*big.Int", "-(2^64+1)", b, bi(b), nil)
		add("*big.Int", "2^100+1", c, bi(c), nil)
		add("*big.Int", "-(2^127-1)", d, bi(d), nil)
		add("*big.Int", "zero-value", new(big.Int), fnew(), nil)
	}
	negz := math.Copysign(0, -1)
	add("float64", "-0", negz, fnew(), nil)
	add("float64", "denormal", 5e-324, fF(5e-324), nil)
	add("float64", "-minnormal", -2.2250738585072014e-308, fF(-2.2250738585072014e-308), nil)
	add("float64", "2^62", math.Ldexp(1, 62), fF(math.Ldexp(1, 62)), nil)
	add("float64", "1-ulp", 1-math.Ldexp(1, -53), fF(1-math.Ldexp(1, -53)), nil)
	add("float64", "2^53+2", math.Ldexp(1, 53)+2, fF(math.Ldexp(1, 53)+2), nil)
	add("complex128", "int+frac*i", complex(3, 0.5), fF(3), fF(0.5))
	add("complex128", "frac-int*i", complex(0.5, -2), fF(0.5), fF(-2))
	add("complex128", "-0+i", complex(negz, 1), fnew(), fF(1))
	add("complex128", "2^40+2^-40i", complex(math.Ldexp(1, 40), math.Ldexp(1, -40)), fF(math.Ldexp(1, 40)), fF(math.Ldexp(1, -40)))
	add("complex128", "real-only-big", complex(-math.Ldexp(1, 60), 0), fF(-math.Ldexp(1, 60)), nil)
	{
		lo := new(big.Float).SetPrec(10).SetFloat64(0.75)
		third := new(big.Float).SetPrec(500).Quo(big.NewFloat(1), big.NewFloat(3))
		nthird := new(big.Float).SetPrec(500).Neg(third)
		big80 := new(big.Float).SetPrec(30).SetMantExp(big.NewFloat(1.5), 80)
		zero := new(big.Float)
		add("*big.Float", "prec10", lo, fB(lo), nil)
		add("*big.Float", "1/3@500", third, fB(third), nil)
		add("*big.Float", "-1/3@500", nthird, fB(nthird), nil)
		add("*big.Float", "1.5*2^80@30", big80, fB(big80), nil)
		add("*big.Float", "zero-value", zero, fnew(), nil)
		add("*bignum.Complex", "mixed-prec", &bignum.Complex{third, new(big.Float).SetPrec(10).SetFloat64(2)}, fB(third), fF(2))
		add("*bignum.Complex", "int-re/frac-im", &bignum.Complex{new(big.Float).SetPrec(64).SetInt64(-7), nthird}, fF(-7), fB(nthird))
		add("*bignum.Complex", "zero-values", &bignum.Complex{new(big.Float), new(big.Float)}, fnew(), nil)
	}
	return out
}

func (s *st) dirExtreme() {
	r := s.rnd
	L := s.params.MaxLevel()
	dirty := s.fresh(L, s.defScale, s.logMax, s.genVals(s.maxSlots, "unit", 1, s.cfg.CI), true)
	xs := s.extremeScalars()
	thin := s.thin()
	for _, op := range []string{"Add", "Sub", "Mul", "MulRelin", "MulThenAdd"} {
		for _, o := range xs {
			if op == "MulRelin" && r.N(4) != 0 || r.N(thin) != 0 {
				continue
			}
			// the message must fit: large constants meet small messages at the top level
			cls := "unit"
			room := s.maxMagAt(s.defScale, L)
			if op == "Add" || op == "Sub" {
				if o.abs()+1.5 > room {
					s.c.Count("extreme_scalars_skipped_no_room", 1)
					continue
				}
			} else {
				lr := room
				if !o.zint {
					lr = s.maxMagAt(s.defScale, L-s.lcpr)
				}
				switch {
				case o.abs()*1.5 <= lr:
				case o.abs()*math.Ldexp(1.5, -20) <= lr:
					cls = "tiny"
				default:
					s.c.Count("extreme_scalars_skipped_no_room", 1)
					continue
				}
			}
			a := s.baseWith(L, s.defScale, s.randLogSlots(), cls, dirty)
			if a == nil {
				return
			}
			s.c.Count("extreme_scalar_calls", 1)
			if op == "MulThenAdd" {
				s.dirMTAScalar(a, o)
				continue
			}
			s.binary(op, a, o, eng.Pick(r, "fresh", "new", "op0", "garbage"))
		}
	}
}

// dirLevel0: scalar and vector operands at the bottom of the chain (level 0; in the two-primes-per-
// rescaling mode also level 1), where nothing can be rescaled any more.
func (s *st) dirLevel0() {
	r := s.rnd
	for lvl := 0; lvl < s.lcpr && lvl <= s.params.MaxLevel(); lvl++ {
		for _, op := range []string{"Add", "Sub", "Mul"} {
			for _, kind := range scalarKinds {
				for _, cls := range []string{"zero", "one", "minus", "smallint", "frac", "imag"} {
					if op == "Mul" && (cls == "frac" || cls == "imag") {
						continue // a non-integer constant consumes the primes of a rescaling
					}
					if r.N(3*s.thin()) != 0 {
						continue
					}
					a := s.base(lvl, s.defScale, s.randLogSlots())
					if a == nil {
						return
					}
					room := s.maxMagAt(a.scale(), lvl)
					lim := room - a.mag
					if op == "Mul" {
						lim = room / math.Max(a.mag, 1e-3)
					}
					if lim < 1 {
						continue
					}
					o := s.scalar(kind, cls, lim)
					if o == nil || (op == "Mul" && !o.zint) {
						continue
					}
					s.c.Count("level0_scalar_vector_calls", 1)
					s.binary(op, a, o, eng.Pick(r, "fresh", "new", "op0"))
				}
			}
			if op == "Mul" {
				continue
			}
			for _, kind := range vectorKinds {
				ls := s.randLogSlots()
				a := s.base(lvl, s.defScale, ls)
				if a == nil {
					return
				}
				lim := s.maxMagAt(a.scale(), lvl) - a.mag
				cls := eng.Pick(r, "unit", "edge", "onehot", "tiny")
				if lim < 1.5 {
					cls = "tiny"
				}
				n0 := 1 << ls
				s.c.Count("level0_scalar_vector_calls", 1)
				s.binary(op, a, s.vector(kind, cls, eng.Pick(r, n0, (n0+1)/2, 1), lim), eng.Pick(r, "fresh", "new", "op0"))
			}
		}
	}
}

// ---------------------------------------------------------------------------------------------
// Parameters helpers and rlwe.Scale arithmetic (part of the "scale" cases)

func relDiff(got, want *big.Float) float64 {
	d := new(big.Float).SetPrec(512).Sub(got, want)
	d.Abs(d)
	if want.Sign() == 0 {
		if d.Sign() == 0 {
			return 0
		}
		return math.Inf(1)
	}
	d.Quo(d, new(big.Float).SetPrec(512).Abs(want))
	return f64(d)
}

func (s *st) dirParams() {
	c, p := s.c, s.params
	L := p.MaxLevel()
	c.Check((p.PrecisionMode() == ckks.PREC128) == (s.cfg.LogScale > 64) && (p.PrecisionMode() == ckks.PREC64) == (s.cfg.LogScale <= 64),
		"C06|Parameters.PrecisionMode|wrong-value", func() string { return fmt.Sprintf("LogDefaultScale=%d mode=%v", s.cfg.LogScale, p.PrecisionMode()) })
	prod := big.NewInt(1)
	for l, q := range s.q {
		prod = new(big.Int).Mul(prod, new(big.Int).SetUint64(q))
		pl := new(big.Int).Set(prod)
		c.Check(p.QLvl(l).Cmp(pl) == 0 && p.LogQLvl(l) == pl.BitLen(), "C06|Parameters.QLvl|wrong-value", func() string {
			return fmt.Sprintf("level %d: QLvl=%v LogQLvl=%d, product of the primes %v (%d bits)", l, p.QLvl(l), p.LogQLvl(l), pl, pl.BitLen())
		})
	}
	wantSlots := s.N / 2
	if s.cfg.CI {
		wantSlots = s.N
	}
	ds := p.DefaultScale()
	c.Check(p.MaxSlots() == wantSlots && 1<<p.LogMaxSlots() == wantSlots && L == len(s.cfg.Q)-1 && ds.Value.Cmp(new(big.Float).SetMantExp(big.NewFloat(1), s.cfg.LogScale)) == 0,
		"C06|Parameters.MaxSlots|wrong-value", func() string {
			return fmt.Sprintf("MaxSlots=%d LogMaxSlots=%d MaxLevel=%d DefaultScale=2^%.6f", p.MaxSlots(), p.LogMaxSlots(), L, ds.Log2())
		})

	// GetOptimalScalingFactor(a, c, level): "a scaling factor b such that Rescale(a * b) = c"
	for lvl := L; lvl >= s.lcpr; lvl-- {
		S := s.prodQ(lvl, s.lcpr)
		drift := fquo(fmul(s.defScale, s.defScale), s.qf[lvl])
		type pair struct {
			name string
			a, c *big.Float
		}
		pairs := []pair{
			{"eq", fB(s.defScale), fB(s.defScale)},
			{"eq-hostile", s.hostileScale(s.defScale, 2), s.hostileScale(s.defScale, 2)},
			{"drift-to-default", drift, fB(s.defScale)},
			{"hostile-to-default", s.hostileScale(s.defScale, 5), fB(s.defScale)},
			{"default-to-x3", fB(s.defScale), fmul(s.defScale, fF(3))},
		}
		for _, pr := range pairs {
			if flog2(pr.a) < 14 {
				continue
			}
			a, cc := rlwe.NewScale(pr.a), rlwe.NewScale(pr.c)
			af, cf := fB(&a.Value), fB(&cc.Value)
			var b rlwe.Scale
			sig := "C06|Parameters.GetOptimalScalingFactor|wrong-value"
			if af.Cmp(cf) != 0 {
				sig += "|a-ne-c" // one root cause: the operand scales are not used
			}
			c.Distinct("GetOptimalScalingFactor|"+pr.name+"|"+s.cfg.Fam, true)
			if !c.Try("C06|Parameters.GetOptimalScalingFactor", func() { b = p.GetOptimalScalingFactor(a, cc, lvl) }) {
				continue
			}
			want := fquo(fmul(cf, S), af)
			rd := relDiff(&b.Value, want)
			ok := rd <= tol100
			c.Check(ok, sig, func() string {
				return fmt.Sprintf("GetOptimalScalingFactor(a=2^%.6f, c=2^%.6f, level %d) = 2^%.6f; Rescale(a*b)=c needs b = c*q/a = 2^%.6f (rel. diff 2^%.1f)",
					flog2(af), flog2(cf), lvl, b.Log2(), flog2(want), math.Log2(rd))
			})
			c.Count("optimal_scaling_factor_checks", 1)
			if !ok || !s.fits(fmul(af, fB(&b.Value)), 2, lvl) || !s.fits(cf, 2, lvl-s.lcpr) {
				continue
			}
			// the composition itself: ct(a) * pt(b), rescaled, carries exactly c
			ct := s.baseWith(lvl, af, s.randLogSlots(), "unit")
			if ct == nil {
				continue
			}
			pt := s.plain(lvl, fB(&b.Value), ct.logSlots(), s.genVals(1<<ct.logSlots(), "unit", 1, s.cfg.CI), true)
			if pt == nil {
				continue
			}
			s.pool = append(s.pool, pt)
			res, _ := s.binary("Mul", ct, &operand{kind: "pt", e: pt, cls: "osf"}, "new") // at the level of the operands
			if res == nil {
				continue
			}
			res, _ = s.rescale(res, "op0")
			if res == nil {
				continue
			}
			rd2 := relDiff(&res.ct.Scale.Value, cf)
			c.Check(rd2 <= tol100, sig+"|after-rescale", func() string {
				return fmt.Sprintf("ct(2^%.6f) * pt(GetOptimalScalingFactor) rescaled carries 2^%.9f, target 2^%.9f", flog2(af), res.ct.Scale.Log2(), flog2(cf))
			})
			c.Count("optimal_scaling_factor_compositions", 1)
		}
	}
}

// dirScaleArith checks the scale arithmetic of core/rlwe/scale.go (floating-point scales, Mod == nil)
// against exact arithmetic: the bookkeeping of every evaluator call is made of these.
func (s *st) dirScaleArith() {
	c := s.c
	// one evaluation per value / ordered pair (several predicates each)
	chk := func(ok bool, sig string, detail func() string) {
		if !ok {
			c.Violate(sig, detail(), map[string]any{"cfg": s.cfg})
		}
	}
	var xs []rlwe.Scale
	addF := func(x *big.Float) { xs = append(xs, rlwe.NewScale(x)) }
	addF(s.defScale)
	for w := 1; w < 6; w++ {
		addF(s.hostileScale(s.defScale, w))
	}
	for _, q := range s.q {
		xs = append(xs, rlwe.NewScale(q))
	}
	if S := s.prodQ(s.params.MaxLevel(), min(2, len(s.q))); S != nil {
		addF(S)
	}
	xs = append(xs, rlwe.NewScale(1), rlwe.NewScale(int64(3)), rlwe.NewScale(math.Ldexp(1, -20)), rlwe.NewScale(1/3.0),
		rlwe.NewScale(new(big.Int).Lsh(big.NewInt(5), 200)), rlwe.NewScale(uint64(math.MaxUint64)), rlwe.NewScale(2.5), rlwe.NewScale(3.5))
	hp := func(x *big.Float) *big.Float { return new(big.Float).SetPrec(512).Set(x) }
	tol := math.Ldexp(1, -127)
	for i := range xs {
		x := xs[i]
		xv := hp(&x.Value)
		c.Eval(1)
		chk(x.Value.Prec() == 128 && x.Mod == nil, "C06|Scale.NewScale|wrong-precision", func() string { return fmt.Sprintf("prec %d mod %v", x.Value.Prec(), x.Mod) })
		// conversions
		f := x.Float64()
		chk(relDiff(new(big.Float).SetFloat64(f), xv) <= math.Ldexp(1, -52), "C06|Scale.Float64|wrong-value", func() string { return fmt.Sprintf("%v -> %v", xv, f) })
		if xv.Cmp(new(big.Float).SetUint64(math.MaxUint64)) <= 0 {
			fl, _ := xv.Int(nil)
			chk(new(big.Int).SetUint64(x.Uint64()).Cmp(fl) == 0, "C06|Scale.Uint64|wrong-value", func() string { return fmt.Sprintf("%v -> %d", xv, x.Uint64()) })
		}
		d := new(big.Float).SetPrec(512).Sub(new(big.Float).SetPrec(512).SetInt(x.BigInt()), xv)
		chk(d.Abs(d).Cmp(big.NewFloat(0.5+1e-15)) <= 0, "C06|Scale.BigInt|wrong-value", func() string { return fmt.Sprintf("%v -> %v", xv, x.BigInt()) })
		lg := flog2(xv)
		chk(math.Abs(x.Log2()-lg) <= 1e-9*math.Max(1, math.Abs(lg)), "C06|Scale.Log2|wrong-value", func() string { return fmt.Sprintf("%v -> %v, expected %v", xv, x.Log2(), lg) })
		for j := range xs {
			y := xs[j]
			yv := hp(&y.Value)
			m, q := x.Mul(y), x.Div(y)
			em := new(big.Float).SetPrec(512).Mul(xv, yv)
			eq := new(big.Float).SetPrec(512).Quo(xv, yv)
			chk(relDiff(&m.Value, em) <= tol && m.Mod == nil, "C06|Scale.Mul|wrong-value", func() string { return fmt.Sprintf("%v * %v = %v", xv, yv, &m.Value) })
			chk(relDiff(&q.Value, eq) <= tol && q.Mod == nil, "C06|Scale.Div|wrong-value", func() string { return fmt.Sprintf("%v / %v = %v", xv, yv, &q.Value) })
			sgn := new(big.Float).SetPrec(1024).Sub(xv, yv).Sign()
			chk(x.Cmp(y) == sgn && x.Equal(y) == (sgn == 0), "C06|Scale.Cmp|wrong-value", func() string { return fmt.Sprintf("Cmp(%v, %v) = %d Equal=%v", xv, yv, x.Cmp(y), x.Equal(y)) })
			mx, mn := x.Max(y), x.Min(y)
			hi, lo := xv, yv
			if sgn < 0 {
				hi, lo = yv, xv
			}
			chk(hp(&mx.Value).Cmp(hi) == 0 && hp(&mn.Value).Cmp(lo) == 0, "C06|Scale.Max,Min|wrong-value", func() string { return fmt.Sprintf("Max/Min(%v, %v) = %v / %v", xv, yv, &mx.Value, &mn.Value) })
			// Log2Delta = -log2(|a-b| / max(a,b)); InDelta(b, t) <=> Log2Delta >= t
			ld := x.Log2Delta(y)
			if sgn == 0 {
				chk(math.IsInf(ld, 1) && x.InDelta(y, 1000), "C06|Scale.Log2Delta,InDelta|wrong-value", func() string {
					return fmt.Sprintf("equal scales: Log2Delta=%v InDelta(1000)=%v", ld, x.InDelta(y, 1000))
				})
			} else {
				dd := new(big.Float).SetPrec(1024).Sub(xv, yv)
				dd.Abs(dd).Quo(dd, hi)
				want := -flog2(dd)
				chk(math.Abs(ld-want) <= 1e-6*math.Max(1, math.Abs(want)) && x.InDelta(y, want-0.01) && !x.InDelta(y, want+0.01), "C06|Scale.Log2Delta,InDelta|wrong-value", func() string {
					return fmt.Sprintf("Log2Delta(%v, %v) = %v, expected %v; InDelta(-0.01)=%v InDelta(+0.01)=%v", xv, yv, ld, want, x.InDelta(y, want-0.01), x.InDelta(y, want+0.01))
				})
			}
			c.Eval(1)
			c.Count("scale_arithmetic_pairs", 1)
		}
	}
	c.Distinct("Scale-arithmetic|"+s.cfg.Fam, true)
}

// dirRotId: rotations by multiples of the slot count (plain copies), by k +- slots (the same Galois
// element as k), RotateHoisted into caller-supplied receivers, degree-2 receivers (refused).
func (s *st) dirRotId() {
	r := s.rnd
	L := s.params.MaxLevel()
	n := s.maxSlots
	dirty := s.fresh(L, s.defScale, s.logMax, s.genVals(s.maxSlots, "unit", 1, s.cfg.CI), true)
	for _, lvl := range []int{L, s.randLevel(0)} {
		for _, k := range []int{0, n, -n, 2 * n} {
			if a := s.base(lvl, s.defScale, s.randLogSlots(), dirty); a != nil {
				s.c.Count("identity_rotations", 1)
				s.rotate(a, k, false, eng.Pick(r, "fresh", "new", "op0", "garbage"))
			}
		}
		for i, k := range s.rots {
			if i >= 2 {
				break
			}
			for _, k2 := range []int{k + n, k - n} {
				if s.params.GaloisElement(k2) != s.params.GaloisElement(k) {
					continue
				}
				if a := s.base(lvl, s.defScale, s.randLogSlots(), dirty); a != nil {
					s.c.Count("rotations_beyond_slot_count", 1)
					s.rotate(a, k2, false, eng.Pick(r, "fresh", "new", "op0", "garbage"))
				}
			}
		}
		if a := s.base(lvl, s.defScale, s.randLogSlots(), dirty); a != nil {
			s.rotate(a, s.rots[r.N(len(s.rots))], false, "large")
		}
		if a := s.base(lvl, s.defScale, s.randLogSlots(), dirty); a != nil && !s.cfg.CI {
			s.rotate(a, 0, true, "large")
		}
		if !s.hasP {
			continue // hoisted rotations are defined only with an auxiliary modulus
		}
		if a := s.base(lvl, s.hostileScale(s.defScale, r.N(6)), s.randLogSlots(), dirty); a != nil {
			ks := append([]int{0}, s.rots...)
			ks = append(ks, n)
			s.c.Count("hoisted_rotations_into_receivers", 1)
			s.rotateHoistedInto(a, ks)
		}
		if a := s.base(lvl, s.defScale, s.randLogSlots(), dirty); a != nil {
			s.rotateHoisted(a, append([]int{0}, s.rots[0]))
		}
	}
}

// ---------------------------------------------------------------------------------------------
// "recv": receivers that were used before and have another degree than the result

func (s *st) dirRecv() {
	r := s.rnd
	for _, op := range []string{"Add", "Sub", "Mul", "MulRelin"} {
		isMul := op == "Mul" || op == "MulRelin"
		for _, bk := range []string{"ct", "ct-uneq", "pt", "int", "frac", "vec", "d2+int", "d2+ct"} {
			for _, mode := range []string{"large", "small", "deg0"} {
				d2 := bk == "d2+int" || bk == "d2+ct"
				wantDeg2 := d2 || (op == "Mul" && (bk == "ct" || bk == "ct-uneq"))
				if mode == "deg0" {
					// every result shape, one call in three
					if (d2 && isMul) || r.N(3) != 0 {
						continue
					}
				} else if (mode == "small") != wantDeg2 || (d2 && isMul) || (s.cfg.LogN >= 8 && r.N(2) == 0) {
					continue
				}
				lvl := s.randLevel(s.lcpr)
				ls := s.randLogSlots()
				var a *ent
				if d2 {
					a = s.product(lvl, ls)
				} else {
					a = s.base(lvl, s.defScale, ls)
				}
				if a == nil {
					continue
				}
				room := s.maxMagAt(a.scale(), lvl)
				lim := room - a.mag
				if isMul {
					lim = s.maxMagAt(a.scale(), lvl-s.lcpr) / math.Max(a.mag, 1e-3)
				}
				if lim < 1 {
					continue
				}
				var o *operand
				switch bk {
				case "ct", "ct-uneq", "pt", "d2+ct":
					sB := fB(s.defScale)
					if bk == "ct-uneq" {
						sB = s.hostileScale(s.defScale, 1+r.N(5))
					}
					if bk == "d2+ct" {
						sB = a.scale()
					}
					l1 := lvl
					if r.N(3) == 0 {
						l1 = s.randLevel(0)
					}
					lmin := min(lvl, l1)
					if !s.fits(sB, 2, lmin) || (isMul && !s.fits(fmul(a.scale(), sB), 4, lmin)) {
						continue
					}
					vals := s.genVals(1<<ls, "unit", 1, s.cfg.CI)
					var e *ent
					if bk == "pt" {
						e = s.plain(l1, sB, ls, vals, r.Bool())
					} else {
						e = s.fresh(l1, sB, ls, vals, r.Bool())
					}
					if e == nil {
						continue
					}
					s.pool = append(s.pool, e)
					o = &operand{kind: "ct", e: e, cls: "-"}
					if bk == "pt" {
						o.kind = "pt"
					}
				case "int", "d2+int":
					o = s.scalar(eng.Pick(r, "int", "int64", "uint64", "*big.Int", "float64", "complex128"), "smallint", lim)
				case "frac":
					o = s.scalar(eng.Pick(r, "float64", "complex128", "*big.Float", "*bignum.Complex"), "frac", lim)
				case "vec":
					n0 := 1 << ls
					cls := "unit"
					if lim < 1.5 {
						cls = "tiny"
					}
					o = s.vector(eng.Pick(r, vectorKinds...), cls, eng.Pick(r, n0, (n0+1)/2, 1), lim)
				}
				if o == nil {
					continue
				}
				s.c.Count("receiver_other_degree_calls", 1)
				s.binary(op, a, o, mode)
			}
		}
	}
	// unary operations
	for rep := 0; rep < 2; rep++ {
		lvl := s.randLevel(s.lcpr)
		S := s.prodQ(lvl, s.lcpr)
		if S == nil || lvl < s.lcpr {
			break
		}
		prodScale := fmul(s.defScale, S)
		mk1 := func() *ent {
			if !s.fits(prodScale, 1, lvl) {
				return nil
			}
			return s.base(lvl, prodScale, s.randLogSlots())
		}
		if a := mk1(); a != nil {
			s.rescale(a, "large")
		}
		if a := mk1(); a != nil {
			s.rescaleTo(a, s.defScale, "large", "recv")
		}
		if a := mk1(); a != nil {
			s.rescaleTo(a, fmul(a.scale(), fF(4)), "large", "recv-nop") // nothing to divide: a plain copy
		}
		if a := s.base(lvl, s.defScale, s.randLogSlots()); a != nil {
			s.scaleUp(a, uint64(2+r.N(1000)), "large")
		}
		if a := s.product(lvl, s.randLogSlots()); a != nil {
			s.rescale(a, "small")
		}
		if a := s.product(lvl, s.randLogSlots()); a != nil {
			s.rescaleTo(a, s.defScale, "small", "recv")
		}
		if a := s.product(lvl, s.randLogSlots()); a != nil {
			s.rescaleTo(a, fmul(a.scale(), fF(4)), "small", "recv-nop")
		}
		if a := s.product(lvl, s.randLogSlots()); a != nil {
			s.scaleUp(a, 3, "small")
		}
		if a := s.product(lvl, s.randLogSlots()); a != nil {
			s.relin(a, "large")
		}
		if a := s.base(lvl, s.defScale, s.randLogSlots()); a != nil {
			s.rotate(a, s.rots[r.N(len(s.rots))], false, "large")
		}
		// a receiver whose degree went 2 -> 1 -> 2: a product relinearised in place, then the accumulator of a
		// non-relinearising MulThenAdd (the third component it grows back must start from zero)
		ls := s.logMax
		if acc := s.product(lvl, ls); acc != nil {
			if r1, _ := s.relin(acc, "op0"); r1 != nil && r1.deg() == 1 {
				x := s.base(r1.level(), s.defScale, ls)
				y := s.fresh(r1.level(), s.defScale, ls, s.genVals(1<<ls, "unit", 1, s.cfg.CI), true)
				if x != nil && y != nil {
					s.pool = append(s.pool, y)
					s.c.Count("accumulators_with_degree_history_2_1_2", 1)
					s.mulThenAdd(false, x, &operand{kind: "ct", e: y, cls: "-"}, r1)
				}
			}
		}
	}
}

// ---------------------------------------------------------------------------------------------
// "refuse": documented refusals return an error (no panic, no silent success) and leave the
// input operands bit-identical; the evaluator keeps working afterwards.

func (s *st) dirRefuse() {
	r := s.rnd
	L := s.params.MaxLevel()
	ev := s.eval
	ls := s.logMax
	a := s.base(L, s.defScale, ls)
	if a == nil {
		return
	}
	b := s.fresh(L, s.defScale, ls, s.genVals(1<<ls, "unit", 1, s.cfg.CI), true)
	ptE := s.plain(L, s.defScale, ls, s.genVals(1<<ls, "unit", 1, s.cfg.CI), true)
	if b == nil || ptE == nil {
		return
	}
	s.pool = append(s.pool, b)
	newOut := func(deg int) *rlwe.Ciphertext { return ckks.NewCiphertext(s.params, deg, L) }
	type binop struct {
		name string
		f    func(op0 *rlwe.Ciphertext, op1 rlwe.Operand, out *rlwe.Ciphertext) error
	}
	ops := []binop{
		{"Add", ev.Add}, {"Sub", ev.Sub}, {"Mul", ev.Mul}, {"MulRelin", ev.MulRelin}, {"MulThenAdd", ev.MulThenAdd}, {"MulRelinThenAdd", ev.MulRelinThenAdd},
		{"AddNew", func(x *rlwe.Ciphertext, y rlwe.Operand, _ *rlwe.Ciphertext) error {
			_, err := ev.AddNew(x, y)
			return err
		}},
		{"SubNew", func(x *rlwe.Ciphertext, y rlwe.Operand, _ *rlwe.Ciphertext) error {
			_, err := ev.SubNew(x, y)
			return err
		}},
		{"MulNew", func(x *rlwe.Ciphertext, y rlwe.Operand, _ *rlwe.Ciphertext) error {
			_, err := ev.MulNew(x, y)
			return err
		}},
		{"MulRelinNew", func(x *rlwe.Ciphertext, y rlwe.Operand, _ *rlwe.Ciphertext) error {
			_, err := ev.MulRelinNew(x, y)
			return err
		}},
	}
	// 1. operand types outside the documented list ("Passing an invalid type will return an error")
	bad := []any{"1.0", int32(3), []int{1, 2}, nil, float32(0.5), []complex64{1}, uint8(1), complex64(1), []int64{1}, [2]float64{1, 2}, &[]float64{1}, true}
	for _, op := range ops {
		for t := 0; t < 2; t++ {
			v := bad[r.N(len(bad))]
			op := op
			s.refuse(op.name, "invalid-operand-type", func() error { return op.f(a.ct, v, newOut(1)) }, a.ct.El())
		}
	}
	// 2. vectors longer than MaxSlots ("of size at most params.MaxSlots()")
	for _, op := range ops {
		kind := eng.Pick(r, vectorKinds...)
		n := s.maxSlots + 1 + r.N(s.maxSlots)
		o := s.vector(kind, "unit", n, 1)
		op := op
		s.refuse(op.name, "vector-longer-than-max-slots", func() error { return op.f(a.ct, o.v, newOut(1)) }, a.ct.El())
	}
	// 3. operands the rlwe layer documents as rejected (InitOutputBinaryOp / InitOutputUnaryOp)
	{
		nonNTT := ptE.pt.CopyNew()
		nonNTT.IsNTT = false
		nonBatched := ptE.pt.CopyNew()
		nonBatched.IsBatched = false
		nilMeta := ptE.pt.CopyNew()
		nilMeta.MetaData = nil
		ctNonNTT := a.ct.CopyNew()
		ctNonNTT.IsNTT = false
		ctNilMeta := a.ct.CopyNew()
		ctNilMeta.MetaData = nil
		deg0 := ckks.NewCiphertext(s.params, 0, L)
		outNil := newOut(1)
		outNil.MetaData = nil
		for _, op := range ops[:6] {
			op := op
			if r.Bool() {
				s.refuse(op.name, "operand-not-NTT", func() error { return op.f(a.ct, nonNTT, newOut(1)) }, a.ct.El(), nonNTT.El())
			} else {
				s.refuse(op.name, "operand-not-NTT", func() error { return op.f(ctNonNTT, eng.Pick(r, any(2), any(0.5), any(b.ct)), newOut(1)) }, ctNonNTT.El())
			}
			s.refuse(op.name, "operand-batching-mismatch", func() error { return op.f(a.ct, nonBatched, newOut(1)) }, a.ct.El(), nonBatched.El())
			switch r.N(3) {
			case 0:
				s.refuse(op.name, "nil-metadata", func() error { return op.f(a.ct, nilMeta, newOut(1)) }, a.ct.El(), nilMeta.El())
			case 1:
				s.refuse(op.name, "nil-metadata", func() error {
					return op.f(ctNilMeta, eng.Pick(r, any(2), any(0.5), any(b.ct), any([]float64{1})), newOut(1))
				}, ctNilMeta.El())
			default:
				s.refuse(op.name, "nil-metadata", func() error { return op.f(a.ct, eng.Pick(r, any(2), any(0.5), any(b.ct), any([]float64{1})), outNil) }, a.ct.El(), b.ct.El())
			}
			s.refuse(op.name, "both-operands-degree-0", func() error { return op.f(deg0, ptE.pt, newOut(1)) }, deg0.El(), ptE.pt.El())
		}
	}
	// 4. degree preconditions
	d2, _ := s.binary("Mul", a, &operand{kind: "ct", e: b, cls: "-"}, "fresh")
	k := s.rots[r.N(len(s.rots))]
	if d2 != nil {
		s.refuse("Rotate", "input-degree-2", func() error { return ev.Rotate(d2.ct, k, newOut(1)) }, d2.ct.El())
		s.refuse("RotateNew", "input-degree-2", func() error { _, err := ev.RotateNew(d2.ct, k); return err }, d2.ct.El())
		if s.hasP {
			s.refuse("RotateHoistedNew", "input-degree-2", func() error { _, err := ev.RotateHoistedNew(d2.ct, []int{k}); return err }, d2.ct.El())
		}
		if !s.cfg.CI {
			s.refuse("Conjugate", "input-degree-2", func() error { return ev.Conjugate(d2.ct, newOut(1)) }, d2.ct.El())
		}
		for _, op := range ops {
			if op.name[:3] != "Mul" {
				continue
			}
			op := op
			s.refuse(op.name, "operand-degree-2", func() error { return op.f(a.ct, d2.ct, newOut(2)) }, a.ct.El(), d2.ct.El())
			s.refuse(op.name, "operand-degree-2", func() error { return op.f(d2.ct, b.ct, newOut(2)) }, d2.ct.El(), b.ct.El())
		}
	}
	s.refuse("Relinearize", "input-degree-1", func() error { return ev.Relinearize(a.ct, newOut(1)) }, a.ct.El())
	s.refuse("RelinearizeNew", "input-degree-1", func() error { _, err := ev.RelinearizeNew(a.ct); return err }, a.ct.El())
	// 5. missing keys
	{
		have := map[uint64]bool{1: true}
		for _, gk := range s.gks {
			have[gk.GaloisElement] = true
		}
		for kk := 2; kk < s.maxSlots; kk++ {
			if !have[s.params.GaloisElement(kk)] {
				s.refuse("Rotate", "galois-key-missing", func() error { return ev.Rotate(a.ct, kk, newOut(1)) }, a.ct.El())
				if s.hasP {
					s.refuse("RotateHoistedNew", "galois-key-missing", func() error { _, err := ev.RotateHoistedNew(a.ct, []int{s.rots[0], kk}); return err }, a.ct.El())
				}
				break
			}
		}
		for _, ne := range []namedEval{{"empty-key-set", ev.WithKey(rlwe.NewMemEvaluationKeySet(nil))}, {"nil-key-set", ckks.NewEvaluator(s.params, nil)}} {
			name, e2 := ne.name, ne.ev
			s.refuse("MulRelin", "relinearization-key-missing/"+name, func() error { return e2.MulRelin(a.ct, b.ct, newOut(1)) }, a.ct.El(), b.ct.El())
			s.refuse("MulRelinNew", "relinearization-key-missing/"+name, func() error { _, err := e2.MulRelinNew(a.ct, b.ct); return err }, a.ct.El(), b.ct.El())
			s.refuse("MulRelinThenAdd", "relinearization-key-missing/"+name, func() error { return e2.MulRelinThenAdd(a.ct, b.ct, newOut(1)) }, a.ct.El(), b.ct.El())
			if d2 != nil {
				s.refuse("Relinearize", "relinearization-key-missing/"+name, func() error { return e2.Relinearize(d2.ct, newOut(1)) }, d2.ct.El())
			}
			s.refuse("Rotate", "galois-key-missing/"+name, func() error { return e2.Rotate(a.ct, k, newOut(1)) }, a.ct.El())
			if !s.cfg.CI {
				s.refuse("Conjugate", "galois-key-missing/"+name, func() error { return e2.Conjugate(a.ct, newOut(1)) }, a.ct.El())
			}
		}
	}
	// 6. Rescale / RescaleTo preconditions
	{
		x := a.ct.CopyNew()
		x.MetaData = nil
		o := newOut(1)
		o.MetaData = nil
		s.refuse("Rescale", "nil-metadata", func() error { return ev.Rescale(x, newOut(1)) }, x.El())
		s.refuse("Rescale", "nil-metadata", func() error { return ev.Rescale(a.ct, o) }, a.ct.El())
		s.refuse("RescaleTo", "nil-metadata", func() error { return ev.RescaleTo(x, rlwe.NewScale(s.defScale), newOut(1)) }, x.El())
		s.refuse("RescaleTo", "nil-metadata", func() error { return ev.RescaleTo(a.ct, rlwe.NewScale(s.defScale), o) }, a.ct.El())
		s.refuse("RescaleTo", "minScale-zero", func() error { return ev.RescaleTo(a.ct, rlwe.NewScale(0), newOut(1)) }, a.ct.El())
		z := a.ct.CopyNew()
		z.Scale = rlwe.NewScale(0)
		s.refuse("RescaleTo", "ciphertext-scale-zero", func() error { return ev.RescaleTo(z, rlwe.NewScale(s.defScale), newOut(1)) }, z.El())
		lo := a.ct.CopyNew()
		lo.Resize(1, s.lcpr-1)
		s.refuse("Rescale", "level-too-low", func() error { return ev.Rescale(lo, newOut(1)) }, lo.El())
		lo0 := a.ct.CopyNew()
		lo0.Resize(1, 0)
		s.refuse("RescaleTo", "level-0", func() error { return ev.RescaleTo(lo0, rlwe.NewScale(s.defScale), newOut(1)) }, lo0.El())
	}
	// 7. MulThenAdd preconditions
	{
		acc := s.fresh(L, fquo(s.defScale, fF(2)), ls, s.genVals(1<<ls, "unit", 1, s.cfg.CI), true)
		if acc != nil {
			s.refuse("MulThenAdd", "op0.Scale>opOut.Scale/scalar", func() error { return ev.MulThenAdd(a.ct, 0.5, acc.ct) }, a.ct.El(), acc.ct.El())
			s.refuse("MulThenAdd", "op0.Scale>opOut.Scale/vector", func() error { return ev.MulThenAdd(a.ct, []float64{0.5}, acc.ct) }, a.ct.El(), acc.ct.El())
		}
		s.refuse("MulThenAdd", "opOut==op0", func() error { return ev.MulThenAdd(a.ct, b.ct, a.ct) }, a.ct.El(), b.ct.El())
		if L > 0 { // the other operand at a lower level: the refusal must come before any resizing
			if bl := s.fresh(L-1, s.defScale, ls, s.genVals(1<<ls, "unit", 1, s.cfg.CI), true); bl != nil {
				s.refuse("MulThenAdd", "opOut==op0", func() error { return ev.MulThenAdd(a.ct, bl.ct, a.ct) }, a.ct.El(), bl.ct.El())
				s.refuse("MulRelinThenAdd", "opOut==op0", func() error { return ev.MulRelinThenAdd(a.ct, bl.ct, a.ct) }, a.ct.El(), bl.ct.El())
				s.refuse("MulThenAdd", "opOut==op0", func() error { return ev.MulThenAdd(a.ct, ptE.pt, a.ct) }, a.ct.El(), ptE.pt.El())
			}
		}
		s.refuse("MulThenAdd", "opOut==op1", func() error { return ev.MulThenAdd(a.ct, b.ct, b.ct) }, a.ct.El(), b.ct.El())
		s.refuse("MulRelinThenAdd", "opOut==op0", func() error { return ev.MulRelinThenAdd(a.ct, b.ct, a.ct) }, a.ct.El(), b.ct.El())
		s.refuse("MulThenAdd", "opOut==op0/non-integer-scalar", func() error { return ev.MulThenAdd(a.ct, 0.5, a.ct) }, a.ct.El())
		s.refuse("MulThenAdd", "opOut==op0/vector", func() error { return ev.MulThenAdd(a.ct, []float64{0.5}, a.ct) }, a.ct.El())
	}
	if s.cfg.CI {
		s.refuse("Conjugate", "conjugate-invariant-ring", func() error { return ev.Conjugate(a.ct, newOut(1)) }, a.ct.El())
		s.refuse("ConjugateNew", "conjugate-invariant-ring", func() error { _, err := ev.ConjugateNew(a.ct); return err }, a.ct.El())
	}
	// the evaluator (and the operands) still work after all these refusals
	s.dead = false
	s.binary("MulRelin", a, &operand{kind: "ct", e: b, cls: "after-refusals"}, "fresh")
	s.rotate(a, k, false, "fresh")
	s.binary("Add", a, &operand{kind: "pt", e: ptE, cls: "after-refusals"}, "new")
	if o := s.vector("[]float64", "unit", 1<<ls, 1); o != nil {
		s.binary("Mul", a, o, "fresh")
	}
}

// ---------------------------------------------------------------------------------------------
// "copy": a program whose calls are spread over evaluators derived from the constructor's one

type namedEval struct {
	name string
	ev   *ckks.Evaluator
}

func (s *st) keySet() rlwe.EvaluationKeySet { return rlwe.NewMemEvaluationKeySet(s.rlk, s.gks...) }

func runCopy(c *eng.Ctx, cfg pcfg, steps int) {
	s := build(c, cfg)
	if s == nil {
		return
	}
	orig := s.eval
	sc := orig.ShallowCopy()
	s.evals = []namedEval{
		{"", orig},
		{"ShallowCopy", sc},
		{"WithKey", orig.WithKey(s.keySet())},
		{"ShallowCopy.WithKey", sc.WithKey(s.keySet())},
		{"WithKey.ShallowCopy", orig.WithKey(s.keySet()).ShallowCopy()},
		{"ShallowCopy.ShallowCopy", sc.ShallowCopy()},
	}
	s.lateCopies = true
	// an evaluator restricted to the relinearisation key multiplies but must refuse to rotate
	{
		L := s.params.MaxLevel()
		ev := orig.WithKey(rlwe.NewMemEvaluationKeySet(s.rlk))
		if a := s.base(L, s.defScale, s.logMax); a != nil {
			if b := s.fresh(L, s.defScale, s.logMax, s.genVals(s.maxSlots, "unit", 1, cfg.CI), true); b != nil {
				s.pool = append(s.pool, b)
				s.eval, s.evTag = ev, "WithKey(rlk-only)"
				s.binary("MulRelin", a, &operand{kind: "ct", e: b, cls: "-"}, "fresh")
				s.refuse("Rotate", "galois-key-missing/rlk-only-key-set", func() error { return ev.Rotate(a.ct, s.rots[0], a.ct.CopyNew()) }, a.ct.El())
				s.eval, s.evTag = orig, ""
				s.rotate(a, s.rots[0], false, "fresh") // the evaluator it was derived from still has its keys
			}
		}
		s.pool, s.prog, s.dead = s.pool[:0], s.prog[:0], false
	}
	s.runBody(steps, "copy")
}
