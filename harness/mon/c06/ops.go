package c06

import (
	"fmt"
	"math"
	"math/big"

	"github.com/tuneinsight/lattigo/v6/core/rlwe"
	"github.com/tuneinsight/lattigo/v6/schemes/ckks"
	"github.com/tuneinsight/lattigo/v6/utils/bignum"

	"verif/harness/eng"
)

// ---------------------------------------------------------------------------------------------
// operands

var scalarKinds = []string{"complex128", "float64", "int", "int64", "uint", "uint64", "*big.Int", "*big.Float", "*bignum.Complex"}
var vectorKinds = []string{"[]complex128", "[]float64", "[]*big.Float", "[]*bignum.Complex"}

type operand struct {
	kind string // "ct", "pt", a scalar kind or a vector kind
	e    *ent   // ct / pt
	v    any    // Go value handed to the API (scalar / vector)
	z    cx     // scalar: value as the evaluator documents to read it (rounded to EncodingPrecision bits)
	zint bool   // scalar: Gaussian integer
	vals vec    // vector: the values (len <= slots of op0)
	cls  string // value class (evidence key)
}

func isScalarKind(k string) bool {
	for _, x := range scalarKinds {
		if x == k {
			return true
		}
	}
	return false
}
func isVectorKind(k string) bool {
	for _, x := range vectorKinds {
		if x == k {
			return true
		}
	}
	return false
}

func (o *operand) abs() float64 {
	if o.vals != nil {
		return o.vals.mag()
	}
	return o.z.abs()
}

// roundPrec mirrors bignum.ToComplex: the scalar is read at EncodingPrecision bits.
func roundPrec(x *big.Float, prec uint) *big.Float {
	return fB(new(big.Float).SetPrec(prec).Set(x))
}

// scalar builds a scalar operand of the given kind from class `cls`; maxAbs limits |value|
// (room left in the modulus). Returns nil when the kind cannot express the class.
func (s *st) scalar(kind, cls string, maxAbs float64) *operand {
	r := s.rnd
	o := &operand{kind: kind, cls: cls}
	maxBits := int(math.Floor(math.Log2(maxAbs)))
	if maxBits < 1 {
		maxBits = 1
	}
	if maxBits > 62 {
		maxBits = 62
	}
	integral := kind == "int" || kind == "int64" || kind == "uint" || kind == "uint64" || kind == "*big.Int"
	unsigned := kind == "uint" || kind == "uint64"
	complexOK := (kind == "complex128" || kind == "*bignum.Complex") && !s.cfg.CI
	var re, im float64
	var bi *big.Int // for *big.Int beyond 63 bits
	switch cls {
	case "zero":
	case "one":
		re = 1
	case "minus":
		if unsigned {
			return nil
		}
		re = -1
		if !integral {
			re = -float64(1+r.N(3)) - 0.25*float64(r.N(2))
			if -re > maxAbs {
				re = -1
			}
		}
	case "smallint":
		re = float64(2 + r.N(7))
		if re > maxAbs {
			re = 1
		}
		if !unsigned && r.Bool() {
			re = -re
		}
		if complexOK && r.Bool() {
			im = float64(r.N(5)) - 2
		}
	case "bigint":
		b := 2 + r.N(maxBits)
		if b > 52 && !integral {
			b = 52
		}
		re = math.Ldexp(1, b-1) + float64(r.U64()%(uint64(1)<<uint(min(b-1, 52))))
		re = math.Floor(re)
		if !unsigned && r.Bool() {
			re = -re
		}
		if kind == "*big.Int" && maxAbs > math.Ldexp(1, 70) && r.Bool() {
			bi = new(big.Int).Lsh(big.NewInt(int64(3+r.N(1000))), 64)
			if r.Bool() {
				bi.Neg(bi)
			}
		}
	case "frac":
		if integral {
			return nil
		}
		re = 2*r.F64() - 1
		if re == math.Trunc(re) {
			re = 0.37
		}
		if complexOK {
			im = 2*r.F64() - 1
		}
	case "fracbig": // non-integer of larger magnitude
		if integral {
			return nil
		}
		k := 1 + r.N(min(maxBits, 20))
		re = math.Ldexp(1+r.F64(), k-1) + 0.5
		if re > maxAbs {
			re = 1.5
		}
		if r.Bool() {
			re = -re
		}
		if complexOK && r.Bool() {
			im = re / 3
		}
	case "tiny":
		if integral {
			return nil
		}
		re = math.Ldexp(1+r.F64(), -20)
		if complexOK && r.Bool() {
			im = -math.Ldexp(1+r.F64(), -18)
		}
	case "imag": // purely imaginary, integer or not
		if !complexOK {
			return nil
		}
		im = eng.Pick(r, 1.0, -1.0, 0.5, -2.0, 0.7071067811865476)
	default:
		panic("class " + cls)
	}
	if math.Hypot(re, im) > maxAbs && cls != "zero" {
		return nil
	}
	zre, zim := fF(re), fF(im)
	switch kind {
	case "complex128":
		o.v = complex(re, im)
	case "float64":
		o.v = re
	case "int":
		o.v = int(re)
	case "int64":
		o.v = int64(re)
	case "uint":
		o.v = uint(re)
	case "uint64":
		o.v = uint64(re)
	case "*big.Int":
		if bi != nil {
			o.v = bi
			zre = fI(bi)
		} else {
			o.v = big.NewInt(int64(re))
		}
	case "*big.Float":
		x := new(big.Float).SetPrec(s.encPrec).SetFloat64(re)
		if s.encPrec > 53 && cls == "frac" { // use the extra bits of the arbitrary-precision path
			x.Quo(x, new(big.Float).SetPrec(s.encPrec).SetFloat64(3))
		}
		o.v = x
		zre = fB(x)
	case "*bignum.Complex":
		xr := new(big.Float).SetPrec(s.encPrec).SetFloat64(re)
		xi := new(big.Float).SetPrec(s.encPrec).SetFloat64(im)
		if s.encPrec > 53 && cls == "frac" {
			xr.Quo(xr, new(big.Float).SetPrec(s.encPrec).SetFloat64(7))
		}
		o.v = &bignum.Complex{xr, xi}
		zre, zim = fB(xr), fB(xi)
	}
	o.z = cx{roundPrec(zre, s.encPrec), roundPrec(zim, s.encPrec)}
	o.zint = o.z.re.IsInt() && o.z.im.IsInt()
	return o
}

var scalarClasses = []string{"zero", "one", "minus", "smallint", "bigint", "frac", "fracbig", "tiny", "imag"}

// vector builds a vector operand of `n` values of the given Go kind.
func (s *st) vector(kind, cls string, n int, maxAbs float64) *operand {
	realOnly := s.cfg.CI || kind == "[]float64" || kind == "[]*big.Float"
	vals := s.genVals(n, cls, maxAbs, realOnly)
	o := &operand{kind: kind, cls: cls, vals: vals}
	// arbitrary-precision operands: the values are exactly representable in 53 bits, so the precision the caller's
	// big.Floats carry (53 bits as from big.NewFloat, or the working precision) must not matter
	oprec := uint(oprec)
	if (kind == "[]*big.Float" || kind == "[]*bignum.Complex") && s.rnd.N(2) == 0 {
		oprec = 53
		s.c.Count("vector_operands_of_53_bit_big_floats", 1)
	}
	switch kind {
	case "[]complex128":
		v := make([]complex128, n)
		for i, x := range vals {
			v[i] = complex(f64(x.re), f64(x.im))
		}
		o.v = v
	case "[]float64":
		v := make([]float64, n)
		for i, x := range vals {
			v[i] = f64(x.re)
		}
		o.v = v
	case "[]*big.Float":
		v := make([]*big.Float, n)
		for i, x := range vals {
			v[i] = new(big.Float).SetPrec(oprec).Set(x.re)
		}
		o.v = v
	case "[]*bignum.Complex":
		v := make([]*bignum.Complex, n)
		for i, x := range vals {
			v[i] = &bignum.Complex{new(big.Float).SetPrec(oprec).Set(x.re), new(big.Float).SetPrec(oprec).Set(x.im)}
		}
		o.v = v
	}
	return o
}

// genVals: n values of a class; all exactly representable as float64 pairs.
func (s *st) genVals(n int, cls string, maxAbs float64, realOnly bool) vec {
	r := s.rnd
	out := make(vec, n)
	kmax := int(math.Floor(math.Log2(maxAbs))) - 1
	if kmax > 20 {
		kmax = 20
	}
	for i := range out {
		var re, im float64
		switch cls {
		case "unit":
			re, im = 2*r.F64()-1, 2*r.F64()-1
		case "big":
			k := 0
			if kmax > 0 {
				k = kmax
			}
			re, im = math.Ldexp(2*r.F64()-1, k), math.Ldexp(2*r.F64()-1, k)
		case "tiny":
			re, im = math.Ldexp(2*r.F64()-1, -20), math.Ldexp(2*r.F64()-1, -20)
		case "edge":
			re = eng.Pick(r, 0.0, 1.0, -1.0, 0.5, 1-math.Ldexp(1, -40), -0.25, 0.0)
			im = eng.Pick(r, 0.0, 1.0, -1.0, 0.0, 0.0, 0.75)
		case "onehot":
			if i == n-1 {
				re, im = 1, -1
			}
		default:
			panic("vals class " + cls)
		}
		if realOnly {
			im = 0
		}
		out[i] = cxFF(re, im)
	}
	return out
}

var valClasses = []string{"unit", "unit", "big", "tiny", "edge", "onehot"}

// ---------------------------------------------------------------------------------------------
// output placement

type outSel struct {
	mode string // new | fresh | garbage | op0 | op1
	ct   *rlwe.Ciphertext
	lvl  int // level of the provided output (for "new": level the New method allocates)
}

// pickOut prepares the receiver for a call. wantDeg = degree the result will have; lmin = min level
// of the inputs; allocLvl = level a XxxNew method allocates.
func (s *st) pickOut(mode string, wantDeg, lmin, allocLvl int, op0 *ent, op1 *ent) outSel {
	switch mode {
	case "new":
		return outSel{mode: mode, lvl: allocLvl}
	case "op0":
		return outSel{mode: mode, ct: op0.ct, lvl: op0.level()}
	case "op1":
		if op1 != nil && op1.ct != nil {
			return outSel{mode: mode, ct: op1.ct, lvl: op1.level()}
		}
	case "deg0":
		// a used receiver of degree 0: it has to grow by one or two components
		lvl := lmin
		switch s.rnd.N(4) {
		case 0:
			lvl = s.params.MaxLevel()
		case 1:
			if lmin > s.lcpr {
				lvl = lmin - 1
			}
		}
		s.c.Count("receiver_degree0_calls", 1)
		return outSel{mode: mode, ct: s.dirtyCt(0, lvl), lvl: lvl}
	case "large", "small":
		// a used receiver whose degree differs from the degree of the result: one more component
		// (stale data in it must not survive) or one less (the receiver has to grow)
		deg := wantDeg + 1
		if mode == "small" {
			deg = wantDeg - 1
		}
		if deg >= 1 && deg <= 2 {
			lvl := lmin
			switch s.rnd.N(4) {
			case 0:
				lvl = s.params.MaxLevel()
			case 1:
				if lmin > s.lcpr {
					lvl = lmin - 1
				}
			}
			return outSel{mode: mode, ct: s.dirtyCt(deg, lvl), lvl: lvl}
		}
	case "garbage":
		var cands []*ent
		for _, e := range s.pool {
			if e.ct != nil && e.deg() == wantDeg && e != op0 && e != op1 {
				cands = append(cands, e)
			}
		}
		if len(cands) > 0 {
			g := cands[s.rnd.N(len(cands))].ct.CopyNew()
			return outSel{mode: mode, ct: g, lvl: g.Level()}
		}
	}
	// fresh
	lvl := lmin
	switch s.rnd.N(8) {
	case 0, 1:
		lvl = s.params.MaxLevel()
	case 2:
		if lmin > s.lcpr {
			lvl = lmin - 1
		}
	}
	return outSel{mode: "fresh", ct: ckks.NewCiphertext(s.params, wantDeg, lvl), lvl: lvl}
}

// dirtyCt is a receiver that has been used before: uniform coefficients in every component, an
// unrelated scale and slot count.
func (s *st) dirtyCt(deg, lvl int) *rlwe.Ciphertext {
	ct := ckks.NewCiphertext(s.params, deg, lvl)
	for i := range ct.Value {
		for j, row := range ct.Value[i].Coeffs {
			for k := range row {
				row[k] = s.rnd.U64() % s.q[j]
			}
		}
	}
	ct.Scale = rlwe.NewScale(fmul(s.defScale, fF(0.37+s.rnd.F64())))
	ct.LogDimensions.Cols = s.rnd.N(s.logMax + 1)
	s.c.Count("dirty_receivers_other_degree", 1)
	return ct
}

func rel(a, b *big.Float) string {
	c := a.Cmp(b)
	if c == 0 {
		return "eq"
	}
	r := fquo(a, b)
	if c < 0 {
		r = fquo(b, a)
	}
	t := "gt"
	if c < 0 {
		t = "lt"
	}
	if q128(r, fF(1)).IsInt() {
		return t + "-int"
	}
	if f64(r) < 1.0001 {
		return t + "-near"
	}
	return t + "-nonint"
}

func lrel(a, b int) string {
	switch {
	case a == b:
		return "l="
	case a < b:
		return "l<"
	}
	return "l>"
}

func (s *st) slotClass(ls int) string {
	switch {
	case ls == s.logMax:
		return "full"
	case ls == 0:
		return "1slot"
	}
	return "sparse"
}

func (s *st) note(format string, a ...any) { s.prog = append(s.prog, fmt.Sprintf(format, a...)) }

// after an in-place call the old entry is replaced (or dropped when the call failed).
func (s *st) replace(old, neu *ent) {
	for i, e := range s.pool {
		if e == old {
			if neu != nil {
				s.pool[i] = neu
			} else {
				s.pool = append(s.pool[:i], s.pool[i+1:]...)
			}
			return
		}
	}
}

// ---------------------------------------------------------------------------------------------
// Add / Sub / Mul / MulRelin

// binary executes op in {Add,Sub,Mul,MulRelin} on (a, b) with the receiver chosen by mode.
// Returns the judged result (nil when skipped as infeasible or failed); skipped reports whether the
// call was not made because the result would not fit the modulus / is outside the documented domain.
func (s *st) binary(op string, a *ent, b *operand, mode string) (res *ent, skipped bool) {
	isMul := op == "Mul" || op == "MulRelin"
	relin := op == "MulRelin"
	s0, l0, d0 := a.scale(), a.level(), a.deg()
	ex := &expect{op: op, logSlots: a.logSlots(), depth: a.depth}
	elem := b.kind == "ct" || b.kind == "pt"
	var s1 *big.Float
	l1, d1 := l0, 0
	if elem {
		s1, l1, d1 = b.e.scale(), b.e.level(), b.e.deg()
		if b.e.logSlots() > ex.logSlots {
			ex.logSlots = b.e.logSlots()
		}
		if b.e.depth > ex.depth {
			ex.depth = b.e.depth
		}
	}
	if isMul && (d0 > 1 || d1 > 1 || (d0+d1 > 2)) {
		return nil, true
	}
	if mode == "op1" && b.kind != "ct" {
		mode = "fresh"
	}
	if mode == "op0" && b.kind == "ct" && b.e == a && isMul {
		// squaring in place is allowed
	}
	// degree of the result
	switch {
	case !isMul:
		ex.deg = max(d0, d1)
	case b.kind == "ct" && d0 == 1 && d1 == 1:
		ex.deg = 2
		if relin {
			ex.deg = 1
		}
	default:
		ex.deg = max(d0, d1)
	}
	lmin := min(l0, l1)
	alloc := l0
	if op == "MulRelin" && elem {
		alloc = lmin
	}
	var e1 *ent
	if elem {
		e1 = b.e
	}
	out := s.pickOut(mode, ex.deg, lmin, alloc, a, e1)
	mode = out.mode
	ex.level = min(lmin, out.lvl)
	lvl := ex.level
	if mode == "large" {
		ex.degMax = out.ct.Degree()
	}
	if mode == "deg0" {
		ex.pred = "receiver-degree-0"
	}

	// value / scale / budget model
	switch {
	case elem && !isMul:
		f0, f1 := fF(1), fF(1)
		switch c := s0.Cmp(s1); {
		case c > 0:
			k, _ := q128(s0, s1).Int(nil)
			f1 = fquo(fI(k), fquo(s0, s1))
			ex.scale = s0
			if k.BitLen() > int(s.encPrec) { // the integer ratio is itself read at EncodingPrecision bits
				ex.B += b.e.mag * math.Ldexp(1, 1-int(s.encPrec))
			}
		case c < 0:
			k, _ := q128(s1, s0).Int(nil)
			f0 = fquo(fI(k), fquo(s1, s0))
			ex.scale = s1
			if k.BitLen() > int(s.encPrec) {
				ex.B += a.mag * math.Ldexp(1, 1-int(s.encPrec))
			}
		default:
			ex.scale = s0
		}
		sign := 1.0
		if op == "Sub" {
			sign = -1
		}
		f1s := fmul(f1, fF(sign))
		ex.want = vmap2(a.want, b.e.want, func(x, y cx) cx { return x.scl(f0).add(y.scl(f1s)) })
		ex.B += f64(f0)*a.E + f64(f1)*b.e.E
		ex.uneq = s0.Cmp(s1) != 0
	case elem && isMul:
		ex.scale = fmul(s0, s1)
		ex.want = vmap2(a.want, b.e.want, func(x, y cx) cx { return x.mul(y) })
		ex.B = a.mag*b.e.E + b.e.mag*a.E + a.E*b.e.E
		if relin && ex.deg == 1 && d0 == 1 && d1 == 1 {
			ex.added = s.ks[lvl] / f64(ex.scale)
			ex.B += ex.added
		}
		ex.depth++
	case isScalarKind(b.kind) && !isMul:
		ex.scale = s0
		z := b.z
		if op == "Sub" {
			z = cx{fnew().Neg(z.re), fnew().Neg(z.im)}
		}
		ex.want = vmap(a.want, func(x cx) cx { return x.add(z) })
		ex.B = a.E + 0.7072/f64(s0)
		ex.uneq = true
	case isScalarKind(b.kind) && isMul:
		ex.want = vmap(a.want, func(x cx) cx { return x.mul(b.z) })
		if b.zint {
			ex.scale = s0
			ex.B = b.abs() * a.E
		} else {
			S := s.prodQ(lvl, s.lcpr)
			if S == nil {
				return nil, true
			}
			ex.scale = fmul(s0, S)
			ex.B = b.abs()*a.E + (a.mag+a.E)*0.7072/f64(S)
			ex.depth++
		}
		ex.uneq = true
	case isVectorKind(b.kind):
		n0 := 1 << a.logSlots()
		if len(b.vals) > n0 {
			return nil, true
		}
		full := make(vec, s.maxSlots)
		for j := range full {
			if k := j % n0; k < len(b.vals) {
				full[j] = b.vals[k]
			} else {
				full[j] = cxZero()
			}
		}
		if s.cfg.CI {
			full = vmap(full, func(x cx) cx { return cx{x.re, fnew()} })
		}
		vm := full.mag()
		if !isMul {
			ex.scale = s0
			sign := fF(1)
			if op == "Sub" {
				sign = fF(-1)
			}
			ex.want = vmap2(a.want, full, func(x, y cx) cx { return x.add(y.scl(sign)) })
			ex.B = a.E + s.encErr(s0, vm, n0, s.encPrec)
		} else {
			S := s.prodQ(lvl, s.lcpr)
			if S == nil {
				return nil, true
			}
			ex.scale = fmul(s0, S)
			ex.want = vmap2(a.want, full, func(x, y cx) cx { return x.mul(y) })
			ex.B = vm*a.E + (a.mag+a.E)*s.encErr(S, vm, n0, s.encPrec)
			ex.depth++
		}
		ex.uneq = true
	default:
		panic("operand kind " + b.kind)
	}
	if isScalarKind(b.kind) && !isMul && mode != "op0" {
		prior := s.defScale
		if out.ct != nil {
			prior = fB(&out.ct.Scale.Value)
		}
		if prior.Cmp(s0) != 0 {
			ex.pred, ex.sigOp = "scalar-operand-receiver-not-op0", "Add,Sub"
		}
	}
	if b.kind == "uint" {
		ex.pred = "scalar-uint"
	}
	mo := ex.want.mag()
	if !s.fits(ex.scale, mo+ex.B, lvl) {
		return nil, true
	}
	srel := "-"
	if elem {
		srel = rel(s0, s1)
	}
	ex.key = fmt.Sprintf("%s|%s/%s|out=%s|s:%s|%s|d%d%d|%s", op, b.kind, b.cls, mode, srel, lrel(l0, l1), d0, d1, s.slotClass(ex.logSlots))
	ex.nontriv = b.kind != "ct" || srel != "eq" || l0 != l1 || mode != "fresh" && mode != "new" || d0 > 1 || d1 > 1 || ex.logSlots != s.logMax || (b.e != nil && b.e == a)
	s.note("%s(%s,%s:%s)->%s", op, s.nameOf(a), b.kind, srel, mode)

	var arg rlwe.Operand
	switch {
	case b.kind == "ct":
		arg = b.e.ct
	case b.kind == "pt":
		arg = b.e.pt
	default:
		arg = b.v
	}
	var got *rlwe.Ciphertext
	ok := s.call(ex, func() (err error) {
		if mode == "new" {
			switch op {
			case "Add":
				got, err = s.eval.AddNew(a.ct, arg)
			case "Sub":
				got, err = s.eval.SubNew(a.ct, arg)
			case "Mul":
				got, err = s.eval.MulNew(a.ct, arg)
			case "MulRelin":
				got, err = s.eval.MulRelinNew(a.ct, arg)
			}
			return
		}
		got = out.ct
		switch op {
		case "Add":
			err = s.eval.Add(a.ct, arg, got)
		case "Sub":
			err = s.eval.Sub(a.ct, arg, got)
		case "Mul":
			err = s.eval.Mul(a.ct, arg, got)
		case "MulRelin":
			err = s.eval.MulRelin(a.ct, arg, got)
		}
		return
	})
	if ok {
		res = s.judge(ex, got)
	}
	s.settle(mode, a, e1, res, ex.pred)
	return res, false
}

// settle updates the pool after a call whose receiver was `mode`.
func (s *st) settle(mode string, a, b *ent, res *ent, pred string) {
	switch mode {
	case "op0":
		s.replace(a, res)
	case "op1":
		s.replace(b, res)
	default:
		if res != nil {
			s.pool = append(s.pool, res)
		}
	}
	if res == nil && pred == "" { // a triaged input class loses its result but does not end the program
		s.dead = true
	}
}

func (s *st) nameOf(e *ent) string {
	k := "ct"
	if e.pt != nil {
		k = "pt"
	}
	return fmt.Sprintf("%s[l%d,d%d,s%.1f]", k, e.level(), e.deg(), flog2(e.scale()))
}

// ---------------------------------------------------------------------------------------------
// MulThenAdd / MulRelinThenAdd   (acc <- acc + a*b)

func (s *st) mulThenAdd(relin bool, a *ent, b *operand, acc *ent) (res *ent, skipped bool) {
	op := "MulThenAdd"
	if relin {
		op = "MulRelinThenAdd"
	}
	s0, l0, d0 := a.scale(), a.level(), a.deg()
	sO, lO, dO := acc.scale(), acc.level(), acc.deg()
	ex := &expect{op: op, sigOp: "MulThenAdd,MulRelinThenAdd", logSlots: a.logSlots(), depth: max(a.depth, acc.depth) + 1, uneq: true}
	elem := b.kind == "ct" || b.kind == "pt"
	if d0 > 1 || acc == a || (elem && b.e == acc) {
		return nil, true
	}
	var prodWant vec
	var prodE, scaleUpSlack float64
	factor := fF(1)
	srel := "-"
	switch {
	case elem:
		s1, l1, d1 := b.e.scale(), b.e.level(), b.e.deg()
		if d1 > 1 {
			return nil, true
		}
		if b.e.logSlots() > ex.logSlots {
			ex.logSlots = b.e.logSlots()
		}
		ex.depth = max(ex.depth, b.e.depth+1)
		ex.level = min(l0, l1, lO)
		res128 := m128(s0, s1)
		resX := fmul(s0, s1)
		switch c := sO.Cmp(res128); {
		case c > 0:
			return nil, true // documented precondition opOut.Scale <= op0.Scale*op1.Scale
		case c == 0:
			ex.scale = sO
		default:
			ratio := q128(res128, sO)
			if f64(ratio) >= 2.0 {
				// documented: "If opOut.Scale < op0.Scale * op1.Scale, then scales up opOut before adding
				// the result". The ratio is handed to Mul as a scalar, i.e. read at EncodingPrecision bits.
				ex.scale = resX
				scaleUpSlack = math.Ldexp(acc.mag+acc.E, 1-int(s.encPrec))
				if !new(big.Float).SetPrec(s.encPrec).Set(ratio).IsInt() {
					// a non-integer ratio can only be applied approximately: allow the error of
					// scaling by floor or nearest integer (relative 1/ratio)
					scaleUpSlack += (acc.mag + acc.E) / f64(ratio)
					ex.pred = "scaleup-ratio-not-integer"
				}
			} else {
				if f64(ratio) > 1+1e-6 {
					return nil, true // no documented behaviour
				}
				ex.scale = sO
				factor = fquo(resX, sO)
			}
		}
		srel = rel(sO, resX)
		prodWant = vmap2(a.want, b.e.want, func(x, y cx) cx { return x.mul(y) })
		prodE = a.mag*b.e.E + b.e.mag*a.E + a.E*b.e.E
		if b.kind == "ct" && d0 == 1 && d1 == 1 {
			if relin {
				ex.deg = max(1, dO)
				prodE += s.ks[ex.level] / f64(resX)
			} else {
				ex.deg = 2
			}
		} else {
			ex.deg = max(d0, d1, dO)
		}
	case isScalarKind(b.kind):
		ex.level = min(l0, lO)
		ex.deg = max(d0, dO)
		prodWant = vmap(a.want, func(x cx) cx { return x.mul(b.z) })
		switch c := s0.Cmp(sO); {
		case c > 0:
			return nil, true
		case c == 0:
			if b.zint {
				ex.scale = sO
				prodE = b.abs() * a.E
			} else {
				S := s.prodQ(ex.level, s.lcpr)
				if S == nil || !s.fits(fmul(sO, S), acc.mag+acc.E, lO) {
					return nil, true
				}
				ex.scale = fmul(sO, S)
				prodE = b.abs()*a.E + (a.mag+a.E)*0.7072/f64(S)
				scaleUpSlack = math.Ldexp(acc.mag+acc.E, 1-int(s.encPrec)) // opOut is multiplied by S read as a scalar
			}
			srel = "eq"
		default:
			ratio := fquo(sO, s0)
			ex.scale = sO
			prodE = b.abs()*a.E + (a.mag+a.E)*0.7072/f64(ratio)
			srel = rel(sO, s0)
		}
		if lO > l0 {
			ex.pred = "scalar-operand-opOut-level-above-op0"
		} else if dO > d0 {
			ex.pred = "opOut-degree-above-op0"
		}
		if b.kind == "uint" {
			ex.pred = "scalar-uint"
		}
	case isVectorKind(b.kind):
		n0 := 1 << a.logSlots()
		if len(b.vals) > n0 {
			return nil, true
		}
		ex.level = min(l0, lO)
		ex.deg = max(d0, dO)
		full := make(vec, s.maxSlots)
		for j := range full {
			if k := j % n0; k < len(b.vals) {
				full[j] = b.vals[k]
			} else {
				full[j] = cxZero()
			}
		}
		if s.cfg.CI {
			full = vmap(full, func(x cx) cx { return cx{x.re, fnew()} })
		}
		vm := full.mag()
		prodWant = vmap2(a.want, full, func(x, y cx) cx { return x.mul(y) })
		switch c := s0.Cmp(sO); {
		case c > 0:
			return nil, true
		case c == 0:
			S := s.prodQ(ex.level, s.lcpr)
			if S == nil || !s.fits(fmul(sO, S), acc.mag+acc.E, lO) {
				return nil, true
			}
			ex.scale = fmul(sO, S)
			prodE = vm*a.E + (a.mag+a.E)*s.encErr(S, vm, n0, s.encPrec)
			scaleUpSlack = math.Ldexp(acc.mag+acc.E, 1-int(s.encPrec))
			srel = "eq"
		default:
			ratio := fquo(sO, s0)
			ex.scale = sO
			prodE = vm*a.E + (a.mag+a.E)*s.encErr(ratio, vm, n0, s.encPrec)
			srel = rel(sO, s0)
		}
		if dO > d0 {
			ex.pred = "opOut-degree-above-op0"
		}
	}
	if acc.logSlots() > ex.logSlots {
		// documented: the receiver gets the dimensions of op0 (and op1); an accumulator packed with more
		// slots would be relabelled, which is the caller's business, not a judged outcome
		return nil, true
	}
	ex.want = vmap2(acc.want, prodWant, func(x, y cx) cx { return x.add(y.scl(factor)) })
	ex.B = acc.E + f64(factor)*prodE + scaleUpSlack
	if !s.fits(ex.scale, ex.want.mag()+ex.B+acc.mag, ex.level) {
		return nil, true
	}
	ex.key = fmt.Sprintf("%s|%s/%s|acc:%s|%s|d%d->%d|%s", op, b.kind, b.cls, srel, lrel(l0, lO), d0, dO, s.slotClass(ex.logSlots))
	ex.nontriv = true
	s.note("%s(%s,%s)->acc %s:%s", op, s.nameOf(a), b.kind, s.nameOf(acc), srel)
	var arg rlwe.Operand
	switch {
	case b.kind == "ct":
		arg = b.e.ct
	case b.kind == "pt":
		arg = b.e.pt
	default:
		arg = b.v
	}
	ok := s.call(ex, func() error {
		if relin {
			return s.eval.MulRelinThenAdd(a.ct, arg, acc.ct)
		}
		return s.eval.MulThenAdd(a.ct, arg, acc.ct)
	})
	if ok {
		res = s.judge(ex, acc.ct)
	}
	s.settle("op0", acc, nil, res, ex.pred)
	return res, false
}

// ---------------------------------------------------------------------------------------------
// unary operations

func (s *st) unaryKey(op, mode string, a *ent, extra string) string {
	return fmt.Sprintf("%s|%s|out=%s|l%s|d%d|%s", op, extra, mode, map[bool]string{true: "max", false: "low"}[a.level() == s.params.MaxLevel()], a.deg(), s.slotClass(a.logSlots()))
}

func (s *st) rescale(a *ent, mode string) (res *ent, skipped bool) {
	s0, l0 := a.scale(), a.level()
	if l0 < s.lcpr {
		s.expectError("Rescale", "level-too-low", func() error { return s.eval.Rescale(a.ct, a.ct.CopyNew()) })
		return nil, true
	}
	S := s.prodQ(l0, s.lcpr)
	ex := &expect{op: "Rescale", logSlots: a.logSlots(), depth: a.depth, uneq: a.uneq, want: a.want, deg: a.deg(), level: l0 - s.lcpr}
	ex.scale = fquo(s0, S)
	if flog2(ex.scale) < 12 {
		return nil, true
	}
	ex.added = s.rsNoise(a.deg()) / f64(ex.scale)
	ex.B = a.E + ex.added
	out := s.pickOut(mode, a.deg(), l0, l0, a, nil)
	if out.mode == "new" {
		out = s.pickOut("fresh", a.deg(), l0, l0, a, nil)
	}
	if out.mode == "large" {
		ex.degMax = out.ct.Degree()
	}
	ex.key = s.unaryKey("Rescale", out.mode, a, fmt.Sprintf("outl%s", lrel(out.lvl, l0)))
	ex.nontriv = out.mode != "fresh" || a.deg() != 1 || a.depth >= 1 || a.logSlots() != s.logMax
	s.note("Rescale(%s)->%s", s.nameOf(a), out.mode)
	if s.call(ex, func() error { return s.eval.Rescale(a.ct, out.ct) }) {
		res = s.judge(ex, out.ct)
	}
	s.settle(out.mode, a, nil, res, ex.pred)
	return res, false
}

// rescaleToModel mirrors the documented loop: divide by the last prime while the scale would
// stay >= minScale/2.
func (s *st) rescaleToModel(s0 *big.Float, l0 int, minScale *big.Float) (sc *big.Float, nb int) {
	half := q128(minScale, fF(2))
	sc = new(big.Float).SetPrec(128).Set(s0)
	lvl := l0
	for lvl >= 0 {
		t := q128(sc, s.qf[lvl])
		if t.Cmp(half) < 0 {
			break
		}
		sc = t
		nb++
		lvl--
	}
	return fB(sc), nb
}

func (s *st) rescaleTo(a *ent, minScale *big.Float, mode, cls string) (res *ent, skipped bool) {
	s0, l0 := a.scale(), a.level()
	if l0 == 0 {
		s.expectError("RescaleTo", "level-0", func() error { return s.eval.RescaleTo(a.ct, rlwe.NewScale(minScale), a.ct.CopyNew()) })
		return nil, true
	}
	sc, nb := s.rescaleToModel(s0, l0, minScale)
	if nb > l0 || flog2(sc) < 12 {
		return nil, true
	}
	ex := &expect{op: "RescaleTo", logSlots: a.logSlots(), depth: a.depth, uneq: a.uneq, want: a.want, deg: a.deg(), level: l0 - nb, scale: sc}
	ex.B = a.E
	if nb > 0 {
		ex.B += s.rsNoise(a.deg()) / f64(sc)
	}
	out := s.pickOut(mode, a.deg(), l0, l0, a, nil)
	if out.mode == "new" {
		out = s.pickOut("fresh", a.deg(), l0, l0, a, nil)
	}
	if out.mode == "large" {
		ex.degMax = out.ct.Degree()
	}
	ex.key = s.unaryKey("RescaleTo", out.mode, a, fmt.Sprintf("%s/nb%d", cls, nb))
	ex.nontriv = true
	s.note("RescaleTo(%s,2^%.3f)->%s nb=%d", s.nameOf(a), flog2(minScale), out.mode, nb)
	if s.call(ex, func() error { return s.eval.RescaleTo(a.ct, rlwe.NewScale(minScale), out.ct) }) {
		res = s.judge(ex, out.ct)
	}
	s.settle(out.mode, a, nil, res, ex.pred)
	return res, false
}

// setScale: in place; documented: "sets the scale of the ciphertext to the input scale (consumes a level)".
func (s *st) setScale(a *ent, target *big.Float, cls string) (res *ent, skipped bool) {
	s0, l0 := a.scale(), a.level()
	ratio := q128(target, s0)
	ex := &expect{op: "SetScale", logSlots: a.logSlots(), depth: a.depth, uneq: true, want: a.want, deg: a.deg(), scale: fB(target)}
	if flog2(target) < 12 || l0 == 0 { // documented: "consumes a level"
		return nil, true
	}
	readSlack := math.Ldexp(a.mag+a.E, 1-int(s.encPrec)) // the ratio is a scalar read at EncodingPrecision bits
	if new(big.Float).SetPrec(s.encPrec).Set(ratio).IsInt() {
		ex.level = l0
		ex.B = a.E + readSlack
		if !s.fits(target, a.mag+a.E, l0) {
			return nil, true
		}
	} else {
		S := s.prodQ(l0, s.lcpr)
		if S == nil || l0-s.lcpr < 0 {
			return nil, true
		}
		ex.level = l0 - s.lcpr
		if !s.fits(fmul(target, S), a.mag+a.E, l0) || !s.fits(target, a.mag+a.E, ex.level) {
			return nil, true
		}
		ex.B = a.E + readSlack + (a.mag+a.E)*0.5/f64(fmul(S, fB(ratio))) + s.rsNoise(a.deg())/f64(target)
		ex.depth++
		// the implementation multiplies by ratio*S and then calls RescaleTo(target); when that divides by
		// anything else than S the documented outcome cannot be reached
		if _, nb := s.rescaleToModel(m128(s0, S), l0, target); nb != s.lcpr {
			ex.pred = "non-integer-ratio-above-2"
		}
	}
	ex.key = s.unaryKey("SetScale", "op0", a, cls)
	ex.nontriv = true
	s.note("SetScale(%s, x%.4f)", s.nameOf(a), f64(ratio))
	if s.call(ex, func() error { return s.eval.SetScale(a.ct, rlwe.NewScale(target)) }) {
		res = s.judge(ex, a.ct)
	}
	s.settle("op0", a, nil, res, ex.pred)
	return res, false
}

func (s *st) scaleUp(a *ent, k uint64, mode string) (res *ent, skipped bool) {
	s0, l0 := a.scale(), a.level()
	ex := &expect{op: "ScaleUp", logSlots: a.logSlots(), depth: a.depth, uneq: true, want: a.want, deg: a.deg(), scale: fmul(s0, fU(k)), B: a.E}
	out := s.pickOut(mode, a.deg(), l0, l0, a, nil)
	ex.level = min(l0, out.lvl)
	if out.mode == "large" {
		ex.degMax = out.ct.Degree()
	}
	if !s.fits(ex.scale, a.mag+a.E, ex.level) {
		return nil, true
	}
	ex.key = s.unaryKey("ScaleUp", out.mode, a, "")
	ex.nontriv = true
	s.note("ScaleUp(%s,%d)->%s", s.nameOf(a), k, out.mode)
	var got *rlwe.Ciphertext
	if s.call(ex, func() (err error) {
		if out.mode == "new" {
			got, err = s.eval.ScaleUpNew(a.ct, rlwe.NewScale(k))
			return
		}
		got = out.ct
		return s.eval.ScaleUp(a.ct, rlwe.NewScale(k), got)
	}) {
		res = s.judge(ex, got)
	}
	s.settle(out.mode, a, nil, res, ex.pred)
	return res, false
}

func (s *st) dropLevel(a *ent, n int, isNew bool) (res *ent, skipped bool) {
	l0 := a.level()
	if n < 0 || l0-n < 0 || !s.fits(a.scale(), a.mag+a.E, l0-n) {
		return nil, true
	}
	ex := &expect{op: "DropLevel", logSlots: a.logSlots(), depth: a.depth, uneq: a.uneq, want: a.want, deg: a.deg(), scale: a.scale(), B: a.E, level: l0 - n}
	mode := "op0"
	if isNew {
		mode = "new"
	}
	ex.key = s.unaryKey("DropLevel", mode, a, fmt.Sprint(n))
	ex.nontriv = true
	s.note("DropLevel(%s,%d)->%s", s.nameOf(a), n, mode)
	var got *rlwe.Ciphertext
	if s.call(ex, func() error {
		if isNew {
			got = s.eval.DropLevelNew(a.ct, n)
		} else {
			got = a.ct
			s.eval.DropLevel(a.ct, n)
		}
		return nil
	}) {
		res = s.judge(ex, got)
	}
	s.settle(mode, a, nil, res, ex.pred)
	return res, false
}

func (s *st) relin(a *ent, mode string) (res *ent, skipped bool) {
	if a.deg() != 2 {
		return nil, true
	}
	l0 := a.level()
	out := s.pickOut(mode, 1, l0, l0, a, nil)
	if out.mode == "garbage" { // keep receivers of degree 1 with two polynomials
		out = s.pickOut("fresh", 1, l0, l0, a, nil)
	}
	ex := &expect{op: "Relinearize", logSlots: a.logSlots(), depth: a.depth, uneq: a.uneq, want: a.want, deg: 1, scale: a.scale()}
	ex.level = min(l0, out.lvl)
	if out.mode == "large" {
		ex.degMax = out.ct.Degree()
	}
	if !s.fits(ex.scale, a.mag+a.E, ex.level) {
		return nil, true
	}
	ex.added = s.ks[ex.level] / f64(ex.scale)
	ex.B = a.E + ex.added
	ex.key = s.unaryKey("Relinearize", out.mode, a, "")
	ex.nontriv = true
	s.note("Relinearize(%s)->%s", s.nameOf(a), out.mode)
	var got *rlwe.Ciphertext
	if s.call(ex, func() (err error) {
		if out.mode == "new" {
			got, err = s.eval.RelinearizeNew(a.ct)
			return
		}
		got = out.ct
		return s.eval.Relinearize(a.ct, got)
	}) {
		res = s.judge(ex, got)
	}
	s.settle(out.mode, a, nil, res, ex.pred)
	return res, false
}

func rotVec(v vec, k int) vec {
	n := len(v)
	o := make(vec, n)
	for j := range o {
		o[j] = v[((j+k)%n+n)%n]
	}
	return o
}

// rotate: k == 0 with conj=true is Conjugate.
func (s *st) rotate(a *ent, k int, conj bool, mode string) (res *ent, skipped bool) {
	if a.deg() != 1 {
		return nil, true
	}
	op := "Rotate"
	if conj {
		op = "Conjugate"
		if s.cfg.CI {
			s.expectError("Conjugate", "conjugate-invariant-ring", func() error { return s.eval.Conjugate(a.ct, a.ct.CopyNew()) })
			return nil, true
		}
	}
	l0 := a.level()
	out := s.pickOut(mode, 1, l0, l0, a, nil)
	if out.mode == "large" {
		// documented (rlwe.Evaluator.Automorphism): an error when the receiver is not of degree 1
		s.refuse(op, "receiver-degree-2", func() error {
			if conj {
				return s.eval.Conjugate(a.ct, out.ct)
			}
			return s.eval.Rotate(a.ct, k, out.ct)
		}, a.ct.El())
		return nil, true
	}
	ex := &expect{op: op, logSlots: a.logSlots(), depth: a.depth, uneq: a.uneq, deg: 1, scale: a.scale()}
	ex.level = min(l0, out.lvl)
	identity := !conj && s.params.GaloisElement(k) == 1
	if identity {
		// a rotation by a multiple of the slot count is a plain copy: no key, no noise; the copy may
		// keep the level of the input whatever the level of the receiver was
		ex.lvlAlt, ex.hasAlt = l0, true
	}
	if !s.fits(ex.scale, a.mag+a.E, ex.level) {
		return nil, true
	}
	if !identity {
		ex.added = s.ks[ex.level] / f64(ex.scale)
	}
	ex.B = a.E + ex.added
	if conj {
		ex.want = vmap(a.want, func(x cx) cx { return x.conj() })
	} else {
		ex.want = rotVec(a.want, k)
	}
	ex.key = s.unaryKey(op, out.mode, a, fmt.Sprint(k))
	ex.nontriv = true
	s.note("%s(%s,%d)->%s", op, s.nameOf(a), k, out.mode)
	var got *rlwe.Ciphertext
	if s.call(ex, func() (err error) {
		switch {
		case out.mode == "new" && conj:
			got, err = s.eval.ConjugateNew(a.ct)
		case out.mode == "new":
			got, err = s.eval.RotateNew(a.ct, k)
		case conj:
			got = out.ct
			err = s.eval.Conjugate(a.ct, got)
		default:
			got = out.ct
			err = s.eval.Rotate(a.ct, k, got)
		}
		return
	}) {
		res = s.judge(ex, got)
	}
	s.settle(out.mode, a, nil, res, ex.pred)
	return res, false
}

func (s *st) rotateHoisted(a *ent, ks []int) {
	if a.deg() != 1 {
		return
	}
	{ // distinct rotations only: the result is a map keyed by k
		seen := map[int]bool{}
		var u []int
		for _, k := range ks {
			if !seen[k] {
				seen[k] = true
				u = append(u, k)
			}
		}
		ks = u
	}
	var outs map[int]*rlwe.Ciphertext
	ex0 := &expect{op: "RotateHoisted", key: "RotateHoisted"}
	s.note("RotateHoistedNew(%s,%v)", s.nameOf(a), ks)
	if !s.call(ex0, func() (err error) { outs, err = s.eval.RotateHoistedNew(a.ct, ks); return }) {
		s.dead = true
		return
	}
	for _, k := range ks {
		ex := &expect{op: "RotateHoisted", logSlots: a.logSlots(), depth: a.depth, uneq: a.uneq, deg: 1, scale: a.scale(), level: a.level()}
		ex.B = a.E + s.ks[ex.level]/f64(ex.scale)
		ex.want = rotVec(a.want, k)
		ex.key = s.unaryKey("RotateHoisted", "new", a, fmt.Sprint(k))
		ex.nontriv = true
		if r := s.judge(ex, outs[k]); r != nil {
			s.pool = append(s.pool, r)
		} else {
			s.dead = true
		}
	}
}

// rotateHoistedInto: RotateHoisted with receivers supplied by the caller (new, at a higher level, or
// used before); ks may contain 0 and multiples of the slot count (plain copies).
func (s *st) rotateHoistedInto(a *ent, ks []int) {
	if a.deg() != 1 {
		return
	}
	outs := map[int]*rlwe.Ciphertext{}
	var u []int
	for _, k := range ks {
		if _, ok := outs[k]; ok {
			continue
		}
		u = append(u, k)
		switch s.rnd.N(3) {
		case 0:
			outs[k] = ckks.NewCiphertext(s.params, 1, a.level())
		case 1:
			outs[k] = ckks.NewCiphertext(s.params, 1, s.params.MaxLevel())
		default:
			outs[k] = s.dirtyCt(1, s.randLevel(a.level()))
		}
	}
	ks = u
	ex0 := &expect{op: "RotateHoisted", key: "RotateHoisted/into"}
	s.note("RotateHoisted(%s,%v)", s.nameOf(a), ks)
	if !s.call(ex0, func() error { return s.eval.RotateHoisted(a.ct, ks, outs) }) {
		s.dead = true
		return
	}
	for _, k := range ks {
		ex := &expect{op: "RotateHoisted", logSlots: a.logSlots(), depth: a.depth, uneq: a.uneq, deg: 1, scale: a.scale(), level: a.level()}
		ex.B = a.E
		if s.params.GaloisElement(k) != 1 {
			ex.B += s.ks[ex.level] / f64(ex.scale)
		}
		ex.want = rotVec(a.want, k)
		ex.key = s.unaryKey("RotateHoisted", "into", a, fmt.Sprint(k))
		ex.nontriv = true
		if r := s.judge(ex, outs[k]); r == nil {
			s.dead = true
		}
	}
}

// userDecode: decode the way a user does (default encoder, recorded dimensions) into `kind`.
func (s *st) userDecode(e *ent, kind string) {
	if e.ct == nil {
		return
	}
	n := 1 << e.logSlots()
	pt := s.dec.DecryptNew(e.ct)
	got := make(vec, n)
	var err error
	realOnly := false
	switch kind {
	case "[]complex128":
		v := make([]complex128, n)
		err = s.ecdDef.Decode(pt, v)
		for i := range v {
			got[i] = cxFF(real(v[i]), imag(v[i]))
		}
	case "[]float64":
		v := make([]float64, n)
		err = s.ecdDef.Decode(pt, v)
		for i := range v {
			got[i] = cxFF(v[i], 0)
		}
		realOnly = true
	case "[]*big.Float":
		v := make([]*big.Float, n)
		err = s.ecdDef.Decode(pt, v)
		for i := range v {
			if v[i] == nil {
				v[i] = new(big.Float)
			}
			got[i] = cx{fB(v[i]), fnew()}
		}
		realOnly = true
	case "[]*bignum.Complex":
		v := make([]*bignum.Complex, n)
		err = s.ecdDef.Decode(pt, v)
		for i := range v {
			if v[i] == nil {
				v[i] = bignum.NewComplex()
			}
			got[i] = cx{fB(v[i][0]), fB(v[i][1])}
		}
	}
	for i := n; i < len(e.want); i++ { // the n-slot view is meaningful only for an n-periodic vector
		if e.want[i].sub(e.want[i%n]).abs() > 0 {
			s.c.Count("user_decodes_skipped_nonperiodic", 1)
			return
		}
	}
	s.c.Eval(1)
	s.c.Count("user_decodes", 1)
	s.c.Distinct("Decode|"+kind+"|"+s.slotClass(e.logSlots())+"|"+s.cfg.Fam, true)
	if err != nil {
		s.c.Violate("C06|Encoder.Decode|unexpected-error|"+kind, err.Error(), s.witness(&expect{op: "Decode"}, ""))
		return
	}
	want := make(vec, n)
	for i := range want {
		want[i] = e.want[i]
		if realOnly {
			want[i] = cx{want[i].re, fnew()}
		}
	}
	prec := s.encPrec
	if (kind == "[]complex128" || kind == "[]float64") && prec > 53 {
		prec = 53
	}
	bound := e.E + math.Ldexp(float64(n)*64*(e.mag+e.E+1e-30), -int(prec)) + math.Ldexp(e.mag+e.E, -int(prec)+1)
	d, at := maxDiff(got, want)
	if s.cfg.CI {
		for i := range got {
			got[i].im = fnew()
		}
		d, at = maxDiff(got, want)
	}
	if !(d <= bound*(1+1e-9)+1e-300) {
		sk := kind
		if s.cfg.CI && s.encPrec > 53 {
			sk = "conjugate-invariant-ring-arbitrary-precision" // one decoder path, whatever the output kind
		}
		s.c.Violate("C06|Encoder.Decode|wrong-value|"+sk, fmt.Sprintf("slot %d/%d: decoded %v expected %v |diff|=2^%.2f > 2^%.2f (measured full-slot error 2^%.2f) %s prog=%v",
			at, n, got[at], want[at], math.Log2(d), math.Log2(bound), math.Log2(e.E), s.nameOf(e), s.prog), s.witness(&expect{op: "Decode", key: kind}, ""))
	}
}
