// Package c06: CKKS evaluation approximates complex arithmetic within noise-implied precision.
//
// Oracle (independent of the evaluator): every ciphertext that exists during a run carries its
// ideal slot vector (math/big complex arithmetic, 256-bit mantissas, over ALL N/2 (N in the
// conjugate-invariant ring) slots so that the canonical embedding is a ring isomorphism) and the
// slot error that was MEASURED for it with the secret key. After every evaluator call the output is
// decrypted and decoded and
//   - its recorded scale is compared exactly (relative 2^-100) with the documented rule applied to
//     the recorded scales of the inputs, its level / degree / slot dimensions exactly;
//   - its measured slot error must not exceed   propagate(measured input errors) + worst-case added
//     noise of that one operation (rounding of a rescale, key-switching, constant / vector
//     quantisation), all worst-case (never k*sigma) bounds in the canonical-embedding norm.
//
// At the end of a program every live ciphertext is additionally decoded the way a user would (default
// precision encoder, recorded LogDimensions, the four output kinds).
package c06

import (
	"fmt"
	"math"
	"math/big"

	"github.com/tuneinsight/lattigo/v6/core/rlwe"
	"github.com/tuneinsight/lattigo/v6/ring"
	"github.com/tuneinsight/lattigo/v6/schemes/ckks"
	"github.com/tuneinsight/lattigo/v6/utils/bignum"

	"verif/harness/eng"
	"verif/harness/obs"
)

const oprec = 256 // mantissa bits of the oracle arithmetic

// ---------------------------------------------------------------------------------------------
// oracle complex arithmetic

type cx struct{ re, im *big.Float }
type vec []cx

func fnew() *big.Float                { return new(big.Float).SetPrec(oprec) }
func fF(x float64) *big.Float         { return fnew().SetFloat64(x) }
func fB(x *big.Float) *big.Float      { return fnew().Set(x) }
func fU(x uint64) *big.Float          { return fnew().SetUint64(x) }
func fI(x *big.Int) *big.Float        { return fnew().SetInt(x) }
func fmul(a, b *big.Float) *big.Float { return fnew().Mul(a, b) }
func fquo(a, b *big.Float) *big.Float { return fnew().Quo(a, b) }
func f64(x *big.Float) float64 {
	v, _ := x.Float64()
	return v
}
func flog2(x *big.Float) float64 {
	if x.Sign() <= 0 {
		return math.Inf(-1)
	}
	m := new(big.Float)
	e := x.MantExp(m)
	return math.Log2(f64(m)) + float64(e)
}

func cxFF(re, im float64) cx { return cx{fF(re), fF(im)} }
func cxZero() cx             { return cx{fnew(), fnew()} }
func (a cx) add(b cx) cx     { return cx{fnew().Add(a.re, b.re), fnew().Add(a.im, b.im)} }
func (a cx) sub(b cx) cx     { return cx{fnew().Sub(a.re, b.re), fnew().Sub(a.im, b.im)} }
func (a cx) mul(b cx) cx {
	return cx{fnew().Sub(fmul(a.re, b.re), fmul(a.im, b.im)), fnew().Add(fmul(a.re, b.im), fmul(a.im, b.re))}
}
func (a cx) scl(f *big.Float) cx { return cx{fmul(a.re, f), fmul(a.im, f)} }
func (a cx) conj() cx            { return cx{fB(a.re), fnew().Neg(a.im)} }
func (a cx) abs() float64        { return math.Hypot(f64(a.re), f64(a.im)) }
func (a cx) String() string      { return fmt.Sprintf("(%.12g%+.12gi)", f64(a.re), f64(a.im)) }

func (v vec) mag() float64 {
	m := 0.0
	for _, x := range v {
		if a := x.abs(); a > m {
			m = a
		}
	}
	return m
}
func vmap2(a, b vec, f func(x, y cx) cx) vec {
	o := make(vec, len(a))
	for i := range a {
		o[i] = f(a[i], b[i])
	}
	return o
}
func vmap(a vec, f func(x cx) cx) vec {
	o := make(vec, len(a))
	for i := range a {
		o[i] = f(a[i])
	}
	return o
}

// maxDiff returns max_j |a_j - b_j| and the index where it is reached.
func maxDiff(a, b vec) (float64, int) {
	m, at := 0.0, 0
	for i := range a {
		if d := a[i].sub(b[i]).abs(); d > m || math.IsNaN(d) {
			m, at = d, i
			if math.IsNaN(d) {
				return math.Inf(1), i
			}
		}
	}
	return m, at
}

// 128-bit mirrored scale arithmetic (rlwe.Scale uses 128-bit big.Float with round-to-nearest-even):
// only used to predict which *branch* the documented rule takes when a quotient is within 2^-128 of
// a decision boundary; expected values are computed at 256 bits.
func m128(a, b *big.Float) *big.Float { return new(big.Float).SetPrec(128).Mul(a, b) }
func q128(a, b *big.Float) *big.Float { return new(big.Float).SetPrec(128).Quo(a, b) }

// ---------------------------------------------------------------------------------------------
// run state

type ent struct {
	ct    *rlwe.Ciphertext
	pt    *rlwe.Plaintext
	want  vec     // ideal values over all slots (sparse vectors replicated)
	E     float64 // measured max slot error
	mag   float64 // max |want|
	depth int
	uneq  bool // an unequal-scale / non-ct operand contributed
}

func (e *ent) el() *rlwe.Element[ring.Poly] {
	if e.ct != nil {
		return e.ct.El()
	}
	return e.pt.El()
}
func (e *ent) scale() *big.Float { return fB(&e.el().Scale.Value) }
func (e *ent) level() int        { return e.el().Level() }
func (e *ent) deg() int          { return e.el().Degree() }
func (e *ent) logSlots() int     { return e.el().LogDimensions.Cols }

type st struct {
	c      *eng.Ctx
	rnd    *eng.Rand
	cfg    pcfg
	params ckks.Parameters
	sk     *rlwe.SecretKey
	enc    *rlwe.Encryptor
	dec    *rlwe.Decryptor
	ecdHi  *ckks.Encoder
	dft    *dft
	ecdDef *ckks.Encoder
	eval   *ckks.Evaluator
	rots   []int
	hasCj  bool
	ci1ok  bool // conjugate-invariant ring: a 1-slot plaintext encodes correctly in this tree

	N, maxSlots, logMax int
	F, T, Be            float64
	lcpr                int
	q                   []uint64
	qf                  []*big.Float
	logQ                []float64
	ks                  []float64 // slot-norm key-switching noise bound per level
	encPrec             uint
	defScale            *big.Float

	pool []*ent
	prog []string
	dead bool // a check failed: stop the program

	rlk   *rlwe.RelinearizationKey
	gks   []*rlwe.GaloisKey
	evTag string // "" for the evaluator returned by the constructor, else how the current one was derived

	hasP       bool        // the parameters have an auxiliary modulus (hoisted rotations are defined only then)
	evals      []namedEval // "copy" cases: the evaluators the calls of a program are spread over
	lateCopies bool
}

const hiPrec = 200

func build(c *eng.Ctx, cfg pcfg) *st {
	lit := ckks.ParametersLiteral{LogN: cfg.LogN, Q: cfg.Q, P: cfg.P, LogDefaultScale: cfg.LogScale}
	if cfg.CI {
		lit.RingType = ring.ConjugateInvariant
	}
	if cfg.XsH > 0 {
		lit.Xs = ring.Ternary{H: cfg.XsH}
	}
	if cfg.XeSigma > 0 {
		lit.Xe = ring.DiscreteGaussian{Sigma: cfg.XeSigma, Bound: cfg.XeBound}
	}
	params, err := ckks.NewParametersFromLiteral(lit)
	if err != nil {
		c.Inconclusive(fmt.Sprintf("parameters rejected: %v (%+v)", err, cfg))
		return nil
	}
	s := &st{c: c, rnd: c.Rand(), cfg: cfg, params: params}
	kg := rlwe.NewKeyGenerator(params)
	s.sk = kg.GenSecretKeyNew()
	s.N = params.N()
	s.maxSlots = params.MaxSlots()
	s.logMax = params.LogMaxSlots()
	// documented rules, computed independently: one prime per rescaling up to a 64-bit default scale,
	// two above; scalars / vectors are read at max(53, log2(default scale)) bits
	s.lcpr = 1
	if cfg.LogScale > 64 {
		s.lcpr = 2
	}
	s.encPrec = uint(max(53, cfg.LogScale))
	s.q = params.Q()
	c.Check(params.LevelsConsumedPerRescaling() == s.lcpr && params.MaxDepth() == params.MaxLevel()/s.lcpr, "C06|Parameters.LevelsConsumedPerRescaling|wrong-value", func() string {
		return fmt.Sprintf("LogDefaultScale=%d: LevelsConsumedPerRescaling=%d MaxDepth=%d MaxLevel=%d", cfg.LogScale, params.LevelsConsumedPerRescaling(), params.MaxDepth(), params.MaxLevel())
	})
	c.Check(params.EncodingPrecision() == s.encPrec && params.LogDefaultScale() == cfg.LogScale, "C06|Parameters.EncodingPrecision|wrong-value", func() string {
		return fmt.Sprintf("LogDefaultScale=%d: EncodingPrecision=%d LogDefaultScale()=%d", cfg.LogScale, params.EncodingPrecision(), params.LogDefaultScale())
	})
	ds := params.DefaultScale()
	s.defScale = fB(&ds.Value)
	s.F = float64(s.N)
	if cfg.CI {
		s.F = 2 * float64(s.N)
	}
	s.Be = math.Floor(params.NoiseBound()) + 1
	// rotations available in this run
	cand := []int{1, -1, 2, 3, s.maxSlots / 2, 7, s.maxSlots - 1, 5}
	seen := map[uint64]bool{1: true}
	var gals []uint64
	for _, k := range cand {
		g := params.GaloisElement(k)
		if seen[g] || len(s.rots) >= 5 {
			continue
		}
		seen[g] = true
		gals = append(gals, g)
		s.rots = append(s.rots, k)
	}
	if !cfg.CI {
		gals = append(gals, params.GaloisElementOrderTwoOrthogonalSubgroup())
		s.hasCj = true
	}
	rlk := kg.GenRelinearizationKeyNew(s.sk)
	gks := kg.GenGaloisKeysNew(gals, s.sk)
	s.rlk, s.gks = rlk, gks
	s.eval = ckks.NewEvaluator(params, rlwe.NewMemEvaluationKeySet(rlk, gks...))
	s.enc = rlwe.NewEncryptor(params, s.sk)
	s.dec = rlwe.NewDecryptor(params, s.sk)
	s.ecdDef = ckks.NewEncoder(params)
	s.ecdHi = ckks.NewEncoder(params, hiPrec)

	P := fF(1)
	for _, p := range params.P() {
		P = fmul(P, fU(p))
	}
	acc := fF(1)
	for i, q := range s.q {
		s.qf = append(s.qf, fU(q))
		acc = fmul(acc, fU(q))
		s.logQ = append(s.logQ, flog2(acc))
		_ = i
	}
	M := s.N
	if cfg.CI {
		M = 2 * s.N
	}
	s.dft = newDFT(M, s.maxSlots)
	// T = max_j |tau_j(s)|: the secret (NTT + Montgomery form) embedded like a scale-1 plaintext
	{
		r0 := params.RingQ().AtLevel(0)
		v := s.slotsOf(obs.Centered(r0, obs.Plain(r0, s.sk.Value.Q, true, true)), fF(1))
		s.T = v.mag()*1.0001 + 1e-6
	}
	// key-switching noise (slot norm) per level: F * ( N*Be*sum_i (a_i+1) Q_Di / P + (#P+2)(1+T) )
	// (without an auxiliary modulus every prime of Q is a digit of its own and nothing is divided out)
	alpha := params.PCount()
	s.hasP = alpha > 0
	dig := max(alpha, 1)
	for l := range s.q {
		sum := fnew()
		for i := 0; i*dig <= l; i++ {
			qd := fF(1)
			cnt := 0
			for j := i * dig; j < (i+1)*dig && j <= l; j++ {
				qd = fmul(qd, s.qf[j])
				cnt++
			}
			sum.Add(sum, fmul(qd, fF(float64(cnt+1))))
		}
		coeff := f64(fquo(fmul(sum, fF(float64(s.N)*s.Be)), P))
		s.ks = append(s.ks, s.F*(coeff+float64(alpha+2)*(1+s.T)))
	}
	if cfg.CI {
		pt := ckks.NewPlaintext(params, params.MaxLevel())
		pt.LogDimensions = ring.Dimensions{Rows: 0, Cols: 0}
		if p, _ := eng.Panics(func() {
			if err := s.ecdDef.Encode([]float64{0.5}, pt); err == nil {
				v := s.decodeFullPt(pt)
				d, _ := maxDiff(v, s.replicate(vec{cxFF(0.5, 0)}))
				s.ci1ok = d < 1e-3
			}
		}); p {
			s.ci1ok = false
		}
	}
	return s
}

// ---------------------------------------------------------------------------------------------
// observation

func (s *st) decodeFullPt(pt *rlwe.Plaintext) vec {
	return s.slotsOf(s.coeffsOf(pt.El()), fB(&pt.Scale.Value))
}

func (s *st) decodeFull(ct *rlwe.Ciphertext) vec {
	return s.decodeFullPt(s.dec.DecryptNew(ct))
}

// replicate a vector of n (power of two) slots over all slots.
func (s *st) replicate(v vec) vec {
	out := make(vec, s.maxSlots)
	for i := range out {
		out[i] = v[i%len(v)]
	}
	return out
}

// worst-case added noise (slot norm, absolute, before division by the scale)
func (s *st) rsNoise(deg int) float64 {
	t := 1 + s.T
	if deg >= 2 {
		t += s.T * s.T
	}
	return s.F * 1.5 * t
}

// encErr bounds the slot error of a vector encoded by an encoder of `prec` bits at scale S
// (coefficient rounding 1/2 each + FFT arithmetic).
func (s *st) encErr(S *big.Float, vmag float64, nslots int, prec uint) float64 {
	return s.F*0.5/f64(S) + math.Ldexp(float64(nslots)*64*vmag, -int(prec))
}

func (s *st) fits(scale *big.Float, mag float64, level int) bool {
	if level < 0 || level >= len(s.logQ) || scale.Sign() <= 0 {
		return false
	}
	if mag < 1e-9 {
		mag = 1e-9
	}
	return flog2(scale)+math.Log2(mag)+2.5 <= s.logQ[level]
}

// prodQ returns q[level]*q[level-1]*... (k primes) or nil when not enough levels.
func (s *st) prodQ(level, k int) *big.Float {
	if level-k+1 < 0 {
		return nil
	}
	p := fF(1)
	for i := 0; i < k; i++ {
		p = fmul(p, s.qf[level-i])
	}
	return p
}

type expect struct {
	op       string // API entry point
	sigOp    string // entry point(s) named in the signature of a triaged input class (one root cause = one signature)
	key      string // distinct key of this evaluation (op|kind|out|relations)
	nontriv  bool
	want     vec
	scale    *big.Float
	level    int
	deg      int
	logSlots int
	B        float64
	added    float64 // part of B that is the worst-case noise added by this very operation (evidence only)
	pred     string  // predicate naming the input class when it is one with a separately triaged behaviour
	depth    int
	uneq     bool
	degMax   int  // > deg: the receiver had this (larger) degree; it may keep it (zero-filled) or be shrunk
	lvlAlt   int  // identity rotation (a plain copy): the level of the input is an accepted outcome too
	hasAlt   bool // lvlAlt is set
}

func (s *st) witness(ex *expect, extra string) any {
	return map[string]any{"cfg": s.cfg, "program": append([]string(nil), s.prog...), "op": ex.op, "key": ex.key, "detail": extra}
}

func sigOf(op, class, pred string) string {
	sg := "C06|Evaluator." + op + "|" + class
	if pred != "" {
		sg += "|" + pred
	}
	return sg
}

// sig: failures inside a triaged input class share one signature per root cause.
func (ex *expect) sig(class string) string {
	if ex.pred == "" {
		return sigOf(ex.op, class, "")
	}
	op := ex.op
	if ex.sigOp != "" {
		op = ex.sigOp
	}
	if class != "panic" && class != "unexpected-error" {
		class = "wrong-result"
	}
	return sigOf(op, class, ex.pred)
}

// call runs f (an evaluator call returning an error), turning panics and unexpected errors into
// violations. Returns true when the call completed without error.
func (s *st) call(ex *expect, f func() error) bool {
	var err error
	p, val := eng.Panics(func() { err = f() })
	if p {
		s.c.Eval(1)
		if ex.pred == "scalar-uint" {
			ex.sigOp = "Add,Sub,Mul,MulThenAdd" // one root cause, one signature
		}
		s.c.Violate(ex.sig("panic"), fmt.Sprintf("%s panicked: %v; %s", ex.op, val, ex.key), s.witness(ex, fmt.Sprint(val)))
		s.c.Count("panics", 1)
		return false
	}
	if err != nil {
		s.c.Eval(1)
		s.c.Violate(ex.sig("unexpected-error"), fmt.Sprintf("%s returned %v; %s", ex.op, err, ex.key), s.witness(ex, err.Error()))
		return false
	}
	return true
}

// expectError: the documented outcome of f is an error (a panic or success is a violation).
func (s *st) expectError(op, why string, f func() error) {
	var err error
	s.c.Eval(1)
	s.c.Count("error_outcomes_checked", 1)
	s.c.Distinct("err|"+op+"|"+why+"|"+s.cfg.Fam, true)
	p, val := eng.Panics(func() { err = f() })
	if p {
		s.c.Violate("C06|Evaluator."+op+"|panic-instead-of-error|"+why, fmt.Sprintf("%v", val), map[string]any{"cfg": s.cfg, "program": s.prog})
		return
	}
	if err == nil {
		s.c.Violate("C06|Evaluator."+op+"|no-error|"+why, "documented error not returned", map[string]any{"cfg": s.cfg, "program": s.prog})
	}
}

// snapshot / sameEl: bit-exact comparison of an operand before and after a call.
type elSnap struct {
	el   *rlwe.Element[ring.Poly]
	meta rlwe.MetaData
	nilM bool
	vals [][][]uint64
}

func snapshot(el *rlwe.Element[ring.Poly]) elSnap {
	sn := elSnap{el: el, nilM: el.MetaData == nil}
	if !sn.nilM {
		sn.meta = *el.MetaData.CopyNew()
	}
	for _, p := range el.Value {
		var rows [][]uint64
		for _, row := range p.Coeffs {
			rows = append(rows, append([]uint64(nil), row...))
		}
		sn.vals = append(sn.vals, rows)
	}
	return sn
}

func (sn elSnap) changed() string {
	el := sn.el
	if (el.MetaData == nil) != sn.nilM {
		return "MetaData pointer"
	}
	if !sn.nilM {
		m := el.MetaData
		if m.Scale.Value.Cmp(&sn.meta.Scale.Value) != 0 || m.IsNTT != sn.meta.IsNTT || m.IsMontgomery != sn.meta.IsMontgomery || m.IsBatched != sn.meta.IsBatched || m.LogDimensions != sn.meta.LogDimensions {
			return fmt.Sprintf("MetaData %+v -> %+v", sn.meta, *m)
		}
	}
	if len(el.Value) != len(sn.vals) {
		return fmt.Sprintf("degree %d -> %d", len(sn.vals)-1, len(el.Value)-1)
	}
	for i, p := range el.Value {
		if len(p.Coeffs) != len(sn.vals[i]) {
			return fmt.Sprintf("level %d -> %d", len(sn.vals[i])-1, len(p.Coeffs)-1)
		}
		for j, row := range p.Coeffs {
			for k, v := range row {
				if v != sn.vals[i][j][k] {
					return fmt.Sprintf("coefficient [%d][%d][%d]", i, j, k)
				}
			}
		}
	}
	return ""
}

// refuse: the documented outcome of f is an error; a panic or success is a violation, and so is any
// change to the input operands `ins` (a program that ignores the refusal goes on using them).
func (s *st) refuse(op, why string, f func() error, ins ...*rlwe.Element[ring.Poly]) {
	var snaps []elSnap
	for _, el := range ins {
		if el != nil {
			snaps = append(snaps, snapshot(el))
		}
	}
	s.c.Count("refusals_checked", 1)
	s.expectError(op, why, f)
	for i, sn := range snaps {
		s.c.Eval(1)
		if ch := sn.changed(); ch != "" {
			s.c.Violate("C06|Evaluator."+op+"|operand-modified-by-refused-call|"+why, fmt.Sprintf("input operand %d changed: %s", i, ch), map[string]any{"cfg": s.cfg, "program": s.prog})
		}
	}
}

var tol100 = math.Ldexp(1, -100)

// judge compares the output of one evaluator call with the expectation; returns the new pool
// entry or nil when a check failed (only the first failing check is reported).
func (s *st) judge(ex *expect, out *rlwe.Ciphertext) *ent {
	c := s.c
	c.Eval(1)
	c.Count("ops_judged", 1)
	c.Count("op_"+ex.op, 1)
	if s.evTag != "" {
		c.Distinct(ex.key+"|"+s.cfg.Fam+"|ls"+fmt.Sprint(s.cfg.LogScale/10*10)+"|eval="+s.evTag, true)
		c.Count("ops_on_derived_evaluator", 1)
	} else {
		c.Distinct(ex.key+"|"+s.cfg.Fam+"|ls"+fmt.Sprint(s.cfg.LogScale/10*10), ex.nontriv || s.cfg.Fam != "std64")
	}
	if s.cfg.Tag != "" {
		c.Count("ops_edge_"+s.cfg.Tag, 1)
	}
	fail := func(class, detail string) *ent {
		c.Violate(ex.sig(class), detail+" ["+ex.key+"] prog="+fmt.Sprint(s.prog), s.witness(ex, detail))
		return nil
	}
	if out == nil || out.MetaData == nil {
		return fail("nil-output", "")
	}
	// 1. scale metadata, exact
	got := fB(&out.Scale.Value)
	d := fnew().Sub(got, ex.scale)
	d.Abs(d)
	rel := f64(fquo(d, ex.scale))
	if !(rel <= tol100) {
		return fail("wrong-scale", fmt.Sprintf("recorded scale 2^%.6f, documented rule gives 2^%.6f (rel. diff 2^%.1f)", flog2(got), flog2(ex.scale), math.Log2(rel)))
	}
	// 2. value
	if out.Level() < 0 || out.Level() > s.params.MaxLevel() || out.Degree() < 0 || out.Degree() > 2 || !out.IsNTT {
		return fail("malformed-output", fmt.Sprintf("level=%d degree=%d ntt=%v", out.Level(), out.Degree(), out.IsNTT))
	}
	var dec vec
	if p, val := eng.Panics(func() { dec = s.decodeFull(out) }); p {
		return fail("undecodable-output", fmt.Sprint(val))
	}
	e, at := maxDiff(dec, ex.want)
	mag := ex.want.mag()
	// recorded scales are 128-bit floats: decoding with the recorded scale is exact to 2^-128 per
	// scale operation only
	ex.B += math.Ldexp(mag, -122)
	if !(e <= ex.B*(1+1e-9)+1e-300) {
		return fail("wrong-value", fmt.Sprintf("slot %d: decoded %v, expected %v, |diff|=2^%.2f > budget 2^%.2f (scale 2^%.2f, level %d, |m|max=%.4g)",
			at, dec[at], ex.want[at], math.Log2(e), math.Log2(ex.B), flog2(got), out.Level(), mag))
	}
	// 3. level / degree / dimensions
	if out.Level() != ex.level && !(ex.hasAlt && out.Level() == ex.lvlAlt) {
		return fail("wrong-level", fmt.Sprintf("level %d, documented %d", out.Level(), ex.level))
	}
	if out.Degree() != ex.deg && !(out.Degree() > ex.deg && out.Degree() <= ex.degMax) {
		return fail("wrong-degree", fmt.Sprintf("degree %d, expected %d", out.Degree(), ex.deg))
	}
	if out.IsMontgomery {
		return fail("malformed-output", "IsMontgomery set on an evaluator output")
	}
	if out.LogDimensions.Cols != ex.logSlots || out.LogDimensions.Rows != 0 || !out.IsBatched {
		return fail("wrong-dimensions", fmt.Sprintf("LogDimensions %+v batched=%v, expected cols=%d", out.LogDimensions, out.IsBatched, ex.logSlots))
	}
	// evidence
	if ex.added > 0 {
		// how much of the worst-case allowance of this operation was actually used
		if r := (e - (ex.B - ex.added)) / ex.added; r > 0 {
			c.Max("max_used_of_added_noise_bound_ppm_"+ex.op, int64(1e6*r))
		}
	}
	if ex.B > math.Ldexp(math.Max(mag, 1), -6) {
		c.Count("weak_budget_checks", 1)
	} else {
		c.Count("sharp_budget_checks", 1)
		c.Max("max_budget_log2_x100_sharp", int64(100*math.Log2(ex.B/math.Max(mag, 1))))
	}
	c.Count("noise_measurements", 1)
	if ex.depth >= 2 {
		c.Count("outputs_depth_ge2", 1)
	}
	return &ent{ct: out, want: ex.want, E: e, mag: mag, depth: ex.depth, uneq: ex.uneq}
}

// ---------------------------------------------------------------------------------------------
// inputs

// fresh encrypts `vals` (n = 2^logSlots values) at the given level and scale.
func (s *st) fresh(level int, scale *big.Float, logSlots int, vals vec, hi bool) *ent {
	if !s.fits(scale, vals.mag(), level) {
		return nil // the message would not fit the modulus: not a valid input
	}
	pt := ckks.NewPlaintext(s.params, level)
	pt.Scale = rlwe.NewScale(scale)
	pt.LogDimensions = ring.Dimensions{Rows: 0, Cols: logSlots}
	bc := make([]*bignum.Complex, len(vals))
	for i, v := range vals {
		bc[i] = &bignum.Complex{new(big.Float).SetPrec(hiPrec).Set(v.re), new(big.Float).SetPrec(hiPrec).Set(v.im)}
	}
	ecd, prec := s.ecdDef, s.encPrec
	if hi {
		ecd, prec = s.ecdHi, hiPrec
	}
	if err := ecd.Encode(bc, pt); err != nil {
		s.c.Violate("C06|Encoder.Encode|unexpected-error", err.Error(), s.cfg)
		return nil
	}
	ct, err := s.enc.EncryptNew(pt)
	if err != nil {
		s.c.Violate("C06|Encryptor.EncryptNew|unexpected-error", err.Error(), s.cfg)
		return nil
	}
	want := s.replicate(vals)
	if s.cfg.CI {
		want = vmap(want, func(x cx) cx { return cx{x.re, fnew()} })
	}
	dec := s.decodeFull(ct)
	e, at := maxDiff(dec, want)
	mag := want.mag()
	sc := fB(&ct.Scale.Value)
	bound := s.F*(s.Be+0.5)/f64(sc) + math.Ldexp(float64(len(vals))*64*math.Max(mag, 1e-30), -int(prec))
	s.c.Eval(1)
	if !(e <= bound) {
		sig := "C06|Encode+Encrypt|fresh-error-above-worst-case"
		if s.cfg.CI && logSlots == 0 {
			sig = "C06|Encoder.Encode|wrong-value|conjugate-invariant-ring-1-slot"
		}
		s.c.Violate(sig, fmt.Sprintf("slot %d: |diff|=2^%.2f > 2^%.2f (scale 2^%.2f level %d logSlots %d hi=%v) got %v want %v",
			at, math.Log2(e), math.Log2(bound), flog2(sc), level, logSlots, hi, dec[at], want[at]), s.cfg)
		return nil
	}
	return &ent{ct: ct, want: want, E: e, mag: mag}
}

// plain encodes a plaintext operand.
func (s *st) plain(level int, scale *big.Float, logSlots int, vals vec, hi bool) *ent {
	pt := ckks.NewPlaintext(s.params, level)
	pt.Scale = rlwe.NewScale(scale)
	pt.LogDimensions = ring.Dimensions{Rows: 0, Cols: logSlots}
	bc := make([]*bignum.Complex, len(vals))
	for i, v := range vals {
		bc[i] = &bignum.Complex{new(big.Float).SetPrec(hiPrec).Set(v.re), new(big.Float).SetPrec(hiPrec).Set(v.im)}
	}
	ecd := s.ecdDef
	if hi {
		ecd = s.ecdHi
	}
	if err := ecd.Encode(bc, pt); err != nil {
		s.c.Violate("C06|Encoder.Encode|unexpected-error", err.Error(), s.cfg)
		return nil
	}
	want := s.replicate(vals)
	if s.cfg.CI {
		want = vmap(want, func(x cx) cx { return cx{x.re, fnew()} })
	}
	dec := s.decodeFullPt(pt)
	e, _ := maxDiff(dec, want)
	return &ent{pt: pt, want: want, E: e, mag: want.mag()}
}

// zeroCt is a newly allocated ciphertext (all zero, default scale), the usual accumulator start.
func (s *st) zeroCt(deg, level int) *ent {
	ct := ckks.NewCiphertext(s.params, deg, level)
	want := make(vec, s.maxSlots)
	for i := range want {
		want[i] = cxZero()
	}
	return &ent{ct: ct, want: want}
}

func (s *st) clone(e *ent) *ent {
	o := *e
	if e.ct != nil {
		o.ct = e.ct.CopyNew()
	} else {
		o.pt = e.pt.CopyNew()
	}
	return &o
}
