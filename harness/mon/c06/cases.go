package c06

import (
	"fmt"
	"math"
	"math/big"

	"verif/harness/eng"
	"verif/harness/gen"
)

// pcfg is one CKKS parameter set (literal moduli so that a case replays without the generator).
type pcfg struct {
	Fam      string   `json:"fam"` // std64 | ci64 | std128 | ci128
	CI       bool     `json:"ci"`
	LogN     int      `json:"logN"`
	LogScale int      `json:"logScale"`
	Q        []uint64 `json:"Q"`
	P        []uint64 `json:"P"`
	QBits    []int    `json:"qbits"`
	XsH      int      `json:"xsH"`               // 0: default ternary (P=2/3), >0: fixed Hamming weight
	Tag      string   `json:"tag,omitempty"`     // boundary parameter sets: which boundary
	XeSigma  float64  `json:"xeSigma,omitempty"` // 0: default error distribution (sigma 3.2, bound 19.2)
	XeBound  float64  `json:"xeBound,omitempty"`
}

func (p pcfg) id() string {
	id := fmt.Sprintf("%s/logN%d/s%d/q%d+p%d/h%d/%x", p.Fam, p.LogN, p.LogScale, len(p.Q), len(p.P), p.XsH, p.Q[len(p.Q)-1]&0xffff)
	if p.Tag != "" {
		id += "/" + p.Tag
	}
	return id
}

// mkcfg draws a chain: `depth` rescalings available above the base modulus.
func mkcfg(r *eng.Rand, ci bool, logN, logScale, depth, np int) (pcfg, bool) {
	nth := uint64(2) << logN
	if ci {
		nth <<= 1
	}
	cfg := pcfg{CI: ci, LogN: logN, LogScale: logScale}
	skip := map[uint64]bool{}
	prime := func(bits int, pos int) uint64 {
		if bits > 60 {
			bits = 60
		}
		pr := gen.Primes(bits, nth, 1, pos, skip)
		if len(pr) == 0 {
			pr = gen.Primes(bits, nth, 1, gen.PosAbove, skip)
		}
		if len(pr) == 0 {
			return 0
		}
		return pr[0]
	}
	// a prime "close to 2^b": just below, just above, or (hostile) 0.65*2^b / 0.95*2^b
	near := func(b int) uint64 {
		switch r.N(6) {
		case 0, 1:
			return prime(b, gen.PosBelow)
		case 2, 3:
			if b < 60 {
				return prime(b+1, gen.PosAbove)
			}
			return prime(b, gen.PosBelow)
		case 4:
			return prime(b, gen.PosMid13)
		}
		return prime(b, gen.PosMid19)
	}
	prec128 := logScale > 64
	var qb []int
	if !prec128 {
		cfg.Fam = "std64"
		if ci {
			cfg.Fam = "ci64"
		}
		q0 := min(60, logScale+7+r.N(5))
		qb = append(qb, q0)
		for i := 0; i < depth; i++ {
			qb = append(qb, logScale)
		}
	} else {
		cfg.Fam = "std128"
		if ci {
			cfg.Fam = "ci128"
		}
		a, b := (logScale+1)/2, logScale/2
		qb = append(qb, min(60, a+4+r.N(3)), min(60, b+4+r.N(3)))
		for i := 0; i < depth; i++ {
			qb = append(qb, a, b)
		}
	}
	for i, b := range qb {
		var q uint64
		if i == 0 || (prec128 && i == 1) {
			q = prime(b, gen.PosBelow)
		} else {
			q = near(b)
		}
		if q == 0 {
			return cfg, false
		}
		cfg.Q = append(cfg.Q, q)
	}
	cfg.QBits = qb
	// auxiliary modulus: at least as large as a decomposition digit
	pbits := 60
	if !prec128 && logScale < 40 && r.Bool() {
		pbits = max(logScale+8, 36)
	}
	for i := 0; i < np; i++ {
		p := prime(pbits, gen.PosBelow)
		if p == 0 {
			return cfg, false
		}
		cfg.P = append(cfg.P, p)
	}
	switch r.N(4) {
	case 0:
		cfg.XsH = min(1<<logN/2, 8+r.N(24))
	case 1:
		cfg.XsH = min(1<<logN/2, 192)
	}
	return cfg, true
}

func cfgs(tier string, seed int64) []pcfg {
	r := eng.NewRand("c06-cfgs", seed)
	var out []pcfg
	add := func(ci bool, logN, ls, depth, np int) {
		if cfg, ok := mkcfg(r, ci, logN, ls, depth, np); ok {
			out = append(out, cfg)
		}
	}
	thorough := tier == "thorough"
	// PREC64, standard ring: small scales need small rings for a sharp budget
	for _, ls := range []int{20, 25, 30, 36, 40, 45, 50, 55} {
		logNs := []int{4 + r.N(3)}
		if ls >= 36 {
			logNs = append(logNs, 7+r.N(3))
		}
		if thorough {
			logNs = append(logNs, 4+r.N(4))
			if ls >= 40 {
				logNs = append(logNs, 10+r.N(2))
			}
		}
		for _, logN := range logNs {
			add(false, logN, ls, 2+r.N(4), 1+r.N(3))
		}
	}
	// conjugate-invariant ring
	for _, ls := range []int{24, 33, 45, 52} {
		add(true, 4+r.N(4), ls, 2+r.N(3), 1+r.N(2))
		if thorough {
			add(true, 5+r.N(5), ls, 2+r.N(4), 1+r.N(3))
		}
	}
	// PREC128: two primes per rescaling, arbitrary-precision encoder
	for _, ls := range []int{65, 72, 80, 90, 100} {
		add(false, 4+r.N(5), ls, 1+r.N(3), 2)
		if thorough {
			add(false, 5+r.N(6), ls, 2+r.N(2), 2+r.N(2))
		}
	}
	add(true, 4+r.N(4), 70+r.N(25), 2, 2)
	if thorough {
		add(true, 5+r.N(4), 66+r.N(30), 2, 2)
		add(false, 6, 64, 3, 1) // largest PREC64 scale
		add(false, 5, 60, 3, 2)
	}
	return out
}

func cases(tier string, seed int64) []eng.Case {
	var out []eng.Case
	nprog, steps := 8, 18
	if tier == "thorough" {
		nprog, steps = 30, 24
	}
	nedge := 3
	if tier == "thorough" {
		nedge = 10
	}
	// kind-major order: the engine shards by case index, so neighbours should cost about the same
	all := append(cfgs(tier, seed), edgeCfgs(tier, seed)...)
	for _, kind := range []string{"scalar", "vector", "scale", "addsub", "mta", "xscalar", "recv", "refuse"} {
		for _, cfg := range all {
			kind, cfg := kind, cfg
			out = append(out, eng.Case{ID: kind + "/" + cfg.id(), Sig: "C06|" + kind, Desc: cfg, Run: func(c *eng.Ctx) { runDirected(c, cfg, kind) }})
		}
	}
	for _, cfg := range all {
		cfg := cfg
		out = append(out, eng.Case{ID: "copy/" + cfg.id(), Sig: "C06|copy", Desc: cfg, Run: func(c *eng.Ctx) { runCopy(c, cfg, steps) }})
	}
	for i := 0; i < nprog; i++ {
		for _, cfg := range all {
			cfg := cfg
			if cfg.Tag != "" && i >= nedge {
				continue
			}
			out = append(out, eng.Case{ID: fmt.Sprintf("prog%d/%s", i, cfg.id()), Sig: "C06|program", Desc: cfg, Run: func(c *eng.Ctx) { runProg(c, cfg, steps) }})
		}
	}
	return out
}

func init() {
	eng.Register(&eng.Monitor{
		ID: "C06", Level: "exploration",
		Rule:  "cases = (kind, parameter set); parameter sets vary ring type (standard / conjugate-invariant), logN 4..11, default scale 20..55 bits (one prime per rescaling) and 65..100 bits (two primes per rescaling, arbitrary-precision encoder), chain depth, primes at 0.65..1.0 x the scale, #P, secret weight. kind 'prog' = random straight-line program (up to 18 (quick) / 24 (thorough) evaluator calls chosen adaptively so that the message always fits the modulus) over a pool of ciphertexts/plaintexts with equal and unequal scales, levels, degrees and slot counts; the other kinds enumerate one API family: scalar = {Add,Sub,Mul,MulThenAdd} x 9 scalar Go types x value classes x receivers; vector = same x 4 vector types x lengths x sparse packings; scale = Rescale/RescaleTo (threshold boundaries)/SetScale (ratios)/ScaleUp/DropLevel at every level; addsub = Add/Sub with scale ratios {1, integer, prime, non-integer, 1+eps} x operand order x receiver aliasing x degree; mta = MulThenAdd/MulRelinThenAdd accumulator scale/level/degree relations; xscalar = boundary values of every scalar Go type (MinInt64, MaxUint64, 2^64..2^127 big integers, -0, denormals, mixed real/imaginary integrality, big.Float of 10..500 bits) x {Add,Sub,Mul,MulThenAdd} and scalar/vector operands at level 0; recv = used receivers whose degree differs from the degree of the result (one component more with stale data / one less) for Add/Sub/Mul/MulRelin x operand kinds, Rescale, RescaleTo, ScaleUp, Relinearize; refuse = every refusal the evaluator documents (operand type outside the list, vector longer than MaxSlots, non-NTT / non-batched / nil-MetaData operands, two degree-0 operands, degree-2 input or receiver of a rotation, degree-1 input of Relinearize, degree-2 operand of a multiplication, missing relinearisation / Galois key with an empty and with a nil key set, Rescale below the first rescalable level, RescaleTo at level 0 / minScale 0 / scale 0, MulThenAdd with opOut==op0/op1 or op0.Scale>opOut.Scale, Conjugate in the conjugate-invariant ring) must return an error (a panic or success is a violation), leave the input operands bit-identical, and the evaluator must go on working; copy = a random program whose calls are spread over the constructor evaluator and evaluators derived from it by ShallowCopy / WithKey (chained, before and after use), plus an evaluator restricted to the relinearisation key. The scale cases also check rotations by 0 / multiples of the slot count / k +- slots, RotateHoisted into caller-supplied (higher-level, used) receivers, Parameters.{PrecisionMode,QLvl,LogQLvl,MaxSlots,GetOptimalScalingFactor (direct and composed with Mul+Rescale)} and the rlwe.Scale arithmetic (Mul/Div to 2^-127, Cmp/Max/Min/Equal exactly, Float64/Uint64/BigInt/Log2/Log2Delta/InDelta). Boundary parameter sets (tag in the case id): single modulus (L0), no auxiliary modulus (noP; hoisted rotations are not defined there), 9..11 RNS digits, 61-bit Q0 and P next to 20..30-bit primes (q61), error distribution with bound 1 or 153.6, secret of weight 1 or N. EVERY evaluator call is judged (scale exact to 2^-100, level, degree, dimensions, decrypted value within the one-step worst-case budget). distinct key = (op, operand kind and value class, receiver mode, scale relation, level relation, degrees, slot class, family, scale decade) and, for programs, the normalised program text; non-trivial = anything but a standard-ring PREC64 ciphertext-ciphertext call with equal scales and levels into a fresh full-slot receiver (i.e. other operand kind, unequal scale or level, aliased or dirty receiver, degree 2, sparse packing, conjugate-invariant ring, PREC128, error outcome) or a program of multiplicative depth >= 2.",
		Cases: cases,
		Assumptions: []string{
			"oracle arithmetic is math/big at 256 bits: slot values are observed with rlwe.Decryptor + lattigo's INTT (judged by C01) followed by an independent CRT lift and an independent big-float DFT over all N/2 (N) slots; the library decoder is only exercised as the object under test at the end of programs",
			"worst-case noise constants: |e|<=floor(6 sigma)+1, rounding <=1.5 per component and rescaling, key-switch digits <= (a+1)*Q_digit, mod-down error <= #P+2, |tau(s)| measured from the actual secret, canonical embedding norm <= N (2N conjugate-invariant) * coefficient norm, FFT error <= 64*n*2^-prec*|v|",
			"scalars are read at EncodingPrecision bits (bignum.ToComplex), vector operands must fit op0's slot count, non-integer scale ratios in Add/Sub are modelled as the code documents (multiplication by floor(ratio))",
			"a budget that exceeds 2^-6*max(|m|,1) is counted as weak (counter weak_budget_checks): such a check still bounds gross errors only",
			"a receiver of larger degree than the result may keep its degree (extra components zero) or be shrunk: both are accepted, the decrypted value decides; an identity rotation (Galois element 1) may return the level of the input or min(input, receiver)",
			"out of the documented domain, hence not generated: ScaleUp by a non-integer or >= 2^64 scale (in-tree callers pass rounded integers), a non-integer constant or a vector in Mul below the first rescalable level, vectors longer than op0's slot count but within MaxSlots, hoisted rotations without auxiliary modulus, scalar NaN/Inf, nil components of *bignum.Complex",
		},
	})
}

// ---------------------------------------------------------------------------------------------
// helpers shared by the runners

func (s *st) maxMagAt(scale *big.Float, level int) float64 {
	// largest |m| such that scale*|m| fits with 3 bits to spare
	if level < 0 {
		return 0 // below the chain (single-modulus parameters): no room at all
	}
	return math.Exp2(s.logQ[level] - flog2(scale) - 3.5)
}

func (s *st) pickVals(n int, scale *big.Float, level int) (vec, string) {
	cls := eng.Pick(s.rnd, valClasses...)
	room := s.maxMagAt(scale, level)
	if cls == "big" && room < 8 {
		cls = "unit"
	}
	if room < 1.5 {
		cls = "tiny"
	}
	return s.genVals(n, cls, room, s.cfg.CI), cls
}

// hostileScale returns a scale near `base`: base itself, base*k, or base times a factor with a full
// 128-bit mantissa.
func (s *st) hostileScale(base *big.Float, which int) *big.Float {
	switch which {
	case 0:
		return fB(base)
	case 1:
		return fmul(base, fF(3))
	case 2:
		return fquo(fmul(base, fF(4)), fF(3)) // 1.333..., full mantissa
	case 3:
		return fquo(fmul(base, base), s.qf[len(s.qf)-1]) // what a product rescaled by the top prime carries
	case 4:
		return fmul(base, fF(1+math.Ldexp(1, -30)))
	default:
		return fmul(base, fF(0.5+s.rnd.F64()))
	}
}

func (s *st) liveCts(f func(e *ent) bool) []*ent {
	var o []*ent
	for _, e := range s.pool {
		if e.ct != nil && (f == nil || f(e)) {
			o = append(o, e)
		}
	}
	return o
}
func (s *st) livePts() []*ent {
	var o []*ent
	for _, e := range s.pool {
		if e.pt != nil {
			o = append(o, e)
		}
	}
	return o
}

var outModes = []string{"fresh", "fresh", "new", "op0", "op1", "garbage"}

// ---------------------------------------------------------------------------------------------
// random programs

func runProg(c *eng.Ctx, cfg pcfg, steps int) {
	s := build(c, cfg)
	if s == nil {
		return
	}
	s.runBody(steps, "prog")
}

// runBody: one random program. When s.evals is set every call goes to one of these evaluators.
func (s *st) runBody(steps int, what string) {
	c, cfg := s.c, s.cfg
	r := s.rnd
	L := s.params.MaxLevel()
	ls0 := s.logMax
	switch r.N(5) {
	case 0:
		ls0 = s.randLogSlots()
	case 1:
		ls0 = max(0, s.logMax-1)
	}
	nct := 3 + r.N(2)
	for i := 0; i < nct; i++ {
		lvl := L
		if i > 0 && r.N(4) == 0 && L > s.lcpr {
			lvl = L - 1 - r.N(min(2, L-s.lcpr))
		}
		sc := s.defScale
		if i >= 2 && r.N(3) == 0 {
			sc = s.hostileScale(s.defScale, r.N(6))
		}
		ls := ls0
		if i == nct-1 && r.N(4) == 0 {
			ls = s.randLogSlots()
		}
		vals, _ := s.pickVals(1<<ls, sc, max(lvl-s.lcpr, 0))
		e := s.fresh(lvl, sc, ls, vals, r.Bool())
		if e == nil {
			return
		}
		s.pool = append(s.pool, e)
	}
	for i := 0; i < 1+r.N(2); i++ {
		lvl := L - r.N(2)*min(1, L)
		sc := s.defScale
		if r.Bool() {
			sc = s.qf[lvl] // the usual "plaintext at the scale of the prime that will be rescaled"
			if s.lcpr == 2 && lvl >= 1 {
				sc = fmul(s.qf[lvl], s.qf[lvl-1])
			}
		}
		vals, _ := s.pickVals(1<<ls0, sc, 0)
		if e := s.plain(lvl, sc, ls0, vals, r.Bool()); e != nil {
			s.pool = append(s.pool, e)
		}
	}
	kinds := map[string]bool{}
	maxDepth := 0
	for step := 0; step < steps && !s.dead; step++ {
		if len(s.evals) > 0 {
			if s.lateCopies && step == steps/2 { // copies taken from evaluators that have been used
				s.evals = append(s.evals,
					namedEval{"ShallowCopy-after-use", s.evals[0].ev.ShallowCopy()},
					namedEval{"WithKey-after-use", s.evals[1].ev.WithKey(s.keySet())})
			}
			ne := s.evals[r.N(len(s.evals))]
			s.eval, s.evTag = ne.ev, ne.name
			if ne.name != "" {
				s.note("@%s", ne.name)
			}
		}
		s.step(kinds)
		// keep the pool small: drop the lowest-level ciphertexts first
		for len(s.pool) > 8 {
			worst, wi := 1<<30, -1
			for i, e := range s.pool {
				if e.ct != nil && e.level() <= worst {
					worst, wi = e.level(), i
				}
			}
			if wi < 0 {
				break
			}
			s.pool = append(s.pool[:wi], s.pool[wi+1:]...)
		}
		for _, e := range s.pool {
			if e.depth > maxDepth {
				maxDepth = e.depth
			}
		}
	}
	// user-level decode of everything that is alive
	for i, e := range s.liveCts(nil) {
		s.userDecode(e, vectorKinds[(i+int(r.N(4)))%4])
	}
	uneq := false
	for _, e := range s.pool {
		uneq = uneq || e.uneq
	}
	c.Distinct(what+"|"+cfg.Fam+"|"+fmt.Sprint(s.prog), maxDepth >= 2 || len(kinds) >= 2 || uneq || what != "prog")
	if maxDepth >= 2 {
		c.Count("programs_depth_ge2", 1)
	}
	if what != "prog" {
		c.Count("programs_on_derived_evaluators", 1)
	}
	c.Sample(map[string]any{"kind": what, "cfg": cfg.id(), "logSlots": ls0, "depth": maxDepth, "program": s.prog})
	c.Max("max_program_depth", int64(maxDepth))
	c.Count("program_calls", int64(len(s.prog)))
}

// step performs one randomly chosen, feasible evaluator call.
func (s *st) step(kinds map[string]bool) {
	r := s.rnd
	for attempt := 0; attempt < 12; attempt++ {
		cts := s.liveCts(nil)
		if len(cts) == 0 {
			s.dead = true
			return
		}
		a := cts[r.N(len(cts))]
		// a ciphertext carrying a product scale is usually rescaled next
		big := flog2(a.scale()) > 1.6*float64(s.cfg.LogScale)
		w := r.N(100)
		if big && a.level() >= s.lcpr && r.N(10) < 6 {
			w = 60
		}
		if a.deg() == 2 && r.N(10) < 4 {
			w = 92
		}
		var skipped bool
		var res *ent
		did := true
		switch {
		case w < 22: // Add / Sub
			op := eng.Pick(r, "Add", "Sub")
			b := s.randOperand(a, false)
			if b == nil {
				continue
			}
			kinds[b.kind] = true
			mode := eng.Pick(r, outModes...)
			if isScalarKind(b.kind) && a.scale().Cmp(s.defScale) != 0 && r.N(8) != 0 {
				mode = "op0" // other receivers keep their old scale in the pinned tree (triaged); sampled 1/8
			}
			res, skipped = s.binary(op, a, b, mode)
		case w < 44: // Mul / MulRelin
			op := eng.Pick(r, "Mul", "MulRelin", "MulRelin")
			b := s.randOperand(a, true)
			if b == nil {
				continue
			}
			kinds[b.kind] = true
			res, skipped = s.binary(op, a, b, eng.Pick(r, outModes...))
		case w < 56: // MulThenAdd / MulRelinThenAdd
			b := s.randOperand(a, true)
			if b == nil {
				continue
			}
			acc := s.pickAcc(a, b)
			if acc == nil {
				continue
			}
			kinds[b.kind] = true
			res, skipped = s.mulThenAdd(r.Bool(), a, b, acc)
		case w < 70:
			res, skipped = s.rescale(a, eng.Pick(r, "fresh", "op0", "op0", "garbage"))
		case w < 73:
			ms := eng.Pick(r, s.defScale, fquo(a.scale(), s.qf[a.level()]), fmul(s.defScale, fF(1.5)), fquo(s.defScale, fF(4)))
			res, skipped = s.rescaleTo(a, ms, eng.Pick(r, "fresh", "op0"), "rnd")
		case w < 77:
			f := eng.Pick(r, 1.0, 2.0, 0.5, 0.77, 1.25, 1.9, 1/3.0, 1+math.Ldexp(1, -20))
			tgt := fmul(a.scale(), fF(f))
			if r.N(3) == 0 {
				tgt = fB(s.defScale)
				if a.level() >= s.lcpr && flog2(a.scale()) < 1.3*float64(s.cfg.LogScale) {
					// typical use: bring a drifted scale back to the default scale
				} else {
					continue
				}
			}
			res, skipped = s.setScale(a, tgt, "rnd")
		case w < 79:
			res, skipped = s.scaleUp(a, uint64(2+r.N(1<<uint(1+r.N(12)))), eng.Pick(r, "fresh", "new", "op0"))
		case w < 83:
			res, skipped = s.dropLevel(a, 1+r.N(2), r.Bool())
		case w < 92:
			if r.N(3) == 0 {
				res, skipped = s.rotate(a, 0, true, eng.Pick(r, "fresh", "new", "op0", "garbage"))
			} else if r.N(6) == 0 && a.deg() == 1 && s.hasP {
				s.rotateHoisted(a, []int{s.rots[r.N(len(s.rots))], s.rots[0]})
			} else {
				res, skipped = s.rotate(a, s.rots[r.N(len(s.rots))], false, eng.Pick(r, "fresh", "new", "op0", "garbage"))
			}
		default:
			d2 := s.liveCts(func(e *ent) bool { return e.deg() == 2 })
			if len(d2) == 0 {
				continue
			}
			res, skipped = s.relin(d2[r.N(len(d2))], eng.Pick(r, "fresh", "new", "op0"))
		}
		_ = res
		if did && !skipped {
			return
		}
	}
}

// randOperand draws the second operand for a binary call on a.
func (s *st) randOperand(a *ent, forMul bool) *operand {
	r := s.rnd
	room := s.maxMagAt(a.scale(), a.level())
	w := r.N(100)
	switch {
	case w < 40:
		cts := s.liveCts(func(e *ent) bool { return !forMul || e.deg() <= 1 })
		if len(cts) == 0 {
			return nil
		}
		return &operand{kind: "ct", e: cts[r.N(len(cts))], cls: "-"}
	case w < 55:
		pts := s.livePts()
		if len(pts) == 0 {
			return nil
		}
		return &operand{kind: "pt", e: pts[r.N(len(pts))], cls: "-"}
	case w < 80:
		lim := room
		if forMul {
			lim = room / math.Max(a.mag, 1e-6)
		} else {
			lim = room - a.mag
		}
		if lim < 1 {
			lim = 1
		}
		for t := 0; t < 6; t++ {
			kind := eng.Pick(r, scalarKinds...)
			if kind == "uint" && r.N(4) != 0 { // the documented-but-rejected Go type is exercised mostly by the directed cases
				continue
			}
			if o := s.scalar(kind, eng.Pick(r, scalarClasses...), lim); o != nil {
				return o
			}
		}
		return nil
	default:
		n0 := 1 << a.logSlots()
		n := eng.Pick(r, n0, n0, (n0+1)/2, 1)
		lim := room
		if forMul {
			lim = room / math.Max(a.mag, 1e-6)
		} else {
			lim = room - a.mag
		}
		cls := eng.Pick(r, valClasses...)
		if lim < 4 && cls == "big" {
			cls = "unit"
		}
		if lim < 1.5 {
			cls = "tiny"
		}
		return s.vector(eng.Pick(r, vectorKinds...), cls, n, lim)
	}
}

// pickAcc chooses / builds the accumulator of a MulThenAdd(a, b, acc).
func (s *st) pickAcc(a *ent, b *operand) *ent {
	r := s.rnd
	elem := b.kind == "ct" || b.kind == "pt"
	if elem {
		res := fmul(a.scale(), b.e.scale())
		lvl := min(a.level(), b.e.level())
		// an existing ciphertext with exactly the product scale
		var c []*ent
		for _, e := range s.liveCts(nil) {
			if e != a && e != b.e && e.scale().Cmp(m128(a.scale(), b.e.scale())) == 0 && e.deg() <= 2 {
				c = append(c, e)
			}
		}
		if len(c) > 0 && r.N(3) != 0 {
			return c[r.N(len(c))]
		}
		if !s.fits(res, 1, lvl) {
			return nil
		}
		switch r.N(4) {
		case 0: // newly allocated accumulator
			z := s.zeroCt(1+r.N(2)*btoi(b.kind == "ct"), lvl)
			s.pool = append(s.pool, z)
			return z
		case 1: // fresh encryption at the product scale divided by a small integer or a prime of the chain
			k := eng.Pick(r, fF(2), fF(3), s.qf[r.N(len(s.qf))])
			sc := fquo(m128(a.scale(), b.e.scale()), k)
			if flog2(sc) < 14 {
				return nil
			}
			vals, _ := s.pickVals(1<<a.logSlots(), res, lvl)
			e := s.fresh(lvl, sc, a.logSlots(), vals, true)
			if e != nil {
				s.pool = append(s.pool, e)
			}
			return e
		default: // fresh encryption at exactly the product scale
			vals, _ := s.pickVals(1<<a.logSlots(), res, lvl)
			e := s.fresh(min(s.params.MaxLevel(), lvl+r.N(2)), fB(m128(a.scale(), b.e.scale())), a.logSlots(), vals, true)
			if e != nil {
				s.pool = append(s.pool, e)
			}
			return e
		}
	}
	// scalar / vector operand: acc.Scale == op0.Scale or acc.Scale == op0.Scale * Q[level] (documented use)
	var c []*ent
	for _, e := range s.liveCts(nil) {
		if e != a && e.scale().Cmp(a.scale()) == 0 && e.level() <= a.level() && e.deg() <= a.deg() {
			c = append(c, e)
		}
	}
	if len(c) > 0 && r.N(3) != 0 {
		return c[r.N(len(c))]
	}
	lvl := a.level() - r.N(2)*min(1, a.level())
	sc := a.scale()
	if r.N(3) == 0 {
		if S := s.prodQ(lvl, s.lcpr); S != nil {
			sc = fB(m128(sc, S))
		}
	}
	if !s.fits(sc, 2, lvl) {
		return nil
	}
	vals, _ := s.pickVals(1<<a.logSlots(), sc, lvl)
	e := s.fresh(lvl, sc, a.logSlots(), vals, true)
	if e != nil {
		s.pool = append(s.pool, e)
	}
	return e
}

func btoi(b bool) int {
	if b {
		return 1
	}
	return 0
}

// ---------------------------------------------------------------------------------------------
// directed cases

func runDirected(c *eng.Ctx, cfg pcfg, kind string) {
	s := build(c, cfg)
	if s == nil {
		return
	}
	c.Sample(map[string]any{"kind": kind, "cfg": cfg.id()})
	switch kind {
	case "scalar":
		s.dirScalar()
	case "xscalar":
		s.dirExtreme()
		s.dirLevel0()
	case "recv":
		s.dirRecv()
	case "refuse":
		s.dirRefuse()
	case "vector":
		s.probeCI1Slot()
		s.dirVector()
	case "scale":
		s.dirScale()
		s.dirRotId()
		s.dirParams()
		s.dirScaleArith()
	case "addsub":
		s.dirAddSub()
	case "mta":
		s.dirMTA()
	}
}

// base returns a fresh ciphertext for one directed evaluation; the pool is reset so that receivers
// of kind "garbage" come from `extra`.
func (s *st) base(level int, scale *big.Float, logSlots int, extra ...*ent) *ent {
	s.dead = false
	s.prog = s.prog[:0]
	vals, _ := s.pickVals(1<<logSlots, scale, max(level-s.lcpr, 0))
	e := s.fresh(level, scale, logSlots, vals, s.rnd.Bool())
	s.pool = s.pool[:0]
	if e != nil {
		s.pool = append(s.pool, e)
	}
	for _, x := range extra {
		if x != nil {
			s.pool = append(s.pool, s.clone(x))
		}
	}
	return e
}

func (s *st) randLevel(minL int) int {
	L := s.params.MaxLevel()
	if minL > L {
		return L
	}
	return minL + s.rnd.N(L-minL+1)
}

// minLogSlots: a single slot cannot be encoded in the conjugate-invariant ring of the pinned tree
// (triaged; reported once per "vector" case by probeCI1Slot). build() tests it quietly: while the
// defect is present the workloads start at 2 slots there, once it is repaired they start at 1.
func (s *st) minLogSlots() int {
	if s.cfg.CI && !s.ci1ok {
		return 1
	}
	return 0
}

func (s *st) randLogSlots() int {
	switch s.rnd.N(4) {
	case 0:
		return s.minLogSlots() + s.rnd.N(s.logMax+1-s.minLogSlots())
	case 1:
		return s.minLogSlots()
	}
	return s.logMax
}

func (s *st) probeCI1Slot() {
	if s.cfg.CI {
		s.c.Distinct("encode|ci|1slot", true)
		s.fresh(s.params.MaxLevel(), s.defScale, 0, s.genVals(1, "unit", 1, true), s.rnd.Bool())
		// Encode followed by Decode with the same (default precision) encoder
		for _, kind := range vectorKinds {
			ls := s.randLogSlots()
			e := s.fresh(s.params.MaxLevel(), s.defScale, ls, s.genVals(1<<ls, "unit", 1, true), false)
			// the same encoder encodes something else (large values) before it decodes e
			room := s.maxMagAt(s.defScale, s.params.MaxLevel())
			s.fresh(s.params.MaxLevel(), s.defScale, s.logMax, s.genVals(s.maxSlots, "big", room, true), false)
			if e != nil {
				s.userDecode(e, kind)
			}
		}
	}
}

func (s *st) dirScalar() {
	r := s.rnd
	dirty := s.fresh(s.params.MaxLevel(), s.defScale, s.logMax, s.genVals(s.maxSlots, "unit", 1, s.cfg.CI), true)
	for _, op := range []string{"Add", "Sub", "Mul", "MulRelin", "MulThenAdd"} {
		for _, kind := range scalarKinds {
			for _, cls := range scalarClasses {
				if op == "MulRelin" && r.N(4) != 0 { // same code path as Mul: sampled
					continue
				}
				lvl := s.randLevel(s.lcpr)
				a := s.base(lvl, s.defScale, s.randLogSlots(), dirty)
				if a == nil {
					return
				}
				room := s.maxMagAt(a.scale(), lvl)
				lim := room - a.mag
				if op != "Add" && op != "Sub" {
					lim = room / math.Max(a.mag, 1e-3)
					if cls == "frac" || cls == "fracbig" || cls == "tiny" || cls == "imag" {
						// the result carries scale*q: room is what the level below leaves
						lim = s.maxMagAt(a.scale(), lvl-s.lcpr) / math.Max(a.mag, 1e-3)
					}
				}
				o := s.scalar(kind, cls, lim)
				if o == nil {
					continue
				}
				if op == "MulThenAdd" {
					s.dirMTAScalar(a, o)
					continue
				}
				s.binary(op, a, o, eng.Pick(r, "fresh", "new", "op0", "garbage"))
			}
		}
	}
}

// dirMTAScalar: acc relations for a scalar / vector operand.
func (s *st) dirMTAScalar(a *ent, o *operand) {
	r := s.rnd
	lvl := a.level()
	which := r.N(7)
	var acc *ent
	mk := func(l int, sc *big.Float) *ent {
		if l < 0 || l > s.params.MaxLevel() || !s.fits(sc, 2, l) {
			return nil
		}
		vals, _ := s.pickVals(1<<a.logSlots(), sc, l)
		return s.fresh(l, sc, a.logSlots(), vals, true)
	}
	switch which {
	case 0, 1: // same scale, same level
		acc = mk(lvl, a.scale())
	case 2: // same scale, accumulator at a lower level
		acc = mk(lvl-1, a.scale())
	case 3: // documented: opOut.Scale = op0.Scale * Q[min level]
		if S := s.prodQ(lvl, s.lcpr); S != nil {
			acc = mk(lvl, fB(m128(a.scale(), S)))
		}
	case 4: // accumulator above op0's level (doc: scaled by Q[min(op0.Level(), opOut.Level())])
		acc = mk(lvl+1, a.scale())
	case 6: // degree-2 accumulator (an unrelinearised product) at scale op0.Scale * Q[level]
		S := s.prodQ(lvl, s.lcpr)
		if S == nil || !s.fits(fmul(a.scale(), S), 4, lvl) || flog2(S) < 14 {
			return
		}
		x := mk(lvl, a.scale())
		y := s.fresh(lvl, S, a.logSlots(), s.genVals(1<<a.logSlots(), "unit", 1, s.cfg.CI), true)
		if x == nil || y == nil {
			return
		}
		s.pool = append(s.pool, x, y)
		acc, _ = s.binary("Mul", x, &operand{kind: "ct", e: y, cls: "-"}, "fresh")
		if acc == nil {
			return
		}
		s.mulThenAdd(r.N(4) == 0, a, o, acc)
		return
	case 5: // op0.Scale > opOut.Scale is documented as an error
		acc = mk(lvl, fquo(a.scale(), fF(2)))
		if acc != nil && o.kind != "uint" {
			s.expectError("MulThenAdd", "op0.Scale>opOut.Scale/"+map[bool]string{true: "scalar", false: "vector"}[isScalarKind(o.kind)], func() error { return s.eval.MulThenAdd(a.ct, o.v, acc.ct) })
		}
		return
	}
	if acc == nil {
		return
	}
	s.pool = append(s.pool, acc)
	s.mulThenAdd(r.N(4) == 0, a, o, acc)
}

func (s *st) dirVector() {
	r := s.rnd
	dirty := s.fresh(s.params.MaxLevel(), s.defScale, s.logMax, s.genVals(s.maxSlots, "unit", 1, s.cfg.CI), true)
	for _, op := range []string{"Add", "Sub", "Mul", "MulRelin", "MulThenAdd"} {
		for _, kind := range vectorKinds {
			for _, cls := range []string{"unit", "big", "tiny", "edge", "onehot"} {
				for _, ls := range []int{s.logMax, s.randLogSlots(), s.minLogSlots()} {
					if ls != s.logMax && r.N(2) == 0 || op == "MulRelin" && r.N(3) != 0 {
						continue
					}
					lvl := s.randLevel(s.lcpr)
					a := s.base(lvl, s.defScale, ls, dirty)
					if a == nil {
						return
					}
					lim := s.maxMagAt(a.scale(), lvl) - a.mag
					if op != "Add" && op != "Sub" {
						lim = s.maxMagAt(a.scale(), lvl-s.lcpr) / math.Max(a.mag, 1e-3)
					}
					if lim < 1.5 {
						cls = "tiny"
					} else if lim < 8 && cls == "big" {
						cls = "unit"
					}
					n0 := 1 << ls
					n := eng.Pick(r, n0, n0, (n0+1)/2, 1)
					o := s.vector(kind, cls, n, lim)
					if op == "MulThenAdd" {
						s.dirMTAScalar(a, o)
						continue
					}
					s.binary(op, a, o, eng.Pick(r, "fresh", "new", "op0", "garbage"))
				}
			}
		}
	}
}

func (s *st) dirScale() {
	r := s.rnd
	L := s.params.MaxLevel()
	dirty := s.fresh(L, s.defScale, s.logMax, s.genVals(s.maxSlots, "unit", 1, s.cfg.CI), true)
	for lvl := L; lvl >= 0; lvl-- {
		// a ciphertext carrying the scale of a fresh product at this level
		S := s.prodQ(lvl, s.lcpr)
		prodScale := fmul(s.defScale, s.defScale)
		if S != nil && r.Bool() {
			prodScale = fmul(s.defScale, S)
		}
		mkProd := func() *ent {
			if !s.fits(prodScale, 1, lvl) {
				return nil
			}
			return s.base(lvl, prodScale, s.randLogSlots(), dirty)
		}
		// Rescale, every receiver kind (also the documented error below the first rescalable level)
		for _, mode := range []string{"fresh", "op0", "garbage"} {
			if lvl < s.lcpr {
				if a := s.base(lvl, s.defScale, s.logMax, dirty); a != nil {
					s.rescale(a, mode)
				}
				break
			}
			if a := mkProd(); a != nil {
				s.rescale(a, mode)
			}
		}
		if lvl == 0 {
			if a := s.base(0, s.defScale, s.logMax); a != nil {
				s.rescaleTo(a, s.defScale, "fresh", "lvl0")
			}
			continue
		}
		// RescaleTo: thresholds around the documented boundary scale/q >= minScale/2
		if a := mkProd(); a != nil {
			after := q128(a.scale(), s.qf[lvl])
			for i, ms := range []*big.Float{
				s.defScale,             // the common call
				fmul(fB(after), fF(2)), // exactly on the boundary: rescales
				fmul(fB(after), fF(2*(1+math.Ldexp(1, -40)))),           // just above: must not rescale
				fmul(fB(after), fF(2*(1-math.Ldexp(1, -40)))),           // just below
				fquo(s.defScale, fF(float64(uint64(1)<<uint(r.N(12))))), // small target: several rescalings
				fmul(a.scale(), fF(4)),                                  // nothing to do
			} {
				if b := mkProd(); b != nil {
					s.rescaleTo(b, ms, eng.Pick(r, "fresh", "op0", "garbage"), fmt.Sprint("thr", i))
				}
			}
		}
		// SetScale: ratio classes
		for _, f := range []float64{1, 2, 3, 0.5, 0.77, 1.3, 1.999, 1 + math.Ldexp(1, -25), 1 / 3.3, 0.01, 2.5, 7.3, 1000.5} {
			base := s.defScale
			if r.N(3) == 0 {
				base = s.hostileScale(s.defScale, 2+r.N(4))
			}
			if !s.fits(base, 1, lvl) {
				continue
			}
			if a := s.base(lvl, base, s.randLogSlots(), dirty); a != nil {
				s.setScale(a, fmul(a.scale(), fF(f)), fmt.Sprintf("x%.4g", f))
			}
		}
		// SetScale back to the default scale from a drifted one (the documented purpose)
		if lvl >= s.lcpr {
			if a := s.base(lvl, fquo(fmul(s.defScale, s.defScale), s.qf[lvl]), s.logMax, dirty); a != nil && flog2(a.scale()) > 14 {
				s.setScale(a, s.defScale, "to-default")
			}
		}
		// ScaleUp, DropLevel
		for _, mode := range []string{"fresh", "new", "op0"} {
			if a := s.base(lvl, s.defScale, s.randLogSlots(), dirty); a != nil {
				s.scaleUp(a, eng.Pick(r, uint64(2), uint64(3), uint64(1)<<10, uint64(1<<20+1), s.q[0]&0xffff|1), mode)
			}
		}
		for n := 0; n <= min(lvl, 2); n++ {
			if a := s.base(lvl, s.defScale, s.randLogSlots(), dirty); a != nil {
				s.dropLevel(a, n, r.Bool())
			}
		}
		// rotations / conjugation / hoisted rotations against the slot model
		for _, k := range s.rots {
			if a := s.base(lvl, s.defScale, s.randLogSlots(), dirty); a != nil {
				s.rotate(a, k, false, eng.Pick(r, "fresh", "new", "op0", "garbage"))
			}
		}
		if a := s.base(lvl, s.defScale, s.randLogSlots(), dirty); a != nil {
			s.rotate(a, 0, true, eng.Pick(r, "fresh", "new", "op0", "garbage"))
		}
		if a := s.base(lvl, s.hostileScale(s.defScale, r.N(6)), s.randLogSlots(), dirty); a != nil && s.hasP {
			s.rotateHoisted(a, s.rots)
		}
	}
}

func (s *st) dirAddSub() {
	r := s.rnd
	type rat struct {
		name string
		f    func(base *big.Float, lvl int) *big.Float
	}
	ratios := []rat{
		{"eq", func(b *big.Float, _ int) *big.Float { return fB(b) }},
		{"x2", func(b *big.Float, _ int) *big.Float { return fmul(b, fF(2)) }},
		{"x3", func(b *big.Float, _ int) *big.Float { return fmul(b, fF(3)) }},
		{"xq", func(b *big.Float, l int) *big.Float { return fmul(b, s.qf[l]) }},
		{"x1.5", func(b *big.Float, _ int) *big.Float { return fmul(b, fF(1.5)) }},
		{"x2.5", func(b *big.Float, _ int) *big.Float { return fmul(b, fF(2.5)) }},
		{"x1+eps", func(b *big.Float, _ int) *big.Float { return fmul(b, fF(1+math.Ldexp(1, -30))) }},
		{"x4/3", func(b *big.Float, _ int) *big.Float { return fquo(fmul(b, fF(4)), fF(3)) }},
		{"x2^70+1", func(b *big.Float, _ int) *big.Float { return fmul(b, fnew().Add(fF(math.Ldexp(1, 70)), fF(1))) }},
	}
	for _, op := range []string{"Add", "Sub"} {
		for _, rt := range ratios {
			for _, mode := range []string{"fresh", "new", "op0", "op1", "garbage"} {
				for _, swap := range []bool{false, true} {
					if rt.name != "eq" && r.N(3) == 0 {
						continue
					}
					l0, l1 := s.randLevel(0), s.randLevel(0)
					if r.Bool() {
						l1 = l0
					}
					lmin := min(l0, l1)
					sA := fB(s.defScale)
					if r.N(4) == 0 {
						sA = s.hostileScale(s.defScale, 2+r.N(4))
					}
					sB := rt.f(sA, lmin)
					if !s.fits(sB, 2, lmin) || !s.fits(sA, 2, lmin) {
						continue
					}
					if swap {
						sA, sB = sB, sA
					}
					ls := s.randLogSlots()
					a := s.base(l0, sA, ls)
					if a == nil {
						return
					}
					// second operand: ciphertext (degree 1 or 2) or plaintext
					var o *operand
					ls1 := ls
					if r.N(5) == 0 {
						ls1 = s.randLogSlots()
					}
					vals, _ := s.pickVals(1<<ls1, sB, max(lmin-s.lcpr, 0))
					switch w := r.N(10); {
					case w < 6:
						e := s.fresh(l1, sB, ls1, vals, r.Bool())
						if e == nil {
							return
						}
						s.pool = append(s.pool, e)
						o = &operand{kind: "ct", e: e, cls: "-"}
					case w < 8:
						e := s.plain(l1, sB, ls1, vals, r.Bool())
						if e == nil {
							return
						}
						s.pool = append(s.pool, e)
						o = &operand{kind: "pt", e: e, cls: "-"}
					default: // degree-2 operand: an unrelinearised product x*y; a is re-encrypted so that the scale relation holds
						sX, sY, sA2 := rt.f(s.defScale, lmin), fB(s.defScale), fmul(s.defScale, s.defScale)
						if swap {
							sX, sA2 = fB(s.defScale), fmul(rt.f(s.defScale, lmin), s.defScale)
						}
						if !s.fits(fmul(sX, sY), 2, lmin) || !s.fits(sA2, 2, lmin) {
							continue
						}
						a = s.base(l0, sA2, ls)
						x := s.fresh(l1, sX, ls1, s.genVals(1<<ls1, "unit", 1, s.cfg.CI), true)
						y := s.fresh(l1, sY, ls1, s.genVals(1<<ls1, "unit", 1, s.cfg.CI), true)
						if a == nil || x == nil || y == nil {
							return
						}
						s.pool = append(s.pool, x, y)
						d2, _ := s.binary("Mul", x, &operand{kind: "ct", e: y, cls: "-"}, "fresh")
						if d2 == nil {
							continue
						}
						o = &operand{kind: "ct", e: d2, cls: "deg2"}
					}
					if r.N(6) == 0 && mode != "op1" { // also with the degree-2 operand first
						if o.kind == "ct" && o.e.deg() == 2 {
							s.binary(op, o.e, &operand{kind: "ct", e: a, cls: "-"}, mode)
							continue
						}
					}
					s.binary(op, a, o, mode)
				}
			}
		}
	}
}

func (s *st) dirMTA() {
	r := s.rnd
	L := s.params.MaxLevel()
	// accumulator relations for ciphertext / plaintext second operands
	accKinds := []string{"zero", "zero-deg2", "eq", "eq", "div2", "div3", "divq", "near", "nonint", "pool-product"}
	for _, relin := range []bool{false, true} {
		for _, bk := range []string{"ct", "pt", "pt-q"} {
			for _, ak := range accKinds {
				lvl := s.randLevel(s.lcpr)
				if lvl < 1 {
					continue
				}
				ls := s.randLogSlots()
				sA := fB(s.defScale)
				if r.N(3) == 0 {
					sA = s.hostileScale(s.defScale, 2+r.N(4))
				}
				a := s.base(lvl, sA, ls)
				if a == nil {
					return
				}
				l1 := lvl
				if r.N(3) == 0 {
					l1 = s.randLevel(1)
				}
				sB := fB(s.defScale)
				if bk == "pt-q" {
					sB = s.prodQ(min(lvl, l1), s.lcpr)
					if sB == nil {
						continue
					}
				}
				lmin := min(lvl, l1)
				res := fmul(a.scale(), sB)
				if !s.fits(res, 4, lmin) {
					continue
				}
				vals, _ := s.pickVals(1<<ls, res, lmin)
				var o *operand
				if bk == "ct" {
					e := s.fresh(l1, sB, ls, vals, r.Bool())
					if e == nil {
						return
					}
					s.pool = append(s.pool, e)
					o = &operand{kind: "ct", e: e, cls: "-"}
				} else {
					e := s.plain(l1, sB, ls, vals, r.Bool())
					if e == nil {
						return
					}
					s.pool = append(s.pool, e)
					o = &operand{kind: "pt", e: e, cls: bk}
				}
				res128 := m128(a.scale(), o.e.scale())
				lacc := lmin
				switch r.N(4) {
				case 0:
					lacc = min(L, lmin+1)
				case 1:
					lacc = max(0, lmin-1)
				}
				var acc *ent
				mk := func(sc *big.Float) *ent {
					if flog2(sc) < 14 || !s.fits(res, 4, min(lacc, lmin)) {
						return nil
					}
					v, _ := s.pickVals(1<<ls, res, min(lacc, lmin))
					return s.fresh(lacc, sc, ls, v, true)
				}
				switch ak {
				case "zero":
					acc = s.zeroCt(1, lacc)
				case "zero-deg2":
					acc = s.zeroCt(2, lacc)
				case "eq":
					acc = mk(fB(res128))
				case "div2":
					acc = mk(fquo(res128, fF(2)))
				case "div3":
					acc = mk(fquo(res128, fF(3)))
				case "divq":
					acc = mk(fquo(res128, s.qf[r.N(len(s.qf))]))
				case "near": // products of equal nominal scale that went through different primes
					acc = mk(fquo(res128, fF(1+math.Ldexp(1, -35))))
				case "nonint": // accumulator at the default scale, product scale not a multiple of it
					acc = mk(fquo(res128, fnew().Add(fF(math.Ldexp(1, 21)), fF(0.5))))
				case "pool-product": // a real unrelinearised / relinearised product as accumulator
					x := s.fresh(lmin, a.scale(), ls, vals, true)
					y := s.fresh(lmin, o.e.scale(), ls, s.genVals(1<<ls, "unit", 1, s.cfg.CI), true)
					if x == nil || y == nil {
						return
					}
					s.pool = append(s.pool, x, y)
					acc, _ = s.binary(eng.Pick(r, "Mul", "MulRelin"), x, &operand{kind: "ct", e: y, cls: "-"}, "fresh")
				}
				if acc == nil {
					continue
				}
				if ak != "pool-product" {
					s.pool = append(s.pool, acc)
				}
				s.mulThenAdd(relin, a, o, acc)
			}
		}
	}
	// squaring (op0 == op1), with and without relinearisation, fresh / in-place receivers
	for _, op := range []string{"Mul", "MulRelin"} {
		for _, mode := range []string{"fresh", "new", "op0"} {
			lvl := s.randLevel(s.lcpr)
			sc := s.hostileScale(s.defScale, eng.Pick(r, 0, 0, 2, 5))
			if !s.fits(fmul(sc, sc), 4, lvl) {
				continue
			}
			if a := s.base(lvl, sc, s.randLogSlots()); a != nil {
				s.binary(op, a, &operand{kind: "ct", e: a, cls: "square"}, mode)
			}
		}
	}
	// documented error outcomes
	if a := s.base(L, s.defScale, s.logMax); a != nil {
		b := s.fresh(L, s.defScale, s.logMax, s.genVals(s.maxSlots, "unit", 1, s.cfg.CI), true)
		if b != nil {
			s.expectError("MulThenAdd", "opOut==op0", func() error { return s.eval.MulThenAdd(a.ct, b.ct, a.ct) })
			s.expectError("MulRelinThenAdd", "opOut==op1", func() error { return s.eval.MulRelinThenAdd(a.ct, b.ct, b.ct) })
			// degree-2 input to a multiplication
			s.pool = append(s.pool, b)
			if d2, _ := s.binary("Mul", a, &operand{kind: "ct", e: b, cls: "-"}, "fresh"); d2 != nil {
				s.expectError("Mul", "operand-degree-2", func() error { return s.eval.Mul(d2.ct, b.ct, d2.ct.CopyNew()) })
				s.expectError("MulRelin", "operand-degree-2", func() error { return s.eval.MulRelin(b.ct, d2.ct, d2.ct.CopyNew()) })
			}
		}
	}
}
