package c06

import (
	"math/big"
	"math/bits"

	"github.com/tuneinsight/lattigo/v6/core/rlwe"
	"github.com/tuneinsight/lattigo/v6/ring"

	"verif/harness/obs"
)

// Independent decoder: the canonical embedding evaluated with math/big only.
//
// A plaintext polynomial m (centred CRT lift of its coefficient-domain representation) is mapped to
// slot j -> m(xi^(5^j)) / scale with xi = exp(i*pi/M), M the degree of the power-of-two cyclotomic
// ring the plaintext lives in: M = N in the standard ring; in the conjugate-invariant ring the N
// coefficients a_k describe a_0 + sum_k a_k (X^k + X^-k) in Z[X]/(X^2N+1), i.e. M = 2N with
// u_k = a_k, u_(2N-k) = -a_k. All M/2 (= N/2, resp. N) slots are produced, so that the map is a ring
// isomorphism onto the slot vectors (up to complex conjugates).
type dft struct {
	M   int
	w   []cx  // xi^k, k < 2M
	idx []int // slot j -> FFT bin t with 2t+1 = 5^j mod 2M
}

func newDFT(M, slots int) *dft {
	d := &dft{M: M}
	// exp(i*pi/M) by half-angle steps from exp(i*pi/2) = i
	c, s := fnew(), fF(1)
	for m := 2; m < M; m <<= 1 {
		// cos(t/2) = sqrt((1+cos t)/2), sin(t/2) = sin t / (2 cos(t/2))
		c2 := fnew().Add(fF(1), c)
		c2.Quo(c2, fF(2))
		c2.Sqrt(c2)
		s2 := fquo(s, fmul(fF(2), c2))
		c, s = c2, s2
	}
	if M == 1 {
		c, s = fF(-1), fnew()
	}
	xi := cx{c, s}
	d.w = make([]cx, 2*M)
	d.w[0] = cxFF(1, 0)
	for k := 1; k < 2*M; k++ {
		d.w[k] = d.w[k-1].mul(xi)
	}
	d.idx = make([]int, slots)
	g := 1
	for j := 0; j < slots; j++ {
		d.idx[j] = (g - 1) / 2
		g = g * 5 % (2 * M)
	}
	return d
}

// eval returns y_t = u(xi^(2t+1)), t < M.
func (d *dft) eval(u []*big.Float) []cx {
	M := d.M
	z := make([]cx, M)
	lg := bits.Len(uint(M)) - 1
	for k := 0; k < M; k++ {
		r := int(bits.Reverse(uint(k)) >> (bits.UintSize - lg))
		if lg == 0 {
			r = 0
		}
		z[r] = d.w[k].scl(u[k]) // twist by xi^k, bit-reversed order
	}
	// omega = xi^2 ; iterative radix-2 decimation in time
	for size := 2; size <= M; size <<= 1 {
		half := size >> 1
		step := 2 * M / size // exponent step in units of xi: omega_size = xi^(2M/size)
		for start := 0; start < M; start += size {
			for j := 0; j < half; j++ {
				t := z[start+j+half].mul(d.w[j*step])
				a := z[start+j]
				z[start+j] = a.add(t)
				z[start+j+half] = a.sub(t)
			}
		}
	}
	return z
}

// slotsOf decodes the coefficient-domain integer polynomial `a` (N coefficients) at the given scale.
func (s *st) slotsOf(a []*big.Int, scale *big.Float) vec {
	M := s.dft.M
	u := make([]*big.Float, M)
	if !s.cfg.CI {
		for k := range u {
			u[k] = fI(a[k])
		}
	} else {
		N := s.N
		for k := 0; k < N; k++ {
			u[k] = fI(a[k])
		}
		u[N] = fnew()
		for k := 1; k < N; k++ {
			u[2*N-k] = fnew().Neg(u[k])
		}
	}
	y := s.dft.eval(u)
	inv := fquo(fF(1), scale)
	out := make(vec, s.maxSlots)
	for j := range out {
		out[j] = y[s.dft.idx[j]].scl(inv)
		if s.cfg.CI {
			out[j].im = fnew() // real by construction (conjugate-symmetric u); drop the rounding residue
		}
	}
	return out
}

// coeffsOf returns the centred integer coefficients of a plaintext.
func (s *st) coeffsOf(el *rlwe.Element[ring.Poly]) []*big.Int {
	r := s.params.RingQ().AtLevel(el.Level())
	p := obs.Plain(r, el.Value[0], el.IsNTT, el.IsMontgomery)
	return obs.Centered(r, p)
}
