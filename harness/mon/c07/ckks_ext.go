package c07

// Coverage extension of the CKKS half (audit of the monitor against the property text):
//
//   - schemes/ckks/utils.go called directly: GetRootsComplex128 / GetRootsBigComplex against the
//     monitor's own root table; Float64/Complex128/SingleFloat64/ComplexArbitrary/BigFloat
//     ToFixedPointCRT against an exact rounding model, residue by residue, on boundary values
//     (ties, 2^52, 2^61, 2^63, 2^64, multiples of a modulus, values above Q) over chains that mix
//     61-bit and 30-bit moduli;
//   - scales 1, 2 and 8 (integer messages up to Q/4), DecodePublic precisions 1, -2, 0.5, 30, 52, 60,
//     outputs that the caller has allocated (fully or partly), plaintexts built over a larger
//     polynomial or obtained by CopyNew, ringqp.Poly targets with every LevelP including -1,
//     encoder precisions 53/54/65 next to the default, 61-bit moduli;
//   - metadata left untouched by Encode/Decode/DecodePublic; decoding through GetPrecisionStats;
//   - coefficient-domain []*big.Float inputs whose first element is nil / of lower precision;
//   - refusals: too many values, LogDimensions outside [0, max], unsupported types.

import (
	"fmt"
	"math"
	"math/big"

	"github.com/tuneinsight/lattigo/v6/core/rlwe"
	"github.com/tuneinsight/lattigo/v6/ring"
	"github.com/tuneinsight/lattigo/v6/ring/ringqp"
	"github.com/tuneinsight/lattigo/v6/schemes/ckks"
	"github.com/tuneinsight/lattigo/v6/utils/bignum"

	"verif/harness/eng"
	"verif/harness/ref"
)

type rootsCfg struct {
	Prec    uint `json:"prec"` // 53 = GetRootsComplex128
	MaxLogM int  `json:"maxLogM"`
}

type fpCfg struct {
	Ring string   `json:"ring"`
	LogN int      `json:"logN"`
	Q    []uint64 `json:"q"`
}

func ckksxCases(tier string, seed int64) []eng.Case {
	r := eng.NewRand("c07-ckksx-cases", seed)
	var out []eng.Case
	// ---- roots of unity
	maxLogM, maxLogMBig := 14, 11
	precs := []uint{53, 54, 64, 100, 128, 256}
	if tier == "thorough" {
		maxLogM, maxLogMBig = 17, 13
		precs = append(precs, 65, 192, 512)
	}
	for _, p := range precs {
		cfg := rootsCfg{Prec: p, MaxLogM: maxLogMBig}
		if p == 53 {
			cfg.MaxLogM = maxLogM
		}
		out = append(out, eng.Case{ID: fmt.Sprintf("ckksx/roots/prec%d", p), Sig: "C07|ckks", Desc: cfg, Run: func(c *eng.Ctx) { runRoots(c, cfg) }})
	}
	// ---- fixed-point conversion
	fpChains := [][]int{{61, 30, 61}, {30}, {61}, {45, 61, 33, 61, 30}}
	fpLogN := []int{4, 6}
	if tier == "thorough" {
		fpChains = append(fpChains, []int{36, 36}, []int{61, 61, 61, 61, 61, 61}, []int{55})
		fpLogN = []int{4, 5, 8}
	}
	for _, rt := range []string{"std", "ci"} {
		for ci, qb := range fpChains {
			logN := fpLogN[ci%len(fpLogN)]
			nth := uint64(2) << logN
			if rt == "ci" {
				nth <<= 1
			}
			qbits := append([]int{}, qb...)
			for i := range qbits {
				if m := ref.BitLen(nth) + 1; qbits[i] < m {
					qbits[i] = m
				}
			}
			q, _ := chainX(r, nth, qbits, nil, -1)
			if q == nil {
				continue
			}
			cfg := fpCfg{Ring: rt, LogN: logN, Q: q}
			out = append(out, eng.Case{ID: fmt.Sprintf("ckksx/fixedpoint/%s/logN%d/q%v", rt, logN, qbits), Sig: "C07|ckks", Desc: cfg, Run: func(c *eng.Ctx) { runFixedPoint(c, cfg) }})
		}
	}
	// ---- encoder with the added dimensions
	logNs := []int{4, 5, 7}
	combos := []precCombo{{30, 0}, {45, 53}, {40, 54}, {50, 65}, {90, 0}, {60, 128}}
	per := 3
	if tier == "thorough" {
		logNs = []int{4, 5, 6, 7, 8, 9}
		per = 6
	}
	seen := map[string]bool{}
	for _, rt := range []string{"std", "ci"} {
		for _, logN := range logNs {
			perm := r.Perm(len(combos))
			for vi := 0; vi < per; vi++ {
				cb := combos[perm[vi]]
				nth := uint64(2) << logN
				if rt == "ci" {
					nth <<= 1
				}
				minb := ref.BitLen(nth) + 1
				var qbits []int
				total := 0
				nq := 1 + r.N(4)
				for i := 0; i < nq || total < cb.logScale+12; i++ {
					b := eng.Pick(r, 61, 30, 61, 45, 36, 61)
					if b < minb {
						b = minb
					}
					qbits = append(qbits, b)
					total += b
					if len(qbits) >= 6 {
						break
					}
				}
				var pbits []int
				for i := r.N(4); i > 0; i-- {
					pbits = append(pbits, eng.Pick(r, 61, 40, 55))
				}
				q, p := chainX(r, nth, qbits, pbits, -1)
				if q == nil {
					continue
				}
				cfg := ckksCfg{Ring: rt, LogN: logN, Q: q, P: p, QBits: qbits, LogScale: cb.logScale, Prec: cb.prec}
				id := fmt.Sprintf("ckksx/enc/%s/logN%d/q%v/p%v/scale%d/prec%d", rt, logN, qbits, pbits, cb.logScale, cb.prec)
				if seen[id] {
					continue
				}
				seen[id] = true
				out = append(out, eng.Case{ID: id, Sig: "C07|ckks", Desc: cfg, Run: func(c *eng.Ctx) { runCKKSX(c, cfg) }})
			}
		}
	}
	return out
}

// ---------------------------------------------------------------------------------------------
// roots of unity

func runRoots(c *eng.Ctx, cfg rootsCfg) {
	c.Sample(map[string]any{"scheme": "ckks", "family": "roots", "cfg": cfg})
	for logM := 3; logM <= cfg.MaxLogM; logM++ {
		M := 1 << logM
		c.Distinct(fmt.Sprintf("ckksx/roots/prec%d/logM%d", cfg.Prec, logM), true)
		c.Count("ckks_root_tables_checked", 1)
		if cfg.Prec == 53 {
			var roots []complex128
			if !c.Try("C07|ckks.GetRootsComplex128", func() { roots = ckks.GetRootsComplex128(M) }) {
				continue
			}
			if !c.Check(len(roots) == M+1, "C07|ckks.GetRootsComplex128|wrong-length", func() string { return fmt.Sprintf("M=%d: %d entries", M, len(roots)) }) {
				continue
			}
			T := getRoots(M, 192)
			worst, wj := 0.0, -1
			for j := 0; j <= M; j++ {
				tr, _ := T.re[j%M].Float64()
				ti, _ := T.im[j%M].Float64()
				d := math.Hypot(real(roots[j])-tr, imag(roots[j])-ti)
				if d > worst || math.IsNaN(d) {
					worst, wj = d, j
				}
			}
			c.Max("max_ckks_roots_c128_err_x2^60", int64(math.Ldexp(worst, 60)))
			// angle*j carries two roundings (<= pi/2 * 2^-52 absolute), cos one more, on each component
			c.Check(worst <= math.Ldexp(1, -48), "C07|ckks.GetRootsComplex128|wrong-value", func() string {
				return fmt.Sprintf("M=%d: entry %d is %v, %.3g away from exp(2 pi i %d/%d) (bound 2^-48)", M, wj, roots[wj], worst, wj, M)
			})
			continue
		}
		var roots []*bignum.Complex
		if !c.Try("C07|ckks.GetRootsBigComplex", func() { roots = ckks.GetRootsBigComplex(M, cfg.Prec) }) {
			continue
		}
		if !c.Check(len(roots) == M+1, "C07|ckks.GetRootsBigComplex|wrong-length", func() string { return fmt.Sprintf("M=%d: %d entries", M, len(roots)) }) {
			continue
		}
		T := getRoots(M, cfg.Prec+96)
		worst, wj := 0.0, -1
		bad := ""
		for j := 0; j <= M && bad == ""; j++ {
			if roots[j] == nil || roots[j][0] == nil || roots[j][1] == nil {
				bad = fmt.Sprintf("entry %d has a nil part", j)
				break
			}
			dr := new(big.Float).SetPrec(cfg.Prec+96).Sub(roots[j][0], T.re[j%M])
			di := new(big.Float).SetPrec(cfg.Prec+96).Sub(roots[j][1], T.im[j%M])
			a, _ := dr.Float64()
			b, _ := di.Float64()
			d := math.Hypot(a, b)
			if d > worst || math.IsNaN(d) {
				worst, wj = d, j
			}
		}
		if worst > 0 {
			c.Max(fmt.Sprintf("max_ckks_roots_big_err_log2_plus_prec_x10_prec%d", cfg.Prec), int64(10*(math.Log2(worst)+float64(cfg.Prec))))
		}
		// bignum.Pi / bignum.Cos work at the requested precision; the argument 2 pi j/M is rounded three times
		bound := math.Ldexp(1, -(int(cfg.Prec) - 12))
		c.Check(bad == "" && worst <= bound, "C07|ckks.GetRootsBigComplex|wrong-value", func() string {
			return fmt.Sprintf("M=%d prec=%d: entry %d is %.4g away from exp(2 pi i %d/%d) (bound %.3g) %s", M, cfg.Prec, wj, worst, wj, M, bound, bad)
		})
	}
}

// ---------------------------------------------------------------------------------------------
// fixed-point conversion, exact model

// fpJudge checks one written coefficient: residues res[i] (mod mods[i]) must all be the residues
// of one integer c with |c - E| <= 1/2 + relTol*|E|. E is the exact product value*scale.
// Returns "" when fine, "skip" when the tolerance is too wide for the moduli to decide.
func fpJudge(res []uint64, mods []uint64, E *big.Float, relTol float64) string {
	c0 := new(big.Int)
	ef := new(big.Float).SetPrec(E.Prec()).Set(E)
	half := big.NewFloat(0.5)
	if ef.Sign() >= 0 {
		ef.Add(ef, half)
	} else {
		ef.Sub(ef, half)
	}
	ef.Int(c0)
	absE, _ := new(big.Float).Abs(E).Float64()
	tol := 0.5 + relTol*absE + 1e-6
	// reference modulus: the largest one
	k := 0
	for i, q := range mods {
		if q > mods[k] {
			k = i
		}
	}
	q := mods[k]
	if tol >= float64(q)/8 {
		return "skip"
	}
	d := ref.SubMod(res[k]%q, ref.ModU(c0, q), q)
	delta := new(big.Int).SetUint64(d)
	if d > q/2 {
		delta.Sub(delta, new(big.Int).SetUint64(q))
	}
	cInt := new(big.Int).Add(c0, delta)
	diff := new(big.Float).SetPrec(E.Prec() + 64).SetInt(cInt)
	diff.Sub(diff, E)
	df, _ := diff.Float64()
	if math.Abs(df) > tol {
		return fmt.Sprintf("the integer written (mod the %d-bit modulus) is %.6g away from value*scale = %s (tolerance %.6g)", ref.BitLen(q), df, E.Text('g', 30), tol)
	}
	for i, qi := range mods {
		if res[i]%qi != ref.ModU(cInt, qi) {
			return fmt.Sprintf("residues are not those of one integer: modulus %d (%d) holds %d, the integer %v fixed by modulus %d gives %d", i, qi, res[i], cInt, k, ref.ModU(cInt, qi))
		}
	}
	return ""
}

func fpTargets(rnd *eng.Rand, mods []uint64) []float64 {
	t := []float64{0, 0.25, 0.49, 0.5, 0.51, 1, 1.5, 2.5, 3, math.Ldexp(1, 52) - 1, math.Ldexp(1, 52) + 1, math.Ldexp(1, 53), math.Ldexp(1, 53) + 2,
		math.Ldexp(1, 61) - 256, math.Ldexp(1, 61), math.Ldexp(1, 61) + 512, math.Ldexp(1, 63), math.Ldexp(1, 64) - 2048, math.Ldexp(1, 64), math.Ldexp(1, 64) + 4096,
		math.Ldexp(1, 70) + math.Ldexp(1, 20), math.Ldexp(1, 88), math.Ldexp(1, -3), math.Ldexp(1, -30)}
	for _, q := range mods {
		f := float64(q)
		t = append(t, f, f-1, f+1, 2*f, 3*f+1, f/2, f/2+0.5)
	}
	for i := 0; i < 24; i++ {
		t = append(t, math.Ldexp(1+rnd.F64(), rnd.N(90)-2))
	}
	out := make([]float64, 0, 2*len(t))
	for _, x := range t {
		out = append(out, x, -x)
	}
	return out
}

func runFixedPoint(c *eng.Ctx, cfg fpCfg) {
	rt := ring.Standard
	if cfg.Ring == "ci" {
		rt = ring.ConjugateInvariant
	}
	params, err := ckks.NewParametersFromLiteral(ckks.ParametersLiteral{LogN: cfg.LogN, Q: cfg.Q, RingType: rt, LogDefaultScale: 20})
	if err != nil {
		c.Inconclusive(fmt.Sprintf("parameters rejected: %v", err))
		return
	}
	rnd := c.Rand()
	N := params.N()
	isCI := cfg.Ring == "ci"
	c.Sample(map[string]any{"scheme": "ckks", "family": "fixedpoint", "cfg": cfg})
	levels := []int{params.MaxLevel()}
	if params.MaxLevel() > 0 {
		levels = append(levels, 0)
	}
	if params.MaxLevel() > 1 {
		levels = append(levels, 1)
	}
	for _, level := range levels {
		r := params.RingQ().AtLevel(level)
		mods := r.ModuliChain()[:level+1]
		newCoeffs := func() [][]uint64 {
			p := r.NewPoly()
			fill(rnd, p)
			return p.Coeffs
		}
		ltag := lvlSig(level)
		// ---------------- float64 entry points
		type fscale struct {
			v   float64
			tag string
		}
		for _, sc := range []fscale{{1, "1"}, {math.Ldexp(1, 20), "pow2"}, {math.Ldexp(1, 40), "pow2"}, {1.2345e9, "nonpow2"}, {float64(mods[0]), "prime"}} {
			tg := fpTargets(rnd, mods)
			vals := make([]float64, 0, len(tg))
			for _, x := range tg {
				vals = append(vals, x/sc.v)
			}
			exact := func(v float64) *big.Float {
				e := new(big.Float).SetPrec(200).SetFloat64(v)
				return e.Mul(e, new(big.Float).SetPrec(200).SetFloat64(sc.v))
			}
			judge := func(api string, coeffs [][]uint64, pos int, v float64) bool {
				res := make([]uint64, len(mods))
				for i := range mods {
					res[i] = coeffs[i][pos]
				}
				c.Eval(1)
				switch msg := fpJudge(res, mods, exact(v), math.Ldexp(1, -51)); msg {
				case "":
					c.Count("ckks_fixedpoint_values_checked", 1)
					return true
				case "skip":
					c.Count("ckks_fixedpoint_values_skipped_tolerance_wider_than_modulus", 1)
					return true
				default:
					c.Violate("C07|"+api+"|wrong-value|"+ltag, fmt.Sprintf("ring=%s N=%d moduli=%v value=%v scale=%v (%s) position %d: %s", cfg.Ring, N, mods, v, sc.v, sc.tag, pos, msg), cfg)
					return false
				}
			}
			zeroTail := func(api string, coeffs [][]uint64, from int) {
				c.Eval(1)
				for i := range mods {
					for j := from; j < N; j++ {
						if coeffs[i][j] != 0 {
							c.Violate("C07|"+api+"|padding-nonzero", fmt.Sprintf("ring=%s N=%d moduli=%v: modulus %d position %d >= %d holds %d", cfg.Ring, N, mods, i, j, from, coeffs[i][j]), cfg)
							return
						}
					}
				}
			}
			c.Distinct(fmt.Sprintf("ckksx/fixedpoint/%s/%s/sc%s/f64", cfg.Ring, lvlTag(level, params.MaxLevel()), sc.tag), true)
			// chunks of at most N values (Float64) and N/2 resp. N values (Complex128: standard resp. conjugate-invariant)
			for off := 0; off < len(vals); off += N {
				end := off + N
				if end > len(vals) {
					end = len(vals)
				}
				chunk := vals[off:end]
				if off == 0 && len(chunk) > 3 {
					// a short vector first: the positions behind it must be cleared
					short := chunk[:1+rnd.N(len(chunk)-1)]
					cs := newCoeffs()
					if c.Try("C07|ckks.Float64ToFixedPointCRT", func() { ckks.Float64ToFixedPointCRT(r, short, sc.v, cs) }) {
						zeroTail("ckks.Float64ToFixedPointCRT", cs, len(short))
					}
				}
				co := newCoeffs()
				if !c.Try("C07|ckks.Float64ToFixedPointCRT", func() { ckks.Float64ToFixedPointCRT(r, chunk, sc.v, co) }) {
					continue
				}
				for i, v := range chunk {
					if !judge("ckks.Float64ToFixedPointCRT", co, i, v) {
						break
					}
				}
				zeroTail("ckks.Float64ToFixedPointCRT", co, len(chunk))
				// one value at a time
				co2 := newCoeffs()
				pos := rnd.N(N)
				v := chunk[rnd.N(len(chunk))]
				if c.Try("C07|ckks.SingleFloat64ToFixedPointCRT", func() { ckks.SingleFloat64ToFixedPointCRT(r, pos, v, sc.v, co2) }) {
					judge("ckks.SingleFloat64ToFixedPointCRT", co2, pos, v)
				}
			}
			slotsMax := N / 2
			if isCI {
				slotsMax = N
			}
			for off := 0; off+1 < len(vals); off += 2 * slotsMax {
				var cv []complex128
				for k := off; k+1 < len(vals) && len(cv) < slotsMax; k += 2 {
					cv = append(cv, complex(vals[k], vals[k+1]))
				}
				if off == 0 && len(cv) > 2 {
					// fewer values than the ring holds: everything behind them must be cleared
					short := cv[:1+rnd.N(len(cv)-1)]
					cs := newCoeffs()
					if c.Try("C07|ckks.Complex128ToFixedPointCRT", func() { ckks.Complex128ToFixedPointCRT(r, short, sc.v, cs) }) {
						from := 2 * len(short)
						if isCI {
							from = len(short)
						}
						zeroTail("ckks.Complex128ToFixedPointCRT", cs, from)
					}
				}
				co := newCoeffs()
				if !c.Try("C07|ckks.Complex128ToFixedPointCRT", func() { ckks.Complex128ToFixedPointCRT(r, cv, sc.v, co) }) {
					continue
				}
				ok := true
				for i, z := range cv {
					if ok = judge("ckks.Complex128ToFixedPointCRT", co, i, real(z)); !ok {
						break
					}
					if !isCI {
						if ok = judge("ckks.Complex128ToFixedPointCRT", co, i+len(cv), imag(z)); !ok {
							break
						}
					}
				}
				if ok {
					from := 2 * len(cv)
					if isCI {
						from = len(cv)
					}
					zeroTail("ckks.Complex128ToFixedPointCRT", co, from)
				}
			}
		}
		// ---------------- arbitrary-precision entry points
		for _, prec := range []uint{64, 128, 300} {
			for _, sk := range []string{"pow2", "odd", "prime"} {
				k := 10 + rnd.N(80)
				scale := new(big.Float).SetPrec(128).SetMantExp(big.NewFloat(1), k)
				switch sk {
				case "odd":
					scale.Mul(scale, new(big.Float).SetPrec(128).SetFloat64(1+rnd.F64()))
				case "prime":
					scale.SetUint64(mods[rnd.N(len(mods))])
				}
				sf, _ := scale.Float64()
				logS := int(math.Floor(math.Log2(sf)))
				// values: mantissas of `prec` bits, |value*scale| from 1/4 to 2^(prec+20) (capped at 2^150)
				topEx := int(prec) + 20
				if topEx > 150 {
					topEx = 150
				}
				mk := func() *big.Float {
					ex := rnd.N(topEx+2) - 2 - logS
					buf := make([]byte, (prec+7)/8)
					rnd.Read(buf)
					m := new(big.Int).SetBytes(buf)
					m.Rsh(m, uint(len(buf)*8)-prec)
					m.SetBit(m, int(prec)-1, 1)
					f := new(big.Float).SetPrec(prec).SetInt(m)
					f.SetMantExp(f, ex-int(prec))
					if rnd.Bool() {
						f.Neg(f)
					}
					return f
				}
				small := func(x float64) *big.Float {
					f := new(big.Float).SetPrec(prec).SetFloat64(x)
					return f.Quo(f, new(big.Float).SetPrec(prec).Set(scale))
				}
				exact := func(v *big.Float) *big.Float {
					return new(big.Float).SetPrec(700).Mul(new(big.Float).SetPrec(700).Set(v), new(big.Float).SetPrec(700).Set(scale))
				}
				relTol := math.Ldexp(1, -(int(minU(prec, 128)) - 3))
				judge := func(api string, coeffs [][]uint64, pos int, v *big.Float) bool {
					res := make([]uint64, len(mods))
					for i := range mods {
						res[i] = coeffs[i][pos]
					}
					c.Eval(1)
					E := new(big.Float).SetPrec(700)
					if v != nil {
						E = exact(v)
					}
					switch msg := fpJudge(res, mods, E, relTol); msg {
					case "":
						c.Count("ckks_fixedpoint_values_checked", 1)
						return true
					case "skip":
						c.Count("ckks_fixedpoint_values_skipped_tolerance_wider_than_modulus", 1)
						return true
					default:
						vs := "nil"
						if v != nil {
							vs = v.Text('g', 40)
						}
						c.Violate("C07|"+api+"|wrong-value|"+ltag, fmt.Sprintf("ring=%s N=%d moduli=%v value=%s (precision %d) scale=%s (%s) position %d: %s", cfg.Ring, N, mods, vs, prec, scale.Text('g', 30), sk, pos, msg), cfg)
						return false
					}
				}
				c.Distinct(fmt.Sprintf("ckksx/fixedpoint/%s/%s/sc%s/big%d", cfg.Ring, lvlTag(level, params.MaxLevel()), sk, prec), true)
				// BigFloatToFixedPointCRT: values of one precision, nil (= 0) allowed after the first
				n := 1 + rnd.N(N)
				bv := make([]*big.Float, n)
				for i := range bv {
					switch {
					case i > 0 && rnd.N(6) == 0:
						// nil
					case rnd.N(6) == 0:
						bv[i] = small(eng.Pick(rnd, 0, 0.49, 0.5, -0.5, 1.5, -2.5, 0.51))
					default:
						bv[i] = mk()
					}
				}
				co := newCoeffs()
				if c.Try("C07|ckks.BigFloatToFixedPointCRT", func() { ckks.BigFloatToFixedPointCRT(r, bv, scale, co) }) {
					ok := true
					for i, v := range bv {
						if ok = judge("ckks.BigFloatToFixedPointCRT", co, i, v); !ok {
							break
						}
					}
					if ok {
						c.Eval(1)
					tail:
						for i := range mods {
							for j := n; j < N; j++ {
								if co[i][j] != 0 {
									c.Violate("C07|ckks.BigFloatToFixedPointCRT|padding-nonzero", fmt.Sprintf("ring=%s N=%d moduli=%v: modulus %d position %d >= %d holds %d", cfg.Ring, N, mods, i, j, n, co[i][j]), cfg)
									break tail
								}
							}
						}
					}
				}
				// ComplexArbitraryToFixedPointCRT
				slotsMax := N / 2
				if isCI {
					slotsMax = N
				}
				ns := 1 << rnd.N(bitsLen(slotsMax))
				zv := make([]*bignum.Complex, ns)
				for i := range zv {
					zv[i] = &bignum.Complex{mk(), mk()}
					if rnd.N(6) == 0 {
						zv[i][0] = small(eng.Pick(rnd, 0, 0.5, -0.5, 0.49, -1.5))
					}
					if rnd.N(6) == 0 {
						zv[i][1] = small(0)
					}
				}
				co = newCoeffs()
				if c.Try("C07|ckks.ComplexArbitraryToFixedPointCRT", func() { ckks.ComplexArbitraryToFixedPointCRT(r, zv, scale, co) }) {
					for i, z := range zv {
						if !judge("ckks.ComplexArbitraryToFixedPointCRT", co, i, z[0]) {
							break
						}
						if !isCI && !judge("ckks.ComplexArbitraryToFixedPointCRT", co, i+ns, z[1]) {
							break
						}
					}
				}
			}
		}
	}
}

func minU(a, b uint) uint {
	if a < b {
		return a
	}
	return b
}

func bitsLen(n int) int { return ref.BitLen(uint64(n)) }

// ---------------------------------------------------------------------------------------------
// encoder, added dimensions

func runCKKSX(c *eng.Ctx, cfg ckksCfg) {
	rt := ring.Standard
	if cfg.Ring == "ci" {
		rt = ring.ConjugateInvariant
	}
	params, err := ckks.NewParametersFromLiteral(ckks.ParametersLiteral{LogN: cfg.LogN, Q: cfg.Q, P: cfg.P, RingType: rt, LogDefaultScale: cfg.LogScale})
	if err != nil {
		c.Inconclusive(fmt.Sprintf("parameters rejected: %v", err))
		return
	}
	e := &ckksEnv{c: c, cfg: cfg, params: params, ci: cfg.Ring == "ci", N: params.N(), maxLogSlots: params.LogMaxSlots(), rnd: c.Rand(), ringTag: cfg.Ring}
	if cfg.Prec != 0 {
		e.ecd = ckks.NewEncoder(params, cfg.Prec)
	} else {
		e.ecd = ckks.NewEncoder(params)
	}
	switch e.rnd.N(3) {
	case 1:
		e.ecd = e.ecd.ShallowCopy()
		c.Count("cases_with_shallow_copied_encoder", 1)
	case 2:
		first := e.ecd.ShallowCopy()
		pt := ckks.NewPlaintext(params, 0)
		_ = first.Encode([]float64{1, -2, 3}, pt)
		_ = first.Decode(pt, make([]float64, 3))
		e.ecd = first.ShallowCopy()
		c.Count("cases_with_encoder_copied_from_used_copy", 1)
	}
	e.prec = e.ecd.Prec()
	e.arb = e.prec > 53
	e.pathTag = "f64"
	if e.arb {
		e.pathTag = "arb"
	} else {
		e.prec = 53
	}
	e.mprec = e.prec + 96
	if e.mprec < 192 {
		e.mprec = 192
	}
	wantPrec := cfg.Prec
	if wantPrec == 0 {
		wantPrec = params.EncodingPrecision()
	}
	c.Check(e.ecd.Prec() == wantPrec, "C07|ckks.Encoder.Prec|wrong-value", func() string {
		return fmt.Sprintf("encoder built with precision %d (0 = default %d) reports %d", cfg.Prec, params.EncodingPrecision(), e.ecd.Prec())
	})
	gp := e.ecd.GetParameters()
	grp := e.ecd.GetRLWEParameters()
	c.Check(gp.Equal(&params) && grp.Equal(&params.Parameters), "C07|ckks.Encoder.GetParameters|wrong-value", nil)
	c.Sample(map[string]any{"scheme": "ckks", "family": "enc-ext", "cfg": cfg, "encoder_precision": e.ecd.Prec(), "max_log_slots": e.maxLogSlots})

	maxL := params.MaxLevel()
	levels := []int{maxL}
	if maxL > 0 {
		levels = append(levels, 0)
	}
	if c.Tier == "thorough" {
		for l := 1; l < maxL; l++ {
			levels = append(levels, l)
		}
	} else if maxL > 1 {
		levels = append(levels, 1+e.rnd.N(maxL-1))
	}
	iter := 0
	for _, level := range levels {
		lss := map[int]bool{e.maxLogSlots: true, 0: true}
		if e.maxLogSlots > 0 {
			lss[e.maxLogSlots-1] = true
			lss[e.rnd.N(e.maxLogSlots)] = true
		}
		if c.Tier == "thorough" {
			for ls := 0; ls <= e.maxLogSlots; ls++ {
				lss[ls] = true
			}
		}
		for logSlots := e.maxLogSlots; logSlots >= 0; logSlots-- {
			if !lss[logSlots] {
				continue
			}
			for _, isNTT := range []bool{true, false} {
				for rep := 0; rep < 3; rep++ {
					iter++
					e.slotCaseX(level, logSlots, isNTT, iter)
				}
			}
		}
		e.coeffX(level)
	}
	e.refusalsX()
}

func (e *ckksEnv) newOutputPre(typ string, n int, mode int) any {
	p := e.prec
	if p < 64 {
		p = 64
	}
	garbage := func() *big.Float { return new(big.Float).SetPrec(p).SetFloat64(-7.5e200) }
	switch typ {
	case "bigF":
		o := make([]*big.Float, n)
		for i := range o {
			if mode == 1 || i&1 == 0 {
				o[i] = garbage()
			}
		}
		return o
	case "bigC":
		o := make([]*bignum.Complex, n)
		for i := range o {
			switch {
			case mode == 1:
				o[i] = &bignum.Complex{garbage(), garbage()}
			case i%4 == 0:
				o[i] = &bignum.Complex{garbage(), garbage()}
			case i%4 == 1:
				o[i] = &bignum.Complex{nil, garbage()}
			case i%4 == 2:
				o[i] = &bignum.Complex{garbage(), nil}
			}
		}
		return o
	}
	return newOutput(typ, n)
}

// statsCheck: GetPrecisionStats(want, plaintext) decodes the plaintext itself; the worst error it
// reports obeys the bound of the round trip. (Exact zeros are reported as log2 of the default scale.)
func (e *ckksEnv) statsCheck(pt *rlwe.Plaintext, s sub, truth cvec, M, sf float64, cls string, desc func() string) {
	c := e.c
	n := 1 << s.logSlots
	want := make([]*bignum.Complex, n)
	for i := range want {
		want[i] = &bignum.Complex{new(big.Float).Copy(truth.re[i]), new(big.Float).Copy(truth.im[i])}
		if e.ci || realType(s.inType) {
			want[i][1] = new(big.Float).SetPrec(tprec)
		}
	}
	var st ckks.PrecisionStats
	c.Eval(1)
	c.Count("ckks_precision_stats", 1)
	if p, val := eng.Panics(func() { st = ckks.GetPrecisionStats(e.params, e.ecd, nil, want, pt, 0, false) }); p {
		c.Violate("C07|ckks.GetPrecisionStats|panic|"+cls, desc()+fmt.Sprintf(": %v", val), e.cfg)
		return
	}
	B := e.bound(s.logSlots, sf, M, 1<<20)
	floor := math.Exp2(-e.params.DefaultScale().Log2())
	lim := math.Max(B, floor) * (1 + 1e-9)
	worstRe := math.Exp2(-st.MINLog2Prec.Real)
	worstIm := math.Exp2(-st.MINLog2Prec.Imag)
	if !(worstRe <= lim) || (!e.ci && !(worstIm <= lim)) {
		c.Violate("C07|ckks.GetPrecisionStats|wrong-value|"+e.ringTag+"/"+e.pathTag, desc()+fmt.Sprintf(": minimum precision reported real=%.3f imag=%.3f bits, i.e. a worst error of %.4g / %.4g, bound %.4g", st.MINLog2Prec.Real, st.MINLog2Prec.Imag, worstRe, worstIm, lim), e.cfg)
	}
}

func (e *ckksEnv) slotCaseX(level, logSlots int, isNTT bool, iter int) {
	c := e.c
	n := 1 << logSlots
	maxL := e.params.MaxLevel()
	s := sub{level: level, logSlots: logSlots, isNTT: isNTT, lp: -1}
	s.target = eng.Pick(e.rnd, "pt", "pt-over-larger-poly", "pt-copynew", "ringqp.Poly", "ring.Poly", "pt")
	if s.target == "ringqp.Poly" {
		s.isMont = e.rnd.Bool()
		s.lp = e.rnd.N(e.params.PCount()+1) - 1 // -1 .. MaxLevelP
	} else if s.target == "ring.Poly" {
		s.isMont = e.rnd.Bool()
	}
	s.inType = eng.Pick(e.rnd, "c128", "f64", "bigF", "bigC")
	s.outType = eng.Pick(e.rnd, "c128", "f64", "bigF", "bigC")
	s.pat = ckksPats[(iter+e.rnd.N(3))%len(ckksPats)]
	switch (iter + e.rnd.N(2)) % 4 {
	case 0, 1:
		s.length, s.lenTag = n, "full"
	case 2:
		s.length, s.lenTag = 1, "1"
	default:
		s.length, s.lenTag = 1+e.rnd.N(n), "rand"
	}
	switch (iter + e.rnd.N(2)) % 5 {
	case 0:
		s.scale, s.scTag = rlwe.NewScale(1), "one"
	case 1:
		s.scale, s.scTag = rlwe.NewScale(2), "two"
	case 2:
		s.scale, s.scTag = rlwe.NewScale(8), "eight"
	case 3:
		s.scale, s.scTag = e.pickScale(level, 2)
	default:
		s.scale, s.scTag = e.params.DefaultScale(), "default"
	}
	s.prealloc = e.rnd.N(3)
	s.logprecs = []float64{eng.Pick(e.rnd, 1.0, -2, 0.5), eng.Pick(e.rnd, 30.0, 52, 60)}
	s.stats = true
	sf := scaleF64(s.scale)
	lq := e.log2Q(level)
	if s.lp >= 0 {
		if lpb := e.params.RingP().ModulusAtLevel[s.lp].BitLen(); lpb < lq {
			lq = lpb
		}
	}
	top := lq - 2 - int(math.Ceil(math.Log2(sf)))
	exMax := top
	exMin := -int(math.Floor(math.Log2(sf)))
	if exMax <= exMin-1 {
		c.Count("ckks_skipped_scale_above_Q", 1)
		return
	}
	switch e.rnd.N(3) {
	case 0:
		s.magTag = "max"
	default:
		s.magTag = "mid"
		exMax = exMin + 1 + e.rnd.N(exMax-exMin+1)
		if exMax > top {
			exMax = top
		}
	}
	realOnly := e.ci || realType(s.inType)
	mant, pin := uint(53), uint(53)
	if s.inType == "bigF" || s.inType == "bigC" {
		pin = e.prec
		if !e.arb {
			pin = 80
		}
		mant = pin
	}
	v := e.genVec(s.length, s.pat, exMax, exMin, mant, realOnly)
	M := maxMod(v)
	in := e.toInput(v, s.inType, pin)
	truth := zeroVec(n)
	copy(truth.re, v.re)
	copy(truth.im, v.im)

	key := fmt.Sprintf("ckksx/%s/%s/logN%d/%s/ls%d/ntt%v/%s/lp%d/mont%v/%s>%s/%s/len%s/sc%s/mag%s/pre%d/lp%v", e.ringTag, e.pathTag, e.cfg.LogN, lvlTag(level, maxL), logSlots, isNTT, s.target, s.lp, s.isMont, s.inType, s.outType, s.pat, s.lenTag, s.scTag, s.magTag, s.prealloc, s.logprecs)
	c.Distinct(key, true)
	c.Count("ckks_slot_encodings_ext", 1)
	cls := e.class(s)
	desc := func() string {
		return e.desc(s, M) + fmt.Sprintf(" prealloc=%d", s.prealloc)
	}

	rQ := e.params.RingQ().AtLevel(level)
	md := &rlwe.MetaData{}
	md.Scale = s.scale
	md.IsBatched = true
	md.LogDimensions = ring.Dimensions{Rows: 0, Cols: logSlots}
	md.IsNTT, md.IsMontgomery = isNTT, s.isMont
	var pt *rlwe.Plaintext
	var polyQ, polyP ring.Poly
	var bigPoly ring.Poly
	var guard [][]uint64
	var encErr error
	var call func()
	switch s.target {
	case "pt", "pt-copynew", "pt-over-larger-poly":
		switch s.target {
		case "pt":
			pt = ckks.NewPlaintext(e.params, level)
		case "pt-copynew":
			pt = ckks.NewPlaintext(e.params, level).CopyNew()
			c.Count("ckks_plaintexts_from_copynew", 1)
		default:
			bigPoly = e.params.RingQ().NewPoly()
			fill(e.rnd, bigPoly)
			for i := range bigPoly.Coeffs {
				guard = append(guard, append([]uint64{}, bigPoly.Coeffs[i]...))
			}
			var perr error
			if pt, perr = rlwe.NewPlaintextAtLevelFromPoly(level, bigPoly); perr != nil {
				c.Violate("C07|rlwe.NewPlaintextAtLevelFromPoly|error-on-admissible", perr.Error(), e.cfg)
				return
			}
			c.Count("ckks_receivers_larger_than_needed", 1)
		}
		fill(e.rnd, pt.Value)
		*pt.MetaData = *md.CopyNew()
		polyQ = pt.Value
		call = func() { encErr = e.ecd.Encode(in, pt) }
	case "ring.Poly":
		polyQ = rQ.NewPoly()
		fill(e.rnd, polyQ)
		call = func() { encErr = e.ecd.Embed(in, md, polyQ) }
	default:
		pp := ringqp.NewPoly(e.N, level, s.lp)
		fill(e.rnd, pp.Q)
		if s.lp >= 0 {
			fill(e.rnd, pp.P)
		} else {
			c.Count("ckks_embeds_into_ringqp_without_P", 1)
		}
		polyQ, polyP = pp.Q, pp.P
		call = func() { encErr = e.ecd.Embed(in, md, pp) }
	}
	snap := snapMD(md)
	// the accessors of core/rlwe/metadata.go agree with what the encoder is about to use
	c.Check(md.LogSlots() == logSlots && md.Slots() == n && math.Abs(md.LogScale()-math.Log2(sf)) <= 1e-9*(1+math.Abs(math.Log2(sf))), "C07|rlwe.PlaintextMetaData.Slots|wrong-value", func() string {
		return fmt.Sprintf("LogDimensions=%v scale=%s: LogSlots=%d Slots=%d LogScale=%v", md.LogDimensions, s.scale.Value.Text('g', 20), md.LogSlots(), md.Slots(), md.LogScale())
	})
	if p, val := eng.Panics(call); p {
		c.Eval(1)
		c.Violate("C07|ckks.Encoder.Embed|panic|"+cls, desc()+fmt.Sprintf(": %v", val), e.cfg)
		return
	}
	if encErr != nil {
		c.Violate("C07|ckks.Encoder.Embed|error-on-admissible|"+cls, desc()+": "+encErr.Error(), e.cfg)
		return
	}
	mdNow := md
	if pt != nil {
		mdNow = pt.MetaData
	}
	c.Check(snap.diff(mdNow) == "", "C07|ckks.Encoder.Embed|metadata-changed", func() string { return desc() + ": " + snap.diff(mdNow) })
	if guard != nil {
		c.Eval(1)
	rows:
		for i := level + 1; i <= maxL; i++ {
			for j := range guard[i] {
				if bigPoly.Coeffs[i][j] != guard[i][j] {
					c.Violate("C07|ckks.Encoder.Encode|receiver-over-larger-poly|row-above-level-written", desc()+fmt.Sprintf(": row %d position %d changed", i, j), e.cfg)
					break rows
				}
			}
		}
	}
	slots := e.slotList(n, s.length)
	B := e.bound(logSlots, sf, M, 1<<20)
	check := func(r *ring.Ring, p ring.Poly, part string) (good bool, unreduced bool) {
		got, ok, bad, unred := e.modelDecode(r, p, isNTT, s.isMont, logSlots, &s.scale.Value, slots)
		c.Eval(1)
		if !ok {
			c.Violate("C07|ckks.Encoder.Embed|wrong-value|"+cls, desc()+fmt.Sprintf(": %s part: coefficient %d outside the sub-ring Z[X^(N/n)] is non-zero", part, bad), e.cfg)
			return false, unred
		}
		worst, wi := 0.0, -1
		for a, i := range slots {
			if er := errAt(got.re[a], got.im[a], truth.re[i], truth.im[i], e.ci); er > worst || math.IsNaN(er) {
				worst, wi = er, i
			}
		}
		if worst <= B {
			c.Max("max_ckks_encode_err_over_bound_x1000_"+e.pathTag, int64(1000*worst/B))
		}
		if !(worst <= B) {
			c.Violate("C07|ckks.Encoder.Embed|wrong-value|"+cls, desc()+fmt.Sprintf(": %s part: canonical embedding of the polynomial at slot %d is off by %.4g, bound %.4g", part, wi, worst, B), e.cfg)
			return false, unred
		}
		return true, unred
	}
	good, unreduced := check(rQ, polyQ, "Q")
	if s.lp >= 0 && good {
		check(e.params.RingP().AtLevel(s.lp), polyP, "P")
	}
	if !good || pt == nil {
		return
	}
	e.decodeCheck(pt, s, truth, M, sf, unreduced, desc)
	c.Check(snap.diff(pt.MetaData) == "", "C07|ckks.Encoder.Decode|metadata-changed", func() string { return desc() + ": " + snap.diff(pt.MetaData) })
}

// coeffX: coefficient-domain []*big.Float inputs that are not of one precision / hold nil.
// Every element is judged at its own precision: |coefficient/scale - v_j| <= 1/(2 scale) + 2^-(p_j-3)|v_j|.
func (e *ckksEnv) coeffX(level int) {
	c := e.c
	rQ := e.params.RingQ().AtLevel(level)
	N := e.N
	lq := e.log2Q(level)
	k := lq - 8
	if k > 90 {
		k = 90
	}
	if k < 56 {
		c.Count("ckks_coeff_mixed_precision_skipped_Q_too_small", 1)
		return
	}
	scale := rlwe.NewScale(new(big.Float).SetPrec(128).SetMantExp(big.NewFloat(1), k))
	sf := math.Ldexp(1, k)
	P := e.prec
	if P < 64 {
		P = 64
	}
	P += 40
	for variant := 0; variant < 4; variant++ {
		length := 2 + e.rnd.N(N-1)
		vals := make([]*big.Float, length)
		want := make([]*big.Float, N)
		precs := make([]uint, N)
		for j := range want {
			want[j] = bf(0)
			precs[j] = 53
		}
		for j := 1; j < length; j++ {
			if variant == 3 && e.rnd.N(3) == 0 {
				continue // nil stands for 0
			}
			x := e.randMant(e.rnd.N(3)+1, P) // |x| in [1, 8): |x|*scale < Q/4
			vals[j] = new(big.Float).SetPrec(P).Set(x)
			want[j], precs[j] = x, P
		}
		var vtag string
		switch variant {
		case 0:
			vals[0], vtag = big.NewFloat(0.5), "first-prec53"
			want[0] = bf(0.5)
		case 1:
			vals[0], vtag = new(big.Float), "first-zero-value"
		case 2:
			vals[0], vtag = nil, "first-nil"
		default:
			x := e.randMant(1, P)
			vals[0], vtag = new(big.Float).SetPrec(P).Set(x), "uniform-precision-with-nil"
			want[0], precs[0] = x, P
		}
		isNTT := e.rnd.Bool()
		pt := ckks.NewPlaintext(e.params, level)
		if e.rnd.Bool() {
			fill(e.rnd, pt.Value)
		}
		pt.IsBatched, pt.IsNTT, pt.Scale = false, isNTT, scale
		c.Distinct(fmt.Sprintf("ckksx/%s/%s/logN%d/%s/coeff-bigF/%s/ntt%v", e.ringTag, e.pathTag, e.cfg.LogN, lvlTag(level, e.params.MaxLevel()), vtag, isNTT), true)
		c.Count("ckks_coeff_mixed_inputs", 1)
		desc := func() string {
			return fmt.Sprintf("ring=%s N=%d Q=%v level=%d coefficient domain IsNTT=%v []*big.Float of length %d, element precision %d, first element: %s, scale=2^%d", e.ringTag, N, e.cfg.Q, level, isNTT, length, P, vtag, k)
		}
		var err error
		c.Eval(1)
		if p, val := eng.Panics(func() { err = e.ecd.Encode(vals, pt) }); p {
			sig := "C07|ckks.Encoder.Encode|panic|coeff/bigF"
			if variant == 2 {
				sig = "C07|ckks.Encoder.Encode|panic|coeff/bigF/first-value-nil"
			}
			c.Violate(sig, desc()+fmt.Sprintf(": %v", val), e.cfg)
			continue
		}
		if err != nil {
			c.Violate("C07|ckks.Encoder.Encode|error-on-admissible|coeff/bigF", desc()+": "+err.Error(), e.cfg)
			continue
		}
		coef, _, _, _ := polyCoeffs(rQ, pt.Value, isNTT, false, N, &scale.Value, e.mprec+64)
		zero := bf(0)
		for j := 0; j < N; j++ {
			ax, _ := new(big.Float).Abs(want[j]).Float64()
			b := (0.5/sf)*(1+1e-9) + math.Ldexp(ax, -(int(precs[j])-3))*1.01
			if er := errAt(coef[j], zero, want[j], zero, true); !(er <= b) {
				sig := "C07|ckks.Encoder.Encode|wrong-value|coeff/bigF/" + lvlSig(level)
				switch {
				case j >= length:
					sig = "C07|ckks.Encoder.Encode|padding-nonzero|coeff/bigF"
				case variant <= 1:
					sig = "C07|ckks.Encoder.Encode|wrong-value|coeff/bigF/first-value-lower-precision"
				}
				c.Violate(sig, desc()+fmt.Sprintf(": coefficient %d of the plaintext polynomial is %s/scale, want %s (off by %.4g, bound %.4g at the precision %d of that element)", j, coef[j].Text('g', 45), want[j].Text('g', 45), er, b, precs[j]), e.cfg)
				break
			}
		}
	}
}

// refusalsX: documented limits are answered by an error, not by a panic, and leave the receiver alone.
func (e *ckksEnv) refusalsX() {
	c := e.c
	level := e.rnd.N(e.params.MaxLevel() + 1)
	maxLS := e.maxLogSlots
	N := e.N
	mkIn := func(typ string, n int) any {
		switch typ {
		case "c128":
			return make([]complex128, n)
		case "f64":
			return make([]float64, n)
		case "bigF":
			o := make([]*big.Float, n)
			for i := range o {
				o[i] = big.NewFloat(1)
			}
			return o
		default:
			o := make([]*bignum.Complex, n)
			for i := range o {
				o[i] = &bignum.Complex{big.NewFloat(1), big.NewFloat(0)}
			}
			return o
		}
	}
	type att struct {
		what    string
		batched bool
		cols    int
		in      any
	}
	var atts []att
	for _, typ := range []string{"c128", "f64", "bigF", "bigC"} {
		atts = append(atts, att{"too-many-values/dense", true, maxLS, mkIn(typ, (1<<maxLS)+1)})
		if maxLS > 0 {
			ls := e.rnd.N(maxLS)
			atts = append(atts, att{"too-many-values/sparse", true, ls, mkIn(typ, (1<<ls)+1)})
		}
	}
	atts = append(atts,
		att{"logslots-above-max", true, maxLS + 1, mkIn("c128", 1)},
		att{"logslots-negative", true, -1, mkIn("f64", 1)},
		att{"too-many-values/coeff", false, maxLS, mkIn("f64", N+1)},
		att{"too-many-values/coeff", false, maxLS, mkIn("bigF", N+1)},
		att{"unsupported-type/coeff", false, maxLS, mkIn("c128", 2)},
		att{"unsupported-type/coeff", false, maxLS, []int{1, 2}},
		att{"unsupported-type/batched", true, maxLS, []int{1, 2}},
		att{"unsupported-type/batched", true, maxLS, []float32{1, 2}},
	)
	for _, a := range atts {
		pt := ckks.NewPlaintext(e.params, level)
		pt.IsBatched = a.batched
		pt.IsNTT = e.rnd.Bool()
		pt.LogDimensions.Cols = a.cols
		fill(e.rnd, pt.Value)
		before := pt.Value.CopyNew()
		var err error
		c.Eval(1)
		c.Count("ckks_refusals_tried", 1)
		c.Distinct(fmt.Sprintf("ckksx/refusal/%s/%s/Encode/%s/%T", e.ringTag, e.pathTag, a.what, a.in), true)
		d := fmt.Sprintf("ring=%s N=%d max logSlots=%d precision=%d IsBatched=%v LogDimensions.Cols=%d: Encode(%T)", e.ringTag, N, maxLS, e.ecd.Prec(), a.batched, a.cols, a.in)
		if p, val := eng.Panics(func() { err = e.ecd.Encode(a.in, pt) }); p {
			c.Violate("C07|ckks.Encoder.Encode|panic|"+a.what, d+fmt.Sprintf(" panicked: %v", val), e.cfg)
			continue
		}
		if err == nil {
			c.Violate("C07|ckks.Encoder.Encode|no-error|"+a.what, d+" returned nil", e.cfg)
			continue
		}
		c.Count("ckks_refusals_with_error", 1)
		if !pt.Value.Equal(before) {
			c.Violate("C07|ckks.Encoder.Encode|receiver-modified-on-error|"+a.what, d+fmt.Sprintf(" returned %q but changed the plaintext", err.Error()), e.cfg)
		}
	}
	// Decode / DecodePublic / Embed / FFT / IFFT
	pt := ckks.NewPlaintext(e.params, level)
	_ = e.ecd.Encode([]float64{1}, pt)
	setCols := func(k int) *rlwe.Plaintext {
		p := pt.CopyNew()
		p.LogDimensions.Cols = k
		return p
	}
	var mismatched any = make([]*bignum.Complex, 4)
	if e.arb {
		mismatched = make([]complex128, 4)
	} else {
		for i := range mismatched.([]*bignum.Complex) {
			mismatched.([]*bignum.Complex)[i] = &bignum.Complex{big.NewFloat(1), big.NewFloat(0)}
		}
	}
	md := pt.MetaData.CopyNew()
	others := []struct {
		sig  string
		call func() error
	}{
		{"C07|ckks.Encoder.Decode|%s|logslots-above-max", func() error { return e.ecd.Decode(setCols(maxLS+1), make([]complex128, 1)) }},
		{"C07|ckks.Encoder.Decode|%s|logslots-negative", func() error { return e.ecd.Decode(setCols(-1), make([]complex128, 1)) }},
		{"C07|ckks.Encoder.Decode|%s|unsupported-type", func() error { return e.ecd.Decode(pt, make([]int, 1)) }},
		{"C07|ckks.Encoder.DecodePublic|%s|unsupported-type", func() error { return e.ecd.DecodePublic(pt, make([]float32, 1), 10) }},
		{"C07|ckks.Encoder.Embed|%s|unsupported-output-type", func() error { return e.ecd.Embed([]float64{1}, md, &pt.Value) }},
		{"C07|ckks.Encoder.FFT|%s|unsupported-type", func() error { return e.ecd.FFT(make([]float64, 4), 2) }},
		{"C07|ckks.Encoder.IFFT|%s|unsupported-type", func() error { return e.ecd.IFFT(make([]*big.Float, 4), 2) }},
		{"C07|ckks.Encoder.FFT|%s|type-of-the-other-precision-path", func() error { return e.ecd.FFT(mismatched, 2) }},
		{"C07|ckks.Encoder.IFFT|%s|type-of-the-other-precision-path", func() error { return e.ecd.IFFT(mismatched, 2) }},
	}
	for _, o := range others {
		var err error
		c.Eval(1)
		c.Count("ckks_refusals_tried", 1)
		c.Distinct(fmt.Sprintf("ckksx/refusal/%s/%s/%s", e.ringTag, e.pathTag, o.sig), true)
		d := fmt.Sprintf("ring=%s N=%d max logSlots=%d precision=%d", e.ringTag, N, maxLS, e.ecd.Prec())
		if p, val := eng.Panics(func() { err = o.call() }); p {
			c.Violate(fmt.Sprintf(o.sig, "panic"), d+fmt.Sprintf(": %v", val), e.cfg)
			continue
		}
		if err == nil {
			c.Violate(fmt.Sprintf(o.sig, "no-error"), d+": returned nil", e.cfg)
			continue
		}
		c.Count("ckks_refusals_with_error", 1)
	}
}
