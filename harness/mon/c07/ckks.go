package c07

import "verif/harness/eng"

func ckksCases(tier string, seed int64) []eng.Case { return nil }
