package c07

import (
	"fmt"
	"math"
	"math/big"

	"github.com/tuneinsight/lattigo/v6/core/rlwe"
	"github.com/tuneinsight/lattigo/v6/ring"
	"github.com/tuneinsight/lattigo/v6/ring/ringqp"
	"github.com/tuneinsight/lattigo/v6/schemes/ckks"
	"github.com/tuneinsight/lattigo/v6/utils/bignum"

	"verif/harness/eng"
	"verif/harness/gen"
	"verif/harness/obs"
	"verif/harness/ref"
)

type ckksCfg struct {
	Ring     string   `json:"ring"` // std | ci
	LogN     int      `json:"logN"`
	Q        []uint64 `json:"q"`
	P        []uint64 `json:"p"`
	QBits    []int    `json:"qbits"`
	LogScale int      `json:"logScale"`
	Prec     uint     `json:"prec"` // 0 = encoder default (max(53, log2 scale))
}

type precCombo struct {
	logScale int
	prec     uint
}

func ckksCases(tier string, seed int64) []eng.Case {
	r := eng.NewRand("c07-ckks-cases", seed)
	logNs := []int{4, 5, 6, 7, 8, 9}
	combos := []precCombo{{30, 0}, {45, 0}, {53, 0}, {54, 0}, {60, 0}, {90, 0}, {120, 0}, {40, 128}, {45, 256}, {30, 64}}
	per, variants := 8, 1
	if tier == "thorough" {
		logNs = []int{4, 5, 6, 7, 8, 9, 10}
		per, variants = 10, 3
	}
	var out []eng.Case
	seen := map[string]bool{}
	for _, rt := range []string{"std", "ci"} {
		for _, logN := range logNs {
			perm := r.Perm(len(combos))
			for vi := 0; vi < per*variants; vi++ {
				cb := combos[perm[vi%per]]
				nth := uint64(2) << logN
				if rt == "ci" {
					nth <<= 1
				}
				minb := ref.BitLen(nth) + 1
				var qbits []int
				total := 0
				nq := 1 + r.N(4)
				for i := 0; i < nq || total < cb.logScale+12; i++ {
					b := eng.Pick(r, 30, 36, 40, 45, 50, 55, 60)
					if b < minb {
						b = minb
					}
					qbits = append(qbits, b)
					total += b
					if len(qbits) >= 6 {
						break
					}
				}
				var pbits []int
				for i := r.N(3); i > 0; i-- {
					pbits = append(pbits, eng.Pick(r, 40, 55, 60))
				}
				q, p := gen.Chain(r, nth, qbits, pbits)
				if q == nil {
					continue
				}
				cfg := ckksCfg{Ring: rt, LogN: logN, Q: q, P: p, QBits: qbits, LogScale: cb.logScale, Prec: cb.prec}
				id := fmt.Sprintf("ckks/%s/logN%d/q%v/p%v/scale%d/prec%d/v%d", rt, logN, qbits, pbits, cb.logScale, cb.prec, vi/per)
				if seen[id] {
					continue
				}
				seen[id] = true
				out = append(out, eng.Case{ID: id, Sig: "C07|ckks", Desc: cfg, Run: func(c *eng.Ctx) { runCKKS(c, cfg) }})
			}
		}
	}
	return out
}

// ---------------------------------------------------------------------------------------------

const tprec = 384 // precision of the truth values and of all comparisons

type ckksEnv struct {
	c           *eng.Ctx
	cfg         ckksCfg
	params      ckks.Parameters
	ecd         *ckks.Encoder
	ci          bool
	arb         bool
	prec        uint // working precision of the encoder: 53 or Prec()
	N           int
	maxLogSlots int
	rnd         *eng.Rand
	mprec       uint // precision of the embedding model
	ringTag     string
	pathTag     string
}

type cvec struct {
	re, im []*big.Float // exact values; im nil entries never occur
}

func bf(x float64) *big.Float { return new(big.Float).SetPrec(tprec).SetFloat64(x) }

func zeroVec(n int) cvec {
	v := cvec{re: make([]*big.Float, n), im: make([]*big.Float, n)}
	for i := 0; i < n; i++ {
		v.re[i], v.im[i] = bf(0), bf(0)
	}
	return v
}

// randMant returns +-m * 2^(ex-bits) with m a uniformly random `bits`-bit integer (top bit set):
// |value| in [2^(ex-1), 2^ex).
func (e *ckksEnv) randMant(ex int, bits uint) *big.Float {
	buf := make([]byte, (bits+7)/8)
	e.rnd.Read(buf)
	m := new(big.Int).SetBytes(buf)
	m.Rsh(m, uint(len(buf)*8)-bits)
	m.SetBit(m, int(bits)-1, 1)
	f := new(big.Float).SetPrec(tprec).SetInt(m)
	f.SetMantExp(f, ex-int(bits))
	if e.rnd.Bool() {
		f.Neg(f)
	}
	return f
}

var ckksPats = []string{"disc", "mixed", "onehot", "const", "alt", "real", "imag", "tiny", "holes"}

// genVec draws `length` values whose modulus is below 2^exMax; exMin is the exponent of the
// smallest meaningful magnitude (1/scale). mant = mantissa bits of each component.
func (e *ckksEnv) genVec(length int, pat string, exMax, exMin int, mant uint, realOnly bool) cvec {
	v := zeroVec(length)
	if length == 0 {
		return v
	}
	ec := exMax - 1 // each component < 2^(exMax-1): modulus < 2^exMax / sqrt2
	if exMin > ec {
		exMin = ec
	}
	comp := func(ex int) (*big.Float, *big.Float) {
		re := e.randMant(ex, mant)
		im := bf(0)
		if !realOnly {
			im = e.randMant(ex-e.rnd.N(3), mant)
		}
		return re, im
	}
	switch pat {
	case "disc":
		for i := range v.re {
			v.re[i], v.im[i] = comp(ec - e.rnd.N(3))
		}
	case "mixed":
		for i := range v.re {
			v.re[i], v.im[i] = comp(exMin + e.rnd.N(ec-exMin+1))
		}
	case "onehot":
		i := e.rnd.N(length)
		v.re[i], v.im[i] = comp(ec)
	case "const":
		re, im := comp(ec)
		for i := range v.re {
			v.re[i], v.im[i] = new(big.Float).Copy(re), new(big.Float).Copy(im)
		}
	case "alt":
		re, im := comp(ec)
		for i := range v.re {
			v.re[i], v.im[i] = new(big.Float).Copy(re), new(big.Float).Copy(im)
			if i&1 == 1 {
				v.re[i].Neg(v.re[i])
				v.im[i].Neg(v.im[i])
			}
		}
	case "real":
		for i := range v.re {
			v.re[i] = e.randMant(ec-e.rnd.N(2), mant)
		}
	case "imag":
		for i := range v.re {
			if realOnly {
				v.re[i] = e.randMant(ec, mant)
			} else {
				v.im[i] = e.randMant(ec, mant)
			}
		}
	case "tiny":
		// around half a unit of the fixed-point grid, both signs (rounds to 0 or +-1)
		for i := range v.re {
			v.re[i] = e.randMant(exMin-e.rnd.N(3)+1, mant)
			if !realOnly && e.rnd.Bool() {
				v.im[i] = e.randMant(exMin-e.rnd.N(3)+1, mant)
			}
			if v.re[i].MantExp(nil) > ec {
				v.re[i], v.im[i] = bf(0), bf(0)
			}
		}
	case "holes":
		for i := range v.re {
			if e.rnd.N(3) != 0 {
				v.re[i], v.im[i] = comp(ec - e.rnd.N(4))
			}
		}
	}
	return v
}

func maxMod(v cvec) float64 {
	m := 0.0
	for i := range v.re {
		a, _ := v.re[i].Float64()
		b, _ := v.im[i].Float64()
		if h := math.Hypot(a, b); h > m {
			m = h
		}
	}
	return m * (1 + 1e-12)
}

// toInput converts the exact vector to the requested input type (values are exactly
// representable in it by construction). A nil entry stands for 0 in the big types.
func (e *ckksEnv) toInput(v cvec, typ string, pin uint) any {
	switch typ {
	case "c128":
		out := make([]complex128, len(v.re))
		for i := range out {
			a, _ := v.re[i].Float64()
			b, _ := v.im[i].Float64()
			out[i] = complex(a, b)
		}
		return out
	case "f64":
		out := make([]float64, len(v.re))
		for i := range out {
			out[i], _ = v.re[i].Float64()
		}
		return out
	case "bigF":
		out := make([]*big.Float, len(v.re))
		for i := range out {
			if v.re[i].Sign() == 0 && e.rnd.Bool() && i > 0 {
				continue // nil = 0
			}
			out[i] = new(big.Float).SetPrec(pin).Set(v.re[i])
		}
		return out
	default: // bigC
		out := make([]*bignum.Complex, len(v.re))
		for i := range out {
			if v.re[i].Sign() == 0 && v.im[i].Sign() == 0 && e.rnd.Bool() {
				continue
			}
			out[i] = &bignum.Complex{new(big.Float).SetPrec(pin).Set(v.re[i]), new(big.Float).SetPrec(pin).Set(v.im[i])}
		}
		return out
	}
}

// fromOutput converts a decoded slice to exact values; bad != "" when the output holds NaN/Inf/nil.
func fromOutput(out any) (v cvec, bad string) {
	setf := func(x float64) (*big.Float, bool) {
		if math.IsNaN(x) || math.IsInf(x, 0) {
			return bf(0), false
		}
		return bf(x), true
	}
	switch o := out.(type) {
	case []complex128:
		v = zeroVec(len(o))
		for i := range o {
			var ok1, ok2 bool
			v.re[i], ok1 = setf(real(o[i]))
			v.im[i], ok2 = setf(imag(o[i]))
			if !ok1 || !ok2 {
				bad = fmt.Sprintf("slot %d is %v", i, o[i])
			}
		}
	case []float64:
		v = zeroVec(len(o))
		for i := range o {
			var ok bool
			if v.re[i], ok = setf(o[i]); !ok {
				bad = fmt.Sprintf("slot %d is %v", i, o[i])
			}
		}
	case []*big.Float:
		v = zeroVec(len(o))
		for i := range o {
			if o[i] == nil || o[i].IsInf() {
				bad = fmt.Sprintf("slot %d is nil/Inf", i)
				continue
			}
			v.re[i] = new(big.Float).SetPrec(tprec).Set(o[i])
		}
	case []*bignum.Complex:
		v = zeroVec(len(o))
		for i := range o {
			if o[i] == nil || o[i][0] == nil || o[i][1] == nil || o[i][0].IsInf() || o[i][1].IsInf() {
				bad = fmt.Sprintf("slot %d is nil/Inf", i)
				continue
			}
			v.re[i] = new(big.Float).SetPrec(tprec).Set(o[i][0])
			v.im[i] = new(big.Float).SetPrec(tprec).Set(o[i][1])
		}
	}
	return
}

func newOutput(typ string, n int) any {
	switch typ {
	case "c128":
		o := make([]complex128, n)
		for i := range o {
			o[i] = complex(1e300, -1e300)
		}
		return o
	case "f64":
		o := make([]float64, n)
		for i := range o {
			o[i] = 1e300
		}
		return o
	case "bigF":
		return make([]*big.Float, n)
	default:
		return make([]*bignum.Complex, n)
	}
}

func outPrec(typ string) uint {
	if typ == "c128" || typ == "f64" {
		return 53
	}
	return 1 << 20
}

func realType(typ string) bool { return typ == "f64" || typ == "bigF" }

// errAt returns |got_i - want_i| (complex modulus, or real part only) as a float64.
func errAt(gr, gi, wr, wi *big.Float, realOnly bool) float64 {
	d := new(big.Float).SetPrec(tprec).Sub(gr, wr)
	a, _ := d.Float64()
	if realOnly {
		return math.Abs(a)
	}
	d.Sub(gi, wi)
	b, _ := d.Float64()
	return math.Hypot(a, b)
}

// bound is the worst-case distance between an input slot value and its decoded value: rounding of
// every real coefficient to the nearest integer (error <= 1/2 unit each, propagated through the
// n-term embedding sum) plus the floating-point error of an n-point inverse and forward FFT at p bits.
func (e *ckksEnv) bound(logSlots int, scale float64, M float64, pout uint) float64 {
	n := float64(int(1) << logSlots)
	// std: |sum_j (r_j + i r_{j+n}) w^j| <= n*sqrt(2)*0.5; ci: |r_0 + 2 sum_j r_j cos| <= (2n-1)*0.5
	k := 0.7072
	if e.ci {
		k = 1
	}
	p := e.prec
	if pout < p {
		p = pout
	}
	rel := math.Ldexp(float64(2*logSlots+4)*math.Sqrt(n)*M, -(int(p) - 4))
	return (k*n/scale + rel) * 1.01
}

func scaleF64(s rlwe.Scale) float64 { f, _ := s.Value.Float64(); return f }

func (e *ckksEnv) log2Q(level int) int {
	return e.params.RingQ().ModulusAtLevel[level].BitLen()
}

// pickScale returns a scale for the level and its class tag.
func (e *ckksEnv) pickScale(level int, cls int) (rlwe.Scale, string) {
	lq := e.log2Q(level)
	switch cls {
	case 1: // other power of two
		hi := lq - 6
		if hi > 120 {
			hi = 120
		}
		if hi < 9 {
			hi = 9
		}
		k := 8 + e.rnd.N(hi-8+1)
		return rlwe.NewScale(new(big.Float).SetMantExp(big.NewFloat(1), k)), "pow2"
	case 2: // not a power of two, not an integer
		hi := lq - 6
		if hi > 100 {
			hi = 100
		}
		if hi < 9 {
			hi = 9
		}
		k := 8 + e.rnd.N(hi-8+1)
		return rlwe.NewScale(math.Ldexp(1+e.rnd.F64(), k)), "nonpow2"
	case 3: // a prime of the chain (what rescaling produces)
		q := e.params.Q()[e.rnd.N(level+1)]
		if ref.BitLen(q) > lq-4 {
			return e.params.DefaultScale(), "default"
		}
		return rlwe.NewScale(q), "prime"
	}
	return e.params.DefaultScale(), "default"
}

func runCKKS(c *eng.Ctx, cfg ckksCfg) {
	rt := ring.Standard
	if cfg.Ring == "ci" {
		rt = ring.ConjugateInvariant
	}
	params, err := ckks.NewParametersFromLiteral(ckks.ParametersLiteral{LogN: cfg.LogN, Q: cfg.Q, P: cfg.P, RingType: rt, LogDefaultScale: cfg.LogScale})
	if err != nil {
		c.Inconclusive(fmt.Sprintf("parameters rejected: %v", err))
		return
	}
	e := &ckksEnv{c: c, cfg: cfg, params: params, ci: cfg.Ring == "ci", N: params.N(), maxLogSlots: params.LogMaxSlots(), rnd: c.Rand(), ringTag: cfg.Ring}
	if cfg.Prec != 0 {
		e.ecd = ckks.NewEncoder(params, cfg.Prec)
	} else {
		e.ecd = ckks.NewEncoder(params)
	}
	// every third case works with an encoder obtained through ShallowCopy (how evaluators and concurrent users get
	// theirs): it must be the same encoder, precision of its working buffers included
	if e.rnd.N(3) == 0 {
		e.ecd = e.ecd.ShallowCopy()
		c.Count("cases_with_shallow_copied_encoder", 1)
	}
	e.prec = e.ecd.Prec()
	e.arb = e.prec > 53
	e.pathTag = "f64"
	if e.arb {
		e.pathTag = "arb"
	} else {
		e.prec = 53
	}
	e.mprec = e.prec + 96
	if e.mprec < 192 {
		e.mprec = 192
	}
	c.Sample(map[string]any{"scheme": "ckks", "cfg": cfg, "encoder_precision": e.ecd.Prec(), "max_log_slots": e.maxLogSlots})

	maxL := params.MaxLevel()
	levels := []int{}
	if maxL <= 2 || c.Tier == "thorough" {
		for l := 0; l <= maxL; l++ {
			levels = append(levels, l)
		}
	} else {
		levels = []int{0, 1 + e.rnd.N(maxL-1), maxL}
	}
	e.fftChecks()
	iter := 0
	for _, level := range levels {
		reused := ckks.NewPlaintext(params, level)
		for logSlots := e.maxLogSlots; logSlots >= 0; logSlots-- {
			for _, isNTT := range []bool{true, false} {
				reps := 3
				if c.Tier == "thorough" {
					reps = 5
				}
				for rep := 0; rep < reps; rep++ {
					iter++
					e.slotCase(level, logSlots, isNTT, iter, reused)
				}
			}
			e.product(level, logSlots)
		}
		e.coeffCases(level)
	}
}

type sub struct {
	level, logSlots int
	isNTT, isMont   bool
	target          string
	lp              int
	inType, outType string
	pat             string
	length          int
	lenTag          string
	scale           rlwe.Scale
	scTag           string
	magTag          string
	// extension (zero values = the behaviour of the original families)
	prealloc int       // 0: nil/sentinel outputs, 1: big outputs allocated at the working precision, 2: partly allocated
	logprecs []float64 // DecodePublic precisions to try instead of one drawn at random
	stats    bool      // also decode through GetPrecisionStats
}

func (e *ckksEnv) sparse(logSlots int) bool { return logSlots < e.maxLogSlots }

// class gives the discriminating predicate of a failure of the encoding step.
func (e *ckksEnv) class(s sub) string {
	switch {
	case e.sparse(s.logSlots) && !s.isNTT:
		return "sparse-nonNTT"
	case e.ci && s.logSlots == 0 && s.isNTT && e.sparse(0):
		return "ci-1slot-NTT"
	}
	d := "dense"
	if e.sparse(s.logSlots) {
		d = "sparse"
	}
	n := "ntt"
	if !s.isNTT {
		n = "nonNTT"
	}
	return fmt.Sprintf("%s/%s/%s/%s/%s", e.ringTag, e.pathTag, d, n, lvlSig(s.level))
}

func (e *ckksEnv) desc(s sub, M float64) string {
	return fmt.Sprintf("ring=%s N=%d Q=%v level=%d logSlots=%d (max %d) IsNTT=%v IsMontgomery=%v target=%s levelP=%d encoder precision=%d in=%s out=%s pattern=%s len=%d scale=%s(%s) max|v|=%.6g",
		e.ringTag, e.N, e.cfg.Q, s.level, s.logSlots, e.maxLogSlots, s.isNTT, s.isMont, s.target, s.lp, e.ecd.Prec(), s.inType, s.outType, s.pat, s.length, s.scale.Value.Text('g', 12), s.scTag, M)
}

func (e *ckksEnv) slotList(n, length int) []int {
	if n <= 128 {
		l := make([]int, n)
		for i := range l {
			l[i] = i
		}
		return l
	}
	set := map[int]bool{0: true, 1: true, n - 1: true}
	if length > 0 {
		set[length-1] = true
	}
	if length < n {
		set[length] = true
	}
	for len(set) < 48 {
		set[e.rnd.N(n)] = true
	}
	var l []int
	for i := 0; i < n; i++ {
		if set[i] {
			l = append(l, i)
		}
	}
	return l
}

// modelDecode evaluates the canonical embedding of the polynomial at the listed slots.
func (e *ckksEnv) modelDecode(r *ring.Ring, p ring.Poly, isNTT, isMont bool, logSlots int, scale *big.Float, slots []int) (got cvec, ok bool, bad int, unreduced bool) {
	n := 1 << logSlots
	nReal := 2 * n
	if e.ci {
		nReal = n
	}
	coef, ok, bad, unreduced := polyCoeffs(r, p, isNTT, isMont, nReal, scale, e.mprec)
	got = zeroVec(len(slots))
	if !ok {
		return
	}
	if e.ci {
		got.re = embedCI(coef, n, slots, e.mprec)
	} else {
		got.re, got.im = embedStd(coef, n, slots, e.mprec)
	}
	return
}

func (e *ckksEnv) slotCase(level, logSlots int, isNTT bool, iter int, reused *rlwe.Plaintext) {
	c := e.c
	n := 1 << logSlots
	s := sub{level: level, logSlots: logSlots, isNTT: isNTT, lp: -1}
	// what is drawn
	s.target = "pt"
	if x := e.rnd.N(5); x == 0 {
		s.target = "ring.Poly"
		s.isMont = e.rnd.Bool()
	} else if x == 1 && e.params.PCount() > 0 {
		s.target = "ringqp.Poly"
		s.isMont = e.rnd.Bool()
		s.lp = e.rnd.N(e.params.PCount())
	}
	s.inType = eng.Pick(e.rnd, "c128", "f64", "bigF", "bigC")
	s.outType = eng.Pick(e.rnd, "c128", "f64", "bigF", "bigC")
	s.pat = ckksPats[(iter+e.rnd.N(3))%len(ckksPats)]
	switch (iter + e.rnd.N(2)) % 4 {
	case 0, 1:
		s.length, s.lenTag = n, "full"
	case 2:
		s.length, s.lenTag = 1, "1"
	default:
		s.length, s.lenTag = 1+e.rnd.N(n), "rand"
	}
	s.scale, s.scTag = e.pickScale(level, (iter/3+e.rnd.N(2))%4)
	sf := scaleF64(s.scale)
	// admissible magnitudes: 2^exMin ~ 1/scale ... 2^exMax <= 0.45*Q/scale (and P when embedding into QP)
	lq := e.log2Q(level)
	if s.lp >= 0 {
		if lpb := e.params.RingP().ModulusAtLevel[s.lp].BitLen(); lpb < lq {
			lq = lpb
		}
	}
	exMax := lq - 2 - int(math.Ceil(math.Log2(sf))) // 2^exMax * scale <= Q/4
	exMin := -int(math.Floor(math.Log2(sf)))
	if exMax <= exMin-1 {
		c.Count("ckks_skipped_scale_above_Q", 1)
		return
	}
	switch e.rnd.N(4) {
	case 0:
		s.magTag = "max"
	case 1:
		s.magTag = "unit"
		if exMax > 1 {
			exMax = 1
		}
	default:
		s.magTag = "mid"
		exMax = exMin + 1 + e.rnd.N(exMax-exMin+1)
		if exMax > lq-2-int(math.Ceil(math.Log2(sf))) {
			exMax = lq - 2 - int(math.Ceil(math.Log2(sf)))
		}
	}
	realOnly := e.ci || realType(s.inType)
	mant := uint(53)
	pin := uint(53)
	if s.inType == "bigF" || s.inType == "bigC" {
		pin = e.prec
		if !e.arb {
			pin = 80
		}
		if e.rnd.N(3) == 0 {
			// the caller's big.Floats carry less precision than the encoder works at (big.NewFloat gives 53 bits): the
			// values are exact in them, the encoder must round them up to its own precision, not down to theirs
			pin = eng.Pick(e.rnd, uint(53), uint(32), uint(64))
			c.Count("ckks_inputs_of_lower_precision_than_the_encoder", 1)
		}
		mant = pin
	}
	v := e.genVec(s.length, s.pat, exMax, exMin, mant, realOnly)
	M := maxMod(v)
	in := e.toInput(v, s.inType, pin)
	truth := zeroVec(n)
	copy(truth.re, v.re)
	copy(truth.im, v.im)

	trivial := s.pat == "disc" && s.lenTag == "full" && level == e.params.MaxLevel() && s.scTag == "default" && isNTT && s.target == "pt" && !e.sparse(logSlots) && !e.arb && s.inType == "c128" && s.outType == "c128"
	key := fmt.Sprintf("ckks/%s/%s/logN%d/%s/ls%d/ntt%v/%s/mont%v/%s>%s/%s/len%s/sc%s/mag%s", e.ringTag, e.pathTag, e.cfg.LogN, lvlTag(level, e.params.MaxLevel()), logSlots, isNTT, s.target, s.isMont, s.inType, s.outType, s.pat, s.lenTag, s.scTag, s.magTag)
	c.Distinct(key, !trivial)
	c.Count("ckks_slot_encodings", 1)
	if e.sparse(logSlots) {
		c.Count("ckks_sparse_encodings", 1)
	}
	cls := e.class(s)
	desc := func() string { return e.desc(s, M) }

	// ---- encode
	rQ := e.params.RingQ().AtLevel(level)
	var pt *rlwe.Plaintext
	var polyQ, polyP ring.Poly
	var encErr error
	md := &rlwe.MetaData{}
	md.Scale = s.scale
	md.IsBatched = true
	md.LogDimensions = ring.Dimensions{Rows: 0, Cols: logSlots}
	md.IsNTT, md.IsMontgomery = isNTT, s.isMont
	var call func()
	switch s.target {
	case "pt":
		pt = reused
		if e.rnd.N(3) == 0 {
			pt = ckks.NewPlaintext(e.params, level)
		} else {
			fill(e.rnd, pt.Value)
		}
		*pt.MetaData = *md
		polyQ = pt.Value
		call = func() { encErr = e.ecd.Encode(in, pt) }
	case "ring.Poly":
		polyQ = rQ.NewPoly()
		fill(e.rnd, polyQ)
		call = func() { encErr = e.ecd.Embed(in, md, polyQ) }
	default:
		pp := ringqp.NewPoly(e.N, level, s.lp)
		fill(e.rnd, pp.Q)
		fill(e.rnd, pp.P)
		polyQ, polyP = pp.Q, pp.P
		call = func() { encErr = e.ecd.Embed(in, md, pp) }
	}
	if p, val := eng.Panics(call); p {
		c.Eval(1)
		c.Violate("C07|ckks.Encoder.Embed|panic|"+cls, desc()+fmt.Sprintf(": %v", val), e.cfg)
		return
	}
	if encErr != nil {
		c.Violate("C07|ckks.Encoder.Embed|error-on-admissible|"+cls, desc()+": "+encErr.Error(), e.cfg)
		return
	}
	// ---- independent decoding of the polynomial
	slots := e.slotList(n, s.length)
	B := e.bound(logSlots, sf, M, 1<<20)
	check := func(r *ring.Ring, p ring.Poly, part string) (good bool, unreduced bool) {
		got, ok, bad, unred := e.modelDecode(r, p, isNTT, s.isMont, logSlots, &s.scale.Value, slots)
		c.Eval(1)
		if !ok {
			c.Violate("C07|ckks.Encoder.Embed|wrong-value|"+cls, desc()+fmt.Sprintf(": %s part: coefficient %d outside the sub-ring Z[X^(N/n)] is non-zero", part, bad), e.cfg)
			return false, unred
		}
		worst, wi := 0.0, -1
		for a, i := range slots {
			if er := errAt(got.re[a], got.im[a], truth.re[i], truth.im[i], e.ci); er > worst || math.IsNaN(er) {
				worst, wi = er, i
			}
		}
		if worst <= B {
			c.Max("max_ckks_encode_err_over_bound_x1000_"+e.pathTag, int64(1000*worst/B))
		}
		if !(worst <= B) {
			c.Violate("C07|ckks.Encoder.Embed|wrong-value|"+cls, desc()+fmt.Sprintf(": %s part: canonical embedding of the polynomial at slot %d is off by %.4g, bound %.4g", part, wi, worst, B), e.cfg)
			return false, unred
		}
		return true, unred
	}
	good, unreduced := check(rQ, polyQ, "Q")
	if unreduced {
		c.Count("ckks_embeddings_with_residues_ge_q", 1)
	}
	if s.lp >= 0 && good {
		check(e.params.RingP().AtLevel(s.lp), polyP, "P")
	}
	if !good || s.target != "pt" || s.isMont {
		return
	}
	// ---- the encoder's own decoding
	e.decodeCheck(pt, s, truth, M, sf, unreduced, desc)
}

func (e *ckksEnv) decodeCheck(pt *rlwe.Plaintext, s sub, truth cvec, M, sf float64, unreduced bool, desc func() string) {
	c := e.c
	n := 1 << s.logSlots
	cls := e.class(s)
	switch {
	case e.ci && e.arb:
		// one decoding routine (polyToComplex*, []*bignum.Complex branch, isreal) serves all of these
		cls = "ci/arb"
	case unreduced && !s.isNTT && s.level == 0:
		cls = "nonNTT-residues-not-reduced/level0"
	}
	type dec struct {
		logprec float64
		outLen  int
	}
	decs := []dec{{0, n}}
	if s.length < n && s.length > 0 {
		decs = append(decs, dec{0, s.length})
	}
	if s.logprecs == nil {
		decs = append(decs, dec{eng.Pick(e.rnd, 8.0, 20, 12.5, 45), n})
	} else {
		for _, lp := range s.logprecs {
			decs = append(decs, dec{lp, n})
		}
	}
	statsDone := false
	for _, d := range decs {
		out := newOutput(s.outType, d.outLen)
		if s.prealloc != 0 {
			out = e.newOutputPre(s.outType, d.outLen, s.prealloc)
			c.Count("ckks_decodes_into_preallocated_outputs", 1)
		}
		var err error
		api := "ckks.Encoder.Decode"
		call := func() { err = e.ecd.Decode(pt, out) }
		if d.logprec != 0 {
			api = "ckks.Encoder.DecodePublic"
			call = func() { err = e.ecd.DecodePublic(pt, out, d.logprec) }
		}
		c.Eval(1)
		if p, val := eng.Panics(call); p {
			c.Violate("C07|"+api+"|panic|"+cls, desc()+fmt.Sprintf(": out len %d: %v", d.outLen, val), e.cfg)
			continue
		}
		if err != nil {
			c.Violate("C07|"+api+"|error-on-admissible|"+cls, desc()+": "+err.Error(), e.cfg)
			continue
		}
		got, bad := fromOutput(out)
		if bad == "" && (s.outType == "bigF" || s.outType == "bigC") {
			// the decoded numbers belong to the caller: another use of the encoder (a second decoding of the same
			// plaintext into another vector, at another precision) must leave them as they are
			out2 := newOutput(s.outType, d.outLen)
			if p2, _ := eng.Panics(func() { _ = e.ecd.DecodePublic(pt, out2, 11.5) }); !p2 {
				again, _ := fromOutput(out)
				same := len(again.re) == len(got.re)
				for i := 0; same && i < len(got.re); i++ {
					same = again.re[i].Cmp(got.re[i]) == 0 && again.im[i].Cmp(got.im[i]) == 0
				}
				c.Count("ckks_decoded_vectors_rechecked_after_another_call", 1)
				c.Check(same, "C07|"+api+"|decoded-vector-changed-by-a-later-call|"+cls, func() string { return desc() })
			}
		}
		if bad != "" {
			c.Violate("C07|"+api+"|wrong-value|"+cls, desc()+": "+bad, e.cfg)
			continue
		}
		B := e.bound(s.logSlots, sf, M, outPrec(s.outType))
		if d.logprec != 0 {
			B += 0.7072 * math.Exp2(-d.logprec) * 1.001
			c.Count("ckks_decodepublic", 1)
		} else {
			c.Count("ckks_decodes", 1)
		}
		worst, wi := 0.0, -1
		for i := 0; i < d.outLen; i++ {
			if er := errAt(got.re[i], got.im[i], truth.re[i], truth.im[i], realType(s.outType)); er > worst || math.IsNaN(er) {
				worst, wi = er, i
			}
		}
		if worst <= B && d.logprec == 0 {
			c.Max("max_ckks_decode_err_over_bound_x1000_"+e.pathTag, int64(1000*worst/B))
		}
		if !(worst <= B) {
			c.Violate("C07|"+api+"|wrong-value|"+cls, desc()+fmt.Sprintf(": logprec=%v out len %d: slot %d is off by %.4g, bound %.4g", d.logprec, d.outLen, wi, worst, B), e.cfg)
			continue
		}
		if d.logprec != 0 {
			e.gridCheck(got, d.logprec, s, cls, desc)
		}
		if s.stats && !statsDone && d.logprec == 0 && d.outLen == n {
			statsDone = true
			e.statsCheck(pt, s, truth, M, sf, cls, desc)
		}
	}
}

// gridCheck: every value returned by DecodePublic is a multiple of 2^-logprec up to the rounding
// of the output type.
func (e *ckksEnv) gridCheck(got cvec, logprec float64, s sub, cls string, desc func() string) {
	c := e.c
	p := e.prec
	if op := outPrec(s.outType); op < p {
		p = op
	}
	// the library computes 2^logprec as exp(logprec*ln 2) at the working precision: a few ulps off
	tol := math.Ldexp(1, -(int(p) - 8))
	var sc *big.Float
	if logprec == math.Floor(logprec) {
		sc = new(big.Float).SetPrec(tprec).SetMantExp(big.NewFloat(1), int(logprec))
	} else {
		sc = new(big.Float).SetPrec(tprec).SetFloat64(math.Exp2(logprec))
		if tol < math.Ldexp(1, -48) {
			tol = math.Ldexp(1, -48)
		}
	}
	checked := 0
	for i := range got.re {
		for _, x := range []*big.Float{got.re[i], got.im[i]} {
			y := new(big.Float).SetPrec(tprec).Mul(x, sc)
			ay, _ := new(big.Float).Abs(y).Float64()
			if ay*tol > 0.125 {
				continue // the grid is finer than the precision of the value: nothing to observe
			}
			yi, _ := y.Int(nil)
			fr := new(big.Float).SetPrec(tprec).Sub(y, new(big.Float).SetPrec(tprec).SetInt(yi))
			f, _ := fr.Float64()
			f = math.Abs(f)
			if f > 0.5 {
				f = 1 - f
			}
			checked++
			if f > ay*tol+1e-300 {
				c.Violate("C07|ckks.Encoder.DecodePublic|not-on-grid|"+cls, desc()+fmt.Sprintf(": logprec=%v: slot %d value %s times 2^logprec is %.6g away from an integer (tolerance %.3g)", logprec, i, x.Text('g', 20), f, ay*tol), e.cfg)
				return
			}
		}
	}
	c.Eval(1)
	c.Count("ckks_grid_values_checked", int64(checked))
}

// product: the product (in Z_Q[X]/(X^N+1), naive model) of two encodings decodes, at the product
// of the scales, to the slot-wise product.
func (e *ckksEnv) product(level, logSlots int) {
	c := e.c
	if e.ci && logSlots == 0 && e.sparse(0) {
		return // the 1-slot conjugate-invariant encoding is judged (and fails) in slotCase
	}
	if e.N > 512 && e.rnd.N(3) != 0 {
		return
	}
	n := 1 << logSlots
	nReal := 2 * n
	if e.ci {
		nReal = n
	}
	lq := e.log2Q(level)
	k := (lq - 4 - ref.BitLen(uint64(nReal)) - 4) / 2
	if k > 62 {
		k = 62
	}
	if k < 10 {
		c.Count("ckks_product_skipped_Q_too_small", 1)
		return
	}
	rQ := e.params.RingQ().AtLevel(level)
	sc := rlwe.NewScale(new(big.Float).SetMantExp(big.NewFloat(1), k))
	sf := math.Ldexp(1, k)
	typ := "c128"
	mant := uint(53)
	if e.arb {
		typ, mant = "bigC", e.prec
	}
	var vs [2]cvec
	var pl [2]ring.Poly
	var Ms [2]float64
	for i := 0; i < 2; i++ {
		vs[i] = e.genVec(n, eng.Pick(e.rnd, "disc", "alt", "holes", "onehot"), 2, -k, mant, e.ci)
		Ms[i] = maxMod(vs[i])
		pt := ckks.NewPlaintext(e.params, level)
		pt.LogDimensions.Cols = logSlots
		pt.Scale = sc
		var err error
		if !c.Try("C07|ckks.Encoder.Encode", func() { err = e.ecd.Encode(e.toInput(vs[i], typ, mant), pt) }) || err != nil {
			return
		}
		pl[i] = obs.Plain(rQ, pt.Value, true, false)
	}
	prod := ckks.NewPlaintext(e.params, level)
	prod.LogDimensions.Cols = logSlots
	prod.Scale = sc.Mul(sc)
	for i, q := range rQ.ModuliChain()[:level+1] {
		if e.ci {
			copy(prod.Value.Coeffs[i], ref.ConjInvMul(pl[0].Coeffs[i], pl[1].Coeffs[i], q))
		} else {
			copy(prod.Value.Coeffs[i], ref.NegacyclicMul(pl[0].Coeffs[i], pl[1].Coeffs[i], q))
		}
	}
	rQ.NTT(prod.Value, prod.Value)
	out := newOutput(typ, n)
	var err error
	if !c.Try("C07|ckks.Encoder.Decode", func() { err = e.ecd.Decode(prod, out) }) {
		return
	}
	c.Eval(1)
	c.Count("ckks_products", 1)
	c.Distinct(fmt.Sprintf("ckks/%s/%s/logN%d/%s/ls%d/product", e.ringTag, e.pathTag, e.cfg.LogN, lvlTag(level, e.params.MaxLevel()), logSlots), true)
	if err != nil {
		c.Violate("C07|ckks.Encoder.Decode|error-on-admissible", err.Error(), e.cfg)
		return
	}
	got, bad := fromOutput(out)
	B1 := e.bound(logSlots, sf, Ms[0], 1<<20)
	B2 := e.bound(logSlots, sf, Ms[1], 1<<20)
	B := Ms[1]*B1 + Ms[0]*B2 + B1*B2 + e.bound(logSlots, sf*sf, Ms[0]*Ms[1], outPrec(typ))
	worst, wi := 0.0, -1
	if bad == "" {
		a, b := new(big.Float).SetPrec(tprec), new(big.Float).SetPrec(tprec)
		for i := 0; i < n; i++ {
			wr := new(big.Float).SetPrec(tprec)
			wim := new(big.Float).SetPrec(tprec)
			a.Mul(vs[0].re[i], vs[1].re[i])
			b.Mul(vs[0].im[i], vs[1].im[i])
			wr.Sub(a, b)
			a.Mul(vs[0].re[i], vs[1].im[i])
			b.Mul(vs[0].im[i], vs[1].re[i])
			wim.Add(a, b)
			if er := errAt(got.re[i], got.im[i], wr, wim, e.ci); er > worst || math.IsNaN(er) {
				worst, wi = er, i
			}
		}
	}
	if worst <= B {
		c.Max("max_ckks_product_err_over_bound_x1000", int64(1000*worst/B))
	}
	if bad != "" || !(worst <= B) {
		d := "dense"
		if e.sparse(logSlots) {
			d = "sparse"
		}
		c.Violate(fmt.Sprintf("C07|ckks.Encoder|product-not-slotwise|%s/%s/%s", e.ringTag, e.pathTag, d), fmt.Sprintf("ring=%s N=%d level=%d logSlots=%d scale=2^%d precision=%d: product of two encodings decodes at slot %d %.4g away from the slot-wise product (bound %.4g) %s", e.ringTag, e.N, level, logSlots, k, e.ecd.Prec(), wi, worst, B, bad), e.cfg)
	}
}

// coeffCases: coefficient-domain encoding (IsBatched=false) of []float64 / []*big.Float.
func (e *ckksEnv) coeffCases(level int) {
	c := e.c
	rQ := e.params.RingQ().AtLevel(level)
	N := e.N
	reused := ckks.NewPlaintext(e.params, level)
	first := true
	for rep := 0; rep < 10; rep++ {
		inType := eng.Pick(e.rnd, "f64", "bigF")
		outType := eng.Pick(e.rnd, "f64", "bigF", "c128", "bigC")
		var length int
		var lenTag string
		switch rep % 4 {
		case 0:
			length, lenTag = N, "full"
		case 1:
			length, lenTag = 1, "1"
		case 2:
			length, lenTag = N/2, "n/2"
		default:
			length, lenTag = 1+e.rnd.N(N), "rand"
		}
		isNTT := rep%5 != 4
		scale, scTag := e.pickScale(level, (rep+e.rnd.N(2))%4)
		sf := scaleF64(scale)
		lq := e.log2Q(level)
		exMax := lq - 2 - int(math.Ceil(math.Log2(sf)))
		exMin := -int(math.Floor(math.Log2(sf)))
		if exMax <= exMin-1 {
			continue
		}
		if e.rnd.Bool() {
			exMax = exMin + 1 + e.rnd.N(exMax-exMin+1)
			if exMax > lq-2-int(math.Ceil(math.Log2(sf))) {
				exMax = lq - 2 - int(math.Ceil(math.Log2(sf)))
			}
		}
		pin, mant := uint(53), uint(53)
		if inType == "bigF" {
			pin = e.prec
			if pin < 64 {
				pin = 64
			}
			mant = pin
		}
		pat := eng.Pick(e.rnd, "real", "mixed", "tiny", "holes", "onehot", "alt")
		v := e.genVec(length, pat, exMax+1, exMin, mant, true) // components < 2^exMax
		var in any
		if inType == "f64" {
			in = e.toInput(v, "f64", 53)
		} else {
			// BigFloatToFixedPointCRT works at the precision of values[0]: every value non-nil at pin bits
			o := make([]*big.Float, length)
			for i := range o {
				o[i] = new(big.Float).SetPrec(pin).Set(v.re[i])
			}
			in = o
		}
		M := maxMod(v)
		fresh := first || e.rnd.N(3) == 0
		first = false
		pt := reused
		if fresh {
			pt = ckks.NewPlaintext(e.params, level)
		}
		pt.IsBatched = false
		pt.IsNTT = isNTT
		pt.Scale = scale
		pt.LogDimensions = e.params.LogMaxDimensions()
		key := fmt.Sprintf("ckks/%s/%s/logN%d/%s/coeff/ntt%v/%s>%s/%s/len%s/sc%s/fresh%v", e.ringTag, e.pathTag, e.cfg.LogN, lvlTag(level, e.params.MaxLevel()), isNTT, inType, outType, pat, lenTag, scTag, fresh)
		c.Distinct(key, true)
		c.Count("ckks_coeff_encodings", 1)
		desc := func() string {
			return fmt.Sprintf("ring=%s N=%d Q=%v level=%d coefficient domain IsNTT=%v in=%s out=%s pattern=%s len=%d scale=%s(%s) reused plaintext=%v max|v|=%.6g", e.ringTag, N, e.cfg.Q, level, isNTT, inType, outType, pat, length, scale.Value.Text('g', 12), scTag, !fresh, M)
		}
		var err error
		if p, val := eng.Panics(func() { err = e.ecd.Encode(in, pt) }); p {
			c.Violate("C07|ckks.Encoder.Encode|panic|coeff/"+inType, desc()+fmt.Sprintf(": %v", val), e.cfg)
			continue
		}
		if err != nil {
			c.Violate("C07|ckks.Encoder.Encode|error-on-admissible|coeff/"+inType, desc()+": "+err.Error(), e.cfg)
			continue
		}
		// model: coefficient j of the polynomial (in the domain the flag announces) is round(v_j*scale)
		pw := uint(53)
		if inType == "bigF" {
			pw = pin
		}
		bnd := func(x *big.Float, pout uint) float64 {
			ax, _ := new(big.Float).Abs(x).Float64()
			p := pw
			if pout < p {
				p = pout
			}
			return (0.5/sf)*(1+1e-9) + math.Ldexp(ax, -(int(p)-3))*1.01
		}
		coef, _, _, _ := polyCoeffs(rQ, pt.Value, isNTT, false, N, &scale.Value, e.mprec)
		c.Eval(1)
		zero := bf(0)
		good := true
		for j := 0; j < N && good; j++ {
			want := zero
			if j < length {
				want = v.re[j]
			}
			er := errAt(coef[j], zero, want, zero, true)
			if !(er <= bnd(want, 1<<20)) {
				good = false
				sig := "C07|ckks.Encoder.Encode|wrong-value|coeff/" + inType + "/" + lvlSig(level)
				switch {
				case !isNTT:
					sig = "C07|ckks.Encoder.Encode|wrong-value|coeff/IsNTT-false-ignored"
				case j >= length && !fresh && inType == "bigF":
					sig = "C07|ckks.Encoder.Encode|padding-nonzero|coeff/bigF/reused-plaintext"
				case j >= length:
					sig = "C07|ckks.Encoder.Encode|padding-nonzero|coeff/" + inType
				}
				c.Violate(sig, desc()+fmt.Sprintf(": coefficient %d of the plaintext polynomial is %s/scale, want %s (bound %.3g)", j, coef[j].Text('g', 12), want.Text('g', 12), bnd(want, 1<<20)), e.cfg)
			}
		}
		if !good {
			continue
		}
		// the encoder's own decoding
		for _, logprec := range []float64{0, 16} {
			outLen := N
			if logprec == 0 && e.rnd.Bool() && length < N {
				outLen = length
			}
			out := newOutput(outType, outLen)
			api := "ckks.Encoder.Decode"
			call := func() { err = e.ecd.Decode(pt, out) }
			if logprec != 0 {
				api = "ckks.Encoder.DecodePublic"
				call = func() { err = e.ecd.DecodePublic(pt, out, logprec) }
			}
			c.Eval(1)
			if p, val := eng.Panics(call); p {
				c.Violate("C07|"+api+"|panic|coeff/"+outType, desc()+fmt.Sprintf(": %v", val), e.cfg)
				continue
			}
			if err != nil {
				c.Violate("C07|"+api+"|error-on-admissible|coeff/"+outType, desc()+": "+err.Error(), e.cfg)
				continue
			}
			// complex outputs of a coefficient-domain plaintext carry the value in the real part
			var got cvec
			var bad string
			if oc, ok := out.([]*bignum.Complex); ok {
				got = zeroVec(len(oc))
				for i := range oc {
					if oc[i] == nil || oc[i][0] == nil {
						bad = fmt.Sprintf("slot %d nil", i)
						continue
					}
					got.re[i] = new(big.Float).SetPrec(tprec).Set(oc[i][0])
				}
			} else {
				got, bad = fromOutput(out)
			}
			if bad != "" {
				c.Violate("C07|"+api+"|wrong-value|coeff/"+outType+"/"+lvlSig(level), desc()+": "+bad, e.cfg)
				continue
			}
			c.Count("ckks_coeff_decodes", 1)
			okd := true
			for j := 0; j < outLen && okd; j++ {
				want := zero
				if j < length {
					want = v.re[j]
				}
				b := bnd(want, outPrec(outType))
				if outPrec(outType) > 64 {
					b = bnd(want, 64)
				}
				if logprec != 0 {
					b += 0.5 * math.Exp2(-logprec) * 1.001
				}
				if er := errAt(got.re[j], zero, want, zero, true); !(er <= b) {
					okd = false
					c.Violate("C07|"+api+"|wrong-value|coeff/"+outType+"/"+lvlSig(level), desc()+fmt.Sprintf(": logprec=%v coefficient %d decodes to %s, want %s (bound %.3g)", logprec, j, got.re[j].Text('g', 12), want.Text('g', 12), b), e.cfg)
				}
			}
			if okd && logprec != 0 {
				// public decoding rounds every value to a multiple of 2^-logprec
				sc := new(big.Float).SetPrec(tprec).SetMantExp(big.NewFloat(1), int(logprec))
				for j := 0; j < outLen; j++ {
					y := new(big.Float).SetPrec(tprec).Mul(got.re[j], sc)
					ay, _ := new(big.Float).Abs(y).Float64()
					if ay > math.Ldexp(1, 40) {
						continue
					}
					if !y.IsInt() {
						c.Violate("C07|ckks.Encoder.DecodePublic|not-on-grid|coeff-domain", desc()+fmt.Sprintf(": logprec=%v: coefficient %d = %s is not a multiple of 2^-%v", logprec, j, got.re[j].Text('g', 20), logprec), e.cfg)
						break
					}
				}
			}
		}
	}
}

// fftChecks: Encoder.FFT against the naive special DFT; IFFT is its inverse.
func (e *ckksEnv) fftChecks() {
	c := e.c
	for logn := 0; logn <= e.maxLogSlots; logn++ {
		n := 1 << logn
		if n > 256 && e.rnd.N(2) == 0 {
			continue
		}
		mant := uint(53)
		if e.arb {
			mant = e.prec
		}
		x := e.genVec(n, eng.Pick(e.rnd, "disc", "mixed", "onehot", "alt"), 1, -40, mant, false)
		mk := func() any {
			if e.arb {
				o := make([]*bignum.Complex, n)
				for i := range o {
					o[i] = &bignum.Complex{new(big.Float).SetPrec(e.prec).Set(x.re[i]), new(big.Float).SetPrec(e.prec).Set(x.im[i])}
				}
				return o
			}
			return e.toInput(x, "c128", 53)
		}
		c.Distinct(fmt.Sprintf("ckks/%s/%s/logN%d/fft/%d", e.ringTag, e.pathTag, e.cfg.LogN, logn), true)
		c.Count("ckks_fft_checks", 1)
		gamma := math.Ldexp(1, -(int(e.prec) - 4))
		M := maxMod(x)
		// forward vs model
		y := mk()
		var err error
		if !c.Try("C07|ckks.Encoder.FFT", func() { err = e.ecd.FFT(y, logn) }) {
			continue
		}
		if err != nil {
			c.Violate("C07|ckks.Encoder.FFT|error-on-admissible", err.Error(), e.cfg)
			continue
		}
		got, bad := fromOutput(y)
		wr, wi := specialDFT(x.re, x.im, n, e.mprec)
		B := gamma * float64(logn+2) * float64(n) * M * 1.01
		worst := 0.0
		for i := 0; i < n && bad == ""; i++ {
			if er := errAt(got.re[i], got.im[i], wr[i], wi[i], false); er > worst || math.IsNaN(er) {
				worst = er
			}
		}
		c.Eval(1)
		if bad != "" || !(worst <= B) {
			c.Violate("C07|ckks.Encoder.FFT|wrong-value|"+e.ringTag+"/"+e.pathTag, fmt.Sprintf("ring=%s N=%d precision=%d logn=%d: FFT differs from the naive special DFT by %.4g (bound %.4g) %s", e.ringTag, e.N, e.ecd.Prec(), logn, worst, B, bad), e.cfg)
		}
		// inverse then model forward gives back the input
		z := mk()
		if !c.Try("C07|ckks.Encoder.IFFT", func() { err = e.ecd.IFFT(z, logn) }) {
			continue
		}
		if err != nil {
			c.Violate("C07|ckks.Encoder.IFFT|error-on-admissible", err.Error(), e.cfg)
			continue
		}
		gz, bad := fromOutput(z)
		B2 := gamma * float64(2*logn+4) * math.Sqrt(float64(n)) * M * 1.01
		worst = 0
		if bad == "" {
			br, bi := specialDFT(gz.re, gz.im, n, e.mprec)
			for i := 0; i < n; i++ {
				if er := errAt(br[i], bi[i], x.re[i], x.im[i], false); er > worst || math.IsNaN(er) {
					worst = er
				}
			}
		}
		c.Eval(1)
		if bad != "" || !(worst <= B2) {
			c.Violate("C07|ckks.Encoder.IFFT|wrong-value|"+e.ringTag+"/"+e.pathTag, fmt.Sprintf("ring=%s N=%d precision=%d logn=%d: DFT(IFFT(x)) differs from x by %.4g (bound %.4g) %s", e.ringTag, e.N, e.ecd.Prec(), logn, worst, B2, bad), e.cfg)
		}
		// FFT(IFFT(x)) == x with the encoder's own pair
		if !c.Try("C07|ckks.Encoder.FFT", func() { err = e.ecd.FFT(z, logn) }) || err != nil {
			continue
		}
		gz, bad = fromOutput(z)
		worst = 0
		for i := 0; i < n && bad == ""; i++ {
			if er := errAt(gz.re[i], gz.im[i], x.re[i], x.im[i], false); er > worst || math.IsNaN(er) {
				worst = er
			}
		}
		c.Eval(1)
		if bad != "" || !(worst <= 2*B2) {
			c.Violate("C07|ckks.Encoder.FFT|not-inverse-of-IFFT|"+e.ringTag+"/"+e.pathTag, fmt.Sprintf("ring=%s N=%d precision=%d logn=%d: FFT(IFFT(x)) differs from x by %.4g (bound %.4g) %s", e.ringTag, e.N, e.ecd.Prec(), logn, worst, 2*B2, bad), e.cfg)
		}
	}
}
