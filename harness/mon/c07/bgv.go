package c07

import (
	"fmt"
	"math"
	"math/big"

	"github.com/tuneinsight/lattigo/v6/core/rlwe"
	"github.com/tuneinsight/lattigo/v6/ring"
	"github.com/tuneinsight/lattigo/v6/ring/ringqp"
	"github.com/tuneinsight/lattigo/v6/schemes/bgv"

	"verif/harness/eng"
	"verif/harness/gen"
	"verif/harness/obs"
	"verif/harness/ref"
)

type bgvCfg struct {
	LogN   int      `json:"logN"`
	GapLog int      `json:"gapLog"` // log2(N / plaintext ring degree)
	T      uint64   `json:"t"`
	TBits  int      `json:"tbits"`
	Q      []uint64 `json:"q"`
	P      []uint64 `json:"p"`
}

// findT returns a prime t of the given bit length whose largest power-of-two cyclotomic order is
// exactly `order` when exact is set (so that lattigo picks a plaintext ring of degree order/2 <
// N), or at least `order` otherwise.
func findT(bits int, order uint64, exact bool, pos int) uint64 {
	for _, p := range gen.Primes(bits, order, 24, pos, nil) {
		if exact && p%(2*order) == 1 {
			continue
		}
		return p
	}
	return 0
}

func bgvCases(tier string, seed int64) []eng.Case {
	r := eng.NewRand("c07-bgv-cases", seed)
	logNs := []int{4, 5, 6, 7, 8, 9}
	if tier == "thorough" {
		logNs = []int{4, 5, 6, 7, 8, 9, 10, 11}
	}
	var out []eng.Case
	seen := map[string]bool{}
	for _, logN := range logNs {
		maxGap := logN - 3 // plaintext ring degree >= 8
		var gaps []int
		if tier == "thorough" {
			for g := 0; g <= maxGap; g++ {
				gaps = append(gaps, g)
			}
		} else {
			gaps = []int{0}
			if maxGap >= 1 {
				gaps = append(gaps, 1)
			}
			if maxGap >= 2 {
				gaps = append(gaps, maxGap)
			}
			if maxGap >= 4 {
				gaps = append(gaps, 2+r.N(maxGap-2))
			}
		}
		for _, g := range gaps {
			order := uint64(2) << (logN - g)
			minBits := ref.BitLen(order)
			all := []int{minBits, minBits + 1, 17, 20, 30, 45, 58}
			var tbs []int
			if tier == "thorough" || logN <= 6 {
				tbs = all
			} else {
				tbs = []int{all[r.N(2)], eng.Pick(r, 17, 20, 30), eng.Pick(r, 45, 58)}
			}
			if tier == "thorough" {
				tbs = append(tbs, tbs...) // a second chain for every plaintext modulus size
			}
			for ti, tb := range tbs {
				if tb < minBits {
					continue
				}
				t := findT(tb, order, g > 0, r.N(4))
				if t == 0 {
					t = findT(tb, order, g > 0, gen.PosAbove)
				}
				if t == 0 {
					continue
				}
				nq := 1 + r.N(4)
				q0 := eng.Pick(r, 25, 35, 45, 55, 60)
				if q0 < tb+2 {
					// the lift [0,t) of a message must fit the centred range of Q_0: t < Q_0/2
					q0 = tb + 2 + r.N(59-tb)
				}
				if q0 < logN+3 {
					q0 = logN + 3
				}
				qbits := []int{q0}
				for i := 1; i < nq; i++ {
					b := eng.Pick(r, 30, 40, 45, 55, 60)
					if b < logN+3 {
						b = logN + 3
					}
					qbits = append(qbits, b)
				}
				var pbits []int
				for i := r.N(3); i > 0; i-- {
					pbits = append(pbits, eng.Pick(r, 40, 55, 60))
				}
				q, p := gen.Chain(r, uint64(2)<<logN, qbits, pbits)
				if q == nil || q[0] <= 2*t {
					continue
				}
				bad := false
				for _, x := range append(append([]uint64{}, q...), p...) {
					if x == t {
						bad = true
					}
				}
				if bad {
					continue
				}
				cfg := bgvCfg{LogN: logN, GapLog: g, T: t, TBits: tb, Q: q, P: p}
				id := fmt.Sprintf("bgv/logN%d/gap%d/t%d/q%v/p%v/v%d", logN, g, t, qbits, pbits, ti/len(all))
				if seen[id] {
					continue
				}
				seen[id] = true
				out = append(out, eng.Case{ID: id, Sig: "C07|bgv", Desc: cfg, Run: func(c *eng.Ctx) { runBGV(c, cfg) }})
			}
		}
	}
	return out
}

// ---------------------------------------------------------------------------------------------

type bgvEnv struct {
	c      *eng.Ctx
	cfg    bgvCfg
	params bgv.Parameters
	ecd    *bgv.Encoder
	t      uint64
	N, n   int // ciphertext ring degree, plaintext ring degree (= slots = coefficient capacity)
	gap    int
	rnd    *eng.Rand
	gapTag string
}

const (
	upUniformT = iota
	upUniform64
	upBoundary
	upAllTm1
	upAllMax
	upOneHot
	numUPat
)

var patNames = []string{"uniform<t", "uniform64", "boundary", "all-top", "all-max", "onehot"}

func (e *bgvEnv) boundaryU() []uint64 {
	t := e.t
	k := (^uint64(0)) / t // largest multiple of t below 2^64
	return []uint64{0, 1, t - 1, t, t + 1, 1 << 63, ^uint64(0), 1<<63 - 1, 1<<63 + 1, (t - 1) / 2, (t + 1) / 2, k * t, k*t - 1, k*t + 1, 2*t - 1, 2 * t, 1<<62 + 1, ^uint64(0) - 1, t - 2, 2, (t + 3) / 2, (t - 3) / 2, t + (t+3)/2}
}

func (e *bgvEnv) boundaryI() []int64 {
	t := int64(e.t)
	k := math.MaxInt64 / t
	return []int64{0, 1, -1, math.MinInt64, math.MaxInt64, math.MinInt64 + 1, (t - 1) / 2, -(t - 1) / 2, (t + 1) / 2, -(t + 1) / 2, t - 1, -(t - 1), t, -t, t + 1, -(t + 1), k * t, -k * t, -k*t - 1, k*t + 1, 2, -2, -(t-1)/2 - 1, 1 << 62, -(1 << 62), (t + 3) / 2, -(t + 3) / 2, (t - 3) / 2, -(t - 3) / 2}
}

func (e *bgvEnv) valsU(pat, length int) []uint64 {
	v := make([]uint64, length)
	b := e.boundaryU()
	off := e.rnd.N(len(b))
	for i := range v {
		switch pat {
		case upUniformT:
			v[i] = e.rnd.U64() % e.t
		case upUniform64:
			v[i] = e.rnd.U64()
		case upBoundary:
			v[i] = b[(i+off)%len(b)]
		case upAllTm1:
			v[i] = e.t - 1
		case upAllMax:
			v[i] = ^uint64(0)
		case upOneHot:
		}
	}
	if pat == upOneHot && length > 0 {
		v[e.rnd.N(length)] = eng.Pick(e.rnd, b...)
	}
	return v
}

func (e *bgvEnv) valsI(pat, length int) []int64 {
	v := make([]int64, length)
	b := e.boundaryI()
	off := e.rnd.N(len(b))
	t := int64(e.t)
	for i := range v {
		switch pat {
		case upUniformT:
			v[i] = int64(e.rnd.U64()%e.t) - t/2
		case upUniform64:
			v[i] = int64(e.rnd.U64())
		case upBoundary:
			v[i] = b[(i+off)%len(b)]
		case upAllTm1:
			v[i] = -1
		case upAllMax:
			v[i] = math.MinInt64
		case upOneHot:
		}
	}
	if pat == upOneHot && length > 0 {
		v[e.rnd.N(length)] = eng.Pick(e.rnd, b...)
	}
	return v
}

func modI(v int64, t uint64) uint64 {
	if v >= 0 {
		return uint64(v) % t
	}
	x := uint64(-(v + 1)) // >= 0, no overflow for MinInt64
	return t - 1 - x%t
}

func (e *bgvEnv) lenFor(i int) (int, string) {
	n := e.n
	switch i % 6 {
	case 0:
		return n, "full"
	case 1:
		return n - 1, "n-1"
	case 2:
		return 1, "1"
	case 3:
		return 0, "0"
	case 4:
		return n / 2, "n/2"
	default:
		return 1 + e.rnd.N(n), "rand"
	}
}

func (e *bgvEnv) scaleFor(i int) (uint64, string) {
	t := e.t
	switch i % 6 {
	case 0:
		return 1, "1"
	case 1:
		return t - 1, "t-1"
	case 2:
		return 2, "2"
	case 3:
		return (t + 1) / 2, "(t+1)/2"
	default:
		return 1 + e.rnd.U64()%(t-1), "rand"
	}
}

func lvlTag(level, max int) string {
	switch {
	case level == 0 && max == 0:
		return "level0=max"
	case level == 0:
		return "level0"
	case level == max:
		return "max"
	}
	return "mid"
}

func lvlSig(level int) string {
	if level == 0 {
		return "level0"
	}
	return "levelN"
}

func domTag(batched bool) string {
	if batched {
		return "batched"
	}
	return "coeff"
}

// liftPoly brings the polynomial to the coefficient domain and returns, for every position j,
// the integer p_j in [0,t) such that coefficient_j = p_j * tinv (mod q_i) for every modulus of the
// level (tinv = t^-1 when scaledUp, 1 otherwise). ok=false when some coefficient has no such
// representation (bad is the first offending position).
func (e *bgvEnv) liftPoly(r *ring.Ring, p ring.Poly, isNTT, isMont, scaledUp bool) (lift []uint64, ok bool, bad int) {
	pl := obs.Plain(r, p, isNTT, isMont)
	mods := r.ModuliChain()[:r.Level()+1]
	lift = make([]uint64, r.N())
	for j := 0; j < r.N(); j++ {
		x := pl.Coeffs[0][j] % mods[0]
		if scaledUp {
			x = ref.MulMod(x, e.t%mods[0], mods[0])
		}
		if x >= e.t {
			return lift, false, j
		}
		lift[j] = x
		for i := 1; i < len(mods); i++ {
			y := pl.Coeffs[i][j] % mods[i]
			if scaledUp {
				y = ref.MulMod(y, e.t%mods[i], mods[i])
			}
			if y != x%mods[i] {
				return lift, false, j
			}
		}
	}
	return lift, true, -1
}

func runBGV(c *eng.Ctx, cfg bgvCfg) {
	params, err := bgv.NewParametersFromLiteral(bgv.ParametersLiteral{LogN: cfg.LogN, Q: cfg.Q, P: cfg.P, PlaintextModulus: cfg.T})
	if err != nil {
		c.Inconclusive(fmt.Sprintf("parameters rejected: %v", err))
		return
	}
	e := &bgvEnv{c: c, cfg: cfg, params: params, t: cfg.T, N: params.N(), n: params.RingT().N(), rnd: c.Rand()}
	e.gap = e.N / e.n
	if e.gap != 1<<cfg.GapLog {
		c.Inconclusive(fmt.Sprintf("plaintext ring degree %d, wanted gap 2^%d", e.n, cfg.GapLog))
		return
	}
	e.gapTag = "gap1"
	if e.gap > 1 {
		e.gapTag = "gapN"
	}
	if params.MaxSlots() != e.n {
		c.Violate("C07|bgv.Parameters.MaxSlots|wrong-value", fmt.Sprintf("MaxSlots=%d plaintext ring degree=%d", params.MaxSlots(), e.n), cfg)
	}
	e.ecd = bgv.NewEncoder(params)
	if c.Rand().N(3) == 0 {
		e.ecd = e.ecd.ShallowCopy()
		c.Count("cases_with_shallow_copied_encoder", 1)
	}
	c.Sample(map[string]any{"scheme": "bgv", "cfg": cfg, "slots": e.n, "N": e.N})

	maxL := params.MaxLevel()
	iter := 0
	for level := 0; level <= maxL; level++ {
		reused := bgv.NewPlaintext(params, level)
		for _, batched := range []bool{true, false} {
			for _, isNTT := range []bool{true, false} {
				for _, signed := range []bool{false, true} {
					for pat := 0; pat < numUPat; pat++ {
						iter++
						pt := reused
						if e.rnd.N(4) == 0 {
							pt = bgv.NewPlaintext(params, level)
						}
						e.roundTrip(pt, level, batched, isNTT, signed, pat, iter)
					}
				}
				e.noise(level, batched, isNTT)
				e.product(level, batched, isNTT)
			}
		}
		e.embed(level)
	}
}

func (e *bgvEnv) classKey(level int, batched, isNTT, signed bool, pat int, lenTag, scTag, extra string) (string, bool) {
	maxL := e.params.MaxLevel()
	key := fmt.Sprintf("bgv/%s/logN%d/%s/%s/ntt%v/signed%v/%s/len%s/sc%s/%s", e.gapTag, e.cfg.LogN, lvlTag(level, maxL), domTag(batched), isNTT, signed, patNames[pat], lenTag, scTag, extra)
	trivial := pat == upUniformT && lenTag == "full" && level == maxL && scTag == "1" && isNTT && e.gap == 1 && batched && extra == "rt"
	return key, !trivial
}

func (e *bgvEnv) roundTrip(pt *rlwe.Plaintext, level int, batched, isNTT, signed bool, pat, iter int) {
	c := e.c
	length, lenTag := e.lenFor(iter + e.rnd.N(6))
	sc, scTag := e.scaleFor(iter/2 + e.rnd.N(6))
	pt.IsBatched = batched
	pt.IsNTT = isNTT
	pt.Scale = rlwe.NewScaleModT(sc, e.t)
	typ := "u64"
	var vu []uint64
	var vi []int64
	want := make([]uint64, e.n)
	var in any
	if signed {
		typ = "i64"
		vi = e.valsI(pat, length)
		for i, v := range vi {
			want[i] = modI(v, e.t)
		}
		in = vi
	} else {
		vu = e.valsU(pat, length)
		for i, v := range vu {
			want[i] = v % e.t
		}
		in = vu
	}
	key, nt := e.classKey(level, batched, isNTT, signed, pat, lenTag, scTag, "rt")
	c.Distinct(key, nt)
	tag := fmt.Sprintf("%s/%s/%s/%s", domTag(batched), typ, e.gapTag, lvlSig(level))
	desc := func() string {
		return fmt.Sprintf("t=%d N=%d slots=%d level=%d %s ntt=%v pattern=%s len=%d scale=%d", e.t, e.N, e.n, level, tag, isNTT, patNames[pat], length, sc)
	}
	var encErr error
	if !c.Try("C07|bgv.Encoder.Encode", func() { encErr = e.ecd.Encode(in, pt) }) {
		return
	}
	if encErr != nil {
		c.Violate("C07|bgv.Encoder.Encode|error-on-admissible", desc()+": "+encErr.Error(), e.cfg)
		return
	}
	c.Count("bgv_roundtrips", 1)
	// inputs must be unchanged is C09's business; here: exact model of the plaintext polynomial
	rQ := e.params.RingQ().AtLevel(level)
	lift, ok, bad := e.liftPoly(rQ, pt.Value, isNTT, false, true)
	c.Eval(1)
	if !ok {
		c.Violate("C07|bgv.Encoder.Encode|wrong-poly|"+domTag(batched)+"/"+e.gapTag, desc()+fmt.Sprintf(": coefficient %d times t is not the lift of a value in [0,t) consistently over the moduli", bad), e.cfg)
	} else {
		okm := true
		at := -1
		for j := 0; j < e.N && okm; j++ {
			if j%e.gap != 0 {
				if lift[j] != 0 {
					okm, at = false, j
				}
				continue
			}
			if !batched {
				if lift[j] != ref.MulMod(want[j/e.gap], sc, e.t) {
					okm, at = false, j
				}
			}
		}
		if !okm {
			c.Violate("C07|bgv.Encoder.Encode|wrong-poly|"+domTag(batched)+"/"+e.gapTag, desc()+fmt.Sprintf(": position %d holds %d (positions not multiple of gap must be 0; coefficient domain: scale*v mod t)", at, lift[at]), e.cfg)
		}
	}
	e.decodeCheck(pt, want, length, signed, tag, "", desc)
}

// decodeCheck decodes pt into a full-length and into a short slice of the requested type and
// compares with want (residues mod t, zero beyond the encoded length).
func (e *bgvEnv) decodeCheck(pt *rlwe.Plaintext, want []uint64, length int, signed bool, tag, what string, desc func() string) {
	c := e.c
	t := e.t
	sigW := "C07|bgv.Encoder.Decode|wrong-value" + what + "|" + tag
	for _, short := range []bool{false, true} {
		outLen := e.n
		if short {
			if length == 0 || length == e.n {
				continue
			}
			outLen = length
		}
		var decErr error
		if signed {
			out := make([]int64, outLen)
			for i := range out {
				out[i] = 0x5a5a5a5a5a5a5a5a
			}
			p, val := eng.Panics(func() { decErr = e.ecd.Decode(pt, out) })
			c.Eval(1)
			if p {
				if short && !pt.IsBatched {
					c.Violate("C07|bgv.Encoder.Decode|panic|coeff-int64-short-output", desc()+fmt.Sprintf(": Decode into []int64 of length %d < N_t=%d panicked: %v", outLen, e.n, val), e.cfg)
				} else {
					c.Violate("C07|bgv.Encoder.Decode|panic|"+tag, desc()+fmt.Sprintf(": %v", val), e.cfg)
				}
				continue
			}
			if decErr != nil {
				c.Violate("C07|bgv.Encoder.Decode|error-on-admissible", desc()+": "+decErr.Error(), e.cfg)
				continue
			}
			half := int64((t + 1) / 2)
			for i, o := range out {
				if modI(o, t) != want[i] {
					c.Violate(sigW, desc()+fmt.Sprintf(": slot %d decodes to %d, want residue %d (out len %d)", i, o, want[i], outLen), e.cfg)
					break
				}
				if o > half || o < -half {
					c.Violate("C07|bgv.Encoder.Decode|signed-out-of-range|"+tag, desc()+fmt.Sprintf(": slot %d decodes to %d, |.| > (t+1)/2", i, o), e.cfg)
					break
				}
				if i >= length && o != 0 {
					c.Violate("C07|bgv.Encoder.Decode|padding-nonzero|"+tag, desc()+fmt.Sprintf(": slot %d >= len decodes to %d", i, o), e.cfg)
					break
				}
			}
		} else {
			out := make([]uint64, outLen)
			for i := range out {
				out[i] = 0x5a5a5a5a5a5a5a5a
			}
			p, val := eng.Panics(func() { decErr = e.ecd.Decode(pt, out) })
			c.Eval(1)
			if p {
				c.Violate("C07|bgv.Encoder.Decode|panic|"+tag, desc()+fmt.Sprintf(": %v", val), e.cfg)
				continue
			}
			if decErr != nil {
				c.Violate("C07|bgv.Encoder.Decode|error-on-admissible", desc()+": "+decErr.Error(), e.cfg)
				continue
			}
			for i, o := range out {
				if o != want[i] {
					c.Violate(sigW, desc()+fmt.Sprintf(": slot %d decodes to %d, want %d (out len %d)", i, o, want[i], outLen), e.cfg)
					break
				}
			}
		}
	}
}

// noise: Decode(Encode(v) + e) == v for every integer polynomial e with |lift(v) + t*e| < Q/2
// (this is what Decode receives after a decryption: the error term of a BGV ciphertext is a
// multiple of t in this representation). Extremal e exercise the centring of RingQ2T.
func (e *bgvEnv) noise(level int, batched, isNTT bool) {
	c := e.c
	rQ := e.params.RingQ().AtLevel(level)
	mods := rQ.ModuliChain()[:level+1]
	Q := new(big.Int).Set(rQ.ModulusAtLevel[level])
	half := new(big.Int).Rsh(Q, 1)
	lim := new(big.Int).Sub(half, new(big.Int).Rsh(half, 16))
	lim.Sub(lim, new(big.Int).SetUint64(e.t))
	E := new(big.Int).Div(lim, new(big.Int).SetUint64(e.t))
	if E.Sign() <= 0 {
		c.Count("bgv_noise_skipped_no_room", 1)
		return
	}
	for kind := 0; kind < 5; kind++ {
		signed := e.rnd.Bool()
		sc, _ := e.scaleFor(4)
		length := e.n
		if kind == 4 {
			length = 1 + e.rnd.N(e.n)
		}
		pt := bgv.NewPlaintext(e.params, level)
		pt.IsBatched, pt.IsNTT = batched, isNTT
		pt.Scale = rlwe.NewScaleModT(sc, e.t)
		want := make([]uint64, e.n)
		var in any
		if signed {
			v := e.valsI(upUniform64, length)
			for i := range v {
				want[i] = modI(v[i], e.t)
			}
			in = v
		} else {
			v := e.valsU(upBoundary, length)
			for i := range v {
				want[i] = v[i] % e.t
			}
			in = v
		}
		if err := e.ecd.Encode(in, pt); err != nil {
			return
		}
		pl := obs.Plain(rQ, pt.Value, isNTT, false)
		maxbits := 0
		for j := 0; j < e.N; j++ {
			ej := new(big.Int)
			switch kind {
			case 0: // uniform in [-E, E]
				buf := make([]byte, (E.BitLen()+7)/8+8)
				e.rnd.Read(buf)
				ej.SetBytes(buf)
				ej.Mod(ej, new(big.Int).Add(new(big.Int).Lsh(E, 1), big.NewInt(1)))
				ej.Sub(ej, E)
			case 1:
				ej.Set(E)
			case 2:
				ej.Neg(E)
			case 3:
				ej.Set(E)
				if j&1 == 1 {
					ej.Neg(ej)
				}
				ej.Sub(ej, big.NewInt(int64(e.rnd.N(3))-1))
				if ej.CmpAbs(E) > 0 {
					ej.Set(E)
				}
			default:
				ej.SetInt64(int64(e.rnd.N(5)) - 2)
				if ej.CmpAbs(E) > 0 {
					ej.SetInt64(0)
				}
			}
			if ej.BitLen() > maxbits {
				maxbits = ej.BitLen()
			}
			for i, q := range mods {
				pl.Coeffs[i][j] = ref.AddMod(pl.Coeffs[i][j]%q, ref.ModU(ej, q), q)
			}
		}
		if isNTT {
			rQ.NTT(pl, pl)
		}
		pt2 := bgv.NewPlaintext(e.params, level)
		*pt2.MetaData = *pt.MetaData
		for i := range mods {
			copy(pt2.Value.Coeffs[i], pl.Coeffs[i])
		}
		key := fmt.Sprintf("bgv/%s/logN%d/%s/%s/ntt%v/noise%d", e.gapTag, e.cfg.LogN, lvlTag(level, e.params.MaxLevel()), domTag(batched), isNTT, kind)
		c.Distinct(key, true)
		c.Count("bgv_noise_decodes", 1)
		c.Max("max_bgv_noise_bits", int64(maxbits))
		typ := "u64"
		if signed {
			typ = "i64"
		}
		tag := fmt.Sprintf("%s/%s/%s/%s", domTag(batched), typ, e.gapTag, lvlSig(level))
		e.decodeCheck(pt2, want, length, signed, tag, "-under-noise", func() string {
			return fmt.Sprintf("t=%d N=%d slots=%d level=%d Q=%v %s ntt=%v scale=%d noise kind %d (|e|<=%v, %d bits)", e.t, e.N, e.n, level, mods, tag, isNTT, sc, kind, E, maxbits)
		})
	}
}

// product: (plain embedding of v1) x Encode(v2), multiplied in Z_Q[X]/(X^N+1) by the naive model,
// decodes (at scale s1*s2) to the slot-wise product (batched) / the negacyclic convolution in the
// plaintext ring (coefficient domain).
func (e *bgvEnv) product(level int, batched, isNTT bool) {
	c := e.c
	rQ := e.params.RingQ().AtLevel(level)
	mods := rQ.ModuliChain()[:level+1]
	half := new(big.Int).Rsh(rQ.ModulusAtLevel[level], 1)
	lim := new(big.Int).Sub(half, new(big.Int).Rsh(half, 16))
	need := new(big.Int).SetUint64(e.t)
	need.Mul(need, need)
	need.Mul(need, big.NewInt(int64(e.n)))
	if need.Cmp(lim) > 0 {
		c.Count("bgv_product_skipped_Q_too_small", 1)
		return
	}
	if e.N > 1024 && e.rnd.N(4) != 0 {
		return
	}
	for rep := 0; rep < 2; rep++ {
		s1, _ := e.scaleFor(4)
		s2, _ := e.scaleFor(4 + rep)
		l1 := e.n
		l2 := e.n
		if rep == 1 {
			l1, l2 = 1+e.rnd.N(e.n), 1+e.rnd.N(e.n)
		}
		v1 := e.valsU(eng.Pick(e.rnd, upUniformT, upBoundary, upAllTm1), l1)
		v2 := e.valsU(eng.Pick(e.rnd, upUniformT, upBoundary, upUniform64), l2)
		a := rQ.NewPoly()
		r1 := make([]uint64, e.n)
		r2 := make([]uint64, e.n)
		for i, v := range v1 {
			r1[i] = v % e.t
		}
		for i, v := range v2 {
			r2[i] = v % e.t
		}
		if batched {
			md := &rlwe.MetaData{}
			md.Scale = rlwe.NewScaleModT(s1, e.t)
			md.IsBatched = true
			var err error
			if !c.Try("C07|bgv.Encoder.Embed", func() { err = e.ecd.Embed(v1, md, a) }) {
				return
			}
			if err != nil {
				c.Violate("C07|bgv.Encoder.Embed|error-on-admissible", err.Error(), e.cfg)
				return
			}
		} else {
			s1 = 1
			for i := 0; i < e.n; i++ {
				for k, q := range mods {
					a.Coeffs[k][i*e.gap] = r1[i] % q
				}
			}
		}
		pt := bgv.NewPlaintext(e.params, level)
		pt.IsBatched, pt.IsNTT = batched, isNTT
		pt.Scale = rlwe.NewScaleModT(s2, e.t)
		if err := e.ecd.Encode(v2, pt); err != nil {
			return
		}
		b := obs.Plain(rQ, pt.Value, isNTT, false)
		prod := bgv.NewPlaintext(e.params, level)
		for k, q := range mods {
			copy(prod.Value.Coeffs[k], ref.NegacyclicMul(a.Coeffs[k], b.Coeffs[k], q))
		}
		if isNTT {
			rQ.NTT(prod.Value, prod.Value)
		}
		prod.IsBatched, prod.IsNTT = batched, isNTT
		prod.Scale = rlwe.NewScaleModT(ref.MulMod(s1, s2, e.t), e.t)
		// the scale the library itself attaches to a product of encodings (Scale.Mul, as the evaluators do)
		{
			var lib rlwe.Scale
			if c.Try("C07|rlwe.Scale.Mul", func() { lib = rlwe.NewScaleModT(s1, e.t).Mul(rlwe.NewScaleModT(s2, e.t)) }) {
				c.Count("bgv_product_scales_checked", 1)
				c.Check(lib.Cmp(prod.Scale) == 0, "C07|rlwe.Scale.Mul|product-of-encodings-carries-another-scale", func() string {
					return fmt.Sprintf("t=%d s1=%d s2=%d: Scale.Mul gives %d, s1*s2 mod t = %d", e.t, s1, s2, lib.Uint64(), ref.MulMod(s1, s2, e.t))
				})
			}
		}
		var want []uint64
		if batched {
			want = make([]uint64, e.n)
			for i := range want {
				want[i] = ref.MulMod(r1[i], r2[i], e.t)
			}
		} else {
			want = ref.NegacyclicMul(r1, r2, e.t)
		}
		key := fmt.Sprintf("bgv/%s/logN%d/%s/%s/ntt%v/product%d", e.gapTag, e.cfg.LogN, lvlTag(level, e.params.MaxLevel()), domTag(batched), isNTT, rep)
		c.Distinct(key, true)
		c.Count("bgv_products", 1)
		out := make([]uint64, e.n)
		var err error
		if !c.Try("C07|bgv.Encoder.Decode", func() { err = e.ecd.Decode(prod, out) }) {
			return
		}
		c.Eval(1)
		if err != nil {
			c.Violate("C07|bgv.Encoder.Decode|error-on-admissible", err.Error(), e.cfg)
			return
		}
		for i := range out {
			if out[i] != want[i] {
				c.Violate("C07|bgv.Encoder|product-not-slotwise|"+domTag(batched)+"/"+e.gapTag, fmt.Sprintf("t=%d N=%d slots=%d level=%d ntt=%v s1=%d s2=%d len1=%d len2=%d: slot %d of the product decodes to %d, want %d", e.t, e.N, e.n, level, isNTT, s1, s2, l1, l2, i, out[i], want[i]), e.cfg)
				break
			}
		}
	}
}

// embed: Embed into ring.Poly and ringqp.Poly with every (IsNTT, IsMontgomery) must hold, in the
// representation the flags announce, the lift to [0,t) of the same plaintext-ring polynomial that
// Encode (validated by the round trips) puts in a plaintext.
func (e *bgvEnv) embed(level int) {
	c := e.c
	rQ := e.params.RingQ().AtLevel(level)
	for rep := 0; rep < 2; rep++ {
		length := e.n
		if rep == 1 {
			length = 1 + e.rnd.N(e.n)
		}
		signed := e.rnd.Bool()
		sc, _ := e.scaleFor(3 + rep)
		var in any
		if signed {
			in = e.valsI(eng.Pick(e.rnd, upBoundary, upUniform64), length)
		} else {
			in = e.valsU(eng.Pick(e.rnd, upBoundary, upUniform64), length)
		}
		pt := bgv.NewPlaintext(e.params, level)
		pt.IsBatched = true
		pt.Scale = rlwe.NewScaleModT(sc, e.t)
		if err := e.ecd.Encode(in, pt); err != nil {
			return
		}
		model, ok, _ := e.liftPoly(rQ, pt.Value, true, false, true)
		if !ok {
			return
		}
		for flags := 0; flags < 4; flags++ {
			isNTT, isMont := flags&1 == 1, flags&2 == 2
			md := &rlwe.MetaData{}
			md.Scale = rlwe.NewScaleModT(sc, e.t)
			md.IsBatched = true
			md.IsNTT, md.IsMontgomery = isNTT, isMont
			for _, target := range []string{"ring.Poly", "ringqp.Poly"} {
				maxP := e.params.MaxLevelP()
				lps := []int{-1}
				if target == "ringqp.Poly" {
					lps = nil
					for lp := -1; lp <= maxP; lp++ {
						lps = append(lps, lp)
					}
				}
				for _, lp := range lps {
					key := fmt.Sprintf("bgv/%s/logN%d/%s/embed/%s/ntt%v/mont%v/lp%d", e.gapTag, e.cfg.LogN, lvlTag(level, e.params.MaxLevel()), target, isNTT, isMont, lp)
					c.Distinct(key, true)
					c.Count("bgv_embeds", 1)
					sig := fmt.Sprintf("C07|bgv.Encoder.Embed|wrong-poly|%s/ntt%v/mont%v/%s", target, isNTT, isMont, e.gapTag)
					var err error
					var polyQ, polyP ring.Poly
					if target == "ring.Poly" {
						polyQ = rQ.NewPoly()
						fill(e.rnd, polyQ)
						if !c.Try("C07|bgv.Encoder.Embed", func() { err = e.ecd.Embed(in, md, polyQ) }) {
							continue
						}
					} else {
						pp := ringqp.NewPoly(e.N, level, lp)
						fill(e.rnd, pp.Q)
						if lp >= 0 {
							fill(e.rnd, pp.P)
						}
						if !c.Try("C07|bgv.Encoder.Embed", func() { err = e.ecd.Embed(in, md, pp) }) {
							continue
						}
						polyQ, polyP = pp.Q, pp.P
					}
					c.Eval(1)
					if err != nil {
						c.Violate("C07|bgv.Encoder.Embed|error-on-admissible", err.Error(), e.cfg)
						continue
					}
					got, ok, bad := e.liftPoly(rQ, polyQ, isNTT, isMont, false)
					if !ok {
						c.Violate(sig, fmt.Sprintf("t=%d N=%d level=%d: Q part, coefficient %d is not the lift of a value in [0,t)", e.t, e.N, level, bad), e.cfg)
						continue
					}
					for j := range got {
						if got[j] != model[j] {
							c.Violate(sig, fmt.Sprintf("t=%d N=%d level=%d len=%d scale=%d: Q part, coefficient %d is %d, the plaintext built by Encode holds %d", e.t, e.N, level, length, sc, j, got[j], model[j]), e.cfg)
							break
						}
					}
					if lp >= 0 {
						rP := e.params.RingP().AtLevel(lp)
						pl := obs.Plain(rP, polyP, isNTT, isMont)
						okp := true
						for i, q := range rP.ModuliChain()[:lp+1] {
							for j := 0; j < e.N && okp; j++ {
								if pl.Coeffs[i][j]%q != model[j]%q {
									okp = false
									c.Violate(sig+"/P", fmt.Sprintf("t=%d N=%d level=%d levelP=%d: P part row %d coefficient %d is %d, want %d", e.t, e.N, level, lp, i, j, pl.Coeffs[i][j], model[j]%q), e.cfg)
								}
							}
						}
					}
				}
			}
		}
	}
}

// fill writes garbage into a polynomial so that stale content is noticed.
func fill(r *eng.Rand, p ring.Poly) {
	for i := range p.Coeffs {
		for j := range p.Coeffs[i] {
			p.Coeffs[i][j] = r.U64() >> 4
		}
	}
}
